(** CardWireProofs.v — proofs about the model and reference of CardWire.v (C09). *)
From Coq Require Import DecimalString DecimalN DecimalPos Decimal Permutation.
From GW Require Import Base CardXml CardWire.

(* ------------------------------------------------------------------------- *)
(** * Basics *)

Lemma qname_eqb_spec a b : qname_eqb a b = true <-> a = b.
Proof.
  destruct a as [a1 a2], b as [b1 b2]; unfold qname_eqb; simpl.
  rewrite andb_true_iff, !String.eqb_eq.
  split; [intros [-> ->]; reflexivity | intros H; inversion H; auto].
Qed.

Lemma qname_eqb_refl a : qname_eqb a a = true.
Proof. apply qname_eqb_spec; reflexivity. Qed.

Lemma qname_eqb_false a b : qname_eqb a b = false <-> a <> b.
Proof.
  split; intros H.
  - intros E. apply qname_eqb_spec in E. congruence.
  - destruct (qname_eqb a b) eqn:E; auto. apply qname_eqb_spec in E. contradiction.
Qed.

Lemma str_empty_false s : str_empty s = false <-> s <> "".
Proof. destruct s; simpl; split; congruence. Qed.

Lemma obind_some {A B} (o : option A) (f : A -> option B) b :
  obind o f = Some b <-> exists a, o = Some a /\ f a = Some b.
Proof.
  destruct o; simpl; split.
  - intros H; eauto.
  - intros [x [E H]]; inversion E; subst; auto.
  - discriminate.
  - intros [x [E _]]; discriminate.
Qed.

Lemma omapM_map {A B C} (f : B -> option C) (g : A -> B) l :
  omapM f (map g l) = omapM (fun x => f (g x)) l.
Proof. induction l; simpl; auto. rewrite IHl. reflexivity. Qed.

Lemma omapM_ext {A B} (f g : A -> option B) l :
  (forall x, In x l -> f x = g x) -> omapM f l = omapM g l.
Proof.
  induction l; simpl; intros H; auto.
  rewrite (H a) by auto. rewrite IHl by auto. reflexivity.
Qed.

Lemma omapM_some_id {A} (l : list A) : omapM (fun x => Some x) l = Some l.
Proof. induction l; simpl; auto. rewrite IHl. reflexivity. Qed.

Lemma omapM_length {A B} (f : A -> option B) l l' : omapM f l = Some l' -> List.length l' = List.length l.
Proof.
  revert l'; induction l; simpl; intros l' H.
  - inversion H; reflexivity.
  - destruct (f a); simpl in H; [|discriminate].
    destruct (omapM f l); simpl in H; [|discriminate].
    inversion H; subst; simpl. f_equal; auto.
Qed.

(* ------------------------------------------------------------------------- *)
(** * Decimal numerals *)

Lemma to_uint_nonnil n : N.to_uint n <> Nil.
Proof.
  destruct n; simpl; [discriminate|]. apply Unsigned.to_uint_nonnil.
Qed.

Lemma dec_of_N_nonempty n : str_empty (dec_of_N n) = false.
Proof.
  unfold dec_of_N, NilZero.string_of_uint.
  pose proof (to_uint_nonnil n) as H.
  destruct (N.to_uint n); try contradiction; reflexivity.
Qed.

Lemma digits_dec_of_N n : digits_to_N (dec_of_N n) = Some n.
Proof.
  unfold digits_to_N. rewrite dec_of_N_nonempty.
  unfold dec_of_N, NilZero.string_of_uint.
  pose proof (to_uint_nonnil n) as H.
  assert (E : match N.to_uint n with Nil => "0" | _ => NilEmpty.string_of_uint (N.to_uint n) end
              = NilEmpty.string_of_uint (N.to_uint n)).
  { destruct (N.to_uint n); try contradiction; reflexivity. }
  rewrite E, NilEmpty.usu, DecimalN.Unsigned.of_to. reflexivity.
Qed.

Lemma parse_uint64_dec n : (n < two64)%N -> parse_uint64 (dec_of_N n) = Some n.
Proof.
  intros H. unfold parse_uint64. rewrite digits_dec_of_N.
  apply N.ltb_lt in H. rewrite H. reflexivity.
Qed.

(** ** strings.TrimSpace leaves a string of digits alone *)

Definition is_digit (c : ascii) : bool :=
  match c with
  | "0"%char | "1"%char | "2"%char | "3"%char | "4"%char
  | "5"%char | "6"%char | "7"%char | "8"%char | "9"%char => true
  | _ => false
  end.

Lemma uint_of_string_digits s d :
  NilEmpty.uint_of_string s = Some d -> forallb is_digit (list_ascii_of_string s) = true.
Proof.
  revert d; induction s as [|c s IH]; simpl; intros d H; auto.
  unfold NilEmpty.uint_of_string in H; simpl in H; fold NilEmpty.uint_of_string in H.
  destruct (NilEmpty.uint_of_string s) eqn:E; simpl in H.
  - rewrite (IH _ eq_refl), andb_true_r.
    destruct c as [[] [] [] [] [] [] [] []]; simpl in H; try discriminate; reflexivity.
  - destruct c as [[] [] [] [] [] [] [] []]; simpl in H; discriminate.
Qed.

Lemma digit_cases c : is_digit c = true ->
  c = "0"%char \/ c = "1"%char \/ c = "2"%char \/ c = "3"%char \/ c = "4"%char \/
  c = "5"%char \/ c = "6"%char \/ c = "7"%char \/ c = "8"%char \/ c = "9"%char.
Proof.
  destruct c as [[] [] [] [] [] [] [] []]; simpl; intros H; try discriminate; tauto.
Qed.

Ltac digit_case c H :=
  destruct (digit_cases c H) as [->|[->|[->|[->|[->|[->|[->|[->|[->| ->]]]]]]]]].

Lemma strip_one_digit c r : is_digit c = true -> strip_one (c :: r) = None.
Proof. intros H; digit_case c H; reflexivity. Qed.

Lemma strip3_digit e d c : is_digit c = true -> strip_one [e; d; c] <> Some [].
Proof.
  intros H. unfold strip_one.
  destruct (is_ascii_space e); [discriminate|].
  destruct (Ascii.eqb e (b 194)); [destruct (_ || _); discriminate|].
  destruct (Ascii.eqb e (b 225)).
  { digit_case c H; destruct (Ascii.eqb d (b 154)); simpl; discriminate. }
  destruct (Ascii.eqb e (b 226)).
  { digit_case c H; destruct (Ascii.eqb d (b 128)); destruct (Ascii.eqb d (b 129)); simpl; discriminate. }
  destruct (Ascii.eqb e (b 227)).
  { digit_case c H; destruct (Ascii.eqb d (b 128)); simpl; discriminate. }
  discriminate.
Qed.

Lemma strip2_digit d c : is_digit c = true -> strip_one [d; c] <> Some [].
Proof.
  intros H. unfold strip_one.
  destruct (is_ascii_space d); [discriminate|].
  destruct (Ascii.eqb d (b 194)).
  { digit_case c H; simpl; discriminate. }
  destruct (Ascii.eqb d (b 225)); [discriminate|].
  destruct (Ascii.eqb d (b 226)); [discriminate|].
  destruct (Ascii.eqb d (b 227)); discriminate.
Qed.

Lemma strip_one_rev_digit c r : is_digit c = true -> strip_one_rev (c :: r) = None.
Proof.
  intros H. unfold strip_one_rev.
  assert (S1 : is_ascii_space c = false) by (digit_case c H; reflexivity).
  rewrite S1.
  destruct r as [|d r']; auto.
  pose proof (strip2_digit d c H) as S2.
  destruct (strip_one [d; c]) as [[|x y]|] eqn:E1; try congruence;
    (destruct r' as [|e r'']; auto;
     pose proof (strip3_digit e d c H) as S3;
     destruct (strip_one [e; d; c]) as [[|x' y']|]; congruence).
Qed.

Lemma strip_many_digits one l fuel :
  (forall c r, is_digit c = true -> one (c :: r) = None) -> one [] = None ->
  forallb is_digit l = true -> strip_many one fuel l = l.
Proof.
  intros H1 H0 Hd. destruct fuel; simpl; auto.
  destruct l as [|c r]; [rewrite H0; reflexivity|].
  simpl in Hd. apply andb_true_iff in Hd. rewrite (H1 c r) by tauto. reflexivity.
Qed.

Lemma forallb_rev {A} (f : A -> bool) l : forallb f (rev l) = forallb f l.
Proof.
  induction l; simpl; auto. rewrite forallb_app, IHl. simpl. rewrite andb_true_r. apply andb_comm.
Qed.

Lemma go_trim_space_digits s :
  forallb is_digit (list_ascii_of_string s) = true -> go_trim_space s = s.
Proof.
  intros H. unfold go_trim_space.
  rewrite (strip_many_digits strip_one) by (auto using strip_one_digit).
  rewrite (strip_many_digits strip_one_rev); auto using strip_one_rev_digit.
  - rewrite rev_involutive. apply string_of_list_ascii_of_string.
  - rewrite forallb_rev. exact H.
Qed.

Lemma digits_to_N_digits s n :
  digits_to_N s = Some n -> forallb is_digit (list_ascii_of_string s) = true.
Proof.
  unfold digits_to_N. destruct (str_empty s); [discriminate|].
  destruct (NilEmpty.uint_of_string s) eqn:E; [|discriminate].
  intros _. eapply uint_of_string_digits; eauto.
Qed.

(** the server's reading of an nresults text that is a decimal numeral *)
Lemma unmarshal_uint_digits s n :
  digits_to_N s = Some n -> (n < two64)%N -> unmarshal_uint s = Ok n.
Proof.
  intros H Hlt. unfold unmarshal_uint.
  assert (Hne : str_empty s = false).
  { unfold digits_to_N in H. destruct (str_empty s); [discriminate|reflexivity]. }
  rewrite Hne, go_trim_space_digits by (eapply digits_to_N_digits; eauto).
  unfold parse_uint64. rewrite H. apply N.ltb_lt in Hlt. rewrite Hlt. reflexivity.
Qed.

(* ------------------------------------------------------------------------- *)
(** * The reference is coherent: reading what was written *)

Lemma append_nil_r s : (s ++ "")%string = s.
Proof. induction s; simpl; congruence. Qed.

Lemma append_assoc (a b c : string) : ((a ++ b) ++ c)%string = (a ++ (b ++ c))%string.
Proof. induction a; simpl; congruence. Qed.

Lemma pcdata_text_kid s : pcdata (text_kid s) = Some s.
Proof.
  unfold text_kid. destruct (str_empty s) eqn:E.
  - apply str_empty_spec in E. subst. reflexivity.
  - simpl. rewrite append_nil_r. reflexivity.
Qed.

Lemma chardata_text_kid s : chardata (text_kid s) = s.
Proof.
  unfold text_kid. destruct (str_empty s) eqn:E.
  - apply str_empty_spec in E. subst. reflexivity.
  - simpl. apply append_nil_r.
Qed.

Definition to3 (t : xtree) : elem3 :=
  match t with Elem n a k => (n, a, k) | _ => (("", ""), [], []) end.
Definition is_elem (t : xtree) : bool := match t with Elem _ _ _ => true | _ => false end.

Lemma elems_all l : forallb is_elem l = true -> elems l = Some (map to3 l).
Proof.
  induction l as [|x l IH]; simpl; intros H; auto.
  apply andb_true_iff in H. destruct H as [H1 H2].
  destruct x; simpl in H1; try discriminate. rewrite (IH H2). reflexivity.
Qed.

Lemma forallb_map {A B} (f : B -> bool) (g : A -> B) l : forallb f (map g l) = forallb (fun x => f (g x)) l.
Proof. induction l; simpl; congruence. Qed.

Lemma forallb_true {A} (l : list A) : forallb (fun _ => true) l = true.
Proof. induction l; simpl; auto. Qed.

Lemma read_tm_write t : read_tm (to3 (write_tm t)) = val_tm t.
Proof.
  destruct t as [text ng mt]. unfold write_tm, val_tm, read_tm. simpl.
  destruct ng as [ng|], mt as [mt|]; simpl; rewrite pcdata_text_kid;
    repeat match goal with |- context [val_negate ?x] => destruct (val_negate x); simpl end;
    repeat match goal with |- context [val_match ?x] => destruct (val_match x); simpl end;
    reflexivity.
Qed.

Definition IND3 : elem3 := (C "is-not-defined", [], []).

Lemma read_param_write p : read_param (to3 (write_param p)) = val_param p.
Proof.
  destruct p as [name cond]. unfold write_param, val_param, read_param. simpl.
  destruct cond as [| |[text ng mt]]; simpl; try reflexivity.
  unfold val_tm; simpl.
  destruct ng as [ng|], mt as [mt|]; simpl; rewrite pcdata_text_kid;
    repeat match goal with |- context [val_negate ?x] => destruct (val_negate x); simpl end;
    repeat match goal with |- context [val_match ?x] => destruct (val_match x); simpl end;
    reflexivity.
Qed.

Lemma read_pf_kids_cons_tm t r :
  read_pf_kids (to3 (write_tm t) :: r) =
  (olet rest <- read_pf_kids r; olet t' <- val_tm t; Some (t' :: fst rest, snd rest)).
Proof.
  cbn [read_pf_kids]. rewrite read_tm_write.
  replace (qname_eqb (fst (fst (to3 (write_tm t)))) (C "text-match")) with true by reflexivity.
  reflexivity.
Qed.

Lemma read_pf_kids_cons_param p r :
  read_pf_kids (to3 (write_param p) :: r) =
  (olet rest <- read_pf_kids r; olet p' <- val_param p; Some (fst rest, p' :: snd rest)).
Proof.
  cbn [read_pf_kids]. rewrite read_param_write.
  replace (qname_eqb (fst (fst (to3 (write_param p)))) (C "text-match")) with false by reflexivity.
  replace (qname_eqb (fst (fst (to3 (write_param p)))) (C "param-filter")) with true by reflexivity.
  reflexivity.
Qed.

Lemma read_pf_kids_write tms ps :
  read_pf_kids (map to3 (map write_tm tms ++ map write_param ps)) =
  (olet a <- omapM val_tm tms; olet c <- omapM val_param ps; Some (a, c)).
Proof.
  induction tms as [|t tms IH].
  - cbn [map app omapM obind]. induction ps as [|p ps IHp]; [reflexivity|].
    cbn [map omapM]. rewrite read_pf_kids_cons_param, IHp.
    destruct (omapM val_param ps); simpl; destruct (val_param p); reflexivity.
  - cbn [map app omapM]. rewrite read_pf_kids_cons_tm, IH.
    destruct (omapM val_tm tms); simpl; destruct (val_tm t); simpl; try reflexivity;
      destruct (omapM val_param ps); reflexivity.
Qed.

Lemma single_not {X} (name : qname) (es : list elem3) (a b : X) :
  (forall c, In c es -> is_empty_elem name c = false) ->
  match es with
  | [c] => if is_empty_elem name c then a else b
  | _ => b
  end = b.
Proof.
  intros H. destruct es as [|c [|d r]]; auto. rewrite (H c) by (left; reflexivity). reflexivity.
Qed.

Lemma write_kids_not_ind tms ps c :
  In c (map to3 (map write_tm tms ++ map write_param ps)) ->
  is_empty_elem (C "is-not-defined") c = false.
Proof.
  rewrite map_app, !map_map. intros H. apply in_app_or in H. destruct H as [H|H];
    apply in_map_iff in H; destruct H as [x [<- _]]; reflexivity.
Qed.

Lemma read_pf_write f : read_pf (to3 (write_pf f)) = val_pf f.
Proof.
  destruct f as [name test cond]. unfold write_pf, val_pf, read_pf. cbn [to3 xf_name xf_test xf_cond].
  replace (qname_eqb (C "prop-filter") (C "prop-filter")) with true by reflexivity. cbn [negb].
  assert (A : attrs_ok ["name"; "test"] (plain_attr "name" name :: opt_attr "test" test) = true)
    by (destruct test; reflexivity).
  rewrite A. cbn [negb].
  assert (G1 : get_attr "name" (plain_attr "name" name :: opt_attr "test" test) = Some name)
    by (destruct test; reflexivity).
  assert (G2 : get_attr "test" (plain_attr "name" name :: opt_attr "test" test) = test)
    by (destruct test; reflexivity).
  rewrite G1, G2. cbn [obind].
  destruct (val_test test) as [t|]; cbn [obind]; [|reflexivity].
  destruct cond as [|tms ps].
  - reflexivity.
  - rewrite elems_all.
    2:{ rewrite forallb_app, !forallb_map. unfold write_tm, write_param. simpl. rewrite !forallb_true. reflexivity. }
    cbn [obind]. rewrite single_not by (apply write_kids_not_ind).
    rewrite read_pf_kids_write.
    destruct (omapM val_tm tms); simpl; [|reflexivity].
    destruct (omapM val_param ps); reflexivity.
Qed.

Lemma is_elem_write_pf l : forallb is_elem (map write_pf l) = true.
Proof. rewrite forallb_map. apply forallb_true. Qed.

Lemma read_filter_write test pfs :
  read_filter (C "filter", opt_attr "test" test, map write_pf pfs) =
  (olet t <- val_test test; olet fs <- omapM val_pf pfs; Some (t, fs)).
Proof.
  unfold read_filter.
  replace (qname_eqb (C "filter") (C "filter")) with true by reflexivity. cbn [negb].
  assert (A : attrs_ok ["test"] (opt_attr "test" test) = true) by (destruct test; reflexivity).
  assert (G : get_attr "test" (opt_attr "test" test) = test) by (destruct test; reflexivity).
  rewrite A, G. cbn [negb]. destruct (val_test test); cbn [obind]; [|reflexivity].
  rewrite elems_all by apply is_elem_write_pf. cbn [obind].
  rewrite map_map, omapM_map.
  rewrite (omapM_ext _ val_pf) by (intros; apply read_pf_write).
  reflexivity.
Qed.

Lemma read_limit_write s : read_limit (to3 (write_limit s)) = val_nresults s.
Proof.
  unfold write_limit, read_limit. simpl. rewrite pcdata_text_kid. reflexivity.
Qed.

Lemma read_cprop_write n : read_cprop (C "prop", [plain_attr "name" n], []) = Some n.
Proof. reflexivity. Qed.

Lemma read_data_write d : read_data (to3 (write_data d)) = Some d.
Proof.
  destruct d as [|names]; [reflexivity|].
  unfold write_data, read_data. cbn [to3].
  replace (qname_eqb (C "address-data") (C "address-data") && attrs_ok [] []) with true by reflexivity.
  cbn [negb]. rewrite elems_all by (rewrite forallb_map; apply forallb_true).
  cbn [obind]. rewrite map_map. cbn [to3].
  assert (M : omapM read_cprop (map (fun x => (C "prop", [plain_attr "name" x], @nil xtree)) names) = Some names).
  { rewrite omapM_map. rewrite (omapM_ext _ (fun x => Some x)) by (intros; apply read_cprop_write).
    apply omapM_some_id. }
  rewrite single_not.
  2:{ intros c Hc. apply in_map_iff in Hc. destruct Hc as [x [<- _]]. reflexivity. }
  match goal with |- obind ?X _ = _ => replace X with (Some names) by (symmetry; exact M) end.
  reflexivity.
Qed.

Lemma read_item_write i : item_ok i = true -> read_item (to3 (write_item i)) = Some i.
Proof.
  destruct i as [d|n]; intros H.
  - unfold read_item, write_item.
    replace (qname_eqb (fst (fst (to3 (write_data d)))) (C "address-data")) with true
      by (destruct d; reflexivity).
    rewrite read_data_write. reflexivity.
  - unfold read_item, write_item. cbn [to3 fst]. simpl in H.
    apply negb_true_iff in H. change (NS_CARD, "address-data") with (C "address-data") in H. rewrite H.
    unfold is_empty_elem. rewrite qname_eqb_refl. reflexivity.
Qed.

Lemma read_items_write items :
  forallb item_ok items = true ->
  omapM read_item (map to3 (map write_item items)) = Some items.
Proof.
  induction items as [|i items IH]; simpl; intros H; auto.
  apply andb_true_iff in H. destruct H as [H1 H2].
  rewrite read_item_write by auto. simpl. rewrite IH by auto. reflexivity.
Qed.

Lemma is_elem_write_item l : forallb is_elem (map write_item l) = true.
Proof.
  induction l as [|i l IH]; simpl; auto. rewrite IH. destruct i as [[|?]|[? ?]]; reflexivity.
Qed.

(** the selector written by [write_sel], when there is one *)
Lemma read_sel_write s x :
  sel_ok s = true -> write_sel s = [x] -> is_sel_name (fst (fst (to3 x))) = true /\ read_sel (to3 x) = Some s.
Proof.
  destruct s as [| | |items]; simpl; intros Hok H; inversion H; subst; clear H.
  - split; reflexivity.
  - split; reflexivity.
  - split; [reflexivity|].
    unfold read_sel. cbn [to3].
    replace (is_empty_elem (D "allprop") (D "prop", [], map write_item items)) with false by reflexivity.
    replace (is_empty_elem (D "propname") (D "prop", [], map write_item items)) with false by reflexivity.
    replace (qname_eqb (D "prop") (D "prop") && attrs_ok [] []) with true by reflexivity.
    rewrite elems_all by apply is_elem_write_item. cbn [obind].
    rewrite read_items_write by auto. reflexivity.
Qed.

Lemma write_sel_cases s : write_sel s = [] /\ s = RSelNone \/ exists x, write_sel s = [x] /\ is_elem x = true.
Proof. destruct s; simpl; eauto. Qed.

Lemma is_sel_name_filter : is_sel_name (C "filter") = false. Proof. reflexivity. Qed.
Lemma is_sel_name_limit : is_sel_name (C "limit") = false. Proof. reflexivity. Qed.
Lemma is_sel_name_href : is_sel_name (D "href") = false. Proof. reflexivity. Qed.

Lemma rqk_sel e r acc s :
  is_sel_name (fst (fst e)) = true -> qa_sel acc = None -> read_sel e = Some s ->
  read_query_kids (e :: r) acc = read_query_kids r (mkQA (Some s) (qa_filter acc) (qa_limit acc)).
Proof. intros H1 H2 H3. cbn [read_query_kids]. rewrite H1, H2, H3. reflexivity. Qed.

Lemma read_query_write q :
  sel_ok (xq_sel q) = true -> rfc_read (write_query q) = (olet r <- val_query q; Some (RQuery r)).
Proof.
  intros Hok. destruct q as [sel test pfs limit]. cbn [xq_sel] in Hok.
  unfold write_query, rfc_read, val_query. cbn [xq_sel xq_test xq_filters xq_limit]. rewrite Hok. cbn [negb].
  replace (qname_eqb (C "addressbook-query") (C "addressbook-query")) with true by reflexivity.
  unfold read_query. replace (attrs_ok [] []) with true by reflexivity. cbn [negb].
  set (F := Elem (C "filter") (opt_attr "test" test) (map write_pf pfs)).
  assert (RF : forall acc r, qa_filter acc = None ->
             read_query_kids (to3 F :: r) acc =
             (olet f <- (olet t <- val_test test; olet fs <- omapM val_pf pfs; Some (t, fs));
              read_query_kids r (mkQA (qa_sel acc) (Some f) (qa_limit acc)))).
  { intros acc r Hn. cbn [read_query_kids]. unfold F at 1. cbn [to3 fst].
    rewrite is_sel_name_filter.
    replace (qname_eqb (C "filter") (C "filter")) with true by reflexivity.
    rewrite Hn. unfold F. cbn [to3]. rewrite read_filter_write. reflexivity. }
  assert (RL : forall acc s, qa_limit acc = None ->
             read_query_kids [to3 (write_limit s)] acc =
             (olet l <- val_nresults s; Some (mkQA (qa_sel acc) (qa_filter acc) (Some l)))).
  { intros acc s Hn. cbn [read_query_kids].
    replace (is_sel_name (fst (fst (to3 (write_limit s))))) with false by reflexivity.
    replace (qname_eqb (fst (fst (to3 (write_limit s)))) (C "filter")) with false by reflexivity.
    replace (qname_eqb (fst (fst (to3 (write_limit s)))) (C "limit")) with true by reflexivity.
    rewrite Hn, read_limit_write. destruct (val_nresults s); reflexivity. }
  assert (TAIL : forall acc, qa_filter acc = None -> qa_limit acc = None ->
             read_query_kids (to3 F :: map to3 (match limit with Some s => [write_limit s] | None => [] end)) acc =
             (olet t <- val_test test; olet fs <- omapM val_pf pfs;
              olet l <- match limit with None => Some None | Some s => olet n <- val_nresults s; Some (Some n) end;
              Some (mkQA (qa_sel acc) (Some (t, fs)) l))).
  { intros acc H1 H2. rewrite RF by auto.
    destruct (val_test test); cbn [obind]; [|reflexivity].
    destruct (omapM val_pf pfs); cbn [obind]; [|reflexivity].
    destruct limit as [s|]; cbn [map].
    - rewrite RL by (cbn; auto). destruct (val_nresults s); reflexivity.
    - cbn [read_query_kids obind]. rewrite H2. reflexivity. }
  destruct (write_sel_cases sel) as [[E ->]|[x [E Hx]]]; rewrite E.
  - cbn [app]. rewrite elems_all.
    2:{ cbn [forallb]. destruct limit; reflexivity. }
    cbn [obind map]. fold F.
    pose proof (TAIL (mkQA None None None) eq_refl eq_refl) as T. rewrite T.
    destruct (val_test test); cbn [obind]; [|reflexivity].
    destruct (omapM val_pf pfs); cbn [obind]; [|reflexivity].
    destruct limit as [s|]; cbn [obind]; [destruct (val_nresults s)|]; reflexivity.
  - destruct (read_sel_write sel x Hok E) as [N R].
    cbn [app]. rewrite elems_all.
    2:{ cbn [forallb]. rewrite Hx. destruct limit; reflexivity. }
    cbn [obind map]. fold F.
    rewrite (rqk_sel _ _ (mkQA None None None) sel N eq_refl R). cbn [qa_filter qa_limit].
    pose proof (TAIL (mkQA (Some sel) None None) eq_refl eq_refl) as T. rewrite T.
    destruct (val_test test); cbn [obind]; [|reflexivity].
    destruct (omapM val_pf pfs); cbn [obind]; [|reflexivity].
    destruct limit as [s|]; cbn [obind]; [destruct (val_nresults s)|]; reflexivity.
Qed.

Definition write_href (h : string) : xtree := Elem (D "href") [] (text_kid h).

Lemma read_href_write h : read_href (to3 (write_href h)) = Some h.
Proof.
  unfold read_href, write_href. cbn [to3].
  replace (qname_eqb (D "href") (D "href") && attrs_ok [] []) with true by reflexivity.
  cbn [negb]. apply pcdata_text_kid.
Qed.

Lemma read_multiget_kids_cons_href h r sel :
  read_multiget_kids (to3 (write_href h) :: r) sel =
  (olet rest <- read_multiget_kids r sel; Some (fst rest, h :: snd rest)).
Proof.
  cbn [read_multiget_kids]. rewrite read_href_write.
  replace (is_sel_name (fst (fst (to3 (write_href h))))) with false by reflexivity.
  replace (qname_eqb (fst (fst (to3 (write_href h)))) (D "href")) with true by reflexivity.
  reflexivity.
Qed.

Lemma read_multiget_kids_hrefs hrefs sel :
  read_multiget_kids (map to3 (map write_href hrefs)) sel = Some (sel, hrefs).
Proof.
  induction hrefs as [|h hrefs IH]; [reflexivity|].
  cbn [map]. rewrite read_multiget_kids_cons_href, IH. reflexivity.
Qed.

Lemma rmk_sel e r s :
  is_sel_name (fst (fst e)) = true -> read_sel e = Some s ->
  read_multiget_kids (e :: r) None = read_multiget_kids r (Some s).
Proof. intros H1 H2. cbn [read_multiget_kids]. rewrite H1, H2. reflexivity. Qed.

Lemma read_multiget_write m :
  sel_ok (rm_sel m) = true -> rfc_read (write_multiget m) = (olet r <- val_multiget m; Some (RMultiget r)).
Proof.
  intros Hok. destruct m as [sel hrefs]. cbn [rm_sel] in Hok.
  unfold write_multiget, rfc_read, val_multiget. cbn [rm_sel rm_hrefs]. rewrite Hok. cbn [andb].
  replace (qname_eqb (C "addressbook-multiget") (C "addressbook-query")) with false by reflexivity.
  replace (qname_eqb (C "addressbook-multiget") (C "addressbook-multiget")) with true by reflexivity.
  unfold read_multiget. replace (attrs_ok [] []) with true by reflexivity. cbn [negb].
  change (map (fun h => Elem (D "href") [] (text_kid h)) hrefs) with (map write_href hrefs).
  assert (EL : forallb is_elem (map write_href hrefs) = true) by (rewrite forallb_map; apply forallb_true).
  destruct (write_sel_cases sel) as [[E ->]|[x [E Hx]]]; rewrite E; cbn [app].
  - rewrite elems_all by exact EL. cbn [obind]. rewrite read_multiget_kids_hrefs. cbn [obind fst snd dflt].
    destruct hrefs; reflexivity.
  - destruct (read_sel_write sel x Hok E) as [N R].
    rewrite elems_all by (cbn [forallb]; rewrite Hx; exact EL).
    cbn [obind map]. rewrite (rmk_sel _ _ sel N R), read_multiget_kids_hrefs. cbn [obind fst snd dflt].
    destruct hrefs; reflexivity.
Qed.

Definition x_sel_ok (x : x_request) : bool :=
  match x with XQuery q => sel_ok (xq_sel q) | XMultiget m => sel_ok (rm_sel m) end.

(** reading a written raw request: exactly the conformant ones are read, as what they denote *)
Lemma rfc_read_write_raw x : x_sel_ok x = true -> rfc_read (rfc_write_raw x) = validate x.
Proof.
  destruct x as [q|m]; cbn [x_sel_ok rfc_write_raw validate]; intros H.
  - apply read_query_write, H.
  - apply read_multiget_write, H.
Qed.

Lemma validate_sel_ok x r : validate x = Some r -> x_sel_ok x = true.
Proof.
  destruct x as [q|m]; simpl.
  - unfold val_query. destruct (sel_ok (xq_sel q)); simpl; [reflexivity|discriminate].
  - unfold val_multiget. destruct (sel_ok (rm_sel m)); simpl; [reflexivity|discriminate].
Qed.

Lemma rfc_read_write_conformant x r : validate x = Some r -> rfc_read (rfc_write_raw x) = Some r.
Proof. intros H. rewrite rfc_read_write_raw by (eapply validate_sel_ok; eauto). exact H. Qed.

(** ** the canonical embedding of a well-formed request is conformant and denotes it *)

Definition wf_request (r : request) : bool :=
  match r with
  | RQuery q => sel_ok (rq_sel q) && match rq_limit q with Some n => (0 <? n)%N | None => true end
  | RMultiget m => sel_ok (rm_sel m) && nonempty (rm_hrefs m)
  end.

Lemma val_tm_raw t : val_tm (raw_tm t) = Some t.
Proof. destruct t as [s [] []]; reflexivity. Qed.

Lemma val_param_raw p : val_param (raw_param p) = Some p.
Proof.
  destruct p as [n [| |t]]; try reflexivity.
  unfold val_param, raw_param. simpl. rewrite val_tm_raw. reflexivity.
Qed.

Lemma val_pf_raw f : val_pf (raw_pf f) = Some f.
Proof.
  destruct f as [n t c]. unfold val_pf, raw_pf. cbn [xf_test xf_name xf_cond rf_name rf_test rf_cond].
  assert (T : val_test (Some (test_str t)) = Some t) by (destruct t; reflexivity).
  rewrite T. cbn [obind]. destruct c as [|tms ps]; [reflexivity|].
  rewrite !omapM_map.
  rewrite (omapM_ext _ (fun x => Some x)) by (intros; apply val_tm_raw).
  rewrite omapM_some_id. simpl.
  rewrite (omapM_ext _ (fun x => Some x)) by (intros; apply val_param_raw).
  rewrite omapM_some_id. reflexivity.
Qed.

Lemma validate_raw r : wf_request r = true -> validate (raw_request r) = Some r.
Proof.
  destruct r as [q|m]; simpl; intros H; apply andb_true_iff in H; destruct H as [H1 H2].
  - destruct q as [sel t fs lim]. unfold val_query, raw_query.
    cbn [rq_sel rq_test rq_filters rq_limit xq_sel xq_test xq_filters xq_limit] in *. rewrite H1. cbn [negb].
    assert (T : val_test (Some (test_str t)) = Some t) by (destruct t; reflexivity).
    rewrite T. cbn [obind]. rewrite omapM_map.
    rewrite (omapM_ext _ (fun x => Some x)) by (intros; apply val_pf_raw).
    rewrite omapM_some_id. simpl.
    destruct lim as [n|]; [|reflexivity].
    unfold val_nresults. rewrite digits_dec_of_N, H2. reflexivity.
  - unfold val_multiget. rewrite H1, H2. reflexivity.
Qed.

Theorem rfc_codec r : wf_request r = true -> rfc_read (rfc_write r) = Some r.
Proof. intros H. apply rfc_read_write_conformant, validate_raw, H. Qed.
