(** CardWireProofs.v — proofs about the model and reference of CardWire.v (C09). *)
From Coq Require Import DecimalString DecimalN DecimalPos Decimal Permutation.
From GW Require Import Base CardXml CardWire.

(* ------------------------------------------------------------------------- *)
(** * Basics *)

Lemma qname_eqb_spec a b : qname_eqb a b = true <-> a = b.
Proof.
  destruct a as [a1 a2], b as [b1 b2]; unfold qname_eqb; simpl.
  rewrite andb_true_iff, !String.eqb_eq.
  split; [intros [-> ->]; reflexivity | intros H; inversion H; auto].
Qed.

Lemma qname_eqb_refl a : qname_eqb a a = true.
Proof. apply qname_eqb_spec; reflexivity. Qed.

Lemma qname_eqb_false a b : qname_eqb a b = false <-> a <> b.
Proof.
  split; intros H.
  - intros E. apply qname_eqb_spec in E. congruence.
  - destruct (qname_eqb a b) eqn:E; auto. apply qname_eqb_spec in E. contradiction.
Qed.

Lemma str_empty_false s : str_empty s = false <-> s <> "".
Proof. destruct s; simpl; split; congruence. Qed.

Lemma obind_some {A B} (o : option A) (f : A -> option B) b :
  obind o f = Some b <-> exists a, o = Some a /\ f a = Some b.
Proof.
  destruct o; simpl; split.
  - intros H; eauto.
  - intros [x [E H]]; inversion E; subst; auto.
  - discriminate.
  - intros [x [E _]]; discriminate.
Qed.

Lemma omapM_map {A B C} (f : B -> option C) (g : A -> B) l :
  omapM f (map g l) = omapM (fun x => f (g x)) l.
Proof. induction l; simpl; auto. rewrite IHl. reflexivity. Qed.

Lemma omapM_ext {A B} (f g : A -> option B) l :
  (forall x, In x l -> f x = g x) -> omapM f l = omapM g l.
Proof.
  induction l; simpl; intros H; auto.
  rewrite (H a) by auto. rewrite IHl by auto. reflexivity.
Qed.

Lemma omapM_some_id {A} (l : list A) : omapM (fun x => Some x) l = Some l.
Proof. induction l; simpl; auto. rewrite IHl. reflexivity. Qed.

Lemma omapM_length {A B} (f : A -> option B) l l' : omapM f l = Some l' -> List.length l' = List.length l.
Proof.
  revert l'; induction l; simpl; intros l' H.
  - inversion H; reflexivity.
  - destruct (f a); simpl in H; [|discriminate].
    destruct (omapM f l); simpl in H; [|discriminate].
    inversion H; subst; simpl. f_equal; auto.
Qed.

(* ------------------------------------------------------------------------- *)
(** * Decimal numerals *)

Lemma to_uint_nonnil n : N.to_uint n <> Nil.
Proof.
  destruct n; simpl; [discriminate|]. apply Unsigned.to_uint_nonnil.
Qed.

Lemma dec_of_N_nonempty n : str_empty (dec_of_N n) = false.
Proof.
  unfold dec_of_N, NilZero.string_of_uint.
  pose proof (to_uint_nonnil n) as H.
  destruct (N.to_uint n); try contradiction; reflexivity.
Qed.

Lemma digits_dec_of_N n : digits_to_N (dec_of_N n) = Some n.
Proof.
  unfold digits_to_N. rewrite dec_of_N_nonempty.
  unfold dec_of_N, NilZero.string_of_uint.
  pose proof (to_uint_nonnil n) as H.
  assert (E : match N.to_uint n with Nil => "0" | _ => NilEmpty.string_of_uint (N.to_uint n) end
              = NilEmpty.string_of_uint (N.to_uint n)).
  { destruct (N.to_uint n); try contradiction; reflexivity. }
  rewrite E, NilEmpty.usu, DecimalN.Unsigned.of_to. reflexivity.
Qed.

Lemma parse_uint64_dec n : (n < two64)%N -> parse_uint64 (dec_of_N n) = Some n.
Proof.
  intros H. unfold parse_uint64. rewrite digits_dec_of_N.
  apply N.ltb_lt in H. rewrite H. reflexivity.
Qed.

(** ** strings.TrimSpace leaves a string of digits alone *)

Definition is_digit (c : ascii) : bool :=
  match c with
  | "0"%char | "1"%char | "2"%char | "3"%char | "4"%char
  | "5"%char | "6"%char | "7"%char | "8"%char | "9"%char => true
  | _ => false
  end.

Lemma uint_of_string_digits s d :
  NilEmpty.uint_of_string s = Some d -> forallb is_digit (list_ascii_of_string s) = true.
Proof.
  revert d; induction s as [|c s IH]; simpl; intros d H; auto.
  unfold NilEmpty.uint_of_string in H; simpl in H; fold NilEmpty.uint_of_string in H.
  destruct (NilEmpty.uint_of_string s) eqn:E; simpl in H.
  - rewrite (IH _ eq_refl), andb_true_r.
    destruct c as [[] [] [] [] [] [] [] []]; simpl in H; try discriminate; reflexivity.
  - destruct c as [[] [] [] [] [] [] [] []]; simpl in H; discriminate.
Qed.

Lemma digit_cases c : is_digit c = true ->
  c = "0"%char \/ c = "1"%char \/ c = "2"%char \/ c = "3"%char \/ c = "4"%char \/
  c = "5"%char \/ c = "6"%char \/ c = "7"%char \/ c = "8"%char \/ c = "9"%char.
Proof.
  destruct c as [[] [] [] [] [] [] [] []]; simpl; intros H; try discriminate; tauto.
Qed.

Ltac digit_case c H :=
  destruct (digit_cases c H) as [->|[->|[->|[->|[->|[->|[->|[->|[->| ->]]]]]]]]].

Lemma strip_one_digit c r : is_digit c = true -> strip_one (c :: r) = None.
Proof. intros H; digit_case c H; reflexivity. Qed.

Lemma strip3_digit e d c : is_digit c = true -> strip_one [e; d; c] <> Some [].
Proof.
  intros H. unfold strip_one.
  destruct (is_ascii_space e); [discriminate|].
  destruct (Ascii.eqb e (b 194)); [destruct (_ || _); discriminate|].
  destruct (Ascii.eqb e (b 225)).
  { digit_case c H; destruct (Ascii.eqb d (b 154)); simpl; discriminate. }
  destruct (Ascii.eqb e (b 226)).
  { digit_case c H; destruct (Ascii.eqb d (b 128)); destruct (Ascii.eqb d (b 129)); simpl; discriminate. }
  destruct (Ascii.eqb e (b 227)).
  { digit_case c H; destruct (Ascii.eqb d (b 128)); simpl; discriminate. }
  discriminate.
Qed.

Lemma strip2_digit d c : is_digit c = true -> strip_one [d; c] <> Some [].
Proof.
  intros H. unfold strip_one.
  destruct (is_ascii_space d); [discriminate|].
  destruct (Ascii.eqb d (b 194)).
  { digit_case c H; simpl; discriminate. }
  destruct (Ascii.eqb d (b 225)); [discriminate|].
  destruct (Ascii.eqb d (b 226)); [discriminate|].
  destruct (Ascii.eqb d (b 227)); discriminate.
Qed.

Lemma strip_one_rev_digit c r : is_digit c = true -> strip_one_rev (c :: r) = None.
Proof.
  intros H. unfold strip_one_rev.
  assert (S1 : is_ascii_space c = false) by (digit_case c H; reflexivity).
  rewrite S1.
  destruct r as [|d r']; auto.
  pose proof (strip2_digit d c H) as S2.
  destruct (strip_one [d; c]) as [[|x y]|] eqn:E1; try congruence;
    (destruct r' as [|e r'']; auto;
     pose proof (strip3_digit e d c H) as S3;
     destruct (strip_one [e; d; c]) as [[|x' y']|]; congruence).
Qed.

Lemma strip_many_digits one l fuel :
  (forall c r, is_digit c = true -> one (c :: r) = None) -> one [] = None ->
  forallb is_digit l = true -> strip_many one fuel l = l.
Proof.
  intros H1 H0 Hd. destruct fuel; simpl; auto.
  destruct l as [|c r]; [rewrite H0; reflexivity|].
  simpl in Hd. apply andb_true_iff in Hd. rewrite (H1 c r) by tauto. reflexivity.
Qed.

Lemma forallb_rev {A} (f : A -> bool) l : forallb f (rev l) = forallb f l.
Proof.
  induction l; simpl; auto. rewrite forallb_app, IHl. simpl. rewrite andb_true_r. apply andb_comm.
Qed.

Lemma go_trim_space_digits s :
  forallb is_digit (list_ascii_of_string s) = true -> go_trim_space s = s.
Proof.
  intros H. unfold go_trim_space.
  rewrite (strip_many_digits strip_one) by (auto using strip_one_digit).
  rewrite (strip_many_digits strip_one_rev); auto using strip_one_rev_digit.
  - rewrite rev_involutive. apply string_of_list_ascii_of_string.
  - rewrite forallb_rev. exact H.
Qed.

Lemma digits_to_N_digits s n :
  digits_to_N s = Some n -> forallb is_digit (list_ascii_of_string s) = true.
Proof.
  unfold digits_to_N. destruct (str_empty s); [discriminate|].
  destruct (NilEmpty.uint_of_string s) eqn:E; [|discriminate].
  intros _. eapply uint_of_string_digits; eauto.
Qed.

(** the server's reading of an nresults text that is a decimal numeral *)
Lemma unmarshal_uint_digits s n :
  digits_to_N s = Some n -> (n < two64)%N -> unmarshal_uint s = Ok n.
Proof.
  intros H Hlt. unfold unmarshal_uint.
  assert (Hne : str_empty s = false).
  { unfold digits_to_N in H. destruct (str_empty s); [discriminate|reflexivity]. }
  rewrite Hne, go_trim_space_digits by (eapply digits_to_N_digits; eauto).
  unfold parse_uint64. rewrite H. apply N.ltb_lt in Hlt. rewrite Hlt. reflexivity.
Qed.

(* ------------------------------------------------------------------------- *)
(** * The reference is coherent: reading what was written *)

Lemma append_nil_r s : (s ++ "")%string = s.
Proof. induction s; simpl; congruence. Qed.

Lemma append_assoc (a b c : string) : ((a ++ b) ++ c)%string = (a ++ (b ++ c))%string.
Proof. induction a; simpl; congruence. Qed.

Lemma pcdata_text_kid s : pcdata (text_kid s) = Some s.
Proof.
  unfold text_kid. destruct (str_empty s) eqn:E.
  - apply str_empty_spec in E. subst. reflexivity.
  - simpl. rewrite append_nil_r. reflexivity.
Qed.

Lemma chardata_text_kid s : chardata (text_kid s) = s.
Proof.
  unfold text_kid. destruct (str_empty s) eqn:E.
  - apply str_empty_spec in E. subst. reflexivity.
  - simpl. apply append_nil_r.
Qed.

Definition to3 (t : xtree) : elem3 :=
  match t with Elem n a k => (n, a, k) | _ => (("", ""), [], []) end.
Definition is_elem (t : xtree) : bool := match t with Elem _ _ _ => true | _ => false end.

Lemma elems_all l : forallb is_elem l = true -> elems l = Some (map to3 l).
Proof.
  induction l as [|x l IH]; simpl; intros H; auto.
  apply andb_true_iff in H. destruct H as [H1 H2].
  destruct x; simpl in H1; try discriminate. rewrite (IH H2). reflexivity.
Qed.

Lemma forallb_map {A B} (f : B -> bool) (g : A -> B) l : forallb f (map g l) = forallb (fun x => f (g x)) l.
Proof. induction l; simpl; congruence. Qed.

Lemma forallb_true {A} (l : list A) : forallb (fun _ => true) l = true.
Proof. induction l; simpl; auto. Qed.

Lemma read_tm_write t : read_tm (to3 (write_tm t)) = val_tm t.
Proof.
  destruct t as [text ng mt]. unfold write_tm, val_tm, read_tm. simpl.
  destruct ng as [ng|], mt as [mt|]; simpl; rewrite pcdata_text_kid;
    repeat match goal with |- context [val_negate ?x] => destruct (val_negate x); simpl end;
    repeat match goal with |- context [val_match ?x] => destruct (val_match x); simpl end;
    reflexivity.
Qed.

Definition IND3 : elem3 := (C "is-not-defined", [], []).

Lemma read_param_write p : read_param (to3 (write_param p)) = val_param p.
Proof.
  destruct p as [name cond]. unfold write_param, val_param, read_param. simpl.
  destruct cond as [| |[text ng mt]]; simpl; try reflexivity.
  unfold val_tm; simpl.
  destruct ng as [ng|], mt as [mt|]; simpl; rewrite pcdata_text_kid;
    repeat match goal with |- context [val_negate ?x] => destruct (val_negate x); simpl end;
    repeat match goal with |- context [val_match ?x] => destruct (val_match x); simpl end;
    reflexivity.
Qed.

Lemma read_pf_kids_cons_tm t r :
  read_pf_kids (to3 (write_tm t) :: r) =
  (olet rest <- read_pf_kids r; olet t' <- val_tm t; Some (t' :: fst rest, snd rest)).
Proof.
  cbn [read_pf_kids]. rewrite read_tm_write.
  replace (qname_eqb (fst (fst (to3 (write_tm t)))) (C "text-match")) with true by reflexivity.
  reflexivity.
Qed.

Lemma read_pf_kids_cons_param p r :
  read_pf_kids (to3 (write_param p) :: r) =
  (olet rest <- read_pf_kids r; olet p' <- val_param p; Some (fst rest, p' :: snd rest)).
Proof.
  cbn [read_pf_kids]. rewrite read_param_write.
  replace (qname_eqb (fst (fst (to3 (write_param p)))) (C "text-match")) with false by reflexivity.
  replace (qname_eqb (fst (fst (to3 (write_param p)))) (C "param-filter")) with true by reflexivity.
  reflexivity.
Qed.

Lemma read_pf_kids_write tms ps :
  read_pf_kids (map to3 (map write_tm tms ++ map write_param ps)) =
  (olet a <- omapM val_tm tms; olet c <- omapM val_param ps; Some (a, c)).
Proof.
  induction tms as [|t tms IH].
  - cbn [map app omapM obind]. induction ps as [|p ps IHp]; [reflexivity|].
    cbn [map omapM]. rewrite read_pf_kids_cons_param, IHp.
    destruct (omapM val_param ps); simpl; destruct (val_param p); reflexivity.
  - cbn [map app omapM]. rewrite read_pf_kids_cons_tm, IH.
    destruct (omapM val_tm tms); simpl; destruct (val_tm t); simpl; try reflexivity;
      destruct (omapM val_param ps); reflexivity.
Qed.

Lemma single_not {X} (name : qname) (es : list elem3) (a b : X) :
  (forall c, In c es -> is_empty_elem name c = false) ->
  match es with
  | [c] => if is_empty_elem name c then a else b
  | _ => b
  end = b.
Proof.
  intros H. destruct es as [|c [|d r]]; auto. rewrite (H c) by (left; reflexivity). reflexivity.
Qed.

Lemma write_kids_not_ind tms ps c :
  In c (map to3 (map write_tm tms ++ map write_param ps)) ->
  is_empty_elem (C "is-not-defined") c = false.
Proof.
  rewrite map_app, !map_map. intros H. apply in_app_or in H. destruct H as [H|H];
    apply in_map_iff in H; destruct H as [x [<- _]]; reflexivity.
Qed.

Lemma read_pf_write f : read_pf (to3 (write_pf f)) = val_pf f.
Proof.
  destruct f as [name test cond]. unfold write_pf, val_pf, read_pf. cbn [to3 xf_name xf_test xf_cond].
  replace (qname_eqb (C "prop-filter") (C "prop-filter")) with true by reflexivity. cbn [negb].
  assert (A : attrs_ok ["name"; "test"] (plain_attr "name" name :: opt_attr "test" test) = true)
    by (destruct test; reflexivity).
  rewrite A. cbn [negb].
  assert (G1 : get_attr "name" (plain_attr "name" name :: opt_attr "test" test) = Some name)
    by (destruct test; reflexivity).
  assert (G2 : get_attr "test" (plain_attr "name" name :: opt_attr "test" test) = test)
    by (destruct test; reflexivity).
  rewrite G1, G2. cbn [obind].
  destruct (val_test test) as [t|]; cbn [obind]; [|reflexivity].
  destruct cond as [|tms ps].
  - reflexivity.
  - rewrite elems_all.
    2:{ rewrite forallb_app, !forallb_map. unfold write_tm, write_param. simpl. rewrite !forallb_true. reflexivity. }
    cbn [obind]. rewrite single_not by (apply write_kids_not_ind).
    rewrite read_pf_kids_write.
    destruct (omapM val_tm tms); simpl; [|reflexivity].
    destruct (omapM val_param ps); reflexivity.
Qed.

Lemma is_elem_write_pf l : forallb is_elem (map write_pf l) = true.
Proof. rewrite forallb_map. apply forallb_true. Qed.

Lemma read_filter_write test pfs :
  read_filter (C "filter", opt_attr "test" test, map write_pf pfs) =
  (olet t <- val_test test; olet fs <- omapM val_pf pfs; Some (t, fs)).
Proof.
  unfold read_filter.
  replace (qname_eqb (C "filter") (C "filter")) with true by reflexivity. cbn [negb].
  assert (A : attrs_ok ["test"] (opt_attr "test" test) = true) by (destruct test; reflexivity).
  assert (G : get_attr "test" (opt_attr "test" test) = test) by (destruct test; reflexivity).
  rewrite A, G. cbn [negb]. destruct (val_test test); cbn [obind]; [|reflexivity].
  rewrite elems_all by apply is_elem_write_pf. cbn [obind].
  rewrite map_map, omapM_map.
  rewrite (omapM_ext _ val_pf) by (intros; apply read_pf_write).
  reflexivity.
Qed.

Lemma read_limit_write s : read_limit (to3 (write_limit s)) = val_nresults s.
Proof.
  unfold write_limit, read_limit. simpl. rewrite pcdata_text_kid. reflexivity.
Qed.

Lemma read_cprop_write n : read_cprop (C "prop", [plain_attr "name" n], []) = Some n.
Proof. reflexivity. Qed.

Lemma read_data_write d : read_data (to3 (write_data d)) = Some d.
Proof.
  destruct d as [|names]; [reflexivity|].
  unfold write_data, read_data. cbn [to3].
  replace (qname_eqb (C "address-data") (C "address-data") && attrs_ok [] []) with true by reflexivity.
  cbn [negb]. rewrite elems_all by (rewrite forallb_map; apply forallb_true).
  cbn [obind]. rewrite map_map. cbn [to3].
  assert (M : omapM read_cprop (map (fun x => (C "prop", [plain_attr "name" x], @nil xtree)) names) = Some names).
  { rewrite omapM_map. rewrite (omapM_ext _ (fun x => Some x)) by (intros; apply read_cprop_write).
    apply omapM_some_id. }
  rewrite single_not.
  2:{ intros c Hc. apply in_map_iff in Hc. destruct Hc as [x [<- _]]. reflexivity. }
  match goal with |- obind ?X _ = _ => replace X with (Some names) by (symmetry; exact M) end.
  reflexivity.
Qed.

Lemma read_item_write i : item_ok i = true -> read_item (to3 (write_item i)) = Some i.
Proof.
  destruct i as [d|n]; intros H.
  - unfold read_item, write_item.
    replace (qname_eqb (fst (fst (to3 (write_data d)))) (C "address-data")) with true
      by (destruct d; reflexivity).
    rewrite read_data_write. reflexivity.
  - unfold read_item, write_item. cbn [to3 fst]. simpl in H.
    apply negb_true_iff in H. change (NS_CARD, "address-data") with (C "address-data") in H. rewrite H.
    reflexivity.
Qed.

Lemma read_items_write items :
  forallb item_ok items = true ->
  omapM read_item (map to3 (map write_item items)) = Some items.
Proof.
  induction items as [|i items IH]; simpl; intros H; auto.
  apply andb_true_iff in H. destruct H as [H1 H2].
  rewrite read_item_write by auto. simpl. rewrite IH by auto. reflexivity.
Qed.

Lemma is_elem_write_item l : forallb is_elem (map write_item l) = true.
Proof.
  induction l as [|i l IH]; simpl; auto. rewrite IH. destruct i as [[|?]|[? ?]]; reflexivity.
Qed.

(** the selector written by [write_sel], when there is one *)
Lemma read_sel_write s x :
  sel_ok s = true -> write_sel s = [x] -> is_sel_name (fst (fst (to3 x))) = true /\ read_sel (to3 x) = Some s.
Proof.
  destruct s as [| | |items]; simpl; intros Hok H; inversion H; subst; clear H.
  - split; reflexivity.
  - split; reflexivity.
  - split; [reflexivity|].
    unfold read_sel. cbn [to3].
    replace (is_empty_elem (D "allprop") (D "prop", [], map write_item items)) with false by reflexivity.
    replace (is_empty_elem (D "propname") (D "prop", [], map write_item items)) with false by reflexivity.
    replace (qname_eqb (D "prop") (D "prop") && attrs_ok [] []) with true by reflexivity.
    rewrite elems_all by apply is_elem_write_item. cbn [obind].
    rewrite read_items_write by auto. reflexivity.
Qed.

Lemma write_sel_cases s : write_sel s = [] /\ s = RSelNone \/ exists x, write_sel s = [x] /\ is_elem x = true.
Proof. destruct s; simpl; eauto. Qed.

Lemma is_sel_name_filter : is_sel_name (C "filter") = false. Proof. reflexivity. Qed.
Lemma is_sel_name_limit : is_sel_name (C "limit") = false. Proof. reflexivity. Qed.
Lemma is_sel_name_href : is_sel_name (D "href") = false. Proof. reflexivity. Qed.

Lemma rqk_sel e r acc s :
  is_sel_name (fst (fst e)) = true -> qa_sel acc = None -> read_sel e = Some s ->
  read_query_kids (e :: r) acc = read_query_kids r (mkQA (Some s) (qa_filter acc) (qa_limit acc)).
Proof. intros H1 H2 H3. cbn [read_query_kids]. rewrite H1, H2, H3. reflexivity. Qed.

Lemma read_query_write q :
  sel_ok (xq_sel q) = true -> rfc_read (write_query q) = (olet r <- val_query q; Some (RQuery r)).
Proof.
  intros Hok. destruct q as [sel test pfs limit]. cbn [xq_sel] in Hok.
  unfold write_query, rfc_read, val_query. cbn [xq_sel xq_test xq_filters xq_limit]. rewrite Hok. cbn [negb].
  replace (qname_eqb (C "addressbook-query") (C "addressbook-query")) with true by reflexivity.
  unfold read_query. replace (attrs_ok [] []) with true by reflexivity. cbn [negb].
  set (F := Elem (C "filter") (opt_attr "test" test) (map write_pf pfs)).
  assert (RF : forall acc r, qa_filter acc = None ->
             read_query_kids (to3 F :: r) acc =
             (olet f <- (olet t <- val_test test; olet fs <- omapM val_pf pfs; Some (t, fs));
              read_query_kids r (mkQA (qa_sel acc) (Some f) (qa_limit acc)))).
  { intros acc r Hn. cbn [read_query_kids]. unfold F at 1. cbn [to3 fst].
    rewrite is_sel_name_filter.
    replace (qname_eqb (C "filter") (C "filter")) with true by reflexivity.
    rewrite Hn. unfold F. cbn [to3]. rewrite read_filter_write. reflexivity. }
  assert (RL : forall acc s, qa_limit acc = None ->
             read_query_kids [to3 (write_limit s)] acc =
             (olet l <- val_nresults s; Some (mkQA (qa_sel acc) (qa_filter acc) (Some l)))).
  { intros acc s Hn. cbn [read_query_kids].
    replace (is_sel_name (fst (fst (to3 (write_limit s))))) with false by reflexivity.
    replace (qname_eqb (fst (fst (to3 (write_limit s)))) (C "filter")) with false by reflexivity.
    replace (qname_eqb (fst (fst (to3 (write_limit s)))) (C "limit")) with true by reflexivity.
    rewrite Hn, read_limit_write. destruct (val_nresults s); reflexivity. }
  assert (TAIL : forall acc, qa_filter acc = None -> qa_limit acc = None ->
             read_query_kids (to3 F :: map to3 (match limit with Some s => [write_limit s] | None => [] end)) acc =
             (olet t <- val_test test; olet fs <- omapM val_pf pfs;
              olet l <- match limit with None => Some None | Some s => olet n <- val_nresults s; Some (Some n) end;
              Some (mkQA (qa_sel acc) (Some (t, fs)) l))).
  { intros acc H1 H2. rewrite RF by auto.
    destruct (val_test test); cbn [obind]; [|reflexivity].
    destruct (omapM val_pf pfs); cbn [obind]; [|reflexivity].
    destruct limit as [s|]; cbn [map].
    - rewrite RL by (cbn; auto). destruct (val_nresults s); reflexivity.
    - cbn [read_query_kids obind]. rewrite H2. reflexivity. }
  destruct (write_sel_cases sel) as [[E ->]|[x [E Hx]]]; rewrite E.
  - cbn [app]. rewrite elems_all.
    2:{ cbn [forallb]. destruct limit; reflexivity. }
    cbn [obind map]. fold F.
    pose proof (TAIL (mkQA None None None) eq_refl eq_refl) as T. rewrite T.
    destruct (val_test test); cbn [obind]; [|reflexivity].
    destruct (omapM val_pf pfs); cbn [obind]; [|reflexivity].
    destruct limit as [s|]; cbn [obind]; [destruct (val_nresults s)|]; reflexivity.
  - destruct (read_sel_write sel x Hok E) as [N R].
    cbn [app]. rewrite elems_all.
    2:{ cbn [forallb]. rewrite Hx. destruct limit; reflexivity. }
    cbn [obind map]. fold F.
    rewrite (rqk_sel _ _ (mkQA None None None) sel N eq_refl R). cbn [qa_filter qa_limit].
    pose proof (TAIL (mkQA (Some sel) None None) eq_refl eq_refl) as T. rewrite T.
    destruct (val_test test); cbn [obind]; [|reflexivity].
    destruct (omapM val_pf pfs); cbn [obind]; [|reflexivity].
    destruct limit as [s|]; cbn [obind]; [destruct (val_nresults s)|]; reflexivity.
Qed.

Definition write_href (h : string) : xtree := Elem (D "href") [] (text_kid h).

Lemma read_href_write h : read_href (to3 (write_href h)) = Some h.
Proof.
  unfold read_href, write_href. cbn [to3].
  replace (qname_eqb (D "href") (D "href") && attrs_ok [] []) with true by reflexivity.
  cbn [negb]. apply pcdata_text_kid.
Qed.

Lemma read_multiget_kids_cons_href h r sel :
  read_multiget_kids (to3 (write_href h) :: r) sel =
  (olet rest <- read_multiget_kids r sel; Some (fst rest, h :: snd rest)).
Proof.
  cbn [read_multiget_kids]. rewrite read_href_write.
  replace (is_sel_name (fst (fst (to3 (write_href h))))) with false by reflexivity.
  replace (qname_eqb (fst (fst (to3 (write_href h)))) (D "href")) with true by reflexivity.
  reflexivity.
Qed.

Lemma read_multiget_kids_hrefs hrefs sel :
  read_multiget_kids (map to3 (map write_href hrefs)) sel = Some (sel, hrefs).
Proof.
  induction hrefs as [|h hrefs IH]; [reflexivity|].
  cbn [map]. rewrite read_multiget_kids_cons_href, IH. reflexivity.
Qed.

Lemma rmk_sel e r s :
  is_sel_name (fst (fst e)) = true -> read_sel e = Some s ->
  read_multiget_kids (e :: r) None = read_multiget_kids r (Some s).
Proof. intros H1 H2. cbn [read_multiget_kids]. rewrite H1, H2. reflexivity. Qed.

Lemma read_multiget_write m :
  sel_ok (rm_sel m) = true -> rfc_read (write_multiget m) = (olet r <- val_multiget m; Some (RMultiget r)).
Proof.
  intros Hok. destruct m as [sel hrefs]. cbn [rm_sel] in Hok.
  unfold write_multiget, rfc_read, val_multiget. cbn [rm_sel rm_hrefs]. rewrite Hok. cbn [andb].
  replace (qname_eqb (C "addressbook-multiget") (C "addressbook-query")) with false by reflexivity.
  replace (qname_eqb (C "addressbook-multiget") (C "addressbook-multiget")) with true by reflexivity.
  unfold read_multiget. replace (attrs_ok [] []) with true by reflexivity. cbn [negb].
  change (map (fun h => Elem (D "href") [] (text_kid h)) hrefs) with (map write_href hrefs).
  assert (EL : forallb is_elem (map write_href hrefs) = true) by (rewrite forallb_map; apply forallb_true).
  destruct (write_sel_cases sel) as [[E ->]|[x [E Hx]]]; rewrite E; cbn [app].
  - rewrite elems_all by exact EL. cbn [obind]. rewrite read_multiget_kids_hrefs. cbn [obind fst snd dflt].
    destruct hrefs; reflexivity.
  - destruct (read_sel_write sel x Hok E) as [N R].
    rewrite elems_all by (cbn [forallb]; rewrite Hx; exact EL).
    cbn [obind map]. rewrite (rmk_sel _ _ sel N R), read_multiget_kids_hrefs. cbn [obind fst snd dflt].
    destruct hrefs; reflexivity.
Qed.

Definition x_sel_ok (x : x_request) : bool :=
  match x with XQuery q => sel_ok (xq_sel q) | XMultiget m => sel_ok (rm_sel m) end.

(** reading a written raw request: exactly the conformant ones are read, as what they denote *)
Lemma rfc_read_write_raw x : x_sel_ok x = true -> rfc_read (rfc_write_raw x) = validate x.
Proof.
  destruct x as [q|m]; cbn [x_sel_ok rfc_write_raw validate]; intros H.
  - apply read_query_write, H.
  - apply read_multiget_write, H.
Qed.

Lemma validate_sel_ok x r : validate x = Some r -> x_sel_ok x = true.
Proof.
  destruct x as [q|m]; simpl.
  - unfold val_query. destruct (sel_ok (xq_sel q)); simpl; [reflexivity|discriminate].
  - unfold val_multiget. destruct (sel_ok (rm_sel m)); simpl; [reflexivity|discriminate].
Qed.

Lemma rfc_read_write_conformant x r : validate x = Some r -> rfc_read (rfc_write_raw x) = Some r.
Proof. intros H. rewrite rfc_read_write_raw by (eapply validate_sel_ok; eauto). exact H. Qed.

(** ** the canonical embedding of a well-formed request is conformant and denotes it *)

Definition wf_request (r : request) : bool :=
  match r with
  | RQuery q => sel_ok (rq_sel q) && match rq_limit q with Some n => (0 <? n)%N | None => true end
  | RMultiget m => sel_ok (rm_sel m) && nonempty (rm_hrefs m)
  end.

Lemma val_tm_raw t : val_tm (raw_tm t) = Some t.
Proof. destruct t as [s [] []]; reflexivity. Qed.

Lemma val_param_raw p : val_param (raw_param p) = Some p.
Proof.
  destruct p as [n [| |t]]; try reflexivity.
  unfold val_param, raw_param. simpl. rewrite val_tm_raw. reflexivity.
Qed.

Lemma val_pf_raw f : val_pf (raw_pf f) = Some f.
Proof.
  destruct f as [n t c]. unfold val_pf, raw_pf. cbn [xf_test xf_name xf_cond rf_name rf_test rf_cond].
  assert (T : val_test (Some (test_str t)) = Some t) by (destruct t; reflexivity).
  rewrite T. cbn [obind]. destruct c as [|tms ps]; [reflexivity|].
  rewrite !omapM_map.
  rewrite (omapM_ext _ (fun x => Some x)) by (intros; apply val_tm_raw).
  rewrite omapM_some_id. simpl.
  rewrite (omapM_ext _ (fun x => Some x)) by (intros; apply val_param_raw).
  rewrite omapM_some_id. reflexivity.
Qed.

Lemma validate_raw r : wf_request r = true -> validate (raw_request r) = Some r.
Proof.
  destruct r as [q|m]; simpl; intros H; apply andb_true_iff in H; destruct H as [H1 H2].
  - destruct q as [sel t fs lim]. unfold val_query, raw_query.
    cbn [rq_sel rq_test rq_filters rq_limit xq_sel xq_test xq_filters xq_limit] in *. rewrite H1. cbn [negb].
    assert (T : val_test (Some (test_str t)) = Some t) by (destruct t; reflexivity).
    rewrite T. cbn [obind]. rewrite omapM_map.
    rewrite (omapM_ext _ (fun x => Some x)) by (intros; apply val_pf_raw).
    rewrite omapM_some_id. simpl.
    destruct lim as [n|]; [|reflexivity].
    unfold val_nresults. rewrite digits_dec_of_N, H2. reflexivity.
  - unfold val_multiget. rewrite H1, H2. reflexivity.
Qed.

Theorem rfc_codec r : wf_request r = true -> rfc_read (rfc_write r) = Some r.
Proof. intros H. apply rfc_read_write_conformant, validate_raw, H. Qed.

(* ------------------------------------------------------------------------- *)
(** * The server on documents the reference reads *)

(** ** attributes *)

Lemma real_attrs_is_without a : real_attrs a = without_nsdecls a.
Proof. reflexivity. Qed.

Lemma real_attrs_idem a : real_attrs (real_attrs a) = real_attrs a.
Proof.
  unfold real_attrs. induction a as [|x a IH]; simpl; auto.
  destruct (is_nsdecl x) eqn:E; simpl; [exact IH|]. rewrite E. simpl. congruence.
Qed.

(** namespace declarations that collide with no field are skipped by the assignment loop *)
Lemma assign_skip_decls {W} (set : string -> string -> W -> res W) fs a :
  (forall local v w, mem local fs = false -> set local v w = Ok w) ->
  attr_collides fs a = false ->
  forall w, assign_attrs set w a = assign_attrs set w (real_attrs a).
Proof.
  intros Hset. induction a as [|x a IH]; simpl; intros Hc w; auto.
  apply orb_false_iff in Hc. destruct Hc as [Hx Hc].
  destruct (is_nsdecl x) eqn:E; simpl.
  - simpl in Hx. rewrite (Hset _ _ _ Hx). simpl. apply IH, Hc.
  - destruct (set (snd (fst x)) (snd x) w); simpl; auto.
Qed.

Lemma mem_false_cons s x l : mem s (x :: l) = false <-> s <> x /\ mem s l = false.
Proof.
  unfold mem; simpl. rewrite orb_false_iff, String.eqb_neq. tauto.
Qed.

Lemma mem_true_cons s x l : mem s (x :: l) = true <-> s = x \/ mem s l = true.
Proof.
  unfold mem; simpl. rewrite orb_true_iff, String.eqb_eq. tauto.
Qed.

Lemma find_attr_none_of_nomem local ra :
  mem local (map (fun x : attr => snd (fst x)) ra) = false -> find_attr local ra = None.
Proof.
  induction ra as [|x ra IH]; simpl; intros H; auto.
  apply mem_false_cons in H. destruct H as [H1 H2].
  destruct (String.eqb (snd (fst x)) local) eqn:E.
  - apply String.eqb_eq in E. congruence.
  - auto.
Qed.

Definition attr_in (fs : list string) (x : attr) : bool :=
  String.eqb (fst (fst x)) "" && mem (snd (fst x)) fs.

Lemma attrs_ok_split fs a :
  attrs_ok fs a = true ->
  forallb (attr_in fs) (real_attrs a) = true /\
  nodupb (map (fun x : attr => snd (fst x)) (real_attrs a)) = true.
Proof. unfold attrs_ok. intros H. apply andb_true_iff in H. exact H. Qed.

(** ** content *)

Lemma pcdata_chardata k s : pcdata k = Some s -> chardata k = s.
Proof.
  revert s; induction k as [|x k IH]; simpl; intros s H.
  - inversion H; reflexivity.
  - destruct x; try discriminate.
    + destruct (pcdata k); simpl in H; [|discriminate]. inversion H; subst. f_equal. auto.
    + auto.
Qed.

Fixpoint walk3 {W} (step : qname -> list attr -> list xtree -> W -> res W) (w : W) (es : list elem3) : res W :=
  match es with
  | [] => Ok w
  | (n, a, k) :: r => do w1 <- step n a k w; walk3 step w1 r
  end.

Lemma walk_kids_elems {W} (step : qname -> list attr -> list xtree -> W -> res W) k es :
  elems k = Some es -> forall w, walk_kids step w k = walk3 step w es.
Proof.
  revert es; induction k as [|x k IH]; simpl; intros es H w.
  - inversion H; reflexivity.
  - destruct x.
    + destruct (elems k); simpl in H; [|discriminate]. inversion H; subst. simpl.
      destruct (step n attrs kids w); simpl; auto.
    + destruct (is_ws s); [auto|discriminate].
    + auto.
Qed.

Definition un3 (e : elem3) : xtree := Elem (fst (fst e)) (snd (fst e)) (snd e).

Lemma elems_collides k es :
  elems k = Some es -> existsb collides k = false -> forall e, In e es -> collides (un3 e) = false.
Proof.
  revert es; induction k as [|x k IH]; simpl; intros es H Hc e Hin.
  - inversion H; subst. contradiction.
  - apply orb_false_iff in Hc. destruct Hc as [Hx Hk]. destruct x.
    + destruct (elems k) as [l|] eqn:E; simpl in H; [|discriminate]. inversion H; subst.
      destruct Hin as [<-|Hin]; [exact Hx|]. exact (IH l eq_refl Hk e Hin).
    + destruct (is_ws s); [|discriminate]. exact (IH es H Hk e Hin).
    + exact (IH es H Hk e Hin).
Qed.

Lemma collides_elem n a k :
  collides (Elem n a k) = false -> attr_collides (attr_fields n) a = false /\ existsb collides k = false.
Proof. simpl. intros H. apply orb_false_iff in H. exact H. Qed.

(** ** the enumerations: Go's UnmarshalText against the RFC's value lists *)

Lemma negate_agree v x : val_negate (Some v) = Some x -> unmarshal_negate v = Ok x.
Proof.
  unfold val_negate, unmarshal_negate.
  destruct (String.eqb v "yes"); [intros H; inversion H; reflexivity|].
  destruct (String.eqb v "no"); [intros H; inversion H; reflexivity|discriminate].
Qed.

Lemma match_agree v m : val_match (Some v) = Some m -> unmarshal_match_type v = Ok v /\ v = match_str m.
Proof.
  unfold val_match, unmarshal_match_type.
  destruct (String.eqb v "equals") eqn:E1; [apply String.eqb_eq in E1; subst; intros H; inversion H; auto|].
  destruct (String.eqb v "contains") eqn:E2; [apply String.eqb_eq in E2; subst; intros H; inversion H; auto|].
  destruct (String.eqb v "starts-with") eqn:E3; [apply String.eqb_eq in E3; subst; intros H; inversion H; auto|].
  destruct (String.eqb v "ends-with") eqn:E4; [apply String.eqb_eq in E4; subst; intros H; inversion H; auto|].
  discriminate.
Qed.

Lemma test_agree v t : val_test (Some v) = Some t -> unmarshal_filter_test v = Ok v /\ v = test_str t.
Proof.
  unfold val_test, unmarshal_filter_test.
  destruct (String.eqb v "anyof") eqn:E1; [apply String.eqb_eq in E1; subst; intros H; inversion H; auto|].
  destruct (String.eqb v "allof") eqn:E2; [apply String.eqb_eq in E2; subst; intros H; inversion H; auto|].
  discriminate.
Qed.

Lemma canon_match_str m : canon_match (match_str m) = match_str m.
Proof. destruct m; reflexivity. Qed.
Lemma canon_test_str t : canon_test (test_str t) = test_str t.
Proof. destruct t; reflexivity. Qed.

Definition local_of (x : attr) : string := snd (fst x).

Lemma attr_in_cases fs x : attr_in fs x = true -> fst (fst x) = "" /\ mem (snd (fst x)) fs = true.
Proof. unfold attr_in. rewrite andb_true_iff, String.eqb_eq. tauto. Qed.

(** ** text-match *)

Lemma tm_assign ra : forall w ng mt,
  forallb (attr_in ["collation"; "negate-condition"; "match-type"]) ra = true ->
  nodupb (map (fun x : attr => snd (fst x)) ra) = true ->
  val_negate (find_attr "negate-condition" ra) = Some ng ->
  val_match (find_attr "match-type" ra) = Some mt ->
  exists w', assign_attrs tm_set w ra = Ok w' /\
    wtm_negate w' = (match find_attr "negate-condition" ra with Some _ => ng | None => wtm_negate w end) /\
    wtm_match w' = (match find_attr "match-type" ra with Some v => v | None => wtm_match w end).
Proof.
  induction ra as [|[[ns l] v] ra IH]; intros w ng mt Hin Hnd Hng Hmt.
  - exists w. simpl. auto.
  - cbn [forallb] in Hin. apply andb_true_iff in Hin. destruct Hin as [Hx Hin].
    apply attr_in_cases in Hx. cbn [fst snd] in Hx. destruct Hx as [-> Hl].
    cbn [map nodupb fst snd] in Hnd. apply andb_true_iff in Hnd. destruct Hnd as [Hnm Hnd].
    apply negb_true_iff in Hnm.
    pose proof (find_attr_none_of_nomem l ra Hnm) as Fn.
    cbn [assign_attrs fst snd].
    apply mem_true_cons in Hl. destruct Hl as [->|Hl]; [|apply mem_true_cons in Hl; destruct Hl as [->|Hl];
      [|apply mem_true_cons in Hl; destruct Hl as [->|Hl]; [|discriminate]]].
    + (* collation *)
      cbn [find_attr fst snd] in *.
      replace (String.eqb "collation" "negate-condition") with false in * by reflexivity.
      replace (String.eqb "collation" "match-type") with false in * by reflexivity.
      unfold tm_set at 1. replace (String.eqb "collation" "collation") with true by reflexivity. cbn [bind].
      destruct (IH (mkWTM (wtm_text w) v (wtm_negate w) (wtm_match w)) ng mt Hin Hnd Hng Hmt) as [w' [A [B C0]]].
      exists w'. auto.
    + (* negate-condition *)
      cbn [find_attr fst snd] in *.
      replace (String.eqb "negate-condition" "negate-condition") with true in * by reflexivity.
      replace (String.eqb "negate-condition" "match-type") with false in * by reflexivity.
      apply negate_agree in Hng.
      unfold tm_set at 1.
      replace (String.eqb "negate-condition" "collation") with false by reflexivity.
      replace (String.eqb "negate-condition" "negate-condition") with true by reflexivity.
      rewrite Hng. cbn [bind].
      assert (Hng' : val_negate (find_attr "negate-condition" ra) = Some false) by (rewrite Fn; reflexivity).
      destruct (IH (mkWTM (wtm_text w) (wtm_collation w) ng (wtm_match w)) false mt Hin Hnd Hng' Hmt) as [w' [A [B C0]]].
      exists w'. rewrite Fn in B. cbn [wtm_negate wtm_match] in *. auto.
    + (* match-type *)
      cbn [find_attr fst snd] in *.
      replace (String.eqb "match-type" "negate-condition") with false in * by reflexivity.
      replace (String.eqb "match-type" "match-type") with true in * by reflexivity.
      apply match_agree in Hmt. destruct Hmt as [Hmt _].
      unfold tm_set at 1.
      replace (String.eqb "match-type" "collation") with false by reflexivity.
      replace (String.eqb "match-type" "negate-condition") with false by reflexivity.
      replace (String.eqb "match-type" "match-type") with true by reflexivity.
      rewrite Hmt. cbn [bind].
      assert (Hmt' : val_match (find_attr "match-type" ra) = Some Contains) by (rewrite Fn; reflexivity).
      destruct (IH (mkWTM (wtm_text w) (wtm_collation w) (wtm_negate w) v) ng Contains Hin Hnd Hng Hmt') as [w' [A [B C0]]].
      exists w'. rewrite Fn in C0. cbn [wtm_negate wtm_match] in *. auto.
Qed.

Definition tm_fields := ["collation"; "negate-condition"; "match-type"].

Lemma tm_set_skip local v w : mem local tm_fields = false -> tm_set local v w = Ok w.
Proof.
  intros H. apply mem_false_cons in H. destruct H as [H1 H].
  apply mem_false_cons in H. destruct H as [H2 H].
  apply mem_false_cons in H. destruct H as [H3 _].
  unfold tm_set. apply String.eqb_neq in H1, H2, H3. rewrite H1, H2, H3. reflexivity.
Qed.

Lemma server_reads_tm n a k t :
  read_tm (n, a, k) = Some t -> attr_collides tm_fields a = false ->
  exists w, unmarshal_text_match wtm_zero n a k = Ok w /\ canon_tm (decode_text_match w) = pub_tm t.
Proof.
  unfold read_tm. intros H Hc.
  destruct (qname_eqb n (C "text-match")) eqn:En; [|discriminate]. cbn [negb] in H.
  apply qname_eqb_spec in En. subst n.
  destruct (attrs_ok ["collation"; "negate-condition"; "match-type"] a) eqn:Ea; [|discriminate]. cbn [negb] in H.
  destruct (negb _); [discriminate|].
  apply obind_some in H. destruct H as [ng [Hng H]].
  apply obind_some in H. destruct H as [mt [Hmt H]].
  apply obind_some in H. destruct H as [s [Hs H]]. inversion H; subst t; clear H.
  apply attrs_ok_split in Ea. destruct Ea as [Hin Hnd].
  unfold unmarshal_text_match.
  replace (check_name NS_CARD "text-match" (C "text-match")) with true by reflexivity. cbn [negb].
  rewrite (assign_skip_decls tm_set tm_fields a tm_set_skip Hc).
  destruct (tm_assign (real_attrs a) wtm_zero ng mt Hin Hnd Hng Hmt) as [w' [A [B C0]]].
  rewrite A. cbn [bind]. eexists; split; [reflexivity|].
  unfold canon_tm, decode_text_match, pub_tm. cbn [tm_text tm_negate tm_match wtm_text wtm_negate wtm_match rt_text rt_negate rt_match].
  rewrite (pcdata_chardata _ _ Hs). f_equal.
  - rewrite B. unfold get_attr in Hng. destruct (find_attr "negate-condition" (real_attrs a)); [reflexivity|].
    simpl in Hng. inversion Hng; reflexivity.
  - rewrite C0. unfold get_attr in Hmt. destruct (find_attr "match-type" (real_attrs a)) as [v|].
    + apply match_agree in Hmt. destruct Hmt as [_ ->]. apply canon_match_str.
    + simpl in Hmt. inversion Hmt; reflexivity.
Qed.

(** ** param-filter *)

Lemma pa_assign ra : forall w,
  forallb (attr_in ["name"]) ra = true ->
  nodupb (map (fun x : attr => snd (fst x)) ra) = true ->
  exists w', assign_attrs pa_set w ra = Ok w' /\
    wpa_name w' = dflt (wpa_name w) (find_attr "name" ra) /\ wpa_ind w' = wpa_ind w /\ wpa_tm w' = wpa_tm w.
Proof.
  induction ra as [|[[ns l] v] ra IH]; intros w Hin Hnd.
  - exists w. simpl. auto.
  - cbn [forallb] in Hin. apply andb_true_iff in Hin. destruct Hin as [Hx Hin].
    apply attr_in_cases in Hx. cbn [fst snd] in Hx. destruct Hx as [-> Hl].
    cbn [map nodupb fst snd] in Hnd. apply andb_true_iff in Hnd. destruct Hnd as [Hnm Hnd].
    apply negb_true_iff in Hnm.
    pose proof (find_attr_none_of_nomem l ra Hnm) as Fn.
    apply mem_true_cons in Hl. destruct Hl as [->|Hl]; [|discriminate].
    cbn [assign_attrs fst snd find_attr]. unfold pa_set at 1.
    replace (String.eqb "name" "name") with true by reflexivity. cbn [bind dflt].
    destruct (IH (mkWPA v (wpa_ind w) (wpa_tm w)) Hin Hnd) as [w' [A [B [C0 D0]]]].
    exists w'. rewrite Fn in B. cbn [dflt wpa_name wpa_ind wpa_tm] in *. auto.
Qed.

Lemma pa_set_skip local v w : mem local ["name"] = false -> pa_set local v w = Ok w.
Proof.
  intros H. apply mem_false_cons in H. destruct H as [H1 _].
  unfold pa_set. apply String.eqb_neq in H1. rewrite H1. reflexivity.
Qed.

Lemma is_empty_elem_name name n a k : is_empty_elem name (n, a, k) = true -> n = name.
Proof.
  unfold is_empty_elem. intros H. apply andb_true_iff in H. destruct H as [H _].
  apply andb_true_iff in H. destruct H as [H _]. apply qname_eqb_spec in H. exact H.
Qed.

Lemma read_tm_name n a k t : read_tm (n, a, k) = Some t -> n = C "text-match".
Proof.
  unfold read_tm. destruct (qname_eqb n (C "text-match")) eqn:E; [|discriminate].
  intros _. apply qname_eqb_spec in E. exact E.
Qed.

Lemma server_reads_param n a k p :
  read_param (n, a, k) = Some p -> collides (Elem n a k) = false ->
  exists w pa, unmarshal_param_filter wpa_zero n a k = Ok w /\
               decode_param_filter w = Ok pa /\ canon_param pa = pub_param p.
Proof.
  unfold read_param. intros H Hc.
  destruct (qname_eqb n (C "param-filter")) eqn:En; [|discriminate]. cbn [negb] in H.
  apply qname_eqb_spec in En. subst n.
  destruct (attrs_ok ["name"] a) eqn:Ea; [|discriminate]. cbn [negb] in H.
  apply obind_some in H. destruct H as [name [Hname H]].
  apply obind_some in H. destruct H as [es [Hes H]].
  apply collides_elem in Hc. destruct Hc as [Hca Hck].
  change (attr_fields (C "param-filter")) with ["name"] in Hca.
  apply attrs_ok_split in Ea. destruct Ea as [Hin Hnd].
  unfold unmarshal_param_filter.
  replace (check_name NS_CARD "param-filter" (C "param-filter")) with true by reflexivity. cbn [negb].
  rewrite (assign_skip_decls pa_set ["name"] a pa_set_skip Hca).
  destruct (pa_assign (real_attrs a) wpa_zero Hin Hnd) as [w1 [A [B [C0 D0]]]].
  rewrite A. cbn [bind]. rewrite (walk_kids_elems pa_step k es Hes).
  unfold get_attr in Hname. rewrite Hname in B. cbn [dflt wpa_zero wpa_name wpa_ind wpa_tm] in B, C0, D0.
  destruct w1 as [wn wi wt]. cbn [wpa_name wpa_ind wpa_tm] in *. subst wn wi wt.
  destruct es as [|[[n1 a1] k1] [|e2 r]]; try discriminate.
  - inversion H; subst p. exists (mkWPA name false None), (mkPA name false None). auto.
  - pose proof (elems_collides k _ Hes Hck (n1, a1, k1) (or_introl eq_refl)) as Hc1.
    destruct (is_empty_elem (C "is-not-defined") (n1, a1, k1)) eqn:Ei.
    + inversion H; subst p. apply is_empty_elem_name in Ei. subst n1.
      exists (mkWPA name true None), (mkPA name true None). auto.
    + apply obind_some in H. destruct H as [t [Ht H]]. inversion H; subst p.
      pose proof (read_tm_name _ _ _ _ Ht). subst n1.
      cbn [un3 fst snd] in Hc1. apply collides_elem in Hc1. destruct Hc1 as [Hc1 _].
      change (attr_fields (C "text-match")) with tm_fields in Hc1.
      destruct (server_reads_tm _ _ _ _ Ht Hc1) as [wt [U V]].
      cbn [walk3]. unfold pa_step. cbn [C snd wpa_tm dflt].
      replace (String.eqb "text-match" "is-not-defined") with false by reflexivity.
      replace (String.eqb "text-match" "text-match") with true by reflexivity.
      change (NS_CARD, "text-match") with (C "text-match"). rewrite U. cbn [bind].
      exists (mkWPA name false (Some wt)), (mkPA name false (Some (decode_text_match wt))).
      split; [reflexivity|]. split; [reflexivity|].
      unfold canon_param, pub_param. cbn [pa_name pa_ind pa_tm rp_cond rp_name]. rewrite V. reflexivity.
Qed.

(** ** prop-filter *)

Lemma pf_assign ra : forall w t,
  forallb (attr_in ["name"; "test"]) ra = true ->
  nodupb (map (fun x : attr => snd (fst x)) ra) = true ->
  val_test (find_attr "test" ra) = Some t ->
  exists w', assign_attrs pf_set w ra = Ok w' /\
    wpf_name w' = dflt (wpf_name w) (find_attr "name" ra) /\
    wpf_test w' = (match find_attr "test" ra with Some v => v | None => wpf_test w end) /\
    wpf_ind w' = wpf_ind w /\ wpf_tms w' = wpf_tms w /\ wpf_params w' = wpf_params w.
Proof.
  induction ra as [|[[ns l] v] ra IH]; intros w t Hin Hnd Ht.
  - exists w. simpl. auto 6.
  - cbn [forallb] in Hin. apply andb_true_iff in Hin. destruct Hin as [Hx Hin].
    apply attr_in_cases in Hx. cbn [fst snd] in Hx. destruct Hx as [-> Hl].
    cbn [map nodupb fst snd] in Hnd. apply andb_true_iff in Hnd. destruct Hnd as [Hnm Hnd].
    apply negb_true_iff in Hnm.
    pose proof (find_attr_none_of_nomem l ra Hnm) as Fn.
    cbn [assign_attrs fst snd].
    apply mem_true_cons in Hl. destruct Hl as [->|Hl]; [|apply mem_true_cons in Hl; destruct Hl as [->|Hl]; [|discriminate]].
    + cbn [find_attr fst snd] in *.
      replace (String.eqb "name" "test") with false in * by reflexivity.
      replace (String.eqb "name" "name") with true in * by reflexivity.
      unfold pf_set at 1. replace (String.eqb "name" "name") with true by reflexivity. cbn [bind dflt].
      destruct (IH (mkWPF v (wpf_test w) (wpf_ind w) (wpf_tms w) (wpf_params w)) t Hin Hnd Ht)
        as [w' [A [B [C0 [D0 [E0 F0]]]]]].
      exists w'. rewrite Fn in B. cbn [dflt wpf_name wpf_test wpf_ind wpf_tms wpf_params] in *. auto 6.
    + cbn [find_attr fst snd] in *.
      replace (String.eqb "test" "name") with false in * by reflexivity.
      replace (String.eqb "test" "test") with true in * by reflexivity.
      apply test_agree in Ht. destruct Ht as [Ht _].
      unfold pf_set at 1.
      replace (String.eqb "test" "name") with false by reflexivity.
      replace (String.eqb "test" "test") with true by reflexivity.
      rewrite Ht. cbn [bind].
      assert (Ht' : val_test (find_attr "test" ra) = Some AnyOf) by (rewrite Fn; reflexivity).
      destruct (IH (mkWPF (wpf_name w) v (wpf_ind w) (wpf_tms w) (wpf_params w)) AnyOf Hin Hnd Ht')
        as [w' [A [B [C0 [D0 [E0 F0]]]]]].
      exists w'. rewrite Fn in C0. cbn [dflt wpf_name wpf_test wpf_ind wpf_tms wpf_params] in *. auto 6.
Qed.

Lemma pf_set_skip local v w : mem local ["name"; "test"] = false -> pf_set local v w = Ok w.
Proof.
  intros H. apply mem_false_cons in H. destruct H as [H1 H].
  apply mem_false_cons in H. destruct H as [H2 _].
  unfold pf_set. apply String.eqb_neq in H1, H2. rewrite H1, H2. reflexivity.
Qed.

Lemma read_param_name n a k p : read_param (n, a, k) = Some p -> n = C "param-filter".
Proof.
  unfold read_param. destruct (qname_eqb n (C "param-filter")) eqn:E; [|discriminate].
  intros _. apply qname_eqb_spec in E. exact E.
Qed.

Lemma pf_kids_server es : forall tms ps w,
  read_pf_kids es = Some (tms, ps) -> (forall e, In e es -> collides (un3 e) = false) ->
  exists wtms wps pas,
    walk3 pf_step w es = Ok (mkWPF (wpf_name w) (wpf_test w) (wpf_ind w) (wpf_tms w ++ wtms) (wpf_params w ++ wps)) /\
    map (fun x => canon_tm (decode_text_match x)) wtms = map pub_tm tms /\
    mapM decode_param_filter wps = Ok pas /\ map canon_param pas = map pub_param ps.
Proof.
  induction es as [|[[n a] k] es IH]; intros tms ps w H Hc.
  - simpl in H. inversion H; subst. exists [], [], []. simpl. rewrite !app_nil_r. destruct w; auto.
  - cbn [read_pf_kids] in H. apply obind_some in H. destruct H as [[tms' ps'] [Hr H]].
    cbn [fst snd] in H.
    assert (Hc' : forall e, In e es -> collides (un3 e) = false) by (intros; apply Hc; right; auto).
    pose proof (Hc (n, a, k) (or_introl eq_refl)) as Hc1. cbn [un3 fst snd] in Hc1.
    destruct (qname_eqb n (C "text-match")) eqn:E1.
    + apply obind_some in H. destruct H as [t [Ht H]]. inversion H; subst tms ps; clear H.
      apply qname_eqb_spec in E1. subst n.
      apply collides_elem in Hc1. destruct Hc1 as [Hc1 _].
      change (attr_fields (C "text-match")) with tm_fields in Hc1.
      destruct (server_reads_tm _ _ _ _ Ht Hc1) as [wt [U V]].
      cbn [walk3]. unfold pf_step at 1. cbn [C snd].
      replace (String.eqb "text-match" "is-not-defined") with false by reflexivity.
      replace (String.eqb "text-match" "text-match") with true by reflexivity.
      change (NS_CARD, "text-match") with (C "text-match"). rewrite U. cbn [bind].
      destruct (IH tms' ps' (mkWPF (wpf_name w) (wpf_test w) (wpf_ind w) (wpf_tms w ++ [wt]) (wpf_params w)) Hr Hc')
        as [wtms [wps [pas [A [B [C0 D0]]]]]].
      exists (wt :: wtms), wps, pas. rewrite A. cbn [wpf_name wpf_test wpf_ind wpf_tms wpf_params].
      rewrite <- app_assoc. cbn [app map]. rewrite V, B. auto.
    + destruct (qname_eqb n (C "param-filter")) eqn:E2; [|discriminate].
      apply obind_some in H. destruct H as [p [Hp H]]. inversion H; subst tms ps; clear H.
      apply qname_eqb_spec in E2. subst n.
      destruct (server_reads_param _ _ _ _ Hp Hc1) as [wp [pa [U [V X]]]].
      cbn [walk3]. unfold pf_step at 1. cbn [C snd].
      replace (String.eqb "param-filter" "is-not-defined") with false by reflexivity.
      replace (String.eqb "param-filter" "text-match") with false by reflexivity.
      replace (String.eqb "param-filter" "param-filter") with true by reflexivity.
      change (NS_CARD, "param-filter") with (C "param-filter"). rewrite U. cbn [bind].
      destruct (IH tms' ps' (mkWPF (wpf_name w) (wpf_test w) (wpf_ind w) (wpf_tms w) (wpf_params w ++ [wp])) Hr Hc')
        as [wtms [wps [pas [A [B [C0 D0]]]]]].
      exists wtms, (wp :: wps), (pa :: pas). rewrite A. cbn [wpf_name wpf_test wpf_ind wpf_tms wpf_params].
      rewrite <- app_assoc. cbn [app map mapM]. rewrite V. cbn [bind]. rewrite C0. cbn [bind]. rewrite X, D0. auto.
Qed.

Lemma single_cases {X} (g : elem3 -> bool) (es : list elem3) (A B : option X) f :
  match es with [c] => if g c then A else B | _ => B end = Some f ->
  (exists c, es = [c] /\ g c = true /\ A = Some f) \/ B = Some f.
Proof.
  destruct es as [|c [|d r]]; auto. destruct (g c) eqn:E; eauto.
Qed.

Lemma canon_test_found o t :
  val_test o = Some t -> canon_test (match o with Some v => v | None => "" end) = test_str t.
Proof.
  destruct o as [v|]; intros H.
  - apply test_agree in H. destruct H as [_ ->]. apply canon_test_str.
  - inversion H; reflexivity.
Qed.

Lemma server_reads_pf n a k f :
  read_pf (n, a, k) = Some f -> collides (Elem n a k) = false ->
  exists w pf, unmarshal_prop_filter wpf_zero n a k = Ok w /\
               decode_prop_filter w = Ok pf /\ canon_pf pf = pub_pf f.
Proof.
  unfold read_pf. intros H Hc.
  destruct (qname_eqb n (C "prop-filter")) eqn:En; [|discriminate]. cbn [negb] in H.
  apply qname_eqb_spec in En. subst n.
  destruct (attrs_ok ["name"; "test"] a) eqn:Ea; [|discriminate]. cbn [negb] in H.
  apply obind_some in H. destruct H as [name [Hname H]].
  apply obind_some in H. destruct H as [t [Ht H]].
  apply obind_some in H. destruct H as [es [Hes H]].
  apply collides_elem in Hc. destruct Hc as [Hca Hck].
  change (attr_fields (C "prop-filter")) with ["name"; "test"] in Hca.
  apply attrs_ok_split in Ea. destruct Ea as [Hin Hnd].
  unfold unmarshal_prop_filter.
  replace (check_name NS_CARD "prop-filter" (C "prop-filter")) with true by reflexivity. cbn [negb].
  rewrite (assign_skip_decls pf_set ["name"; "test"] a pf_set_skip Hca).
  unfold get_attr in Hname, Ht.
  destruct (pf_assign (real_attrs a) wpf_zero t Hin Hnd Ht) as [w1 [A [B [C0 [D0 [E0 F0]]]]]].
  rewrite A. cbn [bind]. rewrite (walk_kids_elems pf_step k es Hes).
  rewrite Hname in B. cbn [dflt wpf_zero wpf_name wpf_test wpf_ind wpf_tms wpf_params] in B, C0, D0, E0, F0.
  pose proof (canon_test_found _ _ Ht) as CT. rewrite <- C0 in CT.
  destruct w1 as [wn wt wi wtm wpa]. cbn [wpf_name wpf_test wpf_ind wpf_tms wpf_params] in *. subst wn wi wtm wpa.
  clear C0.
  pose proof (elems_collides k _ Hes Hck) as Hce.
  apply single_cases in H. destruct H as [[c [-> [Ei H]]]|H].
  - inversion H; subst f. destruct c as [[n1 a1] k1]. apply is_empty_elem_name in Ei. subst n1.
    exists (mkWPF name wt true [] []), (mkPF name wt true [] []).
    split; [reflexivity|]. split; [reflexivity|].
    unfold canon_pf, pub_pf. cbn. rewrite CT. reflexivity.
  - apply obind_some in H. destruct H as [[tms ps] [Hk H]]. inversion H; subst f.
    destruct (pf_kids_server es tms ps (mkWPF name wt false [] []) Hk Hce) as [wtms [wps [pas [U [V [X Y]]]]]].
    rewrite U. cbn [wpf_name wpf_test wpf_ind wpf_tms wpf_params app].
    exists (mkWPF name wt false wtms wps), (mkPF name wt false (map decode_text_match wtms) pas).
    split; [reflexivity|]. split.
    + unfold decode_prop_filter. cbn [wpf_name wpf_test wpf_ind wpf_tms wpf_params andb]. rewrite X. reflexivity.
    + unfold canon_pf, pub_pf. cbn [pf_name pf_test pf_ind pf_tms pf_params rf_name rf_test rf_cond fst snd].
      rewrite CT, map_map, V, Y. reflexivity.
Qed.

(** ** filter *)

Lemma f_assign ra : forall w t,
  forallb (attr_in ["test"]) ra = true ->
  nodupb (map (fun x : attr => snd (fst x)) ra) = true ->
  val_test (find_attr "test" ra) = Some t ->
  exists w', assign_attrs f_set w ra = Ok w' /\
    wf_test w' = (match find_attr "test" ra with Some v => v | None => wf_test w end) /\
    wf_props w' = wf_props w.
Proof.
  induction ra as [|[[ns l] v] ra IH]; intros w t Hin Hnd Ht.
  - exists w. simpl. auto.
  - cbn [forallb] in Hin. apply andb_true_iff in Hin. destruct Hin as [Hx Hin].
    apply attr_in_cases in Hx. cbn [fst snd] in Hx. destruct Hx as [-> Hl].
    cbn [map nodupb fst snd] in Hnd. apply andb_true_iff in Hnd. destruct Hnd as [Hnm Hnd].
    apply negb_true_iff in Hnm.
    pose proof (find_attr_none_of_nomem l ra Hnm) as Fn.
    cbn [assign_attrs fst snd].
    apply mem_true_cons in Hl. destruct Hl as [->|Hl]; [|discriminate].
    cbn [find_attr fst snd] in *.
    replace (String.eqb "test" "test") with true in * by reflexivity.
    apply test_agree in Ht. destruct Ht as [Ht _].
    unfold f_set at 1. replace (String.eqb "test" "test") with true by reflexivity.
    rewrite Ht. cbn [bind].
    assert (Ht' : val_test (find_attr "test" ra) = Some AnyOf) by (rewrite Fn; reflexivity).
    destruct (IH (mkWF v (wf_props w)) AnyOf Hin Hnd Ht') as [w' [A [B C0]]].
    exists w'. rewrite Fn in B. cbn [wf_test wf_props] in *. auto.
Qed.

Lemma f_set_skip local v w : mem local ["test"] = false -> f_set local v w = Ok w.
Proof.
  intros H. apply mem_false_cons in H. destruct H as [H1 _].
  unfold f_set. apply String.eqb_neq in H1. rewrite H1. reflexivity.
Qed.

Lemma read_pf_name n a k f : read_pf (n, a, k) = Some f -> n = C "prop-filter".
Proof.
  unfold read_pf. destruct (qname_eqb n (C "prop-filter")) eqn:E; [|discriminate].
  intros _. apply qname_eqb_spec in E. exact E.
Qed.

(** handleQuery's loop over the prop-filters: a decoding error becomes 400 *)
Definition decode_pf_400 (el : w_prop_filter) : res PropFilter :=
  match decode_prop_filter el with Ok pf => Ok pf | Err _ => bad_request | Panic => Panic end.

Lemma f_kids_server es : forall fs w,
  omapM read_pf es = Some fs -> (forall e, In e es -> collides (un3 e) = false) ->
  exists wps pfs,
    walk3 f_step w es = Ok (mkWF (wf_test w) (wf_props w ++ wps)) /\
    mapM decode_pf_400 wps = Ok pfs /\ map canon_pf pfs = map pub_pf fs.
Proof.
  induction es as [|[[n a] k] es IH]; intros fs w H Hc.
  - simpl in H. inversion H; subst. exists [], []. simpl. rewrite app_nil_r. destruct w; auto.
  - cbn [omapM] in H. apply obind_some in H. destruct H as [f [Hf H]].
    apply obind_some in H. destruct H as [fs' [Hfs H]]. inversion H; subst fs; clear H.
    pose proof (read_pf_name _ _ _ _ Hf). subst n.
    pose proof (Hc (C "prop-filter", a, k) (or_introl eq_refl)) as Hc1. cbn [un3 fst snd] in Hc1.
    destruct (server_reads_pf _ _ _ _ Hf Hc1) as [wp [pf [U [V X]]]].
    cbn [walk3]. unfold f_step at 1. cbn [C snd].
    replace (String.eqb "prop-filter" "prop-filter") with true by reflexivity.
    change (NS_CARD, "prop-filter") with (C "prop-filter"). rewrite U. cbn [bind].
    assert (Hc' : forall e, In e es -> collides (un3 e) = false) by (intros; apply Hc; right; auto).
    destruct (IH fs' (mkWF (wf_test w) (wf_props w ++ [wp])) Hfs Hc') as [wps [pfs [A [B C0]]]].
    exists (wp :: wps), (pf :: pfs). rewrite A. cbn [wf_test wf_props]. rewrite <- app_assoc. cbn [app map mapM].
    unfold decode_pf_400 at 1. rewrite V. cbn [bind]. rewrite B. cbn [bind]. rewrite X, C0. auto.
Qed.

Lemma server_reads_filter n a k t fs :
  read_filter (n, a, k) = Some (t, fs) -> collides (Elem n a k) = false ->
  exists w pfs, unmarshal_filter wf_zero n a k = Ok w /\ canon_test (wf_test w) = test_str t /\
                mapM decode_pf_400 (wf_props w) = Ok pfs /\ map canon_pf pfs = map pub_pf fs.
Proof.
  unfold read_filter. intros H Hc.
  destruct (qname_eqb n (C "filter")) eqn:En; [|discriminate]. cbn [negb] in H.
  apply qname_eqb_spec in En. subst n.
  destruct (attrs_ok ["test"] a) eqn:Ea; [|discriminate]. cbn [negb] in H.
  apply obind_some in H. destruct H as [t' [Ht H]].
  apply obind_some in H. destruct H as [es [Hes H]].
  apply obind_some in H. destruct H as [fs' [Hfs H]]. inversion H; subst t' fs'; clear H.
  apply collides_elem in Hc. destruct Hc as [Hca Hck].
  change (attr_fields (C "filter")) with ["test"] in Hca.
  apply attrs_ok_split in Ea. destruct Ea as [Hin Hnd].
  unfold unmarshal_filter.
  replace (check_name NS_CARD "filter" (C "filter")) with true by reflexivity. cbn [negb].
  rewrite (assign_skip_decls f_set ["test"] a f_set_skip Hca).
  unfold get_attr in Ht.
  destruct (f_assign (real_attrs a) wf_zero t Hin Hnd Ht) as [w1 [A [B C0]]].
  rewrite A. cbn [bind]. rewrite (walk_kids_elems f_step k es Hes).
  pose proof (canon_test_found _ _ Ht) as CT. cbn [wf_zero wf_test wf_props] in B, C0. rewrite <- B in CT.
  destruct (f_kids_server es fs w1 Hfs (elems_collides k _ Hes Hck)) as [wps [pfs [U [V X]]]].
  rewrite U, C0. cbn [app]. exists (mkWF (wf_test w1) wps), pfs. auto.
Qed.

(** ** limit *)

Lemma server_reads_limit n a k l :
  read_limit (n, a, k) = Some l -> (l < two64)%N -> forall w0, unmarshal_limit w0 n a k = Ok l.
Proof.
  unfold read_limit. intros H Hl w0.
  destruct (qname_eqb n (C "limit") && attrs_ok [] a) eqn:En; [|discriminate]. cbn [negb] in H.
  apply andb_true_iff in En. destruct En as [En _]. apply qname_eqb_spec in En. subst n.
  apply obind_some in H. destruct H as [es [Hes H]].
  destruct es as [|[[n1 a1] k1] [|e2 r]]; try discriminate.
  destruct (qname_eqb n1 (C "nresults") && attrs_ok [] a1) eqn:E1; [|discriminate]. cbn [negb] in H.
  apply andb_true_iff in E1. destruct E1 as [E1 _]. apply qname_eqb_spec in E1. subst n1.
  apply obind_some in H. destruct H as [s [Hs H]].
  unfold unmarshal_limit.
  replace (check_name NS_CARD "limit" (C "limit")) with true by reflexivity. cbn [negb].
  rewrite (walk_kids_elems lim_step k _ Hes). cbn [walk3]. unfold lim_step. cbn [C snd].
  replace (String.eqb "nresults" "nresults") with true by reflexivity.
  rewrite (pcdata_chardata _ _ Hs).
  unfold val_nresults in H. destruct (digits_to_N s) as [m|] eqn:Ed; [|discriminate].
  destruct (0 <? m)%N; [|discriminate]. inversion H; subst m.
  rewrite (unmarshal_uint_digits s l Ed Hl). reflexivity.
Qed.

Lemma read_limit_pos n a k l : read_limit (n, a, k) = Some l -> (0 < l)%N.
Proof.
  unfold read_limit. intros H.
  destruct (negb _); [discriminate|].
  apply obind_some in H. destruct H as [es [Hes H]].
  destruct es as [|[[n1 a1] k1] [|e2 r]]; try discriminate.
  destruct (negb _); [discriminate|].
  apply obind_some in H. destruct H as [s [Hs H]].
  unfold val_nresults in H. destruct (digits_to_N s) as [m|]; [|discriminate].
  destruct (0 <? m)%N eqn:E; [|discriminate]. inversion H; subst. apply N.ltb_lt. exact E.
Qed.

(** ** address-data, through RawXMLValue's capture (namespace declarations dropped) *)

Definition cap3 (e : elem3) : elem3 := (fst (fst e), real_attrs (snd (fst e)), map capture (snd e)).

Lemma elems_capture k es : elems k = Some es -> elems (map capture k) = Some (map cap3 es).
Proof.
  revert es; induction k as [|x k IH]; simpl; intros es H.
  - inversion H; reflexivity.
  - destruct x; simpl.
    + destruct (elems k) as [l|]; simpl in H; [|discriminate]. inversion H; subst.
      rewrite (IH l eq_refl). reflexivity.
    + destruct (is_ws s); [auto|discriminate].
    + auto.
Qed.

Lemma cprop_assign ra : forall w,
  forallb (attr_in ["name"; "novalue"]) ra = true ->
  nodupb (map (fun x : attr => snd (fst x)) ra) = true ->
  assign_attrs cprop_set w ra = Ok (dflt w (find_attr "name" ra)).
Proof.
  induction ra as [|[[ns l] v] ra IH]; intros w Hin Hnd; [reflexivity|].
  cbn [forallb] in Hin. apply andb_true_iff in Hin. destruct Hin as [Hx Hin].
  apply attr_in_cases in Hx. cbn [fst snd] in Hx. destruct Hx as [-> Hl].
  cbn [map nodupb fst snd] in Hnd. apply andb_true_iff in Hnd. destruct Hnd as [Hnm Hnd].
  apply negb_true_iff in Hnm.
  pose proof (find_attr_none_of_nomem l ra Hnm) as Fn.
  cbn [assign_attrs fst snd find_attr].
  apply mem_true_cons in Hl. destruct Hl as [->|Hl]; [|apply mem_true_cons in Hl; destruct Hl as [->|Hl]; [|discriminate]].
  - unfold cprop_set at 1. replace (String.eqb "name" "name") with true by reflexivity. cbn [bind dflt].
    rewrite IH by auto. rewrite Fn. reflexivity.
  - unfold cprop_set at 1.
    replace (String.eqb "novalue" "name") with false by reflexivity. cbn [bind]. apply IH; auto.
Qed.

Lemma server_reads_cprop n a k name :
  read_cprop (n, a, k) = Some name ->
  n = C "prop" /\ unmarshal_cprop n (real_attrs a) (map capture k) = Ok name.
Proof.
  unfold read_cprop. intros H.
  destruct (qname_eqb n (C "prop") && attrs_ok ["name"; "novalue"] a && no_content k) eqn:E; [|discriminate].
  cbn [negb] in H. destruct (negb _); [discriminate|].
  apply andb_true_iff in E. destruct E as [E _]. apply andb_true_iff in E. destruct E as [En Ea].
  apply qname_eqb_spec in En. subst n. split; [reflexivity|].
  apply attrs_ok_split in Ea. destruct Ea as [Hin Hnd].
  unfold unmarshal_cprop. replace (check_name NS_CARD "prop" (C "prop")) with true by reflexivity. cbn [negb].
  rewrite <- (real_attrs_idem a) in Hin, Hnd.
  rewrite (cprop_assign (real_attrs a) "").
  - unfold get_attr in H. rewrite H. reflexivity.
  - rewrite real_attrs_idem in Hin. exact Hin.
  - rewrite real_attrs_idem in Hnd. exact Hnd.
Qed.

Lemma ad_kids_server es : forall names w,
  omapM read_cprop es = Some names ->
  walk3 ad_step w (map cap3 es) = Ok (mkWAD (wad_props w ++ names) (wad_allprop w)).
Proof.
  induction es as [|[[n a] k] es IH]; intros names w H.
  - simpl in H. inversion H; subst. simpl. rewrite app_nil_r. destruct w; reflexivity.
  - cbn [omapM] in H. apply obind_some in H. destruct H as [nm [Hn H]].
    apply obind_some in H. destruct H as [names' [Hns H]]. inversion H; subst names; clear H.
    destruct (server_reads_cprop _ _ _ _ Hn) as [-> U].
    cbn [map walk3 cap3 fst snd]. unfold ad_step at 1. cbn [C snd].
    replace (String.eqb "prop" "prop") with true by reflexivity.
    change (NS_CARD, "prop") with (C "prop"). rewrite U. cbn [bind].
    rewrite (IH names' _ Hns). cbn [wad_props wad_allprop]. rewrite <- app_assoc. reflexivity.
Qed.

Lemma server_reads_data n a k d :
  read_data (n, a, k) = Some d ->
  exists w, unmarshal_address_data wad_zero n (real_attrs a) (map capture k) = Ok w /\
            decode_address_data_req w = Ok (pub_data d).
Proof.
  unfold read_data. intros H.
  destruct (qname_eqb n (C "address-data") && attrs_ok [] a) eqn:E; [|discriminate]. cbn [negb] in H.
  apply andb_true_iff in E. destruct E as [En _]. apply qname_eqb_spec in En. subst n.
  apply obind_some in H. destruct H as [es [Hes H]].
  unfold unmarshal_address_data.
  replace (check_name NS_CARD "address-data" (C "address-data")) with true by reflexivity. cbn [negb].
  rewrite (walk_kids_elems ad_step _ _ (elems_capture k es Hes)).
  apply single_cases in H. destruct H as [[c [-> [Ei H]]]|H].
  - inversion H; subst d. destruct c as [[n1 a1] k1].
    pose proof (is_empty_elem_name _ _ _ _ Ei). subst n1.
    cbn [map walk3 cap3 fst snd]. unfold ad_step. cbn [C snd].
    replace (String.eqb "allprop" "prop") with false by reflexivity.
    replace (String.eqb "allprop" "allprop") with true by reflexivity. cbn [bind].
    eexists; split; reflexivity.
  - apply obind_some in H. destruct H as [names [Hn H]]. inversion H; subst d.
    rewrite (ad_kids_server es names wad_zero Hn). cbn [wad_zero wad_props wad_allprop app].
    eexists; split; reflexivity.
Qed.

Lemma raw_kids_elems k es :
  elems k = Some es -> raw_kids k = map (fun e => RawTok (capture (un3 e))) es.
Proof.
  revert es; induction k as [|x k IH]; simpl; intros es H.
  - inversion H; reflexivity.
  - destruct x.
    + destruct (elems k) as [l|]; simpl in H; [|discriminate]. inversion H; subst.
      rewrite (IH l eq_refl). reflexivity.
    + destruct (is_ws s); [auto|discriminate].
    + auto.
Qed.

Lemma items_server es : forall items,
  omapM read_item es = Some items ->
  data_request_of (Some (map (fun e => RawTok (capture (un3 e))) es)) = Ok (items_data items).
Proof.
  unfold data_request_of.
  induction es as [|[[n a] k] es IH]; intros items H.
  - simpl in H. inversion H; subst. reflexivity.
  - cbn [omapM] in H. apply obind_some in H. destruct H as [i [Hi H]].
    apply obind_some in H. destruct H as [items' [His H]]. inversion H; subst items; clear H.
    unfold read_item in Hi. cbn [fst] in Hi.
    cbn [map un3 fst snd capture prop_get].
    change addressDataName with (C "address-data").
    destruct (qname_eqb n (C "address-data")) eqn:E.
    + apply obind_some in Hi. destruct Hi as [d [Hd Hi]]. inversion Hi; subst i.
      destruct (server_reads_data _ _ _ _ Hd) as [w [U V]].
      change (without_nsdecls a) with (real_attrs a). rewrite U. cbn [bind items_data]. exact V.
    + inversion Hi; subst i.
      cbn [items_data]. apply IH. exact His.
Qed.

(** ** addressbook-query *)

Definition Rq (acc : q_acc) (w : w_query) : Prop :=
  (qa_sel acc = None -> wq_prop w = None) /\
  data_request_of (wq_prop w) = Ok (sel_data (dflt RSelNone (qa_sel acc))) /\
  match qa_filter acc with
  | None => wq_filter w = wf_zero
  | Some f => canon_test (wf_test (wq_filter w)) = test_str (fst f) /\
              exists pfs, mapM decode_pf_400 (wf_props (wq_filter w)) = Ok pfs /\
                          map canon_pf pfs = map pub_pf (snd f)
  end /\
  wq_limit w = qa_limit acc /\
  (forall l, qa_limit acc = Some l -> (0 < l)%N).

Lemma read_query_kids_limit es : forall acc acc' l,
  read_query_kids es acc = Some acc' -> qa_limit acc = Some l -> qa_limit acc' = Some l.
Proof.
  induction es as [|e es IH]; intros acc acc' l H Hl.
  - simpl in H. inversion H; subst. exact Hl.
  - cbn [read_query_kids] in H.
    destruct (is_sel_name (fst (fst e))).
    { destruct (qa_sel acc); [discriminate|]. apply obind_some in H. destruct H as [s [_ H]].
      eapply IH; eauto. }
    destruct (qname_eqb (fst (fst e)) (C "filter")).
    { destruct (qa_filter acc); [discriminate|]. apply obind_some in H. destruct H as [s [_ H]].
      eapply IH; eauto. }
    destruct (qname_eqb (fst (fst e)) (C "limit")); [|discriminate].
    rewrite Hl in H. discriminate.
Qed.

Lemma is_sel_name_cases n : is_sel_name n = true -> n = D "allprop" \/ n = D "propname" \/ n = D "prop".
Proof.
  unfold is_sel_name. rewrite !orb_true_iff, !qname_eqb_spec. tauto.
Qed.

Lemma read_sel_server n a k s w :
  read_sel (n, a, k) = Some s -> wq_prop w = None ->
  exists w1, q_step n a k w = Ok w1 /\
    data_request_of (wq_prop w1) = Ok (sel_data s) /\
    wq_filter w1 = wq_filter w /\ wq_limit w1 = wq_limit w.
Proof.
  unfold read_sel. intros H Hp.
  destruct (is_empty_elem (D "allprop") (n, a, k)) eqn:E1.
  { inversion H; subst s. apply is_empty_elem_name in E1. subst n.
    eexists. split; [reflexivity|]. cbn. rewrite Hp. auto. }
  destruct (is_empty_elem (D "propname") (n, a, k)) eqn:E2.
  { inversion H; subst s. apply is_empty_elem_name in E2. subst n.
    eexists. split; [reflexivity|]. cbn. rewrite Hp. auto. }
  destruct (qname_eqb n (D "prop") && attrs_ok [] a) eqn:E3; [|discriminate].
  apply andb_true_iff in E3. destruct E3 as [E3 _]. apply qname_eqb_spec in E3. subst n.
  apply obind_some in H. destruct H as [es [Hes H]].
  apply obind_some in H. destruct H as [items [Hi H]]. inversion H; subst s.
  eexists. split; [reflexivity|].
  cbn [wq_prop wq_filter wq_limit]. rewrite Hp. cbn [dflt app].
  rewrite (raw_kids_elems k es Hes). split; [|auto].
  apply items_server. exact Hi.
Qed.

Lemma q_kids_server es : forall acc acc' w,
  read_query_kids es acc = Some acc' ->
  (forall e, In e es -> collides (un3 e) = false) ->
  (forall l, qa_limit acc' = Some l -> (l < two64)%N) ->
  Rq acc w -> exists w', walk3 q_step w es = Ok w' /\ Rq acc' w'.
Proof.
  induction es as [|[[n a] k] es IH]; intros acc acc' w H Hc Hb HR.
  - simpl in H. inversion H; subst. exists w. auto.
  - assert (Hc' : forall e, In e es -> collides (un3 e) = false) by (intros; apply Hc; right; auto).
    pose proof (Hc (n, a, k) (or_introl eq_refl)) as Hc1. cbn [un3 fst snd] in Hc1.
    destruct HR as [R1 [R2 [R3 [R4 R5]]]].
    cbn [read_query_kids fst] in H. cbn [walk3].
    destruct (is_sel_name n) eqn:Es.
    { destruct (qa_sel acc) eqn:Eq; [discriminate|].
      apply obind_some in H. destruct H as [s [Hs H]].
      destruct (read_sel_server n a k s w Hs (R1 eq_refl)) as [w1 [U [V [X Y]]]].
      rewrite U. cbn [bind].
      apply (IH _ _ w1 H Hc' Hb).
      unfold Rq. cbn [qa_sel qa_filter qa_limit dflt]. rewrite X, Y.
      split; [discriminate|]. auto. }
    destruct (qname_eqb n (C "filter")) eqn:Ef.
    { destruct (qa_filter acc) eqn:Eq; [discriminate|].
      apply obind_some in H. destruct H as [[t fs] [Hf H]].
      apply qname_eqb_spec in Ef. subst n.
      destruct (server_reads_filter _ _ _ _ _ Hf Hc1) as [wf' [pfs [U [V [X Y]]]]].
      unfold q_step at 1.
      replace (qname_eqb (C "filter") (NS_DAV, "prop")) with false by reflexivity.
      replace (qname_eqb (C "filter") (NS_DAV, "allprop")) with false by reflexivity.
      replace (qname_eqb (C "filter") (NS_DAV, "propname")) with false by reflexivity.
      cbn [C snd]. replace (String.eqb "filter" "filter") with true by reflexivity.
      change (NS_CARD, "filter") with (C "filter"). rewrite R3, U. cbn [bind].
      apply (IH _ _ _ H Hc' Hb).
      unfold Rq. cbn [qa_sel qa_filter qa_limit wq_prop wq_filter wq_limit fst snd].
      split; [exact R1|]. split; [exact R2|]. split; [|auto]. split; [exact V|]. eauto. }
    destruct (qname_eqb n (C "limit")) eqn:El; [|discriminate].
    destruct (qa_limit acc) eqn:Eq; [discriminate|].
    apply obind_some in H. destruct H as [l [Hl H]].
    apply qname_eqb_spec in El. subst n.
    pose proof (read_query_kids_limit es _ acc' l H eq_refl) as Hfin.
    pose proof (server_reads_limit _ _ _ _ Hl (Hb l Hfin) (dflt 0%N (wq_limit w))) as U.
    unfold q_step at 1.
    replace (qname_eqb (C "limit") (NS_DAV, "prop")) with false by reflexivity.
    replace (qname_eqb (C "limit") (NS_DAV, "allprop")) with false by reflexivity.
    replace (qname_eqb (C "limit") (NS_DAV, "propname")) with false by reflexivity.
    cbn [C snd]. replace (String.eqb "limit" "filter") with false by reflexivity.
    replace (String.eqb "limit" "limit") with true by reflexivity.
    change (NS_CARD, "limit") with (C "limit"). rewrite U. cbn [bind].
    apply (IH _ _ _ H Hc' Hb).
    unfold Rq. cbn [qa_sel qa_filter qa_limit wq_prop wq_filter wq_limit].
    split; [exact R1|]. split; [exact R2|]. split; [exact R3|]. split; [reflexivity|].
    intros l' Hl'. inversion Hl'; subst l'. eapply read_limit_pos; eauto.
Qed.

Lemma int_of_uint_small n : (n < two63)%N -> int_of_uint n = Z.of_N n.
Proof. intros H. unfold int_of_uint. apply N.ltb_lt in H. rewrite H. reflexivity. Qed.

Lemma two63_lt_two64 : (two63 < two64)%N. Proof. reflexivity. Qed.

Lemma server_reads_query path n a k q :
  qname_eqb n (C "addressbook-query") = true ->
  read_query a k = Some q -> existsb collides k = false ->
  (forall l, rq_limit q = Some l -> (l < two63)%N) ->
  exists o, (do w <- unmarshal_query n a k; handle_query path w) = Ok o /\
            canon_outcome o = CallQuery path (pub_query q).
Proof.
  intros En H Hc Hb. apply qname_eqb_spec in En. subst n.
  unfold read_query in H. destruct (negb _); [discriminate|].
  apply obind_some in H. destruct H as [es [Hes H]].
  apply obind_some in H. destruct H as [acc [Hacc H]].
  apply obind_some in H. destruct H as [f [Hf H]]. inversion H; subst q; clear H.
  cbn [rq_limit] in Hb.
  unfold unmarshal_query.
  replace (check_name NS_CARD "addressbook-query" (C "addressbook-query")) with true by reflexivity. cbn [negb].
  rewrite (walk_kids_elems q_step k es Hes).
  assert (R0 : Rq (mkQA None None None) wq_zero).
  { unfold Rq. cbn. repeat split; auto. discriminate. }
  assert (Hb' : forall l, qa_limit acc = Some l -> (l < two64)%N).
  { intros l Hl. eapply N.lt_trans; [apply Hb; exact Hl|apply two63_lt_two64]. }
  destruct (q_kids_server es _ acc wq_zero Hacc (elems_collides k es Hes Hc) Hb' R0) as [w [U [R1 [R2 [R3 [R4 R5]]]]]].
  rewrite U. cbn [bind]. rewrite Hf in R3. destruct R3 as [T [pfs [P1 P2]]].
  unfold handle_query. rewrite R2. cbn [bind].
  change (mapM (fun el => match decode_prop_filter el with Ok pf => Ok pf | Err _ => bad_request | Panic => Panic end)
               (wf_props (wq_filter w))) with (mapM decode_pf_400 (wf_props (wq_filter w))).
  rewrite P1. cbn [bind]. rewrite R4.
  destruct (qa_limit acc) as [l|] eqn:El.
  - rewrite (int_of_uint_small l (Hb l eq_refl)).
    pose proof (R5 l eq_refl) as Hpos.
    assert (Hz : (Z.of_N l <=? 0)%Z = false) by (apply Z.leb_gt; lia).
    rewrite Hz. eexists; split; [reflexivity|].
    unfold canon_outcome, canon_query, pub_query. cbn. rewrite P2, T. reflexivity.
  - eexists; split; [reflexivity|].
    unfold canon_outcome, canon_query, pub_query. cbn. rewrite P2, T. reflexivity.
Qed.

(** ** addressbook-multiget *)

Lemma read_sel_server_m up n a k s w :
  read_sel (n, a, k) = Some s -> wm_prop w = None ->
  exists w1, m_step up n a k w = Ok w1 /\
    data_request_of (wm_prop w1) = Ok (sel_data s) /\ wm_hrefs w1 = wm_hrefs w.
Proof.
  unfold read_sel. intros H Hp.
  destruct (is_empty_elem (D "allprop") (n, a, k)) eqn:E1.
  { inversion H; subst s. apply is_empty_elem_name in E1. subst n.
    eexists. split; [reflexivity|]. cbn. rewrite Hp. auto. }
  destruct (is_empty_elem (D "propname") (n, a, k)) eqn:E2.
  { inversion H; subst s. apply is_empty_elem_name in E2. subst n.
    eexists. split; [reflexivity|]. cbn. rewrite Hp. auto. }
  destruct (qname_eqb n (D "prop") && attrs_ok [] a) eqn:E3; [|discriminate].
  apply andb_true_iff in E3. destruct E3 as [E3 _]. apply qname_eqb_spec in E3. subst n.
  apply obind_some in H. destruct H as [es [Hes H]].
  apply obind_some in H. destruct H as [items [Hi H]]. inversion H; subst s.
  eexists. split; [reflexivity|].
  cbn [wm_prop wm_hrefs]. rewrite Hp. cbn [dflt app].
  rewrite (raw_kids_elems k es Hes). split; [|auto].
  apply items_server. exact Hi.
Qed.

Lemma m_kids_server up es : forall sel sel' hrefs paths w,
  read_multiget_kids es sel = Some (sel', hrefs) -> omapM up hrefs = Some paths ->
  (sel = None -> wm_prop w = None) ->
  data_request_of (wm_prop w) = Ok (sel_data (dflt RSelNone sel)) ->
  exists w', walk3 (m_step up) w es = Ok w' /\ wm_hrefs w' = (wm_hrefs w ++ paths)%list /\
             data_request_of (wm_prop w') = Ok (sel_data (dflt RSelNone sel')).
Proof.
  induction es as [|[[n a] k] es IH]; intros sel sel' hrefs paths w H Hp R1 R2.
  - simpl in H. inversion H; subst. simpl in Hp. inversion Hp; subst.
    exists w. simpl. rewrite app_nil_r. auto.
  - cbn [read_multiget_kids fst] in H. cbn [walk3].
    destruct (is_sel_name n) eqn:Es.
    { destruct sel; [discriminate|].
      apply obind_some in H. destruct H as [s [Hs H]].
      destruct (read_sel_server_m up n a k s w Hs (R1 eq_refl)) as [w1 [U [V X]]].
      rewrite U. cbn [bind].
      destruct (IH (Some s) sel' hrefs paths w1 H Hp) as [w' [A [B C0]]]; [discriminate|exact V|].
      exists w'. rewrite X in B. auto. }
    destruct (qname_eqb n (D "href")) eqn:Eh; [|discriminate].
    apply obind_some in H. destruct H as [h [Hh H]].
    apply obind_some in H. destruct H as [[sel1 hrefs1] [Hr H]]. cbn [fst snd] in H.
    inversion H; subst sel' hrefs; clear H.
    cbn [omapM] in Hp. apply obind_some in Hp. destruct Hp as [p [Hp1 Hp]].
    apply obind_some in Hp. destruct Hp as [paths1 [Hp2 Hp]]. inversion Hp; subst paths; clear Hp.
    apply qname_eqb_spec in Eh. subst n.
    unfold read_href in Hh. destruct (negb _); [discriminate|].
    unfold m_step at 1. replace (qname_eqb (D "href") (NS_DAV, "href")) with true by reflexivity.
    rewrite (pcdata_chardata _ _ Hh), Hp1. cbn [bind].
    destruct (IH sel sel1 hrefs1 paths1 (mkWM (wm_hrefs w ++ [p]) (wm_prop w) (wm_allprop w) (wm_propname w)) Hr Hp2 R1 R2)
      as [w' [A [B C0]]].
    exists w'. cbn [wm_hrefs] in B. rewrite <- app_assoc in B. auto.
Qed.

Lemma server_reads_multiget up n a k m paths :
  qname_eqb n (C "addressbook-multiget") = true ->
  read_multiget a k = Some m -> omapM up (rm_hrefs m) = Some paths ->
  (do w <- unmarshal_multiget up n a k; handle_multiget w) =
  Ok (CallsGet (map (fun p => (p, sel_data (rm_sel m))) paths)).
Proof.
  intros En H Hp. apply qname_eqb_spec in En. subst n.
  unfold read_multiget in H. destruct (negb _); [discriminate|].
  apply obind_some in H. destruct H as [es [Hes H]].
  apply obind_some in H. destruct H as [[sel hrefs] [Hk H]]. cbn [fst snd] in H.
  destruct (nonempty hrefs); [|discriminate]. inversion H; subst m; clear H. cbn [rm_hrefs rm_sel] in *.
  unfold unmarshal_multiget.
  replace (check_name NS_CARD "addressbook-multiget" (C "addressbook-multiget")) with true by reflexivity. cbn [negb].
  rewrite (walk_kids_elems (m_step up) k es Hes).
  destruct (m_kids_server up es None sel hrefs paths wm_zero Hk Hp) as [w [U [V X]]]; [reflexivity|reflexivity|].
  rewrite U. cbn [bind]. unfold handle_multiget. rewrite X. cbn [bind]. rewrite V. reflexivity.
Qed.

(** ** every document the reference reads reaches the backend as the request it denotes *)

Theorem server_denotes_decoded up path d r c :
  rfc_read d = Some r -> collides d = false -> limit_fits r = true ->
  backend_call_of up path r = Some c ->
  exists o, handle_decoded up path d = Ok o /\ canon_outcome o = c.
Proof.
  intros H Hc Hl Hb. destruct d as [n a k| |]; try discriminate.
  unfold rfc_read in H. unfold handle_decoded.
  apply collides_elem in Hc. destruct Hc as [_ Hc].
  change (NS_CARD, "addressbook-query") with (C "addressbook-query").
  change (NS_CARD, "addressbook-multiget") with (C "addressbook-multiget").
  destruct (qname_eqb n (C "addressbook-query")) eqn:E1.
  - apply obind_some in H. destruct H as [q [Hq H]]. inversion H; subst r.
    simpl in Hb. inversion Hb; subst c.
    apply server_reads_query; auto.
    intros l Hlim. simpl in Hl. rewrite Hlim in Hl. apply N.ltb_lt. exact Hl.
  - destruct (qname_eqb n (C "addressbook-multiget")) eqn:E2; [|discriminate].
    apply obind_some in H. destruct H as [m [Hm H]]. inversion H; subst r.
    simpl in Hb. apply obind_some in Hb. destruct Hb as [paths [Hp Hb]]. inversion Hb; subst c.
    rewrite (server_reads_multiget up n a k m paths E2 Hm Hp).
    eexists; split; reflexivity.
Qed.

(* ------------------------------------------------------------------------- *)
(** * The reference reads every lexical variant of a document alike *)

Lemma forallb_perm {A} (f : A -> bool) l l' : Permutation l l' -> forallb f l = forallb f l'.
Proof.
  induction 1; simpl; auto.
  - congruence.
  - rewrite !andb_assoc. f_equal. apply andb_comm.
  - congruence.
Qed.

Lemma mem_perm x l l' : Permutation l l' -> mem x l = mem x l'.
Proof.
  unfold mem. induction 1; simpl; auto.
  - congruence.
  - rewrite !orb_assoc. f_equal. apply orb_comm.
  - congruence.
Qed.

Lemma nodupb_perm l l' : Permutation l l' -> nodupb l = nodupb l'.
Proof.
  induction 1; simpl; auto.
  - rewrite (mem_perm x l l' H), IHPermutation. reflexivity.
  - unfold mem; simpl. rewrite (String.eqb_sym x y).
    destruct (String.eqb y x), (existsb (String.eqb y) l), (existsb (String.eqb x) l); reflexivity.
  - congruence.
Qed.

Lemma find_attr_perm x l l' :
  Permutation l l' -> nodupb (map (fun a : attr => snd (fst a)) l) = true -> find_attr x l = find_attr x l'.
Proof.
  induction 1; intros Hnd; simpl; auto.
  - simpl in Hnd. apply andb_true_iff in Hnd. destruct Hnd as [_ Hnd].
    rewrite IHPermutation by exact Hnd. reflexivity.
  - simpl in Hnd. apply andb_true_iff in Hnd. destruct Hnd as [H1 _].
    apply negb_true_iff in H1. apply mem_false_cons in H1. destruct H1 as [H1 _].
    destruct (String.eqb (snd (fst x0)) x) eqn:E1, (String.eqb (snd (fst y)) x) eqn:E2; auto.
    apply String.eqb_eq in E1, E2. congruence.
  - rewrite IHPermutation1 by exact Hnd. apply IHPermutation2.
    rewrite <- (nodupb_perm _ _ (Permutation_map _ H)). exact Hnd.
Qed.

Lemma attrs_ok_perm fs a a' :
  Permutation (real_attrs a) (real_attrs a') -> attrs_ok fs a' = attrs_ok fs a.
Proof.
  intros H. unfold attrs_ok.
  rewrite (forallb_perm _ _ _ H), (nodupb_perm _ _ (Permutation_map _ H)). reflexivity.
Qed.

Lemma get_attr_perm fs x a a' :
  Permutation (real_attrs a) (real_attrs a') -> attrs_ok fs a = true -> get_attr x a' = get_attr x a.
Proof.
  intros H Hok. apply attrs_ok_split in Hok. destruct Hok as [_ Hnd].
  unfold get_attr. symmetry. apply find_attr_perm; auto.
Qed.

Definition var3 (e e' : elem3) : Prop :=
  fst (fst e') = fst (fst e) /\
  Permutation (real_attrs (snd (fst e))) (real_attrs (snd (fst e'))) /\
  var_kids (kind_of (fst (fst e))) (snd e) (snd e').

Lemma elems_var k k' :
  var_kids KElems k k' ->
  (elems k = None /\ elems k' = None) \/
  (exists es es', elems k = Some es /\ elems k' = Some es' /\ Forall2 var3 es es').
Proof.
  intros H. remember KElems as c eqn:Ec. induction H; subst.
  - right. exists [], []. auto.
  - specialize (IHvar_kids eq_refl). inversion H; subst; simpl.
    + destruct IHvar_kids as [[E1 E2]|[es [es' [E1 [E2 F]]]]]; rewrite E1, E2; simpl; auto.
      right. do 2 eexists. split; [reflexivity|]. split; [reflexivity|].
      constructor; auto. unfold var3; simpl; auto.
    + destruct (is_ws s); auto.
    + auto.
  - simpl. auto.
  - simpl. rewrite H. auto.
  - discriminate.
Qed.

Lemma pcdata_var k k' : var_kids KText k k' -> pcdata k' = pcdata k.
Proof.
  intros H. remember KText as c eqn:Ec. induction H; subst.
  - reflexivity.
  - specialize (IHvar_kids eq_refl). inversion H; subst; simpl; auto. rewrite IHvar_kids. reflexivity.
  - simpl. auto.
  - discriminate.
  - specialize (IHvar_kids eq_refl). simpl. rewrite IHvar_kids.
    destruct (pcdata r); simpl; [|reflexivity]. rewrite append_assoc. reflexivity.
Qed.

Lemma empty_var k k' : var_kids KEmpty k k' -> no_content k' = no_content k.
Proof.
  intros H. remember KEmpty as c eqn:Ec. induction H; subst.
  - reflexivity.
  - reflexivity.
  - contradiction.
  - discriminate.
  - discriminate.
Qed.

Lemma is_empty_elem_var name e e' :
  kind_of name = KEmpty -> var3 e e' -> is_empty_elem name e' = is_empty_elem name e.
Proof.
  intros Hk [Hn [Hp Hv]]. destruct e as [[n a] k], e' as [[n' a'] k']. cbn [fst snd] in *. subst n'.
  unfold is_empty_elem. destruct (qname_eqb n name) eqn:E; [|reflexivity].
  apply qname_eqb_spec in E. subst n. rewrite Hk in Hv.
  rewrite (attrs_ok_perm [] a a' Hp), (empty_var _ _ Hv). reflexivity.
Qed.

Lemma omapM_Forall2 {A B} (R : A -> A -> Prop) (f : A -> option B) es es' :
  Forall2 R es es' -> (forall e e', R e e' -> f e' = f e) -> omapM f es' = omapM f es.
Proof.
  intros F H. induction F; simpl; auto. rewrite (H _ _ H0), IHF. reflexivity.
Qed.

Lemma read_tm_var e e' : var3 e e' -> read_tm e' = read_tm e.
Proof.
  intros [Hn [Hp Hv]]. destruct e as [[n a] k], e' as [[n' a'] k']. cbn [fst snd] in *. subst n'.
  unfold read_tm. destruct (qname_eqb n (C "text-match")) eqn:E; [|reflexivity]. cbn [negb].
  apply qname_eqb_spec in E. subst n. change (kind_of (C "text-match")) with KText in Hv.
  rewrite (attrs_ok_perm _ a a' Hp).
  destruct (attrs_ok ["collation"; "negate-condition"; "match-type"] a) eqn:Ea; [|reflexivity]. cbn [negb].
  rewrite !(get_attr_perm _ _ a a' Hp Ea), (pcdata_var _ _ Hv). reflexivity.
Qed.

Lemma read_param_var e e' : var3 e e' -> read_param e' = read_param e.
Proof.
  intros [Hn [Hp Hv]]. destruct e as [[n a] k], e' as [[n' a'] k']. cbn [fst snd] in *. subst n'.
  unfold read_param. destruct (qname_eqb n (C "param-filter")) eqn:E; [|reflexivity]. cbn [negb].
  apply qname_eqb_spec in E. subst n. change (kind_of (C "param-filter")) with KElems in Hv.
  rewrite (attrs_ok_perm _ a a' Hp).
  destruct (attrs_ok ["name"] a) eqn:Ea; [|reflexivity]. cbn [negb].
  rewrite (get_attr_perm _ _ a a' Hp Ea).
  destruct (get_attr "name" a); cbn [obind]; [|reflexivity].
  destruct (elems_var _ _ Hv) as [[E1 E2]|[es [es' [E1 [E2 F]]]]]; rewrite E1, E2; [reflexivity|].
  cbn [obind]. inversion F as [|c c' rr rr' Hc Fr]; subst; [reflexivity|].
  inversion Fr; subst; [|reflexivity].
  rewrite (is_empty_elem_var (C "is-not-defined") c c' eq_refl Hc), (read_tm_var _ _ Hc). reflexivity.
Qed.

Lemma read_pf_kids_var es es' : Forall2 var3 es es' -> read_pf_kids es' = read_pf_kids es.
Proof.
  induction 1; simpl; auto.
  rewrite IHForall2. destruct H as [Hn Hrest]. rewrite Hn.
  assert (V : var3 x y) by (split; auto).
  rewrite (read_tm_var _ _ V), (read_param_var _ _ V). reflexivity.
Qed.

Lemma read_pf_var e e' : var3 e e' -> read_pf e' = read_pf e.
Proof.
  intros [Hn [Hp Hv]]. destruct e as [[n a] k], e' as [[n' a'] k']. cbn [fst snd] in *. subst n'.
  unfold read_pf. destruct (qname_eqb n (C "prop-filter")) eqn:E; [|reflexivity]. cbn [negb].
  apply qname_eqb_spec in E. subst n. change (kind_of (C "prop-filter")) with KElems in Hv.
  rewrite (attrs_ok_perm _ a a' Hp).
  destruct (attrs_ok ["name"; "test"] a) eqn:Ea; [|reflexivity]. cbn [negb].
  rewrite !(get_attr_perm _ _ a a' Hp Ea).
  destruct (get_attr "name" a); cbn [obind]; [|reflexivity].
  destruct (val_test (get_attr "test" a)); cbn [obind]; [|reflexivity].
  destruct (elems_var _ _ Hv) as [[E1 E2]|[es [es' [E1 [E2 F]]]]]; rewrite E1, E2; [reflexivity|].
  cbn [obind]. rewrite (read_pf_kids_var _ _ F).
  inversion F as [|c c' rr rr' Hc Fr]; subst; [reflexivity|].
  inversion Fr; subst; [|reflexivity].
  rewrite (is_empty_elem_var (C "is-not-defined") c c' eq_refl Hc). reflexivity.
Qed.

Lemma read_filter_var e e' : var3 e e' -> read_filter e' = read_filter e.
Proof.
  intros [Hn [Hp Hv]]. destruct e as [[n a] k], e' as [[n' a'] k']. cbn [fst snd] in *. subst n'.
  unfold read_filter. destruct (qname_eqb n (C "filter")) eqn:E; [|reflexivity]. cbn [negb].
  apply qname_eqb_spec in E. subst n. change (kind_of (C "filter")) with KElems in Hv.
  rewrite (attrs_ok_perm _ a a' Hp).
  destruct (attrs_ok ["test"] a) eqn:Ea; [|reflexivity]. cbn [negb].
  rewrite (get_attr_perm _ _ a a' Hp Ea).
  destruct (val_test (get_attr "test" a)); cbn [obind]; [|reflexivity].
  destruct (elems_var _ _ Hv) as [[E1 E2]|[es [es' [E1 [E2 F]]]]]; rewrite E1, E2; [reflexivity|].
  cbn [obind]. rewrite (omapM_Forall2 var3 read_pf es es' F read_pf_var). reflexivity.
Qed.

Lemma read_limit_var e e' : var3 e e' -> read_limit e' = read_limit e.
Proof.
  intros [Hn [Hp Hv]]. destruct e as [[n a] k], e' as [[n' a'] k']. cbn [fst snd] in *. subst n'.
  unfold read_limit. rewrite (attrs_ok_perm _ a a' Hp).
  destruct (qname_eqb n (C "limit")) eqn:E; [|reflexivity].
  apply qname_eqb_spec in E. subst n. change (kind_of (C "limit")) with KElems in Hv.
  destruct (attrs_ok [] a); [|reflexivity]. cbn [andb negb].
  destruct (elems_var _ _ Hv) as [[E1 E2]|[es [es' [E1 [E2 F]]]]]; rewrite E1, E2; [reflexivity|].
  cbn [obind]. inversion F as [|c c' rr rr' Hc Fr]; subst; [reflexivity|].
  destruct Hc as [Hn1 [Hp1 Hv1]]. destruct c as [[n1 a1] k1], c' as [[n1' a1'] k1']. cbn [fst snd] in *. subst n1'.
  inversion Fr; subst; [|reflexivity].
  rewrite (attrs_ok_perm _ a1 a1' Hp1).
  destruct (qname_eqb n1 (C "nresults")) eqn:E1'; [|reflexivity].
  apply qname_eqb_spec in E1'. subst n1. change (kind_of (C "nresults")) with KText in Hv1.
  rewrite (pcdata_var _ _ Hv1). reflexivity.
Qed.

Lemma read_cprop_var e e' : var3 e e' -> read_cprop e' = read_cprop e.
Proof.
  intros [Hn [Hp Hv]]. destruct e as [[n a] k], e' as [[n' a'] k']. cbn [fst snd] in *. subst n'.
  unfold read_cprop. rewrite (attrs_ok_perm _ a a' Hp).
  destruct (qname_eqb n (C "prop")) eqn:E; [|reflexivity].
  apply qname_eqb_spec in E. subst n. change (kind_of (C "prop")) with KEmpty in Hv.
  rewrite (empty_var _ _ Hv).
  destruct (attrs_ok ["name"; "novalue"] a) eqn:Ea; [|reflexivity]. cbn [andb].
  rewrite !(get_attr_perm _ _ a a' Hp Ea). reflexivity.
Qed.

Lemma read_data_var e e' : var3 e e' -> read_data e' = read_data e.
Proof.
  intros [Hn [Hp Hv]]. destruct e as [[n a] k], e' as [[n' a'] k']. cbn [fst snd] in *. subst n'.
  unfold read_data. rewrite (attrs_ok_perm _ a a' Hp).
  destruct (qname_eqb n (C "address-data")) eqn:E; [|reflexivity].
  apply qname_eqb_spec in E. subst n. change (kind_of (C "address-data")) with KElems in Hv.
  destruct (attrs_ok [] a); [|reflexivity]. cbn [andb negb].
  destruct (elems_var _ _ Hv) as [[E1 E2]|[es [es' [E1 [E2 F]]]]]; rewrite E1, E2; [reflexivity|].
  cbn [obind]. rewrite (omapM_Forall2 var3 read_cprop es es' F read_cprop_var).
  inversion F as [|c c' rr rr' Hc Fr]; subst; [reflexivity|].
  inversion Fr; subst; [|reflexivity].
  rewrite (is_empty_elem_var (C "allprop") c c' eq_refl Hc). reflexivity.
Qed.

Lemma read_item_var e e' : var3 e e' -> read_item e' = read_item e.
Proof.
  intros V. unfold read_item. rewrite (read_data_var _ _ V). destruct V as [Hn _]. rewrite Hn. reflexivity.
Qed.

Lemma read_sel_var e e' : var3 e e' -> read_sel e' = read_sel e.
Proof.
  intros V. unfold read_sel.
  destruct e as [[n a] k], e' as [[n' a'] k'].
  rewrite (is_empty_elem_var (D "allprop") _ _ eq_refl V), (is_empty_elem_var (D "propname") _ _ eq_refl V).
  destruct V as [Hn [Hp Hv]]. cbn [fst snd] in *. subst n'.
  rewrite (attrs_ok_perm _ a a' Hp).
  destruct (is_empty_elem (D "allprop") (n, a, k)); [reflexivity|].
  destruct (is_empty_elem (D "propname") (n, a, k)); [reflexivity|].
  destruct (qname_eqb n (D "prop")) eqn:E; [|reflexivity].
  apply qname_eqb_spec in E. subst n. change (kind_of (D "prop")) with KElems in Hv.
  destruct (attrs_ok [] a); [|reflexivity]. cbn [andb].
  destruct (elems_var _ _ Hv) as [[E1 E2]|[es [es' [E1 [E2 F]]]]]; rewrite E1, E2; [reflexivity|].
  cbn [obind]. rewrite (omapM_Forall2 var3 read_item es es' F read_item_var). reflexivity.
Qed.

Lemma read_query_kids_var es es' : Forall2 var3 es es' -> forall acc, read_query_kids es' acc = read_query_kids es acc.
Proof.
  induction 1; intros acc; simpl; auto.
  pose proof H as [Hn _]. rewrite Hn.
  rewrite (read_sel_var _ _ H), (read_filter_var _ _ H), (read_limit_var _ _ H).
  destruct (is_sel_name (fst (fst x))).
  { destruct (qa_sel acc); [reflexivity|]. destruct (read_sel x); simpl; auto. }
  destruct (qname_eqb (fst (fst x)) (C "filter")).
  { destruct (qa_filter acc); [reflexivity|]. destruct (read_filter x); simpl; auto. }
  destruct (qname_eqb (fst (fst x)) (C "limit")); [|reflexivity].
  destruct (qa_limit acc); [reflexivity|]. destruct (read_limit x); simpl; auto.
Qed.

Lemma read_href_var e e' : var3 e e' -> read_href e' = read_href e.
Proof.
  intros [Hn [Hp Hv]]. destruct e as [[n a] k], e' as [[n' a'] k']. cbn [fst snd] in *. subst n'.
  unfold read_href. rewrite (attrs_ok_perm _ a a' Hp).
  destruct (qname_eqb n (D "href")) eqn:E; [|reflexivity].
  apply qname_eqb_spec in E. subst n. change (kind_of (D "href")) with KText in Hv.
  rewrite (pcdata_var _ _ Hv). reflexivity.
Qed.

Lemma read_multiget_kids_var es es' :
  Forall2 var3 es es' -> forall sel, read_multiget_kids es' sel = read_multiget_kids es sel.
Proof.
  induction 1; intros sel; simpl; auto.
  pose proof H as [Hn _]. rewrite Hn.
  rewrite (read_sel_var _ _ H), (read_href_var _ _ H).
  destruct (is_sel_name (fst (fst x))).
  { destruct sel; [reflexivity|]. destruct (read_sel x); simpl; auto. }
  destruct (qname_eqb (fst (fst x)) (D "href")); [|reflexivity].
  destruct (read_href x); simpl; [|reflexivity]. rewrite IHForall2. reflexivity.
Qed.

Theorem rfc_read_var d d' : var d d' -> rfc_read d' = rfc_read d.
Proof.
  intros H. inversion H as [n a a' k k' Hp Hv| |]; subst; try reflexivity.
  unfold rfc_read.
  destruct (qname_eqb n (C "addressbook-query")) eqn:E1.
  - apply qname_eqb_spec in E1. subst n. change (kind_of (C "addressbook-query")) with KElems in Hv.
    unfold read_query. rewrite (attrs_ok_perm _ a a' Hp).
    destruct (attrs_ok [] a); [|reflexivity]. cbn [negb].
    destruct (elems_var _ _ Hv) as [[E1 E2]|[es [es' [E1 [E2 F]]]]]; rewrite E1, E2; [reflexivity|].
    cbn [obind]. rewrite (read_query_kids_var _ _ F). reflexivity.
  - destruct (qname_eqb n (C "addressbook-multiget")) eqn:E2; [|reflexivity].
    apply qname_eqb_spec in E2. subst n. change (kind_of (C "addressbook-multiget")) with KElems in Hv.
    unfold read_multiget. rewrite (attrs_ok_perm _ a a' Hp).
    destruct (attrs_ok [] a); [|reflexivity]. cbn [negb].
    destruct (elems_var _ _ Hv) as [[E1' E2']|[es [es' [E1' [E2' F]]]]]; rewrite E1', E2'; [reflexivity|].
    cbn [obind]. rewrite (read_multiget_kids_var _ _ F). reflexivity.
Qed.

(* ------------------------------------------------------------------------- *)
(** * Variants: basic closure properties *)

Fixpoint xtree_ind2 (P : xtree -> Prop)
    (He : forall n a k, Forall P k -> P (Elem n a k))
    (Ht : forall s, P (Text s)) (Hc : forall s, P (Comment s)) (t : xtree) : P t :=
  match t with
  | Elem n a k =>
    He n a k ((fix go (l : list xtree) : Forall P l :=
                 match l with
                 | [] => Forall_nil P
                 | x :: r => Forall_cons x (xtree_ind2 P He Ht Hc x) (go r)
                 end) k)
  | Text s => Ht s
  | Comment s => Hc s
  end.

Lemma var_kids_Forall2 c l l' : Forall2 var l l' -> var_kids c l l'.
Proof. induction 1; constructor; auto. Qed.

Lemma var_kids_app c l1 l1' l2 l2' :
  var_kids c l1 l1' -> var_kids c l2 l2' -> var_kids c (l1 ++ l2) (l1' ++ l2').
Proof.
  intros H1 H2. induction H1; simpl; auto.
  - constructor; auto.
  - constructor; auto.
  - constructor; auto.
  - apply VK_split. auto.
Qed.

Lemma var_refl t : var t t.
Proof.
  induction t using xtree_ind2; try constructor.
  - apply Permutation_refl.
  - apply var_kids_Forall2. induction H; constructor; auto.
Qed.

Lemma var_kids_refl c l : var_kids c l l.
Proof. apply var_kids_Forall2. induction l; constructor; auto using var_refl. Qed.

Lemma Forall2_map2 {A} (f g : A -> xtree) l : (forall x, In x l -> var (f x) (g x)) -> Forall2 var (map f l) (map g l).
Proof. induction l; simpl; intros H; constructor; auto. Qed.

(* ------------------------------------------------------------------------- *)
(** * The client: what it sends is a lexical variant of what the reference writes *)

Definition opt_nonempty (s : string) : option string := if str_empty s then None else Some s.

Definition raw_of_tm (t : TextMatch) : x_tm :=
  mkXT (tm_text t) (if tm_negate t then Some "yes" else None) (opt_nonempty (tm_match t)).
Definition raw_of_param (p : ParamFilter) : x_param :=
  mkXP (pa_name p)
       (if pa_ind p then XParamNotDefined
        else match pa_tm p with None => XParamDefined | Some t => XParamText (raw_of_tm t) end).
Definition raw_of_pf (f : PropFilter) : x_pf :=
  mkXF (pf_name f) (opt_nonempty (pf_test f))
       (if pf_ind f then XPropNotDefined
        else XPropMatches (map raw_of_tm (pf_tms f)) (map raw_of_param (pf_params f))).
Definition raw_of_query (q : Query) : x_query :=
  mkXQ (client_sel (q_data q)) (opt_nonempty (q_test q)) (map raw_of_pf (q_filters q))
       (if (0 <? q_limit q)%Z then Some (dec_of_N (Z.to_N (q_limit q))) else None).

(** ** the raw request of an expressible value is conformant and denotes what the value denotes *)

Lemma den_test_val s t : den_test s = Some t -> val_test (opt_nonempty s) = Some t.
Proof.
  unfold den_test, opt_nonempty. destruct (str_empty s); [|auto]. intros H; inversion H; reflexivity.
Qed.

Lemma den_match_val s m : den_match s = Some m -> val_match (opt_nonempty s) = Some m.
Proof.
  unfold den_match, opt_nonempty. destruct (str_empty s); [|auto]. intros H; inversion H; reflexivity.
Qed.

Lemma den_tm_val t t' : den_tm t = Some t' -> val_tm (raw_of_tm t) = Some t'.
Proof.
  unfold den_tm, val_tm, raw_of_tm. intros H. apply obind_some in H. destruct H as [m [Hm H]].
  inversion H; subst. cbn [xt_negate xt_match xt_text].
  rewrite (den_match_val _ _ Hm). destruct (tm_negate t); reflexivity.
Qed.

Lemma den_param_val p p' : den_param p = Some p' -> val_param (raw_of_param p) = Some p'.
Proof.
  unfold den_param, val_param, raw_of_param. cbn [xp_cond xp_name].
  destruct (pa_ind p), (pa_tm p) as [t|]; try discriminate; intros H.
  - inversion H; reflexivity.
  - apply obind_some in H. destruct H as [t' [Ht H]]. rewrite (den_tm_val _ _ Ht). exact H.
  - inversion H; reflexivity.
Qed.

Lemma omapM_compose {A B C} (f : A -> option C) (g : A -> B) (h : B -> option C) l l' :
  (forall x y, f x = Some y -> h (g x) = Some y) -> omapM f l = Some l' -> omapM h (map g l) = Some l'.
Proof.
  intros H. revert l'. induction l as [|x l IH]; simpl; intros l' E; auto.
  apply obind_some in E. destruct E as [y [Ey E]]. apply obind_some in E. destruct E as [ys [Eys E]].
  inversion E; subst. rewrite (H _ _ Ey). simpl. rewrite (IH _ Eys). reflexivity.
Qed.

Lemma den_pf_val f f' : den_pf f = Some f' -> val_pf (raw_of_pf f) = Some f'.
Proof.
  unfold den_pf, val_pf, raw_of_pf. cbn [xf_test xf_cond xf_name]. intros H.
  apply obind_some in H. destruct H as [t [Ht H]]. rewrite (den_test_val _ _ Ht). cbn [obind].
  destruct (pf_ind f).
  - destruct (nonempty (pf_tms f) || nonempty (pf_params f)); [discriminate|exact H].
  - apply obind_some in H. destruct H as [tms [Htms H]]. apply obind_some in H. destruct H as [ps [Hps H]].
    rewrite (omapM_compose den_tm raw_of_tm val_tm _ _ den_tm_val Htms). cbn [obind].
    rewrite (omapM_compose den_param raw_of_param val_param _ _ den_param_val Hps). exact H.
Qed.

Lemma client_sel_ok dr : sel_ok (client_sel dr) = true.
Proof. reflexivity. Qed.

Lemma den_query_val q r : den_query q = Some r -> val_query (raw_of_query q) = Some r.
Proof.
  unfold den_query, val_query, raw_of_query. cbn [xq_sel xq_test xq_filters xq_limit]. intros H.
  rewrite client_sel_ok. cbn [negb].
  apply obind_some in H. destruct H as [t [Ht H]]. rewrite (den_test_val _ _ Ht). cbn [obind].
  apply obind_some in H. destruct H as [fs [Hfs H]].
  rewrite (omapM_compose den_pf raw_of_pf val_pf _ _ den_pf_val Hfs). cbn [obind].
  inversion H; subst. unfold den_limit.
  destruct (0 <? q_limit q)%Z eqn:E; [|reflexivity].
  unfold val_nresults. rewrite digits_dec_of_N.
  assert (P : (0 <? Z.to_N (q_limit q))%N = true) by (apply N.ltb_lt; apply Z.ltb_lt in E; lia).
  rewrite P. reflexivity.
Qed.

(** ** what the client marshals is a variant of what the reference writes for that raw request *)

Lemma tm_var t : var (write_tm (raw_of_tm t)) (marshal_text_match (encode_text_match t)).
Proof.
  destruct t as [text ng mt]. unfold write_tm, raw_of_tm, marshal_text_match, encode_text_match, el.
  cbn [xt_text xt_negate xt_match wtm_text wtm_collation wtm_negate wtm_match tm_text tm_negate tm_match].
  apply V_elem.
  - unfold opt_nonempty, at_omitempty. destruct ng, (str_empty mt); apply Permutation_refl.
  - apply var_kids_refl.
Qed.

Lemma ind_elem_eq : el_inh NS_CARD "is-not-defined" [] [] = Elem (C "is-not-defined") [] [].
Proof. reflexivity. Qed.

Lemma param_var p p' :
  den_param p = Some p' ->
  exists w, encode_param_filter p = Ok w /\ var (write_param (raw_of_param p)) (marshal_param_filter w).
Proof.
  destruct p as [name ind tm]. unfold den_param, encode_param_filter, raw_of_param, write_param, marshal_param_filter, el.
  cbn [pa_name pa_ind pa_tm xp_name xp_cond wpa_name wpa_ind wpa_tm].
  destruct ind, tm as [t|]; try discriminate; intros _; cbn [andb is_some];
    (eexists; split; [reflexivity|]); cbn [wpa_name wpa_ind wpa_tm flag_kid opt_kid app];
    apply V_elem; try apply Permutation_refl.
  - apply var_kids_refl.
  - change (kind_of (C "param-filter")) with KElems. constructor; [apply tm_var|constructor].
  - apply var_kids_refl.
Qed.

Lemma params_var ps : forall ps',
  omapM den_param ps = Some ps' ->
  exists ws, mapM encode_param_filter ps = Ok ws /\
             Forall2 var (map write_param (map raw_of_param ps)) (map marshal_param_filter ws).
Proof.
  induction ps as [|p ps IH]; intros ps' H.
  - exists []. simpl. auto.
  - cbn [omapM] in H. apply obind_some in H. destruct H as [p' [Hp H]].
    apply obind_some in H. destruct H as [ps1 [Hps H]].
    destruct (param_var p p' Hp) as [w [E V]]. destruct (IH ps1 Hps) as [ws [Es F]].
    exists (w :: ws). cbn [mapM map]. rewrite E. cbn [bind]. rewrite Es. cbn [bind]. split; [reflexivity|].
    constructor; auto.
Qed.

Lemma pf_var f f' :
  den_pf f = Some f' ->
  exists w, encode_prop_filter f = Ok w /\ var (write_pf (raw_of_pf f)) (marshal_prop_filter w).
Proof.
  destruct f as [name test ind tms ps]. unfold den_pf, encode_prop_filter, raw_of_pf, write_pf, marshal_prop_filter, el.
  cbn [pf_name pf_test pf_ind pf_tms pf_params xf_name xf_test xf_cond].
  intros H. apply obind_some in H. destruct H as [t [_ H]].
  assert (PA : Permutation
                 (real_attrs (plain_attr "name" name :: opt_attr "test" (opt_nonempty test)))
                 (real_attrs (nsd NS_CARD :: at_always "name" name ++ at_omitempty "test" test))).
  { unfold opt_nonempty, at_omitempty. destruct (str_empty test); apply Permutation_refl. }
  destruct ind.
  - destruct tms, ps; try discriminate. cbn [nonempty orb andb mapM bind map].
    eexists; split; [reflexivity|]. cbn [wpf_name wpf_test wpf_ind wpf_tms wpf_params flag_kid map app].
    apply V_elem; [exact PA|]. apply var_kids_refl.
  - cbn [andb]. apply obind_some in H. destruct H as [tms' [_ H]].
    apply obind_some in H. destruct H as [ps' [Hps _]].
    destruct (params_var ps ps' Hps) as [ws [E F]]. rewrite E. cbn [bind].
    eexists; split; [reflexivity|]. cbn [wpf_name wpf_test wpf_ind wpf_tms wpf_params flag_kid app].
    apply V_elem; [exact PA|]. change (kind_of (C "prop-filter")) with KElems.
    apply var_kids_app.
    + rewrite !map_map. apply var_kids_Forall2, Forall2_map2. intros; apply tm_var.
    + apply var_kids_Forall2. exact F.
Qed.

Lemma pfs_var fs : forall fs',
  omapM den_pf fs = Some fs' ->
  exists ws, mapM encode_prop_filter fs = Ok ws /\
             Forall2 var (map write_pf (map raw_of_pf fs)) (map marshal_prop_filter ws).
Proof.
  induction fs as [|f fs IH]; intros fs' H.
  - exists []. simpl. auto.
  - cbn [omapM] in H. apply obind_some in H. destruct H as [f' [Hf H]].
    apply obind_some in H. destruct H as [fs1 [Hfs H]].
    destruct (pf_var f f' Hf) as [w [E V]]. destruct (IH fs1 Hfs) as [ws [Es F]].
    exists (w :: ws). cbn [mapM map]. rewrite E. cbn [bind]. rewrite Es. cbn [bind]. split; [reflexivity|].
    constructor; auto.
Qed.

Lemma sel_var dr : Forall2 var (write_sel (client_sel dr)) [marshal_prop (encode_address_prop_req dr)].
Proof.
  unfold client_sel, write_sel, marshal_prop, encode_address_prop_req, el. cbn [map marshal_raw DAV_getlastmodified DAV_getetag].
  constructor; [|constructor].
  apply V_elem; [apply Permutation_refl|]. change (kind_of (D "prop")) with KElems.
  constructor; [|constructor; [|constructor; [|constructor]]].
  - unfold den_data, write_item, write_data, marshal_address_data, el. destruct (dr_allprop dr).
    + cbn [wad_props wad_allprop map flag_kid app]. apply V_elem; [apply Permutation_refl|apply var_kids_refl].
    + cbn [wad_props wad_allprop flag_kid]. rewrite app_nil_r.
      apply V_elem; [apply Permutation_refl|]. apply var_kids_Forall2, Forall2_map2.
      intros x _. apply V_elem; [apply Permutation_refl|constructor].
  - apply V_elem; [apply Permutation_refl|constructor].
  - apply V_elem; [apply Permutation_refl|constructor].
Qed.

Lemma text_kid_dec n : text_kid (dec_of_N n) = [Text (dec_of_N n)].
Proof. unfold text_kid. rewrite dec_of_N_nonempty. reflexivity. Qed.

Theorem client_query_variant q r :
  den_query q = Some r ->
  exists w, query_address_book q = Ok w /\ var (write_query (raw_of_query q)) (marshal_query w).
Proof.
  intros H. unfold den_query in H. apply obind_some in H. destruct H as [t [_ H]].
  apply obind_some in H. destruct H as [fs [Hfs _]].
  destruct (pfs_var _ _ Hfs) as [ws [E F]].
  unfold query_address_book. rewrite E. cbn [bind]. eexists; split; [reflexivity|].
  unfold write_query, raw_of_query, marshal_query, el.
  cbn [xq_sel xq_test xq_filters xq_limit wq_prop wq_allprop wq_propname wq_filter wq_limit].
  apply V_elem; [apply Permutation_refl|]. change (kind_of (C "addressbook-query")) with KElems.
  change (opt_kid marshal_prop (Some (encode_address_prop_req (q_data q))) ++
          flag_kid false (Elem (NS_DAV, "allprop") [nsd NS_DAV] []) ++
          flag_kid false (Elem (NS_DAV, "propname") [nsd NS_DAV] []) ++
          [marshal_filter (mkWF (q_test q) ws)] ++
          opt_kid marshal_limit (if (0 <? q_limit q)%Z then Some (Z.to_N (q_limit q)) else None))%list
    with ([marshal_prop (encode_address_prop_req (q_data q))] ++ [marshal_filter (mkWF (q_test q) ws)]
            ++ opt_kid marshal_limit (if (0 <? q_limit q)%Z then Some (Z.to_N (q_limit q)) else None))%list.
  apply var_kids_app; [apply var_kids_Forall2, sel_var|]. apply var_kids_app.
  - constructor; [|constructor]. unfold marshal_filter, el. cbn [wf_test wf_props].
    apply V_elem.
    + unfold opt_nonempty, at_omitempty. destruct (str_empty (q_test q)); apply Permutation_refl.
    + apply var_kids_Forall2. exact F.
  - destruct (0 <? q_limit q)%Z; [|constructor]. cbn [opt_kid].
    constructor; [|constructor]. unfold write_limit, marshal_limit, el_inh.
    apply V_elem; [apply Permutation_refl|]. rewrite text_kid_dec. apply var_kids_refl.
Qed.

(** C09_client_conformant, query half *)
Theorem client_query_conformant q r :
  den_query q = Some r ->
  exists d, client_query_doc q = Ok d /\ rfc_read d = Some (RQuery r).
Proof.
  intros H. destruct (client_query_variant q r H) as [w [E V]].
  unfold client_query_doc. rewrite E. cbn [bind]. eexists; split; [reflexivity|].
  rewrite (rfc_read_var _ _ V).
  change (write_query (raw_of_query q)) with (rfc_write_raw (XQuery (raw_of_query q))).
  apply rfc_read_write_conformant. cbn [validate]. rewrite (den_query_val q r H). reflexivity.
Qed.

(** ** multiget: the client sends the hrefs before the selector (the RFC's DTD lists
    them after it; the order of children of different kinds is not significant) *)

Lemma read_multiget_kids_hrefs_then_sel hs x sel :
  is_sel_name (fst (fst (to3 x))) = true -> read_sel (to3 x) = Some sel ->
  read_multiget_kids (map to3 (map write_href hs ++ [x])) None = Some (Some sel, hs).
Proof.
  intros N R. induction hs as [|h hs IH].
  - cbn [map app]. rewrite (rmk_sel _ _ sel N R). reflexivity.
  - cbn [map app]. rewrite read_multiget_kids_cons_href, IH. reflexivity.
Qed.

Lemma rfc_read_hrefs_first sel x hs :
  sel_ok sel = true -> write_sel sel = [x] -> nonempty hs = true ->
  rfc_read (Elem (C "addressbook-multiget") [] (map write_href hs ++ [x])) = Some (RMultiget (mkRM sel hs)).
Proof.
  intros Hok E Hne. destruct (read_sel_write sel x Hok E) as [N R].
  unfold rfc_read.
  replace (qname_eqb (C "addressbook-multiget") (C "addressbook-query")) with false by reflexivity.
  replace (qname_eqb (C "addressbook-multiget") (C "addressbook-multiget")) with true by reflexivity.
  unfold read_multiget. replace (attrs_ok [] []) with true by reflexivity. cbn [negb].
  assert (Hx : is_elem x = true) by (destruct sel; simpl in E; inversion E; reflexivity).
  rewrite elems_all.
  2:{ rewrite forallb_app, forallb_map, forallb_true. cbn [forallb]. rewrite Hx. reflexivity. }
  cbn [obind]. rewrite (read_multiget_kids_hrefs_then_sel hs x sel N R). cbn [obind fst snd dflt].
  rewrite Hne. reflexivity.
Qed.

Lemma href_var h : var (write_href h) (el NS_DAV "href" [] (text_kid h)).
Proof. unfold write_href, el. apply V_elem; [apply Permutation_refl|apply var_kids_refl]. Qed.

Lemma client_multiget_doc_reads us path mg hs :
  (match mg_paths mg with [] => [path] | l => l end) = hs ->
  rfc_read (client_multiget_doc us path mg) = Some (RMultiget (mkRM (client_sel (mg_data mg)) (map us hs))).
Proof.
  intros Hhs. unfold client_multiget_doc, multi_get_address_book, marshal_multiget. rewrite Hhs.
  cbn [wm_hrefs wm_prop wm_allprop wm_propname opt_kid flag_kid]. rewrite !app_nil_r.
  assert (Hne : nonempty hs = true) by (destruct (mg_paths mg); subst hs; reflexivity).
  clear Hhs.
  pose proof (sel_var (mg_data mg)) as SV.
  remember (write_sel (client_sel (mg_data mg))) as ws eqn:Ews.
  inversion SV as [|x y l l' Vx Fl]; subst. inversion Fl; subst.
  assert (V : var (Elem (C "addressbook-multiget") [] (map write_href (map us hs) ++ [x]))
                  (el NS_CARD "addressbook-multiget" []
                      (map (fun p => el NS_DAV "href" [] (text_kid (us p))) hs ++
                       [marshal_prop (encode_address_prop_req (mg_data mg))]))).
  { unfold el at 1. apply V_elem; [apply Permutation_refl|].
    change (kind_of (C "addressbook-multiget")) with KElems.
    apply var_kids_app.
    - rewrite map_map. apply var_kids_Forall2, Forall2_map2. intros; apply href_var.
    - constructor; [exact Vx|constructor]. }
  rewrite (rfc_read_var _ _ V).
  apply rfc_read_hrefs_first; [reflexivity|congruence|].
  destruct hs; [discriminate|reflexivity].
Qed.

(** C09_client_conformant, multiget half *)
Theorem client_multiget_conformant us path mg m :
  den_multiget us mg = Some m -> rfc_read (client_multiget_doc us path mg) = Some (RMultiget m).
Proof.
  unfold den_multiget. intros H. destruct (mg_paths mg) as [|p l] eqn:E; [discriminate|].
  inversion H; subst m. apply (client_multiget_doc_reads us path mg (p :: l)). rewrite E. reflexivity.
Qed.

(** an empty Paths list is sent as a multiget of the collection path itself *)
Theorem client_multiget_empty_paths us path mg :
  mg_paths mg = [] ->
  rfc_read (client_multiget_doc us path mg) = Some (RMultiget (mkRM (client_sel (mg_data mg)) [us path])).
Proof.
  intros E. apply (client_multiget_doc_reads us path mg [path]). rewrite E. reflexivity.
Qed.
