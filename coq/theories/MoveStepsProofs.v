(** MoveStepsProofs.v — the OS-call sequence of LocalFileSystem.Move ([MoveSteps.move_steps])
    computes, at every path, the single step of [DavServer.do_move]; a rename the OS refuses
    leaves the very tree that was there (Leibniz), for a new and for an existing destination
    alike.  The sequence before the repair (RemoveAll; Rename) lost the old destination:
    [move_steps_old], kept with its refutation. *)
From GW Require Import Base GoPath Fs DavServer Rfc4918 FsProofs DavRefine UploadSteps UploadStepsProofs
  CopySteps CopyStepsProofs CopyTempProofs RelocProofs SortedProofs MoveSteps.
Local Open Scope list_scope.

(** what [copy_move_checks] has established when it lets the request through *)
Lemma checks_ok root sb src dst ow ss n ds created :
  copy_move_checks root sb src dst ow = GOk (ss, n, ds, created) ->
  is_prefix ss ds = false /\ is_prefix ds ss = false /\
  geto sb (hp root ss) = Some n /\
  created = negb (exists_ (geto sb (hp root ds))).
Proof.
  unfold copy_move_checks. intros H.
  destruct (segs_of src) as [ss0|e]; [|discriminate].
  destruct (segs_of dst) as [ds0|e]; [|discriminate].
  destruct (is_prefix ss0 ds0) eqn:E1; [discriminate|].
  destruct (is_prefix ds0 ss0) eqn:E2; [discriminate|]. cbn [orb] in H.
  destruct (geto sb (hp root ss0)) as [n0|] eqn:Eg; [|discriminate].
  destruct (negb (is_dir (geto sb (hp root (parent ds0))))); [discriminate|].
  destruct (exists_ (geto sb (hp root ds0))) eqn:Ee.
  - destruct ow; [|discriminate]. inversion H; subst. rewrite Ee. auto.
  - inversion H; subst. rewrite Ee. auto.
Qed.

(** * Lists: taking a binding out of a sorted listing and putting it back *)
Lemma str_ltb_asym a b : str_ltb a b = true -> str_ltb b a = false.
Proof.
  unfold str_ltb. rewrite (String.compare_antisym b a).
  destruct (String.compare a b); cbn; congruence.
Qed.

Lemma str_ltb_irrefl a : str_ltb a a = false.
Proof. destruct (str_ltb a a) eqn:E; [|reflexivity]. pose proof (str_ltb_asym _ _ E). congruence. Qed.

Lemma below_assoc k' k v l : below k' l = true -> assoc k l = Some v -> str_ltb k' k = true.
Proof.
  induction l as [|[k2 v2] r IH]; cbn; intros Hb Ha; [discriminate|].
  apply andb_prop in Hb. destruct Hb as [H1 H2].
  destruct (String.eqb k2 k) eqn:E.
  - apply String.eqb_eq in E. subst. exact H1.
  - apply IH; assumption.
Qed.

Lemma del_below k l : below k l = true -> del_assoc k l = l.
Proof.
  induction l as [|[k2 v2] r IH]; cbn; intros Hb; [reflexivity|].
  apply andb_prop in Hb. destruct Hb as [H1 H2].
  destruct (String.eqb k2 k) eqn:E.
  - apply String.eqb_eq in E. subst. rewrite str_ltb_irrefl in H1. discriminate.
  - cbn. f_equal. apply IH. exact H2.
Qed.

Lemma ins_below k v l : below k l = true -> ins_assoc k v l = (k, v) :: l.
Proof.
  destruct l as [|[k2 v2] r]; cbn; intros Hb; [reflexivity|].
  apply andb_prop in Hb. destruct Hb as [H1 _]. rewrite H1. reflexivity.
Qed.

Lemma ins_del_sorted k v l :
  keys_sorted l = true -> assoc k l = Some v -> ins_assoc k v (del_assoc k l) = l.
Proof.
  induction l as [|[k2 v2] r IH]; intros Hs Ha; [discriminate|].
  rewrite keys_sorted_cons in Hs. apply andb_prop in Hs. destruct Hs as [Hb Hs].
  cbn [assoc] in Ha. cbn [del_assoc filter fst].
  destruct (String.eqb k2 k) eqn:E.
  - apply String.eqb_eq in E. subst k2. inversion Ha; subst v2. cbn [negb].
    fold (del_assoc k r). rewrite del_below by exact Hb. apply ins_below. exact Hb.
  - cbn [negb]. fold (del_assoc k r). cbn [ins_assoc].
    pose proof (below_assoc _ _ _ _ Hb Ha) as Hlt.
    rewrite (str_ltb_asym _ _ Hlt). rewrite IH by assumption. reflexivity.
Qed.

(** * Trees: unmapping a resource and mapping it again gives the very same tree *)
Lemma seto_remo_back p : forall on n,
  sorted_otree on = true -> p <> [] -> geto on p = Some n -> seto (remo on p) p n = on.
Proof.
  induction p as [|s r IH]; intros on n Hso Hne Hg; [congruence|].
  destruct on as [[c m|ch]|]; try (cbn in Hg; discriminate).
  cbn [geto] in Hg. cbn [remo].
  destruct (assoc s ch) as [c0|] eqn:Ea; [|rewrite geto_None in Hg; discriminate].
  cbn [sorted_otree] in Hso. apply sorted_dir_iff in Hso. destruct Hso as [Hks Hkd].
  destruct r as [|s2 r2].
  - cbn in Hg. inversion Hg; subst c0. cbn [remo].
    rewrite seto_cons. rewrite assoc_del_same. cbn [seto].
    unfold set_assoc. rewrite assoc_del_same. rewrite ins_del_sorted by assumption. reflexivity.
  - destruct (remo (Some c0) (s2 :: r2)) as [c'|] eqn:Er.
    2:{ apply remo_some_none in Er. discriminate. }
    rewrite seto_cons. rewrite assoc_set_same. rewrite <- Er.
    rewrite (IH (Some c0) n); [| cbn [sorted_otree]; eapply sorted_kids_assoc; eassumption | congruence | exact Hg].
    rewrite set_set, set_back by exact Ea. reflexivity.
Qed.

Lemma not_prefix_parent dp tmpp : is_prefix dp tmpp = false -> is_prefix dp (parent tmpp) = false.
Proof.
  intros H. destruct (is_prefix dp (parent tmpp)) eqn:E; [|reflexivity].
  rewrite (is_prefix_trans dp (parent tmpp) tmpp E (is_prefix_removelast tmpp)) in H. discriminate.
Qed.

(** setting the old destination aside and putting it back is the identity *)
Lemma aside_and_back s dp tmpp old :
  sorted_otree s = true -> dp <> [] -> tmpp <> [] ->
  geto s dp = Some old -> geto s tmpp = None ->
  is_prefix dp tmpp = false -> is_prefix tmpp dp = false ->
  is_dir (geto s (parent tmpp)) = true ->
  exists s1, rename_step s dp tmpp = Some (Some s1) /\ move_back (Some s1) tmpp dp = (s, false).
Proof.
  intros Hso Hd Ht Hg Hfresh P1 P2 Hdir.
  assert (Hd' : is_dir (geto (remo s dp) (removelast tmpp)) = true).
  { change (removelast tmpp) with (parent tmpp).
    rewrite is_dir_remo_other by (apply not_prefix_parent; exact P1). exact Hdir. }
  destruct (seto_ok tmpp (remo s dp) old Ht Hd') as [s1 Hs1].
  exists s1. split.
  - unfold rename_step. rewrite Hg, Hs1. reflexivity.
  - assert (Hf' : geto (remo s dp) tmpp = None) by (rewrite geto_remo_other by assumption; exact Hfresh).
    unfold move_back, rename_step. rewrite (geto_seto_self _ _ _ _ Hs1).
    rewrite (remo_seto_fresh tmpp (remo s dp) old s1 Ht Hf' Hs1).
    rewrite seto_remo_back by assumption.
    destruct s as [t|]; [reflexivity|]. rewrite geto_None in Hg. discriminate.
Qed.

(** C02 for MOVE under the fault: whenever the OS refuses the rename of the source, the
    tree afterwards is EQUAL to the tree before — the old destination included. *)
Theorem move_fault_restores s sp dp tmpp :
  sorted_otree s = true -> dp <> [] -> tmpp <> [] ->
  geto s tmpp = None ->
  is_prefix dp tmpp = false -> is_prefix tmpp dp = false ->
  is_dir (geto s (parent tmpp)) = true ->
  move_steps s sp dp tmpp true = (s, false).
Proof.
  intros Hso Hd Ht Hfresh P1 P2 Hdir. unfold move_steps.
  destruct (geto s dp) as [old|] eqn:Hg; cbn [exists_]; [|reflexivity].
  destruct (aside_and_back s dp tmpp old Hso Hd Ht Hg Hfresh P1 P2 Hdir) as (s1 & R1 & R2).
  rewrite R1. exact R2.
Qed.

(** The temporary name Move uses — a new name in the destination's collection — meets the
    hypotheses about [tmpp]. *)
Lemma sibling_incomparable dp tmp s :
  dp <> [] -> geto s dp <> None -> geto s (parent dp ++ [tmp]) = None ->
  is_prefix dp (parent dp ++ [tmp]) = false /\ is_prefix (parent dp ++ [tmp]) dp = false.
Proof.
  intros Hne Hg Hf.
  assert (Hlen : List.length (parent dp ++ [tmp]) = List.length dp).
  { pose proof (app_removelast_last ""%string Hne) as H. apply (f_equal (@List.length _)) in H.
    rewrite app_length in H. cbn in H. unfold parent. rewrite app_length. cbn. lia. }
  split.
  - destruct (is_prefix dp (parent dp ++ [tmp])) eqn:E; [|reflexivity]. exfalso.
    apply is_prefix_spec in E. destruct E as [suf E]. rewrite E, app_length in Hlen.
    destruct suf as [|x0 suf0]; [|cbn [List.length] in Hlen; lia]. rewrite app_nil_r in E. rewrite E in Hf. congruence.
  - destruct (is_prefix (parent dp ++ [tmp]) dp) eqn:E; [|reflexivity]. exfalso.
    apply is_prefix_spec in E. destruct E as [suf E].
    pose proof (f_equal (@List.length _) E) as EL. rewrite app_length in EL.
    destruct suf as [|x0 suf0]; [|cbn [List.length] in EL; lia].
    rewrite app_nil_r in E. rewrite <- E in Hf. congruence.
Qed.

Theorem move_fault_restores_sibling s sp dp tmp :
  sorted_otree s = true -> dp <> [] -> geto s dp <> None ->
  geto s (parent dp ++ [tmp]) = None ->
  move_steps s sp dp (parent dp ++ [tmp]) true = (s, false).
Proof.
  intros Hso Hd Hg Hf.
  destruct (sibling_incomparable dp tmp s Hd Hg Hf) as [P1 P2].
  apply move_fault_restores; try assumption.
  - destruct (parent dp); discriminate.
  - unfold parent. rewrite removelast_last.
    destruct (geto s dp) as [old|] eqn:E; [|congruence].
    rewrite (app_removelast_last ""%string Hd) in E. rewrite geto_app in E.
    destruct (geto s (removelast dp)) as [[c m|ch]|]; cbn in E; try discriminate; reflexivity.
Qed.

(** * The sequence without a fault is the one step of the model *)

(** New destination: one rename; the state is the very state [do_move] computes. *)
Theorem move_is_steps_new root sb r dst ow ss n ds sb' tmpp :
  copy_move_checks root sb (rpath r) dst ow = GOk (ss, n, ds, true) ->
  seto (remo (remo sb (hp root ds)) (hp root ss)) (hp root ds) n = Some sb' ->
  move_steps sb (hp root ss) (hp root ds) tmpp false = (Some sb', true) /\
  fst (do_move root sb r dst ow) = Some sb'.
Proof.
  intros Hc Hs. destruct (checks_ok _ _ _ _ _ _ _ _ _ Hc) as (P1 & P2 & Hg & Hcr).
  assert (He : exists_ (geto sb (hp root ds)) = false) by (destruct (exists_ (geto sb (hp root ds))); [discriminate|reflexivity]).
  assert (Hn : geto sb (hp root ds) = None) by (destruct (geto sb (hp root ds)); [discriminate|reflexivity]).
  rewrite (remo_absent _ _ Hn) in Hs.
  split.
  - unfold move_steps, rename_step. rewrite He, Hg, Hs. reflexivity.
  - unfold do_move. rewrite Hc. rewrite (remo_absent _ _ Hn). rewrite Hs. reflexivity.
Qed.

(** The sequence before the repair was the one step too (when nothing failed). *)
Theorem move_old_is_steps root sb r dst ow ss n ds created sb' :
  copy_move_checks root sb (rpath r) dst ow = GOk (ss, n, ds, created) ->
  seto (remo (remo sb (hp root ds)) (hp root ss)) (hp root ds) n = Some sb' ->
  move_steps_old sb (hp root ss) (hp root ds) false = (Some sb', true) /\
  fst (do_move root sb r dst ow) = Some sb'.
Proof.
  intros Hc Hs. destruct (checks_ok _ _ _ _ _ _ _ _ _ Hc) as (P1 & P2 & Hg & _).
  split.
  - unfold move_steps_old, rename_step.
    assert (H1 : (if exists_ (geto sb (hp root ds)) then remo sb (hp root ds) else sb) = remo sb (hp root ds)).
    { destruct (geto sb (hp root ds)) eqn:E; cbn [exists_]; [reflexivity|].
      symmetry. apply remo_absent. exact E. }
    rewrite H1.
    rewrite geto_remo_other by (unfold hp; rewrite is_prefix_app_l; assumption).
    rewrite Hg, Hs. reflexivity.
  - unfold do_move. rewrite Hc, Hs. reflexivity.
Qed.

(** * What the repair was about: the old sequence under the fault *)
Theorem move_old_fault_existing_destination s sp dp :
  exists_ (geto s dp) = true -> move_steps_old s sp dp true = (remo s dp, false).
Proof. intros H. unfold move_steps_old. rewrite H. reflexivity. Qed.

Definition mv_tree : option node :=
  Some (Dir [("a", Dir [("src", File "new" 1%N)]); ("dst", File "precious" 1%N)])%string.

(** C02's statement was false of the old sequence: the checks pass, the rename is refused,
    Move reports failure and the stored destination is gone. *)
Theorem move_old_rename_fault_loses_destination :
  exists s sp dp,
    geto s sp <> None /\ geto s dp <> None /\ is_prefix sp dp = false /\ is_prefix dp sp = false /\
    is_dir (geto s (parent dp)) = true /\
    snd (move_steps_old s sp dp true) = false /\ fst (move_steps_old s sp dp true) <> s.
Proof.
  exists mv_tree, ["a"; "src"]%string, ["dst"]%string.
  repeat split; try (vm_compute; congruence).
Qed.

(** ... and on the same witness the repaired sequence restores the tree; the hypotheses of
    [move_fault_restores_sibling] are satisfiable. *)
Example move_fault_restores_nonvacuous :
  sorted_otree mv_tree = true /\ geto mv_tree ["dst"%string] <> None /\
  geto mv_tree (parent ["dst"%string] ++ [".webdav-upload-1"%string]) = None /\
  move_steps mv_tree ["a"; "src"]%string ["dst"%string] [".webdav-upload-1"%string] true = (mv_tree, false).
Proof. repeat split; try (vm_compute; congruence). Qed.

(** A complete MOVE onto an existing file on the same witness: the source is at the
    destination, the source and the temporary name are gone. *)
Example move_steps_success_example :
  move_steps mv_tree ["a"; "src"]%string ["dst"%string] [".webdav-upload-1"%string] false
  = (Some (Dir [("a", Dir []); ("dst", File "new" 1%N)])%string, true).
Proof. vm_compute. reflexivity. Qed.
