(** MoveStepsProofs.v — the OS-call sequence of LocalFileSystem.Move ([MoveSteps.move_steps])
    computes the single step of [DavServer.do_move]; a rename the OS refuses changes nothing
    when the destination is new, and loses the old destination when there was one (the
    sequence RemoveAll; Rename is not atomic — known finding C02 move-rename-fault). *)
From GW Require Import Base GoPath Fs DavServer Rfc4918 FsProofs DavRefine UploadSteps UploadStepsProofs
  CopySteps CopyStepsProofs CopyTempProofs RelocProofs MoveSteps.
Local Open Scope list_scope.

(** what [copy_move_checks] has established when it lets the request through *)
Lemma checks_ok root sb src dst ow ss n ds created :
  copy_move_checks root sb src dst ow = GOk (ss, n, ds, created) ->
  is_prefix ss ds = false /\ is_prefix ds ss = false /\
  geto sb (hp root ss) = Some n /\
  created = negb (exists_ (geto sb (hp root ds))).
Proof.
  unfold copy_move_checks. intros H.
  destruct (segs_of src) as [ss0|e]; [|discriminate].
  destruct (segs_of dst) as [ds0|e]; [|discriminate].
  destruct (is_prefix ss0 ds0) eqn:E1; [discriminate|].
  destruct (is_prefix ds0 ss0) eqn:E2; [discriminate|]. cbn [orb] in H.
  destruct (geto sb (hp root ss0)) as [n0|] eqn:Eg; [|discriminate].
  destruct (negb (is_dir (geto sb (hp root (parent ds0))))); [discriminate|].
  destruct (exists_ (geto sb (hp root ds0))) eqn:Ee.
  - destruct ow; [|discriminate]. inversion H; subst. rewrite Ee. auto.
  - inversion H; subst. rewrite Ee. auto.
Qed.

(** The sequence of OS calls is the one step of the model: whenever the checks pass and
    the step succeeds, RemoveAll(dst) (if there is a destination) followed by
    Rename(src, dst) ends in the very state [do_move] computes. *)
Theorem move_is_steps root sb r dst ow ss n ds created sb' :
  copy_move_checks root sb (rpath r) dst ow = GOk (ss, n, ds, created) ->
  seto (remo (remo sb (hp root ds)) (hp root ss)) (hp root ds) n = Some sb' ->
  move_steps sb (hp root ss) (hp root ds) false = (Some sb', true) /\
  fst (do_move root sb r dst ow) = Some sb'.
Proof.
  intros Hc Hs. destruct (checks_ok _ _ _ _ _ _ _ _ _ Hc) as (P1 & P2 & Hg & _).
  split.
  - unfold move_steps, rename_step.
    assert (H1 : (if exists_ (geto sb (hp root ds)) then remo sb (hp root ds) else sb) = remo sb (hp root ds)).
    { destruct (geto sb (hp root ds)) eqn:E; cbn [exists_]; [reflexivity|].
      symmetry. apply remo_absent. exact E. }
    rewrite H1.
    rewrite geto_remo_other by (unfold hp; rewrite is_prefix_app_l; assumption).
    rewrite Hg, Hs. reflexivity.
  - unfold do_move. rewrite Hc, Hs. reflexivity.
Qed.

(** A refused rename onto a new name changes nothing at all. *)
Theorem move_fault_new_destination s sp dp :
  geto s dp = None -> move_steps s sp dp true = (s, false).
Proof. intros H. unfold move_steps. rewrite H. reflexivity. Qed.

(** A refused rename onto an existing destination: the tree afterwards is the tree before
    without the destination — for every tree, source and destination. *)
Theorem move_fault_existing_destination s sp dp :
  exists_ (geto s dp) = true -> move_steps s sp dp true = (remo s dp, false).
Proof. intros H. unfold move_steps. rewrite H. reflexivity. Qed.

(** Hence C02 does not hold of the sequence under that fault: a witness on which the
    checks pass, the rename is refused and the stored destination is gone. *)
Definition mv_tree : option node :=
  Some (Dir [("a", Dir [("src", File "new" 1%N)]); ("dst", File "precious" 1%N)])%string.

Theorem move_rename_fault_loses_destination :
  exists s sp dp,
    geto s sp <> None /\ geto s dp <> None /\ is_prefix sp dp = false /\ is_prefix dp sp = false /\
    is_dir (geto s (parent dp)) = true /\
    snd (move_steps s sp dp true) = false /\ fst (move_steps s sp dp true) <> s.
Proof.
  exists mv_tree, ["a"; "src"]%string, ["dst"]%string.
  repeat split; try (vm_compute; congruence).
Qed.

(** The premises of [move_is_steps] are satisfiable: a MOVE onto an existing file. *)
Example move_is_steps_nonvacuous :
  exists sb', copy_move_checks [] mv_tree "/a/src"%string "/dst"%string true = GOk (["a"; "src"], File "new" 1%N, ["dst"], false)%string /\
    seto (remo (remo mv_tree (hp [] ["dst"%string])) (hp [] ["a"; "src"]%string)) (hp [] ["dst"%string]) (File "new" 1%N) = Some sb'.
Proof. eexists. split; vm_compute; reflexivity. Qed.
