(** MoveSuccessProofs.v — the complete (fault-free) sequence of the repaired
    LocalFileSystem.Move onto an existing destination: at every path, names, kinds and
    contents are those of the single step [DavServer.do_move] computes. *)
From GW Require Import Base GoPath Fs DavServer Rfc4918 FsProofs DavRefine UploadSteps UploadStepsProofs
  CopySteps CopyStepsProofs CopyTempProofs RelocProofs SortedProofs MoveSteps MoveStepsProofs.
Local Open Scope list_scope.

Lemma strip_none p q : is_prefix p q = false -> strip_prefix p q = None.
Proof. rewrite strip_prefix_is_prefix. destruct (strip_prefix p q); [discriminate|reflexivity]. Qed.

(** two prefixes of one path are comparable *)
Lemma prefixes_comparable a b q :
  is_prefix a q = true -> is_prefix b q = true -> is_prefix a b = true \/ is_prefix b a = true.
Proof.
  revert b q. induction a as [|x a IH]; intros b q Ha Hb; [left; reflexivity|].
  destruct b as [|y b]; [right; reflexivity|].
  destruct q as [|z q]; [discriminate|].
  cbn [is_prefix] in *. apply andb_prop in Ha. destruct Ha as [Ha1 Ha2].
  apply andb_prop in Hb. destruct Hb as [Hb1 Hb2].
  apply String.eqb_eq in Ha1. apply String.eqb_eq in Hb1. subst. rewrite String.eqb_refl. cbn [andb].
  apply (IH b q); assumption.
Qed.

Lemma kind_under_absent s p q : geto s p = None -> is_prefix p q = true -> kind_of (geto s q) = None.
Proof.
  intros Hg Hp. apply is_prefix_spec in Hp. destruct Hp as [suf ->].
  rewrite geto_app, Hg, geto_None. reflexivity.
Qed.

(** the state [do_move] computes, at every path *)
Lemma abs_do_move_state s sp dp n T :
  seto (remo (remo s dp) sp) dp n = Some T ->
  forall q, kind_of (geto (Some T) q) =
    match strip_prefix dp q with
    | Some suf => kind_of (geto (Some n) suf)
    | None => if is_prefix sp q then None else kind_of (geto s q)
    end.
Proof.
  intros HT q. rewrite (abs_seto _ _ _ _ HT q).
  destruct (strip_prefix dp q) eqn:E; [reflexivity|].
  rewrite !abs_remo. rewrite (strip_prefix_is_prefix dp q), E. reflexivity.
Qed.

Theorem move_success_abs s sp dp tmpp n old :
  geto s sp = Some n -> geto s dp = Some old ->
  is_prefix sp dp = false -> is_prefix dp sp = false ->
  dp <> [] -> tmpp <> [] -> geto s tmpp = None ->
  is_prefix dp tmpp = false -> is_prefix tmpp dp = false ->
  is_prefix sp tmpp = false ->
  is_dir (geto s (parent tmpp)) = true -> is_dir (geto s (parent dp)) = true ->
  exists s', move_steps s sp dp tmpp false = (Some s', true) /\
    forall q, kind_of (geto (Some s') q) =
      match strip_prefix dp q with
      | Some suf => kind_of (geto (Some n) suf)
      | None => if is_prefix sp q then None else kind_of (geto s q)
      end.
Proof.
  intros Hsp Hdp P1 P2 Hd Ht Hfresh Q1 Q2 R1 Hdt Hdd.
  assert (R2 : is_prefix tmpp sp = false).
  { destruct (is_prefix tmpp sp) eqn:E; [|reflexivity].
    pose proof (kind_under_absent s tmpp sp Hfresh E) as K. rewrite Hsp in K. destruct n; discriminate. }
  (* os.Rename(dst, tmp) *)
  assert (Hd1 : is_dir (geto (remo s dp) (removelast tmpp)) = true).
  { change (removelast tmpp) with (parent tmpp).
    rewrite is_dir_remo_other by (apply not_prefix_parent; exact Q1). exact Hdt. }
  destruct (seto_ok tmpp (remo s dp) old Ht Hd1) as [s1 Hs1].
  (* os.Rename(src, dst) *)
  assert (Hg1 : geto (Some s1) sp = Some n).
  { rewrite (geto_seto_other tmpp (remo s dp) old s1 sp Hs1 R2 R1).
    rewrite geto_remo_other by assumption. exact Hsp. }
  assert (K1 : forall q, kind_of (geto (Some s1) q) =
     match strip_prefix tmpp q with
     | Some suf => kind_of (geto (Some old) suf)
     | None => if is_prefix dp q then None else kind_of (geto s q)
     end).
  { intros q. rewrite (abs_seto _ _ _ _ Hs1 q). destruct (strip_prefix tmpp q); [reflexivity|]. apply abs_remo. }
  assert (Hd2 : is_dir (geto (remo (Some s1) sp) (removelast dp)) = true).
  { change (removelast dp) with (parent dp).
    rewrite is_dir_remo_other by (apply not_prefix_parent; exact P1).
    rewrite is_dir_kind, K1.
    rewrite strip_none by (apply not_prefix_parent; exact Q2).
    rewrite not_prefix_own_parent by exact Hd. rewrite <- is_dir_kind. exact Hdd. }
  destruct (seto_ok dp (remo (Some s1) sp) n Hd Hd2) as [s2 Hs2].
  destruct (remo (Some s2) tmpp) as [s3|] eqn:Hs3.
  2:{ apply remo_some_none in Hs3. congruence. }
  exists s3. split.
  - unfold move_steps, rename_step. rewrite Hdp. cbn [exists_]. rewrite Hs1, Hg1, Hs2, Hs3. reflexivity.
  - intros q. rewrite <- Hs3, abs_remo.
    rewrite (abs_seto _ _ _ _ Hs2 q), abs_remo, K1.
    destruct (is_prefix tmpp q) eqn:Etq.
    + (* below the temporary name: nothing, on both sides *)
      assert (Edq : is_prefix dp q = false).
      { destruct (is_prefix dp q) eqn:E; [|reflexivity].
        destruct (prefixes_comparable _ _ _ Etq E); congruence. }
      rewrite (strip_none _ _ Edq).
      destruct (is_prefix sp q); [reflexivity|].
      symmetry. apply (kind_under_absent s tmpp q Hfresh Etq).
    + rewrite (strip_none _ _ Etq).
      destruct (strip_prefix dp q) eqn:Edq; [reflexivity|].
      destruct (is_prefix sp q); [reflexivity|].
      rewrite (strip_prefix_is_prefix dp q), Edq. reflexivity.
Qed.

(** Hence: at every path the repaired sequence and the single step of the model agree. *)
Theorem move_success_is_do_move s sp dp tmpp n old T :
  geto s sp = Some n -> geto s dp = Some old ->
  is_prefix sp dp = false -> is_prefix dp sp = false ->
  dp <> [] -> tmpp <> [] -> geto s tmpp = None ->
  is_prefix dp tmpp = false -> is_prefix tmpp dp = false ->
  is_prefix sp tmpp = false ->
  is_dir (geto s (parent tmpp)) = true -> is_dir (geto s (parent dp)) = true ->
  seto (remo (remo s dp) sp) dp n = Some T ->
  exists s', move_steps s sp dp tmpp false = (Some s', true) /\
    forall q, abs (Some s') q = abs (Some T) q.
Proof.
  intros. destruct (move_success_abs s sp dp tmpp n old) as (s' & M & K); try assumption.
  exists s'. split; [exact M|]. intros q. unfold abs. rewrite K.
  symmetry. eapply abs_do_move_state. eassumption.
Qed.

Example move_success_nonvacuous :
  exists T, seto (remo (remo mv_tree ["dst"%string]) ["a"; "src"]%string) ["dst"%string] (File "new" 1%N) = Some T /\
    geto mv_tree [".webdav-upload-1"%string] = None /\ is_dir (geto mv_tree (parent ["dst"%string])) = true.
Proof. eexists. repeat split; vm_compute; reflexivity. Qed.
