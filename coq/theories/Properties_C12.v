(** Properties_C12.v — C12: CalDAV/CardDAV routing and discovery work under any
    mount prefix.  Statements only; each is closed by [exact] of a lemma proved
    in RouteProofs.v (routing) or DiscoveryProofs.v (the client chain). *)
From GW Require Import Base Route RouteProofs PropFind Discovery DiscoveryProofs.

(** A request path is classified solely by its depth below the prefix: any
    number of prefix segments [ps] and of rest segments [rs], any segment bytes
    (other than '/', and not "", ".", ".."), the prefix spelled with or without
    trailing slash (the handler trims one), the path with or without one. *)
Theorem C12_depth_only : forall (ps rs : list string) (ptrail rtrail : bool),
  segs_ok ps = true -> segs_ok rs = true ->
  resource_type_at_path (trim_slash (spell_prefix ps ptrail)) (req_path ps rs rtrail) = List.length rs.
Proof. exact depth_only. Qed.
Print Assumptions C12_depth_only.

(** The first backend operation a request reaches is the one the routing table
    gives for (server, verb, depth below the prefix), with the request path
    unchanged as its argument; where the table has no operation, no backend
    operation is invoked at all and the status is the table's. *)
Theorem C12_routing : forall s hprefix b q ps rs pt rt,
  in_layout s hprefix q ps rs pt rt -> plain q = true ->
  routed_ok (route s (q_meth q) (List.length rs)) (q_path q) (serve s hprefix b q) = true.
Proof. exact routing. Qed.
Print Assumptions C12_routing.

(** Collection creation is accepted exactly at collection depth. *)
Theorem C12_mkcol : forall s hprefix b q ps rs pt rt,
  in_layout s hprefix q ps rs pt rt -> q_meth q = MMkcol -> plain q = true ->
  (List.length rs = 3 ->
     o_status (serve s hprefix b q) = 201%N /\ o_trace (serve s hprefix b q) = [(OpCreateColl, q_path q)]) /\
  (List.length rs <> 3 ->
     o_status (serve s hprefix b q) = 403%N /\ o_trace (serve s hprefix b q) = []).
Proof. exact mkcol. Qed.
Print Assumptions C12_mkcol.

(** A PROPFIND addressed to a principal-level or home-set-level path other than
    the current user's exposes nothing: the multi-status has no response. *)
Theorem C12_foreign : forall s hprefix b q,
  q_meth q = MPropfind -> q_path q <> well_known s ->
  let level := resource_type_at_path (trim_slash hprefix) (q_path q) in
  (level = 1 /\ same_path (q_path q) (principal b) = false) \/
  (level = 2 /\ same_path (q_path q) (homeset b) = false) ->
  o_hrefs (serve s hprefix b q) = [] /\ o_status (serve s hprefix b q) = 207%N.
Proof. exact foreign. Qed.
Print Assumptions C12_foreign.

(** "Other than the current user's" in terms of the layout: two paths made of
    segments are the same resource iff their segments are equal, whatever their
    trailing slashes. *)
Theorem C12_same_path_layout : forall (l1 l2 : list string) (t1 t2 : bool),
  l1 <> [] -> l2 <> [] -> segs_ok l1 = true -> segs_ok l2 = true ->
  (same_path (join l1 ++ (if t1 then "/" else "")) (join l2 ++ (if t2 then "/" else "")) = true <-> l1 = l2).
Proof. exact same_path_layout. Qed.
Print Assumptions C12_same_path_layout.

(** The executable specification used by the oracle holds of the model on every
    case of the quantifier: an implementation that agrees with the model meets it. *)
Theorem C12_agree_implies_spec_ok : forall s hprefix b q l o,
  in_quantifier s hprefix q l = true ->
  o = serve s hprefix b q -> spec_ok s b q l o = true.
Proof. exact agree_implies_spec_ok. Qed.
Print Assumptions C12_agree_implies_spec_ok.

(** The client's discovery chain (FindCurrentUserPrincipal, Find…HomeSet,
    FindCalendars/FindAddressBooks, ReadDir of every collection; the 308 of the
    well-known URI followed) against the server, for every mount prefix (any
    number of segments [h_ps h], either spelling [pt]), every well-formed layout
    [h] placed under it (any segment bytes, any number of collections and
    objects, stored paths with or without trailing slashes) and every start
    point (the well-known URI, the root of the prefix in either spelling, the
    principal): it returns exactly the backend's paths — principal, home set,
    all collections, all objects, in the backend's order.
    Premises: every object reports a content length (webdav.Client cannot list
    it otherwise) and no resource of the layout sits on the well-known URI. *)
Theorem C12_discovery : forall s h pt endpoint,
  hier_ok h = true -> lengths_known h = true -> avoids_well_known s (backend_of h) = true ->
  start_ok s h endpoint = true ->
  discover s (spell_prefix (h_ps h) pt) (backend_of h) endpoint = backend_paths (backend_of h).
Proof. exact discovery. Qed.
Print Assumptions C12_discovery.

(** The oracle's verdicts for the discovery stage: agreement with the model on
    a case of the quantifier implies the specification. *)
Theorem C12_disc_agree_implies_spec_ok : forall s hprefix b endpoint h pt o,
  disc_in_quantifier s hprefix b endpoint h pt = true ->
  disc_agrees s hprefix b endpoint o = true -> disc_spec_ok b o = true.
Proof. exact disc_agree_implies_spec_ok. Qed.
Print Assumptions C12_disc_agree_implies_spec_ok.

(** ** The verdict on observations tolerates read-only calls, and only those

    The statement fixes which backend operation a request reaches, with which
    path, and where none is reached; it does not fix the sequence of read-only
    lookups an implementation makes on the way.  The executable specification
    therefore judges a trace up to [tolerable] calls: operations that cannot
    change the backend (Get…, List…, Query…, the current-user lookups) whose path
    argument is the request path unchanged (or that take none).  What the model
    does — the exact verdict of [C12_routing] — implies the tolerant one, and the
    tolerant one means: the table's operation occurs in the trace with the
    request path, preceded by tolerable calls only. *)
Theorem C12_exact_implies_tolerant : forall r path o,
  routed_ok r path o = true -> routed_tol r path o = true.
Proof. exact routed_ok_tol. Qed.
Print Assumptions C12_exact_implies_tolerant.

Theorem C12_tolerant_reach_spec : forall p wp path t,
  reaches p wp path t = true <->
  exists pre rest a, t = (pre ++ (p, a) :: rest)%list /\ a = (if wp then path else "") /\
                     Forall (fun c => tolerable path c = true) pre.
Proof. exact reaches_spec. Qed.
Print Assumptions C12_tolerant_reach_spec.
