(** CalMatchProofs.v — the model of caldav/match.go computes the RFC 4791
    section 9.7-9.9 specification (CalMatch.v). *)
From GW Require Import Base CalMatch.

(** * strings.Contains *)

Lemma prefix_b_spec p s : prefix_b p s = true <-> exists r, s = p ++ r.
Proof.
  revert s. induction p as [|a p IH]; intros s; simpl.
  - split; [intros _; exists s; reflexivity | reflexivity].
  - destruct s as [|b s].
    + split; [discriminate | intros [r H]; discriminate].
    + rewrite Bool.andb_true_iff, Ascii.eqb_eq, IH. split.
      * intros [-> [r ->]]. exists r. reflexivity.
      * intros [r H]. inversion H; subst. split; [reflexivity | exists r; reflexivity].
Qed.

Lemma contains_spec s t : contains s t = true <-> exists a b, s = a ++ t ++ b.
Proof.
  induction s as [|c s IH].
  - cbn [contains]. rewrite Bool.orb_false_r, prefix_b_spec. split.
    + intros [r H]. exists "", r. exact H.
    + intros [a [b H]]. destruct a; [exists b; exact H | discriminate].
  - cbn [contains]. rewrite Bool.orb_true_iff, prefix_b_spec, IH. split.
    + intros [[r H] | [a [b H]]].
      * exists "", r. exact H.
      * exists (String c a), b. simpl. rewrite H. reflexivity.
    + intros [a [b H]]. destruct a as [|c' a].
      * left. exists b. exact H.
      * right. simpl in H. inversion H; subst. exists a, b. reflexivity.
Qed.

Lemma match_text_is_rfc txt v : match_text_match txt v = rfc4791_text txt v.
Proof. unfold match_text_match, rfc4791_text. destruct (tm_negate txt), (contains v (tm_text txt)); reflexivity. Qed.

(** text-match: the text occurs in the value, inverted by negate-condition *)
Lemma text_match_meaning txt v :
  match_text_match txt v = true <->
  ((exists a b, v = a ++ tm_text txt ++ b) <-> tm_negate txt = false).
Proof.
  unfold match_text_match. rewrite <- contains_spec.
  destruct (tm_negate txt), (contains v (tm_text txt)); simpl; split; intros; try reflexivity; try discriminate.
  - destruct H as [H _]. specialize (H eq_refl). discriminate.
  - split; intros; discriminate.
  - split; reflexivity.
  - destruct H as [_ H]. specialize (H eq_refl). discriminate.
Qed.

(** * small list facts *)

Lemma existsb_ext_in {A} (f g : A -> bool) l :
  (forall x, In x l -> f x = g x) -> existsb f l = existsb g l.
Proof.
  induction l as [|x l IH]; intros H; simpl; [reflexivity|].
  rewrite (H x) by (left; reflexivity). rewrite IH; [reflexivity|].
  intros y Hy. apply H. right. exact Hy.
Qed.

Lemma forallb_ext_in {A} (f g : A -> bool) l :
  (forall x, In x l -> f x = g x) -> forallb f l = forallb g l.
Proof.
  induction l as [|x l IH]; intros H; simpl; [reflexivity|].
  rewrite (H x) by (left; reflexivity). rewrite IH; [reflexivity|].
  intros y Hy. apply H. right. exact Hy.
Qed.

Lemma head_filter_find {A} (f : A -> bool) l :
  match filter f l with [] => None | x :: _ => Some x end = find f l.
Proof. induction l as [|x l IH]; simpl; [reflexivity|]. destruct (f x); [reflexivity | exact IH]. Qed.

Lemma lz_eqb_eq a b : lz_eqb a b = true -> a = b.
Proof.
  revert b. induction a as [|x a IH]; destruct b as [|y b]; simpl; intros H; try discriminate; [reflexivity|].
  apply Bool.andb_true_iff in H. destruct H as [H1 H2]. apply Z.eqb_eq in H1. subst. f_equal. apply IH. exact H2.
Qed.

Lemma ln_eqb_refl a : ln_eqb a a = true.
Proof. induction a as [|x a IH]; simpl; [reflexivity|]. rewrite N.eqb_refl. exact IH. Qed.

Lemma ln_eqb_eq a b : ln_eqb a b = true -> a = b.
Proof.
  revert b. induction a as [|x a IH]; destruct b as [|y b]; simpl; intros H; try discriminate; [reflexivity|].
  apply Bool.andb_true_iff in H. destruct H as [H1 H2]. apply N.eqb_eq in H1. subst. f_equal. apply IH. exact H2.
Qed.

(** * go-ical accessors *)

Lemma props_get_first n c : upper n = n -> props_get n c = first_named n c.
Proof.
  intros Hn. unfold props_get, props_values, first_named. rewrite Hn. apply head_filter_find.
Qed.

(** * 9.9: the VEVENT table *)

Lemma overlaps_table s e k : overlaps s e k = true <-> overlaps_P s e k.
Proof.
  destruct k as [a b|a d|a|a]; destruct s as [s|], e as [e|];
    unfold overlaps, overlaps_P, start_before, not_before, before_end, lt_lo, le_lo, gt_hi;
    try destruct (0 <? d)%Z eqn:Hd;
    rewrite ?Bool.andb_true_iff, ?Z.ltb_lt, ?Z.leb_le;
    try apply Z.ltb_lt in Hd; try apply Z.ltb_ge in Hd;
    intuition (try lia).
Qed.

(** what match.go reads off an event in row [k]: DTSTART, DateTimeEnd, "has a DTEND" *)
Definition kind_extent (k : evkind) : Z * Z * bool :=
  match k with
  | EvEnd a b => (a, b, true)
  | EvDur a d => (a, a + d, false)%Z
  | EvInstant a => (a, a, false)
  | EvAllDay a => (a, a + 86400, false)%Z
  end.

Definition has_dtend (c : comp) : bool :=
  match props_get "DTEND" c with Some _ => true | None => false end.

Lemma event_extent c k :
  event_kind c = Some k ->
  exists sp a b,
    props_get "DTSTART" c = Some sp /\ prop_datetime sp = Ok a /\ date_time_end c sp = Ok b /\
    kind_extent k = (a, b, has_dtend c).
Proof.
  intros Hk. unfold event_kind in Hk. unfold has_dtend, date_time_end.
  rewrite !props_get_first by reflexivity.
  destruct (first_named "DTSTART" c) as [sp|]; [|discriminate].
  exists sp. unfold prop_datetime, prop_is_date.
  destruct (p_time sp) as [|a|a] eqn:Hsp; cbn [tv] in Hk; try discriminate;
  (destruct (first_named "DTEND" c) as [ep|];
   [ destruct (p_time ep) as [|b|b]; cbn [tv] in Hk; try discriminate;
     inversion Hk; subst; exists a, b; repeat split; reflexivity
   | destruct (first_named "DURATION" c) as [dp|];
     [ destruct (p_dur dp) as [|d]; try discriminate; inversion Hk; subst;
       exists a, (a + d)%Z; repeat split; reflexivity
     | inversion Hk; subst; cbn [bind kind_extent];
       first [ exists a, a; repeat split; reflexivity
             | exists a, (a + 86400)%Z; repeat split; reflexivity ] ] ]).
Qed.

Lemma ltb_shift i d : (i <? i + d)%Z = (0 <? d)%Z.
Proof.
  destruct (0 <? d)%Z eqn:E1, (i <? i + d)%Z eqn:E2; try reflexivity;
    [apply Z.ltb_lt in E1; apply Z.ltb_ge in E2; lia | apply Z.ltb_ge in E1; apply Z.ltb_lt in E2; lia].
Qed.

(** matchEventTimeRange on the instance that starts at [i] decides the row of the
    table the event is in, shifted to [i] *)
Lemma extent_overlap s e k i a b he :
  kind_extent k = (a, b, he) ->
  match_event_time_range s e i (i + (b - a)) he = overlaps s e (shift_kind k i).
Proof.
  intros H. unfold match_event_time_range.
  destruct k as [a0 b0|a0 d|a0|a0]; cbn [kind_extent] in H; injection H as <- <- <-; cbn [shift_kind overlaps].
  - rewrite Bool.orb_true_r. destruct (before_end i e), (start_before s (i + (b0 - a0))); reflexivity.
  - replace (i + (a0 + d - a0))%Z with (i + d)%Z by lia. rewrite Bool.orb_false_r, ltb_shift.
    destruct (0 <? d)%Z, (before_end i e), (start_before s (i + d)), (not_before i s); reflexivity.
  - replace (i + (a0 - a0))%Z with i by lia. rewrite Bool.orb_false_r, Z.ltb_irrefl.
    destruct (before_end i e), (not_before i s); reflexivity.
  - replace (i + (a0 + 86400 - a0))%Z with (i + 86400)%Z by lia. rewrite Bool.orb_false_r, ltb_shift.
    cbn [Z.ltb Z.compare]. destruct (before_end i e), (start_before s (i + 86400)); reflexivity.
Qed.

Lemma shift_kind_self s e k : overlaps s e (shift_kind k (ev_start k)) = overlaps s e k.
Proof.
  destruct k as [a b|a d|a|a]; cbn [shift_kind ev_start overlaps]; try reflexivity.
  replace (a + (b - a))%Z with b by lia. reflexivity.
Qed.

Lemma extent_overlap_self s e k a b he :
  kind_extent k = (a, b, he) -> match_event_time_range s e a b he = overlaps s e k.
Proof.
  intros H. rewrite <- shift_kind_self.
  assert (Ha : ev_start k = a) by (destruct k; cbn [kind_extent] in H; inversion H; reflexivity).
  rewrite Ha, <- (extent_overlap s e k a a b he H).
  replace (a + (b - a))%Z with b by lia. reflexivity.
Qed.

Lemma comp_time_range_event s e c k :
  c_rec c = NoRRule -> c_name c = "VEVENT" -> event_kind c = Some k ->
  match_comp_time_range s e c = Ok (overlaps s e k).
Proof.
  intros Hrec Hname Hk. unfold match_comp_time_range. rewrite Hrec, Hname. cbn [String.eqb Ascii.eqb Bool.eqb negb].
  destruct (event_extent c k Hk) as [sp [a [b [Hs [Ha [Hb Hx]]]]]].
  rewrite Hs, Ha, Hb. cbn [bind]. fold (has_dtend c). f_equal. apply extent_overlap_self. exact Hx.
Qed.

(** * Recurring components *)

Lemma before_end_mono i j e : before_end i e = false -> (i <= j)%Z -> before_end j e = false.
Proof.
  destruct e as [e'|]; cbn [before_end]; [|discriminate].
  intros H Hij. apply Z.ltb_ge in H. apply Z.ltb_ge. lia.
Qed.

Lemma event_time_range_ended s e a b he : before_end a e = false -> match_event_time_range s e a b he = false.
Proof. intros H. unfold match_event_time_range. rewrite H. reflexivity. Qed.

(** ascending: every element is at most every later one *)
Lemma ascending_cons x rest :
  ascending (x :: rest) = true ->
  forallb (fun y => (x <=? y)%Z) rest = true /\ ascending rest = true.
Proof.
  revert x. induction rest as [|y rest IH]; intros x H; [split; reflexivity|].
  change (ascending (x :: y :: rest)) with ((x <=? y)%Z && ascending (y :: rest)) in H.
  apply Bool.andb_true_iff in H. destruct H as [Hxy Hr]. split; [|exact Hr].
  destruct (IH y Hr) as [Hall _]. cbn [forallb]. rewrite Hxy. cbn [andb].
  apply forallb_forall. intros z Hz. rewrite forallb_forall in Hall. specialize (Hall z Hz).
  apply Z.leb_le in Hxy, Hall. apply Z.leb_le. lia.
Qed.

(** the loop over the iterator finds an overlapping instance iff there is one,
    given that the iterator yields in ascending order (and, for a list cut at a
    horizon, that the cut cannot matter) *)
Lemma rec_loop_exists s e d he hz seq :
  ascending seq = true ->
  (hz = None \/
   (exists h e', hz = Some h /\ e = Some e' /\ (e' <=? h)%Z = true) \/
   existsb (fun i => match_event_time_range s e i (i + d) he) seq = true) ->
  rec_loop s e d he hz seq = Ok (existsb (fun i => match_event_time_range s e i (i + d) he) seq).
Proof.
  induction seq as [|i rest IH]; intros Hasc Hcut.
  - cbn [rec_loop existsb]. destruct Hcut as [->|[[h [e' [-> [-> Hle]]]]|H]]; [reflexivity | rewrite Hle; reflexivity | discriminate].
  - apply ascending_cons in Hasc. destruct Hasc as [Hle Hasc].
    cbn [rec_loop existsb].
    destruct (before_end i e) eqn:Hbe; cbn [negb].
    + destruct (match_event_time_range s e i (i + d) he) eqn:Hm; [reflexivity|].
      cbn [orb]. apply IH; [exact Hasc|].
      destruct Hcut as [H|[H|H]]; [left; exact H | right; left; exact H | right; right].
      cbn [existsb] in H. rewrite Hm in H. exact H.
    + rewrite event_time_range_ended by exact Hbe. cbn [orb]. f_equal. symmetry.
      rewrite forallb_forall in Hle.
      destruct (existsb _ rest) eqn:E; [|reflexivity].
      apply existsb_exists in E. destruct E as [j [Hj Hmj]].
      rewrite event_time_range_ended in Hmj; [discriminate|].
      apply (before_end_mono i); [exact Hbe|]. apply Z.leb_le. apply Hle. exact Hj.
Qed.

Lemma first_named_none_kind c : first_named "DTSTART" c = None -> event_kind c = None.
Proof. intros H. unfold event_kind. rewrite H. reflexivity. Qed.

Lemma comp_time_range_recurring s e c seq hz insts :
  c_rec c = RSet seq hz insts -> comp_time_ok c = true -> rset_ok_at ((s, e), c) = true ->
  match_comp_time_range s e c = Ok (rec_spec s e c insts).
Proof.
  intros Hrec Hok Hb. unfold match_comp_time_range, rset_ok_at, comp_time_ok in *. rewrite Hrec in *.
  apply Bool.andb_true_iff in Hb. destruct Hb as [Hb Hcov].
  apply Bool.andb_true_iff in Hb. destruct Hb as [Heq Hasc]. apply lz_eqb_eq in Heq. subst seq.
  destruct (first_named "DTSTART" c) as [sp0|] eqn:Hs.
  - destruct (event_kind c) as [k|] eqn:Hk; [|discriminate].
    destruct (event_extent c k Hk) as [sp [a [b [Hsp [Ha [Hb Hx]]]]]].
    rewrite Hsp, Ha, Hb. cbn [bind]. fold (has_dtend c).
    assert (Hext : existsb (fun i => match_event_time_range s e i (i + (b - a)) (has_dtend c)) insts
                   = rec_spec s e c insts).
    { unfold rec_spec. rewrite Hk. apply existsb_ext_in. intros i _. apply extent_overlap. exact Hx. }
    rewrite <- Hext. apply rec_loop_exists; [exact Hasc|].
    unfold horizon_covers in Hcov. destruct hz as [h|]; [|left; reflexivity].
    destruct e as [e'|].
    + right. left. exists h, e'. repeat split. exact Hcov.
    + right. right. rewrite Hext. rewrite Hk in Hcov. exact Hcov.
  - rewrite props_get_first by reflexivity. rewrite Hs.
    unfold rec_spec. rewrite (first_named_none_kind c Hs). reflexivity.
Qed.

(** the model's time-range answer, given readable time values and an rrule that
    kept its contract: the RFC's *)
Lemma comp_time_range_rfc s e c :
  comp_time_ok c = true -> rset_ok_at ((s, e), c) = true ->
  match_comp_time_range s e c = Ok (rfc4791_time_range s e c).
Proof.
  intros Hok Hb. unfold rfc4791_time_range.
  destruct (c_rec c) as [| |seq hz insts] eqn:Hrec.
  - unfold comp_time_ok in Hok. rewrite Hrec in Hok.
    destruct (String.eqb (c_name c) "VEVENT") eqn:Hn.
    + apply String.eqb_eq in Hn.
      destruct (event_kind c) as [k|] eqn:Hk.
      * apply comp_time_range_event; assumption.
      * destruct (first_named "DTSTART" c) eqn:Hs; [discriminate|].
        unfold match_comp_time_range. rewrite Hrec, Hn. cbn [String.eqb Ascii.eqb Bool.eqb negb].
        rewrite props_get_first by reflexivity. rewrite Hs. reflexivity.
    + unfold match_comp_time_range. rewrite Hrec, Hn. reflexivity.
  - unfold comp_time_ok in Hok. rewrite Hrec in Hok. discriminate.
  - eapply comp_time_range_recurring; eassumption.
Qed.

Lemma rec_spec_meaning s e c insts :
  rec_spec s e c insts = true <->
  exists k i, event_kind c = Some k /\ In i insts /\ overlaps_P s e (shift_kind k i).
Proof.
  unfold rec_spec. destruct (event_kind c) as [k|].
  - rewrite existsb_exists. split.
    + intros [i [Hi Ho]]. exists k, i. rewrite <- overlaps_table. auto.
    + intros [k' [i [Hk [Hi Ho]]]]. inversion Hk; subst. exists i. rewrite overlaps_table. auto.
  - split; [discriminate | intros [k [i [H _]]]; discriminate].
Qed.

(** an instance list cut at a horizon: instances after the horizon do not change
    the answer where [horizon_covers] holds *)
Lemma overlaps_ended s e k i : before_end i e = false -> overlaps s e (shift_kind k i) = false.
Proof.
  intros H. destruct k; cbn [shift_kind overlaps]; rewrite H; apply Bool.andb_false_r.
Qed.

Lemma rec_spec_later_instances s e c insts h later :
  (forall j, In j later -> (h < j)%Z) ->
  horizon_covers s e c (Some h) insts = true ->
  rec_spec s e c (insts ++ later) = rec_spec s e c insts.
Proof.
  intros Hl Hc. unfold horizon_covers in Hc. unfold rec_spec in *.
  destruct (event_kind c) as [k|]; [|reflexivity].
  rewrite existsb_app. destruct e as [e'|].
  - replace (existsb _ later) with false; [apply Bool.orb_false_r|]. symmetry.
    destruct (existsb _ later) eqn:E; [|reflexivity].
    apply existsb_exists in E. destruct E as [j [Hj Ho]].
    rewrite overlaps_ended in Ho; [discriminate|].
    cbn [before_end]. apply Z.ltb_ge. apply Z.leb_le in Hc. specialize (Hl j Hj). lia.
  - rewrite Hc. reflexivity.
Qed.

(** * 9.7.3 param-filter, 9.7.2 prop-filter *)

Lemma param_filter_rfc f p : match_param_filter f p = rfc4791_param f p.
Proof.
  unfold match_param_filter, rfc4791_param.
  destruct (params_values (paf_name f) p) as [|v vs].
  - destruct (paf_nd f); [reflexivity|]. destruct (paf_text f); reflexivity.
  - destruct (paf_nd f); [reflexivity|]. destruct (paf_text f) as [txt|]; [|reflexivity].
    apply existsb_ext_in. intros x _. apply match_text_is_rfc.
Qed.

Definition readable (p : prop) : Prop := p_time p <> TBad.

Lemma prop_time_range_rfc s e p :
  readable p -> match_prop_time_range s e p = Ok (prop_in_range s e p).
Proof.
  unfold readable, match_prop_time_range, prop_in_range, prop_datetime.
  destruct (p_time p) as [|v|v]; intros H; try congruence; cbn [bind];
    destruct (not_before v s), (before_end v e); reflexivity.
Qed.

Lemma match_prop_rfc f p :
  (has_range (prf_start f) (prf_end f) = true -> readable p) ->
  match_prop f p = Ok (rfc4791_prop_inst f p).
Proof.
  intros Hr. unfold match_prop, rfc4791_prop_inst.
  rewrite (forallb_ext_in _ (fun pf => rfc4791_param pf p)) by (intros; apply param_filter_rfc).
  destruct (forallb (fun pf => rfc4791_param pf p) (prf_params f)); cbn [negb].
  2:{ rewrite Bool.andb_false_r. reflexivity. }
  rewrite Bool.andb_true_r.
  destruct (has_range (prf_start f) (prf_end f)).
  - rewrite prop_time_range_rfc by (apply Hr; reflexivity). cbn [bind].
    destruct (prop_in_range (prf_start f) (prf_end f) p); cbn [negb].
    + rewrite Bool.andb_true_r. destruct (prf_text f); [rewrite match_text_is_rfc|]; reflexivity.
    + rewrite Bool.andb_false_r. reflexivity.
  - cbn [bind negb]. rewrite Bool.andb_true_r. destruct (prf_text f); [rewrite match_text_is_rfc|]; reflexivity.
Qed.

Lemma any_res_ok {A} (g : A -> res bool) (h : A -> bool) l :
  (forall x, In x l -> g x = Ok (h x)) -> any_res g l = Ok (existsb h l).
Proof.
  induction l as [|x l IH]; intros H; simpl; [reflexivity|].
  rewrite (H x) by (left; reflexivity). cbn [bind].
  destruct (h x); [reflexivity|]. apply IH. intros y Hy. apply H. right. exact Hy.
Qed.

Lemma all_res_ok {A} (g : A -> res bool) (h : A -> bool) l :
  (forall x, In x l -> g x = Ok (h x)) -> all_res g l = Ok (forallb h l).
Proof.
  induction l as [|x l IH]; intros H; simpl; [reflexivity|].
  rewrite (H x) by (left; reflexivity). cbn [bind].
  destruct (h x); [|reflexivity]. apply IH. intros y Hy. apply H. right. exact Hy.
Qed.

Lemma match_prop_filter_rfc pf c :
  (forall p, In p (ptr_of pf c) -> readable p) ->
  match_prop_filter pf c = Ok (rfc4791_prop pf c).
Proof.
  intros Hr. unfold match_prop_filter, rfc4791_prop, props_values.
  destruct (prf_nd pf) eqn:Hnd; [reflexivity|].
  apply any_res_ok. intros p Hp. apply match_prop_rfc. intros Hhas. apply Hr.
  unfold ptr_of. rewrite Hnd, Hhas. exact Hp.
Qed.

(** * 9.7.1 comp-filter *)

Lemma mcf_loop_ok (m : comp -> res bool) (h : comp -> bool) name chs :
  (forall ch, In ch chs -> named name ch = true -> m ch = Ok (h ch)) ->
  forall d mt,
  mcf_loop m name chs d mt =
  Ok (d || existsb (named name) chs, mt || existsb (fun ch => named name ch && h ch) chs).
Proof.
  induction chs as [|ch chs IH]; intros H d mt; cbn [mcf_loop existsb].
  - rewrite !Bool.orb_false_r. reflexivity.
  - unfold named at 1 3. fold (named name ch). destruct (named name ch) eqn:Hn; cbn [negb andb orb].
    + rewrite (H ch) by (try (left; reflexivity); exact Hn). cbn [bind].
      rewrite IH by (intros y Hy; apply H; right; exact Hy).
      rewrite Bool.orb_true_r, Bool.orb_assoc. reflexivity.
    + apply IH. intros y Hy. apply H. right. exact Hy.
Qed.

(** induction principle for filter trees *)
Lemma comp_filter_ind' (P : comp_filter -> Prop) :
  (forall name nd s e props comps, Forall P comps -> P (CF name nd s e props comps)) ->
  forall f, P f.
Proof.
  intros H. fix IH 1. intros [name nd s e props comps]. apply H.
  induction comps as [|cf comps IHc]; constructor; [apply IH | exact IHc].
Qed.

(** the hypotheses about time values, as a predicate on the places evaluated *)
Definition places_ok (f : comp_filter) (c : comp) : Prop :=
  (forall tc, In tc (tr_pairs f c) -> comp_time_ok (snd tc) = true /\ rset_ok_at tc = true) /\
  (forall p, In p (ptr_pairs f c) -> readable p).

Lemma places_ok_sub name s e props comps c cf ch :
  named name c = true ->
  places_ok (CF name false s e props comps) c ->
  In cf comps -> In ch (c_children c) -> places_ok cf ch.
Proof.
  intros Hn [H1 H2] Hcf Hch. unfold named in Hn. split.
  - intros tc Htc. apply H1. cbn [tr_pairs]. rewrite Hn. cbn [negb orb].
    apply in_or_app. right. apply in_flat_map. exists cf. split; [exact Hcf|].
    apply in_flat_map. exists ch. split; assumption.
  - intros p Hp. apply H2. cbn [ptr_pairs]. rewrite Hn. cbn [negb orb].
    apply in_or_app. right. apply in_flat_map. exists cf. split; [exact Hcf|].
    apply in_flat_map. exists ch. split; assumption.
Qed.

Lemma match_holds_rfc f : forall c,
  named (cf_name f) c = true -> cf_nd f = false -> places_ok f c ->
  match_ f c = Ok (rfc4791_holds f c).
Proof.
  induction f as [name nd s e props comps IH] using comp_filter_ind'.
  intros c Hn Hnd Hpl. cbn [cf_name cf_nd] in Hn, Hnd. subst nd.
  unfold rfc4791_holds in *. cbn [match_ holds_with]. unfold named in Hn. rewrite Hn. cbn [negb].
  assert (Ht : (if has_range s e then match_comp_time_range s e c else Ok true)
               = Ok (if has_range s e then rfc4791_time_range s e c else true)).
  { destruct (has_range s e) eqn:Hhas; [|reflexivity].
    destruct Hpl as [H1 _]. destruct (H1 ((s, e), c)) as [Ha Hb].
    { cbn [tr_pairs]. rewrite Hn, Hhas. cbn [negb orb]. left. reflexivity. }
    apply comp_time_range_rfc; assumption. }
  rewrite Ht. cbn [bind].
  destruct (if has_range s e then rfc4791_time_range s e c else true); cbn [negb andb]; [|reflexivity].
  rewrite (all_res_ok _ (fun cf =>
             if cf_nd cf then negb (existsb (named (cf_name cf)) (c_children c))
             else existsb (fun ch => named (cf_name cf) ch && holds_with rfc4791_time_range cf ch) (c_children c))).
  2:{ intros cf Hcf. unfold match_comp_filter_with.
      rewrite Forall_forall in IH. specialize (IH cf Hcf).
      destruct (cf_nd cf) eqn:Hcnd.
      - rewrite (mcf_loop_ok _ (fun _ => false)).
        + reflexivity.
        + intros ch Hch Hnm. destruct cf as [n2 nd2 s2 e2 p2 c2]. cbn [cf_nd cf_name] in *. subst nd2.
          cbn [match_]. unfold named in Hnm. rewrite Hnm. reflexivity.
      - rewrite (mcf_loop_ok _ (fun ch => holds_with rfc4791_time_range cf ch)).
        + reflexivity.
        + intros ch Hch Hnm. apply IH; [exact Hnm | reflexivity |].
          eapply places_ok_sub; [ | exact Hpl | exact Hcf | exact Hch]. exact Hn. }
  cbn [bind].
  destruct (forallb _ comps); cbn [negb andb]; [|reflexivity].
  apply all_res_ok. intros pf Hpf. apply match_prop_filter_rfc.
  intros p Hp. destruct Hpl as [_ H2]. apply H2. cbn [ptr_pairs]. rewrite Hn. cbn [negb orb].
  apply in_or_app. left. apply in_flat_map. exists pf. split; assumption.
Qed.

(** Match's answer on any filter and component: the RFC's. *)
Lemma match_rfc f c : places_ok f c -> match_ f c = Ok (rfc4791_comp f c).
Proof.
  intros Hpl. unfold rfc4791_comp, rfc4791_scope, scope_with. cbn [existsb]. rewrite !Bool.orb_false_r.
  destruct (named (cf_name f) c) eqn:Hn.
  - destruct (cf_nd f) eqn:Hnd.
    + destruct f as [name nd s e props comps]. cbn [cf_name cf_nd] in *. subst nd.
      cbn [match_]. unfold named in Hn. rewrite Hn. reflexivity.
    + cbn [andb]. apply match_holds_rfc; assumption.
  - destruct f as [name nd s e props comps]. cbn [cf_name cf_nd] in *.
    cbn [match_]. unfold named in Hn. rewrite Hn. cbn [negb andb]. destruct nd; reflexivity.
Qed.

Lemma hyps_places f c : times_ok f c = true -> rset_ok f c = true -> places_ok f c.
Proof.
  unfold times_ok, rset_ok. intros Ht Hb. apply Bool.andb_true_iff in Ht. destruct Ht as [Ht1 Ht2].
  rewrite forallb_forall in Ht1, Ht2, Hb. split.
  - intros tc Htc. split; [apply Ht1 | apply Hb]; exact Htc.
  - intros p Hp. specialize (Ht2 p Hp). unfold readable. destruct (p_time p); congruence.
Qed.

(** C06_match_recurring *)
Theorem match_rfc_recurring f c :
  times_ok f c = true -> rset_ok f c = true ->
  match_ f c = Ok (rfc4791_comp f c).
Proof.
  intros Ht Hb. apply match_rfc. apply hyps_places; assumption.
Qed.

(** calendars without recurring components *)
Lemma tr_pairs_sub f : forall c tc, In tc (tr_pairs f c) -> In (snd tc) (all_comps c).
Proof.
  induction f as [name nd s e props comps IH] using comp_filter_ind'.
  intros c tc. cbn [tr_pairs].
  destruct (negb (String.eqb (c_name c) name) || nd); [intros []|].
  intros H. apply in_app_or in H. destruct H as [H|H].
  - destruct (has_range s e); [|destruct H]. destruct H as [<-|[]]. cbn [snd].
    destruct c; left; reflexivity.
  - apply in_flat_map in H. destruct H as [cf [Hcf H]].
    apply in_flat_map in H. destruct H as [ch [Hch H]].
    rewrite Forall_forall in IH. specialize (IH cf Hcf ch tc H).
    destruct c as [n p r children]. cbn [c_children] in Hch. cbn [all_comps]. right.
    apply in_flat_map. exists ch. split; assumption.
Qed.

Lemma no_recurring_places f c tc :
  no_recurring c = true -> In tc (tr_pairs f c) -> rset_ok_at tc = true.
Proof.
  intros Hn Htc. apply tr_pairs_sub in Htc. unfold no_recurring in Hn. rewrite forallb_forall in Hn.
  specialize (Hn _ Htc). destruct tc as [[s e] x]. cbn [snd] in Hn.
  unfold rset_ok_at. destruct (c_rec x); try discriminate; reflexivity.
Qed.

(** C06_match *)
Theorem match_rfc_nonrecurring f c :
  no_recurring c = true -> times_ok f c = true -> match_ f c = Ok (rfc4791_comp f c).
Proof.
  intros Hn Ht. apply match_rfc_recurring; [exact Ht |].
  unfold rset_ok. apply forallb_forall. intros tc Htc. eapply no_recurring_places; eassumption.
Qed.

(** the witness of the former finding [recurring_overlap] (an instance that began
    before the range and still runs; match.go answered false): repaired *)
Definition old_witness_filter : comp_filter :=
  CF "VCALENDAR" false None None []
     [CF "VEVENT" false (Some 1583836200%Z) (Some 1583837100%Z) [] []].
Definition old_witness_calendar : comp :=
  Comp "VCALENDAR" [] NoRRule
    [Comp "VEVENT"
       [mkProp "DTSTART" [] "20200310T100000Z" (TInstant 1583834400%Z) DBad;
        mkProp "DURATION" [] "PT1H" TBad (DOk 3600%Z);
        mkProp "RRULE" [] "FREQ=DAILY;COUNT=2" TBad DBad]
       (RSet [1583834400%Z; 1583920800%Z] None [1583834400%Z; 1583920800%Z])
       []].

Theorem recurring_overlap_repaired :
  times_ok old_witness_filter old_witness_calendar = true /\
  rset_ok old_witness_filter old_witness_calendar = true /\
  match_ old_witness_filter old_witness_calendar = Ok true /\
  rfc4791_comp old_witness_filter old_witness_calendar = true.
Proof. vm_compute. repeat split. Qed.

(** * Recurring components: the statement on the time range alone *)

Theorem recurring_time_range s e c seq hz insts :
  c_rec c = RSet seq hz insts -> comp_time_ok c = true -> rset_ok_at ((s, e), c) = true ->
  match_comp_time_range s e c = Ok (rec_spec s e c insts).
Proof. exact (comp_time_range_recurring s e c seq hz insts). Qed.

(** * Errors and panics *)

Lemma comp_time_range_rrule_err s e c : c_rec c = RRuleErr -> match_comp_time_range s e c = Err 500.
Proof. intros H. unfold match_comp_time_range. rewrite H. reflexivity. Qed.

Lemma comp_time_range_event_err s e c :
  c_rec c = NoRRule -> c_name c = "VEVENT" ->
  first_named "DTSTART" c <> None -> event_kind c = None ->
  match_comp_time_range s e c = Err 500.
Proof.
  intros Hrec Hname Hs Hk. unfold match_comp_time_range. rewrite Hrec, Hname. cbn [String.eqb Ascii.eqb Bool.eqb negb].
  unfold date_time_end. rewrite !props_get_first by reflexivity.
  unfold event_kind in Hk.
  destruct (first_named "DTSTART" c) as [sp|]; [|congruence].
  unfold prop_datetime.
  destruct (p_time sp) as [|a|a]; cbn [tv] in Hk; [reflexivity| |];
  (destruct (first_named "DTEND" c) as [ep|];
   [ destruct (p_time ep); cbn [tv] in Hk; try discriminate; reflexivity
   | destruct (first_named "DURATION" c) as [dp|]; [destruct (p_dur dp); try discriminate; reflexivity | discriminate] ]).
Qed.

(** in general: a component on which go-ical cannot produce the time values the
    time range needs (the rule set, DTSTART, DTEND or DURATION — also of a
    recurring component, whose extent every instance shares) yields an error *)
Lemma event_unreadable c sp (K : Z -> Z -> res bool) :
  first_named "DTSTART" c = Some sp -> event_kind c = None ->
  bind (prop_datetime sp) (fun a => bind (date_time_end c sp) (fun b => K a b)) = Err 500.
Proof.
  intros Hs Hk. unfold event_kind in Hk. rewrite Hs in Hk.
  unfold date_time_end. rewrite !props_get_first by reflexivity. unfold prop_datetime.
  destruct (p_time sp) as [|a|a]; cbn [tv] in Hk; [reflexivity| |];
  (destruct (first_named "DTEND" c) as [ep|];
   [ destruct (p_time ep); cbn [tv] in Hk; try discriminate; reflexivity
   | destruct (first_named "DURATION" c) as [dp|]; [destruct (p_dur dp); try discriminate; reflexivity | discriminate] ]).
Qed.

Lemma comp_time_range_unreadable s e c : comp_time_ok c = false -> match_comp_time_range s e c = Err 500.
Proof.
  intros H. unfold comp_time_ok in H. unfold match_comp_time_range.
  destruct (c_rec c) as [| |seq hz insts]; [| reflexivity |].
  - destruct (String.eqb (c_name c) "VEVENT"); [|discriminate]. cbn [negb].
    rewrite props_get_first by reflexivity.
    destruct (first_named "DTSTART" c) as [sp|] eqn:Hs; [|discriminate].
    destruct (event_kind c) eqn:Hk; [discriminate|].
    apply (event_unreadable c sp (fun a b => Ok (match_event_time_range s e a b _)) Hs Hk).
  - rewrite props_get_first by reflexivity.
    destruct (first_named "DTSTART" c) as [sp|] eqn:Hs; [|discriminate].
    destruct (event_kind c) eqn:Hk; [discriminate|].
    apply (event_unreadable c sp (fun a b => rec_loop s e (b - a) _ hz seq) Hs Hk).
Qed.

Lemma prop_time_range_err s e p : p_time p = TBad -> match_prop_time_range s e p = Err 500.
Proof. intros H. unfold match_prop_time_range, prop_datetime. rewrite H. reflexivity. Qed.

(** an error has a cause: a time value go-ical cannot read under a time range
    (or rrule oracle data that is missing or off contract) *)
Theorem match_err_cause f c code :
  match_ f c = Err code -> times_ok f c && rset_ok f c = false.
Proof.
  intros H. destruct (times_ok f c) eqn:Ht; [|reflexivity]. destruct (rset_ok f c) eqn:Hb; [|reflexivity].
  rewrite match_rfc in H by (apply hyps_places; assumption). discriminate.
Qed.

(** Match never panics on an object that has data, whatever the time values *)
Definition no_panic {A} (r : res A) : Prop := r <> Panic.

Lemma bind_no_panic {A B} (r : res A) (k : A -> res B) :
  no_panic r -> (forall a, no_panic (k a)) -> no_panic (bind r k).
Proof. unfold no_panic. destruct r; simpl; intros H1 H2; [apply H2 | discriminate | congruence]. Qed.

Lemma any_res_no_panic {A} (g : A -> res bool) l : (forall x, no_panic (g x)) -> no_panic (any_res g l).
Proof.
  intros H. induction l as [|x l IH]; simpl; [discriminate|].
  apply bind_no_panic; [apply H|]. intros [|]; [discriminate | exact IH].
Qed.

Lemma all_res_no_panic {A} (g : A -> res bool) l : (forall x, In x l -> no_panic (g x)) -> no_panic (all_res g l).
Proof.
  induction l as [|x l IH]; intros H; simpl; [discriminate|].
  apply bind_no_panic; [apply H; left; reflexivity|]. intros [|]; [|discriminate].
  apply IH. intros y Hy. apply H. right. exact Hy.
Qed.

Lemma mcf_loop_no_panic m name chs : (forall ch, no_panic (m ch)) -> forall d mt, no_panic (mcf_loop m name chs d mt).
Proof.
  intros H. induction chs as [|ch chs IH]; intros d mt; simpl; [discriminate|].
  destruct (negb (String.eqb (c_name ch) name)); [apply IH|].
  apply bind_no_panic; [apply H|]. intros r. apply IH.
Qed.

Lemma rec_loop_no_panic s e d he hz seq : no_panic (rec_loop s e d he hz seq).
Proof.
  unfold no_panic. induction seq as [|i rest IH]; cbn [rec_loop].
  - destruct hz as [h|]; [|discriminate]. destruct e as [e'|]; [|discriminate].
    destruct (e' <=? h)%Z; discriminate.
  - destruct (negb (before_end i e)); [discriminate|].
    destruct (match_event_time_range s e i (i + d) he); [discriminate | exact IH].
Qed.

Lemma comp_time_range_no_panic s e c : no_panic (match_comp_time_range s e c).
Proof.
  unfold match_comp_time_range.
  destruct (c_rec c) as [| |seq hz insts]; [| discriminate |].
  - destruct (negb (String.eqb (c_name c) "VEVENT")); [discriminate|].
    destruct (props_get "DTSTART" c) as [sp|]; [|discriminate].
    apply bind_no_panic; [unfold prop_datetime; destruct (p_time sp); discriminate|]. intros a.
    apply bind_no_panic; [|intros b; discriminate].
    unfold date_time_end, prop_datetime.
    destruct (props_get "DTEND" c) as [ep|]; [destruct (p_time ep); discriminate|].
    destruct (p_time sp); cbn [bind]; try discriminate;
      (destruct (props_get "DURATION" c) as [dp|]; [destruct (p_dur dp); discriminate | discriminate]).
  - destruct (props_get "DTSTART" c) as [sp|]; [|discriminate].
    apply bind_no_panic; [unfold prop_datetime; destruct (p_time sp); discriminate|]. intros a.
    apply bind_no_panic; [|intros b; apply rec_loop_no_panic].
    unfold date_time_end, prop_datetime.
    destruct (props_get "DTEND" c) as [ep|]; [destruct (p_time ep); discriminate|].
    destruct (p_time sp); cbn [bind]; try discriminate;
      (destruct (props_get "DURATION" c) as [dp|]; [destruct (p_dur dp); discriminate | discriminate]).
Qed.

Lemma match_prop_filter_no_panic pf c : no_panic (match_prop_filter pf c).
Proof.
  unfold match_prop_filter. destruct (prf_nd pf); [discriminate|].
  apply any_res_no_panic. intros p. unfold match_prop.
  destruct (negb _); [discriminate|].
  apply bind_no_panic.
  - destruct (has_range _ _); [|discriminate].
    unfold match_prop_time_range, prop_datetime. destruct (p_time p); cbn [bind]; try discriminate;
      match goal with |- context [if ?b then _ else _] => destruct b end; discriminate.
  - intros t. destruct (negb t); [discriminate|]. destruct (prf_text pf); discriminate.
Qed.

Theorem match_no_panic f : forall c, no_panic (match_ f c).
Proof.
  induction f as [name nd s e props comps IH] using comp_filter_ind'.
  intros c. cbn [match_].
  destruct (negb (String.eqb (c_name c) name)); [discriminate|].
  destruct nd; [discriminate|].
  apply bind_no_panic.
  - destruct (has_range s e); [apply comp_time_range_no_panic | discriminate].
  - intros t. destruct (negb t); [discriminate|].
    apply bind_no_panic.
    + apply all_res_no_panic. intros cf Hcf. unfold match_comp_filter_with.
      apply bind_no_panic.
      * apply mcf_loop_no_panic. rewrite Forall_forall in IH. apply IH. exact Hcf.
      * intros dm. destruct (cf_nd cf); discriminate.
    + intros a. destruct (negb a); [discriminate|].
      apply all_res_no_panic. intros pf _. apply match_prop_filter_no_panic.
Qed.

Theorem match_top_panic_iff f o : match_top f o = Panic <-> o_data o = None.
Proof.
  unfold match_top. destruct (o_data o) as [c|]; split; intros H; try reflexivity; try discriminate.
  exfalso. exact (match_no_panic f c H).
Qed.

(** * Filter *)

Definition obj_ok (f : comp_filter) (o : cobj) : Prop :=
  exists c, o_data o = Some c /\ times_ok f c = true /\ rset_ok f c = true.

Theorem filter_rfc f os :
  (forall o, In o os -> obj_ok f o) ->
  filter_objs (Some f) os = Ok (filter (obj_matches f) os).
Proof.
  cbn [filter_objs]. induction os as [|o os IH]; intros H; [reflexivity|].
  cbn [filter_loop filter].
  destruct (H o (or_introl eq_refl)) as [c [Hd [Ht Hb]]].
  unfold match_top, obj_matches at 1. rewrite Hd.
  rewrite match_rfc_recurring by assumption. cbn [bind].
  rewrite IH by (intros y Hy; apply H; right; exact Hy). reflexivity.
Qed.

Theorem filter_nil_query os : filter_objs None os = Ok os.
Proof. reflexivity. Qed.

(** what Filter returns is a selection of the input, in input order, each object
    the very value that was passed in *)
Inductive sublist {A} : list A -> list A -> Prop :=
| sub_nil : sublist [] []
| sub_keep x l l' : sublist l l' -> sublist (x :: l) (x :: l')
| sub_drop x l l' : sublist l l' -> sublist l (x :: l').

Theorem filter_selects q os r : filter_objs q os = Ok r -> sublist r os.
Proof.
  destruct q as [f|]; cbn [filter_objs].
  - revert r. induction os as [|o os IH]; intros r H; cbn [filter_loop] in H.
    + inversion H. constructor.
    + destruct (match_top f o) as [ok| |]; cbn [bind] in H; try discriminate.
      destruct (filter_loop f os) as [r'| |]; cbn [bind] in H; try discriminate.
      inversion H; subst. destruct ok; constructor; apply IH; reflexivity.
  - intros H. inversion H; subst. clear H. induction r; constructor; assumption.
Qed.

(** * Whenever Match returns a verdict it is the right one

    (also when some time value elsewhere in the object cannot be read: the loops
    only skip what can no longer change the answer) *)

Lemma comp_time_range_ok_inv s e c b :
  match_comp_time_range s e c = Ok b -> comp_time_ok c = true.
Proof.
  intros H. destruct (comp_time_ok c) eqn:E; [reflexivity|].
  rewrite comp_time_range_unreadable in H by exact E. discriminate.
Qed.

Lemma comp_time_range_pc s e c b :
  rset_ok_at ((s, e), c) = true ->
  match_comp_time_range s e c = Ok b -> b = rfc4791_time_range s e c.
Proof.
  intros Hb H. pose proof (comp_time_range_ok_inv _ _ _ _ H) as Hok.
  rewrite comp_time_range_rfc in H by assumption. inversion H. reflexivity.
Qed.

Lemma match_prop_pc f p b : match_prop f p = Ok b -> b = rfc4791_prop_inst f p.
Proof.
  intros H. destruct (has_range (prf_start f) (prf_end f)) eqn:Hhas.
  - destruct (p_time p) eqn:Ht.
    + (* unreadable: a verdict can only come from a failing param-filter *)
      unfold match_prop in H. unfold rfc4791_prop_inst.
      rewrite (forallb_ext_in _ (fun pf => rfc4791_param pf p)) in H by (intros; apply param_filter_rfc).
      destruct (forallb (fun pf => rfc4791_param pf p) (prf_params f)); cbn [negb] in H.
      * rewrite Hhas in H. rewrite prop_time_range_err in H by exact Ht. discriminate.
      * inversion H. rewrite Bool.andb_false_r. reflexivity.
    + rewrite match_prop_rfc in H by (intros _; unfold readable; congruence). inversion H. reflexivity.
    + rewrite match_prop_rfc in H by (intros _; unfold readable; congruence). inversion H. reflexivity.
  - rewrite match_prop_rfc in H by (intros; congruence). inversion H. reflexivity.
Qed.

Lemma any_res_pc {A} (g : A -> res bool) (h : A -> bool) l :
  (forall x b, In x l -> g x = Ok b -> b = h x) ->
  forall b, any_res g l = Ok b -> b = existsb h l.
Proof.
  induction l as [|x l IH]; intros H b Hb; simpl in *.
  - inversion Hb. reflexivity.
  - destruct (g x) as [m| |] eqn:Hg; cbn [bind] in Hb; try discriminate.
    rewrite <- (H x m (or_introl eq_refl) Hg).
    destruct m; [inversion Hb; reflexivity|].
    apply IH; [|exact Hb]. intros y b' Hy. apply H. right. exact Hy.
Qed.

Lemma all_res_pc {A} (g : A -> res bool) (h : A -> bool) l :
  (forall x b, In x l -> g x = Ok b -> b = h x) ->
  forall b, all_res g l = Ok b -> b = forallb h l.
Proof.
  induction l as [|x l IH]; intros H b Hb; simpl in *.
  - inversion Hb. reflexivity.
  - destruct (g x) as [m| |] eqn:Hg; cbn [bind] in Hb; try discriminate.
    rewrite <- (H x m (or_introl eq_refl) Hg).
    destruct m; [|inversion Hb; reflexivity].
    apply IH; [|exact Hb]. intros y b' Hy. apply H. right. exact Hy.
Qed.

Lemma match_prop_filter_pc pf c b : match_prop_filter pf c = Ok b -> b = rfc4791_prop pf c.
Proof.
  unfold match_prop_filter, rfc4791_prop, props_values.
  destruct (prf_nd pf); [intros H; inversion H; reflexivity|].
  apply any_res_pc. intros p b' _. apply match_prop_pc.
Qed.

Lemma mcf_loop_pc (m : comp -> res bool) (h : comp -> bool) name chs :
  (forall ch b, In ch chs -> named name ch = true -> m ch = Ok b -> b = h ch) ->
  forall d mt r, mcf_loop m name chs d mt = Ok r ->
  r = (d || existsb (named name) chs, mt || existsb (fun ch => named name ch && h ch) chs).
Proof.
  induction chs as [|ch chs IH]; intros H d mt r Hr; cbn [mcf_loop existsb] in *.
  - inversion Hr. rewrite !Bool.orb_false_r. reflexivity.
  - unfold named at 1 3. fold (named name ch). change (String.eqb (c_name ch) name) with (named name ch) in Hr.
    destruct (named name ch) eqn:Hn; cbn [negb andb orb] in *.
    + destruct (m ch) as [b| |] eqn:Hm; cbn [bind] in Hr; try discriminate.
      rewrite <- (H ch b (or_introl eq_refl) Hn Hm).
      rewrite (IH (fun y b' Hy => H y b' (or_intror Hy)) _ _ _ Hr).
      rewrite Bool.orb_true_r, Bool.orb_assoc. reflexivity.
    + apply (IH (fun y b' Hy => H y b' (or_intror Hy)) _ _ _ Hr).
Qed.

Definition rset_places (f : comp_filter) (c : comp) : Prop :=
  forall tc, In tc (tr_pairs f c) -> rset_ok_at tc = true.

Lemma rset_places_sub name s e props comps c cf ch :
  named name c = true ->
  rset_places (CF name false s e props comps) c ->
  In cf comps -> In ch (c_children c) -> rset_places cf ch.
Proof.
  intros Hn H Hcf Hch tc Htc. unfold named in Hn. apply H. cbn [tr_pairs]. rewrite Hn. cbn [negb orb].
  apply in_or_app. right. apply in_flat_map. exists cf. split; [exact Hcf|].
  apply in_flat_map. exists ch. split; assumption.
Qed.

Lemma match_holds_pc f : forall c b,
  named (cf_name f) c = true -> cf_nd f = false -> rset_places f c ->
  match_ f c = Ok b -> b = holds_with rfc4791_time_range f c.
Proof.
  induction f as [name nd s e props comps IH] using comp_filter_ind'.
  intros c b Hn Hnd Hbp H. cbn [cf_name cf_nd] in Hn, Hnd. subst nd.
  cbn [match_ holds_with] in *. unfold named in Hn. rewrite Hn in H. cbn [negb] in H.
  destruct (if has_range s e then match_comp_time_range s e c else Ok true) as [t| |] eqn:Ht;
    cbn [bind] in H; try discriminate.
  assert (Et : t = if has_range s e then rfc4791_time_range s e c else true).
  { destruct (has_range s e) eqn:Hhas; [|inversion Ht; reflexivity].
    eapply comp_time_range_pc; [|exact Ht]. apply Hbp. cbn [tr_pairs]. rewrite Hn, Hhas. left. reflexivity. }
  rewrite <- Et. destruct t; cbn [negb andb] in *; [|inversion H; reflexivity].
  destruct (all_res _ comps) as [a| |] eqn:Ha; cbn [bind] in H; try discriminate.
  apply (all_res_pc _ (fun cf =>
             if cf_nd cf then negb (existsb (named (cf_name cf)) (c_children c))
             else existsb (fun ch => named (cf_name cf) ch && holds_with rfc4791_time_range cf ch) (c_children c))) in Ha.
  2:{ intros cf r Hcf Hr. unfold match_comp_filter_with in Hr.
      destruct (mcf_loop _ _ _ _ _) as [dm| |] eqn:Hl; cbn [bind] in Hr; try discriminate.
      rewrite Forall_forall in IH. specialize (IH cf Hcf).
      destruct (cf_nd cf) eqn:Hcnd.
      - apply (mcf_loop_pc _ (fun _ => false)) in Hl.
        + subst dm. inversion Hr. reflexivity.
        + intros ch b' Hch Hnm Hm. destruct cf as [n2 nd2 s2 e2 p2 c2]. cbn [cf_nd cf_name] in *. subst nd2.
          cbn [match_] in Hm. unfold named in Hnm. rewrite Hnm in Hm. inversion Hm. reflexivity.
      - apply (mcf_loop_pc _ (fun ch => holds_with rfc4791_time_range cf ch)) in Hl.
        + subst dm. inversion Hr. reflexivity.
        + intros ch b' Hch Hnm Hm. apply IH; [exact Hnm | reflexivity | | exact Hm].
          eapply rset_places_sub; [ | exact Hbp | exact Hcf | exact Hch]. exact Hn. }
  rewrite <- Ha. destruct a; cbn [negb andb] in *; [|inversion H; reflexivity].
  apply (all_res_pc _ (fun pf => rfc4791_prop pf c)) in H; [exact H|].
  intros pf r _. apply match_prop_filter_pc.
Qed.

Lemma match_rfc_pc f c b : rset_places f c -> match_ f c = Ok b -> b = rfc4791_comp f c.
Proof.
  intros Hbp H. unfold rfc4791_comp, rfc4791_scope, scope_with. cbn [existsb]. rewrite !Bool.orb_false_r.
  destruct (named (cf_name f) c) eqn:Hn.
  - destruct (cf_nd f) eqn:Hnd.
    + destruct f as [name nd s e props comps]. cbn [cf_name cf_nd] in *. subst nd.
      cbn [match_] in H. unfold named in Hn. rewrite Hn in H. inversion H. reflexivity.
    + cbn [andb]. eapply match_holds_pc; eassumption.
  - destruct f as [name nd s e props comps]. cbn [cf_name cf_nd] in *.
    cbn [match_] in H. unfold named in Hn. rewrite Hn in H. cbn [negb andb] in *. inversion H. subst. destruct b; reflexivity.
Qed.

(** C06_match_verdict *)
Theorem match_verdict_rfc f c b :
  rset_ok f c = true ->
  match_ f c = Ok b -> b = rfc4791_comp f c.
Proof.
  intros Hb H. eapply match_rfc_pc; [|exact H].
  unfold rset_ok in Hb. rewrite forallb_forall in Hb. exact Hb.
Qed.

(** * Agreement of the implementation with the model entails the specification *)

Theorem match_agree_spec_ok f o ob :
  match_agrees f o ob = true -> match_spec_strict f o ob = true.
Proof.
  unfold match_spec_strict.
  destruct (o_data o) as [c|] eqn:Hd.
  - destruct (rset_ok f c) eqn:Hb; [|intros H; exact H].
    intros Ha. unfold match_agrees, match_top in Ha. rewrite Hd in Ha.
    destruct (match_ f c) as [b|code|] eqn:Hm.
    + destruct ob; try discriminate. rewrite Bool.eqb_true_iff in Ha. subst.
      rewrite (match_verdict_rfc f c b0 Hb Hm). apply Bool.eqb_reflx.
    + destruct ob; try discriminate. apply match_err_cause in Hm. rewrite Hb, Bool.andb_true_r in Hm.
      rewrite Hm. reflexivity.
    + exfalso. exact (match_no_panic f c Hm).
  - unfold match_agrees, match_top. rewrite Hd. destruct ob; try discriminate. reflexivity.
Qed.

Lemma filter_loop_inv f os :
  match filter_loop f os return Prop with
  | Ok l => exists vs, Forall2 (fun o v => match_top f o = Ok v) os vs /\
                       l = map fst (filter snd (combine os vs))
  | Err _ => exists o code, In o os /\ match_top f o = Err code
  | Panic => exists o, In o os /\ match_top f o = Panic
  end.
Proof.
  induction os as [|o os IH]; cbn [filter_loop].
  - exists []. split; [constructor | reflexivity].
  - destruct (match_top f o) as [v|code|] eqn:Hm; cbn [bind].
    + destruct (filter_loop f os) as [l|code|]; cbn [bind].
      * destruct IH as [vs [HF Hl]]. exists (v :: vs). split; [constructor; assumption|].
        cbn [combine filter snd]. destruct v; cbn [map fst]; rewrite Hl; reflexivity.
      * destruct IH as [o' [code' [Hin H]]]. exists o', code'. split; [right; exact Hin | exact H].
      * destruct IH as [o' [Hin H]]. exists o'. split; [right; exact Hin | exact H].
    + exists o, code. split; [left; reflexivity | exact Hm].
    + exists o. split; [left; reflexivity | exact Hm].
Qed.

Lemma filter_verdicts f os vs :
  Forall2 (fun o v => match_top f o = Ok v) os vs ->
  (forall o v, In o os -> match_top f o = Ok v -> v = obj_matches f o) ->
  map fst (filter snd (combine os vs)) = filter (obj_matches f) os.
Proof.
  intros HF. induction HF as [|o v os' vs' Hov HF IH]; intros H; [reflexivity|].
  cbn [combine filter snd].
  rewrite <- (H o v (or_introl eq_refl) Hov).
  rewrite <- IH by (intros y w Hy; apply H; right; exact Hy).
  destruct v; reflexivity.
Qed.

Theorem filter_agree_spec_ok q os ob :
  filter_agrees q os ob = true -> filter_spec_strict q os ob = true.
Proof.
  destruct q as [f|]; unfold filter_spec_strict.
  2:{ intros Ha. unfold filter_agrees in Ha. cbn [filter_objs] in Ha. destruct ob; try discriminate. exact Ha. }
  destruct (forallb (obj_rset_ok f) os) eqn:Hall; [|intros H; exact H].
  intros Ha. unfold filter_agrees in Ha. cbn [filter_objs] in Ha.
  rewrite forallb_forall in Hall.
  pose proof (filter_loop_inv f os) as Hinv.
  destruct (filter_loop f os) as [l|code|].
  - destruct ob; try discriminate.
    destruct Hinv as [vs [HF Hl]].
    assert (El : l = filter (obj_matches f) os).
    { subst l. apply filter_verdicts; [exact HF|].
      intros o v Ho Hov. unfold match_top, obj_matches in *. destruct (o_data o) as [c|] eqn:Hd; [|discriminate].
      apply match_verdict_rfc; [| exact Hov].
      specialize (Hall o Ho). unfold obj_rset_ok in Hall. rewrite Hd in Hall. exact Hall. }
    rewrite <- El. exact Ha.
  - destruct ob; try discriminate.
    destruct Hinv as [o [code' [Hin Hm]]]. apply existsb_exists. exists o. split; [exact Hin|].
    unfold match_top, obj_unreadable in *. destruct (o_data o) as [c|] eqn:Hd; [|discriminate].
    apply match_err_cause in Hm. specialize (Hall o Hin). unfold obj_rset_ok in Hall. rewrite Hd in Hall.
    rewrite Hall, Bool.andb_true_r in Hm. rewrite Hm. reflexivity.
  - destruct ob; try discriminate.
    destruct Hinv as [o [Hin Hm]]. apply existsb_exists. exists o. split; [exact Hin|].
    apply match_top_panic_iff in Hm. unfold obj_nil. rewrite Hm. reflexivity.
Qed.

(** * The relaxed (three-valued) specification

    The strict boolean specification is one of the readings the three-valued one
    admits; so whatever meets the strict one meets the relaxed one, in particular
    the model of the unchanged code, on every input. *)

Lemma tv_of_bool_admits b : admits (tv_of_bool b) b = true.
Proof. destruct b; reflexivity. Qed.

Lemma and3_admits a b x y :
  admits a x = true -> admits b y = true -> admits (and3 a b) (x && y) = true.
Proof. destruct a, b, x, y; simpl; intros; congruence. Qed.

Lemma or3_admits a b x y :
  admits a x = true -> admits b y = true -> admits (or3 a b) (x || y) = true.
Proof. destruct a, b, x, y; simpl; intros; congruence. Qed.

Lemma forall3_admits {A} (g : A -> tv3) (h : A -> bool) l :
  (forall x, In x l -> admits (g x) (h x) = true) -> admits (forall3 g l) (forallb h l) = true.
Proof.
  induction l as [|x l IH]; intros H; [reflexivity|].
  cbn [forall3 forallb]. apply and3_admits; [apply H; left; reflexivity|].
  apply IH. intros y Hy. apply H. right. exact Hy.
Qed.

Lemma exists3_admits {A} (g : A -> tv3) (h : A -> bool) l :
  (forall x, In x l -> admits (g x) (h x) = true) -> admits (exists3 g l) (existsb h l) = true.
Proof.
  induction l as [|x l IH]; intros H; [reflexivity|].
  cbn [exists3 existsb]. apply or3_admits; [apply H; left; reflexivity|].
  apply IH. intros y Hy. apply H. right. exact Hy.
Qed.

Lemma time_range3_admits s e c : admits (time_range3 s e c) (rfc4791_time_range s e c) = true.
Proof. unfold time_range3. destruct (is_event c); [apply tv_of_bool_admits | reflexivity]. Qed.

Lemma holds3_admits f : forall c, admits (holds3 f c) (rfc4791_holds f c) = true.
Proof.
  induction f as [name nd s e props comps IH] using comp_filter_ind'.
  intros c. unfold rfc4791_holds. cbn [holds3 holds_with].
  rewrite <- Bool.andb_assoc. apply and3_admits.
  - destruct (has_range s e); [apply time_range3_admits | reflexivity].
  - apply and3_admits; [|apply tv_of_bool_admits].
    apply forall3_admits. intros cf Hcf. destruct (cf_nd cf); [apply tv_of_bool_admits|].
    apply exists3_admits. intros ch _. destruct (named (cf_name cf) ch); [|reflexivity].
    cbn [andb]. rewrite Forall_forall in IH. apply (IH cf Hcf).
Qed.

Theorem rfc3_admits f c : admits (rfc3_comp f c) (rfc4791_comp f c) = true.
Proof.
  unfold rfc3_comp, rfc4791_comp, rfc4791_scope, scope3, scope_with.
  destruct (cf_nd f); [apply tv_of_bool_admits|].
  apply exists3_admits. intros ch _. destruct (named (cf_name f) ch); [|reflexivity].
  cbn [andb]. apply holds3_admits.
Qed.

(** where every time range of the query meets events only, nothing is relaxed *)
Lemma and3_bool a b : and3 (tv_of_bool a) (tv_of_bool b) = tv_of_bool (a && b).
Proof. destruct a, b; reflexivity. Qed.
Lemma or3_bool a b : or3 (tv_of_bool a) (tv_of_bool b) = tv_of_bool (a || b).
Proof. destruct a, b; reflexivity. Qed.

Lemma forall3_bool {A} (g : A -> tv3) (h : A -> bool) l :
  (forall x, In x l -> g x = tv_of_bool (h x)) -> forall3 g l = tv_of_bool (forallb h l).
Proof.
  induction l as [|x l IH]; intros H; [reflexivity|].
  cbn [forall3 forallb]. rewrite (H x) by (left; reflexivity).
  change (forall3 g l) with (forall3 g l). rewrite IH by (intros y Hy; apply H; right; exact Hy).
  apply and3_bool.
Qed.

Lemma exists3_bool {A} (g : A -> tv3) (h : A -> bool) l :
  (forall x, In x l -> g x = tv_of_bool (h x)) -> exists3 g l = tv_of_bool (existsb h l).
Proof.
  induction l as [|x l IH]; intros H; [reflexivity|].
  cbn [exists3 existsb]. rewrite (H x) by (left; reflexivity).
  rewrite IH by (intros y Hy; apply H; right; exact Hy).
  apply or3_bool.
Qed.

Definition events_only (f : comp_filter) (c : comp) : Prop :=
  forall tc, In tc (tr_pairs f c) -> is_event (snd tc) = true.

Lemma holds3_exact f : forall c,
  named (cf_name f) c = true -> cf_nd f = false -> events_only f c ->
  holds3 f c = tv_of_bool (rfc4791_holds f c).
Proof.
  induction f as [name nd s e props comps IH] using comp_filter_ind'.
  intros c Hn Hnd Hev. cbn [cf_name cf_nd] in Hn, Hnd. subst nd. unfold named in Hn.
  unfold rfc4791_holds. cbn [holds3 holds_with].
  assert (Ht : (if has_range s e then time_range3 s e c else T3)
               = tv_of_bool (if has_range s e then rfc4791_time_range s e c else true)).
  { destruct (has_range s e) eqn:Hhas; [|reflexivity].
    unfold time_range3.
    assert (Hc : is_event c = true).
    { apply (Hev ((s, e), c)). cbn [tr_pairs]. rewrite Hn, Hhas. left. reflexivity. }
    rewrite Hc. reflexivity. }
  rewrite Ht.
  rewrite (forall3_bool _ (fun cf =>
             if cf_nd cf then negb (existsb (named (cf_name cf)) (c_children c))
             else existsb (fun ch => named (cf_name cf) ch && holds_with rfc4791_time_range cf ch) (c_children c))).
  - rewrite !and3_bool, Bool.andb_assoc. reflexivity.
  - intros cf Hcf. destruct (cf_nd cf) eqn:Hcnd; [reflexivity|].
    apply exists3_bool. intros ch Hch. destruct (named (cf_name cf) ch) eqn:Hnm; [|reflexivity].
    cbn [andb]. rewrite Forall_forall in IH. apply (IH cf Hcf); [exact Hnm | exact Hcnd |].
    intros tc Htc. apply Hev. cbn [tr_pairs]. rewrite Hn. cbn [negb orb].
    apply in_or_app. right. apply in_flat_map. exists cf. split; [exact Hcf|].
    apply in_flat_map. exists ch. split; assumption.
Qed.

Theorem rfc3_exact f c : events_only f c -> rfc3_comp f c = tv_of_bool (rfc4791_comp f c).
Proof.
  intros Hev. unfold rfc3_comp, rfc4791_comp, rfc4791_scope, scope3, scope_with.
  destruct (cf_nd f) eqn:Hnd; [reflexivity|].
  cbn [exists3 existsb]. rewrite Bool.orb_false_r.
  destruct (named (cf_name f) c) eqn:Hn; [|reflexivity].
  cbn [andb]. rewrite (holds3_exact f c Hn Hnd Hev). unfold rfc4791_holds.
  destruct (holds_with rfc4791_time_range f c); reflexivity.
Qed.

Theorem relaxed_is_strict_on_events f c b :
  events_only f c -> admits (rfc3_comp f c) b = Bool.eqb b (rfc4791_comp f c).
Proof. intros H. rewrite rfc3_exact by exact H. destruct b, (rfc4791_comp f c); reflexivity. Qed.

(** the strict verdict implies the relaxed one *)
Theorem match_strict_relaxed f o ob : match_spec_strict f o ob = true -> match_spec_ok f o ob = true.
Proof.
  unfold match_spec_strict, match_spec_ok.
  destruct (o_data o) as [c|]; [|destruct ob; intros H; try exact H; discriminate].
  destruct (rset_ok f c); [|intros H; exact H].
  destruct ob as [b| |]; intros H; [| |exact H].
  - apply Bool.eqb_prop in H. subst b. apply rfc3_admits.
  - unfold err_allowed. rewrite H. reflexivity.
Qed.

Lemma obj_verdict3_admits f o : admits (obj_verdict3 f o) (obj_matches f o) = true.
Proof. unfold obj_verdict3, obj_matches. destruct (o_data o); [apply rfc3_admits | reflexivity]. Qed.

Lemma sel_ok_strict f os : forall tags,
  ln_eqb (map o_tag (filter (obj_matches f) os)) tags = true -> sel_ok f os tags = true.
Proof.
  induction os as [|o os IH]; intros tags H; cbn [filter map sel_ok] in *.
  - destruct tags; [reflexivity | discriminate].
  - pose proof (obj_verdict3_admits f o) as Ha.
    destruct (obj_matches f o) eqn:Hm.
    + cbn [map ln_eqb] in H. destruct tags as [|t tags']; [discriminate|].
      cbn [ln_eqb] in H. apply Bool.andb_true_iff in H. destruct H as [Ht Hr].
      rewrite N.eqb_sym in Ht. rewrite Ht, Ha, (IH tags' Hr). reflexivity.
    + destruct tags as [|t tags'].
      * rewrite Ha, (IH [] H). reflexivity.
      * rewrite Ha, (IH (t :: tags') H). cbn [andb]. apply Bool.orb_true_r.
Qed.

Lemma existsb_impl {A} (p q : A -> bool) l :
  (forall x, p x = true -> q x = true) -> existsb p l = true -> existsb q l = true.
Proof.
  intros H. rewrite !existsb_exists. intros [x [Hin Hp]]. exists x. split; [exact Hin | apply H; exact Hp].
Qed.

(** (a silent answer on a list that holds an object without data is the one thing the
    strict verdict lets pass and the relaxed one does not: the model never gives it) *)
Theorem filter_strict_relaxed q os ob :
  (forall f tags u, q = Some f -> ob = FOk tags u -> existsb obj_nil os = false) ->
  filter_spec_strict q os ob = true -> filter_spec_ok q os ob = true.
Proof.
  unfold filter_spec_strict, filter_spec_ok. intros Hnil.
  destruct q as [f|]; [|intros H; exact H].
  destruct (forallb (obj_rset_ok f) os); [|intros H; exact H].
  destruct ob as [tags unmod| |]; intros H; [| |exact H].
  - apply Bool.andb_true_iff in H. destruct H as [H1 H2].
    rewrite (Hnil f tags unmod eq_refl eq_refl), (sel_ok_strict f os tags H1), H2. reflexivity.
  - apply Bool.orb_true_iff. left. revert H. apply existsb_impl. intros o.
    unfold obj_unreadable, obj_err_allowed, err_allowed.
    destruct (o_data o); [|discriminate]. intros ->. reflexivity.
Qed.

Lemma filter_loop_ok_no_nil f os l : filter_loop f os = Ok l -> existsb obj_nil os = false.
Proof.
  revert l. induction os as [|o os IH]; intros l H; [reflexivity|].
  cbn [filter_loop existsb] in *. unfold match_top, obj_nil in *.
  destruct (o_data o) as [c|]; [|discriminate].
  destruct (match_ f c) as [v| |]; cbn [bind] in H; try discriminate.
  destruct (filter_loop f os) as [r| |]; cbn [bind] in H; try discriminate.
  cbn [orb]. apply (IH r). reflexivity.
Qed.

(** C06_agree_implies_spec_ok, C06_filter_agree_implies_spec_ok *)
Theorem match_agree_relaxed f o ob : match_agrees f o ob = true -> match_spec_ok f o ob = true.
Proof. intros H. apply match_strict_relaxed, match_agree_spec_ok. exact H. Qed.

Theorem filter_agree_relaxed q os ob : filter_agrees q os ob = true -> filter_spec_ok q os ob = true.
Proof.
  intros H. apply filter_strict_relaxed; [|apply filter_agree_spec_ok; exact H].
  intros f tags u -> ->. unfold filter_agrees in H. cbn [filter_objs] in H.
  destruct (filter_loop f os) as [l| |] eqn:E; try discriminate.
  eapply filter_loop_ok_no_nil. exact E.
Qed.

(** the model of the unchanged code meets the relaxed specification on every input
    ([Err 0] is the model's "the oracle data do not tell", never a Go outcome) *)
Theorem model_meets_relaxed f o :
  match_top f o <> Err 0 -> match_spec_ok f o (mobs_of_res (match_top f o)) = true.
Proof.
  intros H. apply match_agree_relaxed. unfold match_agrees.
  destruct (match_top f o) as [b|code|]; cbn [mobs_of_res].
  - apply Bool.eqb_reflx.
  - destruct (N.eqb code 0) eqn:E; [|reflexivity]. apply N.eqb_eq in E. subst. congruence.
  - reflexivity.
Qed.

Lemma ln_eqb_refl' a : ln_eqb a a = true.
Proof. apply ln_eqb_refl. Qed.

Theorem filter_model_meets_relaxed q os :
  filter_objs q os <> Err 0 -> filter_spec_ok q os (fobs_of_res (filter_objs q os)) = true.
Proof.
  intros H. apply filter_agree_relaxed. unfold filter_agrees.
  destruct (filter_objs q os) as [l|code|]; cbn [fobs_of_res].
  - rewrite ln_eqb_refl. reflexivity.
  - destruct (N.eqb code 0) eqn:E; [|reflexivity]. apply N.eqb_eq in E. subst. congruence.
  - reflexivity.
Qed.

(** * The executable specification means what section 9.7 says *)

Lemma scope_meaning tr f l :
  scope_with tr f l = true <->
  if cf_nd f then ~ (exists ch, In ch l /\ c_name ch = cf_name f)
  else exists ch, In ch l /\ c_name ch = cf_name f /\ holds_with tr f ch = true.
Proof.
  unfold scope_with, named. destruct (cf_nd f).
  - rewrite Bool.negb_true_iff. split.
    + intros H [ch [Hin Hn]]. assert (existsb (fun c => String.eqb (c_name c) (cf_name f)) l = true).
      { apply existsb_exists. exists ch. split; [exact Hin | apply String.eqb_eq; exact Hn]. }
      congruence.
    + intros H. destruct (existsb _ l) eqn:E; [|reflexivity]. exfalso. apply H.
      apply existsb_exists in E. destruct E as [ch [Hin Hn]]. exists ch. split; [exact Hin | apply String.eqb_eq; exact Hn].
  - rewrite existsb_exists. split.
    + intros [ch [Hin H]]. apply Bool.andb_true_iff in H. destruct H as [Hn Hh]. apply String.eqb_eq in Hn. eauto.
    + intros [ch [Hin [Hn Hh]]]. exists ch. split; [exact Hin|]. rewrite Hh, Bool.andb_true_r. apply String.eqb_eq. exact Hn.
Qed.

Lemma holds_meaning tr name nd s e props comps c :
  holds_with tr (CF name nd s e props comps) c = true <->
  (has_range s e = true -> tr s e c = true) /\
  (forall cf, In cf comps -> scope_with tr cf (c_children c) = true) /\
  (forall pf, In pf props -> rfc4791_prop pf c = true).
Proof.
  cbn [holds_with]. rewrite !Bool.andb_true_iff, !forallb_forall. unfold scope_with.
  split.
  - intros [[H1 H2] H3]. repeat split; try assumption. intros Hh. rewrite Hh in H1. exact H1.
  - intros [H1 [H2 H3]]. repeat split; try assumption. destruct (has_range s e); [apply H1|]; reflexivity.
Qed.

Lemma prop_filter_meaning f c :
  rfc4791_prop f c = true <->
  if prf_nd f then ~ (exists p, In p (c_props c) /\ p_name p = upper (prf_name f))
  else exists p, In p (c_props c) /\ p_name p = upper (prf_name f) /\ rfc4791_prop_inst f p = true.
Proof.
  unfold rfc4791_prop. destruct (prf_nd f).
  - split.
    + intros H [p [Hin Hn]].
      assert (Hf : In p (filter (fun p0 => String.eqb (p_name p0) (upper (prf_name f))) (c_props c))).
      { apply filter_In. split; [exact Hin | apply String.eqb_eq; exact Hn]. }
      destruct (filter _ (c_props c)); [destruct Hf | discriminate].
    + intros H. destruct (filter _ (c_props c)) as [|p l] eqn:E; [reflexivity|]. exfalso. apply H.
      assert (Hf : In p (filter (fun p0 => String.eqb (p_name p0) (upper (prf_name f))) (c_props c))) by (rewrite E; left; reflexivity).
      apply filter_In in Hf. destruct Hf as [Hin Hn]. exists p. split; [exact Hin | apply String.eqb_eq; exact Hn].
  - rewrite existsb_exists. split.
    + intros [p [Hf Hi]]. apply filter_In in Hf. destruct Hf as [Hin Hn]. apply String.eqb_eq in Hn. eauto.
    + intros [p [Hin [Hn Hi]]]. exists p. split; [|exact Hi]. apply filter_In. split; [exact Hin | apply String.eqb_eq; exact Hn].
Qed.
