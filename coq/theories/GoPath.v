(** GoPath.v — the parts of Go's [path] / [path/filepath] / [strings] packages that
    fs_local.go relies on, as total functions on byte strings.
    [clean] is a segment-stack reading of path.Clean; the correspondence check
    compares it with Go's path.Clean on every string over a small alphabet up to a
    length bound and on random strings.  No proofs here (extracted). *)
From GW Require Import Base.

Definition slash : ascii := "/"%char.
Definition nul : ascii := "000"%char.

Fixpoint has_char (c : ascii) (s : string) : bool :=
  match s with
  | EmptyString => false
  | String a r => Ascii.eqb a c || has_char c r
  end.

(** strings.Split(s, "/"): always at least one element. *)
Fixpoint split_slash_aux (s : string) (cur : string (* reversed *)) : list string :=
  match s with
  | EmptyString => [cur]
  | String a r =>
    if Ascii.eqb a slash then cur :: split_slash_aux r EmptyString
    else split_slash_aux r (cur ++ String a EmptyString)
  end.
Definition split_slash (s : string) : list string := split_slash_aux s EmptyString.

Fixpoint join_slash (l : list string) : string :=
  match l with
  | [] => ""
  | [x] => x
  | x :: r => x ++ "/" ++ join_slash r
  end.

(** path.Clean's element loop.  [stack] is reversed.  In a rooted path a ".."
    at the root is dropped; in a relative one it is kept once nothing is left to
    pop ([dotdot] bookkeeping of the Go source). *)
Fixpoint clean_stack (rooted : bool) (segs : list string) (stack : list string) : list string :=
  match segs with
  | [] => rev stack
  | seg :: rest =>
    if String.eqb seg "" || String.eqb seg "." then clean_stack rooted rest stack
    else if String.eqb seg ".." then
      match stack with
      | top :: st' =>
        if String.eqb top ".." then clean_stack rooted rest (".." :: stack)
        else clean_stack rooted rest st'
      | [] => if rooted then clean_stack rooted rest [] else clean_stack rooted rest [".."]
      end
    else clean_stack rooted rest (seg :: stack)
  end.

Definition is_abs (s : string) : bool :=
  match s with String a _ => Ascii.eqb a slash | EmptyString => false end.

(** path.Clean *)
Definition clean (s : string) : string :=
  match s with
  | EmptyString => "."
  | _ =>
    let rooted := is_abs s in
    let out := clean_stack rooted (split_slash s) [] in
    if rooted then "/" ++ join_slash out
    else match out with [] => "." | _ => join_slash out end
  end.

(** The segments of an absolute cleaned path (what lies below the root). *)
Definition clean_segs (s : string) : list string := clean_stack true (split_slash s) [].

(** A proper path segment: what a directory entry name can be. *)
Definition proper_seg (s : string) : bool :=
  negb (String.eqb s "") && negb (String.eqb s ".") && negb (String.eqb s "..")
  && negb (has_char slash s).

(** LocalFileSystem.localPath (fs_local.go:24-33) on a platform whose separator
    is '/': the served-namespace segments of [name], or 400.
    The host path is filepath.Join(root, "/" ++ join segs). *)
Definition local_segs (name : string) : res (list string) :=
  if has_char nul name then Err 400
  else if is_abs (clean name) then Ok (clean_segs name)
  else Err 400.

(** filepath.Join(root, p) for a clean absolute [root] and p = "/" ++ join segs
    with proper segments. *)
Definition host_path (root : string) (segs : list string) : string :=
  match segs with
  | [] => root
  | _ => if String.eqb root "/" then "/" ++ join_slash segs else root ++ "/" ++ join_slash segs
  end.

Definition local_path (root name : string) : res string :=
  match local_segs name with
  | Ok segs => Ok (host_path root segs)
  | Err c => Err c
  | Panic => Panic
  end.

(** LocalFileSystem.externalPath for the host path of [segs] below the root:
    "/" ++ filepath.ToSlash(filepath.Rel(root, p)), and "/" for the root itself.
    It is also path.Clean of any request path with these segments (Stat). *)
Definition external_path (segs : list string) : string := "/" ++ join_slash segs.

(** Prefix relation on segment paths. *)
Fixpoint is_prefix (p q : list string) : bool :=
  match p, q with
  | [], _ => true
  | a :: p', b :: q' => String.eqb a b && is_prefix p' q'
  | _ :: _, [] => false
  end.

Fixpoint strip_prefix (p q : list string) : option (list string) :=
  match p, q with
  | [], _ => Some q
  | a :: p', b :: q' => if String.eqb a b then strip_prefix p' q' else None
  | _ :: _, [] => None
  end.
