(** Base.v — shared conventions: byte strings, the result type with an explicit
    [Panic] outcome, and small list/string helpers used by every model. *)
From Coq Require Export List Bool String Ascii NArith ZArith Lia.
Export ListNotations.
Open Scope string_scope.

(** Go results.  [Err c] carries the HTTP status the handler would answer with
    (a non-HTTPError Go error is [Err 500], as ServeError makes of it);
    [Panic] is a Go panic.  "Never panics" is a theorem, not totality. *)
Inductive res (A : Type) : Type :=
| Ok (a : A)
| Err (code : N)
| Panic.
Arguments Ok {A} a.
Arguments Err {A} code.
Arguments Panic {A}.

Definition bind {A B} (r : res A) (f : A -> res B) : res B :=
  match r with Ok a => f a | Err c => Err c | Panic => Panic end.
Notation "'do' x <- r ; k" := (bind r (fun x => k))
  (at level 200, x pattern, r at level 100, k at level 200, right associativity).

Definition is_ok {A} (r : res A) : bool := match r with Ok _ => true | _ => false end.
Definition is_err {A} (r : res A) : bool := match r with Err _ => true | _ => false end.

(** String helpers. *)
Definition str_empty (s : string) : bool := match s with EmptyString => true | _ => false end.

Lemma str_empty_spec s : str_empty s = true <-> s = "".
Proof. destruct s; simpl; split; congruence. Qed.

Lemma eqb_empty_r s : String.eqb s "" = str_empty s.
Proof. destruct s; reflexivity. Qed.

Lemma string_eqb_spec' (a b : string) : String.eqb a b = true <-> a = b.
Proof. apply String.eqb_eq. Qed.

Lemma string_eqb_false (a b : string) : String.eqb a b = false <-> a <> b.
Proof. apply String.eqb_neq. Qed.
