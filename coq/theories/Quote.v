(** Quote.v — C16, part 4: entity tags on the wire.

    ETag.String is fmt.Sprintf("%q", s) = strconv.Quote(s); ETag.UnmarshalText requires
    an opening double quote and calls strconv.Unquote.  This file models, on byte
    strings, after strconv/quote.go and unicode/utf8 (go1.23.5):

      - utf8.DecodeRuneInString, utf8.AppendRune, utf8.ValidRune, utf8.ValidString;
      - strconv.IsPrint: the Latin-1 part concretely, the table for runes above
        U+00FF as the parameter [is_print_hi] (every theorem holds for EVERY such
        table; the harness supplies the printable runes of each case it generates);
      - appendEscapedRune / Quote;  UnquoteChar / unquote / Unquote with the three
        literal forms (interpreted "...", raw `...`, rune '.') and the fast path;
      - the ETag codec, the grammar of Go interpreted string literals with its
        denotation as specification, and the verdict functions.

    NO proofs here (see QuoteProofs.v). *)
From GW Require Import Base Wire.
Local Open Scope N_scope.

(** * UTF-8 *)
Definition rune_error : N := 65533.      (* U+FFFD *)
Definition max_rune : N := 1114111.      (* U+10FFFF *)

(** utf8.ValidRune *)
Definition valid_rune (r : N) : bool := (r <? 55296) || ((57343 <? r) && (r <=? max_rune)).

Definition is_cont (b : N) : bool := (128 <=? b) && (b <=? 191).

(** utf8.DecodeRuneInString: (rune, width); (RuneError, 1) for an invalid or short
    encoding, (RuneError, 0) for the empty string *)
Definition decode_rune (s : string) : N * nat :=
  match s with
  | EmptyString => (rune_error, 0%nat)
  | String c0 r0 =>
    let b0 := byte c0 in
    if b0 <? 128 then (b0, 1%nat)
    else if b0 <? 194 then (rune_error, 1%nat)
    else if b0 <? 224 then
      match r0 with
      | String c1 _ =>
          let b1 := byte c1 in
          if is_cont b1 then ((b0 - 192) * 64 + (b1 - 128), 2%nat) else (rune_error, 1%nat)
      | _ => (rune_error, 1%nat)
      end
    else if b0 <? 240 then
      match r0 with
      | String c1 (String c2 _) =>
          let b1 := byte c1 in let b2 := byte c2 in
          let lo := if b0 =? 224 then 160 else 128 in
          let hi := if b0 =? 237 then 159 else 191 in
          if (lo <=? b1) && (b1 <=? hi) && is_cont b2
          then ((b0 - 224) * 4096 + (b1 - 128) * 64 + (b2 - 128), 3%nat) else (rune_error, 1%nat)
      | _ => (rune_error, 1%nat)
      end
    else if b0 <? 245 then
      match r0 with
      | String c1 (String c2 (String c3 _)) =>
          let b1 := byte c1 in let b2 := byte c2 in let b3 := byte c3 in
          let lo := if b0 =? 240 then 144 else 128 in
          let hi := if b0 =? 244 then 143 else 191 in
          if (lo <=? b1) && (b1 <=? hi) && is_cont b2 && is_cont b3
          then ((b0 - 240) * 262144 + (b1 - 128) * 4096 + (b2 - 128) * 64 + (b3 - 128), 4%nat)
          else (rune_error, 1%nat)
      | _ => (rune_error, 1%nat)
      end
    else (rune_error, 1%nat)
  end.

Definition enc3 (r : N) : string :=
  String (chr (224 + r / 4096)) (String (chr (128 + (r / 64) mod 64)) (String (chr (128 + r mod 64)) EmptyString)).

(** utf8.AppendRune *)
Definition encode_rune (r : N) : string :=
  if r <=? 127 then String (chr r) EmptyString
  else if r <=? 2047 then String (chr (192 + r / 64)) (String (chr (128 + r mod 64)) EmptyString)
  else if negb (valid_rune r) then enc3 rune_error
  else if r <=? 65535 then enc3 r
  else String (chr (240 + r / 262144)) (String (chr (128 + (r / 4096) mod 64))
         (String (chr (128 + (r / 64) mod 64)) (String (chr (128 + r mod 64)) EmptyString))).

(** utf8.ValidString *)
Fixpoint valid_string_fuel (fuel : nat) (s : string) : bool :=
  match fuel with
  | O => true
  | S f =>
    match s with
    | EmptyString => true
    | String c r => if byte c <? 128 then valid_string_fuel f r
                    else let '(_, w) := decode_rune s in
                         if (w =? 1)%nat then false else valid_string_fuel f (drop w s)
    end
  end.
Definition valid_string (s : string) : bool := valid_string_fuel (String.length s) s.

(** * Hexadecimal *)
Definition hex_digit (upper : bool) (n : N) : ascii :=
  if n <? 10 then chr (48 + n) else chr ((if upper then 55 else 87) + n).
(** k digits of r, most significant first *)
Fixpoint hexn (upper : bool) (k : nat) (r : N) : string :=
  match k with
  | O => EmptyString
  | S k' => String (hex_digit upper ((r / 16 ^ N.of_nat k') mod 16)) (hexn upper k' r)
  end.

(** strconv.unhex *)
Definition unhex (c : ascii) : option N :=
  let b := byte c in
  if (48 <=? b) && (b <=? 57) then Some (b - 48)
  else if (97 <=? b) && (b <=? 102) then Some (b - 87)
  else if (65 <=? b) && (b <=? 70) then Some (b - 55)
  else None.
(** exactly k hex digits: v = v<<4 | x *)
Fixpoint hex_value (k : nat) (s : string) (acc : N) : option (N * string) :=
  match k with
  | O => Some (acc, s)
  | S k' => match s with
            | String c r => match unhex c with
                            | Some x => hex_value k' r (acc * 16 + x)
                            | None => None
                            end
            | EmptyString => None
            end
  end.

Fixpoint index_byte (s : string) (c : ascii) : option nat :=
  match s with
  | EmptyString => None
  | String a r => if Ascii.eqb a c then Some O
                  else match index_byte r c with Some i => Some (S i) | None => None end
  end.
Definition contains (s : string) (c : ascii) : bool :=
  match index_byte s c with Some _ => true | None => false end.

Definition c_dq : ascii := """"%char.
Definition c_sq : ascii := "'"%char.
Definition c_bq : ascii := "`"%char.
Definition c_bs : ascii := "\"%char.
Definition c_lf : ascii := "010"%char.
Definition c_cr : ascii := "013"%char.

Section WithIsPrint.
(** strconv.IsPrint above U+00FF (isPrint16/isNotPrint16/isPrint32/isNotPrint32) *)
Variable is_print_hi : N -> bool.

(** strconv.IsPrint *)
Definition is_print (r : N) : bool :=
  if r <=? 255 then
    if (32 <=? r) && (r <=? 126) then true
    else if (161 <=? r) && (r <=? 255) then negb (r =? 173)
    else false
  else is_print_hi r.

(** strconv.appendEscapedRune with the double quote as quote, ASCIIonly = graphicOnly = false *)
Definition append_escaped_rune (r : N) : string :=
  if (r =? 34) || (r =? 92) then String c_bs (String (chr r) EmptyString)
  else if is_print r then encode_rune r
  else if r =? 7 then String c_bs "a"
  else if r =? 8 then String c_bs "b"
  else if r =? 12 then String c_bs "f"
  else if r =? 10 then String c_bs "n"
  else if r =? 13 then String c_bs "r"
  else if r =? 9 then String c_bs "t"
  else if r =? 11 then String c_bs "v"
  else if (r <? 32) || (r =? 127) then String c_bs (String "x" (hexn false 2 r))
  else if negb (valid_rune r) then String c_bs (String "u" (hexn false 4 rune_error))
  else if r <? 65536 then String c_bs (String "u" (hexn false 4 r))
  else String c_bs (String "U" (hexn false 8 r)).

(** the loop of strconv.appendQuotedWith; [fuel] bounds the number of runes *)
Fixpoint quote_loop (fuel : nat) (s : string) : string :=
  match fuel with
  | O => EmptyString
  | S f =>
    match s with
    | EmptyString => EmptyString
    | String c r0 =>
      let '(r, w) := if byte c <? 128 then (byte c, 1%nat) else decode_rune s in
      if (w =? 1)%nat && (r =? rune_error)
      then (String c_bs (String "x" (hexn false 2 (byte c))) ++ quote_loop f r0)%string
      else (append_escaped_rune r ++ quote_loop f (drop w s))%string
    end
  end.

(** strconv.Quote = fmt's %q *)
Definition quote (s : string) : string :=
  String c_dq (quote_loop (String.length s) s ++ String c_dq EmptyString).

(** internal.ETag.String / MarshalText *)
Definition etag_marshal (s : string) : string := quote s.
End WithIsPrint.

(** * strconv.UnquoteChar: (value, multibyte, tail) *)
Definition is_octal (c : ascii) : bool := (48 <=? byte c) && (byte c <=? 55).

Definition unquote_char (s : string) (q : ascii) : option (N * bool * string) :=
  match s with
  | EmptyString => None
  | String c r =>
    if Ascii.eqb c q && (Ascii.eqb q c_sq || Ascii.eqb q c_dq) then None
    else if 128 <=? byte c then let '(rn, w) := decode_rune s in Some (rn, true, drop w s)
    else if negb (Ascii.eqb c c_bs) then Some (byte c, false, r)
    else
      match r with
      | EmptyString => None
      | String e r2 =>
        if Ascii.eqb e "a" then Some (7, false, r2)
        else if Ascii.eqb e "b" then Some (8, false, r2)
        else if Ascii.eqb e "f" then Some (12, false, r2)
        else if Ascii.eqb e "n" then Some (10, false, r2)
        else if Ascii.eqb e "r" then Some (13, false, r2)
        else if Ascii.eqb e "t" then Some (9, false, r2)
        else if Ascii.eqb e "v" then Some (11, false, r2)
        else if Ascii.eqb e "x" then
          match hex_value 2 r2 0 with Some (v, r3) => Some (v, false, r3) | None => None end
        else if Ascii.eqb e "u" then
          match hex_value 4 r2 0 with
          | Some (v, r3) => if valid_rune v then Some (v, true, r3) else None
          | None => None
          end
        else if Ascii.eqb e "U" then
          match hex_value 8 r2 0 with
          | Some (v, r3) => if valid_rune v then Some (v, true, r3) else None
          | None => None
          end
        else if is_octal e then
          match r2 with
          | String o1 (String o2 r3) =>
              if is_octal o1 && is_octal o2 then
                let v := (byte e - 48) * 64 + (byte o1 - 48) * 8 + (byte o2 - 48) in
                if 255 <? v then None else Some (v, false, r3)
              else None
          | _ => None
          end
        else if Ascii.eqb e c_bs then Some (92, false, r2)
        else if Ascii.eqb e c_sq || Ascii.eqb e c_dq then
          if Ascii.eqb e q then Some (byte e, false, r2) else None
        else None
      end
  end.

(** what one decoded character adds to the buffer *)
Definition char_bytes (rn : N) (multibyte : bool) : string :=
  if (rn <? 128) || negb multibyte then String (chr rn) EmptyString else encode_rune rn.

(** the escape-processing loop of strconv.unquote, after the opening quote:
    (unescaped text, what follows the closing quote) *)
Fixpoint unquote_loop (fuel : nat) (q : ascii) (inp : string) : option (string * string) :=
  match fuel with
  | O => None
  | S f =>
    match inp with
    | EmptyString => None
    | String c r =>
      if Ascii.eqb c q then Some (EmptyString, r)
      else
        match unquote_char inp q with
        | None => None
        | Some (rn, mb, rem) =>
          if Ascii.eqb c c_lf then None
          else if Ascii.eqb q c_sq then
            match rem with
            | String c' r' => if Ascii.eqb c' q then Some (char_bytes rn mb, r') else None
            | EmptyString => None
            end
          else
            match unquote_loop f q rem with
            | Some (out, rest) => Some ((char_bytes rn mb ++ out)%string, rest)
            | None => None
            end
        end
    end
  end.

Fixpoint remove_cr (s : string) : string :=
  match s with
  | EmptyString => EmptyString
  | String c r => if Ascii.eqb c c_cr then remove_cr r else String c (remove_cr r)
  end.

(** strconv.unquote(in, true): (out, rem) *)
Definition unquote_full (inp : string) : option (string * string) :=
  match inp with
  | EmptyString => None
  | String q body =>
    if (String.length inp <? 2)%nat then None else
    match index_byte body q with
    | None => None
    | Some e =>
      let endp := S (S e) in
      if Ascii.eqb q c_bq then
        Some (if contains (take_n endp inp) c_cr then remove_cr (take_n e body) else take_n e body,
              drop endp inp)
      else if Ascii.eqb q c_dq || Ascii.eqb q c_sq then
        let pre := take_n endp inp in
        let inner := take_n e body in
        if negb (contains pre c_bs) && negb (contains pre c_lf)
           && (if Ascii.eqb q c_dq then valid_string inner
               else let '(r, n) := decode_rune inner in
                    (S (S n) =? endp)%nat && (negb (r =? rune_error) || negb (n =? 1)%nat))
        then Some (inner, drop endp inp)
        else unquote_loop (S (String.length body)) q body
      else None
    end
  end.

(** strconv.Unquote *)
Definition unquote (s : string) : option string :=
  match unquote_full s with
  | Some (out, EmptyString) => Some out
  | _ => None
  end.

(** internal.ETag.UnmarshalText (and so webdav.ConditionalMatch.ETag) *)
Definition etag_unmarshal (b : string) : res string :=
  match b with
  | String c _ => if Ascii.eqb c c_dq then
                    match unquote b with Some s => Ok s | None => plain_err end
                  else plain_err
  | EmptyString => plain_err
  end.

(** * Specification: Go interpreted string literals (The Go Programming Language
    Specification, "String literals" and "Rune literals") with the byte string
    they denote.  [lenient] additionally lets a byte that is not part of a valid
    UTF-8 encoding stand for U+FFFD, which is what strconv.Unquote does. *)
Definition simple_escapes : list (ascii * N) :=
  [("a"%char, 7); ("b"%char, 8); ("f"%char, 12); ("n"%char, 10); ("r"%char, 13); ("t"%char, 9);
   ("v"%char, 11); (c_bs, 92); (c_dq, 34)].
Fixpoint assoc_chr (l : list (ascii * N)) (c : ascii) : option N :=
  match l with [] => None | (k, v) :: r => if Ascii.eqb k c then Some v else assoc_chr r c end.

(** after the backslash: (bytes denoted, rest) *)
Definition den_escape (r : string) : option (string * string) :=
  match r with
  | EmptyString => None
  | String e r2 =>
    match assoc_chr simple_escapes e with
    | Some v => Some (String (chr v) EmptyString, r2)
    | None =>
      if Ascii.eqb e "x" then
        match hex_value 2 r2 0 with Some (v, r3) => Some (String (chr v) EmptyString, r3) | None => None end
      else if Ascii.eqb e "u" then
        match hex_value 4 r2 0 with
        | Some (v, r3) => if valid_rune v then Some (encode_rune v, r3) else None
        | None => None
        end
      else if Ascii.eqb e "U" then
        match hex_value 8 r2 0 with
        | Some (v, r3) => if valid_rune v then Some (encode_rune v, r3) else None
        | None => None
        end
      else if is_octal e then
        match r2 with
        | String o1 (String o2 r3) =>
            if is_octal o1 && is_octal o2 then
              let v := (byte e - 48) * 64 + (byte o1 - 48) * 8 + (byte o2 - 48) in
              if v <=? 255 then Some (String (chr v) EmptyString, r3) else None
            else None
        | _ => None
        end
      else None
    end
  end.

Fixpoint den_body (lenient : bool) (fuel : nat) (body : string) : option string :=
  match fuel with
  | O => None
  | S f =>
    match body with
    | EmptyString => None                                        (* no closing quote *)
    | String c r =>
      if Ascii.eqb c c_dq then (match r with EmptyString => Some EmptyString | _ => None end)
      else if Ascii.eqb c c_lf then None
      else if Ascii.eqb c c_bs then
        match den_escape r with
        | Some (bytes, r') => match den_body lenient f r' with
                              | Some out => Some (bytes ++ out)%string
                              | None => None
                              end
        | None => None
        end
      else if byte c <? 128 then
        match den_body lenient f r with Some out => Some (String c out) | None => None end
      else
        let '(_, w) := decode_rune body in
        if (w =? 1)%nat then
          if lenient then
            match den_body lenient f r with Some out => Some (enc3 rune_error ++ out)%string | None => None end
          else None
        else
          match den_body lenient f (drop w body) with
          | Some out => Some (take_n w body ++ out)%string
          | None => None
          end
    end
  end.

Definition dq_den (lenient : bool) (s : string) : option string :=
  match s with
  | String c body => if Ascii.eqb c c_dq then den_body lenient (S (String.length body)) body else None
  | EmptyString => None
  end.

(** * Verdicts *)

(** (etag-rt bytes printable-runes): ETag.String, then ETag.UnmarshalText *)
Definition etag_rt_agrees (ip : N -> bool) (s : string) (omar : string) (oun : obs string) : bool :=
  String.eqb (etag_marshal ip s) omar && obs_eqb String.eqb (obs_of (etag_unmarshal omar)) oun.
Definition etag_rt_spec_ok (s : string) (omar : string) (oun : obs string) : bool :=
  opt_eqb String.eqb (dq_den false omar) (Some s) && obs_eqb String.eqb oun (ObsOk s).

(** (etag-dec text): ETag.UnmarshalText *)
Definition etag_dec_agrees (b : string) (o : obs string) : bool :=
  obs_eqb String.eqb (obs_of (etag_unmarshal b)) o.
Definition etag_dec_spec_ok (b : string) (o : obs string) : bool :=
  dec_spec_ok String.eqb (dq_den false b) o.
(** known finding C16-etag-invalid-utf8: a quoted text with a byte that is not valid
    UTF-8 is accepted and decoded with U+FFFD in its place *)
Definition kf_etag_invalid_utf8 (b : string) (o : obs string) : bool :=
  match o, dq_den false b, dq_den true b with
  | ObsOk v, None, Some v' => String.eqb v v'
  | _, _, _ => false
  end.

(** (unquote-dec text): strconv.Unquote itself, all three literal forms (model fidelity only) *)
Definition unquote_dec_agrees (b : string) (o : obs string) : bool :=
  obs_eqb String.eqb (match unquote b with Some s => ObsOk s | None => ObsErr end) o.

(** (utf8 bytes): cross-check of the UTF-8 model: utf8.DecodeRuneInString at every
    offset is not recorded; instead the rune sequence (rune, width) of the whole string *)
Fixpoint decode_all (fuel : nat) (s : string) : list (N * nat) :=
  match fuel with
  | O => []
  | S f => match s with
           | EmptyString => []
           | _ => let '(r, w) := decode_rune s in (r, w) :: decode_all f (drop w s)
           end
  end.
