(** Properties_C14.v — C14 (stub while the check is being built). *)
From GW Require Import Base ClientTotal ClientTotalProofs.

Theorem C14_stub : forall s, c_is_err (plain s) = must_fail MOpen "" s.
Proof. exact plain_ok_iff. Qed.
Print Assumptions C14_stub.
