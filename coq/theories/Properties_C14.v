(** Properties_C14.v — C14: clients survive any response and report failures with their
    status.  Statements only; each is closed by [exact] of a lemma proved in
    ClientTotalProofs.v.  [run m path s] is the model of client method [m] (every public
    method of the webdav, caldav and carddav clients) called with path argument [path]
    against an HTTPClient that answers with [s]: a transport error or one response
    (status, headers, body as parsed by the runtime's parsers).

    [well_formed s]: the HTTPClient sets Response.Request, as http.Client does.
    [vcard_decoder_panics s]: the third-party vCard decoder, which the carddav client calls
    unguarded, panics on a text of this response (never observed; a panic of go-ical, which
    does occur, is turned into an error by the caldav client since the repair c4d1d95). *)
From GW Require Import Base ClientTotal ClientTotalProofs ClientAgree.

(** No client method panics, whatever the status, the headers and the body.
    Partial: the parsers outside /repo's decision logic (encoding/xml's tokenizer, mime,
    net/url, strconv, http.ParseTime, go-ical, go-vcard) enter as data; that they return at
    all is exercised by the harness, not proved; for go-vcard, whose panic the client would
    not survive, that is the visible hypothesis [vcard_decoder_panics s = false]. *)
Theorem C14_no_panic_partial : forall m path s,
  well_formed s = true -> vcard_decoder_panics s = false -> run m path s <> CPanic.
Proof. exact run_no_panic_kf. Qed.
Print Assumptions C14_no_panic_partial.

(** A call returns an error exactly when the transport failed, the status is not 2xx, a
    multi-status was required and the status is not 207, or the body (headers) cannot be
    interpreted ([must_fail], the specification).  Partial in the same sense. *)
Theorem C14_error_iff_partial : forall m path s,
  well_formed s = true -> vcard_decoder_panics s = false ->
  (c_is_err (run m path s) = true <-> must_fail m path s = true).
Proof. exact run_error_iff_kf. Qed.
Print Assumptions C14_error_iff_partial.

(** Without any hypothesis: a call that must fail never hands out a value ... *)
Theorem C14_failure_never_data : forall m path s,
  must_fail m path s = true -> c_is_ok (run m path s) = false.
Proof. exact run_fail. Qed.
Print Assumptions C14_failure_never_data.

(** ... and a failure that is the HTTP status carries it: a non-2xx status yields an error
    with that code and the DAV:error element of the body (XML content type, first element
    DAV:error); a 2xx status other than 207 where a multi-status is required yields an error
    with that code. *)
Theorem C14_carries_status : forall m path r e,
  spec_status_error m r = Some e -> run m path (Resp r) = CErr e.
Proof. exact run_status_error. Qed.
Print Assumptions C14_carries_status.

(** A call that need not fail succeeds and hands out exactly the resources the
    specification names. *)
Theorem C14_success_value : forall m path r,
  must_fail m path (Resp r) = false -> h_reqset r = true ->
  run m path (Resp r) = COk (spec_value m path r).
Proof. exact run_succeed. Qed.
Print Assumptions C14_success_value.

Theorem C14_value_only_on_success : forall m path s v,
  well_formed s = true -> run m path s = COk v ->
  exists r, s = Resp r /\ must_fail m path s = false /\ v = spec_value m path r.
Proof. exact run_ok_value. Qed.
Print Assumptions C14_value_only_on_success.

(** The metadata handed out with each object of a list result (ETag, ModTime, ContentLength of
    calendar / address objects; Name, Description, MaxResourceSize, supported set of calendars /
    address books; ModTime, ETag of sync-collection updates) is, field by field, the value the
    multi-status reports for THAT resource with a success status, and the zero value when it is
    not reported or reported 404 — never another resource's. *)
Theorem C14_metadata_own_resource : forall m path r v,
  run m path (Resp r) = COk v -> run_meta m path (Resp r) = spec_meta m path r.
Proof. exact run_meta_spec. Qed.
Print Assumptions C14_metadata_own_resource.

(** Inner statuses: a successful call saw no response with a non-success status
    (sync-collection: other than the 404 entries, which are deletions). *)
Theorem C14_inner_status : forall m path r v,
  h_reqset r = true -> needs_207 m = true -> run m path (Resp r) = COk v ->
  exists ms, spec_ms r = Some ms /\ forall x, In x ms -> entry_rule m x.
Proof. exact ok_inner_status. Qed.
Print Assumptions C14_inner_status.

(** sync-collection: the deletions are exactly the hrefs of the 404 responses, the updates
    the other responses (not the collection itself), none of which has a failing status. *)
Theorem C14_sync_classification : forall path r d u,
  h_reqset r = true -> run MSyncCollection path (Resp r) = COk (VSync d u) ->
  exists ms, spec_ms r = Some ms /\
    d = flat_map r_hrefs (filter is_deletion ms) /\
    u = map first_href (filter (fun x => negb (is_deletion x) && negb (is_self path x)) ms) /\
    forall x, In x ms -> is_deletion x = false -> resp_success x = true.
Proof. exact sync_classification. Qed.
Print Assumptions C14_sync_classification.

(** Per-property status: an object report that succeeds found the data property of every
    entry in a 2xx propstat, and parseable. *)
Theorem C14_inner_propstat : forall m nd path r v,
  (m = MQueryCalendar \/ m = MMultiGetCalendar) /\ nd = n_cal_data \/
  (m = MQueryAddressBook \/ m = MMultiGetAddressBook) /\ nd = n_card_data ->
  h_reqset r = true -> run m path (Resp r) = COk v ->
  exists ms, spec_ms r = Some ms /\ v = VPaths (map first_href ms) /\
    forall x, In x ms -> one_href x = true /\ prop_good x nd dec_any = true /\ data_parses x nd = true.
Proof. exact report_inner_propstat. Qed.
Print Assumptions C14_inner_propstat.

(** Response.DecodeProp with several values succeeds exactly when every one of them is
    reported with a success status and decodes (no public method passes more than one;
    the harness calls it directly). *)
Theorem C14_decode_prop_all_values : forall r, c_is_ok (decode_pair r) = spec_pair_ok r.
Proof. exact decode_pair_ok. Qed.
Print Assumptions C14_decode_prop_all_values.

(** The executable specification used by the oracle is the declarative one. *)
Theorem C14_spec_exec : forall m path s o, spec_ok m path s o = true <-> meets_spec m path s o.
Proof. exact spec_ok_meets. Qed.
Print Assumptions C14_spec_exec.

(** Agreement of the implementation with the model entails the specification. *)
Theorem C14_agree_implies_spec_ok : forall m path s o,
  well_formed s = true -> vcard_decoder_panics s = false ->
  model_agrees m path s o = true -> spec_ok m path s o = true.
Proof. exact agree_implies_spec_ok_kf. Qed.
Print Assumptions C14_agree_implies_spec_ok.

(** The C14 model and the C05 model (DavClient.v) of webdav.Client describe the same functions:
    for every codec record [X], backend [fs], endpoint and operation of DavClient.run_op
    (Stat, ReadDir, Open, Create, RemoveAll, Mkdir, Copy, Move), [run] on the answer
    DavClient's server model gives — written as a script by [embed] — ends as DavClient's client
    model does: the same resources are handed out (paths of its FileInfos), an error carries the
    code DavClient reports (0 = not an HTTPError). *)
Theorem C14_agrees_with_dav_client_model : forall X mt fs ep o path,
  out_rel (snd (DavClient.run_op X fs ep o))
          (run (meth_of o) path (embed X mt (dav_answer X fs ep o))).
Proof. exact agrees_with_dav_client_model. Qed.
Print Assumptions C14_agrees_with_dav_client_model.

(** The same on ANY DavClient answer, not only those its server model produces: the
    multi-status decodes to the same responses, and Response.DecodeProp / fileInfoFromResponse
    read every entry alike. *)
Theorem C14_dav_client_decoding_agrees : forall X,
  (forall l, dec_multistatus (ms_tree X l) =
             match DavClient.decode_ms X l with Some ds => Some (map (emb_d X) ds) | None => None end) /\
  (forall A d n (dec : xtree -> option A),
     decode_prop (emb_d X d) (qn n) dec =
     match DavClient.decode_prop d n with
     | Ok v => match dec (prop_elem X (n, v)) with Some a => COk a | None => CErr EOther end
     | Err c => CErr (EHttp c None)
     | Panic => CPanic
     end) /\
  (forall d, rel (fun i p => p = DavClient.i_path i) (DavClient.file_info_from_response X d) (file_info (emb_d X d))).
Proof. exact dav_client_decoding_agrees. Qed.
Print Assumptions C14_dav_client_decoding_agrees.

(** The C14 model and the C10 model (Objects.v) of the object-list readers
    (decodeCalendarObjectList / decodeAddressList behind QueryCalendar, MultiGetCalendar,
    QueryAddressBook, MultiGetAddressBook): on a 207 answer whose multi-status decodes — in
    ClientTotal — to the responses [rs] C10 decoded (written over by [o_emb], the property values
    annotated with what C10's codecs make of their text), both end alike: the same object paths
    are handed out, an HTTPError has the same code, any other error is any other error.
    Partial: the two decoders from the element tree to the responses (ObjXml.dec_multistatus
    filters the children per field, ClientTotal.dec_multistatus folds over them; different tree
    types) are not related here — the hypothesis [spec_ms h = Some (map (o_emb cd fl) rs)] stands
    for that step. *)
Theorem C14_agrees_with_objects_model_partial : forall cd fl m path h rs tok,
  In m (o_meths fl) -> h_status h = 207%N -> spec_ms h = Some (map (o_emb cd fl) rs) ->
  (forall r, In r rs -> o_codes_ok r) ->
  o_rel (fun vs v => v = VPaths (map Objects.v_path vs))
        (Objects.decode_object_list cd fl {| ObjXml.ms_responses := rs; ObjXml.ms_sync_token := tok |})
        (run m path (Resp h)).
Proof. exact agrees_with_objects_model. Qed.
Print Assumptions C14_agrees_with_objects_model_partial.

(** The oracle's specification verdict is [spec_ok], except on documents in which one property is
    reported twice for one resource with a success and a non-success status ([ambiguous]): there
    the statement does not say which report counts and either outcome is accepted. *)
Theorem C14_relaxed_verdict : forall m path s o,
  ambiguous s = false -> spec_ok_relaxed m path s o = spec_ok m path s o.
Proof. exact spec_ok_relaxed_unambiguous. Qed.
Print Assumptions C14_relaxed_verdict.
