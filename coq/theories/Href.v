(** Href.v — C16, part 5: hrefs on the wire.

    internal.Href is a net/url.URL; Href.String / MarshalText is URL.String and
    Href.UnmarshalText is url.Parse.  The library builds every href it sends as
    Href{Path: p}.  This file models, on byte strings, after net/url/url.go (go1.23.5):

      - shouldEscape for the two modes a reference without authority uses (encodePath,
        encodeFragment), escape, unescape, validEncoded;
      - URL.setPath / setFragment, EscapedPath / EscapedFragment, URL.String for a URL
        without user and host;
      - getScheme, parse (viaRequest = false) and Parse up to the call of
        parseAuthority: a text with an authority component is parsed as far as that
        call, its result is [HAuth] (the rest of the record is what Parse returns if
        parseAuthority accepts the authority);
      - the specification: RFC 4918 8.3 / RFC 3986 path-absolute [ "?" query ] with the
        path it denotes, strictly, and the lenient reading url.Parse gives;
      - the verdict functions.

    NO proofs here (see HrefProofs.v). *)
From GW Require Import Base Wire Quote.
Local Open Scope N_scope.

(** * Character classes *)
Definition is_alpha (b : N) : bool := ((97 <=? b) && (b <=? 122)) || ((65 <=? b) && (b <=? 90)).
Definition is_num (b : N) : bool := (48 <=? b) && (b <=? 57).
Definition mem_bytes (b : N) (l : list N) : bool := existsb (N.eqb b) l.

Inductive mode : Type := EncodePath | EncodeFragment.

(** net/url.shouldEscape *)
Definition should_escape (m : mode) (c : ascii) : bool :=
  let b := byte c in
  if is_alpha b || is_num b then false
  else if mem_bytes b [45; 95; 46; 126] then false                         (* - _ . ~ *)
  else if mem_bytes b [36; 38; 43; 44; 47; 58; 59; 61; 63; 64] then        (* $ & + , / : ; = ? @ *)
    match m with EncodePath => b =? 63 | EncodeFragment => false end
  else match m with
       | EncodeFragment => negb (mem_bytes b [33; 40; 41; 42])             (* ! ( ) * *)
       | EncodePath => true
       end.

Definition pct (c : ascii) (rest : string) : string :=
  String "%" (String (hex_digit true (byte c / 16)) (String (hex_digit true (byte c mod 16)) rest)).

(** net/url.escape (the early return for a string that needs no escaping computes the
    same function) *)
Fixpoint escape (m : mode) (s : string) : string :=
  match s with
  | EmptyString => EmptyString
  | String c r => if should_escape m c then pct c (escape m r) else String c (escape m r)
  end.

(** net/url.unescape for the path and fragment modes: every "%" must be followed by
    two hexadecimal digits; "+" stays *)
Fixpoint unescape (s : string) : option string :=
  match s with
  | EmptyString => Some EmptyString
  | String c r =>
    if Ascii.eqb c "%" then
      match r with
      | String a (String b r') =>
          match unhex a, unhex b, unescape r' with
          | Some x, Some y, Some out => Some (String (chr (x * 16 + y)) out)
          | _, _, _ => None
          end
      | _ => None
      end
    else match unescape r with Some out => Some (String c out) | None => None end
  end.

(** net/url.validEncoded *)
Fixpoint valid_encoded (m : mode) (s : string) : bool :=
  match s with
  | EmptyString => true
  | String c r =>
    (mem_bytes (byte c) [33; 36; 38; 39; 40; 41; 42; 43; 44; 59; 61; 58; 64; 91; 93; 37]   (* ! $ & ' ( ) * + , ; = : @ [ ] % *)
     || negb (should_escape m c)) && valid_encoded m r
  end.

(** * The URL record, without User and Host *)
Record url : Type := mk_url {
  u_scheme : string; u_opaque : string; u_path : string; u_rawpath : string;
  u_omithost : bool; u_forcequery : bool; u_rawquery : string;
  u_fragment : string; u_rawfragment : string }.

Definition url_of_path (p : string) : url :=
  mk_url EmptyString EmptyString p EmptyString false false EmptyString EmptyString EmptyString.

(** URL.setPath / URL.setFragment: (decoded, raw hint) *)
Definition set_escaped (m : mode) (p : string) : option (string * string) :=
  match unescape p with
  | Some path => Some (path, if String.eqb (escape m path) p then EmptyString else p)
  | None => None
  end.

(** URL.EscapedPath / URL.EscapedFragment *)
Definition escaped (m : mode) (decoded raw : string) : string :=
  if negb (str_empty raw) && valid_encoded m raw
     && match unescape raw with Some p => String.eqb p decoded | None => false end
  then raw
  else match m with
       | EncodePath => if String.eqb decoded "*" then "*"%string else escape m decoded
       | EncodeFragment => escape m decoded
       end.

(** strings.Cut(s, sep) for a one-byte separator: (before, after, found) *)
Fixpoint cut_byte (s : string) (sep : ascii) : string * string * bool :=
  match s with
  | EmptyString => (EmptyString, EmptyString, false)
  | String c r => if Ascii.eqb c sep then (EmptyString, r, true)
                  else let '(a, b, f) := cut_byte r sep in (String c a, b, f)
  end.

Definition first_segment_has_colon (p : string) : bool :=
  let '(seg, _, _) := cut_byte p "/" in contains seg ":".

(** URL.String, for a URL whose User is nil and whose Host is empty *)
Definition url_string (u : url) : string :=
  let scheme := if str_empty (u_scheme u) then EmptyString else (u_scheme u ++ ":")%string in
  let body :=
    if negb (str_empty (u_opaque u)) then u_opaque u
    else
      let auth := if negb (str_empty (u_scheme u)) && negb (u_omithost u) && negb (str_empty (u_path u))
                  then "//"%string else EmptyString in
      let path := escaped EncodePath (u_path u) (u_rawpath u) in
      let dot := if str_empty (u_scheme u) && first_segment_has_colon path then "./"%string else EmptyString in
      (auth ++ dot ++ path)%string in
  let query := if u_forcequery u || negb (str_empty (u_rawquery u)) then String "?" (u_rawquery u) else EmptyString in
  let frag := if str_empty (u_fragment u) then EmptyString
              else String "#" (escaped EncodeFragment (u_fragment u) (u_rawfragment u)) in
  (scheme ++ body ++ query ++ frag)%string.

(** internal.Href.String / MarshalText of Href{Path: p} *)
Definition href_marshal (p : string) : string := url_string (url_of_path p).

(** * url.Parse *)

(** net/url.stringContainsCTLByte *)
Fixpoint has_ctl (s : string) : bool :=
  match s with
  | EmptyString => false
  | String c r => (byte c <? 32) || (byte c =? 127) || has_ctl r
  end.

(** net/url.getScheme *)
Inductive scheme_scan : Type := SchemeErr | NoScheme | SchemeLen (n : nat).
Fixpoint get_scheme (first : bool) (s : string) : scheme_scan :=
  match s with
  | EmptyString => NoScheme
  | String c r =>
    let b := byte c in
    let continue := match get_scheme false r with SchemeLen n => SchemeLen (S n) | x => x end in
    if is_alpha b then continue
    else if is_num b || mem_bytes b [43; 45; 46] then (if first then NoScheme else continue)
    else if b =? 58 then (if first then SchemeErr else SchemeLen 0)
    else NoScheme
  end.

Definition to_lower_byte (c : ascii) : ascii :=
  if (65 <=? byte c) && (byte c <=? 90) then chr (byte c + 32) else c.
Fixpoint to_lower (s : string) : string :=
  match s with EmptyString => EmptyString | String c r => String (to_lower_byte c) (to_lower r) end.

Definition has_prefix (p s : string) : bool :=
  match strip_prefix p s with Some _ => true | None => false end.

(** what Parse yields: a URL without authority, or a URL whose authority text was
    handed to parseAuthority (not modelled) *)
Inductive hval : Type := HUrl (u : url) | HAuth (authority : string) (u : url).

(** net/url.parse(rawURL, false): the text before the first "#" *)
Definition parse_nofrag (raw : string) : option hval :=
  if has_ctl raw then None
  else if String.eqb raw "*" then Some (HUrl (url_of_path "*"))
  else
    match (match get_scheme true raw with
           | SchemeErr => None
           | NoScheme => Some (EmptyString, raw)
           | SchemeLen n => Some (to_lower (take_n n raw), drop (S n) raw)
           end) with
    | None => None
    | Some (scheme, rest0) =>
      let '(rest, after, found) := cut_byte rest0 "?" in
      let forcequery := found && str_empty after in
      let mk path rawpath opaque omit :=
        mk_url scheme opaque path rawpath omit forcequery after EmptyString EmptyString in
      if negb (has_prefix "/" rest) && negb (str_empty scheme) then
        Some (HUrl (mk EmptyString EmptyString rest false))
      else if negb (has_prefix "/" rest) && first_segment_has_colon rest then None
      else if (negb (str_empty scheme) || negb (has_prefix "///" rest)) && has_prefix "//" rest then
        let '(authority, tail, found_slash) := cut_byte (drop 2 rest) "/" in
        let rest' := if found_slash then String "/" tail else EmptyString in
        match set_escaped EncodePath rest' with
        | Some (path, rawpath) => Some (HAuth authority (mk path rawpath EmptyString false))
        | None => None
        end
      else
        let omit := negb (str_empty scheme) && has_prefix "/" rest in
        match set_escaped EncodePath rest with
        | Some (path, rawpath) => Some (HUrl (mk path rawpath EmptyString omit))
        | None => None
        end
    end.

Definition with_fragment (u : url) (f rf : string) : url :=
  mk_url (u_scheme u) (u_opaque u) (u_path u) (u_rawpath u) (u_omithost u) (u_forcequery u) (u_rawquery u) f rf.

(** net/url.Parse *)
Definition url_parse (raw : string) : option hval :=
  let '(u, frag, _) := cut_byte raw "#" in
  match parse_nofrag u with
  | None => None
  | Some v =>
    if str_empty frag then Some v
    else match set_escaped EncodeFragment frag with
         | None => None
         | Some (f, rf) => Some (match v with
                                 | HUrl x => HUrl (with_fragment x f rf)
                                 | HAuth a x => HAuth a (with_fragment x f rf)
                                 end)
         end
  end.

(** internal.Href.UnmarshalText *)
Definition href_unmarshal (b : string) : res hval :=
  match url_parse b with Some v => Ok v | None => plain_err end.

(** * Specification

    RFC 4918 8.3:   Simple-ref = absolute-URI | ( path-absolute [ "?" query ] )
    RFC 3986:       path-absolute = "/" [ segment-nz *( "/" segment ) ]
                    pchar = unreserved / pct-encoded / sub-delims / ":" / "@"
                    query = *( pchar / "/" / "?" )
    Only the second alternative is specified here; a text is in the scope of this
    specification when it has no scheme (RFC 3986 3.1) and does not start with "//".
    The value denoted is the percent-decoded path. *)

Definition spec_unreserved (b : N) : bool := is_alpha b || is_num b || mem_bytes b [45; 46; 95; 126].
Definition spec_sub_delim (b : N) : bool := mem_bytes b [33; 36; 38; 39; 40; 41; 42; 43; 44; 59; 61].
Definition spec_pchar_raw (b : N) : bool := spec_unreserved b || spec_sub_delim b || (b =? 58) || (b =? 64).

(** scheme = ALPHA *( ALPHA / DIGIT / "+" / "-" / "." ), followed by ":" *)
Fixpoint spec_scheme_tail (s : string) : bool :=
  match s with
  | EmptyString => false
  | String c r => if byte c =? 58 then true
                  else if is_alpha (byte c) || is_num (byte c) || mem_bytes (byte c) [43; 45; 46] then spec_scheme_tail r
                  else false
  end.
Definition spec_has_scheme (s : string) : bool :=
  match s with String c r => is_alpha (byte c) && spec_scheme_tail r | EmptyString => false end.

Definition href_scope (s : string) : bool := negb (spec_has_scheme s) && negb (has_prefix "//" s).

(** *( pchar / "/" / "?" ) with pct-encoded triplets checked *)
Fixpoint spec_query_ok (s : string) : bool :=
  match s with
  | EmptyString => true
  | String c r =>
    if Ascii.eqb c "%" then
      match r with
      | String a (String b r') => match unhex a, unhex b with Some _, Some _ => spec_query_ok r' | _, _ => false end
      | _ => false
      end
    else (spec_pchar_raw (byte c) || (byte c =? 47) || (byte c =? 63)) && spec_query_ok r
  end.

(** the characters of a path-absolute after its first "/", decoded; stops at "?" *)
Fixpoint spec_path_tail (s : string) : option string :=
  match s with
  | EmptyString => Some EmptyString
  | String c r =>
    if Ascii.eqb c "?" then (if spec_query_ok r then Some EmptyString else None)
    else if Ascii.eqb c "%" then
      match r with
      | String a (String b r') =>
          match unhex a, unhex b, spec_path_tail r' with
          | Some x, Some y, Some out => Some (String (chr (x * 16 + y)) out)
          | _, _, _ => None
          end
      | _ => None
      end
    else if spec_pchar_raw (byte c) || (byte c =? 47) then
      match spec_path_tail r with Some out => Some (String c out) | None => None end
    else None
  end.

(** the path a strict path-absolute [ "?" query ] denotes *)
Definition href_den (s : string) : option string :=
  match s with
  | String c r =>
    if Ascii.eqb c "/" && negb (has_prefix "/" r) then
      match spec_path_tail r with Some out => Some (String "/" out) | None => None end
    else None
  | EmptyString => None
  end.

(** The lenient reading url.Parse gives a text in scope (the recorded behaviour of the
    finding C16-href-lenient): any byte but a control character stands for itself in
    path and query, "%" must still introduce two hexadecimal digits in path and
    fragment, a fragment is allowed, the path need not be absolute (but its first
    segment must not contain ":"), "*" is a path.  [lax_den s = Some (path, fragment)] *)
Definition lax_path (u : string) : option string :=
  let '(p, _, _) := cut_byte u "?" in
  if negb (has_prefix "/" p) && first_segment_has_colon p then None else unescape p.
Definition lax_den (s : string) : option (string * string) :=
  let '(u, frag, _) := cut_byte s "#" in
  if has_ctl u then None
  else match lax_path u, unescape frag with
       | Some path, Some f => Some (path, f)
       | _, _ => None
       end.

(** * Verdicts *)

(** the domain of the round-trip clause: absolute paths whose first segment is not empty *)
Definition href_in_domain (p : string) : bool := has_prefix "/" p && negb (has_prefix "//" p).

Definition url_eqb (a b : url) : bool :=
  String.eqb (u_scheme a) (u_scheme b) && String.eqb (u_opaque a) (u_opaque b)
  && String.eqb (u_path a) (u_path b) && String.eqb (u_rawpath a) (u_rawpath b)
  && Bool.eqb (u_omithost a) (u_omithost b) && Bool.eqb (u_forcequery a) (u_forcequery b)
  && String.eqb (u_rawquery a) (u_rawquery b)
  && String.eqb (u_fragment a) (u_fragment b) && String.eqb (u_rawfragment a) (u_rawfragment b).

(** what the harness records of a decoded Href: whether User is set, Host, and the rest *)
Definition hobs : Type := (bool * string * url)%type.

Definition hobs_plain (o : hobs) : bool := let '(user, host, _) := o in negb user && str_empty host.

(** the model against an observation: a URL without authority must agree in every
    field; for a text with an authority the model does not know whether parseAuthority
    accepts it, nor User and Host *)
Definition href_obs_agrees (m : res hval) (o : obs hobs) : bool :=
  match m, o with
  | Ok (HUrl u), ObsOk (user, host, v) => negb user && str_empty host && url_eqb u v
  | Ok (HAuth _ u), ObsOk (_, _, v) => url_eqb u v
  | Ok (HAuth _ _), ObsErr => true
  | Err _, ObsErr => true
  | _, _ => false
  end.

(** the observation the model predicts (User and Host of a text with an authority are not
    determined by the model; such a text is never in the scope of the specification) *)
Definition hobs_of (r : res hval) : obs hobs :=
  match r with
  | Ok (HUrl x) => ObsOk (false, EmptyString, x)
  | Ok (HAuth _ x) => ObsOk (true, EmptyString, x)
  | Err _ => ObsErr
  | Panic => ObsPanic
  end.

(** (href-rt path): Href{Path: p}.MarshalText, then UnmarshalText *)
Definition href_rt_agrees (p : string) (omar : string) (oun : obs hobs) : bool :=
  String.eqb (href_marshal p) omar && href_obs_agrees (href_unmarshal omar) oun.
Definition href_rt_spec_ok (p : string) (omar : string) (oun : obs hobs) : bool :=
  if href_in_domain p then
    opt_eqb String.eqb (href_den omar) (Some p)
    && match oun with
       | ObsOk (user, host, v) => negb user && str_empty host && url_eqb v (url_of_path p)
       | _ => false
       end
  else match oun with ObsPanic => false | _ => true end.

(** (href-dec text): Href.UnmarshalText *)
Definition href_dec_agrees (b : string) (o : obs hobs) : bool := href_obs_agrees (href_unmarshal b) o.
Definition href_dec_spec_ok (b : string) (o : obs hobs) : bool :=
  if href_scope b then
    match href_den b, o with
    | Some p, ObsOk (user, host, v) =>
        negb user && str_empty host && str_empty (u_scheme v) && str_empty (u_opaque v) && String.eqb (u_path v) p
    | None, ObsErr => true
    | _, _ => false
    end
  else match o with ObsPanic => false | _ => true end.

(** known finding C16-href-lenient: a text in scope that is not a path-absolute
    [ "?" query ] is accepted, with the path and fragment of the lenient reading *)
Definition kf_href_lenient (b : string) (o : obs hobs) : bool :=
  href_scope b &&
  match o, href_den b, lax_den b with
  | ObsOk (user, host, v), None, Some (p, f) =>
      negb user && str_empty host && String.eqb (u_path v) p && String.eqb (u_fragment v) f
  | _, _, _ => false
  end.
