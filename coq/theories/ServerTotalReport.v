(** ServerTotalReport.v — C13, REPORT documents: from the RFC-level predicate on the XML
    tree ([malformed_report]) through the merging struct decoder to the 400.

    Shape of the argument, per wire struct X with decoder [um_X] and RFC predicate
    [rfc_X_bad]: for every accumulator and depth, decoding a bad element either fails
    or yields a value the decode* function of the server rejects ([rej]); for the
    structs that are unmarshalled into an existing value (repeated elements), being
    rejected is preserved by every further step ([..._mono]). *)
From GW Require Import Base GoPath ServerTotal ServerTotalProofs.
Local Open Scope N_scope.

(* ------------------------------------------------------------------ *)
(** * Generic lemmas                                                   *)

Fixpoint xtree_ind' (P : xtree -> Prop)
    (He : forall ns l a ks, Forall P ks -> P (XElem ns l a ks))
    (Ht : forall s, P (XText s)) (Ho : P XOther) (t : xtree) : P t :=
  match t with
  | XElem ns l a ks =>
    He ns l a ks ((fix go (l : list xtree) : Forall P l :=
                     match l with
                     | [] => Forall_nil _
                     | k :: r => Forall_cons k (xtree_ind' P He Ht Ho k) (go r)
                     end) ks)
  | XText s => Ht s
  | XOther => Ho
  end.

Lemma fold_opt_pres {A T} (P : T -> Prop) (f : T -> A -> option T) l :
  (forall a x a', In x l -> f a x = Some a' -> P a -> P a') ->
  forall acc acc', fold_opt f l acc = Some acc' -> P acc -> P acc'.
Proof.
  induction l as [|x l IH]; simpl; intros Hp acc acc' H Pa.
  - inversion H; subst; auto.
  - destruct (f acc x) eqn:E; [|discriminate].
    eapply IH; eauto.
Qed.

Lemma fold_opt_estab {A T} (P : T -> Prop) (f : T -> A -> option T) l x0 :
  (forall a x a', In x l -> f a x = Some a' -> P a -> P a') ->
  In x0 l -> (forall a a', f a x0 = Some a' -> P a') ->
  forall acc acc', fold_opt f l acc = Some acc' -> P acc'.
Proof.
  induction l as [|x l IH]; simpl; intros Hp I He acc acc' H; [contradiction|].
  destruct (f acc x) eqn:E; [|discriminate].
  destruct I as [->|I].
  - eapply fold_opt_pres; [|exact H|eapply He; eauto]. intros; eapply Hp; eauto.
  - eapply IH; eauto.
Qed.

Lemma um_struct_some {T} xn fa fk ft d (acc : T) ns l attrs kids v :
  um_struct xn fa fk ft d acc (XElem ns l attrs kids) = Some v ->
  exists a1 a2, fold_opt fa attrs acc = Some a1 /\ fold_opt fk kids a1 = Some a2 /\ v = ft a2 (chardata kids).
Proof.
  unfold um_struct, chk. destruct (MAXD <=? d); [discriminate|].
  destruct (name_ok xn ns l); [|discriminate].
  destruct (fold_opt fa attrs acc) as [a1|] eqn:E1; [|discriminate].
  destruct (fold_opt fk kids a1) as [a2|] eqn:E2; [|discriminate].
  intros H; inversion H. exists a1, a2. auto.
Qed.

Lemma um_struct_nonelem_none {T} xn fa fk ft d (acc : T) t v :
  um_struct xn fa fk ft d acc t = Some v -> exists ns l a ks, t = XElem ns l a ks.
Proof. destruct t; simpl; try discriminate. eauto. Qed.

Lemma into_flag_true d v : into_flag d = Some v -> v = true.
Proof. unfold into_flag, chk. destruct (MAXD <=? d + 1); intros H; inversion H; reflexivity. Qed.

Lemma kid_is_elem k ns l : kid_is k ns l = true -> exists a ks, k = XElem ns l a ks.
Proof.
  destruct k as [n l' a ks| |]; simpl; try discriminate. intros H.
  apply andb_true_iff in H. destruct H as [H1 H2]. apply String.eqb_eq in H1, H2. subst. eauto.
Qed.

Lemma forallb_false_exists {A} (f : A -> bool) l : forallb f l = false -> exists x, In x l /\ f x = false.
Proof.
  induction l as [|a l IH]; simpl; [discriminate|]. destruct (f a) eqn:E; simpl.
  - intros H. destruct (IH H) as (x & I & F). eauto.
  - intros _. eauto.
Qed.

Lemma existsb_in {A} (f : A -> bool) l : existsb f l = true -> exists x, In x l /\ f x = true.
Proof. apply existsb_exists. Qed.

Lemma some_kid_in t ns l p : some_kid t ns l p = true ->
  exists k, In k (kids_of t) /\ kid_is k ns l = true /\ p k = true.
Proof.
  unfold some_kid. intros H. apply existsb_exists in H. destruct H as (k & I & H).
  apply andb_true_iff in H. destruct H. eauto.
Qed.

Lemma has_kid_in t ns l : has_kid t ns l = true -> exists k, In k (kids_of t) /\ kid_is k ns l = true.
Proof. unfold has_kid. intros H. apply existsb_exists in H. exact H. Qed.

Lemma attr_bad_in ok name t : attr_bad ok name t = true ->
  exists a, In a (attrs_of t) /\ a_ns a = "" /\ bad_attr ok name a = true.
Proof.
  unfold attr_bad, bad_attr. intros H. apply existsb_exists in H. destruct H as (a & I & H).
  apply andb_true_iff in H. destruct H as [H H3]. apply andb_true_iff in H. destruct H as [H1 H2].
  apply str_empty_spec in H1. exists a. rewrite H2, H3. auto.
Qed.

(* ------------------------------------------------------------------ *)
(** * The two attribute-dropping maps keep what the RFC predicates look at *)

Fixpoint afilter (p : xattr -> bool) (t : xtree) : xtree :=
  match t with
  | XElem ns l attrs kids => XElem ns l (filter p attrs) (map (afilter p) kids)
  | _ => t
  end.

Definition keeps (p : xattr -> bool) : Prop :=
  forall a, a_ns a = "" -> a_local a <> "xmlns" -> p a = true.

Lemma drop_qualified_afilter t : drop_qualified t = afilter (fun a => str_empty (a_ns a)) t.
Proof.
  induction t as [ns l a ks IH| |] using xtree_ind'; simpl; try reflexivity.
  f_equal. induction IH; simpl; [reflexivity|]. f_equal; auto.
Qed.

Lemma strip_decls_afilter t : strip_decls t = afilter (fun a => negb (is_ns_decl a)) t.
Proof.
  induction t as [ns l a ks IH| |] using xtree_ind'; simpl; try reflexivity.
  f_equal. induction IH; simpl; [reflexivity|]. f_equal; auto.
Qed.

Lemma keeps_drop : keeps (fun a => str_empty (a_ns a)).
Proof. intros a H _. rewrite H. reflexivity. Qed.

Lemma keeps_strip : keeps (fun a => negb (is_ns_decl a)).
Proof.
  intros a H N. unfold is_ns_decl. rewrite H. simpl.
  destruct (String.eqb (a_local a) "xmlns") eqn:E; [apply String.eqb_eq in E; contradiction|reflexivity].
Qed.

Section AFilter.
  Variable p : xattr -> bool.
  Hypothesis K : keeps p.
  Let g := afilter p.

  Lemma af_kid_is k ns l : kid_is (g k) ns l = kid_is k ns l.
  Proof. destruct k; reflexivity. Qed.

  Lemma af_kids t : kids_of (g t) = map g (kids_of t).
  Proof. destruct t; reflexivity. Qed.

  Lemma af_chardata ks : chardata (map g ks) = chardata ks.
  Proof. induction ks as [|[| |] ks IH]; simpl; auto. f_equal; auto. Qed.

  Lemma af_has_kid t ns l : has_kid t ns l = true -> has_kid (g t) ns l = true.
  Proof.
    intros H. apply has_kid_in in H. destruct H as (k & I & H).
    unfold has_kid. rewrite af_kids. apply existsb_exists. exists (g k). split; [apply in_map; auto|].
    rewrite af_kid_is; auto.
  Qed.

  Lemma af_some_kid t ns l (P Q : xtree -> bool) :
    (forall k, In k (kids_of t) -> P k = true -> Q (g k) = true) ->
    some_kid t ns l P = true -> some_kid (g t) ns l Q = true.
  Proof.
    intros PQ H. apply some_kid_in in H. destruct H as (k & I & H1 & H2).
    unfold some_kid. rewrite af_kids. apply existsb_exists. exists (g k). split; [apply in_map; auto|].
    rewrite af_kid_is, H1. simpl. auto.
  Qed.

  Lemma af_attr_bad ok name t : name <> "xmlns" -> attr_bad ok name t = true -> attr_bad ok name (g t) = true.
  Proof.
    intros N H. apply attr_bad_in in H. destruct H as (a & I & H1 & H2).
    unfold attr_bad. destruct t as [ns l attrs ks| |]; simpl in *; try contradiction.
    apply existsb_exists. exists a. split.
    - apply filter_In. split; auto. apply K; auto.
      unfold bad_attr in H2. apply andb_true_iff in H2. destruct H2 as [H2 _]. apply String.eqb_eq in H2. congruence.
    - unfold bad_attr in H2. rewrite H1. simpl. exact H2.
  Qed.

  Lemma af_dates t : rfc_dates_bad t = true -> rfc_dates_bad (g t) = true.
  Proof.
    unfold rfc_dates_bad. intros H. apply orb_true_iff in H. apply orb_true_iff.
    destruct H as [H|H]; [left|right]; apply af_attr_bad; auto; discriminate.
  Qed.

  Lemma af_tm card t : rfc_tm_bad card t = true -> rfc_tm_bad card (g t) = true.
  Proof.
    unfold rfc_tm_bad. intros H. apply orb_true_iff in H. apply orb_true_iff.
    destruct H as [H|H]; [left; apply af_attr_bad; auto; discriminate|right].
    apply andb_true_iff in H. destruct H as [-> H]. simpl. apply af_attr_bad; auto; discriminate.
  Qed.

  Lemma af_paf card ns t : rfc_paf_bad card ns t = true -> rfc_paf_bad card ns (g t) = true.
  Proof.
    unfold rfc_paf_bad. intros H. apply orb_true_iff in H. apply orb_true_iff. destruct H as [H|H].
    - left. apply andb_true_iff in H. destruct H. apply andb_true_iff. split; apply af_has_kid; auto.
    - right. eapply af_some_kid; [|exact H]. intros; apply af_tm; auto.
  Qed.

  Lemma af_cpf t : rfc_cpf_bad t = true -> rfc_cpf_bad (g t) = true.
  Proof.
    unfold rfc_cpf_bad. intros H.
    apply orb_true_iff in H. destruct H as [H|H4].
    apply orb_true_iff in H. destruct H as [H|H3].
    apply orb_true_iff in H. destruct H as [H1|H2].
    - apply andb_true_iff in H1. destruct H1 as [A B].
      rewrite (af_has_kid _ _ _ A). simpl.
      apply orb_true_iff in B. destruct B as [B|B]; [apply orb_true_iff in B; destruct B as [B|B]|];
        rewrite (af_has_kid _ _ _ B); rewrite ?orb_true_r; reflexivity.
    - rewrite (af_some_kid _ _ _ _ rfc_dates_bad (fun k _ => af_dates k) H2). rewrite ?orb_true_r. reflexivity.
    - rewrite (af_some_kid _ _ _ _ (rfc_tm_bad false) (fun k _ => af_tm false k) H3). rewrite ?orb_true_r. reflexivity.
    - rewrite (af_some_kid _ _ _ _ (rfc_paf_bad false NS_CAL) (fun k _ => af_paf false NS_CAL k) H4). rewrite ?orb_true_r. reflexivity.
  Qed.

  Lemma af_cf t : rfc_cf_bad t = true -> rfc_cf_bad (g t) = true.
  Proof.
    induction t as [ns l a ks IH| |] using xtree_ind'; try discriminate.
    intros H. change (rfc_cf_bad (XElem ns l a ks)) with
      ((has_kid (XElem ns l a ks) NS_CAL "is-not-defined" &&
        (has_kid (XElem ns l a ks) NS_CAL "time-range" || has_kid (XElem ns l a ks) NS_CAL "prop-filter" || has_kid (XElem ns l a ks) NS_CAL "comp-filter")) ||
       some_kid (XElem ns l a ks) NS_CAL "time-range" rfc_dates_bad || some_kid (XElem ns l a ks) NS_CAL "prop-filter" rfc_cpf_bad ||
       some_kid (XElem ns l a ks) NS_CAL "comp-filter" rfc_cf_bad) in H.
    change (rfc_cf_bad (g (XElem ns l a ks))) with
      ((has_kid (g (XElem ns l a ks)) NS_CAL "is-not-defined" &&
        (has_kid (g (XElem ns l a ks)) NS_CAL "time-range" || has_kid (g (XElem ns l a ks)) NS_CAL "prop-filter" || has_kid (g (XElem ns l a ks)) NS_CAL "comp-filter")) ||
       some_kid (g (XElem ns l a ks)) NS_CAL "time-range" rfc_dates_bad || some_kid (g (XElem ns l a ks)) NS_CAL "prop-filter" rfc_cpf_bad ||
       some_kid (g (XElem ns l a ks)) NS_CAL "comp-filter" rfc_cf_bad).
    apply orb_true_iff in H. destruct H as [H|H4].
    apply orb_true_iff in H. destruct H as [H|H3].
    apply orb_true_iff in H. destruct H as [H1|H2].
    - apply andb_true_iff in H1. destruct H1 as [A B].
      rewrite (af_has_kid _ _ _ A). simpl.
      apply orb_true_iff in B. destruct B as [B|B]; [apply orb_true_iff in B; destruct B as [B|B]|];
        rewrite (af_has_kid _ _ _ B); rewrite ?orb_true_r; reflexivity.
    - rewrite (af_some_kid _ _ _ _ rfc_dates_bad (fun k _ => af_dates k) H2). rewrite ?orb_true_r. reflexivity.
    - rewrite (af_some_kid _ _ _ _ rfc_cpf_bad (fun k _ => af_cpf k) H3). rewrite ?orb_true_r. reflexivity.
    - assert (S : some_kid (g (XElem ns l a ks)) NS_CAL "comp-filter" rfc_cf_bad = true).
      { eapply af_some_kid; [|exact H4]. simpl. intros k I. rewrite Forall_forall in IH. apply IH; auto. }
      rewrite S. rewrite ?orb_true_r. reflexivity.
  Qed.
End AFilter.

(* ------------------------------------------------------------------ *)
(** * Decoders reject what the RFC predicates flag                     *)

(** [rej um D t]: whatever the accumulator and the depth, decoding [t] fails or
    yields a value satisfying [D] *)
Definition rej {T} (um : N -> T -> xtree -> option T) (D : T -> Prop) (t : xtree) : Prop :=
  forall d acc v, um d acc t = Some v -> D v.

Ltac step_cases H :=
  cbv beta in H;
  repeat match type of H with
         | (if ?c then _ else _) = Some _ => destruct c eqn:?
         | match ?x with Some _ => _ | None => _ end = Some _ => destruct x eqn:?; [|discriminate H]
         | chk _ _ = Some _ => unfold chk in H
         end;
  try discriminate H;
  try match type of H with Some _ = Some _ => inversion H; subst; clear H end.

Lemma tr_fails t : rfc_dates_bad t = true -> forall d acc, um_time_range d acc t = None /\ um_expand d acc t = None.
Proof.
  intros R d acc. unfold rfc_dates_bad in R.
  assert (exists a, In a (attrs_of t) /\ (bad_attr parse_utc_ok "start" a || bad_attr parse_utc_ok "end" a = true)) as (a & I & B).
  { apply orb_true_iff in R. destruct R as [R|R]; apply attr_bad_in in R; destruct R as (a & I & _ & B);
      exists a; rewrite B; rewrite ?orb_true_r; auto. }
  destruct t as [ns l attrs ks| |]; simpl in I; try contradiction.
  eapply time_range_invalid; eauto.
Qed.

Lemma tm_fails card tns t : rfc_tm_bad card t = true -> forall d acc, um_text_match card tns d acc t = None.
Proof.
  intros R d acc. unfold rfc_tm_bad in R.
  assert (exists a, In a (attrs_of t) /\
            (bad_attr yes_no_ok "negate-condition" a || (card && bad_attr match_type_ok "match-type" a) = true)) as (a & I & B).
  { apply orb_true_iff in R. destruct R as [R|R].
    - apply attr_bad_in in R. destruct R as (a & I & _ & B). exists a. rewrite B. auto.
    - apply andb_true_iff in R. destruct R as [-> R]. apply attr_bad_in in R. destruct R as (a & I & _ & B).
      exists a. rewrite B. rewrite orb_true_r. auto. }
  destruct t as [ns l attrs ks| |]; simpl in I; try contradiction.
  eapply text_match_invalid; eauto.
Qed.

Lemma decode_param_filter_false v : paf_ind v = true -> is_some (paf_tm v) = true -> decode_param_filter v = false.
Proof. unfold decode_param_filter. intros -> ->. reflexivity. Qed.

Lemma paf_rej card ns t : rfc_paf_bad card ns t = true ->
  rej (um_param_filter card ns) (fun v => decode_param_filter v = false) t.
Proof.
  intros R d acc v H. unfold um_param_filter in H.
  destruct (um_struct_nonelem_none _ _ _ _ _ _ _ _ H) as (n & l & a & ks & ->).
  apply um_struct_some in H. destruct H as (a1 & a2 & H1 & H2 & ->). unfold no_text.
  assert (PI : forall a0 x a', In x ks ->
            (if kid_local x "is-not-defined"
             then match into_flag d with
                  | Some v => Some {| paf_name := paf_name a0; paf_ind := v; paf_tm := paf_tm a0 |} | None => None end
             else if kid_local x "text-match"
                  then match into_ptr (um_text_match card ns) text_match_zero d (paf_tm a0) x with
                       | Some v => Some {| paf_name := paf_name a0; paf_ind := paf_ind a0; paf_tm := v |} | None => None end
                  else Some a0) = Some a' -> paf_ind a0 = true -> paf_ind a' = true).
  { intros a0 x a' _ H P. step_cases H; simpl; auto. apply into_flag_true in Heqo. auto. }
  assert (PT : forall a0 x a', In x ks ->
            (if kid_local x "is-not-defined"
             then match into_flag d with
                  | Some v => Some {| paf_name := paf_name a0; paf_ind := v; paf_tm := paf_tm a0 |} | None => None end
             else if kid_local x "text-match"
                  then match into_ptr (um_text_match card ns) text_match_zero d (paf_tm a0) x with
                       | Some v => Some {| paf_name := paf_name a0; paf_ind := paf_ind a0; paf_tm := v |} | None => None end
                  else Some a0) = Some a' -> is_some (paf_tm a0) = true -> is_some (paf_tm a') = true).
  { intros a0 x a' _ H P. step_cases H; simpl; auto.
    unfold into_ptr in Heqo. destruct (um_text_match _ _ _ _ _); inversion Heqo; reflexivity. }
  unfold rfc_paf_bad in R. apply orb_true_iff in R. destruct R as [R|R].
  - apply andb_true_iff in R. destruct R as [R1 R2].
    apply has_kid_in in R1. destruct R1 as (k1 & I1 & K1). apply has_kid_in in R2. destruct R2 as (k2 & I2 & K2).
    simpl in I1, I2. apply kid_is_elem in K1. destruct K1 as (a' & ks' & ->). apply kid_is_elem in K2. destruct K2 as (a'' & ks'' & ->).
    apply decode_param_filter_false.
    + revert H2. apply (fold_opt_estab (fun v => paf_ind v = true)) with (x0 := XElem ns "is-not-defined" a' ks'); auto.
      intros a0 a0' H. simpl in H. step_cases H. simpl. apply into_flag_true in Heqo. auto.
    + revert H2. apply (fold_opt_estab (fun v => is_some (paf_tm v) = true)) with (x0 := XElem ns "text-match" a'' ks''); auto.
      intros a0 a0' H. simpl in H. step_cases H. simpl.
      unfold into_ptr in Heqo. destruct (um_text_match _ _ _ _ _); inversion Heqo; reflexivity.
  - exfalso. apply some_kid_in in R. destruct R as (k & I & K & B). simpl in I.
    apply kid_is_elem in K. destruct K as (a' & ks' & ->).
    rewrite (fold_opt_fails _ ks (XElem ns "text-match" a' ks') I) in H2; [discriminate|].
    intros a0. simpl. unfold into_ptr. rewrite tm_fails; auto.
Qed.

Lemma into_ptr_some {U} (um : N -> U -> xtree -> option U) z d cur k v :
  into_ptr um z d cur k = Some v -> is_some v = true.
Proof. unfold into_ptr. destruct (um _ _ _); intros H; inversion H; reflexivity. Qed.

Lemma into_ptr_inv {U} (um : N -> U -> xtree -> option U) z d cur k v :
  into_ptr um z d cur k = Some v ->
  exists u, v = Some u /\ um (d + 1) (match cur with Some c => c | None => z end) k = Some u.
Proof. unfold into_ptr. destruct (um _ _ _) eqn:E; intros H; inversion H; eauto. Qed.

Lemma into_slice_in {U} (um : N -> U -> xtree -> option U) z d cur k v :
  into_slice um z d cur k = Some v -> exists u, um (d + 2) z k = Some u /\ v = (cur ++ [u])%list.
Proof.
  unfold into_slice, chk. destruct (MAXD <=? d + 1); [discriminate|].
  destruct (um _ _ _) eqn:E; intros H; inversion H; eauto.
Qed.

Lemma nonempty_app {A} (l : list A) x : nonempty (l ++ [x])%list = true.
Proof. destruct l; reflexivity. Qed.

Ltac fin :=
  simpl in *;
  repeat match goal with
         | H : into_flag _ = Some _ |- _ => apply into_flag_true in H; subst
         | H : into_ptr _ _ _ _ _ = Some _ |- _ => apply into_ptr_some in H
         | H : into_slice _ _ _ _ _ = Some _ |- _ => apply into_slice_in in H; destruct H as (? & ? & ->)
         end;
  simpl; rewrite ?nonempty_app; auto.

(** ** CalDAV prop-filter *)

Definition cpfD (v : cpropFilterW) : Prop :=
  (cpf_ind v = true /\ is_some (cpf_tm v) || is_some (cpf_tr v) || nonempty (cpf_params v) = true) \/
  (exists p, In p (cpf_params v) /\ decode_param_filter p = false).

Lemma cpfD_false v : cpfD v -> decode_cprop_filter v = false.
Proof.
  unfold decode_cprop_filter. intros [[A B]|(p & I & F)].
  - rewrite A, B. reflexivity.
  - destruct (cpf_ind v && _); [reflexivity|]. eapply forallb_false_in; eauto.
Qed.

Lemma cpf_rej t : rfc_cpf_bad t = true -> rej um_cprop_filter (fun v => decode_cprop_filter v = false) t.
Proof.
  intros R d acc v H. apply cpfD_false. unfold um_cprop_filter in H.
  destruct (um_struct_nonelem_none _ _ _ _ _ _ _ _ H) as (n & l & a & ks & ->).
  apply um_struct_some in H. destruct H as (a1 & a2 & H1 & H2 & ->). unfold no_text.
  unfold rfc_cpf_bad in R.
  apply orb_true_iff in R. destruct R as [R|R4].
  apply orb_true_iff in R. destruct R as [R|R3].
  apply orb_true_iff in R. destruct R as [R1|R2].
  - left. apply andb_true_iff in R1. destruct R1 as [RI RO].
    apply has_kid_in in RI. destruct RI as (k1 & I1 & K1). simpl in I1.
    apply kid_is_elem in K1. destruct K1 as (a' & ks' & ->). split.
    + revert H2. apply (fold_opt_estab (fun v => cpf_ind v = true)) with (x0 := XElem NS_CAL "is-not-defined" a' ks'); auto.
      * intros a0 x a0' _ H P. step_cases H; fin.
      * intros a0 a0' H. simpl in H. step_cases H; fin.
    + apply orb_true_iff in RO. destruct RO as [RO|RO]; [apply orb_true_iff in RO; destruct RO as [RO|RO]|];
        apply has_kid_in in RO; destruct RO as (k2 & I2 & K2); simpl in I2;
        apply kid_is_elem in K2; destruct K2 as (a'' & ks'' & ->).
      * assert (X : is_some (cpf_tr a2) = true); [|rewrite X; rewrite ?orb_true_r; reflexivity].
        revert H2. apply (fold_opt_estab (fun v => is_some (cpf_tr v) = true)) with (x0 := XElem NS_CAL "time-range" a'' ks''); auto.
        -- intros a0 x a0' _ H P. step_cases H; fin.
        -- intros a0 a0' H. simpl in H. step_cases H; fin.
      * assert (X : is_some (cpf_tm a2) = true); [|rewrite X; reflexivity].
        revert H2. apply (fold_opt_estab (fun v => is_some (cpf_tm v) = true)) with (x0 := XElem NS_CAL "text-match" a'' ks''); auto.
        -- intros a0 x a0' _ H P. step_cases H; fin.
        -- intros a0 a0' H. simpl in H. step_cases H; fin.
      * assert (X : nonempty (cpf_params a2) = true); [|rewrite X; rewrite ?orb_true_r; reflexivity].
        revert H2. apply (fold_opt_estab (fun v => nonempty (cpf_params v) = true)) with (x0 := XElem NS_CAL "param-filter" a'' ks''); auto.
        -- intros a0 x a0' _ H P. step_cases H; fin.
        -- intros a0 a0' H. simpl in H. step_cases H; fin.
  - exfalso. apply some_kid_in in R2. destruct R2 as (k & I & K & B). simpl in I.
    apply kid_is_elem in K. destruct K as (a' & ks' & ->).
    rewrite (fold_opt_fails _ ks (XElem NS_CAL "time-range" a' ks') I) in H2; [discriminate|].
    intros a0. simpl. unfold into_ptr. rewrite (proj1 (tr_fails _ B _ _)). reflexivity.
  - exfalso. apply some_kid_in in R3. destruct R3 as (k & I & K & B). simpl in I.
    apply kid_is_elem in K. destruct K as (a' & ks' & ->).
    rewrite (fold_opt_fails _ ks (XElem NS_CAL "text-match" a' ks') I) in H2; [discriminate|].
    intros a0. simpl. unfold into_ptr. rewrite tm_fails; auto.
  - right. apply some_kid_in in R4. destruct R4 as (k & I & K & B). simpl in I.
    apply kid_is_elem in K. destruct K as (a' & ks' & ->).
    revert H2. apply (fold_opt_estab (fun v => exists p, In p (cpf_params v) /\ decode_param_filter p = false))
                 with (x0 := XElem NS_CAL "param-filter" a' ks'); auto.
    + intros a0 x a0' _ H (p & Ip & Fp). step_cases H; fin; try (exists p; split; auto; apply in_or_app; auto).
    + intros a0 a0' H. simpl in H. step_cases H. fin.
      exists x. split; [apply in_or_app; right; left; reflexivity|]. eapply paf_rej; eauto.
Qed.

(** ** CalDAV comp-filter (recursive; the top one is unmarshalled into the existing value) *)

Definition cf_astep (acc : compFilterW) (a : xattr) : option compFilterW :=
  match acc with CompFilterW n i tr pfs cfs =>
    if String.eqb (a_local a) "name" then Some (CompFilterW (a_val a) i tr pfs cfs) else Some acc end.

Definition cf_kstep (d : N) (acc : compFilterW) (k : xtree) : option compFilterW :=
  match acc with CompFilterW n i tr pfs cfs =>
    if kid_local k "is-not-defined" then
      match into_flag d with Some v => Some (CompFilterW n v tr pfs cfs) | None => None end
    else if kid_local k "time-range" then
      match into_ptr um_time_range time_range_zero d tr k with
      | Some v => Some (CompFilterW n i v pfs cfs) | None => None end
    else if kid_local k "prop-filter" then
      match into_slice um_cprop_filter cprop_filter_zero d pfs k with
      | Some v => Some (CompFilterW n i tr v cfs) | None => None end
    else if kid_local k "comp-filter" then
      chk (d + 1) (match um_comp_filter (d + 2) comp_filter_zero k with
                   | Some x => Some (CompFilterW n i tr pfs (cfs ++ [x])%list) | None => None end)
    else Some acc end.

Lemma um_comp_filter_eq d acc t :
  um_comp_filter d acc t = um_struct (Some (NS_CAL, "comp-filter")) cf_astep (cf_kstep d) no_text d acc t.
Proof. destruct t; reflexivity. Qed.

Definition cfD (v : compFilterW) : Prop :=
  match v with CompFilterW n i tr pfs cfs =>
    (i = true /\ is_some tr || nonempty pfs || nonempty cfs = true) \/
    (exists p, In p pfs /\ decode_cprop_filter p = false) \/
    (exists c, In c cfs /\ decode_comp_filter c = false)
  end.

Lemma cfD_iff v : decode_comp_filter v = false <-> cfD v.
Proof.
  destruct v as [n i tr pfs cfs]. simpl. split.
  - destruct (i && (is_some tr || nonempty pfs || nonempty cfs)) eqn:E.
    + intros _. left. apply andb_true_iff in E. destruct E as [-> E]. auto.
    + intros H. apply andb_false_iff in H. destruct H as [H|H]; apply forallb_false_exists in H; eauto.
  - intros [[-> B]|[(p & I & F)|(c & I & F)]].
    + rewrite B. reflexivity.
    + destruct (i && _); [reflexivity|]. rewrite (forallb_false_in _ _ _ I F). reflexivity.
    + destruct (i && _); [reflexivity|]. rewrite (forallb_false_in _ _ _ I F). apply andb_false_r.
Qed.

Lemma cf_astep_pres a0 x a' : cf_astep a0 x = Some a' -> cfD a0 -> cfD a'.
Proof.
  destruct a0 as [n i tr pfs cfs]. simpl. destruct (String.eqb (a_local x) "name"); intros H; inversion H; auto.
Qed.

Lemma cf_kstep_pres d a0 x a' : cf_kstep d a0 x = Some a' -> cfD a0 -> cfD a'.
Proof.
  destruct a0 as [n i tr pfs cfs]. unfold cf_kstep. intros H D. step_cases H; auto; simpl in *.
  - apply into_flag_true in Heqo. subst. destruct D as [[_ B]|D]; auto.
  - apply into_ptr_some in Heqo. destruct D as [[A B]|D]; auto. left. split; auto. rewrite Heqo. reflexivity.
  - apply into_slice_in in Heqo. destruct Heqo as (u & _ & ->).
    destruct D as [[A B]|[(p & I & F)|D]]; auto.
    + left. split; auto. rewrite nonempty_app. rewrite orb_true_r. reflexivity.
    + right. left. exists p. split; auto. apply in_or_app; auto.
  - destruct D as [[A B]|[D|(c0 & I & F)]]; auto.
    + left. split; auto. rewrite nonempty_app. rewrite ?orb_true_r. reflexivity.
    + right. right. exists c0. split; auto. apply in_or_app; auto.
Qed.

Lemma cf_mono d acc t v :
  um_comp_filter d acc t = Some v -> decode_comp_filter acc = false -> decode_comp_filter v = false.
Proof.
  rewrite um_comp_filter_eq. intros H D. apply cfD_iff in D. apply cfD_iff.
  destruct (um_struct_nonelem_none _ _ _ _ _ _ _ _ H) as (n & l & a & ks & ->).
  apply um_struct_some in H. destruct H as (a1 & a2 & H1 & H2 & ->). unfold no_text.
  eapply fold_opt_pres; [|exact H2|]; [intros; eapply cf_kstep_pres; eauto|].
  eapply fold_opt_pres; [|exact H1|exact D]. intros; eapply cf_astep_pres; eauto.
Qed.

Opaque um_comp_filter.
Lemma cf_rej t : rfc_cf_bad t = true -> rej um_comp_filter (fun v => decode_comp_filter v = false) t.
Proof.
  induction t as [ns l a ks IH| |] using xtree_ind'; try discriminate.
  intros R d acc v H. apply cfD_iff. rewrite um_comp_filter_eq in H.
  apply um_struct_some in H. destruct H as (a1 & a2 & H1 & H2 & ->). unfold no_text.
  change (rfc_cf_bad (XElem ns l a ks)) with
      ((has_kid (XElem ns l a ks) NS_CAL "is-not-defined" &&
        (has_kid (XElem ns l a ks) NS_CAL "time-range" || has_kid (XElem ns l a ks) NS_CAL "prop-filter" || has_kid (XElem ns l a ks) NS_CAL "comp-filter")) ||
       some_kid (XElem ns l a ks) NS_CAL "time-range" rfc_dates_bad || some_kid (XElem ns l a ks) NS_CAL "prop-filter" rfc_cpf_bad ||
       some_kid (XElem ns l a ks) NS_CAL "comp-filter" rfc_cf_bad) in R.
  assert (PRES : forall a0 x a', In x ks -> cf_kstep d a0 x = Some a' -> cfD a0 -> cfD a')
    by (intros; eapply cf_kstep_pres; eauto).
  apply orb_true_iff in R. destruct R as [R|R4].
  apply orb_true_iff in R. destruct R as [R|R3].
  apply orb_true_iff in R. destruct R as [R1|R2].
  - (* is-not-defined with a sibling *)
    apply andb_true_iff in R1. destruct R1 as [RI RO].
    apply has_kid_in in RI. destruct RI as (k1 & I1 & K1). simpl in I1.
    apply kid_is_elem in K1. destruct K1 as (a' & ks' & ->).
    assert (XI : match a2 with CompFilterW _ i _ _ _ => i = true end).
    { revert H2. apply (fold_opt_estab (fun v => match v with CompFilterW _ i _ _ _ => i = true end))
                   with (x0 := XElem NS_CAL "is-not-defined" a' ks'); auto.
      - intros [n0 i0 tr0 p0 c0] x a0' _ H P. unfold cf_kstep in H. step_cases H; fin.
      - intros [n0 i0 tr0 p0 c0] a0' H. simpl in H. step_cases H; fin. }
    assert (XO : match a2 with CompFilterW _ _ tr pfs cfs => is_some tr || nonempty pfs || nonempty cfs = true end).
    { apply orb_true_iff in RO. destruct RO as [RO|RO]; [apply orb_true_iff in RO; destruct RO as [RO|RO]|];
        apply has_kid_in in RO; destruct RO as (k2 & I2 & K2); simpl in I2;
        apply kid_is_elem in K2; destruct K2 as (a'' & ks'' & ->).
      - assert (X : match a2 with CompFilterW _ _ tr _ _ => is_some tr = true end);
          [|destruct a2; rewrite X; reflexivity].
        revert H2. apply (fold_opt_estab (fun v => match v with CompFilterW _ _ tr _ _ => is_some tr = true end))
                     with (x0 := XElem NS_CAL "time-range" a'' ks''); auto.
        + intros [n0 i0 tr0 p0 c0] x a0' _ H P. unfold cf_kstep in H. step_cases H; fin.
        + intros [n0 i0 tr0 p0 c0] a0' H. simpl in H. step_cases H; fin.
      - assert (X : match a2 with CompFilterW _ _ _ pfs _ => nonempty pfs = true end);
          [|destruct a2; rewrite X; rewrite ?orb_true_r; reflexivity].
        revert H2. apply (fold_opt_estab (fun v => match v with CompFilterW _ _ _ pfs _ => nonempty pfs = true end))
                     with (x0 := XElem NS_CAL "prop-filter" a'' ks''); auto.
        + intros [n0 i0 tr0 p0 c0] x a0' _ H P. unfold cf_kstep in H. step_cases H; fin.
        + intros [n0 i0 tr0 p0 c0] a0' H. simpl in H. step_cases H; fin.
      - assert (X : match a2 with CompFilterW _ _ _ _ cfs => nonempty cfs = true end);
          [|destruct a2; rewrite X; rewrite ?orb_true_r; reflexivity].
        revert H2. apply (fold_opt_estab (fun v => match v with CompFilterW _ _ _ _ cfs => nonempty cfs = true end))
                     with (x0 := XElem NS_CAL "comp-filter" a'' ks''); auto.
        + intros [n0 i0 tr0 p0 c0] x a0' _ H P. unfold cf_kstep in H. step_cases H; fin.
        + intros [n0 i0 tr0 p0 c0] a0' H. simpl in H. step_cases H; fin. }
    destruct a2. left. auto.
  - exfalso. apply some_kid_in in R2. destruct R2 as (k & I & K & B). simpl in I.
    apply kid_is_elem in K. destruct K as (a' & ks' & ->).
    rewrite (fold_opt_fails _ ks (XElem NS_CAL "time-range" a' ks') I) in H2; [discriminate|].
    intros [n0 i0 tr0 p0 c0]. simpl. unfold into_ptr. rewrite (proj1 (tr_fails _ B _ _)). reflexivity.
  - apply some_kid_in in R3. destruct R3 as (k & I & K & B). simpl in I.
    apply kid_is_elem in K. destruct K as (a' & ks' & ->).
    revert H2. apply (fold_opt_estab cfD) with (x0 := XElem NS_CAL "prop-filter" a' ks'); auto.
    intros [n0 i0 tr0 p0 c0] a0' H. simpl in H. step_cases H.
    apply into_slice_in in Heqo. destruct Heqo as (u & U & ->). simpl.
    right. left. exists u. split; [apply in_or_app; right; left; reflexivity|]. exact (cpf_rej _ B _ _ _ U).
  - apply some_kid_in in R4. destruct R4 as (k & I & K & B). simpl in I.
    pose proof K as K'. apply kid_is_elem in K. destruct K as (a' & ks' & ->).
    rewrite Forall_forall in IH. pose proof (IH _ I B) as RJ.
    revert H2. apply (fold_opt_estab cfD) with (x0 := XElem NS_CAL "comp-filter" a' ks'); auto.
    intros [n0 i0 tr0 p0 c0] a0' H. simpl in H. step_cases H. simpl.
    right. right. exists c. split; [apply in_or_app; right; left; reflexivity|].
    match goal with H : um_comp_filter _ _ _ = Some c |- _ => exact (RJ _ _ _ H) end.
Qed.
Transparent um_comp_filter.

(** ** filter and calendar-query: the filter part *)

Definition cfbad (v : compFilterW) : Prop := decode_comp_filter v = false.

Lemma cal_filter_mono d acc f v : um_cal_filter d acc f = Some v -> cfbad acc -> cfbad v.
Proof.
  unfold um_cal_filter. intros H D.
  destruct (um_struct_nonelem_none _ _ _ _ _ _ _ _ H) as (n & l & a & ks & ->).
  apply um_struct_some in H. destruct H as (a1 & a2 & H1 & H2 & ->). unfold no_text.
  eapply fold_opt_pres; [|exact H2|].
  - intros a0 x a0' _ H P. step_cases H; auto. eapply cf_mono; eauto.
  - eapply fold_opt_pres; [|exact H1|exact D]. intros a0 x a0' _ H P. inversion H; subst; auto.
Qed.

Lemma cal_filter_rej f : some_kid f NS_CAL "comp-filter" rfc_cf_bad = true -> rej um_cal_filter cfbad f.
Proof.
  intros R d acc v H. unfold um_cal_filter in H.
  destruct (um_struct_nonelem_none _ _ _ _ _ _ _ _ H) as (n & l & a & ks & ->).
  apply um_struct_some in H. destruct H as (a1 & a2 & H1 & H2 & ->). unfold no_text.
  apply some_kid_in in R. destruct R as (k & I & K & B). simpl in I.
  apply kid_is_elem in K. destruct K as (a' & ks' & ->).
  revert H2. apply (fold_opt_estab cfbad) with (x0 := XElem NS_CAL "comp-filter" a' ks'); auto.
  - intros a0 x a0' _ H P. step_cases H; auto. eapply cf_mono; eauto.
  - intros a0 a0' H. change (um_comp_filter (d + 1) a0 (XElem NS_CAL "comp-filter" a' ks') = Some a0') in H.
    exact (cf_rej _ B _ _ _ H).
Qed.

Definition cal_query_kstep (d : N) (acc : calQueryW) (k : xtree) : option calQueryW :=
  match um_sel d (cq_sel acc) k with
  | None => None
  | Some (Some s) => Some {| cq_sel := s; cq_filter := cq_filter acc |}
  | Some None =>
    if kid_local k "filter" then
      match um_cal_filter (d + 1) (cq_filter acc) k with
      | Some f => Some {| cq_sel := cq_sel acc; cq_filter := f |} | None => None end
    else Some acc
  end.

Lemma um_cal_query_eq d acc t :
  um_cal_query d acc t = um_struct (Some (NS_CAL, "calendar-query")) no_attr (cal_query_kstep d) no_text d acc t.
Proof. reflexivity. Qed.

Lemma um_sel_foreign d s k ns l a ks :
  k = XElem ns l a ks -> String.eqb ns NS_DAV = false -> um_sel d s k = Some None.
Proof. intros -> E. unfold um_sel, kid_is. rewrite E. reflexivity. Qed.

Lemma cal_query_filter_rej t :
  some_kid t NS_CAL "filter" (fun f => some_kid f NS_CAL "comp-filter" rfc_cf_bad) = true ->
  rej um_cal_query (fun q => cfbad (cq_filter q)) t.
Proof.
  intros R d acc v H. rewrite um_cal_query_eq in H.
  destruct (um_struct_nonelem_none _ _ _ _ _ _ _ _ H) as (n & l & a & ks & ->).
  apply um_struct_some in H. destruct H as (a1 & a2 & H1 & H2 & ->). unfold no_text.
  apply some_kid_in in R. destruct R as (k & I & K & B). simpl in I.
  apply kid_is_elem in K. destruct K as (a' & ks' & ->).
  revert H2. apply (fold_opt_estab (fun q => cfbad (cq_filter q))) with (x0 := XElem NS_CAL "filter" a' ks'); auto.
  - intros a0 x a0' _ H P. unfold cal_query_kstep in H.
    destruct (um_sel d (cq_sel a0) x) as [[s|]|]; [inversion H; subst; auto| |discriminate].
    step_cases H; auto. simpl.
    match goal with E : um_cal_filter _ _ _ = Some _ |- _ => exact (cal_filter_mono _ _ _ _ E P) end.
  - intros a0 a0' H. unfold cal_query_kstep in H.
    rewrite (um_sel_foreign d (cq_sel a0) _ NS_CAL "filter" a' ks' eq_refl eq_refl) in H.
    change (kid_local (XElem NS_CAL "filter" a' ks') "filter") with true in H.
    step_cases H; try discriminate. simpl.
    match goal with E : um_cal_filter _ _ _ = Some _ |- _ => exact (cal_filter_rej _ B _ _ _ E) end.
Qed.

(** ** calendar-data: comp (recursive, the top one merges), expand *)

Definition comp_astep (acc : compW) (a : xattr) : option compW :=
  match acc with CompW n ap ps ac cs =>
    if String.eqb (a_local a) "name" then Some (CompW (a_val a) ap ps ac cs) else Some acc end.

Definition comp_kstep (d : N) (acc : compW) (k : xtree) : option compW :=
  match acc with CompW n ap ps ac cs =>
    if kid_local k "allprop" then
      match into_flag d with Some v => Some (CompW n v ps ac cs) | None => None end
    else if kid_local k "prop" then
      match into_slice (um_named NS_CAL "prop") "" d ps k with
      | Some v => Some (CompW n ap v ac cs) | None => None end
    else if kid_local k "allcomp" then
      match into_flag d with Some v => Some (CompW n ap ps v cs) | None => None end
    else if kid_local k "comp" then
      chk (d + 1) (match um_comp (d + 2) comp_zero k with
                   | Some x => Some (CompW n ap ps ac (cs ++ [x])%list) | None => None end)
    else Some acc end.

Lemma um_comp_eq d acc t :
  um_comp d acc t = um_struct (Some (NS_CAL, "comp")) comp_astep (comp_kstep d) no_text d acc t.
Proof. destruct t; reflexivity. Qed.

Definition compD (v : compW) : Prop :=
  match v with CompW n ap ps ac cs =>
    (ap = true /\ nonempty ps = true) \/ (ac = true /\ nonempty cs = true) \/
    (exists c, In c cs /\ decode_comp c = false)
  end.

Lemma compD_iff v : decode_comp v = false <-> compD v.
Proof.
  destruct v as [n ap ps ac cs]. simpl. split.
  - destruct (ap && nonempty ps) eqn:E1.
    + intros _. apply andb_true_iff in E1. auto.
    + destruct (ac && nonempty cs) eqn:E2.
      * intros _. apply andb_true_iff in E2. auto.
      * intros H. apply forallb_false_exists in H. auto.
  - intros [[-> ->]|[[-> ->]|(c & I & F)]].
    + reflexivity.
    + destruct (ap && nonempty ps); reflexivity.
    + destruct (ap && nonempty ps); [reflexivity|]. destruct (ac && nonempty cs); [reflexivity|].
      eapply forallb_false_in; eauto.
Qed.

Lemma comp_astep_pres a0 x a' : comp_astep a0 x = Some a' -> compD a0 -> compD a'.
Proof.
  destruct a0 as [n ap ps ac cs]. simpl. destruct (String.eqb (a_local x) "name"); intros H; inversion H; auto.
Qed.

Opaque um_comp.
Lemma comp_kstep_pres d a0 x a' : comp_kstep d a0 x = Some a' -> compD a0 -> compD a'.
Proof.
  destruct a0 as [n ap ps ac cs]. unfold comp_kstep. intros H D. step_cases H; auto; simpl in *.
  - apply into_flag_true in Heqo. subst. destruct D as [[_ B]|D]; auto.
  - apply into_slice_in in Heqo. destruct Heqo as (u & _ & ->).
    destruct D as [[A B]|D]; auto. left. split; auto. apply nonempty_app.
  - apply into_flag_true in Heqo. subst. destruct D as [D|[[_ B]|D]]; auto.
  - destruct D as [D|[[A B]|(c0 & I & F)]]; auto.
    + right. left. split; auto. apply nonempty_app.
    + right. right. exists c0. split; auto. apply in_or_app; auto.
Qed.

Lemma comp_mono d acc t v : um_comp d acc t = Some v -> decode_comp acc = false -> decode_comp v = false.
Proof.
  rewrite um_comp_eq. intros H D. apply compD_iff in D. apply compD_iff.
  destruct (um_struct_nonelem_none _ _ _ _ _ _ _ _ H) as (n & l & a & ks & ->).
  apply um_struct_some in H. destruct H as (a1 & a2 & H1 & H2 & ->). unfold no_text.
  eapply fold_opt_pres; [|exact H2|]; [intros; eapply comp_kstep_pres; eauto|].
  eapply fold_opt_pres; [|exact H1|exact D]. intros; eapply comp_astep_pres; eauto.
Qed.

Lemma comp_rej t : rfc_comp_bad t = true -> rej um_comp (fun v => decode_comp v = false) t.
Proof.
  induction t as [ns l a ks IH| |] using xtree_ind'; try discriminate.
  intros R d acc v H. apply compD_iff. rewrite um_comp_eq in H.
  apply um_struct_some in H. destruct H as (a1 & a2 & H1 & H2 & ->). unfold no_text.
  change (rfc_comp_bad (XElem ns l a ks)) with
      ((has_kid (XElem ns l a ks) NS_CAL "allprop" && has_kid (XElem ns l a ks) NS_CAL "prop") ||
       (has_kid (XElem ns l a ks) NS_CAL "allcomp" && has_kid (XElem ns l a ks) NS_CAL "comp") ||
       some_kid (XElem ns l a ks) NS_CAL "comp" rfc_comp_bad) in R.
  assert (PRES : forall a0 x a', In x ks -> comp_kstep d a0 x = Some a' -> compD a0 -> compD a')
    by (intros; eapply comp_kstep_pres; eauto).
  apply orb_true_iff in R. destruct R as [R|R3].
  apply orb_true_iff in R. destruct R as [R1|R2].
  - apply andb_true_iff in R1. destruct R1 as [RA RB].
    apply has_kid_in in RA. destruct RA as (k1 & I1 & K1). simpl in I1.
    apply kid_is_elem in K1. destruct K1 as (a' & ks' & ->).
    apply has_kid_in in RB. destruct RB as (k2 & I2 & K2). simpl in I2.
    apply kid_is_elem in K2. destruct K2 as (a'' & ks'' & ->).
    assert (X1 : match a2 with CompW _ ap _ _ _ => ap = true end).
    { revert H2. apply (fold_opt_estab (fun v => match v with CompW _ ap _ _ _ => ap = true end))
                   with (x0 := XElem NS_CAL "allprop" a' ks'); auto.
      - intros [n0 ap0 ps0 ac0 cs0] x a0' _ H P. unfold comp_kstep in H. step_cases H; fin.
      - intros [n0 ap0 ps0 ac0 cs0] a0' H. simpl in H. step_cases H; fin. }
    assert (X2 : match a2 with CompW _ _ ps _ _ => nonempty ps = true end).
    { revert H2. apply (fold_opt_estab (fun v => match v with CompW _ _ ps _ _ => nonempty ps = true end))
                   with (x0 := XElem NS_CAL "prop" a'' ks''); auto.
      - intros [n0 ap0 ps0 ac0 cs0] x a0' _ H P. unfold comp_kstep in H. step_cases H; fin.
      - intros [n0 ap0 ps0 ac0 cs0] a0' H. simpl in H. step_cases H; fin. }
    destruct a2. left. auto.
  - apply andb_true_iff in R2. destruct R2 as [RA RB].
    apply has_kid_in in RA. destruct RA as (k1 & I1 & K1). simpl in I1.
    apply kid_is_elem in K1. destruct K1 as (a' & ks' & ->).
    apply has_kid_in in RB. destruct RB as (k2 & I2 & K2). simpl in I2.
    apply kid_is_elem in K2. destruct K2 as (a'' & ks'' & ->).
    assert (X1 : match a2 with CompW _ _ _ ac _ => ac = true end).
    { revert H2. apply (fold_opt_estab (fun v => match v with CompW _ _ _ ac _ => ac = true end))
                   with (x0 := XElem NS_CAL "allcomp" a' ks'); auto.
      - intros [n0 ap0 ps0 ac0 cs0] x a0' _ H P. unfold comp_kstep in H. step_cases H; fin.
      - intros [n0 ap0 ps0 ac0 cs0] a0' H. simpl in H. step_cases H; fin. }
    assert (X2 : match a2 with CompW _ _ _ _ cs => nonempty cs = true end).
    { revert H2. apply (fold_opt_estab (fun v => match v with CompW _ _ _ _ cs => nonempty cs = true end))
                   with (x0 := XElem NS_CAL "comp" a'' ks''); auto.
      - intros [n0 ap0 ps0 ac0 cs0] x a0' _ H P. unfold comp_kstep in H. step_cases H; fin.
      - intros [n0 ap0 ps0 ac0 cs0] a0' H. simpl in H. step_cases H; fin. }
    destruct a2. right. left. auto.
  - apply some_kid_in in R3. destruct R3 as (k & I & K & B). simpl in I.
    apply kid_is_elem in K. destruct K as (a' & ks' & ->).
    rewrite Forall_forall in IH. pose proof (IH _ I B) as RJ.
    revert H2. apply (fold_opt_estab compD) with (x0 := XElem NS_CAL "comp" a' ks'); auto.
    intros [n0 ap0 ps0 ac0 cs0] a0' H. simpl in H. step_cases H. simpl.
    right. right. exists c. split; [apply in_or_app; right; left; reflexivity|].
    match goal with H : um_comp _ _ _ = Some c |- _ => exact (RJ _ _ _ H) end.
Qed.
Transparent um_comp.

Lemma af_comp p t : rfc_comp_bad t = true -> rfc_comp_bad (afilter p t) = true.
Proof.
  induction t as [ns l a ks IH| |] using xtree_ind'; try discriminate.
  intros R.
  change (rfc_comp_bad (XElem ns l a ks)) with
      ((has_kid (XElem ns l a ks) NS_CAL "allprop" && has_kid (XElem ns l a ks) NS_CAL "prop") ||
       (has_kid (XElem ns l a ks) NS_CAL "allcomp" && has_kid (XElem ns l a ks) NS_CAL "comp") ||
       some_kid (XElem ns l a ks) NS_CAL "comp" rfc_comp_bad) in R.
  change (rfc_comp_bad (afilter p (XElem ns l a ks))) with
      ((has_kid (afilter p (XElem ns l a ks)) NS_CAL "allprop" && has_kid (afilter p (XElem ns l a ks)) NS_CAL "prop") ||
       (has_kid (afilter p (XElem ns l a ks)) NS_CAL "allcomp" && has_kid (afilter p (XElem ns l a ks)) NS_CAL "comp") ||
       some_kid (afilter p (XElem ns l a ks)) NS_CAL "comp" rfc_comp_bad).
  apply orb_true_iff in R. destruct R as [R|R3].
  apply orb_true_iff in R. destruct R as [R1|R2].
  - apply andb_true_iff in R1. destruct R1 as [A B].
    rewrite (af_has_kid p _ _ _ A), (af_has_kid p _ _ _ B). reflexivity.
  - apply andb_true_iff in R2. destruct R2 as [A B].
    rewrite (af_has_kid p _ _ _ A), (af_has_kid p _ _ _ B). rewrite ?orb_true_r. reflexivity.
  - assert (S : some_kid (afilter p (XElem ns l a ks)) NS_CAL "comp" rfc_comp_bad = true).
    { eapply af_some_kid; [|exact R3]. simpl. intros k I. rewrite Forall_forall in IH. apply IH; auto. }
    rewrite S. rewrite ?orb_true_r. reflexivity.
Qed.

(** ** calendar-data *)

Definition rfc_cd_bad (cd : xtree) : bool :=
  some_kid cd NS_CAL "expand" rfc_dates_bad || some_kid cd NS_CAL "comp" rfc_comp_bad.

Definition cdbad (v : calDataW) : Prop := exists c, cd_comp v = Some c /\ decode_comp c = false.

Lemma cdbad_false v : cdbad v -> decode_cal_data_req v = false.
Proof. intros (c & E & F). unfold decode_cal_data_req. rewrite E. exact F. Qed.

Lemma cal_data_rej cd : rfc_cd_bad cd = true -> rej um_cal_data cdbad cd.
Proof.
  intros R d acc v H. unfold um_cal_data in H.
  destruct (um_struct_nonelem_none _ _ _ _ _ _ _ _ H) as (n & l & a & ks & ->).
  apply um_struct_some in H. destruct H as (a1 & a2 & H1 & H2 & ->). unfold no_text.
  unfold rfc_cd_bad in R. apply orb_true_iff in R. destruct R as [R|R].
  - exfalso. apply some_kid_in in R. destruct R as (k & I & K & B). simpl in I.
    apply kid_is_elem in K. destruct K as (a' & ks' & ->).
    rewrite (fold_opt_fails _ ks (XElem NS_CAL "expand" a' ks') I) in H2; [discriminate|].
    intros a0. simpl. unfold into_ptr. rewrite (proj2 (tr_fails _ B _ _)). reflexivity.
  - apply some_kid_in in R. destruct R as (k & I & K & B). simpl in I.
    apply kid_is_elem in K. destruct K as (a' & ks' & ->).
    revert H2. apply (fold_opt_estab cdbad) with (x0 := XElem NS_CAL "comp" a' ks'); auto.
    + intros a0 x a0' _ H (c & E & F). step_cases H; simpl.
      * apply into_ptr_inv in Heqo. destruct Heqo as (u & -> & U). rewrite E in U.
        exists u. split; auto. eapply comp_mono; eauto.
      * exists c. auto.
      * exists c. auto.
    + intros a0 a0' H. simpl in H. step_cases H; try discriminate. simpl.
      apply into_ptr_inv in Heqo. destruct Heqo as (u & -> & U).
      exists u. split; auto. exact (comp_rej _ B _ _ _ U).
Qed.

(** ** what ends up in the Raw list of DAV:prop *)

Definition rawof (k : xtree) : rawval := RawTok (strip_decls k).
Definition rl (o : option (list rawval)) : list rawval := match o with Some l => l | None => [] end.
Definition props_of_kid (k : xtree) : list xtree :=
  if kid_is k NS_DAV "prop" then filter is_elem (kids_of k) else [].

Lemma raws_fold d ks : forall acc v,
  fold_opt (fun (acc : list rawval) (k : xtree) =>
              match k with
              | XElem _ _ _ _ => chk (d + 2) (Some (acc ++ [RawTok (strip_decls k)])%list)
              | _ => Some acc
              end) ks acc = Some v ->
  v = (acc ++ map rawof (filter is_elem ks))%list.
Proof.
  induction ks as [|k ks IH]; simpl; intros acc v H.
  - inversion H. rewrite app_nil_r. reflexivity.
  - destruct k as [n l a kk| |]; simpl.
    + destruct (chk (d + 2) (Some (acc ++ [RawTok (strip_decls (XElem n l a kk))])%list)) as [x|] eqn:C; [|discriminate].
      assert (x = (acc ++ [RawTok (strip_decls (XElem n l a kk))])%list).
      { unfold chk in C. destruct (MAXD <=? d + 2); inversion C; reflexivity. }
      subst x. apply IH in H. rewrite H, <- app_assoc. reflexivity.
    + apply IH in H. exact H.
    + apply IH in H. exact H.
Qed.

Lemma um_raws_ok local d acc t v :
  um_raws local d acc t = Some v -> v = (acc ++ map rawof (filter is_elem (kids_of t)))%list.
Proof.
  unfold um_raws. intros H.
  destruct (um_struct_nonelem_none _ _ _ _ _ _ _ _ H) as (n & l & a & ks & ->).
  apply um_struct_some in H. destruct H as (a1 & a2 & H1 & H2 & ->). unfold no_text. simpl.
  assert (a1 = acc).
  { clear H2. revert acc a1 H1. induction a as [|x a IH]; simpl; intros acc0 a1 H; [inversion H; auto|]. apply IH in H. auto. }
  subst a1. apply raws_fold in H2. exact H2.
Qed.

Lemma um_sel_raws d s k r :
  um_sel d s k = Some r ->
  rl (s_prop (match r with Some s' => s' | None => s end)) = (rl (s_prop s) ++ map rawof (props_of_kid k))%list.
Proof.
  unfold um_sel, props_of_kid. destruct (kid_is k NS_DAV "prop") eqn:E1.
  - intros H. step_cases H. simpl. apply into_ptr_inv in Heqo. destruct Heqo as (u & -> & U).
    apply um_raws_ok in U. simpl. rewrite U. destruct (s_prop s); reflexivity.
  - intros H. step_cases H; simpl; rewrite app_nil_r; reflexivity.
Qed.

Lemma cal_query_raws d ks : forall acc v,
  fold_opt (cal_query_kstep d) ks acc = Some v ->
  rl (s_prop (cq_sel v)) = (rl (s_prop (cq_sel acc)) ++ map rawof (flat_map props_of_kid ks))%list.
Proof.
  induction ks as [|k ks IH]; simpl; intros acc v H.
  - inversion H. rewrite app_nil_r. reflexivity.
  - destruct (cal_query_kstep d acc k) as [a1|] eqn:E; [|discriminate].
    apply IH in H. rewrite H. rewrite map_app, app_assoc. f_equal.
    unfold cal_query_kstep in E. destruct (um_sel d (cq_sel acc) k) as [r|] eqn:S; [|discriminate].
    pose proof (um_sel_raws _ _ _ _ S) as Q. destruct r as [s'|].
    + inversion E; subst. exact Q.
    + step_cases E; exact Q.
Qed.

Definition multiget_kstep (url_ok : string -> bool) (d : N) (acc : multigetW) (k : xtree) : option multigetW :=
  match um_sel d (mg_sel acc) k with
  | None => None
  | Some (Some s) => Some {| mg_sel := s; mg_hrefs := mg_hrefs acc |}
  | Some None =>
    if kid_is k NS_DAV "href" then
      match into_slice (um_href url_ok) "" d (mg_hrefs acc) k with
      | Some v => Some {| mg_sel := mg_sel acc; mg_hrefs := v |} | None => None end
    else Some acc
  end.

Lemma um_multiget_eq ns l u d acc t :
  um_multiget ns l u d acc t = um_struct (Some (ns, l)) no_attr (multiget_kstep u d) no_text d acc t.
Proof. reflexivity. Qed.

Lemma multiget_raws u d ks : forall acc v,
  fold_opt (multiget_kstep u d) ks acc = Some v ->
  rl (s_prop (mg_sel v)) = (rl (s_prop (mg_sel acc)) ++ map rawof (flat_map props_of_kid ks))%list.
Proof.
  induction ks as [|k ks IH]; simpl; intros acc v H.
  - inversion H. rewrite app_nil_r. reflexivity.
  - destruct (multiget_kstep u d acc k) as [a1|] eqn:E; [|discriminate].
    apply IH in H. rewrite H. rewrite map_app, app_assoc. f_equal.
    unfold multiget_kstep in E. destruct (um_sel d (mg_sel acc) k) as [r|] eqn:S; [|discriminate].
    pose proof (um_sel_raws _ _ _ _ S) as Q. destruct r as [s'|].
    + inversion E; subst. exact Q.
    + step_cases E; exact Q.
Qed.

Lemma no_attr_fold {T} (a : list xattr) (acc a1 : T) : fold_opt no_attr a acc = Some a1 -> a1 = acc.
Proof. revert acc. induction a; simpl; intros acc H; [inversion H; auto|]. apply IHa in H. auto. Qed.

Lemma report_props_eq t : report_props t = flat_map props_of_kid (kids_of t).
Proof. reflexivity. Qed.

Lemma prop_get_map l ns loc :
  prop_get (map rawof l) ns loc = option_map rawof (find (fun k => kid_is k ns loc) l).
Proof.
  induction l as [|k l IH]; simpl; [reflexivity|].
  replace (kid_is (strip_decls k) ns loc) with (kid_is k ns loc) by (destruct k; reflexivity).
  destruct (kid_is k ns loc); [reflexivity|exact IH].
Qed.

Lemma af_report_props p t : report_props (afilter p t) = map (afilter p) (report_props t).
Proof.
  rewrite !report_props_eq, af_kids. induction (kids_of t) as [|k ks IH]; simpl; [reflexivity|].
  rewrite map_app, IH. f_equal. unfold props_of_kid. rewrite af_kid_is.
  destruct (kid_is k NS_DAV "prop"); [|reflexivity]. rewrite af_kids.
  induction (kids_of k) as [|x xs IHx]; simpl; [reflexivity|].
  replace (is_elem (afilter p x)) with (is_elem x) by (destruct x; reflexivity).
  destruct (is_elem x); simpl; rewrite IHx; reflexivity.
Qed.

Lemma find_map_af p l ns loc :
  find (fun k => kid_is k ns loc) (map (afilter p) l) = option_map (afilter p) (find (fun k => kid_is k ns loc) l).
Proof.
  induction l as [|k l IH]; simpl; [reflexivity|]. rewrite af_kid_is.
  destruct (kid_is k ns loc); [reflexivity|exact IH].
Qed.

Lemma af_cd p (K : keeps p) cd : rfc_cd_bad cd = true -> rfc_cd_bad (afilter p cd) = true.
Proof.
  unfold rfc_cd_bad. intros H. apply orb_true_iff in H. apply orb_true_iff. destruct H as [H|H]; [left|right].
  - eapply af_some_kid; [|exact H]. intros; apply af_dates; auto.
  - eapply af_some_kid; [|exact H]. intros; apply af_comp; auto.
Qed.

(** ** CalDAV REPORT: from the tree to the 400 *)

Lemma cal_data_of_prop_bad s root cd :
  rl (s_prop s) = map rawof (report_props root) ->
  report_data root NS_CAL "calendar-data" = Some cd -> rfc_cd_bad cd = true ->
  cal_data_of_prop s = Ok false.
Proof.
  intros RL RD B. unfold report_data in RD.
  assert (PG : prop_get (rl (s_prop s)) NS_CAL "calendar-data" = Some (rawof cd)).
  { rewrite RL, prop_get_map, RD. reflexivity. }
  unfold cal_data_of_prop. destruct (s_prop s) as [raws|]; simpl in PG; [|discriminate].
  rewrite PG. unfold rawof. simpl.
  assert (B' : rfc_cd_bad (strip_decls cd) = true).
  { rewrite strip_decls_afilter. apply af_cd; auto. apply keeps_strip. }
  destruct (um_cal_data 0 cal_data_zero (strip_decls cd)) as [v|] eqn:E; [|reflexivity].
  rewrite (cdbad_false _ (cal_data_rej _ B' _ _ _ E)). reflexivity.
Qed.

Lemma rfc_cal_data_bad_inv root : rfc_cal_data_bad root = true ->
  exists cd, report_data root NS_CAL "calendar-data" = Some cd /\ rfc_cd_bad cd = true.
Proof.
  unfold rfc_cal_data_bad. destruct (report_data root NS_CAL "calendar-data") as [cd|]; [|discriminate].
  intros H. exists cd. split; auto.
Qed.

Lemma af_report_data p root ns l cd :
  report_data root ns l = Some cd -> report_data (afilter p root) ns l = Some (afilter p cd).
Proof. unfold report_data. intros H. rewrite af_report_props, find_map_af, H. reflexivity. Qed.

Lemma cal_query_decoded_bad root q :
  rfc_cal_data_bad root || some_kid root NS_CAL "filter" (fun f => some_kid f NS_CAL "comp-filter" rfc_cf_bad) = true ->
  um_cal_query 0 cal_query_zero (drop_qualified root) = Some q ->
  cal_data_of_prop (cq_sel q) = Ok false \/ decode_comp_filter (cq_filter q) = false.
Proof.
  intros R H. rewrite drop_qualified_afilter in H. apply orb_true_iff in R. destruct R as [R|R].
  - left. apply rfc_cal_data_bad_inv in R. destruct R as (cd & RD & B).
    eapply cal_data_of_prop_bad with (root := afilter _ root).
    + rewrite um_cal_query_eq in H.
      destruct (um_struct_nonelem_none _ _ _ _ _ _ _ _ H) as (n & l & a & ks & E).
      rewrite E in H. apply um_struct_some in H. destruct H as (a1 & a2 & H1 & H2 & ->). unfold no_text.
      apply no_attr_fold in H1. subst a1. apply cal_query_raws in H2. rewrite H2. simpl.
      rewrite report_props_eq, E. reflexivity.
    + apply af_report_data. exact RD.
    + apply af_cd; auto. apply keeps_drop.
  - right. eapply (cal_query_filter_rej (afilter _ root)); [|exact H].
    eapply af_some_kid; [|exact R]. intros f _ F. simpl in F.
    eapply af_some_kid; [|exact F]. intros k _ Bk. apply af_cf; auto. apply keeps_drop.
Qed.

Lemma cal_multiget_decoded_bad u root m :
  rfc_cal_data_bad root = true ->
  um_multiget NS_CAL "calendar-multiget" u 0 multiget_zero (drop_qualified root) = Some m ->
  cal_data_of_prop (mg_sel m) = Ok false.
Proof.
  intros R H. rewrite drop_qualified_afilter in H.
  apply rfc_cal_data_bad_inv in R. destruct R as (cd & RD & B).
  eapply cal_data_of_prop_bad with (root := afilter _ root).
  - rewrite um_multiget_eq in H.
    destruct (um_struct_nonelem_none _ _ _ _ _ _ _ _ H) as (n & l & a & ks & E).
    rewrite E in H. apply um_struct_some in H. destruct H as (a1 & a2 & H1 & H2 & ->). unfold no_text.
    apply no_attr_fold in H1. subst a1. apply multiget_raws in H2. rewrite H2. simpl.
    rewrite report_props_eq, E. reflexivity.
  - apply af_report_data. exact RD.
  - apply af_cd; auto. apply keeps_drop.
Qed.

Theorem cal_report_bad_400 env r root :
  r_xml r = XTree root -> rfc_cal_report_bad root = true -> cal_handle_report env r = bad_request.
Proof.
  intros X R. unfold cal_handle_report, decode_xml_request. rewrite X.
  destruct (negb (is_content_xml r)); [reflexivity|].
  unfold um_cal_report, chk. change (MAXD <=? 0) with false. cbv iota.
  unfold rfc_cal_report_bad in R.
  destruct (kid_is root NS_CAL "calendar-query").
  - destruct (um_cal_query 0 cal_query_zero (drop_qualified root)) as [q|] eqn:E; [|reflexivity].
    apply cal_query_rejected. eapply cal_query_decoded_bad; eauto.
  - destruct (kid_is root NS_CAL "calendar-multiget"); [|discriminate].
    destruct (um_multiget NS_CAL "calendar-multiget" (r_url_ok r) 0 multiget_zero (drop_qualified root)) as [m|] eqn:E; [|reflexivity].
    apply cal_multiget_rejected. eapply cal_multiget_decoded_bad; eauto.
Qed.

(* ------------------------------------------------------------------ *)
(** * CardDAV                                                          *)

Definition apfD (v : apropFilterW) : Prop :=
  (apf_ind v = true /\ nonempty (apf_tms v) || nonempty (apf_params v) = true) \/
  (exists p, In p (apf_params v) /\ decode_param_filter p = false).

Lemma apfD_false v : apfD v -> decode_aprop_filter v = false.
Proof.
  unfold decode_aprop_filter. intros [[A B]|(p & I & F)].
  - rewrite A, B. reflexivity.
  - destruct (apf_ind v && _); [reflexivity|]. eapply forallb_false_in; eauto.
Qed.

Lemma apf_rej t : rfc_apf_bad t = true -> rej um_aprop_filter (fun v => decode_aprop_filter v = false) t.
Proof.
  intros R d acc v H. apply apfD_false.
  destruct (um_struct_nonelem_none _ _ _ _ _ _ _ _ H) as (n & l & a & ks & ->).
  unfold rfc_apf_bad in R.
  apply orb_true_iff in R. destruct R as [R|R4].
  apply orb_true_iff in R. destruct R as [R|R3].
  apply orb_true_iff in R. destruct R as [R0|R1].
  - exfalso. apply attr_bad_in in R0. destruct R0 as (x & I & _ & B). simpl in I.
    rewrite (proj2 (card_test_invalid d n l a ks x I B) acc) in H. discriminate.
  - unfold um_aprop_filter in H.
    apply um_struct_some in H. destruct H as (a1 & a2 & H1 & H2 & ->). unfold no_text.
    left. apply andb_true_iff in R1. destruct R1 as [RI RO].
    apply has_kid_in in RI. destruct RI as (k1 & I1 & K1). simpl in I1.
    apply kid_is_elem in K1. destruct K1 as (a' & ks' & ->). split.
    + revert H2. apply (fold_opt_estab (fun v => apf_ind v = true)) with (x0 := XElem NS_CARD "is-not-defined" a' ks'); auto.
      * intros a0 x a0' _ H P. step_cases H; fin.
      * intros a0 a0' H. simpl in H. step_cases H; fin.
    + apply orb_true_iff in RO. destruct RO as [RO|RO];
        apply has_kid_in in RO; destruct RO as (k2 & I2 & K2); simpl in I2;
        apply kid_is_elem in K2; destruct K2 as (a'' & ks'' & ->).
      * assert (X : nonempty (apf_tms a2) = true); [|rewrite X; reflexivity].
        revert H2. apply (fold_opt_estab (fun v => nonempty (apf_tms v) = true)) with (x0 := XElem NS_CARD "text-match" a'' ks''); auto.
        -- intros a0 x a0' _ H P. step_cases H; fin.
        -- intros a0 a0' H. simpl in H. step_cases H; fin.
      * assert (X : nonempty (apf_params a2) = true); [|rewrite X; rewrite ?orb_true_r; reflexivity].
        revert H2. apply (fold_opt_estab (fun v => nonempty (apf_params v) = true)) with (x0 := XElem NS_CARD "param-filter" a'' ks''); auto.
        -- intros a0 x a0' _ H P. step_cases H; fin.
        -- intros a0 a0' H. simpl in H. step_cases H; fin.
  - exfalso. unfold um_aprop_filter in H.
    apply um_struct_some in H. destruct H as (a1 & a2 & H1 & H2 & ->).
    apply some_kid_in in R3. destruct R3 as (k & I & K & B). simpl in I.
    apply kid_is_elem in K. destruct K as (a' & ks' & ->).
    rewrite (fold_opt_fails _ ks (XElem NS_CARD "text-match" a' ks') I) in H2; [discriminate|].
    intros a0. simpl. unfold into_slice, chk. destruct (MAXD <=? d + 1); [reflexivity|]. rewrite tm_fails; auto.
  - unfold um_aprop_filter in H.
    apply um_struct_some in H. destruct H as (a1 & a2 & H1 & H2 & ->). unfold no_text.
    right. apply some_kid_in in R4. destruct R4 as (k & I & K & B). simpl in I.
    apply kid_is_elem in K. destruct K as (a' & ks' & ->).
    revert H2. apply (fold_opt_estab (fun v => exists p, In p (apf_params v) /\ decode_param_filter p = false))
                 with (x0 := XElem NS_CARD "param-filter" a' ks'); auto.
    + intros a0 x a0' _ H (p & Ip & Fp). step_cases H; fin; try (exists p; split; auto; apply in_or_app; auto).
    + intros a0 a0' H. simpl in H. step_cases H. fin.
      exists x. split; [apply in_or_app; right; left; reflexivity|].
      match goal with E : um_param_filter _ _ _ _ _ = Some x |- _ => exact (paf_rej _ _ _ B _ _ _ E) end.
Qed.

Definition afbad (v : cardFilterW) : Prop := forallb decode_aprop_filter (af_props v) = false.

Lemma afbad_iff v : afbad v <-> exists p, In p (af_props v) /\ decode_aprop_filter p = false.
Proof.
  unfold afbad. split; [apply forallb_false_exists|]. intros (p & I & F). eapply forallb_false_in; eauto.
Qed.

Lemma card_filter_mono d acc f v : um_card_filter d acc f = Some v -> afbad acc -> afbad v.
Proof.
  unfold um_card_filter. intros H D. apply afbad_iff in D. apply afbad_iff.
  destruct (um_struct_nonelem_none _ _ _ _ _ _ _ _ H) as (n & l & a & ks & ->).
  apply um_struct_some in H. destruct H as (a1 & a2 & H1 & H2 & ->). unfold no_text.
  eapply (fold_opt_pres (fun v => exists p, In p (af_props v) /\ decode_aprop_filter p = false)); [|exact H2|].
  - intros a0 x a0' _ H (p & I & F). step_cases H; fin; exists p; split; auto. apply in_or_app; auto.
  - eapply (fold_opt_pres (fun v => exists p, In p (af_props v) /\ decode_aprop_filter p = false)); [|exact H1|exact D].
    intros a0 x a0' _ H P. step_cases H; fin.
Qed.

Lemma card_filter_rej f : rfc_card_filter_bad f = true -> rej um_card_filter afbad f.
Proof.
  intros R d acc v H. apply afbad_iff.
  destruct (um_struct_nonelem_none _ _ _ _ _ _ _ _ H) as (n & l & a & ks & ->).
  unfold rfc_card_filter_bad in R. apply orb_true_iff in R. destruct R as [R|R].
  - exfalso. apply attr_bad_in in R. destruct R as (x & I & _ & B). simpl in I.
    rewrite (proj1 (card_test_invalid d n l a ks x I B) acc) in H. discriminate.
  - unfold um_card_filter in H.
    apply um_struct_some in H. destruct H as (a1 & a2 & H1 & H2 & ->). unfold no_text.
    apply some_kid_in in R. destruct R as (k & I & K & B). simpl in I.
    apply kid_is_elem in K. destruct K as (a' & ks' & ->).
    revert H2. apply (fold_opt_estab (fun v => exists p, In p (af_props v) /\ decode_aprop_filter p = false))
                 with (x0 := XElem NS_CARD "prop-filter" a' ks'); auto.
    + intros a0 x a0' _ H (p & Ip & Fp). step_cases H; fin; exists p; split; auto. apply in_or_app; auto.
    + intros a0 a0' H. simpl in H. step_cases H. fin.
      exists x. split; [apply in_or_app; right; left; reflexivity|].
      match goal with E : um_aprop_filter _ _ _ = Some x |- _ => exact (apf_rej _ B _ _ _ E) end.
Qed.

Lemma limit_fails t : rfc_limit_bad t = true -> forall d acc, um_limit d acc t = None.
Proof.
  intros R d acc. unfold rfc_limit_bad in R. apply some_kid_in in R. destruct R as (k & I & K & B).
  apply kid_is_elem in K. destruct K as (a' & ks' & ->). simpl in B. apply negb_true_iff in B.
  destruct t as [ns l a ks| |]; simpl in I; try contradiction.
  eapply limit_invalid; eauto. destruct (parse_uint (chardata ks')); [discriminate|reflexivity].
Qed.

Definition card_query_kstep (d : N) (acc : cardQueryW) (k : xtree) : option cardQueryW :=
  match um_sel d (aq_sel acc) k with
  | None => None
  | Some (Some s) => Some {| aq_sel := s; aq_filter := aq_filter acc; aq_limit := aq_limit acc |}
  | Some None =>
    if kid_local k "filter" then
      match um_card_filter (d + 1) (aq_filter acc) k with
      | Some f => Some {| aq_sel := aq_sel acc; aq_filter := f; aq_limit := aq_limit acc |} | None => None end
    else if kid_local k "limit" then
      match into_ptr um_limit 0 d (aq_limit acc) k with
      | Some l => Some {| aq_sel := aq_sel acc; aq_filter := aq_filter acc; aq_limit := l |} | None => None end
    else Some acc
  end.

Lemma um_card_query_eq d acc t :
  um_card_query d acc t = um_struct (Some (NS_CARD, "addressbook-query")) no_attr (card_query_kstep d) no_text d acc t.
Proof. reflexivity. Qed.

Lemma card_query_raws d ks : forall acc v,
  fold_opt (card_query_kstep d) ks acc = Some v ->
  rl (s_prop (aq_sel v)) = (rl (s_prop (aq_sel acc)) ++ map rawof (flat_map props_of_kid ks))%list.
Proof.
  induction ks as [|k ks IH]; simpl; intros acc v H.
  - inversion H. rewrite app_nil_r. reflexivity.
  - destruct (card_query_kstep d acc k) as [a1|] eqn:E; [|discriminate].
    apply IH in H. rewrite H. rewrite map_app, app_assoc. f_equal.
    unfold card_query_kstep in E. destruct (um_sel d (aq_sel acc) k) as [r|] eqn:S; [|discriminate].
    pose proof (um_sel_raws _ _ _ _ S) as Q. destruct r as [s'|].
    + inversion E; subst. exact Q.
    + step_cases E; exact Q.
Qed.

Lemma card_query_filter_rej t :
  some_kid t NS_CARD "filter" rfc_card_filter_bad = true ->
  rej um_card_query (fun q => afbad (aq_filter q)) t.
Proof.
  intros R d acc v H. rewrite um_card_query_eq in H.
  destruct (um_struct_nonelem_none _ _ _ _ _ _ _ _ H) as (n & l & a & ks & ->).
  apply um_struct_some in H. destruct H as (a1 & a2 & H1 & H2 & ->). unfold no_text.
  apply some_kid_in in R. destruct R as (k & I & K & B). simpl in I.
  apply kid_is_elem in K. destruct K as (a' & ks' & ->).
  revert H2. apply (fold_opt_estab (fun q => afbad (aq_filter q))) with (x0 := XElem NS_CARD "filter" a' ks'); auto.
  - intros a0 x a0' _ H P. unfold card_query_kstep in H.
    destruct (um_sel d (aq_sel a0) x) as [[s|]|]; [inversion H; subst; auto| |discriminate].
    step_cases H; auto. simpl.
    match goal with E : um_card_filter _ _ _ = Some _ |- _ => exact (card_filter_mono _ _ _ _ E P) end.
  - intros a0 a0' H. unfold card_query_kstep in H.
    rewrite (um_sel_foreign d (aq_sel a0) _ NS_CARD "filter" a' ks' eq_refl eq_refl) in H.
    change (kid_local (XElem NS_CARD "filter" a' ks') "filter") with true in H.
    step_cases H; try discriminate. simpl.
    match goal with E : um_card_filter _ _ _ = Some _ |- _ => exact (card_filter_rej _ B _ _ _ E) end.
Qed.

Lemma card_query_limit_fails t :
  some_kid t NS_CARD "limit" rfc_limit_bad = true -> forall d acc, um_card_query d acc t = None.
Proof.
  intros R d acc. destruct (um_card_query d acc t) as [v|] eqn:H; [exfalso|reflexivity].
  rewrite um_card_query_eq in H.
  destruct (um_struct_nonelem_none _ _ _ _ _ _ _ _ H) as (n & l & a & ks & ->).
  apply um_struct_some in H. destruct H as (a1 & a2 & H1 & H2 & ->).
  apply some_kid_in in R. destruct R as (k & I & K & B). simpl in I.
  apply kid_is_elem in K. destruct K as (a' & ks' & ->).
  rewrite (fold_opt_fails _ ks (XElem NS_CARD "limit" a' ks') I) in H2; [discriminate|].
  intros a0. unfold card_query_kstep.
  rewrite (um_sel_foreign d (aq_sel a0) _ NS_CARD "limit" a' ks' eq_refl eq_refl).
  change (kid_local (XElem NS_CARD "limit" a' ks') "filter") with false.
  change (kid_local (XElem NS_CARD "limit" a' ks') "limit") with true. cbv iota.
  unfold into_ptr. rewrite limit_fails; auto.
Qed.

(** ** address-data *)

Definition rfc_ad_bad (ad : xtree) : bool := has_kid ad NS_CARD "allprop" && has_kid ad NS_CARD "prop".

Lemma addr_data_rej ad : rfc_ad_bad ad = true -> rej um_addr_data (fun v => decode_addr_data_req v = false) ad.
Proof.
  intros R d acc v H. unfold um_addr_data in H.
  destruct (um_struct_nonelem_none _ _ _ _ _ _ _ _ H) as (n & l & a & ks & ->).
  apply um_struct_some in H. destruct H as (a1 & a2 & H1 & H2 & ->). unfold no_text.
  unfold rfc_ad_bad in R. apply andb_true_iff in R. destruct R as [RA RB].
  apply has_kid_in in RA. destruct RA as (k1 & I1 & K1). simpl in I1.
  apply kid_is_elem in K1. destruct K1 as (a' & ks' & ->).
  apply has_kid_in in RB. destruct RB as (k2 & I2 & K2). simpl in I2.
  apply kid_is_elem in K2. destruct K2 as (a'' & ks'' & ->).
  assert (X1 : ad_allprop a2 = true).
  { revert H2. apply (fold_opt_estab (fun v => ad_allprop v = true)) with (x0 := XElem NS_CARD "allprop" a' ks'); auto.
    - intros a0 x a0' _ H P. step_cases H; fin.
    - intros a0 a0' H. simpl in H. step_cases H; fin. }
  assert (X2 : nonempty (ad_props a2) = true).
  { revert H2. apply (fold_opt_estab (fun v => nonempty (ad_props v) = true)) with (x0 := XElem NS_CARD "prop" a'' ks''); auto.
    - intros a0 x a0' _ H P. step_cases H; fin.
    - intros a0 a0' H. simpl in H. step_cases H; fin. }
  unfold decode_addr_data_req. rewrite X1, X2. reflexivity.
Qed.

Lemma af_ad p ad : rfc_ad_bad ad = true -> rfc_ad_bad (afilter p ad) = true.
Proof.
  unfold rfc_ad_bad. intros H. apply andb_true_iff in H. destruct H as [A B].
  rewrite (af_has_kid p _ _ _ A), (af_has_kid p _ _ _ B). reflexivity.
Qed.

Lemma addr_data_of_prop_bad s root ad :
  rl (s_prop s) = map rawof (report_props root) ->
  report_data root NS_CARD "address-data" = Some ad -> rfc_ad_bad ad = true ->
  addr_data_of_prop s = SBad.
Proof.
  intros RL RD B. unfold report_data in RD.
  assert (PG : prop_get (rl (s_prop s)) NS_CARD "address-data" = Some (rawof ad)).
  { rewrite RL, prop_get_map, RD. reflexivity. }
  unfold addr_data_of_prop. destruct (s_prop s) as [raws|]; simpl in PG; [|discriminate].
  rewrite PG. unfold rawof. simpl.
  assert (B' : rfc_ad_bad (strip_decls ad) = true) by (rewrite strip_decls_afilter; apply af_ad; auto).
  destruct (um_addr_data 0 addr_data_zero (strip_decls ad)) as [v|] eqn:E; [|reflexivity].
  rewrite (addr_data_rej _ B' _ _ _ E). reflexivity.
Qed.

Lemma rfc_addr_data_bad_inv root : rfc_addr_data_bad root = true ->
  exists ad, report_data root NS_CARD "address-data" = Some ad /\ rfc_ad_bad ad = true.
Proof.
  unfold rfc_addr_data_bad. destruct (report_data root NS_CARD "address-data") as [ad|]; [|discriminate].
  intros H. exists ad. split; auto.
Qed.

Lemma af_apf p (K : keeps p) t : rfc_apf_bad t = true -> rfc_apf_bad (afilter p t) = true.
Proof.
  unfold rfc_apf_bad. intros H.
  apply orb_true_iff in H. destruct H as [H|H4].
  apply orb_true_iff in H. destruct H as [H|H3].
  apply orb_true_iff in H. destruct H as [H0|H1].
  - assert (N : "test" <> "xmlns") by discriminate. rewrite (af_attr_bad p K _ "test" _ N H0). reflexivity.
  - apply andb_true_iff in H1. destruct H1 as [A B]. rewrite (af_has_kid p _ _ _ A). simpl.
    apply orb_true_iff in B. destruct B as [B|B]; rewrite (af_has_kid p _ _ _ B); rewrite ?orb_true_r; reflexivity.
  - rewrite (af_some_kid p _ _ _ _ (rfc_tm_bad true) (fun k _ => af_tm p K true k) H3). rewrite ?orb_true_r. reflexivity.
  - rewrite (af_some_kid p _ _ _ _ (rfc_paf_bad true NS_CARD) (fun k _ => af_paf p K true NS_CARD k) H4). rewrite ?orb_true_r. reflexivity.
Qed.

Lemma af_card_filter p (K : keeps p) t : rfc_card_filter_bad t = true -> rfc_card_filter_bad (afilter p t) = true.
Proof.
  unfold rfc_card_filter_bad. intros H. apply orb_true_iff in H. destruct H as [H|H].
  - assert (N : "test" <> "xmlns") by discriminate. rewrite (af_attr_bad p K _ "test" _ N H). reflexivity.
  - rewrite (af_some_kid p _ _ _ _ rfc_apf_bad (fun k _ => af_apf p K k) H). rewrite ?orb_true_r. reflexivity.
Qed.

Lemma af_limit p t : rfc_limit_bad t = true -> rfc_limit_bad (afilter p t) = true.
Proof.
  unfold rfc_limit_bad. intros H. eapply af_some_kid; [|exact H].
  intros k _ B. simpl in *. rewrite af_kids, af_chardata. exact B.
Qed.

(** ** CardDAV REPORT: from the tree to the 400 *)

Theorem card_report_bad_400 env r root :
  r_xml r = XTree root -> rfc_card_report_bad root = true -> card_handle_report env r = bad_request.
Proof.
  intros X R. unfold card_handle_report, decode_xml_request. rewrite X.
  destruct (negb (is_content_xml r)); [reflexivity|].
  unfold um_card_report, chk. change (MAXD <=? 0) with false. cbv iota.
  unfold rfc_card_report_bad in R. rewrite drop_qualified_afilter.
  destruct (kid_is root NS_CARD "addressbook-query").
  - destruct (um_card_query 0 card_query_zero (afilter _ root)) as [q|] eqn:E; [|reflexivity].
    apply orb_true_iff in R. destruct R as [R|RL].
    apply orb_true_iff in R. destruct R as [RA|RF].
    + apply card_query_rejected. left.
      apply rfc_addr_data_bad_inv in RA. destruct RA as (ad & RD & B).
      eapply addr_data_of_prop_bad with (root := afilter _ root).
      * rewrite um_card_query_eq in E.
        destruct (um_struct_nonelem_none _ _ _ _ _ _ _ _ E) as (n & l & a & ks & Er).
        rewrite Er in E. apply um_struct_some in E. destruct E as (a1 & a2 & H1 & H2 & ->). unfold no_text.
        apply no_attr_fold in H1. subst a1. apply card_query_raws in H2. rewrite H2. simpl.
        rewrite report_props_eq, Er. reflexivity.
      * apply af_report_data. exact RD.
      * apply af_ad; auto.
    + assert (FB : afbad (aq_filter q)).
      { eapply (card_query_filter_rej (afilter _ root)); [|exact E].
        eapply af_some_kid; [|exact RF]. intros f _ F. apply af_card_filter; auto. apply keeps_drop. }
      unfold card_handle_query. pose proof (addr_data_of_prop_nopanic (aq_sel q)) as NP.
      destruct (addr_data_of_prop (aq_sel q)); try reflexivity; [|congruence].
      unfold afbad in FB. rewrite FB. reflexivity.
    + exfalso. rewrite (card_query_limit_fails (afilter _ root)) in E; [discriminate|].
      eapply af_some_kid; [|exact RL]. intros k _ B. apply af_limit; auto.
  - destruct (kid_is root NS_CARD "addressbook-multiget"); [|discriminate].
    destruct (um_multiget NS_CARD "addressbook-multiget" (r_url_ok r) 0 multiget_zero (afilter _ root)) as [m|] eqn:E; [|reflexivity].
    unfold card_handle_multiget.
    apply rfc_addr_data_bad_inv in R. destruct R as (ad & RD & B).
    rewrite (addr_data_of_prop_bad (mg_sel m) (afilter (fun a => str_empty (a_ns a)) root) (afilter (fun a => str_empty (a_ns a)) ad)); [reflexivity| | |].
    + rewrite um_multiget_eq in E.
      destruct (um_struct_nonelem_none _ _ _ _ _ _ _ _ E) as (n & l & a & ks & Er).
      rewrite Er in E. apply um_struct_some in E. destruct E as (a1 & a2 & H1 & H2 & ->). unfold no_text.
      apply no_attr_fold in H1. subst a1. apply multiget_raws in H2. rewrite H2. simpl.
      rewrite report_props_eq, Er. reflexivity.
    + apply af_report_data. exact RD.
    + apply af_ad; auto.
Qed.

(* ------------------------------------------------------------------ *)
(** * The REPORT classes, and all of [malformed]                       *)

Theorem malformed_report_refused c :
  backend_total c = true -> malformed_report c = true -> refused (serve c).
Proof.
  intros T M. unfold malformed_report in M.
  apply andb_true_iff in M. destruct M as [M MX]. apply andb_true_iff in M. destruct M as [WK MR].
  apply negb_true_iff in WK. unfold m_is in MR.
  destruct c as [env r|env r|env r|n r]; simpl in *.
  - destruct (r_xml r); discriminate.
  - assert (HB : ce_has_backend env = true) by (unfold cal_total in T; split_total T; auto).
    unfold serve_caldav. rewrite HB, WK, MR. simpl.
    destruct (r_xml r) as [| |root] eqn:X; try discriminate.
    rewrite orb_false_r in MX. simpl in MX.
    rewrite (cal_report_bad_400 env r root X MX). apply finish_refused, hrefused_bad_request.
  - assert (HB : ae_has_backend env = true) by (unfold card_total in T; split_total T; auto).
    unfold serve_carddav. rewrite HB, WK, MR. simpl.
    destruct (r_xml r) as [| |root] eqn:X; try discriminate.
    simpl in MX.
    rewrite (card_report_bad_400 env r root X MX). apply finish_refused, hrefused_bad_request.
  - destruct (r_xml r); try discriminate.
Qed.

Theorem malformed_refused c :
  backend_total c = true -> malformed c = true -> refused (serve c).
Proof.
  intros T M. unfold malformed in M. apply orb_true_iff in M. destruct M as [M|M].
  - apply malformed_basic_refused; auto.
  - apply malformed_report_refused; auto.
Qed.

(** agreement of an observation with the model entails the specification *)
Theorem agree_implies_spec_ok c o : model_agrees c o = true -> spec_ok c o = true.
Proof.
  unfold model_agrees, spec_ok. intros A. apply outcome_eqb_eq in A. subst o.
  destruct (backend_total c) eqn:T; [|reflexivity].
  apply acceptable_spec. pose proof (serve_complete c T) as SC. unfold complete in SC. destruct SC as (s & cs & E & H1 & H2).
  exists s, cs. split; [exact E|]. split; [exact H1|]. split; [exact H2|]. intros M.
  destruct (malformed_refused c T M) as (s' & E' & H3 & H4). rewrite E in E'. inversion E'; subst. auto.
Qed.
