(** MoveSteps.v — LocalFileSystem.Move (fs_local.go) OS call by OS call, after its
    read-only checks ([DavServer.copy_move_checks]): [os.RemoveAll(dstPath)] when the
    destination exists it is set aside under a temporary name, then
    [os.Rename(srcPath, dstPath)], then the old destination is removed (or renamed back).
    [DavServer.do_move] takes all that as one step; MoveStepsProofs.v shows that the sequence
    computes it, and that the tree is the one before when the rename is refused by the OS
    (EPERM / EACCES on the source's directory, EXDEV, EBUSY).  No proofs here. *)
From GW Require Import Base GoPath Fs DavServer.
Local Open Scope list_scope.

(** os.Rename(src, dst) with nothing at dst: read the source, unmap it, map it at dst. *)
Definition rename_step (s : option node) (sp dp : path) : option (option node) :=
  match geto s sp with
  | None => None
  | Some n =>
    match seto (remo s sp) dp n with
    | Some s' => Some (Some s')
    | None => None
    end
  end.

(** the roll-back / failure tail: os.Rename(tmp, dst) puts the old destination back *)
Definition move_back (s1 : option node) (tmpp dp : path) : option node * bool :=
  match rename_step s1 tmpp dp with
  | Some s2 => (s2, false)
  | None => (s1, false)
  end.

(** Since the repair of finding move-rename-fault: a new destination is one rename; an
    existing one is first set aside under a new temporary name [tmpp] next to it
    (createTemp + Remove reserve the name), removed once the source has taken its place
    (os.RemoveAll(tmp)), and renamed back when the OS refuses the rename of the source.
    [rename_fails]: the OS refuses os.Rename(src, dst).  Returns the state when Move
    returns and whether it succeeded. *)
Definition move_steps (s : option node) (sp dp tmpp : path) (rename_fails : bool) : option node * bool :=
  if exists_ (geto s dp) then
    match rename_step s dp tmpp with                       (* os.Rename(dst, tmp) *)
    | None => (s, false)
    | Some s1 =>
      if rename_fails then move_back s1 tmpp dp
      else match rename_step s1 sp dp with                 (* os.Rename(src, dst) *)
           | Some s2 => (remo s2 tmpp, true)               (* os.RemoveAll(tmp) *)
           | None => move_back s1 tmpp dp
           end
    end
  else
    if rename_fails then (s, false)
    else match rename_step s sp dp with
         | Some s2 => (s2, true)
         | None => (s, false)
         end.

(** The sequence before the repair: os.RemoveAll(dst), then os.Rename(src, dst). *)
Definition move_steps_old (s : option node) (sp dp : path) (rename_fails : bool) : option node * bool :=
  let s1 := if exists_ (geto s dp) then remo s dp else s in
  if rename_fails then (s1, false)
  else match rename_step s1 sp dp with
       | Some s2 => (s2, true)
       | None => (s1, false)
       end.

(** What the harness observes in the rfault stage: the tree after a MOVE whose rename the
    OS refused is the tree [move_steps] gives. *)
Definition move_fault_agrees (s : option node) (sp dp tmpp : path) (after : option node) : bool :=
  onode_eqb (fst (move_steps s sp dp tmpp true)) after.

(** The cases the repaired defect was about: an existing destination, a refused rename. *)
Definition move_fault_loses (s : option node) (dp : path) : bool := exists_ (geto s dp).
