(** MoveSteps.v — LocalFileSystem.Move (fs_local.go) OS call by OS call, after its
    read-only checks ([DavServer.copy_move_checks]): [os.RemoveAll(dstPath)] when the
    destination exists, then [os.Rename(srcPath, dstPath)].  [DavServer.do_move] takes the
    two as one step; MoveStepsProofs.v shows that the sequence computes it, and what the
    tree is when the rename is refused by the OS (EPERM / EACCES on the source's directory,
    EXDEV, EBUSY) after the destination has been removed.  No proofs here. *)
From GW Require Import Base GoPath Fs DavServer.
Local Open Scope list_scope.

(** os.Rename(src, dst) with nothing at dst: read the source, unmap it, map it at dst. *)
Definition rename_step (s : option node) (sp dp : path) : option (option node) :=
  match geto s sp with
  | None => None
  | Some n =>
    match seto (remo s sp) dp n with
    | Some s' => Some (Some s')
    | None => None
    end
  end.

(** [rename_fails]: the OS refuses the rename.  Returns the state when Move returns and
    whether it succeeded. *)
Definition move_steps (s : option node) (sp dp : path) (rename_fails : bool) : option node * bool :=
  let s1 := if exists_ (geto s dp) then remo s dp else s in     (* os.RemoveAll(dstPath) *)
  if rename_fails then (s1, false)
  else match rename_step s1 sp dp with
       | Some s2 => (s2, true)
       | None => (s1, false)
       end.

(** What the harness observes in the rfault stage: the tree after a MOVE whose rename the
    OS refused is the tree [move_steps] gives. *)
Definition move_fault_agrees (s : option node) (sp dp : path) (after : option node) : bool :=
  onode_eqb (fst (move_steps s sp dp true)) after.

(** The narrow selector of the known finding: an existing destination, a refused rename. *)
Definition move_fault_loses (s : option node) (dp : path) : bool := exists_ (geto s dp).
