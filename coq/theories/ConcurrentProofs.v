(** ConcurrentProofs.v — calls on disjoint subtrees commute; every interleaving of
    programs on pairwise disjoint subtrees is equivalent to every other one, in
    particular to the sequential one and, per program, to running it alone. *)
From GW Require Import Base Concurrent.
From Coq Require Import PeanoNat.

(** * Association lists *)

Lemma assoc_modify_ne x y f ch : x <> y -> assoc x (modify y f ch) = assoc x ch.
Proof.
  intro N. induction ch as [|[k v] r IH]; simpl; auto.
  destruct (String.eqb k y) eqn:E; simpl.
  - apply String.eqb_eq in E. subst. destruct (String.eqb y x) eqn:E2; auto.
    apply String.eqb_eq in E2. congruence.
  - destruct (String.eqb k x); auto.
Qed.

Lemma assoc_modify_eq x f ch :
  assoc x (modify x f ch) = match assoc x ch with Some v => Some (f v) | None => None end.
Proof.
  induction ch as [|[k v] r IH]; simpl; auto.
  destruct (String.eqb k x) eqn:E; simpl; rewrite E; auto.
Qed.

Lemma modify_comm x y f g ch :
  x <> y -> modify x f (modify y g ch) = modify y g (modify x f ch).
Proof.
  intro N. induction ch as [|[k v] r IH]; simpl; auto.
  destruct (String.eqb k y) eqn:E1; destruct (String.eqb k x) eqn:E2; simpl;
    rewrite ?E1, ?E2; auto.
  - apply String.eqb_eq in E1. apply String.eqb_eq in E2. congruence.
  - rewrite IH. reflexivity.
Qed.

Lemma modify_modify x f g ch : modify x f (modify x g ch) = modify x (fun v => f (g v)) ch.
Proof.
  induction ch as [|[k v] r IH]; simpl; auto.
  destruct (String.eqb k x) eqn:E; simpl; rewrite E; auto. rewrite IH. reflexivity.
Qed.

Lemma modify_ext x f g ch : (forall v, f v = g v) -> modify x f ch = modify x g ch.
Proof.
  intro H. induction ch as [|[k v] r IH]; simpl; auto.
  destruct (String.eqb k x); [rewrite H | rewrite IH]; reflexivity.
Qed.

(** * Disjoint paths *)

Lemma disjoint_nil_l q : disjoint [] q = false.
Proof. reflexivity. Qed.

Lemma disjoint_nil_r p : disjoint p [] = false.
Proof. unfold disjoint. destruct p; simpl; auto. Qed.

Lemma disjoint_cons x p y q :
  disjoint (x :: p) (y :: q) = true -> x <> y \/ (x = y /\ disjoint p q = true).
Proof.
  unfold disjoint. simpl. destruct (String.eqb x y) eqn:E.
  - apply String.eqb_eq in E. subst. rewrite String.eqb_refl. simpl. auto.
  - apply String.eqb_neq in E. auto.
Qed.

Lemma disjoint_sym p q : disjoint p q = disjoint q p.
Proof. unfold disjoint. apply andb_comm. Qed.

(** * Frame and commutation of the two primitives *)

Lemma sub_upd_disjoint p : forall q f t,
  disjoint p q = true -> sub q (upd p f t) = sub q t.
Proof.
  induction p as [|x p IH]; intros q f t D.
  - rewrite disjoint_nil_l in D. discriminate.
  - destruct q as [|y q]; [rewrite disjoint_nil_r in D; discriminate|].
    destruct t as [s|ch]; simpl; auto.
    destruct (disjoint_cons _ _ _ _ D) as [N | [E D']].
    + rewrite assoc_modify_ne; auto.
    + subst. rewrite assoc_modify_eq. destruct (assoc y ch); auto.
Qed.

Lemma upd_comm p : forall q f g t,
  disjoint p q = true -> upd p f (upd q g t) = upd q g (upd p f t).
Proof.
  induction p as [|x p IH]; intros q f g t D.
  - rewrite disjoint_nil_l in D. discriminate.
  - destruct q as [|y q]; [rewrite disjoint_nil_r in D; discriminate|].
    destruct t as [s|ch]; simpl; auto. f_equal.
    destruct (disjoint_cons _ _ _ _ D) as [N | [E D']].
    + apply modify_comm; auto.
    + subst. rewrite !modify_modify. apply modify_ext. intro v. apply IH; auto.
Qed.

(** * Two calls *)

Theorem calls_commute (c1 c2 : call) (t : node) :
  disjoint (fst c1) (fst c2) = true ->
  (* the same tree either way round *)
  fst (exec c2 (fst (exec c1 t))) = fst (exec c1 (fst (exec c2 t))) /\
  (* c1 answers the same before and after c2 *)
  snd (exec c1 t) = snd (exec c1 (fst (exec c2 t))) /\
  (* c2 answers the same after and before c1 *)
  snd (exec c2 (fst (exec c1 t))) = snd (exec c2 t).
Proof.
  intro D. unfold exec. cbn [fst snd].
  split; [|split].
  - symmetry. apply upd_comm; auto.
  - rewrite sub_upd_disjoint; auto. rewrite disjoint_sym; auto.
  - rewrite sub_upd_disjoint; auto.
Qed.

(** * Interleavings *)
Local Arguments exec : simpl never.
Local Arguments runs : simpl never.

Definition req (a b : node * list (nat * option outc)) : Prop :=
  fst a = fst b /\ forall i, proj i (snd a) = proj i (snd b).

Lemma req_refl a : req a a.
Proof. split; auto. Qed.
Lemma req_sym a b : req a b -> req b a.
Proof. intros [A B]. split; auto. Qed.
Lemma req_trans a b c : req a b -> req b c -> req a c.
Proof. intros [A B] [C D]. split; [congruence|]. intro i. rewrite B. auto. Qed.

Lemma runs_cons i c r t :
  runs ((i, c) :: r) t =
  (fst (runs r (fst (exec c t))), (i, snd (exec c t)) :: snd (runs r (fst (exec c t)))).
Proof.
  change (runs ((i, c) :: r) t)
    with (let (t1, o) := exec c t in let (t2, os) := runs r t1 in (t2, (i, o) :: os)).
  destruct (exec c t) as [t1 o]. cbn [fst snd]. destruct (runs r t1). reflexivity.
Qed.

Lemma proj_cons {A} i j (a : A) l :
  proj i ((j, a) :: l) = if Nat.eqb j i then a :: proj i l else proj i l.
Proof. unfold proj. simpl. destruct (Nat.eqb j i); reflexivity. Qed.

Lemma proj_app {A} i (l1 l2 : list (nat * A)) :
  proj i (l1 ++ l2)%list = (proj i l1 ++ proj i l2)%list.
Proof. unfold proj. rewrite filter_app, map_app. reflexivity. Qed.

Lemma req_cons x r1 r2 t :
  (forall t', req (runs r1 t') (runs r2 t')) -> req (runs (x :: r1) t) (runs (x :: r2) t).
Proof.
  intros H. destruct x as [i c]. rewrite !runs_cons.
  destruct (H (fst (exec c t))) as [A B]. split; simpl; auto.
  intro k. rewrite !proj_cons. rewrite B. reflexivity.
Qed.

Lemma req_swap i c j d r t :
  i <> j -> disjoint (fst c) (fst d) = true ->
  req (runs ((i, c) :: (j, d) :: r) t) (runs ((j, d) :: (i, c) :: r) t).
Proof.
  intros NE D. rewrite !runs_cons.
  destruct (calls_commute c d t D) as (A & B & C).
  cbn [fst snd]. rewrite A, B, C. split; [reflexivity|].
  intro k. cbn [snd]. rewrite !proj_cons.
  destruct (Nat.eqb i k) eqn:Ei; destruct (Nat.eqb j k) eqn:Ej; auto.
  apply Nat.eqb_eq in Ei. apply Nat.eqb_eq in Ej. congruence.
Qed.

(** a call can be moved in front of calls of other programs on disjoint roots *)
Lemma move_front i c pre : forall post t,
  (forall j d, In (j, d) pre -> j <> i /\ disjoint (fst d) (fst c) = true) ->
  req (runs (pre ++ (i, c) :: post) t) (runs ((i, c) :: pre ++ post) t).
Proof.
  induction pre as [|[j d] pre IH]; intros post t H.
  - apply req_refl.
  - simpl. eapply req_trans.
    + apply req_cons. intro t'. apply IH. intros. apply H. right. auto.
    + destruct (H j d (or_introl eq_refl)) as [N D]. apply req_swap; auto.
Qed.

Lemma in_proj {A} i (a : A) l : In (i, a) l <-> In a (proj i l).
Proof.
  unfold proj. rewrite in_map_iff. split.
  - intro H. exists (i, a). split; auto. apply filter_In. split; auto. simpl. apply Nat.eqb_refl.
  - intros ([j b] & E & H). apply filter_In in H. destruct H as [H K]. simpl in *.
    apply Nat.eqb_eq in K. subst. auto.
Qed.

(** the first call of program [i] in a schedule *)
Lemma proj_split {A} i (a : A) rest l :
  proj i l = a :: rest ->
  exists pre post, l = (pre ++ (i, a) :: post)%list /\ proj i pre = [] /\ proj i post = rest.
Proof.
  induction l as [|[j b] l IH]; intro H.
  - discriminate.
  - rewrite proj_cons in H. destruct (Nat.eqb j i) eqn:E.
    + apply Nat.eqb_eq in E. inversion H; subst. exists [], l. auto.
    + destruct (IH H) as (pre & post & L & P1 & P2). exists ((j, b) :: pre), post.
      subst. split; auto. split; auto. rewrite proj_cons, E. auto.
Qed.

Lemma proj_nil_notin {A} i (l : list (nat * A)) j (a : A) : proj i l = [] -> In (j, a) l -> j <> i.
Proof.
  intros P I E. subst. apply in_proj in I. rewrite P in I. destruct I.
Qed.

Lemma all_proj_nil {A} (l : list (nat * A)) : (forall i, proj i l = []) -> l = [].
Proof.
  destruct l as [|[j a] l]; auto. intro H. specialize (H j).
  rewrite proj_cons, Nat.eqb_refl in H. discriminate.
Qed.

(** Any two schedules that give every program the same calls in the same order
    end in the same tree and give every program the same outcomes. *)
Theorem interleavings_agree (s : list tcall) : forall s' t,
  (forall i, proj i s = proj i s') -> roots_disjoint s ->
  req (runs s t) (runs s' t).
Proof.
  induction s as [|[i c] r IH]; intros s' t P RD.
  - assert (s' = []) by (apply all_proj_nil; intro i; rewrite <- P; reflexivity).
    subst. apply req_refl.
  - pose proof (P i) as Pi. rewrite proj_cons, Nat.eqb_refl in Pi. symmetry in Pi.
    destruct (proj_split _ _ _ _ Pi) as (pre & post & L & P1 & P2). subst s'.
    apply req_sym. eapply req_trans.
    + apply move_front. intros j d IN.
      assert (N : j <> i) by (eapply proj_nil_notin; eauto).
      split; auto.
      apply (RD j d i c); auto.
      * apply in_proj. rewrite P. apply in_proj. apply in_or_app. auto.
      * left. reflexivity.
    + apply req_sym. apply req_cons. intro t'. apply IH.
      * intro k. specialize (P k). rewrite proj_cons, proj_app, proj_cons in P.
        rewrite proj_app. destruct (Nat.eqb i k) eqn:E.
        -- apply Nat.eqb_eq in E. subst k. rewrite P1 in *. simpl in *. congruence.
        -- auto.
      * intros a x b y I1 I2. apply RD; right; auto.
Qed.

(** ... in particular to running the programs one after another. *)
Lemma proj_seq i progs : proj i (seq_schedule progs) = calls_of i progs.
Proof.
  unfold seq_schedule, calls_of. induction progs as [|[j cs] ps IH]; simpl; auto.
  rewrite proj_app, IH. f_equal.
  destruct (Nat.eqb j i) eqn:E.
  - induction cs; simpl; auto. rewrite proj_cons, E. f_equal. auto.
  - induction cs; simpl; auto. rewrite proj_cons, E. auto.
Qed.

Theorem interleavings_sequential s progs t :
  is_interleaving s progs -> roots_disjoint s ->
  req (runs s t) (runs (seq_schedule progs) t).
Proof.
  intros I RD. apply interleavings_agree; auto. intro i. rewrite proj_seq. apply I.
Qed.

(** * Each program alone *)

Lemma runs_app s1 : forall s2 t,
  runs (s1 ++ s2) t =
  (fst (runs s2 (fst (runs s1 t))), (snd (runs s1 t) ++ snd (runs s2 (fst (runs s1 t))))%list).
Proof.
  induction s1 as [|[i c] r IH]; intros.
  - simpl. destruct (runs s2 t); reflexivity.
  - change (((i, c) :: r) ++ s2)%list with ((i, c) :: (r ++ s2))%list.
    rewrite !runs_cons, IH. reflexivity.
Qed.

(** a schedule of calls on roots disjoint from [p] leaves the subtree at [p] alone
    and contributes nothing to a program that has no call in it *)
Lemma runs_frame p s : forall t,
  (forall j d, In (j, d) s -> disjoint (fst d) p = true) ->
  sub p (fst (runs s t)) = sub p t.
Proof.
  induction s as [|[j d] r IH]; intros t H; auto.
  rewrite runs_cons. simpl. rewrite IH.
  - unfold exec. simpl. apply sub_upd_disjoint. apply (H j d). left; auto.
  - intros. eapply H. right; eauto.
Qed.

Lemma runs_tags s : forall t i, proj i s = [] -> proj i (snd (runs s t)) = [].
Proof.
  induction s as [|[j d] r IH]; intros t i P; auto.
  rewrite runs_cons. cbn [snd]. rewrite proj_cons in P. rewrite proj_cons.
  destruct (Nat.eqb j i); [discriminate P | apply IH; exact P].
Qed.

Definition only (i : nat) (s : list tcall) : list tcall := filter (fun x => Nat.eqb (fst x) i) s.
Definition others (i : nat) (s : list tcall) : list tcall := filter (fun x => negb (Nat.eqb (fst x) i)) s.

Lemma proj_only_others i k s : proj k (only i s ++ others i s) = proj k s.
Proof.
  rewrite proj_app. unfold proj, only, others.
  induction s as [|[j a] s IH]; simpl; auto.
  destruct (Nat.eqb j i) eqn:E1; simpl; destruct (Nat.eqb j k) eqn:E2; simpl; rewrite ?E2; auto.
  - rewrite IH. reflexivity.
  - apply Nat.eqb_eq in E2. subst j.
    (* k <> i: the item belongs to [others]; nothing of [only i s] has tag k *)
    assert (Z : map snd (filter (fun x : nat * call => Nat.eqb (fst x) k)
                   (filter (fun x : nat * call => Nat.eqb (fst x) i) s)) = []).
    { clear IH. induction s as [|[j b] s IHs]; simpl; auto.
      destruct (Nat.eqb j i) eqn:F; simpl; auto. destruct (Nat.eqb j k) eqn:G; simpl; auto.
      apply Nat.eqb_eq in F. apply Nat.eqb_eq in G. subst. rewrite Nat.eqb_refl in E1. discriminate. }
    rewrite Z in *. simpl in *. rewrite IH. reflexivity.
Qed.

Lemma proj_others_nil i (s : list tcall) : proj i (others i s) = [].
Proof.
  unfold proj, others. induction s as [|[j a] s IH]; simpl; auto.
  destruct (Nat.eqb j i) eqn:E; simpl; auto. rewrite E. exact IH.
Qed.

(** Program [i], whose calls are all anchored at [p], gets in ANY interleaving with
    programs on roots disjoint from [p] exactly the outcomes, and leaves under [p]
    exactly the subtree, that it produces when it runs alone. *)
Theorem alone s t i p :
  roots_disjoint s ->
  (forall j d, In (j, d) s -> j <> i -> disjoint (fst d) p = true) ->
  proj i (snd (runs s t)) = proj i (snd (runs (only i s) t)) /\
  sub p (fst (runs s t)) = sub p (fst (runs (only i s) t)).
Proof.
  intros RD DP.
  assert (E : req (runs s t) (runs (only i s ++ others i s) t)).
  { apply interleavings_agree; auto. intro k. symmetry. apply proj_only_others. }
  destruct E as [ES ER]. rewrite runs_app in ES, ER. cbn [fst snd] in ES, ER.
  split.
  - rewrite ER, proj_app. rewrite (runs_tags (others i s)).
    + apply app_nil_r.
    + apply proj_others_nil.
  - rewrite ES. apply runs_frame. intros j d IN. unfold others in IN.
    apply filter_In in IN. destruct IN as [IN K]. cbn [fst] in K.
    apply (DP j d IN). intro X. subst. rewrite Nat.eqb_refl in K. discriminate.
Qed.

(** * Threads of adaptive programs: no atomicity assumed *)

Lemma sub_upd_same p : forall f t m, sub p t = Some m -> sub p (upd p f t) = Some (f m).
Proof.
  induction p as [|x p IH]; intros f t m H.
  - simpl in *. congruence.
  - destruct t as [s|ch]; simpl in *; try discriminate.
    rewrite assoc_modify_eq. destruct (assoc x ch) as [n|]; try discriminate.
    apply IH. exact H.
Qed.

Lemma nth_error_set_nth_eq {A} (l : list A) : forall n x a,
  nth_error l n = Some a -> nth_error (set_nth n x l) n = Some x.
Proof.
  induction l as [|b l IH]; intros [|n] x a H; simpl in *; try discriminate; auto.
  eapply IH; eauto.
Qed.

Lemma nth_error_set_nth_ne {A} (l : list A) : forall n m x,
  n <> m -> nth_error (set_nth n x l) m = nth_error l m.
Proof.
  induction l as [|b l IH]; intros [|n] [|m] x H; simpl; auto; try congruence.
Qed.

(** a step of thread [j] is a local step on [j]'s view ... *)
Lemma view_gstep_same {R} (s : list (thread R) * node) j :
  view (gstep s j) j = option_map lstep (view s j).
Proof.
  unfold view, gstep. destruct s as [ths t]. cbn [fst snd].
  destruct (nth_error ths j) as [[p pr]|] eqn:N.
  2: { cbn [fst snd]. rewrite N. reflexivity. }
  destruct pr as [r|c k].
  - cbn [fst snd]. rewrite N. reflexivity.
  - destruct (sub p t) as [m|] eqn:S; cbn [fst snd].
    + rewrite (nth_error_set_nth_eq ths j _ _ N). rewrite (sub_upd_same p _ t m S). reflexivity.
    + rewrite N, S. reflexivity.
Qed.

(** ... and invisible to every other thread *)
Lemma view_gstep_other {R} (s : list (thread R) * node) i j :
  thread_roots_disjoint (fst s) -> i <> j -> view (gstep s j) i = view s i.
Proof.
  intros RD NE. unfold view, gstep. destruct s as [ths t]. cbn [fst snd] in *.
  destruct (nth_error ths j) as [[p [r|c k]]|] eqn:N; cbn [fst snd]; auto.
  destruct (sub p t) as [m|] eqn:S; cbn [fst snd]; auto.
  rewrite nth_error_set_nth_ne by congruence.
  destruct (nth_error ths i) as [[q qr]|] eqn:M; auto.
  rewrite sub_upd_disjoint; auto. eapply (RD j i); eauto.
Qed.

Lemma gstep_roots {R} (s : list (thread R) * node) j :
  thread_roots_disjoint (fst s) -> thread_roots_disjoint (fst (gstep s j)).
Proof.
  intros RD. unfold gstep. destruct s as [ths t]. cbn [fst snd] in *.
  destruct (nth_error ths j) as [[p [r|c k]]|] eqn:N; cbn [fst snd]; auto.
  destruct (sub p t) as [m|] eqn:S; cbn [fst snd]; auto.
  intros a b pa pb pra prb A B NE.
  assert (RA : exists pr', nth_error ths a = Some (pa, pr')).
  { destruct (Nat.eq_dec j a) as [E|E].
    - subst a. rewrite (nth_error_set_nth_eq ths j _ _ N) in A. inversion A; subst. eauto.
    - rewrite nth_error_set_nth_ne in A by exact E. eauto. }
  assert (RB : exists pr', nth_error ths b = Some (pb, pr')).
  { destruct (Nat.eq_dec j b) as [E|E].
    - subst b. rewrite (nth_error_set_nth_eq ths j _ _ N) in B. inversion B; subst. eauto.
    - rewrite nth_error_set_nth_ne in B by exact E. eauto. }
  destruct RA as (x & RA). destruct RB as (y & RB). eapply RD; eauto.
Qed.

Lemma iter_succ_r {A} (f : A -> A) n : forall x, Nat.iter (S n) f x = Nat.iter n f (f x).
Proof. induction n; intro x; simpl in *; auto. rewrite <- IHn. reflexivity. Qed.

Lemma option_map_iter {A} (f : A -> A) n (o : option A) :
  option_map (Nat.iter n f) (option_map f o) = option_map (Nat.iter (S n) f) o.
Proof. destruct o; simpl; auto. f_equal. rewrite <- iter_succ_r. reflexivity. Qed.

(** Under ANY schedule of primitive calls, the view of every thread — its
    continuation (hence, at the end, its result) and the subtree at its root — is
    the one obtained by performing its own calls alone, as many as the schedule
    gave it.  No request is assumed atomic. *)
Theorem threads_independent {R} (sched : list nat) : forall (s : list (thread R) * node) i,
  thread_roots_disjoint (fst s) ->
  view (grun s sched) i =
  option_map (Nat.iter (count_occ Nat.eq_dec sched i) lstep) (view s i).
Proof.
  unfold grun. induction sched as [|j sched IH]; intros s i RD.
  - simpl. destruct (view s i); reflexivity.
  - cbn [fold_left]. rewrite IH by (apply gstep_roots; exact RD).
    cbn [count_occ]. destruct (Nat.eq_dec j i) as [E|E].
    + subst j. rewrite view_gstep_same. apply option_map_iter.
    + rewrite view_gstep_other; auto.
Qed.

(** ... in particular the one it has when only its own calls are scheduled. *)
Corollary threads_alone {R} (sched : list nat) (s : list (thread R) * node) i :
  thread_roots_disjoint (fst s) ->
  view (grun s sched) i = view (grun s (repeat i (count_occ Nat.eq_dec sched i))) i.
Proof.
  intro RD. rewrite !threads_independent by exact RD.
  rewrite count_occ_repeat_eq by reflexivity. reflexivity.
Qed.

Lemma count_occ_remove_other (l : list nat) i j :
  i <> j -> count_occ Nat.eq_dec (remove Nat.eq_dec j l) i = count_occ Nat.eq_dec l i.
Proof.
  intro NE. induction l as [|x l IH]; simpl; auto.
  destruct (Nat.eq_dec j x) as [E|E].
  - subst x. destruct (Nat.eq_dec j i); [congruence | exact IH].
  - simpl. destruct (Nat.eq_dec x i); rewrite IH; reflexivity.
Qed.

(** Independence of progress: whatever thread [j] does and wherever it stops — for
    instance in the middle of an upload whose body never arrives — every other
    thread's view is the one it has when [j] is never scheduled at all. *)
Corollary stalled_thread_harmless {R} (sched : list nat) (s : list (thread R) * node) i j :
  thread_roots_disjoint (fst s) -> i <> j ->
  view (grun s sched) i = view (grun s (remove Nat.eq_dec j sched)) i.
Proof.
  intros RD NE. rewrite !threads_independent by exact RD.
  rewrite count_occ_remove_other by exact NE. reflexivity.
Qed.

(** * The workload of the correspondence check *)

Lemma only_proj i (s : list tcall) : only i s = map (fun x => (i, x)) (proj i s).
Proof.
  unfold only, proj. induction s as [|[j c] s IH]; simpl; auto.
  destruct (Nat.eqb j i) eqn:E; simpl; auto.
  apply Nat.eqb_eq in E. subst. f_equal. exact IH.
Qed.

Lemma calls_of_number (l : list (list call)) : forall n i,
  calls_of i (number n l) =
  if Nat.leb n i then match nth_error l (i - n) with Some x => x | None => [] end else [].
Proof.
  unfold calls_of. induction l as [|a l IH]; intros n i.
  - cbn [number flat_map]. destruct (Nat.leb n i); auto. destruct (i - n); auto.
  - cbn [number flat_map fst snd]. rewrite IH. destruct (Nat.eqb n i) eqn:E.
    + apply Nat.eqb_eq in E. subst.
      assert (L1 : Nat.leb (S i) i = false) by (apply Nat.leb_gt; lia).
      rewrite L1, Nat.leb_refl, Nat.sub_diag. cbn [nth_error]. apply app_nil_r.
    + apply Nat.eqb_neq in E. cbn [app].
      destruct (Nat.leb n i) eqn:L.
      * apply Nat.leb_le in L.
        assert (L1 : Nat.leb (S n) i = true) by (apply Nat.leb_le; lia).
        rewrite L1. replace (i - n) with (S (i - S n)) by lia. reflexivity.
      * apply Nat.leb_gt in L.
        assert (L1 : Nat.leb (S n) i = false) by (apply Nat.leb_gt; lia).
        rewrite L1. reflexivity.
Qed.

Lemma calls_of_progs cs i :
  calls_of i (progs_of cs) = match nth_error cs i with Some c => prog_of c | None => [] end.
Proof.
  unfold progs_of. rewrite calls_of_number. simpl. rewrite Nat.sub_0_r.
  rewrite nth_error_map. destruct (nth_error cs i); reflexivity.
Qed.

(** in an interleaving of the workload, every call tagged i is anchored at client i's collection *)
Lemma interleaving_roots cs s i c :
  is_interleaving s (progs_of cs) -> In (i, c) s ->
  exists cl, nth_error cs i = Some cl /\ fst c = [cl_name cl].
Proof.
  intros I IN. apply in_proj in IN. rewrite (I i), calls_of_progs in IN.
  destruct (nth_error cs i) as [cl|]; [|destruct IN].
  exists cl. split; auto. unfold prog_of in IN. apply in_map_iff in IN.
  destruct IN as (op & E & _). subst. reflexivity.
Qed.

Lemma distinct_nth (l : list name) : forall i j a b,
  distinct l = true -> nth_error l i = Some a -> nth_error l j = Some b -> i <> j -> a <> b.
Proof.
  induction l as [|x l IH]; intros i j a b D A B N.
  - destruct i; discriminate.
  - simpl in D. apply andb_true_iff in D. destruct D as [NI D].
    apply negb_true_iff in NI.
    assert (NIN : forall k y, nth_error l k = Some y -> x <> y).
    { intros k y K E. subst y. apply nth_error_In in K.
      assert (existsb (String.eqb x) l = true).
      { apply existsb_exists. exists x. split; auto. apply String.eqb_refl. }
      congruence. }
    destruct i, j; simpl in *; try congruence.
    + inversion A; subst. eapply NIN; eauto.
    + inversion B; subst. intro E. symmetry in E. revert E. eapply NIN; eauto.
    + eapply IH; eauto.
Qed.

Lemma disjoint_singletons a b : a <> b -> disjoint [a] [b] = true.
Proof.
  intro N. unfold disjoint. simpl.
  replace (String.eqb a b) with false by (symmetry; apply String.eqb_neq; auto).
  replace (String.eqb b a) with false by (symmetry; apply String.eqb_neq; auto).
  reflexivity.
Qed.

Lemma workload_roots_disjoint cs s :
  distinct (map cl_name cs) = true -> is_interleaving s (progs_of cs) -> roots_disjoint s.
Proof.
  intros D I i c j d IC JD N.
  destruct (interleaving_roots _ _ _ _ I IC) as (a & A & RA).
  destruct (interleaving_roots _ _ _ _ I JD) as (b & B & RB).
  rewrite RA, RB. apply disjoint_singletons.
  eapply (distinct_nth (map cl_name cs) i j); eauto;
    rewrite nth_error_map; [rewrite A | rewrite B]; reflexivity.
Qed.

(** Whatever interleaving of the clients' requests the scheduler produces, every
    client gets the answers, and the served tree ends as, the model computes by
    running the programs one after another. *)
Theorem expected_any_interleaving cs s :
  distinct (map cl_name cs) = true -> is_interleaving s (progs_of cs) ->
  fst (runs s (init_tree cs)) = fst (expected cs) /\
  forall i, proj i (snd (runs s (init_tree cs))) = proj i (snd (expected cs)).
Proof.
  intros D I. apply interleavings_sequential; auto. eapply workload_roots_disjoint; eauto.
Qed.

Lemma seq_is_interleaving progs : is_interleaving (seq_schedule progs) progs.
Proof. intro i. apply proj_seq. Qed.

(** ... and exactly what its program produces when it runs alone. *)
Theorem expected_is_alone cs s i c :
  distinct (map cl_name cs) = true -> is_interleaving s (progs_of cs) ->
  nth_error cs i = Some c ->
  proj i (snd (runs s (init_tree cs))) = proj i (snd (expected_alone cs i c)) /\
  sub [cl_name c] (fst (runs s (init_tree cs))) = sub [cl_name c] (fst (expected_alone cs i c)).
Proof.
  intros D I N. unfold expected_alone.
  assert (O : only i s = map (fun x => (i, x)) (prog_of c)).
  { rewrite only_proj, (I i), calls_of_progs, N. reflexivity. }
  rewrite <- O. apply alone.
  - eapply workload_roots_disjoint; eauto.
  - intros j d IN NE. destruct (interleaving_roots _ _ _ _ I IN) as (b & B & RB).
    rewrite RB. apply disjoint_singletons.
    eapply (distinct_nth (map cl_name cs) j i); eauto;
      rewrite nth_error_map; [rewrite B | rewrite N]; reflexivity.
Qed.

(** * The comparison verdicts of the oracle *)

Lemma node_ind' (P : node -> Prop)
  (HF : forall s, P (File s))
  (HD : forall ch, Forall (fun kv => P (snd kv)) ch -> P (Dir ch)) : forall n, P n.
Proof.
  fix IH 1. intros [s|ch]; [apply HF|]. apply HD.
  induction ch as [|kv r IHr]; constructor; auto.
Qed.

Lemma node_eqb_eq a : forall b, node_eqb a b = true <-> a = b.
Proof.
  induction a as [s|ch IH] using node_ind'; intros [t|cb]; simpl; try (split; discriminate).
  - rewrite String.eqb_eq. split; congruence.
  - revert cb. induction ch as [|[k1 v1] r1 IHr]; intros [|[k2 v2] r2]; try (split; [discriminate|congruence]).
    + tauto.
    + inversion IH as [|? ? H1 H2]; subst. simpl in H1.
      rewrite !andb_true_iff, String.eqb_eq, H1, (IHr H2 r2). split.
      * intros [[A B] C]. inversion C. subst. reflexivity.
      * intro E. inversion E. auto.
Qed.

Lemma names_eqb_eq a : forall b, names_eqb a b = true <-> a = b.
Proof.
  induction a as [|x a IH]; intros [|y b]; simpl; try (split; [discriminate|congruence]); try tauto.
  rewrite andb_true_iff, String.eqb_eq, IH. split; [intros [A B]; congruence | intro E; inversion E; auto].
Qed.

Lemma outc_eqb_eq a b : outc_eqb a b = true <-> a = b.
Proof.
  destruct a, b; simpl; try (split; [discriminate|congruence]);
    rewrite ?andb_true_iff, ?N.eqb_eq, ?String.eqb_eq, ?names_eqb_eq, ?Bool.eqb_true_iff;
    split; try (intros [A B]; congruence); try (intro E; inversion E; auto); congruence.
Qed.

Lemma opt_eqb_eq {A} (f : A -> A -> bool) :
  (forall a b, f a b = true <-> a = b) -> forall a b, opt_eqb f a b = true <-> a = b.
Proof.
  intros H [x|] [y|]; simpl; try (split; [discriminate|congruence]); try tauto.
  rewrite H. split; congruence.
Qed.

Lemma list_eqb_eq {A} (f : A -> A -> bool) :
  (forall a b, f a b = true <-> a = b) -> forall a b, list_eqb f a b = true <-> a = b.
Proof.
  intros H. induction a as [|x a IH]; intros [|y b]; simpl; try (split; [discriminate|congruence]); try tauto.
  rewrite andb_true_iff, H, IH. split; [intros [A1 B]; congruence | intro E; inversion E; auto].
Qed.

Lemma outs_eqb_eq a b : outs_eqb a b = true <-> a = b.
Proof. apply list_eqb_eq. apply opt_eqb_eq. apply outc_eqb_eq. Qed.

Lemma tree_eqb_eq a b : tree_eqb a b = true <-> a = b.
Proof. apply opt_eqb_eq. intros x y. apply node_eqb_eq. Qed.

Lemma clients_agree_spec cs : forall rest i obs,
  distinct (map cl_name cs) = true ->
  (forall k c, nth_error rest k = Some c -> nth_error cs (i + k) = Some c) ->
  clients_agree cs i rest obs = true ->
  forallb (fun c => outs_eqb (co_conc c) (co_alone c) && tree_eqb (co_conc_tree c) (co_alone_tree c)) obs = true.
Proof.
  induction rest as [|c rest IH]; intros i [|o obs] D NTH A; cbn [clients_agree forallb] in *;
    try discriminate; auto.
  repeat (apply andb_true_iff in A; destruct A as [A ?]).
  rename H into REST, H0 into AT, H1 into AO, H2 into CT.
  apply outs_eqb_eq in A. apply outs_eqb_eq in AO. apply tree_eqb_eq in CT. apply tree_eqb_eq in AT.
  assert (N : nth_error cs i = Some c) by (rewrite <- (Nat.add_0_r i); apply NTH; reflexivity).
  destruct (expected_is_alone cs (seq_schedule (progs_of cs)) i c D (seq_is_interleaving _) N) as [EO ET].
  fold (expected cs) in EO, ET.
  apply andb_true_iff. split.
  - apply andb_true_iff. split.
    + apply outs_eqb_eq. rewrite A, AO, EO. reflexivity.
    + apply tree_eqb_eq. rewrite CT, AT, ET. reflexivity.
  - apply (IH (S i)); auto. intros k c' K. replace (S i + k) with (i + S k) by lia. apply NTH. exact K.
Qed.

(** Agreement of the implementation with the model, concurrently and alone,
    entails the property on that observation. *)
Theorem conc_agree_implies_spec_ok cs o :
  conc_wf cs = true -> conc_agrees cs o = true -> conc_spec_ok o = true.
Proof.
  unfold conc_wf, conc_agrees, conc_spec_ok. intros W A.
  apply andb_true_iff in W. destruct W as [D _].
  repeat (apply andb_true_iff in A; destruct A as [A ?]).
  rewrite A, H0, H1. simpl. eapply clients_agree_spec; eauto.
  intros k c K. exact K.
Qed.

(** * fs_local.go Create as a thread program refines the one-step [sem (FPut ..)] *)
Local Open Scope list_scope.

Lemma upd_upd p : forall f g t, upd p f (upd p g t) = upd p (fun n => f (g n)) t.
Proof.
  induction p as [|x p IH]; intros f g t; simpl; auto.
  destruct t as [s|ch]; simpl; auto. rewrite modify_modify. f_equal.
  apply modify_ext. intro v. apply IH.
Qed.

Lemma modify_ext_at x f g ch :
  (forall v, assoc x ch = Some v -> f v = g v) -> modify x f ch = modify x g ch.
Proof.
  induction ch as [|[k v] r IH]; simpl; intro H; auto.
  destruct (String.eqb k x) eqn:E.
  - rewrite H; auto.
  - rewrite IH; auto.
Qed.

Lemma upd_ext_at p : forall f g t,
  (forall n, sub p t = Some n -> f n = g n) -> upd p f t = upd p g t.
Proof.
  induction p as [|x p IH]; intros f g t H; simpl in *.
  - apply H. reflexivity.
  - destruct t as [s|ch]; auto. f_equal. apply modify_ext_at. intros v A.
    apply IH. intros n S. apply H. rewrite A. exact S.
Qed.

Lemma upd_id_at p : forall f t, (forall n, sub p t = Some n -> f n = n) -> upd p f t = t.
Proof.
  induction p as [|x p IH]; intros f t H; simpl in *.
  - apply H. reflexivity.
  - destruct t as [s|ch]; auto. f_equal.
    assert (G : forall ch', (forall v, assoc x ch' = Some v -> upd p f v = v) -> modify x (upd p f) ch' = ch').
    { induction ch' as [|[k v] r IHr]; simpl; intro G; auto.
      destruct (String.eqb k x) eqn:E; [rewrite G; auto | rewrite IHr; auto]. }
    apply G. intros v A. apply IH. intros n S. apply H. rewrite A. exact S.
Qed.

Lemma split_last_snoc d l : split_last (d ++ [l]) = Some (d, l).
Proof.
  induction d as [|x d IH]; simpl; auto. rewrite IH.
  destruct (d ++ [l])%list eqn:E; auto. destruct d; discriminate.
Qed.

Lemma sub_snoc d : forall l m,
  sub (d ++ [l]) m = match sub d m with Some (Dir ch) => assoc l ch | _ => None end.
Proof.
  induction d as [|x d IH]; intros l m; simpl.
  - destruct m as [s|ch]; auto. destruct (assoc l ch); auto.
  - destruct m as [s|ch]; auto. destruct (assoc x ch) as [n|]; auto.
Qed.

Lemma assoc_app_fresh tmp v ch : assoc tmp ch = None -> assoc tmp (ch ++ [(tmp, v)]) = Some v.
Proof.
  induction ch as [|[k w] r IH]; simpl; intro H.
  - rewrite String.eqb_refl. reflexivity.
  - destruct (String.eqb k tmp); [discriminate | auto].
Qed.

Lemma modify_app_fresh tmp f v ch :
  assoc tmp ch = None -> modify tmp f (ch ++ [(tmp, v)]) = (ch ++ [(tmp, f v)])%list.
Proof.
  induction ch as [|[k w] r IH]; simpl; intro H.
  - rewrite String.eqb_refl. reflexivity.
  - destruct (String.eqb k tmp); [discriminate | rewrite IH; auto].
Qed.

Lemma remove_app_fresh tmp v ch : assoc tmp ch = None -> remove_child tmp (ch ++ [(tmp, v)]) = ch.
Proof.
  induction ch as [|[k w] r IH]; simpl; intro H.
  - rewrite String.eqb_refl. reflexivity.
  - destruct (String.eqb k tmp); [discriminate | rewrite IH; auto].
Qed.

(** the three temp-file steps together are the one [set_child] of [place] *)
Lemma tmp_steps_compose d tmp l s m ch :
  sub d m = Some (Dir ch) -> assoc tmp ch = None ->
  fst (tmp_rename d tmp l (fst (tmp_write d tmp s (fst (tmp_create d tmp m))))) =
  upd d (fun n => match n with Dir ch => Dir (set_child l (File s) ch) | File _ => n end) m.
Proof.
  intros S F. unfold tmp_rename, tmp_write, tmp_create. rewrite S. cbn [fst].
  rewrite !upd_upd. apply upd_ext_at. intros n Sn. rewrite S in Sn. inversion Sn; subst n.
  rewrite (modify_app_fresh tmp (fun _ => File s) (File "") ch F).
  rewrite (assoc_app_fresh tmp (File s) ch F), (remove_app_fresh tmp (File s) ch F).
  reflexivity.
Qed.

Lemma lstep_call {R} c (k : outc -> prog R) m :
  lstep (PCall c k, Some m) = (k (snd (c m)), Some (fst (c m))).
Proof. reflexivity. Qed.

Lemma lstep_ret {R} (r : R) v : lstep (PRet r, v) = (PRet r, v).
Proof. reflexivity. Qed.

(** Run alone (four primitive steps; fewer are needed when it stops early, further
    steps of a finished program change nothing), the program of Create ends with the
    answer and the tree of the one-step PUT. *)
Theorem put_prog_refines d l tmp s m :
  tmp_fresh d tmp m ->
  Nat.iter 4 lstep (put_prog d l tmp s, Some m) =
  (PRet (snd (sem (FPut (d ++ [l]) s) m)), Some (fst (sem (FPut (d ++ [l]) s) m))).
Proof.
  unfold tmp_fresh. intro F.
  change (Nat.iter 4 lstep (put_prog d l tmp s, Some m))
    with (lstep (lstep (lstep (lstep (put_prog d l tmp s, Some m))))).
  unfold put_prog. rewrite lstep_call.
  cbn [sem fst snd]. unfold place. rewrite split_last_snoc, sub_snoc.
  destruct (sub d m) as [[c|ch]|] eqn:S.
  - (* the parent is a file *)
    cbn [fst snd]. rewrite lstep_call.
    assert (C : tmp_create d tmp m = (m, OStatus 409)) by (unfold tmp_create; rewrite S; reflexivity).
    rewrite C. cbn [fst snd outc_eqb]. change (409 =? 201)%N with false. cbn iota.
    rewrite !lstep_ret. reflexivity.
  - destruct (assoc l ch) as [[c|ch']|] eqn:A; cbn [fst snd].
    + (* an existing file: 204 *)
      rewrite lstep_call.
      assert (C : snd (tmp_create d tmp m) = OStatus 201) by (unfold tmp_create; rewrite S; reflexivity).
      rewrite C. cbn [outc_eqb]. rewrite N.eqb_refl. rewrite lstep_call, lstep_call.
      cbn [snd]. rewrite (tmp_steps_compose d tmp l s m ch S F). reflexivity.
    + (* a collection: 405 *)
      rewrite !lstep_ret. reflexivity.
    + (* nothing there: 201 *)
      rewrite lstep_call.
      assert (C : snd (tmp_create d tmp m) = OStatus 201) by (unfold tmp_create; rewrite S; reflexivity).
      rewrite C. cbn [outc_eqb]. rewrite N.eqb_refl. rewrite lstep_call, lstep_call.
      cbn [snd]. rewrite (tmp_steps_compose d tmp l s m ch S F). reflexivity.
  - (* no parent *)
    cbn [fst snd]. rewrite lstep_call.
    assert (C : tmp_create d tmp m = (m, OStatus 409)) by (unfold tmp_create; rewrite S; reflexivity).
    rewrite C. cbn [fst snd outc_eqb]. change (409 =? 201)%N with false. cbn iota.
    rewrite !lstep_ret. reflexivity.
Qed.

Lemma iter_plus {A} (f : A -> A) a : forall b x, Nat.iter (a + b) f x = Nat.iter a f (Nat.iter b f x).
Proof. induction a; intros; simpl; auto. rewrite IHa. reflexivity. Qed.

Lemma iter_lstep_ret {R} (r : R) v k : Nat.iter k lstep (PRet r, v) = (PRet r, v).
Proof. induction k; simpl; auto. rewrite IHk. reflexivity. Qed.

(** A PUT running as a four-step program among other threads on disjoint roots,
    under any schedule that lets it finish: the answer and the subtree of the one-step
    PUT on the subtree it started from — whatever the other threads did in between. *)
Theorem put_concurrent sched (s : list (thread outc) * node) i p d l tmp c m :
  thread_roots_disjoint (fst s) ->
  nth_error (fst s) i = Some (p, put_prog d l tmp c) ->
  sub p (snd s) = Some m -> tmp_fresh d tmp m ->
  4 <= count_occ Nat.eq_dec sched i ->
  view (grun s sched) i =
  Some (PRet (snd (sem (FPut (d ++ [l]) c) m)), Some (fst (sem (FPut (d ++ [l]) c) m))).
Proof.
  intros RD N S F LE. rewrite threads_independent by exact RD.
  unfold view at 1. rewrite N, S. cbn [option_map]. f_equal.
  replace (count_occ Nat.eq_dec sched i) with ((count_occ Nat.eq_dec sched i - 4) + 4) by lia.
  rewrite iter_plus, (put_prog_refines d l tmp c m F). apply iter_lstep_ret.
Qed.
