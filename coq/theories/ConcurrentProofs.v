(** ConcurrentProofs.v — calls on disjoint subtrees commute; every interleaving of
    programs on pairwise disjoint subtrees is equivalent to every other one, in
    particular to the sequential one and, per program, to running it alone. *)
From GW Require Import Base Concurrent.
From Coq Require Import PeanoNat.

(** * Association lists *)

Lemma assoc_modify_ne x y f ch : x <> y -> assoc x (modify y f ch) = assoc x ch.
Proof.
  intro N. induction ch as [|[k v] r IH]; simpl; auto.
  destruct (String.eqb k y) eqn:E; simpl.
  - apply String.eqb_eq in E. subst. destruct (String.eqb y x) eqn:E2; auto.
    apply String.eqb_eq in E2. congruence.
  - destruct (String.eqb k x); auto.
Qed.

Lemma assoc_modify_eq x f ch :
  assoc x (modify x f ch) = match assoc x ch with Some v => Some (f v) | None => None end.
Proof.
  induction ch as [|[k v] r IH]; simpl; auto.
  destruct (String.eqb k x) eqn:E; simpl; rewrite E; auto.
Qed.

Lemma modify_comm x y f g ch :
  x <> y -> modify x f (modify y g ch) = modify y g (modify x f ch).
Proof.
  intro N. induction ch as [|[k v] r IH]; simpl; auto.
  destruct (String.eqb k y) eqn:E1; destruct (String.eqb k x) eqn:E2; simpl;
    rewrite ?E1, ?E2; auto.
  - apply String.eqb_eq in E1. apply String.eqb_eq in E2. congruence.
  - rewrite IH. reflexivity.
Qed.

Lemma modify_modify x f g ch : modify x f (modify x g ch) = modify x (fun v => f (g v)) ch.
Proof.
  induction ch as [|[k v] r IH]; simpl; auto.
  destruct (String.eqb k x) eqn:E; simpl; rewrite E; auto. rewrite IH. reflexivity.
Qed.

Lemma modify_ext x f g ch : (forall v, f v = g v) -> modify x f ch = modify x g ch.
Proof.
  intro H. induction ch as [|[k v] r IH]; simpl; auto.
  destruct (String.eqb k x); [rewrite H | rewrite IH]; reflexivity.
Qed.

(** * Disjoint paths *)

Lemma disjoint_nil_l q : disjoint [] q = false.
Proof. reflexivity. Qed.

Lemma disjoint_nil_r p : disjoint p [] = false.
Proof. unfold disjoint. destruct p; simpl; auto. Qed.

Lemma disjoint_cons x p y q :
  disjoint (x :: p) (y :: q) = true -> x <> y \/ (x = y /\ disjoint p q = true).
Proof.
  unfold disjoint. simpl. destruct (String.eqb x y) eqn:E.
  - apply String.eqb_eq in E. subst. rewrite String.eqb_refl. simpl. auto.
  - apply String.eqb_neq in E. auto.
Qed.

Lemma disjoint_sym p q : disjoint p q = disjoint q p.
Proof. unfold disjoint. apply andb_comm. Qed.

(** * Frame and commutation of the two primitives *)

Lemma sub_upd_disjoint p : forall q f t,
  disjoint p q = true -> sub q (upd p f t) = sub q t.
Proof.
  induction p as [|x p IH]; intros q f t D.
  - rewrite disjoint_nil_l in D. discriminate.
  - destruct q as [|y q]; [rewrite disjoint_nil_r in D; discriminate|].
    destruct t as [s|ch]; simpl; auto.
    destruct (disjoint_cons _ _ _ _ D) as [N | [E D']].
    + rewrite assoc_modify_ne; auto.
    + subst. rewrite assoc_modify_eq. destruct (assoc y ch); auto.
Qed.

Lemma upd_comm p : forall q f g t,
  disjoint p q = true -> upd p f (upd q g t) = upd q g (upd p f t).
Proof.
  induction p as [|x p IH]; intros q f g t D.
  - rewrite disjoint_nil_l in D. discriminate.
  - destruct q as [|y q]; [rewrite disjoint_nil_r in D; discriminate|].
    destruct t as [s|ch]; simpl; auto. f_equal.
    destruct (disjoint_cons _ _ _ _ D) as [N | [E D']].
    + apply modify_comm; auto.
    + subst. rewrite !modify_modify. apply modify_ext. intro v. apply IH; auto.
Qed.

(** * Two calls *)

Theorem calls_commute (c1 c2 : call) (t : node) :
  disjoint (fst c1) (fst c2) = true ->
  let (t1, o1) := exec c1 t in
  let (t12, o2) := exec c2 t1 in
  let (t2, o2') := exec c2 t in
  let (t21, o1') := exec c1 t2 in
  t12 = t21 /\ o1 = o1' /\ o2 = o2'.
Proof.
  intro D. unfold exec. cbn zeta.
  split; [|split].
  - symmetry. apply upd_comm; auto.
  - rewrite sub_upd_disjoint; auto. rewrite disjoint_sym; auto.
  - rewrite sub_upd_disjoint; auto.
Qed.

(** * Interleavings *)

Definition req (a b : node * list (nat * option outc)) : Prop :=
  fst a = fst b /\ forall i, proj i (snd a) = proj i (snd b).

Lemma req_refl a : req a a.
Proof. split; auto. Qed.
Lemma req_sym a b : req a b -> req b a.
Proof. intros [A B]. split; auto. Qed.
Lemma req_trans a b c : req a b -> req b c -> req a c.
Proof. intros [A B] [C D]. split; [congruence|]. intro i. rewrite B. auto. Qed.

Lemma runs_cons i c r t :
  runs ((i, c) :: r) t =
  (fst (runs r (fst (exec c t))), (i, snd (exec c t)) :: snd (runs r (fst (exec c t)))).
Proof.
  simpl. destruct (exec c t) as [t1 o]. simpl. destruct (runs r t1). reflexivity.
Qed.

Lemma proj_cons {A} i j (a : A) l :
  proj i ((j, a) :: l) = if Nat.eqb j i then a :: proj i l else proj i l.
Proof. unfold proj. simpl. destruct (Nat.eqb j i); reflexivity. Qed.

Lemma proj_app {A} i (l1 l2 : list (nat * A)) :
  proj i (l1 ++ l2)%list = (proj i l1 ++ proj i l2)%list.
Proof. unfold proj. rewrite filter_app, map_app. reflexivity. Qed.

Lemma req_cons x r1 r2 t :
  (forall t', req (runs r1 t') (runs r2 t')) -> req (runs (x :: r1) t) (runs (x :: r2) t).
Proof.
  intros H. destruct x as [i c]. rewrite !runs_cons.
  destruct (H (fst (exec c t))) as [A B]. split; simpl; auto.
  intro k. rewrite !proj_cons. rewrite B. reflexivity.
Qed.

Lemma req_swap i c j d r t :
  i <> j -> disjoint (fst c) (fst d) = true ->
  req (runs ((i, c) :: (j, d) :: r) t) (runs ((j, d) :: (i, c) :: r) t).
Proof.
  intros N D. rewrite !runs_cons.
  pose proof (calls_commute c d t D) as H.
  destruct (exec c t) as [t1 o1] eqn:E1. destruct (exec d t) as [t2 o2'] eqn:E2.
  simpl in *.
  destruct (exec d t1) as [t12 o2] eqn:E3. destruct (exec c t2) as [t21 o1'] eqn:E4.
  destruct H as (A & B & C). subst. simpl. split; auto.
  intro k. rewrite !proj_cons.
  destruct (Nat.eqb i k) eqn:Ei; destruct (Nat.eqb j k) eqn:Ej; auto.
  apply Nat.eqb_eq in Ei. apply Nat.eqb_eq in Ej. congruence.
Qed.

(** a call can be moved in front of calls of other programs on disjoint roots *)
Lemma move_front i c pre : forall post t,
  (forall j d, In (j, d) pre -> j <> i /\ disjoint (fst d) (fst c) = true) ->
  req (runs (pre ++ (i, c) :: post) t) (runs ((i, c) :: pre ++ post) t).
Proof.
  induction pre as [|[j d] pre IH]; intros post t H.
  - apply req_refl.
  - simpl. eapply req_trans.
    + apply req_cons. intro t'. apply IH. intros. apply H. right. auto.
    + destruct (H j d (or_introl eq_refl)) as [N D]. apply req_swap; auto.
Qed.

Lemma in_proj {A} i (a : A) l : In (i, a) l <-> In a (proj i l).
Proof.
  unfold proj. rewrite in_map_iff. split.
  - intro H. exists (i, a). split; auto. apply filter_In. split; auto. simpl. apply Nat.eqb_refl.
  - intros ([j b] & E & H). apply filter_In in H. destruct H as [H K]. simpl in *.
    apply Nat.eqb_eq in K. subst. auto.
Qed.

(** the first call of program [i] in a schedule *)
Lemma proj_split {A} i (a : A) rest l :
  proj i l = a :: rest ->
  exists pre post, l = (pre ++ (i, a) :: post)%list /\ proj i pre = [] /\ proj i post = rest.
Proof.
  induction l as [|[j b] l IH]; intro H.
  - discriminate.
  - rewrite proj_cons in H. destruct (Nat.eqb j i) eqn:E.
    + apply Nat.eqb_eq in E. inversion H; subst. exists [], l. auto.
    + destruct (IH H) as (pre & post & L & P1 & P2). exists ((j, b) :: pre), post.
      subst. split; auto. split; auto. rewrite proj_cons, E. auto.
Qed.

Lemma proj_nil_notin {A} i (l : list (nat * A)) j (a : A) : proj i l = [] -> In (j, a) l -> j <> i.
Proof.
  intros P I E. subst. apply in_proj in I. rewrite P in I. destruct I.
Qed.

Lemma all_proj_nil {A} (l : list (nat * A)) : (forall i, proj i l = []) -> l = [].
Proof.
  destruct l as [|[j a] l]; auto. intro H. specialize (H j).
  rewrite proj_cons, Nat.eqb_refl in H. discriminate.
Qed.

(** Any two schedules that give every program the same calls in the same order
    end in the same tree and give every program the same outcomes. *)
Theorem interleavings_agree (s : list tcall) : forall s' t,
  (forall i, proj i s = proj i s') -> roots_disjoint s ->
  req (runs s t) (runs s' t).
Proof.
  induction s as [|[i c] r IH]; intros s' t P RD.
  - assert (s' = []) by (apply all_proj_nil; intro i; rewrite <- P; reflexivity).
    subst. apply req_refl.
  - pose proof (P i) as Pi. rewrite proj_cons, Nat.eqb_refl in Pi. symmetry in Pi.
    destruct (proj_split _ _ _ _ Pi) as (pre & post & L & P1 & P2). subst s'.
    apply req_sym. eapply req_trans.
    + apply move_front. intros j d IN.
      assert (N : j <> i) by (eapply proj_nil_notin; eauto).
      split; auto.
      apply (RD j d i c); auto.
      * apply in_proj. rewrite P. apply in_proj. apply in_or_app. auto.
      * left. reflexivity.
    + apply req_sym. apply req_cons. intro t'. apply IH.
      * intro k. specialize (P k). rewrite proj_cons, proj_app, proj_cons in P.
        rewrite proj_app. destruct (Nat.eqb i k) eqn:E.
        -- apply Nat.eqb_eq in E. subst k. rewrite P1 in *. simpl in *. congruence.
        -- auto.
      * intros a x b y I1 I2. apply RD; right; auto.
Qed.

(** ... in particular to running the programs one after another. *)
Lemma proj_seq i progs : proj i (seq_schedule progs) = calls_of i progs.
Proof.
  unfold seq_schedule, calls_of. induction progs as [|[j cs] ps IH]; simpl; auto.
  rewrite proj_app, IH. f_equal.
  destruct (Nat.eqb j i) eqn:E.
  - induction cs; simpl; auto. rewrite proj_cons, E. f_equal. auto.
  - induction cs; simpl; auto. rewrite proj_cons, E. auto.
Qed.

Theorem interleavings_sequential s progs t :
  is_interleaving s progs -> roots_disjoint s ->
  req (runs s t) (runs (seq_schedule progs) t).
Proof.
  intros I RD. apply interleavings_agree; auto. intro i. rewrite proj_seq. apply I.
Qed.

(** * Each program alone *)

Lemma runs_app s1 : forall s2 t,
  runs (s1 ++ s2) t =
  (fst (runs s2 (fst (runs s1 t))), (snd (runs s1 t) ++ snd (runs s2 (fst (runs s1 t))))%list).
Proof.
  induction s1 as [|[i c] r IH]; intros.
  - simpl. destruct (runs s2 t); reflexivity.
  - change (((i, c) :: r) ++ s2)%list with ((i, c) :: (r ++ s2))%list.
    rewrite !runs_cons, IH. reflexivity.
Qed.

(** a schedule of calls on roots disjoint from [p] leaves the subtree at [p] alone
    and contributes nothing to a program that has no call in it *)
Lemma runs_frame p s : forall t,
  (forall j d, In (j, d) s -> disjoint (fst d) p = true) ->
  sub p (fst (runs s t)) = sub p t.
Proof.
  induction s as [|[j d] r IH]; intros t H; auto.
  rewrite runs_cons. simpl. rewrite IH.
  - unfold exec. simpl. apply sub_upd_disjoint. apply (H j d). left; auto.
  - intros. eapply H. right; eauto.
Qed.

Lemma runs_tags s : forall t i, proj i s = [] -> proj i (snd (runs s t)) = [].
Proof.
  induction s as [|[j d] r IH]; intros t i P; auto.
  rewrite runs_cons. simpl. rewrite proj_cons in *. destruct (Nat.eqb j i); try discriminate. auto.
Qed.

Definition only (i : nat) (s : list tcall) : list tcall := filter (fun x => Nat.eqb (fst x) i) s.
Definition others (i : nat) (s : list tcall) : list tcall := filter (fun x => negb (Nat.eqb (fst x) i)) s.

Lemma proj_only_others i k s : proj k (only i s ++ others i s) = proj k s.
Proof.
  rewrite proj_app. unfold proj, only, others.
  induction s as [|[j a] s IH]; simpl; auto.
  destruct (Nat.eqb j i) eqn:E1; simpl; destruct (Nat.eqb j k) eqn:E2; simpl; rewrite ?E2; auto.
  - rewrite IH. reflexivity.
  - apply Nat.eqb_eq in E2. subst j.
    (* k <> i: the item belongs to [others]; nothing of [only i s] has tag k *)
    assert (Z : map snd (filter (fun x : nat * call => Nat.eqb (fst x) k)
                   (filter (fun x : nat * call => Nat.eqb (fst x) i) s)) = []).
    { clear IH. induction s as [|[j b] s IHs]; simpl; auto.
      destruct (Nat.eqb j i) eqn:F; simpl; auto. destruct (Nat.eqb j k) eqn:G; simpl; auto.
      apply Nat.eqb_eq in F. apply Nat.eqb_eq in G. subst. rewrite Nat.eqb_refl in E1. discriminate. }
    rewrite Z in *. simpl in *. rewrite IH. reflexivity.
Qed.

(** Program [i], whose calls are all anchored at [p], gets in ANY interleaving with
    programs on roots disjoint from [p] exactly the outcomes, and leaves under [p]
    exactly the subtree, that it produces when it runs alone. *)
Theorem alone s t i p :
  roots_disjoint s ->
  (forall j d, In (j, d) s -> j <> i -> disjoint (fst d) p = true) ->
  proj i (snd (runs s t)) = proj i (snd (runs (only i s) t)) /\
  sub p (fst (runs s t)) = sub p (fst (runs (only i s) t)).
Proof.
  intros RD DP.
  assert (E : req (runs s t) (runs (only i s ++ others i s) t)).
  { apply interleavings_agree; auto. intro k. symmetry. apply proj_only_others. }
  destruct E as [ES ER]. rewrite runs_app in ES, ER. simpl in ES, ER.
  split.
  - rewrite ER, proj_app. rewrite (runs_tags (others i s)).
    + apply app_nil_r.
    + unfold proj, others. induction s as [|[j a] s IH]; simpl; auto.
      destruct (Nat.eqb j i) eqn:E; simpl; rewrite ?E; auto.
      apply IH.
      * intros a1 x b y I1 I2. apply RD; right; auto.
      * intros. eapply DP; eauto. right; auto.
      * intro k. reflexivity.
      * reflexivity.
  - rewrite ES. apply runs_frame. intros j d IN. unfold others in IN.
    apply filter_In in IN. destruct IN as [IN K]. simpl in K.
    apply (DP j d IN). intro X. subst. rewrite Nat.eqb_refl in K. discriminate.
Qed.

(** * The comparison verdict of the oracle *)
Lemma items_eqb_eq a : forall b, items_eqb a b = true <-> a = b.
Proof.
  induction a as [|[c s] a IH]; destruct b as [|[c' s'] b]; simpl; split; intro H;
    try discriminate; auto.
  - apply andb_true_iff in H. destruct H as [H1 H2]. apply andb_true_iff in H1. destruct H1 as [H0 H1].
    apply N.eqb_eq in H0. apply String.eqb_eq in H1. apply IH in H2. congruence.
  - inversion H; subst. rewrite N.eqb_refl, String.eqb_refl. simpl. apply IH. reflexivity.
Qed.

Theorem conc_agrees_spec o :
  conc_agrees o = true <->
  co_conc_resp o = co_alone_resp o /\ co_conc_tree o = co_alone_tree o /\ co_stray o = false.
Proof.
  unfold conc_agrees. rewrite !andb_true_iff, !items_eqb_eq, negb_true_iff. tauto.
Qed.
