(** CalWireReader.v — C08 proofs, part 4: the reader written from RFC 4791
    ([rfc_read]) decodes every lexical variant of what the RFC writer
    ([rfc_write]) produces for a valid request to that request. *)
From Coq Require Import Permutation.
From GW Require Import Base CalTime CalTimeProofs CalXml CalWire CalWireLex CalWireServer.

Local Opaque fmt_utc parse_utc.

(** * Attributes *)
Lemma attr_default_or n a a' l v :
  attrs_var n a a' -> l <> "xmlns" -> get_attr l a' = Some v ->
  In (("", l), v) a \/ (In (("", l), v) (default_attrs n) /\ ~ In ("", l) (map fst a)).
Proof.
  intros (extra & Hp & He & _) Hl G. apply get_attr_some_in in G.
  apply (Permutation_in _ (Permutation_sym Hp)) in G. apply in_app_or in G. destruct G as [G|G]; [now left |].
  right. rewrite Forall_forall in He. specialize (He _ G).
  exact (extra_plain _ _ _ _ _ He eq_refl Hl).
Qed.

Lemma attrs_var_get_name n nm a' :
  attrs_var n [cattr "name" nm] a' -> (forall x, In x (default_attrs n) -> fst x <> ("", "name")) ->
  get_attr "name" a' = Some nm.
Proof. intros Ha Hd. rewrite (attrs_var_get _ _ _ "name" Ha); [reflexivity | discriminate | exact Hd]. Qed.

Lemma r_empty_lex n t' : lexvar (Elem n [] []) t' -> r_empty n t' = true.
Proof.
  intros H. apply lexvar_elem_inv in H. destruct H as (a' & k' & -> & _ & Hk).
  unfold r_empty. rewrite name_eqb_refl, (kids_var_no_elems _ _ _ Hk), (kids_var_content _ _ _ Hk); reflexivity.
Qed.

(** * text-match *)
Lemma r_tm_lex tm t' : lexvar (w_tm tm) t' -> r_tm t' = Some tm.
Proof.
  intros Hl. apply lexvar_elem_inv in Hl. destruct Hl as (a' & k' & -> & Ha & Hk).
  change (negb (pcdata (cn "text-match"))) with false in Hk.
  unfold r_tm. rewrite name_eqb_refl, (kids_var_no_elems _ _ _ Hk), no_elems_text_kids. cbn [andb].
  assert (Hc : r_collation_ok a' = true).
  { unfold r_collation_ok. destruct (get_attr "collation" a') as [v|] eqn:G; [|reflexivity].
    apply (attr_default_or _ _ _ _ _ Ha) in G; [|discriminate]. destruct G as [G|[G _]].
    - destruct (tm_negate tm); cbn in G; [destruct G as [E|[]]; discriminate | tauto].
    - cbn in G. destruct G as [E|[E|[]]]; inversion E. reflexivity. }
  rewrite Hc.
  assert (Hn : r_negate a' = Some (tm_negate tm)).
  { unfold r_negate. destruct (tm_negate tm) eqn:Eb.
    - rewrite (get_attr_in "negate-condition" a' "yes"); [reflexivity | now destruct Ha as (? & ? & ? & ?) |].
      destruct Ha as (extra & Hp & _). apply (Permutation_in _ Hp). apply in_or_app. left. now left.
    - destruct (get_attr "negate-condition" a') as [v|] eqn:G; [|reflexivity].
      apply (attr_default_or _ _ _ _ _ Ha) in G; [|discriminate]. destruct G as [[]|[G _]].
      cbn in G. destruct G as [E|[E|[]]]; inversion E. reflexivity. }
  rewrite Hn. rewrite (kids_var_text _ _ _ Hk eq_refl), text_of_text_kids. now destruct tm.
Qed.

(** * time-range, expand *)
Lemma r_bound_ok l a i :
  utc_ok i = true -> get_attr l a = (if i_zero i then None else Some (fmt_utc (fst i))) ->
  r_bound l a = Some i.
Proof.
  intros Hu G. unfold r_bound. rewrite G. destruct (i_zero i) eqn:E.
  - f_equal. symmetry. now apply i_zero_eq.
  - unfold utc_ok in Hu. apply andb_true_iff in Hu. destruct Hu as [H0 Hr].
    rewrite (parse_fmt_utc _ Hr). unfold i_zero in E. rewrite E. apply Z.eqb_eq in H0.
    destruct i as [s o]. cbn in *. now subst.
Qed.

Lemma r_tr_lex s e t' :
  utc_ok s = true -> utc_ok e = true -> has_tr s e = true -> lexvar (w_tr s e) t' -> r_tr t' = Some (s, e).
Proof.
  intros Hs He Htr Hl. apply lexvar_elem_inv in Hl. destruct Hl as (a' & k' & -> & Ha & Hk).
  unfold r_tr. rewrite name_eqb_refl, (kids_var_no_elems _ _ _ Hk), (kids_var_content _ _ _ Hk) by reflexivity.
  cbn [andb no_elems forallb].
  rewrite (r_bound_ok "start" a' s Hs), (r_bound_ok "end" a' e He).
  - unfold has_tr in Htr. apply negb_true_iff in Htr. now rewrite Htr.
  - rewrite (attrs_var_get _ _ _ "end" Ha); [|discriminate | cbn; tauto].
    destruct (i_zero s), (i_zero e); reflexivity.
  - rewrite (attrs_var_get _ _ _ "start" Ha); [|discriminate | cbn; tauto].
    destruct (i_zero s), (i_zero e); reflexivity.
Qed.

Lemma r_expand_lex s e t' :
  utc_ok s = true -> utc_ok e = true -> lexvar (w_expand_el (s, e)) t' -> r_expand t' = Some (s, e).
Proof.
  intros Hs He Hl. apply lexvar_elem_inv in Hl. destruct Hl as (a' & k' & -> & Ha & Hk).
  unfold r_expand. rewrite name_eqb_refl, (kids_var_no_elems _ _ _ Hk), (kids_var_content _ _ _ Hk) by reflexivity.
  cbn [andb no_elems forallb fst snd] in *.
  rewrite (attrs_var_get _ _ _ "start" Ha); [|discriminate | cbn; tauto].
  rewrite (attrs_var_get _ _ _ "end" Ha); [|discriminate | cbn; tauto].
  change (get_attr "start" [cattr "start" (fmt_utc (fst s)); cattr "end" (fmt_utc (fst e))]) with (Some (fmt_utc (fst s))).
  change (get_attr "end" [cattr "start" (fmt_utc (fst s)); cattr "end" (fmt_utc (fst e))]) with (Some (fmt_utc (fst e))).
  unfold utc_ok in Hs, He. apply andb_true_iff in Hs, He. destruct Hs as [Hs0 Hsr], He as [He0 Her].
  rewrite (parse_fmt_utc _ Hsr), (parse_fmt_utc _ Her). apply Z.eqb_eq in Hs0, He0.
  destruct s, e. cbn in *. now subst.
Qed.

(** * param-filter *)
Lemma r_paf_lex p t' : valid_paf p = true -> lexvar (w_paf p) t' -> r_paf t' = Some p.
Proof.
  intros Hv Hl. apply lexvar_elem_inv in Hl. destruct Hl as (a' & k' & -> & Ha & Hk).
  change (negb (pcdata (cn "param-filter"))) with true in Hk.
  unfold r_paf. rewrite name_eqb_refl. rewrite (attrs_var_get_name _ _ _ Ha) by (cbn; tauto).
  destruct p as [nm ind tm]. unfold valid_paf in Hv. cbn [paf_name paf_ind paf_tm] in *.
  destruct ind.
  - destruct tm; [discriminate |].
    destruct (kids_var_econtent _ _ Hk eq_refl) as [-> Hf]. inv_f2.
    match goal with H : lexvar ind_elem _ |- _ => apply r_empty_lex in H; rewrite H end. reflexivity.
  - destruct tm as [tm|].
    + destruct (kids_var_econtent _ _ Hk eq_refl) as [-> Hf]. cbn [opt_list] in Hf. inv_f2.
      match goal with H : lexvar (w_tm _) _ |- _ =>
        pose proof H as Hl; apply r_tm_lex in H; rename H into Hr;
        apply lexvar_elem_inv in Hl; destruct Hl as (a1 & k1 & -> & _) end.
      cbn [andb]. unfold r_empty.
      change (name_eqb (cn "text-match") (cn "is-not-defined")) with false. cbn [andb]. now rewrite Hr.
    + destruct (kids_var_econtent _ _ Hk eq_refl) as [-> Hf]. cbn [opt_list] in Hf. inv_f2. reflexivity.
Qed.

Lemma map_opt_pafs ps :
  forallb valid_paf ps = true -> forall l', Forall2 lexvar (map w_paf ps) l' -> map_opt r_paf l' = Some ps.
Proof.
  induction ps as [|p ps IH]; intros Hv l' Hf; cbn [map] in Hf; inv_f2; [reflexivity |].
  cbn [forallb] in Hv. apply andb_true_iff in Hv. destruct Hv as [Hp Hps].
  cbn [map_opt]. match goal with H : lexvar (w_paf p) _ |- _ => rewrite (r_paf_lex _ _ Hp H) end.
  match goal with HF : Forall2 lexvar (map w_paf ps) _ |- _ => specialize (IH Hps _ HF) end.
  cbn [map_opt] in IH. now rewrite IH.
Qed.

(** * prop-filter *)
Lemma r_pf_lex p t' : valid_pf p = true -> lexvar (w_pf p) t' -> r_pf t' = Some p.
Proof.
  intros Hv Hl. apply lexvar_elem_inv in Hl. destruct Hl as (a' & k' & -> & Ha & Hk).
  change (negb (pcdata (cn "prop-filter"))) with true in Hk.
  unfold r_pf. rewrite name_eqb_refl. rewrite (attrs_var_get_name _ _ _ Ha) by (cbn; tauto).
  destruct p as [nm ind s e tm ps]. unfold valid_pf in Hv. cbn [pf_name pf_ind pf_start pf_end pf_tm pf_params] in *.
  apply andb_true_iff in Hv. destruct Hv as [Hv Hps].
  apply andb_true_iff in Hv. destruct Hv as [Hv Hc].
  apply andb_true_iff in Hv. destruct Hv as [Hs He].
  destruct ind.
  - apply andb_true_iff in Hc. destruct Hc as [Hc Hn]. apply andb_true_iff in Hc. destruct Hc as [Htr Htm].
    apply negb_true_iff in Htr. destruct tm; [discriminate |]. destruct ps; [|discriminate].
    destruct (no_tr_zero _ _ Hs He Htr) as [-> ->].
    destruct (kids_var_econtent _ _ Hk eq_refl) as [-> Hf]. inv_f2.
    match goal with H : lexvar ind_elem _ |- _ =>
      pose proof H as Hl; apply r_empty_lex in H; rename H into Hr;
      apply lexvar_elem_inv in Hl; destruct Hl as (a1 & k1 & -> & _) end.
    cbn [andb el_named]. rewrite name_eqb_refl, Hr. reflexivity.
  - destruct (has_tr s e) eqn:Htr.
    + destruct tm; [discriminate |].
      assert (Hk0 : forallb is_elem ([w_tr s e] ++ map w_paf ps) = true).
      { cbn. now apply forallb_map_elem. }
      destruct (kids_var_econtent _ _ Hk Hk0) as [-> Hf]. cbn [app] in Hf. inv_f2.
      match goal with H : lexvar (w_tr _ _) _ |- _ =>
        pose proof H as Hl; apply (r_tr_lex _ _ _ Hs He Htr) in H; rename H into Hr;
        apply lexvar_elem_inv in Hl; destruct Hl as (a1 & k1 & -> & _) end.
      cbn [andb el_named].
      change (name_eqb (cn "time-range") (cn "is-not-defined")) with false.
      rewrite name_eqb_refl. cbv iota. rewrite Hr.
      match goal with HF : Forall2 lexvar (map w_paf ps) _ |- _ => rewrite (map_opt_pafs _ Hps _ HF) end.
      reflexivity.
    + destruct (no_tr_zero _ _ Hs He Htr) as [-> ->].
      assert (Hk0 : forallb is_elem (opt_list w_tm tm ++ map w_paf ps) = true).
      { rewrite forallb_app. apply andb_true_iff. split; [now destruct tm | now apply forallb_map_elem]. }
      destruct (kids_var_econtent _ _ Hk Hk0) as [-> Hf].
      destruct tm as [tm|]; cbn [opt_list app] in Hf.
      * inv_f2.
        match goal with H : lexvar (w_tm _) _ |- _ =>
          pose proof H as Hl; apply r_tm_lex in H; rename H into Hr;
          apply lexvar_elem_inv in Hl; destruct Hl as (a1 & k1 & -> & _) end.
        cbn [andb el_named].
        change (name_eqb (cn "text-match") (cn "is-not-defined")) with false.
        change (name_eqb (cn "text-match") (cn "time-range")) with false.
        rewrite name_eqb_refl. cbv iota. rewrite Hr.
        match goal with HF : Forall2 lexvar (map w_paf ps) _ |- _ => rewrite (map_opt_pafs _ Hps _ HF) end.
        reflexivity.
      * cbn [andb]. destruct ps as [|p ps]; cbn [map] in Hf; inv_f2; [reflexivity |].
        match goal with H1 : lexvar (w_paf p) ?y, H2 : Forall2 lexvar (map w_paf ps) ?l |- _ =>
          assert (Hm : map_opt r_paf (y :: l) = Some (p :: ps))
            by (apply (map_opt_pafs (p :: ps) Hps); cbn [map]; constructor; assumption) end.
        match goal with H : lexvar (w_paf p) _ |- _ =>
          apply lexvar_elem_inv in H; destruct H as (a1 & k1 & -> & _) end.
        cbn [el_named].
        change (name_eqb (cn "param-filter") (cn "is-not-defined")) with false.
        change (name_eqb (cn "param-filter") (cn "time-range")) with false.
        change (name_eqb (cn "param-filter") (cn "text-match")) with false. cbv iota.
        rewrite Hm. reflexivity.
Qed.

(** * comp-filter *)
Definition cf_cls (kid : xtree) : cf_item :=
  match kid with
  | Elem n' _ _ =>
    if name_eqb n' (cn "is-not-defined") then CiInd (r_empty (cn "is-not-defined") kid)
    else if name_eqb n' (cn "time-range") then CiTR (r_tr kid)
    else if name_eqb n' (cn "prop-filter") then CiPF (r_pf kid)
    else if name_eqb n' (cn "comp-filter") then CiCF (r_cf kid)
    else CiOther
  | _ => CiSkip
  end.

Lemma r_cf_eq n a k :
  r_cf (Elem n a k) =
  if name_eqb n (cn "comp-filter") && content_ok k then
    match get_attr "name" a with
    | None => None
    | Some name => assemble_cf name (filter (fun i => negb (ci_skip i)) (map cf_cls k))
    end
  else None.
Proof. reflexivity. Qed.

Lemma cf_cls_elems k : filter (fun i => negb (ci_skip i)) (map cf_cls k) = map cf_cls (elems k).
Proof.
  unfold elems. induction k as [|t r IH]; [reflexivity |]. cbn [map filter].
  destruct t as [n a kk| |]; cbn [is_elem]; try exact IH.
  assert (E : ci_skip (cf_cls (Elem n a kk)) = false).
  { unfold cf_cls. repeat match goal with |- context [if ?c then _ else _] => destruct c end; reflexivity. }
  rewrite E. cbn [negb map]. now rewrite IH.
Qed.

Definition ci_pf (p : prop_filter) : cf_item := CiPF (Some p).
Definition ci_cf (c : comp_filter) : cf_item := CiCF (Some c).

Lemma cls_pfs ps :
  forallb valid_pf ps = true -> forall l', Forall2 lexvar (map w_pf ps) l' -> map cf_cls l' = map ci_pf ps.
Proof.
  induction ps as [|p ps IH]; intros Hv l' Hf; cbn [map] in Hf; inv_f2; [reflexivity |].
  cbn [forallb] in Hv. apply andb_true_iff in Hv. destruct Hv as [Hp Hps].
  cbn [map]. f_equal; [|now apply IH].
  match goal with H : lexvar (w_pf p) _ |- _ =>
    pose proof H as Hl; apply (r_pf_lex _ _ Hp) in H; rename H into Hr;
    apply lexvar_elem_inv in Hl; destruct Hl as (a1 & k1 & -> & _) end.
  unfold cf_cls.
  change (name_eqb (cn "prop-filter") (cn "is-not-defined")) with false.
  change (name_eqb (cn "prop-filter") (cn "time-range")) with false.
  rewrite name_eqb_refl. cbv iota. now rewrite Hr.
Qed.

Definition rcf_ok (f : comp_filter) : Prop :=
  valid_cf f = true -> forall t', lexvar (w_cf f) t' -> r_cf t' = Some f.

Lemma cls_cfs cs :
  Forall rcf_ok cs -> forallb valid_cf cs = true ->
  forall l', Forall2 lexvar (map w_cf cs) l' -> map cf_cls l' = map ci_cf cs.
Proof.
  induction 1 as [|c cs Hc _ IH]; intros Hv l' Hf; cbn [map] in Hf; inv_f2; [reflexivity |].
  cbn [forallb] in Hv. apply andb_true_iff in Hv. destruct Hv as [Hp Hps].
  cbn [map]. f_equal; [|now apply IH].
  match goal with H : lexvar (w_cf c) _ |- _ =>
    pose proof H as Hl; apply (Hc Hp) in H; rename H into Hr;
    destruct c; apply lexvar_elem_inv in Hl; destruct Hl as (a1 & k1 & -> & _) end.
  unfold cf_cls.
  change (name_eqb (cn "comp-filter") (cn "is-not-defined")) with false.
  change (name_eqb (cn "comp-filter") (cn "time-range")) with false.
  change (name_eqb (cn "comp-filter") (cn "prop-filter")) with false.
  rewrite name_eqb_refl. cbv iota. now rewrite Hr.
Qed.

Lemma take_cfs_map cs : take_cfs (map ci_cf cs) = Some cs.
Proof. induction cs as [|c cs IH]; cbn [map]; [reflexivity |]. change (ci_cf c) with (CiCF (Some c)). cbn [take_cfs]. now rewrite IH. Qed.

Lemma take_pfs_map ps cs : take_pfs (map ci_pf ps ++ map ci_cf cs) = Some (ps, map ci_cf cs).
Proof.
  induction ps as [|p ps IH]; cbn [map app].
  - destruct cs; reflexivity.
  - change (ci_pf p) with (CiPF (Some p)). cbn [take_pfs]. now rewrite IH.
Qed.

Lemma assemble_cf_ok nm (tr : bool) s e ps cs :
  assemble_cf nm ((if tr then [CiTR (Some (s, e))] else []) ++ map ci_pf ps ++ map ci_cf cs) =
  Some (CompFilter nm false (if tr then s else zero_instant) (if tr then e else zero_instant) ps cs).
Proof.
  unfold assemble_cf. destruct tr; cbn [app].
  - rewrite take_pfs_map, take_cfs_map. reflexivity.
  - pose proof (take_pfs_map ps cs) as Hp. pose proof (take_cfs_map cs) as Hc.
    destruct ps as [|p ps]; [destruct cs as [|c cs] |]; cbn [map app] in *; unfold ci_pf, ci_cf in *;
      rewrite Hp, Hc; reflexivity.
Qed.

Lemma r_cf_lex f : rcf_ok f.
Proof.
  induction f as [nm ind s e props comps IH] using comp_filter_ind2.
  intros Hv t' Hl. cbn [w_cf] in Hl. apply lexvar_elem_inv in Hl. destruct Hl as (a' & k' & -> & Ha & Hk).
  change (negb (pcdata (cn "comp-filter"))) with true in Hk.
  rewrite r_cf_eq. rewrite name_eqb_refl. rewrite (attrs_var_get_name _ _ _ Ha) by (cbn; tauto).
  rewrite cf_cls_elems.
  cbn [valid_cf] in Hv.
  apply andb_true_iff in Hv. destruct Hv as [Hv Hcs].
  apply andb_true_iff in Hv. destruct Hv as [Hv Hps].
  apply andb_true_iff in Hv. destruct Hv as [Hv Hc].
  apply andb_true_iff in Hv. destruct Hv as [Hs He].
  destruct ind.
  - apply andb_true_iff in Hc. destruct Hc as [Hc Hn]. apply andb_true_iff in Hc. destruct Hc as [Htr Hn1].
    apply negb_true_iff in Htr. destruct props; [|discriminate]. destruct comps; [|discriminate].
    destruct (no_tr_zero _ _ Hs He Htr) as [-> ->].
    destruct (kids_var_econtent _ _ Hk eq_refl) as [-> Hf]. inv_f2.
    match goal with H : lexvar ind_elem _ |- _ =>
      pose proof H as Hl; apply r_empty_lex in H; rename H into Hr;
      apply lexvar_elem_inv in Hl; destruct Hl as (a1 & k1 & -> & _) end.
    cbn [andb map cf_cls]. rewrite name_eqb_refl, Hr. reflexivity.
  - assert (Hk0 : forallb is_elem ((if has_tr s e then [w_tr s e] else []) ++ map w_pf props ++ map w_cf comps) = true).
    { rewrite !forallb_app. rewrite (forallb_map_elem w_pf) by (now intros []).
      rewrite (forallb_map_elem w_cf) by apply w_cf_is_elem. now destruct (has_tr s e). }
    destruct (kids_var_econtent _ _ Hk Hk0) as [-> Hf]. cbn [andb].
    apply Forall2_app_inv_l in Hf. destruct Hf as (l1 & l23 & Hf1 & Hf23 & ->).
    apply Forall2_app_inv_l in Hf23. destruct Hf23 as (l2 & l3 & Hf2 & Hf3 & ->).
    rewrite !map_app. rewrite (cls_pfs _ Hps _ Hf2), (cls_cfs _ IH Hcs _ Hf3).
    assert (H1 : map cf_cls l1 = if has_tr s e then [CiTR (Some (s, e))] else []).
    { destruct (has_tr s e) eqn:Htr; inv_f2; [|reflexivity].
      match goal with H : lexvar (w_tr _ _) _ |- _ =>
        pose proof H as Hl; apply (r_tr_lex _ _ _ Hs He Htr) in H; rename H into Hr;
        apply lexvar_elem_inv in Hl; destruct Hl as (a1 & k1 & -> & _) end.
      cbn [map cf_cls].
      change (name_eqb (cn "time-range") (cn "is-not-defined")) with false.
      rewrite name_eqb_refl. cbv iota. now rewrite Hr. }
    rewrite H1. rewrite assemble_cf_ok.
    destruct (has_tr s e) eqn:Htr; [reflexivity |].
    destruct (no_tr_zero _ _ Hs He Htr) as [-> ->]. reflexivity.
Qed.

(** * calendar-data *)
Lemma r_cprop_lex nm t' : lexvar (w_cprop nm) t' -> r_cprop t' = Some nm.
Proof.
  intros Hl. apply lexvar_elem_inv in Hl. destruct Hl as (a' & k' & -> & Ha & Hk).
  unfold r_cprop. rewrite name_eqb_refl, (kids_var_no_elems _ _ _ Hk), (kids_var_content _ _ _ Hk) by reflexivity.
  cbn [andb no_elems forallb]. apply (attrs_var_get_name _ _ _ Ha).
  cbn. intros x [<-|[]]. discriminate.
Qed.

Definition comp_cls (kid : xtree) : comp_item :=
  match kid with
  | Elem n' _ _ =>
    if name_eqb n' (cn "allprop") then MiAllprop (r_empty (cn "allprop") kid)
    else if name_eqb n' (cn "prop") then MiProp (r_cprop kid)
    else if name_eqb n' (cn "allcomp") then MiAllcomp (r_empty (cn "allcomp") kid)
    else if name_eqb n' (cn "comp") then MiComp (r_comp kid)
    else MiOther
  | _ => MiSkip
  end.

Lemma r_comp_eq n a k :
  r_comp (Elem n a k) =
  if name_eqb n (cn "comp") && content_ok k then
    match get_attr "name" a with
    | None => None
    | Some name => assemble_comp name (filter (fun i => negb (mi_skip i)) (map comp_cls k))
    end
  else None.
Proof. reflexivity. Qed.

Lemma comp_cls_elems k : filter (fun i => negb (mi_skip i)) (map comp_cls k) = map comp_cls (elems k).
Proof.
  unfold elems. induction k as [|t r IH]; [reflexivity |]. cbn [map filter].
  destruct t as [n a kk| |]; cbn [is_elem]; try exact IH.
  assert (E : mi_skip (comp_cls (Elem n a kk)) = false).
  { unfold comp_cls. repeat match goal with |- context [if ?c then _ else _] => destruct c end; reflexivity. }
  rewrite E. cbn [negb map]. now rewrite IH.
Qed.

Definition mi_prop (p : string) : comp_item := MiProp (Some p).
Definition mi_comp (c : comp_request) : comp_item := MiComp (Some c).

Lemma cls_cprops ps : forall l', Forall2 lexvar (map w_cprop ps) l' -> map comp_cls l' = map mi_prop ps.
Proof.
  induction ps as [|p ps IH]; intros l' Hf; cbn [map] in Hf; inv_f2; [reflexivity |].
  cbn [map]. f_equal; [|now apply IH].
  match goal with H : lexvar (w_cprop p) _ |- _ =>
    pose proof H as Hl; apply r_cprop_lex in H; rename H into Hr;
    apply lexvar_elem_inv in Hl; destruct Hl as (a1 & k1 & -> & _) end.
  unfold comp_cls.
  change (name_eqb (cn "prop") (cn "allprop")) with false.
  rewrite name_eqb_refl. cbv iota. now rewrite Hr.
Qed.

Definition rcomp_ok (c : comp_request) : Prop :=
  valid_comp_sel c = true -> forall t', lexvar (w_comp_sel c) t' -> r_comp t' = Some c.

Lemma cls_comps cs :
  Forall rcomp_ok cs -> forallb valid_comp_sel cs = true ->
  forall l', Forall2 lexvar (map w_comp_sel cs) l' -> map comp_cls l' = map mi_comp cs.
Proof.
  induction 1 as [|c cs Hc _ IH]; intros Hv l' Hf; cbn [map] in Hf; inv_f2; [reflexivity |].
  cbn [forallb] in Hv. apply andb_true_iff in Hv. destruct Hv as [Hp Hps].
  cbn [map]. f_equal; [|now apply IH].
  match goal with H : lexvar (w_comp_sel c) _ |- _ =>
    pose proof H as Hl; apply (Hc Hp) in H; rename H into Hr;
    destruct c; apply lexvar_elem_inv in Hl; destruct Hl as (a1 & k1 & -> & _) end.
  unfold comp_cls.
  change (name_eqb (cn "comp") (cn "allprop")) with false.
  change (name_eqb (cn "comp") (cn "prop")) with false.
  change (name_eqb (cn "comp") (cn "allcomp")) with false.
  rewrite name_eqb_refl. cbv iota. now rewrite Hr.
Qed.

Lemma take_comps_map cs : take_comps (map mi_comp cs) = Some cs.
Proof.
  induction cs as [|c cs IH]; cbn [map]; [reflexivity |].
  change (mi_comp c) with (MiComp (Some c)). cbn [take_comps]. now rewrite IH.
Qed.

Lemma take_props_map ps r :
  match r with MiProp _ :: _ => False | _ => True end ->
  take_props (map mi_prop ps ++ r) = Some (ps, r).
Proof.
  intros Hr. induction ps as [|p ps IH]; cbn [map app].
  - destruct r as [|[] r]; try reflexivity. destruct Hr.
  - change (mi_prop p) with (MiProp (Some p)). cbn [take_props]. now rewrite IH.
Qed.

Lemma assemble_comp_ok nm (ap ac : bool) ps cs :
  (ap = true -> ps = []) -> (ac = true -> cs = []) ->
  assemble_comp nm ((if ap then [MiAllprop true] else map mi_prop ps)
                    ++ (if ac then [MiAllcomp true] else map mi_comp cs)) =
  Some (CompReq nm ap ps ac cs None).
Proof.
  intros Hap Hac. unfold assemble_comp.
  set (r := if ac then [MiAllcomp true] else map mi_comp cs).
  assert (Hr : match r with MiProp _ :: _ => False | _ => True end).
  { unfold r. destruct ac; [exact I |]. destruct cs; exact I. }
  assert (Hfin : match r with
                 | [MiAllcomp true] => Some (CompReq nm ap ps true [] None)
                 | _ => match take_comps r with Some cs0 => Some (CompReq nm ap ps false cs0 None) | None => None end
                 end = Some (CompReq nm ap ps ac cs None)).
  { unfold r. destruct ac.
    - rewrite (Hac eq_refl). reflexivity.
    - pose proof (take_comps_map cs) as Hc. destruct cs as [|c cs]; [reflexivity |].
      cbn [map] in *. unfold mi_comp in *. destruct cs; cbn [map] in *; rewrite Hc; reflexivity. }
  destruct ap.
  - rewrite (Hap eq_refl) in *. cbn [app]. exact Hfin.
  - pose proof (take_props_map ps r Hr) as Hp.
    destruct ps as [|p ps]; cbn [map app] in *.
    + clear Hp. revert Hfin Hr. unfold r. destruct ac; [|destruct cs as [|c cs]]; cbn [map]; intros Hfin _; exact Hfin.
    + unfold mi_prop in *. rewrite Hp. exact Hfin.
Qed.

Lemma r_comp_lex c : rcomp_ok c.
Proof.
  induction c as [nm ap ps ac comps ex IH] using comp_request_ind2.
  intros Hv t' Hl. cbn [w_comp_sel] in Hl. apply lexvar_elem_inv in Hl. destruct Hl as (a' & k' & -> & Ha & Hk).
  change (negb (pcdata (cn "comp"))) with true in Hk.
  rewrite r_comp_eq. rewrite name_eqb_refl. rewrite (attrs_var_get_name _ _ _ Ha) by (cbn; tauto).
  rewrite comp_cls_elems.
  cbn [valid_comp_sel] in Hv.
  apply andb_true_iff in Hv. destruct Hv as [Hv Hcs].
  apply andb_true_iff in Hv. destruct Hv as [Hv Hex].
  apply andb_true_iff in Hv. destruct Hv as [Hap Hac].
  destruct ex; [discriminate |].
  assert (Hk0 : forallb is_elem ((if ap then [Elem (cn "allprop") [] []] else map w_cprop ps)
                                 ++ (if ac then [Elem (cn "allcomp") [] []] else map w_comp_sel comps)) = true).
  { rewrite forallb_app. apply andb_true_iff. split.
    - destruct ap; [reflexivity |]. now apply forallb_map_elem.
    - destruct ac; [reflexivity |]. apply forallb_map_elem. apply w_comp_sel_is_elem. }
  destruct (kids_var_econtent _ _ Hk Hk0) as [-> Hf]. cbn [andb].
  apply Forall2_app_inv_l in Hf. destruct Hf as (l1 & l2 & Hf1 & Hf2 & ->).
  rewrite map_app.
  assert (H1 : map comp_cls l1 = if ap then [MiAllprop true] else map mi_prop ps).
  { destruct ap; [|now apply cls_cprops]. inv_f2.
    match goal with H : lexvar (Elem _ [] []) _ |- _ =>
      pose proof H as Hl; apply r_empty_lex in H; rename H into Hr;
      apply lexvar_elem_inv in Hl; destruct Hl as (a1 & k1 & -> & _) end.
    cbn [map comp_cls]. rewrite name_eqb_refl, Hr. reflexivity. }
  assert (H2 : map comp_cls l2 = if ac then [MiAllcomp true] else map mi_comp comps).
  { destruct ac; [|now apply cls_comps]. inv_f2.
    match goal with H : lexvar (Elem _ [] []) _ |- _ =>
      pose proof H as Hl; apply r_empty_lex in H; rename H into Hr;
      apply lexvar_elem_inv in Hl; destruct Hl as (a1 & k1 & -> & _) end.
    cbn [map comp_cls].
    change (name_eqb (cn "allcomp") (cn "allprop")) with false.
    change (name_eqb (cn "allcomp") (cn "prop")) with false.
    rewrite name_eqb_refl, Hr. reflexivity. }
  rewrite H1, H2. apply assemble_comp_ok.
  - intros ->. destruct ps; [reflexivity | discriminate].
  - intros ->. destruct comps; [reflexivity | discriminate].
Qed.

Lemma r_caldata_lex c t' : valid_cr c = true -> lexvar (w_caldata c) t' -> r_caldata t' = Some c.
Proof.
  intros Hv Hl. apply lexvar_elem_inv in Hl. destruct Hl as (a' & k' & -> & Ha & Hk).
  change (negb (pcdata (cn "calendar-data"))) with true in Hk.
  unfold r_caldata. rewrite name_eqb_refl.
  unfold valid_cr in Hv. apply andb_true_iff in Hv. destruct Hv as [Hc Hex].
  assert (Hk0 : forallb is_elem (w_comp_sel c :: opt_list w_expand_el (cr_expand c)) = true).
  { cbn. rewrite w_comp_sel_is_elem. now destruct (cr_expand c). }
  destruct (kids_var_econtent _ _ Hk Hk0) as [-> Hf]. cbn [andb].
  inversion Hf as [|x y l l' Hx Hl]; subst. clear Hf.
  rewrite <- w_comp_sel_expand in Hx. apply (r_comp_lex _ Hc) in Hx.
  destruct c as [nm ap ps ac cs ex]. cbn [cr_expand set_expand] in *.
  destruct ex as [[s e]|]; cbn [opt_list] in Hl; inv_f2.
  - apply andb_true_iff in Hex. destruct Hex as [Hs He].
    match goal with H : lexvar (w_expand_el _) _ |- _ => apply (r_expand_lex _ _ _ Hs He) in H; rename H into Hr end.
    rewrite Hx, Hr. reflexivity.
  - destruct y as [n1 a1 k1| |]; try discriminate.
    assert (En : n1 = cn "comp").
    { rewrite r_comp_eq in Hx. destruct (name_eqb n1 (cn "comp")) eqn:E; [|discriminate]. now apply name_eqb_eq in E. }
    subst n1. cbn [el_named]. change (name_eqb (cn "comp") (cn "expand")) with false. cbv iota. exact Hx.
Qed.

(** calendar-data without comp *)
Lemma r_caldata_nc_lex e t' :
  match e with Some (s, e') => utc_ok s && utc_ok e' | None => true end = true ->
  lexvar (w_caldata_nc e) t' -> r_caldata t' = Some (whole_cr e).
Proof.
  intros Hex Hl. apply lexvar_elem_inv in Hl. destruct Hl as (a' & k' & -> & Ha & Hk).
  change (negb (pcdata (cn "calendar-data"))) with true in Hk.
  unfold r_caldata. rewrite name_eqb_refl.
  assert (Hk0 : forallb is_elem (opt_list w_expand_el e) = true) by (now destruct e).
  destruct (kids_var_econtent _ _ Hk Hk0) as [-> Hf]. cbn [andb].
  destruct e as [[s e']|]; cbn [opt_list] in Hf; inv_f2; [|reflexivity].
  apply andb_true_iff in Hex. destruct Hex as [Hs He].
  match goal with H : lexvar (w_expand_el _) _ |- _ =>
    pose proof H as Hl; apply (r_expand_lex _ _ _ Hs He) in H; rename H into Hr;
    apply lexvar_elem_inv in Hl; destruct Hl as (a2 & k2 & -> & _) end.
  cbn [el_named]. rewrite name_eqb_refl, Hr. reflexivity.
Qed.

(** DAV:prop around any calendar-data element whose variants read as [c] *)
Definition caldata_reads (X : xtree) (c : comp_request) : Prop :=
  (exists a0 k0, X = Elem (cn "calendar-data") a0 k0)
  /\ forall t', lexvar X t' -> r_caldata t' = Some c.

Lemma r_dprop_x_lex X c t' : caldata_reads X c -> lexvar (w_dprop_x X) t' -> r_dprop t' = Some c.
Proof.
  intros ((a0 & k0 & ->) & HX) Hl. apply lexvar_elem_inv in Hl. destruct Hl as (a' & k' & -> & Ha & Hk).
  change (negb (pcdata (dn "prop"))) with true in Hk.
  unfold r_dprop. rewrite name_eqb_refl.
  destruct (kids_var_econtent _ _ Hk eq_refl) as [-> Hf]. cbn [andb]. inv_f2.
  match goal with H : lexvar (Elem (dn "getetag") _ _) _ |- _ =>
    apply lexvar_elem_inv in H; destruct H as (a1 & k1 & -> & _) end.
  match goal with H : lexvar (Elem (cn "calendar-data") a0 k0) _ |- _ =>
    pose proof H as Hl; apply HX in H; rename H into Hr;
    apply lexvar_elem_inv in Hl; destruct Hl as (a2 & k2 & -> & _) end.
  cbn [filter is_caldata].
  change (name_eqb (dn "getetag") (cn "calendar-data")) with false. rewrite name_eqb_refl. exact Hr.
Qed.

Lemma caldata_reads_comp c : valid_cr c = true -> caldata_reads (w_caldata c) c.
Proof. intros Hv. split; [unfold w_caldata; eauto |]. intros t' Hl. now apply r_caldata_lex. Qed.

Lemma caldata_reads_nc e :
  match e with Some (s, e') => utc_ok s && utc_ok e' | None => true end = true ->
  caldata_reads (w_caldata_nc e) (whole_cr e).
Proof. intros He. split; [unfold w_caldata_nc; eauto |]. intros t' Hl. now apply r_caldata_nc_lex. Qed.

Lemma r_dprop_lex c t' : valid_cr c = true -> lexvar (w_dprop c) t' -> r_dprop t' = Some c.
Proof. intros Hv Hl. exact (r_dprop_x_lex _ c t' (caldata_reads_comp c Hv) Hl). Qed.

Lemma r_filter_lex f t' :
  valid_cf f = true -> lexvar (Elem (cn "filter") [] [w_cf f]) t' -> r_filter t' = Some f.
Proof.
  intros Hv Hl. apply lexvar_elem_inv in Hl. destruct Hl as (a' & k' & -> & Ha & Hk).
  change (negb (pcdata (cn "filter"))) with true in Hk.
  unfold r_filter. rewrite name_eqb_refl.
  assert (Hk0 : forallb is_elem [w_cf f] = true) by (cbn; now rewrite w_cf_is_elem).
  destruct (kids_var_econtent _ _ Hk Hk0) as [-> Hf]. cbn [andb]. inv_f2.
  match goal with H : lexvar (w_cf f) _ |- _ => exact (r_cf_lex _ Hv _ H) end.
Qed.

Section Top.
Variable href_fmt : string -> string.
Variable href_parse : string -> option string.

Lemma r_href_lex p t' :
  valid_path href_fmt href_parse p = true -> lexvar (w_href href_fmt p) t' -> r_href href_parse t' = Some p.
Proof.
  intros Hv Hl. apply lexvar_elem_inv in Hl. destruct Hl as (a' & k' & -> & Ha & Hk).
  change (negb (pcdata (dn "href"))) with false in Hk.
  unfold r_href. rewrite name_eqb_refl, (kids_var_no_elems _ _ _ Hk), no_elems_text_kids. cbn [andb].
  rewrite (kids_var_text _ _ _ Hk eq_refl), text_of_text_kids.
  unfold valid_path in Hv. destruct (href_parse (href_fmt p)); [|discriminate].
  apply String.eqb_eq in Hv. now subst.
Qed.

Lemma map_opt_hrefs ps :
  forallb (valid_path href_fmt href_parse) ps = true ->
  forall l', Forall2 lexvar (map (w_href href_fmt) ps) l' -> map_opt (r_href href_parse) l' = Some ps.
Proof.
  induction ps as [|p ps IH]; intros Hv l' Hf; cbn [map] in Hf; inv_f2; [reflexivity |].
  cbn [forallb] in Hv. apply andb_true_iff in Hv. destruct Hv as [Hp Hps].
  cbn [map_opt]. match goal with H : lexvar (w_href _ p) _ |- _ => rewrite (r_href_lex _ _ Hp H) end.
  match goal with HF : Forall2 lexvar (map _ ps) _ |- _ => specialize (IH Hps _ HF) end.
  cbn [map_opt] in IH. now rewrite IH.
Qed.

Theorem rfc_read_lex_x r X doc :
  caldata_reads X (req_cr r) -> valid_rest href_fmt href_parse r = true ->
  lexvar (rfc_write_x href_fmt X r) doc ->
  rfc_read href_parse doc = Some r.
Proof.
  intros HX Hv Hl. destruct r as [q|m]; cbn [rfc_write_x valid_rest req_cr] in *.
  - rename Hv into Hcf.
    apply lexvar_elem_inv in Hl. destruct Hl as (a' & k' & -> & Ha & Hk).
    change (negb (pcdata (cn "calendar-query"))) with true in Hk.
    unfold rfc_read. destruct (kids_var_econtent _ _ Hk eq_refl) as [-> Hf]. cbn [negb].
    rewrite name_eqb_refl. inv_f2.
    match goal with H : lexvar (w_dprop_x _) _ |- _ => rewrite (r_dprop_x_lex _ _ _ HX H) end.
    match goal with H : lexvar (Elem (cn "filter") _ _) _ |- _ => rewrite (r_filter_lex _ _ Hcf H) end.
    now destruct q.
  - apply andb_true_iff in Hv. destruct Hv as [Hne Hps].
    apply lexvar_elem_inv in Hl. destruct Hl as (a' & k' & -> & Ha & Hk).
    change (negb (pcdata (cn "calendar-multiget"))) with true in Hk.
    assert (Hk0 : forallb is_elem (w_dprop_x X :: map (w_href href_fmt) (mg_paths m)) = true).
    { cbn. now apply forallb_map_elem. }
    unfold rfc_read. destruct (kids_var_econtent _ _ Hk Hk0) as [-> Hf]. cbn [negb].
    change (name_eqb (cn "calendar-multiget") (cn "calendar-query")) with false.
    rewrite name_eqb_refl. cbv iota.
    inversion Hf as [|x y l l' Hx Hl]; subst. clear Hf.
    pose proof (map_opt_hrefs _ Hps _ Hl) as Hm.
    destruct m as [paths cr]. cbn [mg_paths mg_cr] in *.
    destruct paths as [|p0 paths]; [discriminate |]. cbn [map] in Hl.
    inversion Hl as [|x2 y2 l2 l2' Hx2 Hl2]; subst.
    rewrite (r_dprop_x_lex _ _ _ HX Hx), Hm. reflexivity.
Qed.

(** The RFC reader decodes every lexical variant of the RFC document of a
    valid request to that request. *)
Theorem rfc_read_lex r doc :
  valid href_fmt href_parse r = true -> lexvar (rfc_write href_fmt r) doc ->
  rfc_read href_parse doc = Some r.
Proof.
  intros Hv Hl. rewrite rfc_write_as_x in Hl. destruct (valid_split _ _ _ Hv) as [Hcr Hr].
  exact (rfc_read_lex_x r _ doc (caldata_reads_comp _ Hcr) Hr Hl).
Qed.

Theorem rfc_read_lex_nc r doc :
  valid href_fmt href_parse r = true -> is_whole (req_cr r) = true ->
  lexvar (rfc_write_nc href_fmt r) doc ->
  rfc_read href_parse doc = Some r.
Proof.
  intros Hv Hw Hl. unfold rfc_write_nc in Hl. destruct (valid_split _ _ _ Hv) as [Hcr Hr].
  apply (rfc_read_lex_x r (w_caldata_nc (cr_expand (req_cr r))) doc); try assumption.
  rewrite (whole_eq _ Hw) at 2. apply caldata_reads_nc.
  unfold valid_cr in Hcr. apply andb_true_iff in Hcr. destruct Hcr as [_ He].
  destruct (cr_expand (req_cr r)) as [[s e]|]; assumption.
Qed.

End Top.
