(** DavClientCodecsProofs.v — the codec laws that the C05 theorems take as
    hypotheses, proved for [X_model] from C16's theorems, and the C05 theorems
    restated for the modelled codecs. *)
From Coq Require Import ZArith Lia.
From GW Require Import Base GoPath Fs DavServer DavClient DavClientProofs DavClientCodecs.
From GW Require Wire Civil CivilProofs Quote QuoteProofs Href HrefProofs.
Local Open Scope list_scope.

(** What remains assumed: encoding/xml (not modelled) carries the texts the four
    encoders write as character data unchanged. *)
Record text_transparent (iph : N -> bool) (txt : string -> string) : Prop := {
  tt_href : forall p, txt (Href.href_marshal p) = Href.href_marshal p;
  tt_quote : forall t, txt (Quote.quote iph t) = Quote.quote iph t;
  tt_time : forall s, txt (Civil.time_marshal (s, 0%Z)) = Civil.time_marshal (s, 0%Z);
  tt_digits : forall z, txt (dec_z z) = dec_z z
}.

(** ** Domains: C05's are C16's *)

(** absolute, first segment not empty *)
Lemma wf_path_in_domain p : wf_path p = true -> Href.href_in_domain p = true.
Proof.
  unfold wf_path. intros H. apply andb_true_iff in H as [A B]. apply negb_true_iff in B.
  destruct p as [|a r]; [discriminate|]. cbn [is_abs] in A. apply Ascii.eqb_eq in A. unfold slash in A. subst a.
  unfold Href.href_in_domain. rewrite HrefProofs.has_prefix_2slash.
  replace (Href.has_prefix "/" (String "/" r)) with true by reflexivity. cbn [andb].
  destruct r as [|b r]; [reflexivity|].
  cbn [starts_with_2slash] in B. unfold slash in B. rewrite Ascii.eqb_refl in B. cbn [andb] in B.
  unfold Href.has_prefix. cbn [Wire.strip_prefix]. rewrite Ascii.eqb_sym, B. reflexivity.
Qed.

Local Ltac Zify.zify_post_hook ::= Z.div_mod_to_equations.

(** the year time.absDate computes for a day count between 0000-01-01 and 9999-12-31 *)
Lemma abs_date_year d0 : (-366 <= d0 < 3652059)%Z ->
  (0 <= fst (fst (Civil.abs_date d0)) <= 9999)%Z.
Proof.
  intros H. unfold Civil.abs_date. cbv zeta.
  match goal with |- context [if ?c then _ else _] => destruct c end; cbn [fst]; [lia|].
  match goal with |- context [if ?c then _ else _] => destruct c end; cbn [fst]; lia.
Qed.

Lemma year_of_unix_abs_date secs :
  Civil.year_of_unix secs = fst (fst (Civil.abs_date ((secs + Civil.unix_epoch_days * 86400) / 86400))).
Proof.
  unfold Civil.year_of_unix, Civil.civil_of_unix. cbv zeta.
  destruct (Civil.abs_date ((secs + Civil.unix_epoch_days * 86400) / 86400)) as [[y m] d]. reflexivity.
Qed.

(** the seconds of the years 0..9999 (the bounds of [wf_time]) are C16's domain *)
Lemma range_year secs : (-62167219200 <= secs < 253402300800)%Z ->
  (0 <= Civil.year_of_unix secs <= 9999)%Z.
Proof.
  intros H. rewrite year_of_unix_abs_date. apply abs_date_year.
  unfold Civil.unix_epoch_days. lia.
Qed.

Lemma wf_time_year t : wf_time t = true -> is_zero t = false ->
  (0 <= Civil.year_of_unix (t_sec t) <= 9999)%Z.
Proof.
  unfold wf_time. intros W Z. rewrite Z in W. cbn [orb] in W.
  apply andb_true_iff in W as [W _]. apply andb_true_iff in W as [W1 W2].
  apply Z.leb_le in W1. apply Z.ltb_lt in W2. apply range_year. lia.
Qed.

(** ** The laws *)
Section Laws.
  Variable iph : N -> bool.
  Variable txt : string -> string.
  Variable mime : string -> string.
  Hypothesis T : text_transparent iph txt.

  Theorem model_codec_laws : codec_laws (X_model iph txt mime).
  Proof.
    constructor; cbn [X_model x_href_enc x_href_dec x_quote x_unquote x_time_fmt x_time_parse x_text].
    - intros p W. rewrite (tt_href _ _ T). unfold m_href_dec.
      rewrite (HrefProofs.href_roundtrip p (wf_path_in_domain p W)). reflexivity.
    - intros t. rewrite (tt_quote _ _ T). unfold Quote.quote. eexists. reflexivity.
    - intros t. rewrite (tt_quote _ _ T). apply QuoteProofs.unquote_quote.
    - intros t W Z. unfold m_time_fmt. rewrite (tt_time _ _ T). unfold m_time_parse.
      rewrite (CivilProofs.time_roundtrip (t_sec t) 0%Z (wf_time_year t W Z)). reflexivity.
    - apply (tt_digits _ _ T).
  Qed.

  (** ** The C05 theorems for the modelled codecs *)
  Let X := X_model iph txt mime.

  Theorem model_meets_spec_modelled fs ep : ep <> "" -> forall o,
    let '(calls, out) := run_op X fs ep o in spec_ok X fs ep o calls out = true.
  Proof. exact (model_meets_spec X model_codec_laws fs ep). Qed.

  Theorem stat_roundtrip_modelled fs ep name fi :
    fs_stat fs (resolve_href ep name) = FOk fi -> wf_info X fi = true ->
    client_stat X fs ep name = ([CStat (resolve_href ep name)], OInfo (view fi)).
  Proof. exact (stat_roundtrip X model_codec_laws fs ep name fi). Qed.

  Theorem file_info_roundtrip_modelled fi :
    wf_info X fi = true -> file_info_from_response X (wire_of X fi) = Ok (view fi).
  Proof. exact (file_info_roundtrip X model_codec_laws fi). Qed.

  Theorem readdir_roundtrip_modelled fs ep name recursive fi l :
    let p := resolve_href ep name in
    fs_stat fs p = FOk fi -> i_dir fi = true -> fs_readdir fs p recursive = FOk l ->
    forallb (wf_info X) l = true ->
    client_readdir X fs ep name recursive = ([CStat p; CReadDir p recursive], OList (map view l)).
  Proof. exact (readdir_roundtrip X model_codec_laws fs ep name recursive fi l). Qed.

  Theorem readdir_scope_modelled dmeta t writes ep name recursive segs ch :
    (forall p, txt (mime p) = mime p) ->
    (forall q, (fst (dmeta q) < big)%N /\ (snd (dmeta q) < big)%N) ->
    (forall n, t = Some n -> wf_node n) ->
    local_segs (resolve_href ep name) = Ok segs ->
    geto t segs = Some (Dir ch) ->
    exists l,
      client_readdir X (local_fs X dmeta t writes) ep name recursive =
        ([CStat (resolve_href ep name); CReadDir (resolve_href ep name) recursive], OList l) /\
      NoDup (map i_path l) /\
      (forall e, In e l ->
         exists q n, i_path e = external_path q /\ resolve_href ep (i_path e) = i_path e /\
           local_segs (i_path e) = Ok q /\ geto t q = Some n /\ scope recursive segs q /\
           match n with
           | Dir _ => i_dir e = true
           | File c m => i_dir e = false /\ i_size e = Z.of_N (strlen c) /\ i_etag e = etag_of m (strlen c) /\
                         i_mod e = to_second (instant_of_ns m)
           end) /\
      (forall q n, geto t q = Some n -> scope recursive segs q -> In (external_path q) (map i_path l)).
  Proof. intros Hm. exact (readdir_scope X dmeta t writes ep name recursive segs ch model_codec_laws Hm). Qed.

  Theorem stat_local_modelled dmeta t writes ep name segs n :
    (forall p, txt (mime p) = mime p) ->
    (forall q, (fst (dmeta q) < big)%N /\ (snd (dmeta q) < big)%N) ->
    (forall n0, t = Some n0 -> wf_node n0) ->
    local_segs (resolve_href ep name) = Ok segs ->
    geto t segs = Some n ->
    client_stat X (local_fs X dmeta t writes) ep name =
      ([CStat (resolve_href ep name)], OInfo (view (fi_of_node X dmeta segs n))).
  Proof. intros Hm. exact (stat_local X dmeta t writes ep name segs n model_codec_laws Hm). Qed.
End Laws.

(** the remaining hypothesis can be met: XML text that changes nothing *)
Lemma text_transparent_id iph : text_transparent iph (fun s => s).
Proof. constructor; reflexivity. Qed.
