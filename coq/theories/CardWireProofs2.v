(** CardWireProofs2.v — C09, second part: corollaries over lexical variants, the
    client-to-backend composition, the witnesses of the known finding. *)
From Coq Require Import Permutation Lia.
From GW Require Import Base CardXml CardWire CardWireProofs.

(* ------------------------------------------------------------------------- *)
(** * Every lexical variant of a written request reaches the backend as that request *)

Theorem server_denotes_variants up path r d c :
  wf_request r = true -> var (rfc_write r) d -> collides d = false -> limit_fits r = true ->
  backend_call_of up path r = Some c ->
  exists o, handle_report up path d = Ok o /\ canon_outcome o = c.
Proof.
  intros W V Hc Hl Hb. apply (server_denotes_read up path d r c); auto.
  rewrite (rfc_read_var _ _ V). apply rfc_codec, W.
Qed.

Theorem rfc_codec_variants r d :
  wf_request r = true -> var (rfc_write r) d -> rfc_read d = Some r.
Proof. intros W V. rewrite (rfc_read_var _ _ V). apply rfc_codec, W. Qed.

(* ------------------------------------------------------------------------- *)
(** * What the denoted request means for the backend, in terms of the public value *)

Lemma den_match_pub s m : den_match s = Some m -> match_str m = canon_match s.
Proof.
  unfold den_match, canon_match. destruct (str_empty s) eqn:E.
  - intros H; inversion H; reflexivity.
  - intros H. destruct (match_agree _ _ H) as [_ H2]. symmetry; exact H2.
Qed.

Lemma den_test_pub s t : den_test s = Some t -> test_str t = canon_test s.
Proof.
  unfold den_test, canon_test. destruct (str_empty s) eqn:E.
  - intros H; inversion H; reflexivity.
  - intros H. destruct (test_agree _ _ H) as [_ H2]. symmetry; exact H2.
Qed.

Lemma den_tm_pub t t' : den_tm t = Some t' -> pub_tm t' = canon_tm t.
Proof.
  unfold den_tm. intros H. apply obind_some in H. destruct H as [m [Hm H]]. inversion H; subst.
  unfold pub_tm, canon_tm. cbn [rt_text rt_negate rt_match]. rewrite (den_match_pub _ _ Hm). reflexivity.
Qed.

Lemma omapM_map_eq {A B C} (f : A -> option B) (g : B -> C) (h : A -> C) l l' :
  (forall x y, f x = Some y -> g y = h x) -> omapM f l = Some l' -> map g l' = map h l.
Proof.
  intros H. revert l'. induction l as [|x l IH]; simpl; intros l' E.
  - inversion E; reflexivity.
  - apply obind_some in E. destruct E as [y [Ey E]]. apply obind_some in E. destruct E as [ys [Eys E]].
    inversion E; subst. simpl. rewrite (H _ _ Ey), (IH _ Eys). reflexivity.
Qed.

Lemma den_param_pub p p' : den_param p = Some p' -> pub_param p' = canon_param p.
Proof.
  destruct p as [name ind tm]. unfold den_param, canon_param. cbn [pa_name pa_ind pa_tm].
  destruct ind, tm as [t|]; try discriminate; intros H.
  - inversion H; reflexivity.
  - apply obind_some in H. destruct H as [t' [Ht H]]. inversion H; subst.
    unfold pub_param. cbn [rp_cond rp_name]. rewrite (den_tm_pub _ _ Ht). reflexivity.
  - inversion H; reflexivity.
Qed.

Lemma den_pf_pub f f' : den_pf f = Some f' -> pub_pf f' = canon_pf f.
Proof.
  destruct f as [name test ind tms ps]. unfold den_pf, canon_pf. cbn [pf_name pf_test pf_ind pf_tms pf_params].
  intros H. apply obind_some in H. destruct H as [t [Ht H]].
  destruct ind.
  - destruct tms, ps; try discriminate. inversion H; subst. unfold pub_pf.
    cbn [rf_cond rf_name rf_test map]. rewrite (den_test_pub _ _ Ht). reflexivity.
  - apply obind_some in H. destruct H as [tms' [Htms H]]. apply obind_some in H. destruct H as [ps' [Hps H]].
    inversion H; subst. unfold pub_pf. cbn [rf_cond rf_name rf_test].
    rewrite (den_test_pub _ _ Ht), (omapM_map_eq _ _ _ _ _ den_tm_pub Htms),
      (omapM_map_eq _ _ _ _ _ den_param_pub Hps). reflexivity.
Qed.

Lemma client_sel_data dr : sel_data (client_sel dr) = norm_data dr.
Proof.
  destruct dr as [props allprop]. unfold client_sel, sel_data, items_data, den_data, norm_data, pub_data.
  cbn [dr_allprop dr_props]. destruct allprop; reflexivity.
Qed.

Lemma den_query_pub q r : den_query q = Some r -> pub_query r = canon_query (norm_query q).
Proof.
  unfold den_query. intros H. apply obind_some in H. destruct H as [t [Ht H]].
  apply obind_some in H. destruct H as [fs [Hfs H]]. inversion H; subst.
  unfold pub_query, canon_query, norm_query. cbn [rq_sel rq_test rq_filters rq_limit q_data q_filters q_test q_limit].
  rewrite client_sel_data, (den_test_pub _ _ Ht), (omapM_map_eq _ _ _ _ _ den_pf_pub Hfs).
  f_equal. unfold den_limit. destruct (0 <? q_limit q)%Z eqn:E; [|reflexivity].
  apply Z.ltb_lt in E. apply Z2N.id. lia.
Qed.

(* ------------------------------------------------------------------------- *)
(** * Client to backend *)

Definition int_max : Z := 9223372036854775807%Z.

(** C09_end_to_end, query half: every expressible query (a Go int as limit) reaches
    the backend as itself — defaults made explicit, a non-positive limit as 0, the
    property list dropped when all properties are asked for. *)
Theorem end_to_end_query up path q r :
  den_query q = Some r -> (q_limit q <= int_max)%Z ->
  exists d, client_query_doc q = Ok d /\
  exists o, handle_report up path d = Ok o /\
            canon_outcome o = CallQuery path (canon_query (norm_query q)).
Proof.
  intros H Hl. destruct (client_query_conformant q r H) as [d [Ed Rd]].
  exists d. split; [exact Ed|].
  apply (server_denotes_read up path d (RQuery r)); auto.
  - unfold client_query_doc in Ed. destruct (query_address_book q) as [w| |] eqn:Ew; try discriminate.
    cbn [bind] in Ed. inversion Ed; subst. eapply query_nc; eauto.
  - unfold den_query in H. apply obind_some in H. destruct H as [t [_ H]].
    apply obind_some in H. destruct H as [fs [_ H]]. inversion H; subst.
    cbn [limit_fits rq_limit]. unfold den_limit. destruct (0 <? q_limit q)%Z eqn:E; [|reflexivity].
    apply N.ltb_lt. apply Z.ltb_lt in E. unfold two63. unfold int_max in Hl. lia.
  - cbn [backend_call_of]. rewrite (den_query_pub _ _ H). reflexivity.
Qed.

Lemma omapM_up_us (us : string -> string) (up : string -> option string) l :
  (forall p, In p l -> up (us p) = Some p) -> omapM up (map us l) = Some l.
Proof.
  induction l as [|x l IH]; intros H; simpl; [reflexivity|].
  rewrite (H x (or_introl eq_refl)). simpl. rewrite IH by (intros; apply H; right; assumption). reflexivity.
Qed.

(** C09_end_to_end, multiget half.  [us] and [up] are net/url's escaping and parsing
    of a path; the hypothesis is their round trip on the paths of this request. *)
Theorem end_to_end_multiget us up path0 path mg hs :
  (match mg_paths mg with [] => [path0] | l => l end) = hs ->
  (forall p, In p hs -> up (us p) = Some p) ->
  handle_report up path (client_multiget_doc us path0 mg)
  = Ok (CallsGet (map (fun p => (p, norm_data (mg_data mg))) hs)).
Proof.
  intros Hhs Hup.
  pose proof (client_multiget_doc_reads us path0 mg hs Hhs) as R.
  destruct (server_denotes_read up path _ _
              (CallsGet (map (fun p => (p, norm_data (mg_data mg))) hs)) R (multiget_nc us path0 mg) eq_refl)
    as [o [Ho Co]].
  - cbn [backend_call_of rm_hrefs rm_sel]. rewrite (omapM_up_us us up hs Hup). cbn [obind].
    rewrite client_sel_data. reflexivity.
  - rewrite Ho. destruct o; simpl in Co; try discriminate. rewrite Co. reflexivity.
Qed.

(* ------------------------------------------------------------------------- *)
(** * The known finding C09-nsdecl-as-attribute: witnesses *)

Definition kf_up : string -> option string := fun _ => None.
Definition kf_path : string := "/ab/book/".

(** [<C:prop-filter name="FN" xmlns:name="urn:x"/>]: the declaration of the (unused)
    prefix "name" is taken for the attribute name: the backend is asked about a
    property called "urn:x". *)
Definition kf_x_altered : x_request :=
  XQuery (mkXQ RSelNone None [mkXF "FN" None (XPropMatches [] [])] None).
Definition kf_doc_altered : xtree :=
  Elem (C "addressbook-query") []
    [Elem (C "filter") []
       [Elem (C "prop-filter") [plain_attr "name" "FN"; (("xmlns", "name"), "urn:x")] []]].
Definition kf_obs_altered : server_obs :=
  mkSO false 207 [(kf_path, mkQ dr_zero [mkPF "urn:x" "" false [] []] "" 0%Z)] [].

(** [<C:filter xmlns:test="DAV:">]: the declaration is taken for the attribute test,
    whose value is not a filter test: the conformant request is refused. *)
Definition kf_x_refused : x_request := XQuery (mkXQ RSelNone None [] None).
Definition kf_doc_refused : xtree :=
  Elem (C "addressbook-query") [] [Elem (C "filter") [(("xmlns", "test"), "DAV:")] []].
Definition kf_obs_refused : server_obs := mkSO false 400 [] [].

Theorem nsdecl_as_attribute_refuted :
  (rfc_read kf_doc_altered = validate kf_x_altered /\
   var (rfc_write_raw kf_x_altered) kf_doc_altered /\
   server_agrees kf_up kf_path kf_doc_altered kf_obs_altered = true /\
   kf_nsdecl kf_up kf_path kf_x_altered kf_doc_altered kf_obs_altered = true /\
   server_spec_ok kf_up kf_path kf_x_altered kf_doc_altered kf_obs_altered = false) /\
  (rfc_read kf_doc_refused = validate kf_x_refused /\
   var (rfc_write_raw kf_x_refused) kf_doc_refused /\
   server_agrees kf_up kf_path kf_doc_refused kf_obs_refused = true /\
   kf_nsdecl kf_up kf_path kf_x_refused kf_doc_refused kf_obs_refused = true /\
   server_spec_ok kf_up kf_path kf_x_refused kf_doc_refused kf_obs_refused = false).
Proof.
  split; (split; [vm_compute; reflexivity|]); (split; [|vm_compute; auto]).
  - unfold kf_doc_altered, kf_x_altered. cbn. apply V_elem; [apply Permutation_refl|].
    constructor; [|constructor]. apply V_elem; [apply Permutation_refl|].
    constructor; [|constructor]. apply V_elem; [apply Permutation_refl|constructor].
  - unfold kf_doc_refused, kf_x_refused. cbn. apply V_elem; [apply Permutation_refl|].
    constructor; [|constructor]. apply V_elem; [apply Permutation_refl|constructor].
Qed.
