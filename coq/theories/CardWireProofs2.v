(** CardWireProofs2.v — C09, second part: corollaries over lexical variants, the
    client-to-backend composition, the witnesses of the known finding. *)
From Coq Require Import Permutation Lia.
From GW Require Import Base CardXml CardWire CardWireProofs.

(* ------------------------------------------------------------------------- *)
(** * Every lexical variant of a written request reaches the backend as that request *)

Theorem server_denotes_variants up path r d c :
  wf_request r = true -> var (rfc_write r) d -> collides d = false -> limit_fits r = true ->
  backend_call_of up path r = Some c ->
  exists o, handle_report up path d = Ok o /\ canon_outcome o = c.
Proof.
  intros W V Hc Hl Hb. apply (server_denotes_read up path d r c); auto.
  rewrite (rfc_read_var _ _ V). apply rfc_codec, W.
Qed.

Theorem rfc_codec_variants r d :
  wf_request r = true -> var (rfc_write r) d -> rfc_read d = Some r.
Proof. intros W V. rewrite (rfc_read_var _ _ V). apply rfc_codec, W. Qed.

(* ------------------------------------------------------------------------- *)
(** * What the denoted request means for the backend, in terms of the public value *)

Lemma den_match_pub s m : den_match s = Some m -> match_str m = canon_match s.
Proof.
  unfold den_match, canon_match. destruct (str_empty s) eqn:E.
  - intros H; inversion H; reflexivity.
  - intros H. destruct (match_agree _ _ H) as [_ H2]. symmetry; exact H2.
Qed.

Lemma den_test_pub s t : den_test s = Some t -> test_str t = canon_test s.
Proof.
  unfold den_test, canon_test. destruct (str_empty s) eqn:E.
  - intros H; inversion H; reflexivity.
  - intros H. destruct (test_agree _ _ H) as [_ H2]. symmetry; exact H2.
Qed.

Lemma den_tm_pub t t' : den_tm t = Some t' -> pub_tm t' = canon_tm t.
Proof.
  unfold den_tm. intros H. apply obind_some in H. destruct H as [m [Hm H]]. inversion H; subst.
  unfold pub_tm, canon_tm. cbn [rt_text rt_negate rt_match]. rewrite (den_match_pub _ _ Hm). reflexivity.
Qed.

Lemma omapM_map_eq {A B C} (f : A -> option B) (g : B -> C) (h : A -> C) l l' :
  (forall x y, f x = Some y -> g y = h x) -> omapM f l = Some l' -> map g l' = map h l.
Proof.
  intros H. revert l'. induction l as [|x l IH]; simpl; intros l' E.
  - inversion E; reflexivity.
  - apply obind_some in E. destruct E as [y [Ey E]]. apply obind_some in E. destruct E as [ys [Eys E]].
    inversion E; subst. simpl. rewrite (H _ _ Ey), (IH _ Eys). reflexivity.
Qed.

Lemma den_param_pub p p' : den_param p = Some p' -> pub_param p' = canon_param p.
Proof.
  destruct p as [name ind tm]. unfold den_param, canon_param. cbn [pa_name pa_ind pa_tm].
  destruct ind, tm as [t|]; try discriminate; intros H.
  - inversion H; reflexivity.
  - apply obind_some in H. destruct H as [t' [Ht H]]. inversion H; subst.
    unfold pub_param. cbn [rp_cond rp_name]. rewrite (den_tm_pub _ _ Ht). reflexivity.
  - inversion H; reflexivity.
Qed.

Lemma den_pf_pub f f' : den_pf f = Some f' -> pub_pf f' = canon_pf f.
Proof.
  destruct f as [name test ind tms ps]. unfold den_pf, canon_pf. cbn [pf_name pf_test pf_ind pf_tms pf_params].
  intros H. apply obind_some in H. destruct H as [t [Ht H]].
  destruct ind.
  - destruct tms, ps; try discriminate. inversion H; subst. unfold pub_pf.
    cbn [rf_cond rf_name rf_test map]. rewrite (den_test_pub _ _ Ht). reflexivity.
  - apply obind_some in H. destruct H as [tms' [Htms H]]. apply obind_some in H. destruct H as [ps' [Hps H]].
    inversion H; subst. unfold pub_pf. cbn [rf_cond rf_name rf_test].
    rewrite (den_test_pub _ _ Ht), (omapM_map_eq _ _ _ _ _ den_tm_pub Htms),
      (omapM_map_eq _ _ _ _ _ den_param_pub Hps). reflexivity.
Qed.

Lemma client_sel_data dr : sel_data (client_sel dr) = norm_data dr.
Proof.
  destruct dr as [props allprop]. unfold client_sel, sel_data, items_data, den_data, norm_data, pub_data.
  cbn [dr_allprop dr_props]. destruct allprop; reflexivity.
Qed.

Lemma den_query_pub q r : den_query q = Some r -> pub_query r = canon_query (norm_query q).
Proof.
  unfold den_query. intros H. apply obind_some in H. destruct H as [t [Ht H]].
  apply obind_some in H. destruct H as [fs [Hfs H]]. inversion H; subst.
  unfold pub_query, canon_query, norm_query. cbn [rq_sel rq_test rq_filters rq_limit q_data q_filters q_test q_limit].
  rewrite client_sel_data, (den_test_pub _ _ Ht), (omapM_map_eq _ _ _ _ _ den_pf_pub Hfs).
  f_equal. unfold den_limit. destruct (0 <? q_limit q)%Z eqn:E; [|reflexivity].
  apply Z.ltb_lt in E. apply Z2N.id. lia.
Qed.

(* ------------------------------------------------------------------------- *)
(** * Client to backend *)

Definition int_max : Z := 9223372036854775807%Z.

(** C09_end_to_end, query half: every expressible query (a Go int as limit) reaches
    the backend as itself — defaults made explicit, a non-positive limit as 0, the
    property list dropped when all properties are asked for. *)
Theorem end_to_end_query up path q r :
  den_query q = Some r -> (q_limit q <= int_max)%Z ->
  exists d, client_query_doc q = Ok d /\
  exists o, handle_report up path d = Ok o /\
            canon_outcome o = CallQuery path (canon_query (norm_query q)).
Proof.
  intros H Hl. destruct (client_query_conformant q r H) as [d [Ed Rd]].
  exists d. split; [exact Ed|].
  apply (server_denotes_read up path d (RQuery r)); auto.
  - unfold client_query_doc in Ed. destruct (query_address_book q) as [w| |] eqn:Ew; try discriminate.
    cbn [bind] in Ed. inversion Ed; subst. eapply query_nc; eauto.
  - unfold den_query in H. apply obind_some in H. destruct H as [t [_ H]].
    apply obind_some in H. destruct H as [fs [_ H]]. inversion H; subst.
    cbn [limit_fits rq_limit]. unfold den_limit. destruct (0 <? q_limit q)%Z eqn:E; [|reflexivity].
    apply N.ltb_lt. apply Z.ltb_lt in E. unfold two63. unfold int_max in Hl. lia.
  - cbn [backend_call_of]. rewrite (den_query_pub _ _ H). reflexivity.
Qed.

Lemma omapM_up_us (us : string -> string) (up : string -> option string) l :
  (forall p, In p l -> up (us p) = Some p) -> omapM up (map us l) = Some l.
Proof.
  induction l as [|x l IH]; intros H; simpl; [reflexivity|].
  rewrite (H x (or_introl eq_refl)). simpl. rewrite IH by (intros; apply H; right; assumption). reflexivity.
Qed.

(** C09_end_to_end, multiget half.  [us] and [up] are net/url's escaping and parsing
    of a path; the hypothesis is their round trip on the paths of this request. *)
Theorem end_to_end_multiget us up path0 path mg hs :
  (match mg_paths mg with [] => [path0] | l => l end) = hs ->
  (forall p, In p hs -> up (us p) = Some p) ->
  handle_report up path (client_multiget_doc us path0 mg)
  = Ok (CallsGet (map (fun p => (p, norm_data (mg_data mg))) hs)).
Proof.
  intros Hhs Hup.
  pose proof (client_multiget_doc_reads us path0 mg hs Hhs) as R.
  destruct (server_denotes_read up path _ _
              (CallsGet (map (fun p => (p, norm_data (mg_data mg))) hs)) R (multiget_nc us path0 mg) eq_refl)
    as [o [Ho Co]].
  - cbn [backend_call_of rm_hrefs rm_sel]. rewrite (omapM_up_us us up hs Hup). cbn [obind].
    rewrite client_sel_data. reflexivity.
  - rewrite Ho. destruct o; simpl in Co; try discriminate. rewrite Co. reflexivity.
Qed.

(* ------------------------------------------------------------------------- *)
(** * The known finding C09-nsdecl-as-attribute: witnesses *)

Definition kf_up : string -> option string := fun _ => None.
Definition kf_path : string := "/ab/book/".

(** [<C:prop-filter name="FN" xmlns:name="urn:x"/>]: the declaration of the (unused)
    prefix "name" is taken for the attribute name: the backend is asked about a
    property called "urn:x". *)
Definition kf_x_altered : x_request :=
  XQuery (mkXQ RSelNone None [mkXF "FN" None (XPropMatches [] [])] None).
Definition kf_doc_altered : xtree :=
  Elem (C "addressbook-query") []
    [Elem (C "filter") []
       [Elem (C "prop-filter") [plain_attr "name" "FN"; (("xmlns", "name"), "urn:x")] []]].
Definition kf_obs_altered : server_obs :=
  mkSO false 207 [(kf_path, mkQ dr_zero [mkPF "urn:x" "" false [] []] "" 0%Z)] [].

(** [<C:filter xmlns:test="DAV:">]: the declaration is taken for the attribute test,
    whose value is not a filter test: the conformant request is refused. *)
Definition kf_x_refused : x_request := XQuery (mkXQ RSelNone None [] None).
Definition kf_doc_refused : xtree :=
  Elem (C "addressbook-query") [] [Elem (C "filter") [(("xmlns", "test"), "DAV:")] []].
Definition kf_obs_refused : server_obs := mkSO false 400 [] [].

Theorem nsdecl_as_attribute_refuted :
  (rfc_read kf_doc_altered = validate kf_x_altered /\
   var (rfc_write_raw kf_x_altered) kf_doc_altered /\
   server_agrees kf_up kf_path kf_doc_altered kf_obs_altered = true /\
   kf_nsdecl kf_up kf_path kf_x_altered kf_doc_altered kf_obs_altered = true /\
   server_spec_ok kf_up kf_path kf_x_altered kf_doc_altered kf_obs_altered = false) /\
  (rfc_read kf_doc_refused = validate kf_x_refused /\
   var (rfc_write_raw kf_x_refused) kf_doc_refused /\
   server_agrees kf_up kf_path kf_doc_refused kf_obs_refused = true /\
   kf_nsdecl kf_up kf_path kf_x_refused kf_doc_refused kf_obs_refused = true /\
   server_spec_ok kf_up kf_path kf_x_refused kf_doc_refused kf_obs_refused = false).
Proof.
  split; (split; [vm_compute; reflexivity|]); (split; [|vm_compute; auto]).
  - unfold kf_doc_altered, kf_x_altered. cbn. apply V_elem; [apply Permutation_refl|].
    constructor; [|constructor]. apply V_elem; [apply Permutation_refl|].
    constructor; [|constructor]. apply V_elem; [apply Permutation_refl|constructor].
  - unfold kf_doc_refused, kf_x_refused. cbn. apply V_elem; [apply Permutation_refl|].
    constructor; [|constructor]. apply V_elem; [apply Permutation_refl|constructor].
Qed.

(* ------------------------------------------------------------------------- *)
(** * Enumerations: an invalid value is refused with 400, before any backend call.

    [doc_bad_enum d]: somewhere the decoder looks — the test attribute of the filter
    or of a prop-filter, negate-condition / match-type of a text-match below a
    prop-filter or a param-filter — the document [d] carries a string outside the
    RFC's value list.  The statement is about every tree, not only about variants of
    written requests. *)

Definition o4 {A} (r : res A) : Prop :=
  match r with Ok _ => True | Err c => c = 400%N | Panic => False end.

Definition bad_test_attr (l v : string) : bool :=
  String.eqb l "test" && negb (is_some (val_test (Some v))).
Definition bad_tm_attr (l v : string) : bool :=
  (String.eqb l "negate-condition" && negb (is_some (val_negate (Some v))))
  || (String.eqb l "match-type" && negb (is_some (val_match (Some v)))).
Definition attrs_bad (bad : string -> string -> bool) (a : list attr) : bool :=
  existsb (fun x => bad (snd (fst x)) (snd x)) a.
Definition kids_bad (badk : qname -> list attr -> list xtree -> bool) (kids : list xtree) : bool :=
  existsb (fun t => match t with Elem n a k => badk n a k | _ => false end) kids.
Definition tm_bad (n : qname) (a : list attr) (k : list xtree) : bool :=
  String.eqb (snd n) "text-match" && attrs_bad bad_tm_attr a.
Definition pa_bad (n : qname) (a : list attr) (k : list xtree) : bool :=
  String.eqb (snd n) "param-filter" && kids_bad tm_bad k.
Definition pf_bad (n : qname) (a : list attr) (k : list xtree) : bool :=
  String.eqb (snd n) "prop-filter"
  && (attrs_bad bad_test_attr a || kids_bad (fun n a k => tm_bad n a k || pa_bad n a k) k).
Definition f_bad (n : qname) (a : list attr) (k : list xtree) : bool :=
  String.eqb (snd n) "filter" && (attrs_bad bad_test_attr a || kids_bad pf_bad k).
Definition doc_bad_enum (d : xtree) : bool :=
  match d with
  | Elem n a k => qname_eqb n (C "addressbook-query") && kids_bad f_bad k
  | _ => false
  end.

Lemma assign_o4 {W} (set : string -> string -> W -> res W) :
  (forall l v w, o4 (set l v w)) -> forall a w, o4 (assign_attrs set w a).
Proof.
  intros H. induction a as [|x a IH]; intros w; simpl; auto.
  specialize (H (snd (fst x)) (snd x) w). destruct (set (snd (fst x)) (snd x) w); simpl in *; auto.
Qed.

Lemma assign_fail {W} (set : string -> string -> W -> res W) (bad : string -> string -> bool) :
  (forall l v w, o4 (set l v w)) ->
  (forall l v w, bad l v = true -> set l v w = Err 400) ->
  forall a w, attrs_bad bad a = true -> assign_attrs set w a = Err 400.
Proof.
  intros H4 Hb. unfold attrs_bad. induction a as [|x a IH]; intros w E; simpl in *; [discriminate|].
  unfold attr, qname in *.
  apply orb_true_iff in E. destruct E as [E|E].
  - rewrite (Hb _ _ w E). reflexivity.
  - specialize (H4 (snd (fst x)) (snd x) w).
    destruct (set (snd (fst x)) (snd x) w); simpl in *; [apply IH, E|congruence|contradiction].
Qed.

Lemma walk_o4 {W} (step : qname -> list attr -> list xtree -> W -> res W) :
  (forall n a k w, o4 (step n a k w)) -> forall kids w, o4 (walk_kids step w kids).
Proof.
  intros H. induction kids as [|x kids IH]; intros w; simpl; auto.
  destruct x; auto. specialize (H n attrs kids0 w). destruct (step n attrs kids0 w); simpl in *; auto.
Qed.

Lemma walk_fail {W} (step : qname -> list attr -> list xtree -> W -> res W) badk :
  (forall n a k w, o4 (step n a k w)) ->
  (forall n a k w, badk n a k = true -> step n a k w = Err 400) ->
  forall kids w, kids_bad badk kids = true -> walk_kids step w kids = Err 400.
Proof.
  intros H4 Hb. unfold kids_bad. induction kids as [|x kids IH]; intros w E; simpl in *; [discriminate|].
  destruct x as [n a k| |]; simpl in E; auto.
  apply orb_true_iff in E. destruct E as [E|E].
  - rewrite (Hb _ _ _ w E). reflexivity.
  - specialize (H4 n a k w). destruct (step n a k w); simpl in *; [apply IH, E|congruence|contradiction].
Qed.

Lemma o4_bind {A B} (r : res A) (f : A -> res B) : o4 r -> (forall a, o4 (f a)) -> o4 (bind r f).
Proof. destruct r; simpl; auto. Qed.

Lemma o4_ft v : o4 (unmarshal_filter_test v).
Proof. unfold unmarshal_filter_test. destruct (_ || _); simpl; auto. Qed.
Lemma o4_mt v : o4 (unmarshal_match_type v).
Proof. unfold unmarshal_match_type. destruct (_ || _); simpl; auto. Qed.
Lemma o4_ng v : o4 (unmarshal_negate v).
Proof. unfold unmarshal_negate. destruct (String.eqb v "yes"), (String.eqb v "no"); simpl; auto. Qed.
Lemma o4_uint s : o4 (unmarshal_uint s).
Proof. unfold unmarshal_uint. destruct (str_empty s); simpl; auto. destruct (parse_uint64 _); simpl; auto. Qed.

Lemma o4_tm_set l v w : o4 (tm_set l v w).
Proof.
  unfold tm_set. destruct (String.eqb l "collation"); simpl; auto.
  destruct (String.eqb l "negate-condition"); [apply o4_bind; [apply o4_ng|simpl; auto]|].
  destruct (String.eqb l "match-type"); [apply o4_bind; [apply o4_mt|simpl; auto]|]. simpl; auto.
Qed.

Lemma o4_tm w0 n a k : o4 (unmarshal_text_match w0 n a k).
Proof.
  unfold unmarshal_text_match. destruct (negb _); simpl; auto.
  apply o4_bind; [apply assign_o4, o4_tm_set|simpl; auto].
Qed.

Lemma o4_pa_set l v w : o4 (pa_set l v w).
Proof. unfold pa_set. destruct (String.eqb l "name"); simpl; auto. Qed.

Lemma o4_pa_step n a k w : o4 (pa_step n a k w).
Proof.
  unfold pa_step. destruct (String.eqb (snd n) "is-not-defined"); simpl; auto.
  destruct (String.eqb (snd n) "text-match"); simpl; auto.
  apply o4_bind; [apply o4_tm|simpl; auto].
Qed.

Lemma o4_pa w0 n a k : o4 (unmarshal_param_filter w0 n a k).
Proof.
  unfold unmarshal_param_filter. destruct (negb _); simpl; auto.
  apply o4_bind; [apply assign_o4, o4_pa_set|intros; apply walk_o4, o4_pa_step].
Qed.

Lemma o4_pf_set l v w : o4 (pf_set l v w).
Proof.
  unfold pf_set. destruct (String.eqb l "name"); simpl; auto.
  destruct (String.eqb l "test"); simpl; auto. apply o4_bind; [apply o4_ft|simpl; auto].
Qed.

Lemma o4_pf_step n a k w : o4 (pf_step n a k w).
Proof.
  unfold pf_step. destruct (String.eqb (snd n) "is-not-defined"); simpl; auto.
  destruct (String.eqb (snd n) "text-match"); [apply o4_bind; [apply o4_tm|simpl; auto]|].
  destruct (String.eqb (snd n) "param-filter"); [apply o4_bind; [apply o4_pa|simpl; auto]|]. simpl; auto.
Qed.

Lemma o4_pf w0 n a k : o4 (unmarshal_prop_filter w0 n a k).
Proof.
  unfold unmarshal_prop_filter. destruct (negb _); simpl; auto.
  apply o4_bind; [apply assign_o4, o4_pf_set|intros; apply walk_o4, o4_pf_step].
Qed.

Lemma o4_f_set l v w : o4 (f_set l v w).
Proof. unfold f_set. destruct (String.eqb l "test"); simpl; auto. apply o4_bind; [apply o4_ft|simpl; auto]. Qed.

Lemma o4_f_step n a k w : o4 (f_step n a k w).
Proof.
  unfold f_step. destruct (String.eqb (snd n) "prop-filter"); simpl; auto.
  apply o4_bind; [apply o4_pf|simpl; auto].
Qed.

Lemma o4_f w0 n a k : o4 (unmarshal_filter w0 n a k).
Proof.
  unfold unmarshal_filter. destruct (negb _); simpl; auto.
  apply o4_bind; [apply assign_o4, o4_f_set|intros; apply walk_o4, o4_f_step].
Qed.

Lemma o4_lim_step n a k w : o4 (lim_step n a k w).
Proof. unfold lim_step. destruct (String.eqb (snd n) "nresults"); simpl; auto. apply o4_uint. Qed.

Lemma o4_limit w0 n a k : o4 (unmarshal_limit w0 n a k).
Proof. unfold unmarshal_limit. destruct (negb _); simpl; auto. apply walk_o4, o4_lim_step. Qed.

Lemma o4_q_step n a k w : o4 (q_step n a k w).
Proof.
  unfold q_step. destruct (qname_eqb n (NS_DAV, "prop")); simpl; auto.
  destruct (qname_eqb n (NS_DAV, "allprop")); simpl; auto.
  destruct (qname_eqb n (NS_DAV, "propname")); simpl; auto.
  destruct (String.eqb (snd n) "filter"); [apply o4_bind; [apply o4_f|simpl; auto]|].
  destruct (String.eqb (snd n) "limit"); [apply o4_bind; [apply o4_limit|simpl; auto]|]. simpl; auto.
Qed.

(** the decoding of a request document never panics and fails with 400 only *)
Lemma o4_unmarshal_query n a k : o4 (unmarshal_query n a k).
Proof. unfold unmarshal_query. destruct (negb _); simpl; auto. apply walk_o4, o4_q_step. Qed.

Lemma none_not_some {A} (o : option A) : negb (is_some o) = true -> o = None.
Proof. destruct o; simpl; [discriminate|reflexivity]. Qed.

Lemma bad_test_fails v : val_test (Some v) = None -> unmarshal_filter_test v = Err 400.
Proof.
  unfold val_test, unmarshal_filter_test. destruct (String.eqb v "anyof"); [discriminate|].
  destruct (String.eqb v "allof"); [discriminate|reflexivity].
Qed.
Lemma bad_match_fails v : val_match (Some v) = None -> unmarshal_match_type v = Err 400.
Proof.
  unfold val_match, unmarshal_match_type. destruct (String.eqb v "equals"); [discriminate|].
  destruct (String.eqb v "contains"); [discriminate|]. destruct (String.eqb v "starts-with"); [discriminate|].
  destruct (String.eqb v "ends-with"); [discriminate|reflexivity].
Qed.
Lemma bad_negate_fails v : val_negate (Some v) = None -> unmarshal_negate v = Err 400.
Proof.
  unfold val_negate, unmarshal_negate. destruct (String.eqb v "yes"); [discriminate|].
  destruct (String.eqb v "no"); [discriminate|reflexivity].
Qed.

Lemma tm_set_bad l v w : bad_tm_attr l v = true -> tm_set l v w = Err 400.
Proof.
  unfold bad_tm_attr, tm_set. intros H. apply orb_true_iff in H. destruct H as [H|H];
    apply andb_true_iff in H; destruct H as [Hl Hv]; apply String.eqb_eq in Hl; subst l;
    apply none_not_some in Hv; simpl.
  - rewrite (bad_negate_fails _ Hv). reflexivity.
  - rewrite (bad_match_fails _ Hv). reflexivity.
Qed.

Lemma tm_fails w0 n a k : tm_bad n a k = true -> unmarshal_text_match w0 n a k = Err 400.
Proof.
  unfold tm_bad, unmarshal_text_match. intros H. apply andb_true_iff in H. destruct H as [_ H].
  destruct (negb _); [reflexivity|].
  rewrite (assign_fail tm_set bad_tm_attr o4_tm_set tm_set_bad a w0 H). reflexivity.
Qed.

Lemma pa_step_bad n a k w : tm_bad n a k = true -> pa_step n a k w = Err 400.
Proof.
  intros H. pose proof H as H0. unfold tm_bad in H0. apply andb_true_iff in H0. destruct H0 as [Hn _].
  apply String.eqb_eq in Hn. unfold pa_step. rewrite Hn. simpl.
  rewrite (tm_fails _ n a k H). reflexivity.
Qed.

Lemma pa_fails w0 n a k : pa_bad n a k = true -> unmarshal_param_filter w0 n a k = Err 400.
Proof.
  unfold pa_bad, unmarshal_param_filter. intros H. apply andb_true_iff in H. destruct H as [_ H].
  destruct (negb _); [reflexivity|].
  pose proof (assign_o4 pa_set o4_pa_set a w0) as A. destruct (assign_attrs pa_set w0 a); simpl in *; try congruence; try tauto.
  apply (walk_fail pa_step tm_bad o4_pa_step pa_step_bad); exact H.
Qed.

Lemma pf_set_bad l v w : bad_test_attr l v = true -> pf_set l v w = Err 400.
Proof.
  unfold bad_test_attr, pf_set. intros H. apply andb_true_iff in H. destruct H as [Hl Hv].
  apply String.eqb_eq in Hl; subst l. apply none_not_some in Hv. simpl.
  rewrite (bad_test_fails _ Hv). reflexivity.
Qed.

Lemma pf_step_bad n a k w : (tm_bad n a k || pa_bad n a k) = true -> pf_step n a k w = Err 400.
Proof.
  intros H. apply orb_true_iff in H. destruct H as [H|H].
  - pose proof H as H0. unfold tm_bad in H0. apply andb_true_iff in H0. destruct H0 as [Hn _].
    apply String.eqb_eq in Hn. unfold pf_step. rewrite Hn. simpl. rewrite (tm_fails _ n a k H). reflexivity.
  - pose proof H as H0. unfold pa_bad in H0. apply andb_true_iff in H0. destruct H0 as [Hn _].
    apply String.eqb_eq in Hn. unfold pf_step. rewrite Hn. simpl. rewrite (pa_fails _ n a k H). reflexivity.
Qed.

Lemma pf_fails w0 n a k : pf_bad n a k = true -> unmarshal_prop_filter w0 n a k = Err 400.
Proof.
  unfold pf_bad, unmarshal_prop_filter. intros H. apply andb_true_iff in H. destruct H as [_ H].
  destruct (negb _); [reflexivity|]. apply orb_true_iff in H. destruct H as [H|H].
  - rewrite (assign_fail pf_set bad_test_attr o4_pf_set pf_set_bad a w0 H). reflexivity.
  - pose proof (assign_o4 pf_set o4_pf_set a w0) as A. destruct (assign_attrs pf_set w0 a); simpl in *; try congruence; try tauto.
    apply (walk_fail pf_step _ o4_pf_step pf_step_bad); exact H.
Qed.

Lemma f_set_bad l v w : bad_test_attr l v = true -> f_set l v w = Err 400.
Proof.
  unfold bad_test_attr, f_set. intros H. apply andb_true_iff in H. destruct H as [Hl Hv].
  apply String.eqb_eq in Hl; subst l. apply none_not_some in Hv. simpl.
  rewrite (bad_test_fails _ Hv). reflexivity.
Qed.

Lemma f_step_bad n a k w : pf_bad n a k = true -> f_step n a k w = Err 400.
Proof.
  intros H. pose proof H as H0. unfold pf_bad in H0. apply andb_true_iff in H0. destruct H0 as [Hn _].
  apply String.eqb_eq in Hn. unfold f_step. rewrite Hn. simpl. rewrite (pf_fails _ n a k H). reflexivity.
Qed.

Lemma f_fails w0 n a k : f_bad n a k = true -> unmarshal_filter w0 n a k = Err 400.
Proof.
  unfold f_bad, unmarshal_filter. intros H. apply andb_true_iff in H. destruct H as [_ H].
  destruct (negb _); [reflexivity|]. apply orb_true_iff in H. destruct H as [H|H].
  - rewrite (assign_fail f_set bad_test_attr o4_f_set f_set_bad a w0 H). reflexivity.
  - pose proof (assign_o4 f_set o4_f_set a w0) as A. destruct (assign_attrs f_set w0 a); simpl in *; try congruence; try tauto.
    apply (walk_fail f_step _ o4_f_step f_step_bad); exact H.
Qed.

Lemma q_step_bad n a k w : f_bad n a k = true -> q_step n a k w = Err 400.
Proof.
  intros H. pose proof H as H0. unfold f_bad in H0. apply andb_true_iff in H0. destruct H0 as [Hn _].
  apply String.eqb_eq in Hn. unfold q_step, qname_eqb. cbn [fst snd]. rewrite Hn.
  replace (String.eqb "filter" "prop") with false by reflexivity.
  replace (String.eqb "filter" "allprop") with false by reflexivity.
  replace (String.eqb "filter" "propname") with false by reflexivity.
  rewrite !andb_false_r. simpl. rewrite (f_fails _ n a k H). reflexivity.
Qed.

(** C09_enumerations, wire-to-backend direction *)
Theorem server_refuses_invalid_enum up path d :
  doc_bad_enum d = true -> handle_report up path d = Err 400.
Proof.
  destruct d as [n a k| |]; simpl; try discriminate. intros H. apply andb_true_iff in H. destruct H as [Hn H].
  change (NS_CARD, "addressbook-query") with (C "addressbook-query"). rewrite Hn.
  unfold unmarshal_query. apply qname_eqb_spec in Hn. subst n.
  replace (check_name NS_CARD "addressbook-query" (C "addressbook-query")) with true by reflexivity. cbn [negb].
  rewrite (walk_fail q_step f_bad o4_q_step q_step_bad k wq_zero H). reflexivity.
Qed.

(** ** the documents written for raw requests with an invalid enumeration value *)

Lemma kids_bad_app badk l1 l2 : kids_bad badk (l1 ++ l2) = kids_bad badk l1 || kids_bad badk l2.
Proof. unfold kids_bad. apply existsb_app. Qed.

Lemma kids_bad_map {A} badk (f : A -> xtree) (g : A -> bool) l :
  (forall x, g x = true -> match f x with Elem n a k => badk n a k | _ => false end = true) ->
  existsb g l = true -> kids_bad badk (map f l) = true.
Proof.
  intros H E. apply existsb_exists in E. destruct E as [x [Hin Hx]].
  unfold kids_bad. apply existsb_exists. exists (f x). split; [apply in_map, Hin|apply H, Hx].
Qed.

Lemma write_tm_bad t :
  tm_enum_bad t = true -> tm_bad (C "text-match")
    (opt_attr "negate-condition" (xt_negate t) ++ opt_attr "match-type" (xt_match t)) (text_kid (xt_text t)) = true.
Proof.
  unfold tm_enum_bad, tm_bad, attrs_bad. destruct t as [s ng mt]. cbn [xt_negate xt_match xt_text snd C].
  intros H. replace (String.eqb "text-match" "text-match") with true by reflexivity. cbn [andb].
  rewrite existsb_app. apply orb_true_iff in H. destruct H as [H|H].
  - destruct ng as [v|]; [|discriminate]. cbn [opt_attr existsb plain_attr fst snd]. unfold bad_tm_attr.
    replace (String.eqb "negate-condition" "negate-condition") with true by reflexivity.
    cbn [andb]. rewrite H. reflexivity.
  - destruct mt as [v|]; [|discriminate]. cbn [opt_attr existsb plain_attr fst snd]. unfold bad_tm_attr at 2.
    replace (String.eqb "match-type" "match-type") with true by reflexivity.
    replace (String.eqb "match-type" "negate-condition") with false by reflexivity.
    cbn [andb orb]. rewrite H. rewrite !orb_true_r. reflexivity.
Qed.

Lemma write_tm_bad' t :
  tm_enum_bad t = true ->
  match write_tm t with Elem n a k => tm_bad n a k | _ => false end = true.
Proof. intros H. unfold write_tm. apply write_tm_bad, H. Qed.

Lemma write_param_bad p :
  param_enum_bad p = true ->
  match write_param p with Elem n a k => pa_bad n a k | _ => false end = true.
Proof.
  unfold param_enum_bad, write_param, pa_bad. destruct (xp_cond p) as [| |t]; try discriminate.
  intros H. cbn [snd C]. replace (String.eqb "param-filter" "param-filter") with true by reflexivity.
  cbn [andb kids_bad existsb]. rewrite (write_tm_bad' t H). reflexivity.
Qed.

Lemma write_pf_bad f :
  pf_enum_bad f = true ->
  match write_pf f with Elem n a k => pf_bad n a k | _ => false end = true.
Proof.
  unfold pf_enum_bad, write_pf, pf_bad. intros H. cbn [snd C].
  replace (String.eqb "prop-filter" "prop-filter") with true by reflexivity. cbn [andb].
  apply orb_true_iff in H. apply orb_true_iff. destruct H as [H|H].
  - left. destruct (xf_test f) as [v|]; [|discriminate]. unfold attrs_bad, bad_test_attr.
    cbn [opt_attr existsb plain_attr fst snd].
    replace (String.eqb "test" "test") with true by reflexivity. cbn [andb]. rewrite H. rewrite orb_true_r. reflexivity.
  - right. destruct (xf_cond f) as [|tms ps]; [discriminate|]. rewrite kids_bad_app.
    apply orb_true_iff in H. apply orb_true_iff. destruct H as [H|H]; [left|right].
    + apply (kids_bad_map _ write_tm tm_enum_bad); [|exact H].
      intros x Hx. pose proof (write_tm_bad' x Hx) as B. destruct (write_tm x); try discriminate. rewrite B. reflexivity.
    + apply (kids_bad_map _ write_param param_enum_bad); [|exact H].
      intros x Hx. pose proof (write_param_bad x Hx) as B. destruct (write_param x); try discriminate.
      rewrite B. rewrite orb_true_r. reflexivity.
Qed.

Lemma write_query_bad q : enum_bad (XQuery q) = true -> doc_bad_enum (write_query q) = true.
Proof.
  unfold enum_bad, write_query, doc_bad_enum. intros H.
  rewrite qname_eqb_refl. cbn [andb]. rewrite !kids_bad_app. apply orb_true_iff; right. apply orb_true_iff; left.
  cbn [kids_bad existsb]. rewrite orb_false_r. unfold f_bad. cbn [snd C].
  replace (String.eqb "filter" "filter") with true by reflexivity. cbn [andb].
  apply orb_true_iff in H. apply orb_true_iff. destruct H as [H|H]; [left|right].
  - destruct (xq_test q) as [v|]; [|discriminate]. unfold attrs_bad, bad_test_attr.
    cbn [opt_attr existsb plain_attr fst snd].
    replace (String.eqb "test" "test") with true by reflexivity. cbn [andb]. rewrite H. reflexivity.
  - apply (kids_bad_map _ write_pf pf_enum_bad); [|exact H]. intros x Hx. apply write_pf_bad, Hx.
Qed.

(** C09_enumerations for the reference's documents: a raw request with a string outside
    the value lists as test, match-type or negate-condition is not read by the RFC
    reader (C09_rfc_reads_exactly_conformant) and is refused by the server *)
Theorem server_refuses_written_invalid_enum up path x :
  enum_bad x = true -> handle_report up path (rfc_write_raw x) = Err 400.
Proof.
  intros H. apply server_refuses_invalid_enum. destruct x as [q|m]; [|discriminate].
  apply write_query_bad, H.
Qed.

(* ------------------------------------------------------------------------- *)
(** * Defaults.  The reference's own documents carry no namespace declaration at all,
      so every conformant raw request — each attribute absent or written out — reaches
      the backend as the request it denotes. *)

Lemma existsb_false {A} (f : A -> bool) l : (forall x, In x l -> f x = false) -> existsb f l = false.
Proof. induction l; simpl; intros H; auto. rewrite H, IHl; auto. Qed.

Lemma write_tm_nc t : collides (write_tm t) = false.
Proof.
  unfold write_tm. cbn [collides]. destruct t as [s ng mt]. cbn [xt_negate xt_match xt_text].
  unfold text_kid. destruct ng, mt, (str_empty s); reflexivity.
Qed.

Lemma write_param_nc p : collides (write_param p) = false.
Proof.
  unfold write_param. cbn [collides]. replace (attr_collides _ _) with false by reflexivity. cbn [orb].
  destruct (xp_cond p); cbn [existsb]; rewrite ?write_tm_nc; reflexivity.
Qed.

Lemma existsb_map_nc {A} (f : A -> xtree) l : (forall x, collides (f x) = false) -> existsb collides (map f l) = false.
Proof. intros H. induction l; simpl; auto. rewrite H, IHl. reflexivity. Qed.

Lemma write_pf_nc f : collides (write_pf f) = false.
Proof.
  unfold write_pf. cbn [collides].
  replace (attr_collides _ _) with false by (destruct (xf_test f); reflexivity). cbn [orb].
  destruct (xf_cond f); [reflexivity|]. rewrite existsb_app.
  rewrite (existsb_map_nc write_tm _ write_tm_nc), (existsb_map_nc write_param _ write_param_nc). reflexivity.
Qed.

Lemma write_item_nc i : collides (write_item i) = false.
Proof.
  destruct i as [d|n]; [|reflexivity]. unfold write_item, write_data. cbn [collides].
  replace (attr_collides _ _) with false by reflexivity. cbn [orb].
  destruct d; [reflexivity|]. apply existsb_map_nc. intros; reflexivity.
Qed.

Lemma write_sel_nc s : existsb collides (write_sel s) = false.
Proof.
  destruct s; try reflexivity. cbn [write_sel existsb collides].
  replace (attr_collides _ _) with false by reflexivity. cbn [orb].
  rewrite (existsb_map_nc write_item _ write_item_nc). reflexivity.
Qed.

Lemma rfc_write_raw_nc x : collides (rfc_write_raw x) = false.
Proof.
  destruct x as [q|m]; cbn [rfc_write_raw].
  - unfold write_query. cbn [collides]. replace (attr_collides _ _) with false by reflexivity. cbn [orb].
    rewrite !existsb_app, write_sel_nc. cbn [orb existsb collides].
    replace (attr_collides (attr_fields (C "filter")) _) with false by (destruct (xq_test q); reflexivity).
    cbn [orb]. rewrite (existsb_map_nc write_pf _ write_pf_nc). cbn [orb].
    destruct (xq_limit q) as [s|]; [|reflexivity]. unfold write_limit, text_kid. destruct (str_empty s); reflexivity.
  - unfold write_multiget. cbn [collides]. replace (attr_collides _ _) with false by reflexivity. cbn [orb].
    rewrite existsb_app, write_sel_nc. cbn [orb]. apply existsb_map_nc.
    intros h. unfold text_kid. destruct (str_empty h); reflexivity.
Qed.

Theorem server_denotes_raw up path x r c :
  validate x = Some r -> limit_fits r = true -> backend_call_of up path r = Some c ->
  exists o, handle_report up path (rfc_write_raw x) = Ok o /\ canon_outcome o = c.
Proof.
  intros V Hl Hb. apply (server_denotes_read up path _ r c); auto.
  - apply (rfc_read_write_conformant x r V).
  - apply rfc_write_raw_nc.
Qed.

(** C09_defaults *)
Theorem defaults :
  (* the reference: an absent attribute is the RFC's default *)
  val_test None = Some AnyOf /\ val_match None = Some Contains /\ val_negate None = Some false /\
  (* the public API: the zero values of FilterTest and MatchType denote the defaults *)
  den_test "" = Some AnyOf /\ den_match "" = Some Contains /\
  (* a text-match / prop-filter / filter without the attribute denotes what the one with
     the default written out denotes ... *)
  (forall s, val_tm (mkXT s None None) = val_tm (mkXT s (Some "no") (Some "contains"))) /\
  (forall n c, val_pf (mkXF n None c) = val_pf (mkXF n (Some "anyof") c)) /\
  (forall sel fs l, val_query (mkXQ sel None fs l) = val_query (mkXQ sel (Some "anyof") fs l)) /\
  (* ... and both spellings reach the backend as that request *)
  (forall up path x r c,
     validate x = Some r -> limit_fits r = true -> backend_call_of up path r = Some c ->
     exists o, handle_report up path (rfc_write_raw x) = Ok o /\ canon_outcome o = c).
Proof.
  repeat (split; [reflexivity|]). exact server_denotes_raw.
Qed.

Theorem enumerations_valid :
  (forall v t, val_test (Some v) = Some t -> unmarshal_filter_test v = Ok v /\ v = test_str t) /\
  (forall v m, val_match (Some v) = Some m -> unmarshal_match_type v = Ok v /\ v = match_str m) /\
  (forall v x, val_negate (Some v) = Some x -> unmarshal_negate v = Ok x) /\
  (forall v, val_test (Some v) = None -> unmarshal_filter_test v = Err 400) /\
  (forall v, val_match (Some v) = None -> unmarshal_match_type v = Err 400) /\
  (forall v, val_negate (Some v) = None -> unmarshal_negate v = Err 400).
Proof.
  split; [exact test_agree|]. split; [exact match_agree|]. split; [exact negate_agree|].
  split; [exact bad_test_fails|]. split; [exact bad_match_fails|exact bad_negate_fails].
Qed.
