(** CardWireProofs2.v — C09, second part: corollaries over lexical variants, the
    client-to-backend composition, the witnesses of the known finding. *)
From Coq Require Import Permutation Lia.
From GW Require Import Base CardXml CardWire CardWireProofs.

Lemma existsb_false' {A} (f : A -> bool) l : (forall x, In x l -> f x = false) -> existsb f l = false.
Proof. induction l; simpl; intros H; auto. rewrite H, IHl; auto. Qed.

(* ------------------------------------------------------------------------- *)
(** * The decoder's attribute filter (unqualifiedAttrReader) and the reference reader:
      a document the reader accepts is read alike after the filter, and the filtered
      document carries no colliding declaration. *)

Definition strip3 (e : elem3) : elem3 :=
  (fst (fst e), strip_attrs (snd (fst e)), map strip_qualified (snd e)).

Lemma real_attrs_strip fs a : attrs_ok fs a = true -> real_attrs (strip_attrs a) = real_attrs a.
Proof.
  intros H. apply attrs_ok_split in H. destruct H as [H _].
  unfold real_attrs, strip_attrs in *. induction a as [|x a IH]; [reflexivity|].
  cbn [filter] in *. destruct (is_nsdecl x) eqn:N; cbn [negb] in *.
  - destruct (unqualified x); cbn [filter]; [rewrite N; cbn [negb]|]; apply IH, H.
  - cbn [forallb] in H. apply andb_true_iff in H. destruct H as [Hx H].
    apply attr_in_cases in Hx. destruct Hx as [Hns _].
    unfold unqualified. rewrite Hns. cbn [String.eqb filter]. rewrite N. cbn [negb]. f_equal. apply IH, H.
Qed.

Lemma attrs_ok_strip fs a : attrs_ok fs a = true -> attrs_ok fs (strip_attrs a) = true.
Proof. intros H. unfold attrs_ok. rewrite (real_attrs_strip fs a H). exact H. Qed.

Lemma get_attr_strip fs l a : attrs_ok fs a = true -> get_attr l (strip_attrs a) = get_attr l a.
Proof. intros H. unfold get_attr. rewrite (real_attrs_strip fs a H). reflexivity. Qed.

Lemma elems_strip k es : elems k = Some es -> elems (map strip_qualified k) = Some (map strip3 es).
Proof.
  revert es. induction k as [|x k IH]; simpl; intros es H.
  - inversion H; reflexivity.
  - destruct x as [n a kk|s|s]; simpl.
    + destruct (elems k) as [es'|]; simpl in H; [|discriminate]. inversion H; subst.
      rewrite (IH es' eq_refl). reflexivity.
    + destruct (is_ws s); [auto|discriminate].
    + auto.
Qed.

Lemma pcdata_strip k : pcdata (map strip_qualified k) = pcdata k.
Proof.
  induction k as [|x k IH]; simpl; auto. destruct x; simpl; auto. rewrite IH. reflexivity.
Qed.

Lemma no_content_strip k : no_content (map strip_qualified k) = no_content k.
Proof. destruct k; reflexivity. Qed.

Lemma is_empty_elem_strip name e : is_empty_elem name e = true -> is_empty_elem name (strip3 e) = true.
Proof.
  destruct e as [[n a] k]. unfold is_empty_elem, strip3. cbn [fst snd]. intros H.
  apply andb_true_iff in H. destruct H as [H Hk]. apply andb_true_iff in H. destruct H as [Hn Ha].
  rewrite Hn, (attrs_ok_strip _ _ Ha), no_content_strip, Hk. reflexivity.
Qed.

Lemma is_empty_elem_strip_name name e : is_empty_elem name (strip3 e) = true -> fst (fst e) = name.
Proof. destruct e as [[n a] k]. unfold strip3. cbn [fst snd]. apply is_empty_elem_name. Qed.

Lemma ite_strip {X} name c (A : option X) (B : elem3 -> option X) v :
  (forall v, B c = Some v -> fst (fst c) <> name) ->
  (forall v, B c = Some v -> B (strip3 c) = Some v) ->
  (if is_empty_elem name c then A else B c) = Some v ->
  (if is_empty_elem name (strip3 c) then A else B (strip3 c)) = Some v.
Proof.
  intros Hn Hs H. destruct (is_empty_elem name c) eqn:E.
  - rewrite (is_empty_elem_strip _ _ E). exact H.
  - destruct (is_empty_elem name (strip3 c)) eqn:E'; [|apply Hs, H].
    apply is_empty_elem_strip_name in E'. exfalso. exact (Hn _ H E').
Qed.

Lemma omapM_strip {B} (f : elem3 -> option B) es l :
  (forall e v, f e = Some v -> f (strip3 e) = Some v) ->
  omapM f es = Some l -> omapM f (map strip3 es) = Some l.
Proof.
  intros H. revert l. induction es as [|e es IH]; simpl; intros l E; auto.
  apply obind_some in E. destruct E as [y [Ey E]]. apply obind_some in E. destruct E as [ys [Eys E]].
  rewrite (H _ _ Ey). simpl. rewrite (IH _ Eys). exact E.
Qed.

Lemma read_tm_strip e t : read_tm e = Some t -> read_tm (strip3 e) = Some t.
Proof.
  destruct e as [[n a] k]. unfold strip3, read_tm. cbn [fst snd].
  destruct (qname_eqb n (C "text-match")); [|discriminate]. cbn [negb].
  destruct (attrs_ok ["collation"; "negate-condition"; "match-type"] a) eqn:Ea; [|discriminate]. cbn [negb].
  rewrite (attrs_ok_strip _ _ Ea), !(get_attr_strip _ _ _ Ea), pcdata_strip. cbn [negb]. auto.
Qed.

Lemma read_param_strip e p : read_param e = Some p -> read_param (strip3 e) = Some p.
Proof.
  destruct e as [[n a] k]. unfold strip3, read_param. cbn [fst snd].
  destruct (qname_eqb n (C "param-filter")); [|discriminate]. cbn [negb].
  destruct (attrs_ok ["name"] a) eqn:Ea; [|discriminate]. cbn [negb].
  rewrite (attrs_ok_strip _ _ Ea), (get_attr_strip _ _ _ Ea). cbn [negb].
  destruct (get_attr "name" a) as [name|]; cbn [obind]; [|discriminate].
  destruct (elems k) as [es|] eqn:Ek; cbn [obind]; [|discriminate].
  rewrite (elems_strip _ _ Ek). cbn [obind].
  destruct es as [|c [|c2 es]]; cbn [map]; auto.
  apply (ite_strip (C "is-not-defined") c _ (fun c => olet t <- read_tm c; Some (mkRP name (RParamText t)))).
  - intros v Hv. apply obind_some in Hv. destruct Hv as [t [Ht _]].
    destruct c as [[n1 a1] k1]. apply read_tm_name in Ht. cbn [fst]. subst n1. intros X. discriminate X.
  - intros v Hv. apply obind_some in Hv. destruct Hv as [t [Ht Hv]]. rewrite (read_tm_strip _ _ Ht). exact Hv.
Qed.

Lemma read_pf_kids_strip es x : read_pf_kids es = Some x -> read_pf_kids (map strip3 es) = Some x.
Proof.
  revert x. induction es as [|e es IH]; cbn [read_pf_kids map]; intros x H; auto.
  apply obind_some in H. destruct H as [rest [Hr H]]. rewrite (IH _ Hr). cbn [obind].
  replace (fst (fst (strip3 e))) with (fst (fst e)) by (destruct e as [[? ?] ?]; reflexivity).
  destruct (qname_eqb (fst (fst e)) (C "text-match")).
  - apply obind_some in H. destruct H as [t [Ht H]]. rewrite (read_tm_strip _ _ Ht). exact H.
  - destruct (qname_eqb (fst (fst e)) (C "param-filter")); [|discriminate].
    apply obind_some in H. destruct H as [p [Hp H]]. rewrite (read_param_strip _ _ Hp). exact H.
Qed.

Lemma read_pf_kids_names c x : read_pf_kids [c] = Some x -> fst (fst c) <> C "is-not-defined".
Proof.
  simpl. destruct (qname_eqb (fst (fst c)) (C "text-match")) eqn:E1.
  - intros _. apply qname_eqb_spec in E1. rewrite E1. discriminate.
  - destruct (qname_eqb (fst (fst c)) (C "param-filter")) eqn:E2; [|discriminate].
    intros _. apply qname_eqb_spec in E2. rewrite E2. discriminate.
Qed.

Lemma read_pf_strip e f : read_pf e = Some f -> read_pf (strip3 e) = Some f.
Proof.
  destruct e as [[n a] k]. unfold strip3, read_pf. cbn [fst snd].
  destruct (qname_eqb n (C "prop-filter")); [|discriminate]. cbn [negb].
  destruct (attrs_ok ["name"; "test"] a) eqn:Ea; [|discriminate]. cbn [negb].
  rewrite (attrs_ok_strip _ _ Ea), !(get_attr_strip _ _ _ Ea). cbn [negb].
  destruct (get_attr "name" a) as [name|]; cbn [obind]; [|discriminate].
  destruct (val_test (get_attr "test" a)) as [t|]; cbn [obind]; [|discriminate].
  destruct (elems k) as [es|] eqn:Ek; cbn [obind]; [|discriminate].
  rewrite (elems_strip _ _ Ek). cbn [obind].
  assert (G : forall v, (olet x <- read_pf_kids es; Some (mkRF name t (RPropMatches (fst x) (snd x)))) = Some v ->
                        (olet x <- read_pf_kids (map strip3 es); Some (mkRF name t (RPropMatches (fst x) (snd x)))) = Some v).
  { intros v Hv. apply obind_some in Hv. destruct Hv as [x [Hx Hv]]. rewrite (read_pf_kids_strip _ _ Hx). exact Hv. }
  destruct es as [|c [|c2 es]]; try apply G.
  cbn [map]. apply (ite_strip (C "is-not-defined") c _ (fun c => olet x <- read_pf_kids [c]; Some (mkRF name t (RPropMatches (fst x) (snd x))))).
  - intros v Hv. apply obind_some in Hv. destruct Hv as [x [Hx _]]. exact (read_pf_kids_names _ _ Hx).
  - intros v. apply (G v).
Qed.

Lemma read_filter_strip e x : read_filter e = Some x -> read_filter (strip3 e) = Some x.
Proof.
  destruct e as [[n a] k]. unfold strip3, read_filter. cbn [fst snd].
  destruct (qname_eqb n (C "filter")); [|discriminate]. cbn [negb].
  destruct (attrs_ok ["test"] a) eqn:Ea; [|discriminate]. cbn [negb].
  rewrite (attrs_ok_strip _ _ Ea), (get_attr_strip _ _ _ Ea). cbn [negb].
  destruct (val_test (get_attr "test" a)) as [t|]; cbn [obind]; [|discriminate].
  destruct (elems k) as [es|] eqn:Ek; cbn [obind]; [|discriminate].
  rewrite (elems_strip _ _ Ek). cbn [obind]. intros H.
  apply obind_some in H. destruct H as [fs [Hfs H]]. rewrite (omapM_strip read_pf es fs read_pf_strip Hfs). exact H.
Qed.

Lemma read_limit_strip e l : read_limit e = Some l -> read_limit (strip3 e) = Some l.
Proof.
  destruct e as [[n a] k]. unfold strip3, read_limit. cbn [fst snd].
  destruct (qname_eqb n (C "limit")); [|discriminate].
  destruct (attrs_ok [] a) eqn:Ea; [|discriminate]. rewrite (attrs_ok_strip _ _ Ea). cbn [andb negb].
  destruct (elems k) as [es|] eqn:Ek; cbn [obind]; [|discriminate].
  rewrite (elems_strip _ _ Ek). cbn [obind].
  destruct es as [|[[n1 a1] k1] [|c2 es]]; cbn [map strip3 fst snd]; auto.
  destruct (qname_eqb n1 (C "nresults")); [|discriminate].
  destruct (attrs_ok [] a1) eqn:Ea1; [|discriminate]. rewrite (attrs_ok_strip _ _ Ea1). cbn [andb negb].
  rewrite pcdata_strip. auto.
Qed.

Lemma read_cprop_strip e s : read_cprop e = Some s -> read_cprop (strip3 e) = Some s.
Proof.
  destruct e as [[n a] k]. unfold strip3, read_cprop. cbn [fst snd].
  destruct (qname_eqb n (C "prop")); [|discriminate].
  destruct (attrs_ok ["name"; "novalue"] a) eqn:Ea; [|discriminate].
  rewrite (attrs_ok_strip _ _ Ea), no_content_strip, !(get_attr_strip _ _ _ Ea). auto.
Qed.

Lemma read_cprop_name c s : read_cprop c = Some s -> fst (fst c) = C "prop".
Proof.
  destruct c as [[n a] k]. unfold read_cprop. destruct (qname_eqb n (C "prop")) eqn:E; [|discriminate].
  intros _. apply qname_eqb_spec in E. exact E.
Qed.

Lemma read_data_strip e d : read_data e = Some d -> read_data (strip3 e) = Some d.
Proof.
  destruct e as [[n a] k]. unfold strip3, read_data. cbn [fst snd].
  destruct (qname_eqb n (C "address-data")); [|discriminate].
  destruct (attrs_ok [] a) eqn:Ea; [|discriminate]. rewrite (attrs_ok_strip _ _ Ea). cbn [andb negb].
  destruct (elems k) as [es|] eqn:Ek; cbn [obind]; [|discriminate].
  rewrite (elems_strip _ _ Ek). cbn [obind].
  assert (G : forall v, (olet names <- omapM read_cprop es; Some (RProps names)) = Some v ->
                        (olet names <- omapM read_cprop (map strip3 es); Some (RProps names)) = Some v).
  { intros v Hv. apply obind_some in Hv. destruct Hv as [x [Hx Hv]].
    rewrite (omapM_strip read_cprop es x read_cprop_strip Hx). exact Hv. }
  destruct es as [|c [|c2 es]]; try apply G.
  cbn [map]. apply (ite_strip (C "allprop") c _ (fun c => olet names <- omapM read_cprop [c]; Some (RProps names))).
  - intros v Hv. apply obind_some in Hv. destruct Hv as [x [Hx _]]. simpl in Hx.
    apply obind_some in Hx. destruct Hx as [s [Hs _]]. rewrite (read_cprop_name _ _ Hs). discriminate.
  - intros v. apply (G v).
Qed.

Lemma read_item_strip e i : read_item e = Some i -> read_item (strip3 e) = Some i.
Proof.
  unfold read_item. replace (fst (fst (strip3 e))) with (fst (fst e)) by (destruct e as [[? ?] ?]; reflexivity).
  destruct (qname_eqb (fst (fst e)) (C "address-data")); auto.
  intros H. apply obind_some in H. destruct H as [d [Hd H]]. rewrite (read_data_strip _ _ Hd). exact H.
Qed.

Lemma read_sel_strip e s : read_sel e = Some s -> read_sel (strip3 e) = Some s.
Proof.
  unfold read_sel. destruct e as [[n a] k].
  set (B2 := fun e : elem3 => let '(n, a, k) := e in
               if qname_eqb n (D "prop") && attrs_ok [] a
               then olet es <- elems k; olet items <- omapM read_item es; Some (RSelProp items) else None).
  set (B1 := fun e : elem3 => if is_empty_elem (D "propname") e then Some RSelPropName else B2 e).
  assert (H2n : forall v, B2 (n, a, k) = Some v -> n = D "prop").
  { unfold B2. intros v. destruct (qname_eqb n (D "prop")) eqn:E; [|discriminate]. intros _. apply qname_eqb_spec, E. }
  assert (H2s : forall v, B2 (n, a, k) = Some v -> B2 (strip3 (n, a, k)) = Some v).
  { unfold B2, strip3. cbn [fst snd]. intros v. destruct (qname_eqb n (D "prop")); [|discriminate].
    destruct (attrs_ok [] a) eqn:Ea; [|discriminate]. rewrite (attrs_ok_strip _ _ Ea). cbn [andb].
    destruct (elems k) as [es|] eqn:Ek; cbn [obind]; [|discriminate]. rewrite (elems_strip _ _ Ek). cbn [obind].
    intros H. apply obind_some in H. destruct H as [items [Hi H]].
    rewrite (omapM_strip read_item es items read_item_strip Hi). exact H. }
  assert (H1s : forall v, B1 (n, a, k) = Some v -> B1 (strip3 (n, a, k)) = Some v).
  { intros v. unfold B1. apply ite_strip; [|exact H2s].
    intros v' Hv'. cbn [fst]. rewrite (H2n _ Hv'). discriminate. }
  intros H.
  apply (ite_strip (D "allprop") (n, a, k) (Some RSelAllProp) B1 s); [|exact H1s|exact H].
  intros v Hv. cbn [fst]. unfold B1 in Hv. destruct (is_empty_elem (D "propname") (n, a, k)) eqn:E.
  - apply is_empty_elem_name in E. subst n. discriminate.
  - rewrite (H2n _ Hv). discriminate.
Qed.

Lemma fst_strip3 e : fst (fst (strip3 e)) = fst (fst e).
Proof. destruct e as [[? ?] ?]; reflexivity. Qed.

Lemma read_query_kids_strip es : forall acc acc',
  read_query_kids es acc = Some acc' -> read_query_kids (map strip3 es) acc = Some acc'.
Proof.
  induction es as [|e es IH]; cbn [read_query_kids map]; intros acc acc' H; auto. rewrite fst_strip3.
  destruct (is_sel_name (fst (fst e))).
  { destruct (qa_sel acc); [discriminate|]. apply obind_some in H. destruct H as [s [Hs H]].
    rewrite (read_sel_strip _ _ Hs). cbn [obind]. apply IH, H. }
  destruct (qname_eqb (fst (fst e)) (C "filter")).
  { destruct (qa_filter acc); [discriminate|]. apply obind_some in H. destruct H as [s [Hs H]].
    rewrite (read_filter_strip _ _ Hs). cbn [obind]. apply IH, H. }
  destruct (qname_eqb (fst (fst e)) (C "limit")); [|discriminate].
  destruct (qa_limit acc); [discriminate|]. apply obind_some in H. destruct H as [s [Hs H]].
  rewrite (read_limit_strip _ _ Hs). cbn [obind]. apply IH, H.
Qed.

Lemma read_href_strip e h : read_href e = Some h -> read_href (strip3 e) = Some h.
Proof.
  destruct e as [[n a] k]. unfold strip3, read_href. cbn [fst snd].
  destruct (qname_eqb n (D "href")); [|discriminate].
  destruct (attrs_ok [] a) eqn:Ea; [|discriminate]. rewrite (attrs_ok_strip _ _ Ea). cbn [andb negb].
  rewrite pcdata_strip. auto.
Qed.

Lemma read_multiget_kids_strip es : forall sel x,
  read_multiget_kids es sel = Some x -> read_multiget_kids (map strip3 es) sel = Some x.
Proof.
  induction es as [|e es IH]; cbn [read_multiget_kids map]; intros sel x H; auto. rewrite fst_strip3.
  destruct (is_sel_name (fst (fst e))).
  { destruct sel; [discriminate|]. apply obind_some in H. destruct H as [s [Hs H]].
    rewrite (read_sel_strip _ _ Hs). cbn [obind]. apply IH, H. }
  destruct (qname_eqb (fst (fst e)) (D "href")); [|discriminate].
  apply obind_some in H. destruct H as [h [Hh H]]. rewrite (read_href_strip _ _ Hh). cbn [obind].
  apply obind_some in H. destruct H as [rest [Hr H]]. rewrite (IH _ _ Hr). exact H.
Qed.

(** the reader accepts the filtered document as the same request *)
Theorem rfc_read_strip d r : rfc_read d = Some r -> rfc_read (strip_qualified d) = Some r.
Proof.
  destruct d as [n a k| |]; try discriminate. cbn [strip_qualified]. unfold rfc_read.
  destruct (qname_eqb n (C "addressbook-query")).
  - unfold read_query. destruct (attrs_ok [] a) eqn:Ea; [|discriminate]. rewrite (attrs_ok_strip _ _ Ea). cbn [negb].
    destruct (elems k) as [es|] eqn:Ek; cbn [obind]; [|discriminate]. rewrite (elems_strip _ _ Ek). cbn [obind].
    intros H. apply obind_some in H. destruct H as [q [Hq H]]. apply obind_some in Hq. destruct Hq as [acc [Hacc Hq]].
    rewrite (read_query_kids_strip _ _ _ Hacc). cbn [obind]. rewrite Hq. exact H.
  - destruct (qname_eqb n (C "addressbook-multiget")); [|discriminate].
    unfold read_multiget. destruct (attrs_ok [] a) eqn:Ea; [|discriminate]. rewrite (attrs_ok_strip _ _ Ea). cbn [negb].
    destruct (elems k) as [es|] eqn:Ek; cbn [obind]; [|discriminate]. rewrite (elems_strip _ _ Ek). cbn [obind].
    intros H. apply obind_some in H. destruct H as [m [Hm H]]. apply obind_some in Hm. destruct Hm as [x [Hx Hm]].
    rewrite (read_multiget_kids_strip _ _ _ Hx). cbn [obind]. rewrite Hm. exact H.
Qed.

(** the filtered document carries no colliding declaration *)
Lemma strip_attrs_nc n a : attr_collides (attr_fields n) (strip_attrs a) = false.
Proof.
  unfold attr_collides. apply existsb_false'. intros x Hx.
  unfold strip_attrs in Hx. apply filter_In in Hx. destruct Hx as [_ Hu].
  unfold unqualified in Hu. apply String.eqb_eq in Hu.
  unfold is_nsdecl. rewrite Hu. cbn [String.eqb orb andb].
  destruct (String.eqb (snd (fst x)) "xmlns") eqn:E; [|reflexivity].
  apply String.eqb_eq in E. rewrite E. unfold attr_fields.
  destruct (qname_eqb n (C "filter")); [reflexivity|]. destruct (qname_eqb n (C "prop-filter")); [reflexivity|].
  destruct (qname_eqb n (C "param-filter")); [reflexivity|]. destruct (qname_eqb n (C "text-match")); reflexivity.
Qed.

Lemma strip_nc t : collides (strip_qualified t) = false.
Proof.
  induction t as [n a k IH|s|s] using xtree_ind2; try reflexivity.
  cbn [strip_qualified collides]. rewrite strip_attrs_nc. cbn [orb].
  induction IH as [|x k Hx _ IHk]; simpl; auto. rewrite Hx, IHk. reflexivity.
Qed.

(** C09_server_denotes: every document the RFC reader accepts - whatever wrote it -
    reaches the backend as the request it denotes *)
Theorem server_denotes_read up path d r c :
  rfc_read d = Some r -> limit_fits r = true -> backend_call_of up path r = Some c ->
  exists o, handle_report up path d = Ok o /\ canon_outcome o = c.
Proof.
  intros H Hl Hb. unfold handle_report.
  apply (server_denotes_decoded up path _ r c); auto using rfc_read_strip, strip_nc.
Qed.

(* ------------------------------------------------------------------------- *)
(** * Every lexical variant of a written request reaches the backend as that request *)

Theorem server_denotes_variants up path r d c :
  wf_request r = true -> var (rfc_write r) d -> limit_fits r = true ->
  backend_call_of up path r = Some c ->
  exists o, handle_report up path d = Ok o /\ canon_outcome o = c.
Proof.
  intros W V Hl Hb. apply (server_denotes_read up path d r c); auto.
  rewrite (rfc_read_var _ _ V). apply rfc_codec, W.
Qed.

Theorem rfc_codec_variants r d :
  wf_request r = true -> var (rfc_write r) d -> rfc_read d = Some r.
Proof. intros W V. rewrite (rfc_read_var _ _ V). apply rfc_codec, W. Qed.

(* ------------------------------------------------------------------------- *)
(** * What the denoted request means for the backend, in terms of the public value *)

Lemma den_match_pub s m : den_match s = Some m -> match_str m = canon_match s.
Proof.
  unfold den_match, canon_match. destruct (str_empty s) eqn:E.
  - intros H; inversion H; reflexivity.
  - intros H. destruct (match_agree _ _ H) as [_ H2]. symmetry; exact H2.
Qed.

Lemma den_test_pub s t : den_test s = Some t -> test_str t = canon_test s.
Proof.
  unfold den_test, canon_test. destruct (str_empty s) eqn:E.
  - intros H; inversion H; reflexivity.
  - intros H. destruct (test_agree _ _ H) as [_ H2]. symmetry; exact H2.
Qed.

Lemma den_tm_pub t t' : den_tm t = Some t' -> pub_tm t' = canon_tm t.
Proof.
  unfold den_tm. intros H. apply obind_some in H. destruct H as [m [Hm H]]. inversion H; subst.
  unfold pub_tm, canon_tm. cbn [rt_text rt_negate rt_match]. rewrite (den_match_pub _ _ Hm). reflexivity.
Qed.

Lemma omapM_map_eq {A B C} (f : A -> option B) (g : B -> C) (h : A -> C) l l' :
  (forall x y, f x = Some y -> g y = h x) -> omapM f l = Some l' -> map g l' = map h l.
Proof.
  intros H. revert l'. induction l as [|x l IH]; simpl; intros l' E.
  - inversion E; reflexivity.
  - apply obind_some in E. destruct E as [y [Ey E]]. apply obind_some in E. destruct E as [ys [Eys E]].
    inversion E; subst. simpl. rewrite (H _ _ Ey), (IH _ Eys). reflexivity.
Qed.

Lemma den_param_pub p p' : den_param p = Some p' -> pub_param p' = canon_param p.
Proof.
  destruct p as [name ind tm]. unfold den_param, canon_param. cbn [pa_name pa_ind pa_tm].
  destruct ind, tm as [t|]; try discriminate; intros H.
  - inversion H; reflexivity.
  - apply obind_some in H. destruct H as [t' [Ht H]]. inversion H; subst.
    unfold pub_param. cbn [rp_cond rp_name]. rewrite (den_tm_pub _ _ Ht). reflexivity.
  - inversion H; reflexivity.
Qed.

Lemma den_pf_pub f f' : den_pf f = Some f' -> pub_pf f' = canon_pf f.
Proof.
  destruct f as [name test ind tms ps]. unfold den_pf, canon_pf. cbn [pf_name pf_test pf_ind pf_tms pf_params].
  intros H. apply obind_some in H. destruct H as [t [Ht H]].
  destruct ind.
  - destruct tms, ps; try discriminate. inversion H; subst. unfold pub_pf.
    cbn [rf_cond rf_name rf_test map]. rewrite (den_test_pub _ _ Ht). reflexivity.
  - apply obind_some in H. destruct H as [tms' [Htms H]]. apply obind_some in H. destruct H as [ps' [Hps H]].
    inversion H; subst. unfold pub_pf. cbn [rf_cond rf_name rf_test].
    rewrite (den_test_pub _ _ Ht), (omapM_map_eq _ _ _ _ _ den_tm_pub Htms),
      (omapM_map_eq _ _ _ _ _ den_param_pub Hps). reflexivity.
Qed.

Lemma client_sel_data dr : sel_data (client_sel dr) = norm_data dr.
Proof.
  destruct dr as [props allprop]. unfold client_sel, sel_data, items_data, den_data, norm_data, pub_data.
  cbn [dr_allprop dr_props]. destruct allprop; reflexivity.
Qed.

Lemma den_query_pub q r : den_query q = Some r -> pub_query r = canon_query (norm_query q).
Proof.
  unfold den_query. intros H. apply obind_some in H. destruct H as [t [Ht H]].
  apply obind_some in H. destruct H as [fs [Hfs H]]. inversion H; subst.
  unfold pub_query, canon_query, norm_query. cbn [rq_sel rq_test rq_filters rq_limit q_data q_filters q_test q_limit].
  rewrite client_sel_data, (den_test_pub _ _ Ht), (omapM_map_eq _ _ _ _ _ den_pf_pub Hfs).
  f_equal. unfold den_limit. destruct (0 <? q_limit q)%Z eqn:E; [|reflexivity].
  apply Z.ltb_lt in E. apply Z2N.id. lia.
Qed.

(* ------------------------------------------------------------------------- *)
(** * Client to backend *)

Definition int_max : Z := 9223372036854775807%Z.

(** C09_end_to_end, query half: every expressible query (a Go int as limit) reaches
    the backend as itself — defaults made explicit, a non-positive limit as 0, the
    property list dropped when all properties are asked for. *)
Theorem end_to_end_query up path q r :
  den_query q = Some r -> (q_limit q <= int_max)%Z ->
  exists d, client_query_doc q = Ok d /\
  exists o, handle_report up path d = Ok o /\
            canon_outcome o = CallQuery path (canon_query (norm_query q)).
Proof.
  intros H Hl. destruct (client_query_conformant q r H) as [d [Ed Rd]].
  exists d. split; [exact Ed|].
  apply (server_denotes_read up path d (RQuery r)); auto.
  - unfold den_query in H. apply obind_some in H. destruct H as [t [_ H]].
    apply obind_some in H. destruct H as [fs [_ H]]. inversion H; subst.
    cbn [limit_fits rq_limit]. unfold den_limit. destruct (0 <? q_limit q)%Z eqn:E; [|reflexivity].
    apply N.ltb_lt. apply Z.ltb_lt in E. unfold two63. unfold int_max in Hl. lia.
  - cbn [backend_call_of]. rewrite (den_query_pub _ _ H). reflexivity.
Qed.

Lemma omapM_up_us (us : string -> string) (up : string -> option string) l :
  (forall p, In p l -> up (us p) = Some p) -> omapM up (map us l) = Some l.
Proof.
  induction l as [|x l IH]; intros H; simpl; [reflexivity|].
  rewrite (H x (or_introl eq_refl)). simpl. rewrite IH by (intros; apply H; right; assumption). reflexivity.
Qed.

(** C09_end_to_end, multiget half.  [us] and [up] are net/url's escaping and parsing
    of a path; the hypothesis is their round trip on the paths of this request. *)
Theorem end_to_end_multiget us up path0 path mg hs :
  (match mg_paths mg with [] => [path0] | l => l end) = hs ->
  (forall p, In p hs -> up (us p) = Some p) ->
  handle_report up path (client_multiget_doc us path0 mg)
  = Ok (CallsGet (map (fun p => (p, norm_data (mg_data mg))) hs)).
Proof.
  intros Hhs Hup.
  pose proof (client_multiget_doc_reads us path0 mg hs Hhs) as R.
  destruct (server_denotes_read up path _ _
              (CallsGet (map (fun p => (p, norm_data (mg_data mg))) hs)) R eq_refl)
    as [o [Ho Co]].
  - cbn [backend_call_of rm_hrefs rm_sel]. rewrite (omapM_up_us us up hs Hup). cbn [obind].
    rewrite client_sel_data. reflexivity.
  - rewrite Ho. destruct o; simpl in Co; try discriminate. rewrite Co. reflexivity.
Qed.

(* ------------------------------------------------------------------------- *)
(** * The repaired defect "namespace declaration taken for an attribute": witnesses.
      [handle_decoded] on the unfiltered tree is the code before the repair. *)

Definition kf_up : string -> option string := fun _ => None.
Definition kf_path : string := "/ab/book/".

(** [<C:prop-filter name="FN" xmlns:name="urn:x"/>]: the declaration of the (unused)
    prefix "name" was taken for the attribute name: the backend was asked about a
    property called "urn:x". *)
Definition kf_x_altered : x_request :=
  XQuery (mkXQ RSelNone None [mkXF "FN" None (XPropMatches [] [])] None).
Definition kf_doc_altered : xtree :=
  Elem (C "addressbook-query") []
    [Elem (C "filter") []
       [Elem (C "prop-filter") [plain_attr "name" "FN"; (("xmlns", "name"), "urn:x")] []]].

(** [<C:filter xmlns:test="DAV:">]: the declaration was taken for the attribute test,
    whose value is not a filter test: the conformant request was refused. *)
Definition kf_x_refused : x_request := XQuery (mkXQ RSelNone None [] None).
Definition kf_doc_refused : xtree :=
  Elem (C "addressbook-query") [] [Elem (C "filter") [(("xmlns", "test"), "DAV:")] []].

Theorem nsdecl_as_attribute_repaired :
  (rfc_read kf_doc_altered = validate kf_x_altered /\
   var (rfc_write_raw kf_x_altered) kf_doc_altered /\
   handle_decoded kf_up kf_path kf_doc_altered
     = Ok (CallQuery kf_path (mkQ dr_zero [mkPF "urn:x" "" false [] []] "" 0%Z)) /\
   handle_report kf_up kf_path kf_doc_altered
     = Ok (CallQuery kf_path (mkQ dr_zero [mkPF "FN" "" false [] []] "" 0%Z))) /\
  (rfc_read kf_doc_refused = validate kf_x_refused /\
   var (rfc_write_raw kf_x_refused) kf_doc_refused /\
   handle_decoded kf_up kf_path kf_doc_refused = Err 400 /\
   handle_report kf_up kf_path kf_doc_refused = Ok (CallQuery kf_path (mkQ dr_zero [] "" 0%Z))).
Proof.
  split; (split; [vm_compute; reflexivity|]); (split; [|vm_compute; auto]).
  - unfold kf_doc_altered, kf_x_altered. cbn. apply V_elem; [apply Permutation_refl|].
    constructor; [|constructor]. apply V_elem; [apply Permutation_refl|].
    constructor; [|constructor]. apply V_elem; [apply Permutation_refl|constructor].
  - unfold kf_doc_refused, kf_x_refused. cbn. apply V_elem; [apply Permutation_refl|].
    constructor; [|constructor]. apply V_elem; [apply Permutation_refl|constructor].
Qed.

(* ------------------------------------------------------------------------- *)
(** * Enumerations: an invalid value is refused with 400, before any backend call.

    [doc_bad_enum d]: somewhere the decoder looks — the test attribute of the filter
    or of a prop-filter, negate-condition / match-type of a text-match below a
    prop-filter or a param-filter — the document [d] carries a string outside the
    RFC's value list.  The statement is about every tree, not only about variants of
    written requests. *)

Definition o4 {A} (r : res A) : Prop :=
  match r with Ok _ => True | Err c => c = 400%N | Panic => False end.

Definition bad_test_attr (l v : string) : bool :=
  String.eqb l "test" && negb (is_some (val_test (Some v))).
Definition bad_tm_attr (l v : string) : bool :=
  (String.eqb l "negate-condition" && negb (is_some (val_negate (Some v))))
  || (String.eqb l "match-type" && negb (is_some (val_match (Some v)))).
Definition attrs_bad (bad : string -> string -> bool) (a : list attr) : bool :=
  existsb (fun x => bad (snd (fst x)) (snd x)) a.
Definition kids_bad (badk : qname -> list attr -> list xtree -> bool) (kids : list xtree) : bool :=
  existsb (fun t => match t with Elem n a k => badk n a k | _ => false end) kids.
Definition tm_bad (n : qname) (a : list attr) (k : list xtree) : bool :=
  String.eqb (snd n) "text-match" && attrs_bad bad_tm_attr a.
Definition pa_bad (n : qname) (a : list attr) (k : list xtree) : bool :=
  String.eqb (snd n) "param-filter" && kids_bad tm_bad k.
Definition pf_bad (n : qname) (a : list attr) (k : list xtree) : bool :=
  String.eqb (snd n) "prop-filter"
  && (attrs_bad bad_test_attr a || kids_bad (fun n a k => tm_bad n a k || pa_bad n a k) k).
Definition f_bad (n : qname) (a : list attr) (k : list xtree) : bool :=
  String.eqb (snd n) "filter" && (attrs_bad bad_test_attr a || kids_bad pf_bad k).
Definition doc_bad_enum (d : xtree) : bool :=
  match d with
  | Elem n a k => qname_eqb n (C "addressbook-query") && kids_bad f_bad k
  | _ => false
  end.

Lemma assign_o4 {W} (set : string -> string -> W -> res W) :
  (forall l v w, o4 (set l v w)) -> forall a w, o4 (assign_attrs set w a).
Proof.
  intros H. induction a as [|x a IH]; intros w; simpl; auto.
  specialize (H (snd (fst x)) (snd x) w). destruct (set (snd (fst x)) (snd x) w); simpl in *; auto.
Qed.

Lemma assign_fail {W} (set : string -> string -> W -> res W) (bad : string -> string -> bool) :
  (forall l v w, o4 (set l v w)) ->
  (forall l v w, bad l v = true -> set l v w = Err 400) ->
  forall a w, attrs_bad bad a = true -> assign_attrs set w a = Err 400.
Proof.
  intros H4 Hb. unfold attrs_bad. induction a as [|x a IH]; intros w E; simpl in *; [discriminate|].
  unfold attr, qname in *.
  apply orb_true_iff in E. destruct E as [E|E].
  - rewrite (Hb _ _ w E). reflexivity.
  - specialize (H4 (snd (fst x)) (snd x) w).
    destruct (set (snd (fst x)) (snd x) w); simpl in *; [apply IH, E|congruence|contradiction].
Qed.

Lemma walk_o4 {W} (step : qname -> list attr -> list xtree -> W -> res W) :
  (forall n a k w, o4 (step n a k w)) -> forall kids w, o4 (walk_kids step w kids).
Proof.
  intros H. induction kids as [|x kids IH]; intros w; simpl; auto.
  destruct x; auto. specialize (H n attrs kids0 w). destruct (step n attrs kids0 w); simpl in *; auto.
Qed.

Lemma walk_fail {W} (step : qname -> list attr -> list xtree -> W -> res W) badk :
  (forall n a k w, o4 (step n a k w)) ->
  (forall n a k w, badk n a k = true -> step n a k w = Err 400) ->
  forall kids w, kids_bad badk kids = true -> walk_kids step w kids = Err 400.
Proof.
  intros H4 Hb. unfold kids_bad. induction kids as [|x kids IH]; intros w E; simpl in *; [discriminate|].
  destruct x as [n a k| |]; simpl in E; auto.
  apply orb_true_iff in E. destruct E as [E|E].
  - rewrite (Hb _ _ _ w E). reflexivity.
  - specialize (H4 n a k w). destruct (step n a k w); simpl in *; [apply IH, E|congruence|contradiction].
Qed.

Lemma o4_bind {A B} (r : res A) (f : A -> res B) : o4 r -> (forall a, o4 (f a)) -> o4 (bind r f).
Proof. destruct r; simpl; auto. Qed.

Lemma o4_ft v : o4 (unmarshal_filter_test v).
Proof. unfold unmarshal_filter_test. destruct (_ || _); simpl; auto. Qed.
Lemma o4_mt v : o4 (unmarshal_match_type v).
Proof. unfold unmarshal_match_type. destruct (_ || _); simpl; auto. Qed.
Lemma o4_ng v : o4 (unmarshal_negate v).
Proof. unfold unmarshal_negate. destruct (String.eqb v "yes"), (String.eqb v "no"); simpl; auto. Qed.
Lemma o4_uint s : o4 (unmarshal_uint s).
Proof. unfold unmarshal_uint. destruct (str_empty s); simpl; auto. destruct (parse_uint64 _); simpl; auto. Qed.

Lemma o4_tm_set l v w : o4 (tm_set l v w).
Proof.
  unfold tm_set. destruct (String.eqb l "collation"); simpl; auto.
  destruct (String.eqb l "negate-condition"); [apply o4_bind; [apply o4_ng|simpl; auto]|].
  destruct (String.eqb l "match-type"); [apply o4_bind; [apply o4_mt|simpl; auto]|]. simpl; auto.
Qed.

Lemma o4_tm w0 n a k : o4 (unmarshal_text_match w0 n a k).
Proof.
  unfold unmarshal_text_match. destruct (negb _); simpl; auto.
  apply o4_bind; [apply assign_o4, o4_tm_set|simpl; auto].
Qed.

Lemma o4_pa_set l v w : o4 (pa_set l v w).
Proof. unfold pa_set. destruct (String.eqb l "name"); simpl; auto. Qed.

Lemma o4_pa_step n a k w : o4 (pa_step n a k w).
Proof.
  unfold pa_step. destruct (String.eqb (snd n) "is-not-defined"); simpl; auto.
  destruct (String.eqb (snd n) "text-match"); simpl; auto.
  apply o4_bind; [apply o4_tm|simpl; auto].
Qed.

Lemma o4_pa w0 n a k : o4 (unmarshal_param_filter w0 n a k).
Proof.
  unfold unmarshal_param_filter. destruct (negb _); simpl; auto.
  apply o4_bind; [apply assign_o4, o4_pa_set|intros; apply walk_o4, o4_pa_step].
Qed.

Lemma o4_pf_set l v w : o4 (pf_set l v w).
Proof.
  unfold pf_set. destruct (String.eqb l "name"); simpl; auto.
  destruct (String.eqb l "test"); simpl; auto. apply o4_bind; [apply o4_ft|simpl; auto].
Qed.

Lemma o4_pf_step n a k w : o4 (pf_step n a k w).
Proof.
  unfold pf_step. destruct (String.eqb (snd n) "is-not-defined"); simpl; auto.
  destruct (String.eqb (snd n) "text-match"); [apply o4_bind; [apply o4_tm|simpl; auto]|].
  destruct (String.eqb (snd n) "param-filter"); [apply o4_bind; [apply o4_pa|simpl; auto]|]. simpl; auto.
Qed.

Lemma o4_pf w0 n a k : o4 (unmarshal_prop_filter w0 n a k).
Proof.
  unfold unmarshal_prop_filter. destruct (negb _); simpl; auto.
  apply o4_bind; [apply assign_o4, o4_pf_set|intros; apply walk_o4, o4_pf_step].
Qed.

Lemma o4_f_set l v w : o4 (f_set l v w).
Proof. unfold f_set. destruct (String.eqb l "test"); simpl; auto. apply o4_bind; [apply o4_ft|simpl; auto]. Qed.

Lemma o4_f_step n a k w : o4 (f_step n a k w).
Proof.
  unfold f_step. destruct (String.eqb (snd n) "prop-filter"); simpl; auto.
  apply o4_bind; [apply o4_pf|simpl; auto].
Qed.

Lemma o4_f w0 n a k : o4 (unmarshal_filter w0 n a k).
Proof.
  unfold unmarshal_filter. destruct (negb _); simpl; auto.
  apply o4_bind; [apply assign_o4, o4_f_set|intros; apply walk_o4, o4_f_step].
Qed.

Lemma o4_lim_step n a k w : o4 (lim_step n a k w).
Proof. unfold lim_step. destruct (String.eqb (snd n) "nresults"); simpl; auto. apply o4_uint. Qed.

Lemma o4_limit w0 n a k : o4 (unmarshal_limit w0 n a k).
Proof. unfold unmarshal_limit. destruct (negb _); simpl; auto. apply walk_o4, o4_lim_step. Qed.

Lemma o4_q_step n a k w : o4 (q_step n a k w).
Proof.
  unfold q_step. destruct (qname_eqb n (NS_DAV, "prop")); simpl; auto.
  destruct (qname_eqb n (NS_DAV, "allprop")); simpl; auto.
  destruct (qname_eqb n (NS_DAV, "propname")); simpl; auto.
  destruct (String.eqb (snd n) "filter"); [apply o4_bind; [apply o4_f|simpl; auto]|].
  destruct (String.eqb (snd n) "limit"); [apply o4_bind; [apply o4_limit|simpl; auto]|]. simpl; auto.
Qed.

(** the decoding of a request document never panics and fails with 400 only *)
Lemma o4_unmarshal_query n a k : o4 (unmarshal_query n a k).
Proof. unfold unmarshal_query. destruct (negb _); simpl; auto. apply walk_o4, o4_q_step. Qed.

Lemma none_not_some {A} (o : option A) : negb (is_some o) = true -> o = None.
Proof. destruct o; simpl; [discriminate|reflexivity]. Qed.

Lemma bad_test_fails v : val_test (Some v) = None -> unmarshal_filter_test v = Err 400.
Proof.
  unfold val_test, unmarshal_filter_test. destruct (String.eqb v "anyof"); [discriminate|].
  destruct (String.eqb v "allof"); [discriminate|reflexivity].
Qed.
Lemma bad_match_fails v : val_match (Some v) = None -> unmarshal_match_type v = Err 400.
Proof.
  unfold val_match, unmarshal_match_type. destruct (String.eqb v "equals"); [discriminate|].
  destruct (String.eqb v "contains"); [discriminate|]. destruct (String.eqb v "starts-with"); [discriminate|].
  destruct (String.eqb v "ends-with"); [discriminate|reflexivity].
Qed.
Lemma bad_negate_fails v : val_negate (Some v) = None -> unmarshal_negate v = Err 400.
Proof.
  unfold val_negate, unmarshal_negate. destruct (String.eqb v "yes"); [discriminate|].
  destruct (String.eqb v "no"); [discriminate|reflexivity].
Qed.

Lemma tm_set_bad l v w : bad_tm_attr l v = true -> tm_set l v w = Err 400.
Proof.
  unfold bad_tm_attr, tm_set. intros H. apply orb_true_iff in H. destruct H as [H|H];
    apply andb_true_iff in H; destruct H as [Hl Hv]; apply String.eqb_eq in Hl; subst l;
    apply none_not_some in Hv; simpl.
  - rewrite (bad_negate_fails _ Hv). reflexivity.
  - rewrite (bad_match_fails _ Hv). reflexivity.
Qed.

Lemma tm_fails w0 n a k : tm_bad n a k = true -> unmarshal_text_match w0 n a k = Err 400.
Proof.
  unfold tm_bad, unmarshal_text_match. intros H. apply andb_true_iff in H. destruct H as [_ H].
  destruct (negb _); [reflexivity|].
  rewrite (assign_fail tm_set bad_tm_attr o4_tm_set tm_set_bad a w0 H). reflexivity.
Qed.

Lemma pa_step_bad n a k w : tm_bad n a k = true -> pa_step n a k w = Err 400.
Proof.
  intros H. pose proof H as H0. unfold tm_bad in H0. apply andb_true_iff in H0. destruct H0 as [Hn _].
  apply String.eqb_eq in Hn. unfold pa_step. rewrite Hn. simpl.
  rewrite (tm_fails _ n a k H). reflexivity.
Qed.

Lemma pa_fails w0 n a k : pa_bad n a k = true -> unmarshal_param_filter w0 n a k = Err 400.
Proof.
  unfold pa_bad, unmarshal_param_filter. intros H. apply andb_true_iff in H. destruct H as [_ H].
  destruct (negb _); [reflexivity|].
  pose proof (assign_o4 pa_set o4_pa_set a w0) as A. destruct (assign_attrs pa_set w0 a); simpl in *; try congruence; try tauto.
  apply (walk_fail pa_step tm_bad o4_pa_step pa_step_bad); exact H.
Qed.

Lemma pf_set_bad l v w : bad_test_attr l v = true -> pf_set l v w = Err 400.
Proof.
  unfold bad_test_attr, pf_set. intros H. apply andb_true_iff in H. destruct H as [Hl Hv].
  apply String.eqb_eq in Hl; subst l. apply none_not_some in Hv. simpl.
  rewrite (bad_test_fails _ Hv). reflexivity.
Qed.

Lemma pf_step_bad n a k w : (tm_bad n a k || pa_bad n a k) = true -> pf_step n a k w = Err 400.
Proof.
  intros H. apply orb_true_iff in H. destruct H as [H|H].
  - pose proof H as H0. unfold tm_bad in H0. apply andb_true_iff in H0. destruct H0 as [Hn _].
    apply String.eqb_eq in Hn. unfold pf_step. rewrite Hn. simpl. rewrite (tm_fails _ n a k H). reflexivity.
  - pose proof H as H0. unfold pa_bad in H0. apply andb_true_iff in H0. destruct H0 as [Hn _].
    apply String.eqb_eq in Hn. unfold pf_step. rewrite Hn. simpl. rewrite (pa_fails _ n a k H). reflexivity.
Qed.

Lemma pf_fails w0 n a k : pf_bad n a k = true -> unmarshal_prop_filter w0 n a k = Err 400.
Proof.
  unfold pf_bad, unmarshal_prop_filter. intros H. apply andb_true_iff in H. destruct H as [_ H].
  destruct (negb _); [reflexivity|]. apply orb_true_iff in H. destruct H as [H|H].
  - rewrite (assign_fail pf_set bad_test_attr o4_pf_set pf_set_bad a w0 H). reflexivity.
  - pose proof (assign_o4 pf_set o4_pf_set a w0) as A. destruct (assign_attrs pf_set w0 a); simpl in *; try congruence; try tauto.
    apply (walk_fail pf_step _ o4_pf_step pf_step_bad); exact H.
Qed.

Lemma f_set_bad l v w : bad_test_attr l v = true -> f_set l v w = Err 400.
Proof.
  unfold bad_test_attr, f_set. intros H. apply andb_true_iff in H. destruct H as [Hl Hv].
  apply String.eqb_eq in Hl; subst l. apply none_not_some in Hv. simpl.
  rewrite (bad_test_fails _ Hv). reflexivity.
Qed.

Lemma f_step_bad n a k w : pf_bad n a k = true -> f_step n a k w = Err 400.
Proof.
  intros H. pose proof H as H0. unfold pf_bad in H0. apply andb_true_iff in H0. destruct H0 as [Hn _].
  apply String.eqb_eq in Hn. unfold f_step. rewrite Hn. simpl. rewrite (pf_fails _ n a k H). reflexivity.
Qed.

Lemma f_fails w0 n a k : f_bad n a k = true -> unmarshal_filter w0 n a k = Err 400.
Proof.
  unfold f_bad, unmarshal_filter. intros H. apply andb_true_iff in H. destruct H as [_ H].
  destruct (negb _); [reflexivity|]. apply orb_true_iff in H. destruct H as [H|H].
  - rewrite (assign_fail f_set bad_test_attr o4_f_set f_set_bad a w0 H). reflexivity.
  - pose proof (assign_o4 f_set o4_f_set a w0) as A. destruct (assign_attrs f_set w0 a); simpl in *; try congruence; try tauto.
    apply (walk_fail f_step _ o4_f_step f_step_bad); exact H.
Qed.

Lemma q_step_bad n a k w : f_bad n a k = true -> q_step n a k w = Err 400.
Proof.
  intros H. pose proof H as H0. unfold f_bad in H0. apply andb_true_iff in H0. destruct H0 as [Hn _].
  apply String.eqb_eq in Hn. unfold q_step, qname_eqb. cbn [fst snd]. rewrite Hn.
  replace (String.eqb "filter" "prop") with false by reflexivity.
  replace (String.eqb "filter" "allprop") with false by reflexivity.
  replace (String.eqb "filter" "propname") with false by reflexivity.
  rewrite !andb_false_r. simpl. rewrite (f_fails _ n a k H). reflexivity.
Qed.

(** C09_enumerations, wire-to-backend direction *)
Theorem decoded_refuses_invalid_enum up path d :
  doc_bad_enum d = true -> handle_decoded up path d = Err 400.
Proof.
  destruct d as [n a k| |]; simpl; try discriminate. intros H. apply andb_true_iff in H. destruct H as [Hn H].
  change (NS_CARD, "addressbook-query") with (C "addressbook-query"). rewrite Hn.
  unfold unmarshal_query. apply qname_eqb_spec in Hn. subst n.
  replace (check_name NS_CARD "addressbook-query" (C "addressbook-query")) with true by reflexivity. cbn [negb].
  rewrite (walk_fail q_step f_bad o4_q_step q_step_bad k wq_zero H). reflexivity.
Qed.

Theorem server_refuses_invalid_enum up path d :
  doc_bad_enum (strip_qualified d) = true -> handle_report up path d = Err 400.
Proof. apply decoded_refuses_invalid_enum. Qed.

(** documents all of whose attributes are in no namespace pass the filter unchanged *)
Fixpoint all_unq (t : xtree) : bool :=
  match t with
  | Elem n a k => forallb unqualified a && forallb all_unq k
  | _ => true
  end.

Lemma filter_id {A} (f : A -> bool) l : forallb f l = true -> filter f l = l.
Proof.
  induction l as [|x l IH]; simpl; auto. intros H. apply andb_true_iff in H. destruct H as [Hx Hl].
  rewrite Hx, (IH Hl). reflexivity.
Qed.

Lemma strip_id t : all_unq t = true -> strip_qualified t = t.
Proof.
  induction t as [n a k IH|s|s] using xtree_ind2; try reflexivity.
  cbn [all_unq strip_qualified]. intros H. apply andb_true_iff in H. destruct H as [Ha Hk].
  unfold strip_attrs. rewrite (filter_id _ _ Ha). f_equal.
  induction IH as [|x k Hx _ IHk]; [reflexivity|]. cbn [forallb] in Hk. apply andb_true_iff in Hk.
  destruct Hk as [H1 H2]. cbn [map]. rewrite (Hx H1), (IHk H2). reflexivity.
Qed.

Lemma all_unq_map {A} (f : A -> xtree) l : (forall x, all_unq (f x) = true) -> forallb all_unq (map f l) = true.
Proof. intros H. induction l; simpl; auto. rewrite H, IHl. reflexivity. Qed.

(** ** the documents written for raw requests with an invalid enumeration value *)

Lemma kids_bad_app badk l1 l2 : kids_bad badk (l1 ++ l2) = kids_bad badk l1 || kids_bad badk l2.
Proof. unfold kids_bad. apply existsb_app. Qed.

Lemma kids_bad_map {A} badk (f : A -> xtree) (g : A -> bool) l :
  (forall x, g x = true -> match f x with Elem n a k => badk n a k | _ => false end = true) ->
  existsb g l = true -> kids_bad badk (map f l) = true.
Proof.
  intros H E. apply existsb_exists in E. destruct E as [x [Hin Hx]].
  unfold kids_bad. apply existsb_exists. exists (f x). split; [apply in_map, Hin|apply H, Hx].
Qed.

Lemma write_tm_bad t :
  tm_enum_bad t = true -> tm_bad (C "text-match")
    (opt_attr "negate-condition" (xt_negate t) ++ opt_attr "match-type" (xt_match t)) (text_kid (xt_text t)) = true.
Proof.
  unfold tm_enum_bad, tm_bad, attrs_bad. destruct t as [s ng mt]. cbn [xt_negate xt_match xt_text snd C].
  intros H. replace (String.eqb "text-match" "text-match") with true by reflexivity. cbn [andb].
  rewrite existsb_app. apply orb_true_iff in H. destruct H as [H|H].
  - destruct ng as [v|]; [|discriminate]. cbn [opt_attr existsb plain_attr fst snd]. unfold bad_tm_attr.
    replace (String.eqb "negate-condition" "negate-condition") with true by reflexivity.
    cbn [andb]. rewrite H. reflexivity.
  - destruct mt as [v|]; [|discriminate]. cbn [opt_attr existsb plain_attr fst snd]. unfold bad_tm_attr at 2.
    replace (String.eqb "match-type" "match-type") with true by reflexivity.
    replace (String.eqb "match-type" "negate-condition") with false by reflexivity.
    cbn [andb orb]. rewrite H. rewrite !orb_true_r. reflexivity.
Qed.

Lemma write_tm_bad' t :
  tm_enum_bad t = true ->
  match write_tm t with Elem n a k => tm_bad n a k | _ => false end = true.
Proof. intros H. unfold write_tm. apply write_tm_bad, H. Qed.

Lemma write_param_bad p :
  param_enum_bad p = true ->
  match write_param p with Elem n a k => pa_bad n a k | _ => false end = true.
Proof.
  unfold param_enum_bad, write_param, pa_bad. destruct (xp_cond p) as [| |t]; try discriminate.
  intros H. cbn [snd C]. replace (String.eqb "param-filter" "param-filter") with true by reflexivity.
  cbn [andb kids_bad existsb]. rewrite (write_tm_bad' t H). reflexivity.
Qed.

Lemma write_pf_bad f :
  pf_enum_bad f = true ->
  match write_pf f with Elem n a k => pf_bad n a k | _ => false end = true.
Proof.
  unfold pf_enum_bad, write_pf, pf_bad. intros H. cbn [snd C].
  replace (String.eqb "prop-filter" "prop-filter") with true by reflexivity. cbn [andb].
  apply orb_true_iff in H. apply orb_true_iff. destruct H as [H|H].
  - left. destruct (xf_test f) as [v|]; [|discriminate]. unfold attrs_bad, bad_test_attr.
    cbn [opt_attr existsb plain_attr fst snd].
    replace (String.eqb "test" "test") with true by reflexivity. cbn [andb]. rewrite H. rewrite orb_true_r. reflexivity.
  - right. destruct (xf_cond f) as [|tms ps]; [discriminate|]. rewrite kids_bad_app.
    apply orb_true_iff in H. apply orb_true_iff. destruct H as [H|H]; [left|right].
    + apply (kids_bad_map _ write_tm tm_enum_bad); [|exact H].
      intros x Hx. pose proof (write_tm_bad' x Hx) as B. destruct (write_tm x); try discriminate. rewrite B. reflexivity.
    + apply (kids_bad_map _ write_param param_enum_bad); [|exact H].
      intros x Hx. pose proof (write_param_bad x Hx) as B. destruct (write_param x); try discriminate.
      rewrite B. rewrite orb_true_r. reflexivity.
Qed.

Lemma write_query_bad q : enum_bad (XQuery q) = true -> doc_bad_enum (write_query q) = true.
Proof.
  unfold enum_bad, write_query, doc_bad_enum. intros H.
  rewrite qname_eqb_refl. cbn [andb]. rewrite !kids_bad_app. apply orb_true_iff; right. apply orb_true_iff; left.
  cbn [kids_bad existsb]. rewrite orb_false_r. unfold f_bad. cbn [snd C].
  replace (String.eqb "filter" "filter") with true by reflexivity. cbn [andb].
  apply orb_true_iff in H. apply orb_true_iff. destruct H as [H|H]; [left|right].
  - destruct (xq_test q) as [v|]; [|discriminate]. unfold attrs_bad, bad_test_attr.
    cbn [opt_attr existsb plain_attr fst snd].
    replace (String.eqb "test" "test") with true by reflexivity. cbn [andb]. rewrite H. reflexivity.
  - apply (kids_bad_map _ write_pf pf_enum_bad); [|exact H]. intros x Hx. apply write_pf_bad, Hx.
Qed.

(** C09_enumerations for the reference's documents: a raw request with a string outside
    the value lists as test, match-type or negate-condition is not read by the RFC
    reader (C09_rfc_reads_exactly_conformant) and is refused by the server *)
Lemma write_tm_unq t : all_unq (write_tm t) = true.
Proof. destruct t as [s [?|] [?|]]; unfold write_tm, text_kid; cbn; destruct (str_empty s); reflexivity. Qed.

Lemma write_param_unq p : all_unq (write_param p) = true.
Proof.
  unfold write_param. cbn [all_unq forallb plain_attr unqualified fst String.eqb andb].
  destruct (xp_cond p); cbn [forallb]; rewrite ?write_tm_unq; reflexivity.
Qed.

Lemma write_pf_unq f : all_unq (write_pf f) = true.
Proof.
  unfold write_pf. cbn [all_unq].
  replace (forallb unqualified _) with true by (destruct (xf_test f); reflexivity). cbn [andb].
  destruct (xf_cond f); [reflexivity|]. rewrite forallb_app, !all_unq_map; auto using write_tm_unq, write_param_unq.
Qed.

Lemma write_item_unq i : all_unq (write_item i) = true.
Proof.
  destruct i as [d|n]; [|reflexivity]. unfold write_item, write_data. cbn [all_unq forallb andb].
  destruct d; [reflexivity|]. apply all_unq_map. intros; reflexivity.
Qed.

Lemma write_sel_unq s : forallb all_unq (write_sel s) = true.
Proof.
  destruct s; try reflexivity. cbn [write_sel forallb all_unq andb]. rewrite all_unq_map; auto using write_item_unq.
Qed.

Lemma rfc_write_raw_unq x : all_unq (rfc_write_raw x) = true.
Proof.
  destruct x as [q|m]; cbn [rfc_write_raw].
  - unfold write_query. cbn [all_unq forallb andb]. rewrite !forallb_app, write_sel_unq. cbn [andb forallb all_unq].
    replace (forallb unqualified (opt_attr "test" (xq_test q))) with true by (destruct (xq_test q); reflexivity).
    cbn [andb]. rewrite all_unq_map by apply write_pf_unq. cbn [andb].
    destruct (xq_limit q) as [s|]; [|reflexivity]. unfold write_limit, text_kid. destruct (str_empty s); reflexivity.
  - unfold write_multiget. cbn [all_unq forallb andb]. rewrite forallb_app, write_sel_unq. cbn [andb].
    apply all_unq_map. intros h. unfold text_kid. destruct (str_empty h); reflexivity.
Qed.

Theorem server_refuses_written_invalid_enum up path x :
  enum_bad x = true -> handle_report up path (rfc_write_raw x) = Err 400.
Proof.
  intros H. apply server_refuses_invalid_enum. rewrite (strip_id _ (rfc_write_raw_unq x)).
  destruct x as [q|m]; [|discriminate]. apply write_query_bad, H.
Qed.

(* ------------------------------------------------------------------------- *)
(** * Defaults.  Every conformant raw request — each attribute absent or written out —
      reaches the backend as the request it denotes. *)

Theorem server_denotes_raw up path x r c :
  validate x = Some r -> limit_fits r = true -> backend_call_of up path r = Some c ->
  exists o, handle_report up path (rfc_write_raw x) = Ok o /\ canon_outcome o = c.
Proof.
  intros V Hl Hb. apply (server_denotes_read up path _ r c); auto.
  apply (rfc_read_write_conformant x r V).
Qed.

(** C09_defaults *)
Theorem defaults :
  (* the reference: an absent attribute is the RFC's default *)
  val_test None = Some AnyOf /\ val_match None = Some Contains /\ val_negate None = Some false /\
  (* the public API: the zero values of FilterTest and MatchType denote the defaults *)
  den_test "" = Some AnyOf /\ den_match "" = Some Contains /\
  (* a text-match / prop-filter / filter without the attribute denotes what the one with
     the default written out denotes ... *)
  (forall s, val_tm (mkXT s None None) = val_tm (mkXT s (Some "no") (Some "contains"))) /\
  (forall n c, val_pf (mkXF n None c) = val_pf (mkXF n (Some "anyof") c)) /\
  (forall sel fs l, val_query (mkXQ sel None fs l) = val_query (mkXQ sel (Some "anyof") fs l)) /\
  (* ... and both spellings reach the backend as that request *)
  (forall up path x r c,
     validate x = Some r -> limit_fits r = true -> backend_call_of up path r = Some c ->
     exists o, handle_report up path (rfc_write_raw x) = Ok o /\ canon_outcome o = c).
Proof.
  repeat (split; [reflexivity|]). exact server_denotes_raw.
Qed.

Theorem enumerations_valid :
  (forall v t, val_test (Some v) = Some t -> unmarshal_filter_test v = Ok v /\ v = test_str t) /\
  (forall v m, val_match (Some v) = Some m -> unmarshal_match_type v = Ok v /\ v = match_str m) /\
  (forall v x, val_negate (Some v) = Some x -> unmarshal_negate v = Ok x) /\
  (forall v, val_test (Some v) = None -> unmarshal_filter_test v = Err 400) /\
  (forall v, val_match (Some v) = None -> unmarshal_match_type v = Err 400) /\
  (forall v, val_negate (Some v) = None -> unmarshal_negate v = Err 400).
Proof.
  split; [exact test_agree|]. split; [exact match_agree|]. split; [exact negate_agree|].
  split; [exact bad_test_fails|]. split; [exact bad_match_fails|exact bad_negate_fails].
Qed.

(* ------------------------------------------------------------------------- *)
(** * The client on values that denote no request.

    Whenever the client does send a body, it is a lexical variant of what the reference
    writes for [raw_of_query q], and that raw request is conformant exactly when the
    value denotes a request; so a value with an unknown test or match-type string is
    sent as a document the RFC reader rejects, and the server refuses it. *)

Lemma mapM_Forall2 {A B} (f : A -> res B) l ws :
  mapM f l = Ok ws -> Forall2 (fun x w => f x = Ok w) l ws.
Proof.
  revert ws. induction l as [|x l IH]; simpl; intros ws H.
  - inversion H; constructor.
  - destruct (f x) as [w| |] eqn:E; simpl in H; try discriminate.
    destruct (mapM f l) as [ws'| |]; simpl in H; try discriminate. inversion H; subst.
    constructor; auto.
Qed.

Lemma param_var_enc p w :
  encode_param_filter p = Ok w -> var (write_param (raw_of_param p)) (marshal_param_filter w).
Proof.
  destruct p as [name ind tm]. unfold encode_param_filter, raw_of_param, write_param, marshal_param_filter, el.
  cbn [pa_name pa_ind pa_tm xp_name xp_cond].
  destruct ind, tm as [t|]; cbn [andb is_some]; try discriminate; intros H; inversion H; subst;
    cbn [wpa_name wpa_ind wpa_tm flag_kid opt_kid app]; apply V_elem; try apply Permutation_refl.
  - apply var_kids_refl.
  - change (kind_of (C "param-filter")) with KElems. constructor; [apply tm_var|constructor].
  - apply var_kids_refl.
Qed.

Lemma params_var_enc ps ws :
  Forall2 (fun x w => encode_param_filter x = Ok w) ps ws ->
  Forall2 var (map write_param (map raw_of_param ps)) (map marshal_param_filter ws).
Proof. induction 1; simpl; constructor; auto using param_var_enc. Qed.

Lemma pf_var_enc f w :
  encode_prop_filter f = Ok w -> var (write_pf (raw_of_pf f)) (marshal_prop_filter w).
Proof.
  destruct f as [name test ind tms ps]. unfold encode_prop_filter, raw_of_pf, write_pf, marshal_prop_filter, el.
  cbn [pf_name pf_test pf_ind pf_tms pf_params xf_name xf_test xf_cond].
  assert (PA : Permutation
                 (real_attrs (plain_attr "name" name :: opt_attr "test" (opt_nonempty test)))
                 (real_attrs (nsd NS_CARD :: at_always "name" name ++ at_omitempty "test" test))).
  { unfold opt_nonempty, at_omitempty. destruct (str_empty test); apply Permutation_refl. }
  destruct ind.
  - destruct tms, ps; cbn [nonempty orb andb mapM bind map]; try discriminate.
    intros H; inversion H; subst. cbn [wpf_name wpf_test wpf_ind wpf_tms wpf_params flag_kid map app].
    apply V_elem; [exact PA|]. apply var_kids_refl.
  - cbn [andb]. destruct (mapM encode_param_filter ps) as [ws| |] eqn:E; cbn [bind]; try discriminate.
    intros H; inversion H; subst. cbn [wpf_name wpf_test wpf_ind wpf_tms wpf_params flag_kid app].
    apply V_elem; [exact PA|]. change (kind_of (C "prop-filter")) with KElems.
    apply var_kids_app.
    + rewrite !map_map. apply var_kids_Forall2, Forall2_map2. intros; apply tm_var.
    + apply var_kids_Forall2, params_var_enc, mapM_Forall2, E.
Qed.

Lemma pfs_var_enc fs ws :
  Forall2 (fun x w => encode_prop_filter x = Ok w) fs ws ->
  Forall2 var (map write_pf (map raw_of_pf fs)) (map marshal_prop_filter ws).
Proof. induction 1; simpl; constructor; auto using pf_var_enc. Qed.

Theorem client_query_variant_enc q w :
  query_address_book q = Ok w -> var (write_query (raw_of_query q)) (marshal_query w).
Proof.
  unfold query_address_book. destruct (mapM encode_prop_filter (q_filters q)) as [ws| |] eqn:E; cbn [bind]; try discriminate.
  intros H; inversion H; subst; clear H.
  unfold write_query, raw_of_query, marshal_query, el.
  cbn [xq_sel xq_test xq_filters xq_limit wq_prop wq_allprop wq_propname wq_filter wq_limit].
  apply V_elem; [apply Permutation_refl|]. change (kind_of (C "addressbook-query")) with KElems.
  change (opt_kid marshal_prop (Some (encode_address_prop_req (q_data q))) ++
          flag_kid false (Elem (NS_DAV, "allprop") [nsd NS_DAV] []) ++
          flag_kid false (Elem (NS_DAV, "propname") [nsd NS_DAV] []) ++
          [marshal_filter (mkWF (q_test q) ws)] ++
          opt_kid marshal_limit (if (0 <? q_limit q)%Z then Some (Z.to_N (q_limit q)) else None))%list
    with ([marshal_prop (encode_address_prop_req (q_data q))] ++ [marshal_filter (mkWF (q_test q) ws)]
            ++ opt_kid marshal_limit (if (0 <? q_limit q)%Z then Some (Z.to_N (q_limit q)) else None))%list.
  apply var_kids_app; [apply var_kids_Forall2, sel_var|]. apply var_kids_app.
  - constructor; [|constructor]. unfold marshal_filter, el. cbn [wf_test wf_props].
    apply V_elem.
    + unfold opt_nonempty, at_omitempty. destruct (str_empty (q_test q)); apply Permutation_refl.
    + apply var_kids_Forall2, pfs_var_enc, mapM_Forall2, E.
  - destruct (0 <? q_limit q)%Z; [|constructor]. cbn [opt_kid].
    constructor; [|constructor]. unfold write_limit, marshal_limit, el_inh.
    apply V_elem; [apply Permutation_refl|]. rewrite text_kid_dec. apply var_kids_refl.
Qed.

(** the raw request of a value the client accepts is conformant exactly when the
    value denotes a request *)
Lemma den_test_val_eq s : val_test (opt_nonempty s) = den_test s.
Proof. unfold den_test, opt_nonempty. destruct (str_empty s); reflexivity. Qed.
Lemma den_match_val_eq s : val_match (opt_nonempty s) = den_match s.
Proof. unfold den_match, opt_nonempty. destruct (str_empty s); reflexivity. Qed.

Lemma den_tm_val_eq t : val_tm (raw_of_tm t) = den_tm t.
Proof.
  unfold val_tm, raw_of_tm, den_tm. cbn [xt_negate xt_match xt_text]. rewrite den_match_val_eq.
  destruct (tm_negate t); reflexivity.
Qed.

Lemma den_param_val_eq p w : encode_param_filter p = Ok w -> val_param (raw_of_param p) = den_param p.
Proof.
  destruct p as [name ind tm]. unfold encode_param_filter, val_param, raw_of_param, den_param.
  cbn [pa_name pa_ind pa_tm xp_cond xp_name].
  destruct ind, tm as [t|]; cbn [andb is_some]; try discriminate; intros _; try reflexivity.
  rewrite den_tm_val_eq. reflexivity.
Qed.

Lemma omapM_map_ext {A B C} (f : B -> option C) (g : A -> B) (h : A -> option C) l :
  (forall x, In x l -> f (g x) = h x) -> omapM f (map g l) = omapM h l.
Proof.
  induction l as [|x l IH]; simpl; intros H; [reflexivity|].
  rewrite (H x (or_introl eq_refl)), IH by (intros; apply H; right; assumption). reflexivity.
Qed.

Lemma Forall2_In_l {A B} (R : A -> B -> Prop) l l' x : Forall2 R l l' -> In x l -> exists y, R x y.
Proof. induction 1; simpl; intros H'; [contradiction|]. destruct H' as [->|H']; eauto. Qed.

Lemma den_pf_val_eq f w : encode_prop_filter f = Ok w -> val_pf (raw_of_pf f) = den_pf f.
Proof.
  destruct f as [name test ind tms ps]. unfold encode_prop_filter, val_pf, raw_of_pf, den_pf.
  cbn [pf_name pf_test pf_ind pf_tms pf_params xf_test xf_cond xf_name]. rewrite den_test_val_eq.
  destruct (den_test test) as [t|]; cbn [obind]; [|reflexivity].
  destruct ind.
  - destruct tms, ps; cbn [nonempty orb andb]; try discriminate. reflexivity.
  - cbn [andb]. destruct (mapM encode_param_filter ps) as [ws| |] eqn:E; cbn [bind]; try discriminate. intros _.
    rewrite (omapM_map_ext val_tm raw_of_tm den_tm) by (intros; apply den_tm_val_eq).
    destruct (omapM den_tm tms); cbn [obind]; [|reflexivity].
    rewrite (omapM_map_ext val_param raw_of_param den_param); [reflexivity|].
    intros x Hx. destruct (Forall2_In_l _ _ _ x (mapM_Forall2 _ _ _ E) Hx) as [y Hy].
    apply (den_param_val_eq x y Hy).
Qed.

Lemma den_query_val_eq q w : query_address_book q = Ok w -> val_query (raw_of_query q) = den_query q.
Proof.
  unfold query_address_book. destruct (mapM encode_prop_filter (q_filters q)) as [ws| |] eqn:E; cbn [bind]; try discriminate.
  intros _. unfold val_query, raw_of_query, den_query. cbn [xq_sel xq_test xq_filters xq_limit].
  rewrite client_sel_ok. cbn [negb]. rewrite den_test_val_eq.
  destruct (den_test (q_test q)) as [t|]; cbn [obind]; [|reflexivity].
  rewrite (omapM_map_ext val_pf raw_of_pf den_pf).
  2:{ intros x Hx. destruct (Forall2_In_l _ _ _ x (mapM_Forall2 _ _ _ E) Hx) as [y Hy]. apply (den_pf_val_eq x y Hy). }
  destruct (omapM den_pf (q_filters q)); cbn [obind]; [|reflexivity].
  unfold den_limit. destruct (0 <? q_limit q)%Z eqn:L; [|reflexivity].
  unfold val_nresults. rewrite digits_dec_of_N.
  assert (P : (0 <? Z.to_N (q_limit q))%N = true) by (apply N.ltb_lt; apply Z.ltb_lt in L; lia).
  rewrite P. reflexivity.
Qed.

(** what the RFC reader makes of whatever the client sends for a query *)
Theorem client_query_reads q d :
  client_query_doc q = Ok d -> rfc_read d = match den_query q with Some r => Some (RQuery r) | None => None end.
Proof.
  unfold client_query_doc. destruct (query_address_book q) as [w| |] eqn:E; cbn [bind]; try discriminate.
  intros H; inversion H; subst; clear H.
  rewrite (rfc_read_var _ _ (client_query_variant_enc q w E)).
  change (write_query (raw_of_query q)) with (rfc_write_raw (XQuery (raw_of_query q))).
  rewrite rfc_read_write_raw by reflexivity. cbn [validate].
  rewrite (den_query_val_eq q w E). destruct (den_query q); reflexivity.
Qed.

(** ** ... and the server refuses it *)

Lemma omapM_none {A B} (f : A -> option B) l : omapM f l = None -> exists x, In x l /\ f x = None.
Proof.
  induction l as [|x l IH]; simpl; [discriminate|]. destruct (f x) eqn:E; simpl.
  - destruct (omapM f l); simpl; [discriminate|]. intros _. destruct (IH eq_refl) as [y [Hy Fy]]. eauto.
  - intros _. eauto.
Qed.

Lemma Forall2_In_l' {A B} (R : A -> B -> Prop) l l' x :
  Forall2 R l l' -> In x l -> exists y, In y l' /\ R x y.
Proof.
  induction 1; simpl; intros H'; [contradiction|]. destruct H' as [->|H']; [eauto|].
  destruct (IHForall2 H') as [z [Hz Rz]]. eauto.
Qed.

Lemma kids_bad_in badk kids n a k : In (Elem n a k) kids -> badk n a k = true -> kids_bad badk kids = true.
Proof. intros Hin Hb. unfold kids_bad. apply existsb_exists. exists (Elem n a k). auto. Qed.

Lemma den_match_none s : den_match s = None -> str_empty s = false /\ val_match (Some s) = None.
Proof. unfold den_match. destruct (str_empty s); [discriminate|auto]. Qed.
Lemma den_test_none s : den_test s = None -> str_empty s = false /\ val_test (Some s) = None.
Proof. unfold den_test. destruct (str_empty s); [discriminate|auto]. Qed.

Lemma marshal_tm_bad t :
  den_tm t = None ->
  match marshal_text_match (encode_text_match t) with Elem n a k => tm_bad n a k | _ => false end = true.
Proof.
  unfold den_tm. destruct (den_match (tm_match t)) eqn:E; [discriminate|]. intros _.
  destruct (den_match_none _ E) as [Hne Hv].
  unfold marshal_text_match, encode_text_match, el, tm_bad, attrs_bad, at_omitempty.
  cbn [wtm_collation wtm_negate wtm_match wtm_text snd str_empty]. rewrite Hne.
  replace (String.eqb "text-match" "text-match") with true by reflexivity. cbn [andb app].
  cbn [existsb nsd fst snd]. replace (bad_tm_attr "xmlns" NS_CARD) with false by reflexivity. cbn [orb].
  rewrite existsb_app. apply orb_true_iff; right. cbn [existsb fst snd]. unfold bad_tm_attr.
  replace (String.eqb "match-type" "match-type") with true by reflexivity.
  replace (String.eqb "match-type" "negate-condition") with false by reflexivity.
  rewrite Hv. reflexivity.
Qed.

Lemma marshal_param_bad p w :
  encode_param_filter p = Ok w -> den_param p = None ->
  match marshal_param_filter w with Elem n a k => pa_bad n a k | _ => false end = true.
Proof.
  destruct p as [name ind tm]. unfold encode_param_filter, den_param. cbn [pa_name pa_ind pa_tm].
  destruct ind, tm as [t|]; cbn [andb is_some]; try discriminate; intros H; inversion H; subst; clear H.
  destruct (den_tm t) eqn:E; [discriminate|]. intros _.
  unfold marshal_param_filter, el, pa_bad. cbn [wpa_name wpa_ind wpa_tm snd flag_kid opt_kid app].
  replace (String.eqb "param-filter" "param-filter") with true by reflexivity. cbn [andb kids_bad existsb].
  rewrite (marshal_tm_bad t E). reflexivity.
Qed.

Lemma test_attr_bad name test :
  den_test test = None ->
  attrs_bad bad_test_attr (nsd NS_CARD :: at_always "name" name ++ at_omitempty "test" test) = true.
Proof.
  intros E. destruct (den_test_none _ E) as [Hne Hv]. unfold attrs_bad, at_omitempty, at_always. rewrite Hne.
  cbn [app existsb nsd fst snd]. unfold bad_test_attr.
  replace (String.eqb "test" "test") with true by reflexivity. rewrite Hv. cbn. reflexivity.
Qed.

Lemma marshal_pf_bad f w :
  encode_prop_filter f = Ok w -> den_pf f = None ->
  match marshal_prop_filter w with Elem n a k => pf_bad n a k | _ => false end = true.
Proof.
  destruct f as [name test ind tms ps]. unfold encode_prop_filter, den_pf.
  cbn [pf_name pf_test pf_ind pf_tms pf_params].
  destruct ind.
  - destruct tms, ps; cbn [nonempty orb andb mapM bind map]; try discriminate.
    intros H; inversion H; subst; clear H.
    destruct (den_test test) eqn:E; cbn [obind]; [discriminate|]. intros _.
    unfold marshal_prop_filter, el, pf_bad. cbn [wpf_name wpf_test wpf_ind wpf_tms wpf_params snd].
    replace (String.eqb "prop-filter" "prop-filter") with true by reflexivity. cbn [andb].
    rewrite (test_attr_bad name test E). reflexivity.
  - cbn [andb]. destruct (mapM encode_param_filter ps) as [ws| |] eqn:EP; cbn [bind]; try discriminate.
    intros H; inversion H; subst; clear H.
    unfold marshal_prop_filter, el, pf_bad. cbn [wpf_name wpf_test wpf_ind wpf_tms wpf_params snd flag_kid app].
    replace (String.eqb "prop-filter" "prop-filter") with true by reflexivity. cbn [andb].
    destruct (den_test test) eqn:E; cbn [obind]; [|intros _; rewrite (test_attr_bad name test E); reflexivity].
    intros H. apply orb_true_iff; right. rewrite kids_bad_app. apply orb_true_iff.
    destruct (omapM den_tm tms) eqn:ET; cbn [obind] in H.
    + right. destruct (omapM den_param ps) eqn:EPa; cbn [obind] in H; [discriminate|].
      destruct (omapM_none _ _ EPa) as [p [Hin Hp]].
      destruct (Forall2_In_l' _ _ _ p (mapM_Forall2 _ _ _ EP) Hin) as [w [Hw Ew]].
      pose proof (marshal_param_bad p w Ew Hp) as B.
      destruct (marshal_param_filter w) as [n a k| |] eqn:EM; try discriminate.
      apply (kids_bad_in _ _ n a k); [rewrite <- EM; apply in_map, Hw|]. rewrite B. apply orb_true_r.
    + left. destruct (omapM_none _ _ ET) as [t [Hin Ht]].
      pose proof (marshal_tm_bad t Ht) as B.
      destruct (marshal_text_match (encode_text_match t)) as [n a k| |] eqn:EM; try discriminate.
      apply (kids_bad_in _ _ n a k); [rewrite <- EM; apply in_map, in_map, Hin|]. rewrite B. reflexivity.
Qed.

Lemma marshal_query_bad q w :
  query_address_book q = Ok w -> den_query q = None -> doc_bad_enum (marshal_query w) = true.
Proof.
  unfold query_address_book. destruct (mapM encode_prop_filter (q_filters q)) as [ws| |] eqn:E; cbn [bind]; try discriminate.
  intros H; inversion H; subst; clear H. unfold den_query. intros H.
  unfold marshal_query, el, doc_bad_enum. rewrite qname_eqb_refl. cbn [andb].
  cbn [wq_prop wq_allprop wq_propname wq_filter wq_limit opt_kid flag_kid app].
  cbn [kids_bad existsb]. apply orb_true_iff; right. apply orb_true_iff; left.
  unfold marshal_filter, el, f_bad. cbn [wf_test wf_props snd].
  replace (String.eqb "filter" "filter") with true by reflexivity. cbn [andb]. apply orb_true_iff.
  destruct (den_test (q_test q)) eqn:ET; cbn [obind] in H.
  - right. destruct (omapM den_pf (q_filters q)) eqn:EF; cbn [obind] in H; [discriminate|].
    destruct (omapM_none _ _ EF) as [f [Hin Hf]].
    destruct (Forall2_In_l' _ _ _ f (mapM_Forall2 _ _ _ E) Hin) as [w [Hw Ew]].
    pose proof (marshal_pf_bad f w Ew Hf) as B.
    destruct (marshal_prop_filter w) as [n a k| |] eqn:EM; try discriminate.
    apply (kids_bad_in _ _ n a k); [rewrite <- EM; apply in_map, Hw|exact B].
  - left. destruct (den_test_none _ ET) as [Hne Hv]. unfold attrs_bad, at_omitempty. rewrite Hne.
    cbn [app existsb nsd fst snd]. unfold bad_test_attr.
    replace (String.eqb "test" "test") with true by reflexivity. rewrite Hv. cbn. reflexivity.
Qed.

Lemma mapM_err {A B} (f : A -> res B) l c : mapM f l = Err c -> exists x, In x l /\ f x = Err c.
Proof.
  induction l as [|x l IH]; simpl; [discriminate|].
  destruct (f x) as [w|c2|] eqn:E; cbn [bind]; try discriminate.
  - destruct (mapM f l) as [ws|c3|]; cbn [bind]; try discriminate.
    intros X; inversion X; subst. destruct (IH eq_refl) as [y [Hy Fy]]. eauto.
  - intros X; inversion X; subst. eauto.
Qed.

Lemma mapM_panic {A B} (f : A -> res B) l : mapM f l = Panic -> exists x, In x l /\ f x = Panic.
Proof.
  induction l as [|x l IH]; simpl; [discriminate|].
  destruct (f x) as [w|c2|] eqn:E; cbn [bind]; try discriminate.
  - destruct (mapM f l) as [ws|c3|]; cbn [bind]; try discriminate.
    intros _. destruct (IH eq_refl) as [y [Hy Fy]]. eauto.
  - intros _. eauto.
Qed.

Lemma encode_param_cases p : (exists w, encode_param_filter p = Ok w) \/ encode_param_filter p = Err 0.
Proof. unfold encode_param_filter. destruct (pa_ind p && _); eauto. Qed.

Lemma encode_pf_cases f : (exists w, encode_prop_filter f = Ok w) \/ encode_prop_filter f = Err 0.
Proof.
  unfold encode_prop_filter. destruct (pf_ind f && _); [right; reflexivity|].
  destruct (mapM encode_param_filter (pf_params f)) as [ps|c|] eqn:E; cbn [bind]; eauto.
  - destruct (mapM_err _ _ _ E) as [p [_ Hp]]. destruct (encode_param_cases p) as [[w Hw]|Hw]; [congruence|right; congruence].
  - destruct (mapM_panic _ _ E) as [p [_ Hp]]. destruct (encode_param_cases p) as [[w Hw]|Hw]; congruence.
Qed.

Lemma query_address_book_cases q : (exists w, query_address_book q = Ok w) \/ query_address_book q = Err 0.
Proof.
  unfold query_address_book.
  destruct (mapM encode_prop_filter (q_filters q)) as [ps|c|] eqn:E; cbn [bind]; eauto.
  - destruct (mapM_err _ _ _ E) as [p [_ Hp]]. destruct (encode_pf_cases p) as [[w Hw]|Hw]; [congruence|right; congruence].
  - destruct (mapM_panic _ _ E) as [p [_ Hp]]. destruct (encode_pf_cases p) as [[w Hw]|Hw]; congruence.
Qed.

Lemma marshal_tm_unq w : all_unq (marshal_text_match w) = true.
Proof.
  destruct w as [text coll ng mt]. unfold marshal_text_match, el, at_omitempty, text_kid.
  cbn [wtm_text wtm_collation wtm_negate wtm_match].
  destruct (str_empty coll), ng, (str_empty mt), (str_empty text); reflexivity.
Qed.

Lemma marshal_param_unq w : all_unq (marshal_param_filter w) = true.
Proof.
  destruct w as [name ind tm]. unfold marshal_param_filter, el. cbn [wpa_name wpa_ind wpa_tm].
  cbn [all_unq]. replace (forallb unqualified _) with true by reflexivity. cbn [andb].
  rewrite forallb_app. destruct ind; cbn [flag_kid forallb]; destruct tm; cbn [opt_kid forallb]; rewrite ?marshal_tm_unq; reflexivity.
Qed.

Lemma marshal_pf_unq w : all_unq (marshal_prop_filter w) = true.
Proof.
  destruct w as [name test ind tms ps]. unfold marshal_prop_filter, el, at_omitempty.
  cbn [wpf_name wpf_test wpf_ind wpf_tms wpf_params]. cbn [all_unq].
  replace (forallb unqualified _) with true by (destruct (str_empty test); reflexivity). cbn [andb].
  rewrite !forallb_app, !all_unq_map; auto using marshal_tm_unq, marshal_param_unq.
  destruct ind; reflexivity.
Qed.

Lemma marshal_prop_unq dr : all_unq (marshal_prop (encode_address_prop_req dr)) = true.
Proof.
  unfold marshal_prop, encode_address_prop_req, el. cbn [map marshal_raw DAV_getlastmodified DAV_getetag all_unq].
  replace (forallb unqualified [nsd NS_DAV]) with true by reflexivity. cbn [andb forallb].
  replace (all_unq (Elem (NS_DAV, "getlastmodified") [nsd NS_DAV] [])) with true by reflexivity.
  replace (all_unq (Elem (NS_DAV, "getetag") [nsd NS_DAV] [])) with true by reflexivity.
  rewrite !andb_true_r.
  unfold marshal_address_data, el. destruct (dr_allprop dr); cbn [wad_props wad_allprop map flag_kid app all_unq].
  - reflexivity.
  - replace (forallb unqualified [nsd NS_CARD]) with true by reflexivity. cbn [andb]. rewrite app_nil_r.
    apply all_unq_map. intros; reflexivity.
Qed.

Lemma marshal_query_unq q w : query_address_book q = Ok w -> all_unq (marshal_query w) = true.
Proof.
  unfold query_address_book. destruct (mapM encode_prop_filter (q_filters q)) as [pfs| |]; try discriminate.
  cbn [bind]. intros H; inversion H; subst w; clear H.
  unfold marshal_query, el. cbn [wq_prop wq_allprop wq_propname wq_filter wq_limit opt_kid flag_kid app all_unq].
  replace (forallb unqualified [nsd NS_CARD]) with true by reflexivity. cbn [andb forallb].
  rewrite marshal_prop_unq. cbn [andb].
  unfold marshal_filter, el, at_omitempty. cbn [wf_test wf_props all_unq].
  replace (forallb unqualified (nsd NS_CARD :: _)) with true by (destruct (str_empty (q_test q)); reflexivity).
  cbn [andb]. rewrite all_unq_map by apply marshal_pf_unq. cbn [andb].
  destruct (0 <? q_limit q)%Z; reflexivity.
Qed.

(** C09_enumerations, client-to-backend direction: a query that denotes no request (an
    unknown test or match-type string, or a filter with is-not-defined next to other
    conditions) either is not sent, or is sent as a document that the RFC reader rejects
    and the server refuses with 400. *)
Theorem client_inexpressible_refused up path q :
  den_query q = None ->
  client_query_doc q = Err 0 \/
  exists d, client_query_doc q = Ok d /\ rfc_read d = None /\ handle_report up path d = Err 400.
Proof.
  intros H. unfold client_query_doc. destruct (query_address_book_cases q) as [[w E]|E]; rewrite E; cbn [bind].
  - right. exists (marshal_query w). split; [reflexivity|]. split.
    + assert (D : client_query_doc q = Ok (marshal_query w)) by (unfold client_query_doc; rewrite E; reflexivity).
      rewrite (client_query_reads q _ D), H. reflexivity.
    + apply server_refuses_invalid_enum. rewrite (strip_id _ (marshal_query_unq q w E)).
      apply (marshal_query_bad q w E H).
  - left. reflexivity.
Qed.

(* ------------------------------------------------------------------------- *)
(** * The executable specifications of the correspondence check accept the model:
      agreement of the implementation with the model entails the specification
      (outside the known finding). *)

Lemma list_eqb_refl {A} (e : A -> A -> bool) l : (forall x, In x l -> e x x = true) -> list_eqb e l l = true.
Proof. induction l; simpl; intros H; auto. rewrite H, IHl; auto. Qed.

Lemma list_eqb_eq {A} (e : A -> A -> bool) l1 : forall l2,
  (forall x y, In x l1 -> e x y = true -> x = y) -> list_eqb e l1 l2 = true -> l1 = l2.
Proof.
  induction l1 as [|x l1 IH]; destruct l2 as [|y l2]; simpl; intros H E; try discriminate; auto.
  apply andb_true_iff in E. destruct E as [E1 E2]. f_equal; [apply H; auto|apply IH; auto].
Qed.

Lemma bool_eqb_eq a b : bool_eqb a b = true -> a = b.
Proof. destruct a, b; simpl; auto; discriminate. Qed.
Lemma bool_eqb_refl a : bool_eqb a a = true.
Proof. destruct a; reflexivity. Qed.

Lemma attr_eqb_eq a b : attr_eqb a b = true -> a = b.
Proof.
  destruct a as [n v], b as [n' v']. unfold attr_eqb. simpl. intros H. apply andb_true_iff in H.
  destruct H as [H1 H2]. apply qname_eqb_spec in H1. apply String.eqb_eq in H2. congruence.
Qed.

Lemma tree_eqb_eq a : forall b, tree_eqb a b = true -> a = b.
Proof.
  induction a as [n at1 k IH|s|s] using xtree_ind2; intros b; destruct b as [n' at2 k'|s'|s']; simpl; try discriminate.
  - intros H. apply andb_true_iff in H. destruct H as [H Hk]. apply andb_true_iff in H. destruct H as [Hn Ha].
    apply qname_eqb_spec in Hn. subst n'.
    apply list_eqb_eq in Ha; [|intros; apply attr_eqb_eq; assumption]. subst at2. f_equal.
    revert k' Hk. induction IH as [|x k Hx _ IHk]; intros k' Hk; destruct k' as [|y k']; try discriminate; auto.
    apply andb_true_iff in Hk. destruct Hk as [H1 H2]. f_equal; [apply Hx, H1|apply IHk, H2].
  - intros H. apply String.eqb_eq in H. congruence.
  - intros H. apply String.eqb_eq in H. congruence.
Qed.

Lemma rtest_eqb_refl a : rtest_eqb a a = true. Proof. destruct a; reflexivity. Qed.
Lemma rmatch_eqb_refl a : rmatch_eqb a a = true. Proof. destruct a; reflexivity. Qed.
Lemma r_tm_eqb_refl a : r_tm_eqb a a = true.
Proof. unfold r_tm_eqb. rewrite String.eqb_refl, bool_eqb_refl, rmatch_eqb_refl. reflexivity. Qed.
Lemma r_param_eqb_refl a : r_param_eqb a a = true.
Proof. unfold r_param_eqb. rewrite String.eqb_refl. destruct (rp_cond a); simpl; auto using r_tm_eqb_refl. Qed.
Lemma r_pf_eqb_refl a : r_pf_eqb a a = true.
Proof.
  unfold r_pf_eqb. rewrite String.eqb_refl, rtest_eqb_refl. destruct (rf_cond a); simpl; auto.
  rewrite !list_eqb_refl; auto using r_tm_eqb_refl, r_param_eqb_refl.
Qed.
Lemma r_item_eqb_refl a : r_item_eqb a a = true.
Proof.
  destruct a as [d|n]; simpl; [|apply qname_eqb_refl]. destruct d; simpl; auto.
  apply list_eqb_refl. intros; apply String.eqb_refl.
Qed.
Lemma r_sel_eqb_refl a : r_sel_eqb a a = true.
Proof. destruct a; simpl; auto. apply list_eqb_refl; auto using r_item_eqb_refl. Qed.
Lemma request_eqb_refl a : request_eqb a a = true.
Proof.
  destruct a as [q|m]; simpl.
  - unfold r_query_eqb. rewrite r_sel_eqb_refl, rtest_eqb_refl, list_eqb_refl by auto using r_pf_eqb_refl.
    destruct (rq_limit q); simpl; auto. apply N.eqb_refl.
  - unfold r_multiget_eqb. rewrite r_sel_eqb_refl, list_eqb_refl; auto. intros; apply String.eqb_refl.
Qed.

(** client stage *)
Theorem client_agree_implies_spec us i o :
  client_agrees us i o = true -> client_spec_ok us i o = true.
Proof.
  unfold client_agrees, client_spec_ok. destruct i as [q|p mg]; cbn [client_model client_denotation].
  - destruct (client_query_doc q) as [t|c|] eqn:E; destruct o as [|t']; try discriminate; intros H.
    + apply tree_eqb_eq in H. subst t'. rewrite (client_query_reads q t E).
      destruct (den_query q); cbn [obind]; [apply request_eqb_refl|reflexivity].
    + destruct (den_query q) as [r|] eqn:D; cbn [obind]; [|reflexivity].
      destruct (client_query_conformant q r D) as [d [Ed _]]. congruence.
  - destruct o as [|t']; try discriminate. intros H. apply tree_eqb_eq in H. subst t'.
    destruct (den_multiget us mg) as [m|] eqn:D; cbn [obind]; [|reflexivity].
    rewrite (client_multiget_conformant us p mg m D). apply request_eqb_refl.
Qed.

(** the client-side specification looks at the request a body denotes only up to the
    live properties asked for beside address-data *)
Theorem client_spec_modulo_live_props us i t t' r r' :
  rfc_read t = Some r -> rfc_read t' = Some r' -> request_essence r = request_essence r' ->
  client_spec_ok us i (COBody t) = client_spec_ok us i (COBody t').
Proof.
  intros H H' E. unfold client_spec_ok. rewrite H, H'. unfold same_request. rewrite E. reflexivity.
Qed.

(** ... so a body that asks for more (or other) live properties than the model's is
    accepted as long as address-data and everything else is as denoted *)
Theorem client_spec_accepts_other_live_props us q r t r' :
  den_query q = Some r -> rfc_read t = Some r' ->
  request_essence r' = request_essence (RQuery r) ->
  client_spec_ok us (CIQuery q) (COBody t) = true.
Proof.
  intros D H E. unfold client_spec_ok. cbn [client_denotation]. rewrite D. cbn [obind]. rewrite H.
  unfold same_request. rewrite E. apply request_eqb_refl.
Qed.

Lemma TextMatch_eqb_eq a b : TextMatch_eqb a b = true -> a = b.
Proof.
  destruct a, b. unfold TextMatch_eqb. simpl. intros H. apply andb_true_iff in H. destruct H as [H H3].
  apply andb_true_iff in H. destruct H as [H1 H2]. apply String.eqb_eq in H1, H3. apply bool_eqb_eq in H2. congruence.
Qed.
Lemma ParamFilter_eqb_eq a b : ParamFilter_eqb a b = true -> a = b.
Proof.
  destruct a as [n i t], b as [n' i' t']. unfold ParamFilter_eqb. simpl. intros H. apply andb_true_iff in H.
  destruct H as [H H3]. apply andb_true_iff in H. destruct H as [H1 H2]. apply String.eqb_eq in H1. apply bool_eqb_eq in H2.
  destruct t, t'; simpl in H3; try discriminate; [apply TextMatch_eqb_eq in H3|]; congruence.
Qed.
Lemma PropFilter_eqb_eq a b : PropFilter_eqb a b = true -> a = b.
Proof.
  destruct a, b. unfold PropFilter_eqb. simpl. intros H.
  repeat (apply andb_true_iff in H; let X := fresh "X" in destruct H as [H X]).
  apply String.eqb_eq in H, X2. apply bool_eqb_eq in X1.
  apply list_eqb_eq in X0; [|intros; apply TextMatch_eqb_eq; assumption].
  apply list_eqb_eq in X; [|intros; apply ParamFilter_eqb_eq; assumption]. congruence.
Qed.
Lemma DataRequest_eqb_eq a b : DataRequest_eqb a b = true -> a = b.
Proof.
  destruct a, b. unfold DataRequest_eqb. simpl. intros H. apply andb_true_iff in H. destruct H as [H1 H2].
  apply list_eqb_eq in H1; [|intros x y _ Hxy; apply String.eqb_eq, Hxy]. apply bool_eqb_eq in H2. congruence.
Qed.
Lemma Query_eqb_eq a b : Query_eqb a b = true -> a = b.
Proof.
  destruct a as [d1 f1 t1 l1], b as [d2 f2 t2 l2]. unfold Query_eqb. cbn [q_data q_filters q_test q_limit]. intros H.
  do 3 (apply andb_true_iff in H; let X := fresh "X" in destruct H as [H X]).
  apply DataRequest_eqb_eq in H. apply list_eqb_eq in X1; [|intros; apply PropFilter_eqb_eq; assumption].
  apply String.eqb_eq in X0. apply Z.eqb_eq in X. congruence.
Qed.

Lemma TextMatch_eqb_refl a : TextMatch_eqb a a = true.
Proof. unfold TextMatch_eqb. rewrite !String.eqb_refl, bool_eqb_refl. reflexivity. Qed.
Lemma ParamFilter_eqb_refl a : ParamFilter_eqb a a = true.
Proof. unfold ParamFilter_eqb. rewrite String.eqb_refl, bool_eqb_refl. destruct (pa_tm a); simpl; auto using TextMatch_eqb_refl. Qed.
Lemma PropFilter_eqb_refl a : PropFilter_eqb a a = true.
Proof.
  unfold PropFilter_eqb. rewrite !String.eqb_refl, bool_eqb_refl, !list_eqb_refl; auto using TextMatch_eqb_refl, ParamFilter_eqb_refl.
Qed.
Lemma DataRequest_eqb_refl a : DataRequest_eqb a a = true.
Proof. unfold DataRequest_eqb. rewrite bool_eqb_refl, list_eqb_refl; auto. intros; apply String.eqb_refl. Qed.
Lemma Query_eqb_refl a : Query_eqb a a = true.
Proof.
  unfold Query_eqb. rewrite DataRequest_eqb_refl, String.eqb_refl, Z.eqb_refl, list_eqb_refl; auto using PropFilter_eqb_refl.
Qed.

Lemma obs_matches_canon o oc :
  obs_matches o (Ok oc) = true ->
  obs_matches (mkSO (so_panic o) (so_status o) (canon_obs_queries (so_queries o)) (so_gets o))
              (Ok (canon_outcome oc)) = true.
Proof.
  destruct o as [pn st qs gs]. destruct oc as [p q| |l]; cbn [obs_matches canon_outcome so_panic so_status so_queries so_gets].
  - intros H. repeat (apply andb_true_iff in H; let X := fresh "X" in destruct H as [H X]).
    rewrite H, X1, X. cbn [andb].
    destruct qs as [|[p' q'] [|? ?]]; simpl in X0; try discriminate; [|rewrite andb_false_r in X0; discriminate].
    rewrite andb_true_r in X0. apply andb_true_iff in X0. destruct X0 as [Hp Hq].
    apply Query_eqb_eq in Hq. subst q'. simpl. rewrite Hp, Query_eqb_refl. reflexivity.
  - unfold no_calls. cbn [so_queries so_gets]. destruct qs; simpl; auto.
  - destruct qs; simpl; [auto|]. rewrite andb_false_r. simpl. auto.
Qed.

(** server stage, conformant documents *)
Theorem server_agree_implies_spec_conformant up path x d o r :
  validate x = Some r -> rfc_read d = Some r ->
  server_agrees up path d o = true -> server_spec_ok up path x d o = true.
Proof.
  intros V R A. unfold server_spec_ok. rewrite V, R. cbn [opt_eqb]. rewrite request_eqb_refl. cbn [andb].
  destruct (limit_fits r) eqn:L; [|reflexivity].
  destruct (backend_call_of up path r) as [c|] eqn:B; [|reflexivity].
  destruct (server_denotes_read up path d r c R L B) as [oc [Ho Co]].
  unfold server_agrees in A. rewrite Ho in A. subst c. apply obs_matches_canon, A.
Qed.

(** server stage, documents with an invalid enumeration value *)
Theorem server_agree_implies_spec_bad_enum up path x d o :
  validate x = None -> doc_bad_enum (strip_qualified d) = true ->
  server_agrees up path d o = true -> server_spec_ok up path x d o = true.
Proof.
  intros V Bd A. unfold server_spec_ok. rewrite V.
  unfold server_agrees in A. rewrite (server_refuses_invalid_enum up path d Bd) in A.
  cbn [obs_matches] in A. apply andb_true_iff in A. destruct A as [A Hn]. apply andb_true_iff in A. destruct A as [Hp Hs].
  apply N.eqb_eq in Hs. rewrite Hs, Hn. apply negb_true_iff in Hp. rewrite Hp. cbn [negb andb].
  destruct (enum_bad x); reflexivity.
Qed.
