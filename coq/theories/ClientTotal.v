(** ClientTotal.v — C14: what every public client method of the three packages
    (webdav, caldav, carddav) makes of the one HTTP response it receives.

    Model, function by function, of
      internal/client.go   Client.Do, DoMultiStatus, PropFindFlat, Options, parseCommaSeparatedSet
      internal/elements.go Status.Err, Response.Err, Response.Path, Response.DecodeProp, Prop.Get,
                           and the encoding/xml struct mapping of MultiStatus, Response, PropStat,
                           Prop, Location, Error and of the property value structures
      client.go            FindCurrentUserPrincipal, fileInfoFromResponse, Stat, Open, ReadDir,
                           Create(+Close), RemoveAll, Mkdir, Copy, Move
      caldav/client.go     FindCalendarHomeSet, FindCalendars, decodeCalendarObjectList,
                           QueryCalendar, MultiGetCalendar, GetCalendarObject, PutCalendarObject
      carddav/client.go    HasSupport, FindAddressBookHomeSet, FindAddressBooks, decodeAddressList,
                           QueryAddressBook, MultiGetAddressBook, GetAddressObject,
                           PutAddressObject, SyncCollection
    followed by the specification (what the property text demands of a response) and the
    verdict functions of the oracle.  No proofs here: this file is extracted.

    Inputs that come from parsers outside /repo's decision logic are computed by the harness
    with the real functions and enter as data (DESIGN section 6): the element tree of the body
    (encoding/xml tokenizer), and per element the outcome of the text codec that the struct
    mapping applies to it ([leaf]): status line, URL, integer, HTTP date, entity tag,
    iCalendar / vCard text. *)
From GW Require Import Base.

(** * XML element trees, annotated *)

Definition qname := (string * string)%type.   (* namespace, local name *)
Definition qeq (a b : qname) : bool :=
  String.eqb (fst a) (fst b) && String.eqb (snd a) (snd b).

Definition DAV : string := "DAV:".
Definition CAL : string := "urn:ietf:params:xml:ns:caldav".
Definition CARD : string := "urn:ietf:params:xml:ns:carddav".

(** Outcome of the text codec applied to the character data directly inside an element:
    - [LCode c] / [LEmpty] / [LBad]: Status.UnmarshalText (empty text leaves the value as it is);
    - [LPath p] / [LBad]: url.Parse, [p] its Path (Href.UnmarshalText);
    - [LInt neg] / [LBad]: encoding/xml's int64 conversion, [neg] = the number is negative;
    - [LGood] / [LBad]: http.ParseTime, ETag.UnmarshalText, the iCalendar or vCard decoder;
    - [LPanic]: the iCalendar or vCard decoder panics on this text (go-ical does on some
      malformed content lines; since the repair c4d1d95 the caldav client turns that into an
      error, the carddav client calls go-vcard unguarded);
    - [LVal v], [LIntV neg v]: as [LGood] / [LInt neg], with the decoded value in a canonical
      rendering (entity tag unquoted, time in Unix seconds, integer in decimal, a string field's
      character data, the names of a component set): what the client hands out as metadata;
    - [LNone]: no codec applies to this element. *)
Inductive leaf := LNone | LBad | LEmpty | LCode (c : N) | LPath (p : string) | LInt (neg : bool) | LGood | LPanic
| LVal (v : string) | LIntV (neg : bool) (v : string).

(** Only elements: character data is represented by [ann] alone, comments, processing
    instructions and directives are invisible to the struct mapping. *)
Inductive xtree := Elem (name : qname) (ann : leaf) (kids : list xtree).

Definition xname (t : xtree) : qname := match t with Elem n _ _ => n end.
Definition xann (t : xtree) : leaf := match t with Elem _ a _ => a end.
Definition xkids (t : xtree) : list xtree := match t with Elem _ _ k => k end.
Definition local_is (t : xtree) (l : string) : bool := String.eqb (snd (xname t)) l.
Definition ns_is (t : xtree) (ns : string) : bool := String.eqb (fst (xname t)) ns.

(** * Errors and results *)

(** What [errors.As] can extract from a Go error: the first *HTTPError in the chain
    (its code) and the first *Error (DAV:error element; the names of its children). *)
Inductive cerr := EHttp (code : N) (dav : option (list qname)) | EOther.

Inductive cres (A : Type) : Type := COk (a : A) | CErr (e : cerr) | CPanic.
Arguments COk {A} a.
Arguments CErr {A} e.
Arguments CPanic {A}.

Definition cbind {A B} (r : cres A) (f : A -> cres B) : cres B :=
  match r with COk a => f a | CErr e => CErr e | CPanic => CPanic end.
Notation "'cdo' x <- r ; k" := (cbind r (fun x => k))
  (at level 200, x pattern, r at level 100, k at level 200, right associativity).

Definition c_is_err {A} (r : cres A) : bool := match r with CErr _ => true | _ => false end.
Definition c_is_ok {A} (r : cres A) : bool := match r with COk _ => true | _ => false end.

(** [foldo]: a loop over child elements whose body may fail (the whole Decode fails). *)
Fixpoint foldo {S X : Type} (step : S -> X -> option S) (l : list X) (s : S) : option S :=
  match l with
  | [] => Some s
  | x :: r => match step s x with Some s' => foldo step r s' | None => None end
  end.

(** * encoding/xml struct mapping of the multi-status skeleton

    A field tagged with a bare name matches a child of that local name in ANY namespace
    (encoding/xml: finfo.xmlns is empty); when the field's type has an XMLName with a
    namespace, unmarshalling into it then fails unless the namespace is that one. *)

Record propstat := mkPS { ps_props : list xtree; ps_status : N }.
Record response := mkR {
  r_hrefs : list string;
  r_pss : list propstat;
  r_status : option N;               (* *Status: nil when there is no status child *)
  r_error : option (list qname) }.   (* *Error: names of the captured children *)

(** Status.UnmarshalText applied to a Status currently holding [cur]. *)
Definition status_text (cur : N) (a : leaf) : option N :=
  match a with LCode c => Some c | LEmpty => Some cur | _ => None end.

Definition href_text (a : leaf) : option string :=
  match a with LPath p => Some p | _ => None end.

Definition ps_step (s : propstat) (k : xtree) : option propstat :=
  if local_is k "prop" then
    if ns_is k DAV then Some (mkPS (ps_props s ++ xkids k)%list (ps_status s)) else None
  else if local_is k "status" then
    match status_text (ps_status s) (xann k) with
    | Some c => Some (mkPS (ps_props s) c)
    | None => None
    end
  else if local_is k "error" then
    if ns_is k DAV then Some s else None
  else Some s.

Definition dec_propstat (t : xtree) : option propstat :=
  if ns_is t DAV then foldo ps_step (xkids t) (mkPS [] 0%N) else None.

Definition loc_step (u : unit) (k : xtree) : option unit :=
  if local_is k "href" then match href_text (xann k) with Some _ => Some tt | None => None end
  else Some tt.

Definition r_step (r : response) (k : xtree) : option response :=
  if local_is k "href" then
    match href_text (xann k) with
    | Some p => Some (mkR (r_hrefs r ++ [p])%list (r_pss r) (r_status r) (r_error r))
    | None => None
    end
  else if local_is k "propstat" then
    match dec_propstat k with
    | Some ps => Some (mkR (r_hrefs r) (r_pss r ++ [ps])%list (r_status r) (r_error r))
    | None => None
    end
  else if local_is k "status" then
    match status_text (match r_status r with Some c => c | None => 0%N end) (xann k) with
    | Some c => Some (mkR (r_hrefs r) (r_pss r) (Some c) (r_error r))
    | None => None
    end
  else if local_is k "error" then
    if ns_is k DAV then
      Some (mkR (r_hrefs r) (r_pss r) (r_status r)
                (Some ((match r_error r with Some l => l | None => [] end) ++ map xname (xkids k))%list))
    else None
  else if local_is k "location" then
    if ns_is k DAV then
      match foldo loc_step (xkids k) tt with Some _ => Some r | None => None end
    else None
  else Some r.

Definition dec_response (t : xtree) : option response :=
  if ns_is t DAV then foldo r_step (xkids t) (mkR [] [] None None) else None.

Definition ms_step (acc : list response) (k : xtree) : option (list response) :=
  if local_is k "response" then
    match dec_response k with Some r => Some (acc ++ [r])%list | None => None end
  else Some acc.

(** xml.Decoder.Decode(&ms) on the first element of the body. *)
Definition dec_multistatus (t : xtree) : option (list response) :=
  if qeq (xname t) (DAV, "multistatus") then foldo ms_step (xkids t) [] else None.

(** xml.Decoder.Decode(&davErr): the DAV:error element and the names of its children. *)
Definition dec_dav_error (t : xtree) : option (list qname) :=
  if qeq (xname t) (DAV, "error") then Some (map xname (xkids t)) else None.

(** * RawXMLValue.Decode into the property value structures *)

Definition cup_step (s : string * bool) (k : xtree) : option (string * bool) :=
  if local_is k "href" then
    match href_text (xann k) with Some p => Some (p, snd s) | None => None end
  else if local_is k "unauthenticated" then Some (fst s, true)
  else Some s.
(** internal.CurrentUserPrincipal: (href path, unauthenticated present) *)
Definition dec_cup (t : xtree) : option (string * bool) := foldo cup_step (xkids t) ("", false).

Definition home_step (s : string) (k : xtree) : option string :=
  if qeq (xname k) (DAV, "href") then href_text (xann k) else Some s.
(** calendarHomeSet / addressbookHomeSet: the field is tagged "DAV: href" *)
Definition dec_homeset (t : xtree) : option string := foldo home_step (xkids t) "".

(** internal.ResourceType: names of the children *)
Definition dec_restype (t : xtree) : option (list qname) := Some (map xname (xkids t)).
(** GetContentLength, maxResourceSize: int64 chardata; the sign is kept *)
Definition dec_int (t : xtree) : option bool :=
  match xann t with LInt neg => Some neg | LIntV neg _ => Some neg | _ => None end.
(** GetLastModified, GetETag: TextUnmarshaler chardata *)
Definition dec_good (t : xtree) : option unit :=
  match xann t with LGood => Some tt | LVal _ => Some tt | _ => None end.
(** GetContentType, DisplayName, descriptions, calendar-data / address-data ([]byte): never fail *)
Definition dec_any (t : xtree) : option unit := Some tt.

(** caldav comp (nested): children named comp / prop are unmarshalled into structures whose
    XMLName demands the CalDAV namespace. *)
Fixpoint comp_ok (t : xtree) : bool :=
  match t with
  | Elem n _ kids =>
    String.eqb (fst n) CAL &&
    forallb (fun k =>
      if String.eqb (snd (xname k)) "comp" then comp_ok k
      else if String.eqb (snd (xname k)) "prop" then String.eqb (fst (xname k)) CAL
      else true) kids
  end.
Definition dec_compset (t : xtree) : option unit :=
  if forallb (fun k => if local_is k "comp" then comp_ok k else true) (xkids t) then Some tt else None.
Definition dec_addrdata (t : xtree) : option unit :=
  if forallb (fun k => if local_is k "address-data-type" then ns_is k CARD else true) (xkids t)
  then Some tt else None.

(** * internal/elements.go *)

Definition success (c : N) : bool := (c / 100 =? 2)%N.

(** Status.Err (propstat status) *)
Definition status_err (c : N) : option cerr :=
  if success c then None else Some (EHttp c None).

(** Response.Err *)
Definition resp_err (r : response) : option cerr :=
  match r_status r with
  | None => None
  | Some c => if success c then None else Some (EHttp c (r_error r))
  end.

(** Response.Path: (path, err) *)
Definition resp_path (r : response) : string * option cerr :=
  let e := resp_err r in
  match r_hrefs r with
  | [p] => (p, e)
  | _ => ("", match e with Some x => Some x | None => Some EOther end)
  end.

(** Prop.Get *)
Definition prop_get (n : qname) (raws : list xtree) : option xtree :=
  find (fun t => qeq (xname t) n) raws.

(** the loop over resp.PropStats in DecodeProp: first propstat that has the property *)
Fixpoint find_prop (n : qname) (pss : list propstat) : option (propstat * xtree) :=
  match pss with
  | [] => None
  | ps :: rest =>
    match prop_get n (ps_props ps) with
    | Some raw => Some (ps, raw)
    | None => find_prop n rest
    end
  end.

(** Response.DecodeProp for one value *)
Definition decode_prop {A} (r : response) (n : qname) (dec : xtree -> option A) : cres A :=
  match resp_err r with
  | Some e => CErr e
  | None =>
    match find_prop n (r_pss r) with
    | None => CErr (EHttp 404 None)
    | Some (ps, raw) =>
      match status_err (ps_status ps) with
      | Some e => CErr e
      | None => match dec raw with Some a => COk a | None => CErr EOther end
      end
    end
  end.

(** internal.IsNotFound *)
Definition is_not_found (e : cerr) : bool :=
  match e with EHttp c _ => (c =? 404)%N | EOther => false end.

(** `if err != nil && !internal.IsNotFound(err) { return err }` — the zero value stays *)
Definition tolerate {A} (x : cres A) (zero : A) : cres A :=
  match x with
  | CErr e => if is_not_found e then COk zero else CErr e
  | o => o
  end.

(** * internal/client.go *)

Inductive xmlbody := XSyn | XTree (t : xtree).

(** One scripted response.  [h_mt]: media type as Client.Do computes it (Content-Type, or
    text/plain when empty, through mime.ParseMediaType, error ignored); [h_ct_err]/[h_ct]:
    mime.ParseMediaType of the raw header as Get*Object calls it; [h_dav]: values of the DAV
    header; [h_loc]: Location header (LNone absent, LBad unparsable, LPath p);
    [h_etag_ok] ...: strconv.Unquote / ParseInt / http.ParseTime of the ETag, Content-Length,
    Last-Modified headers (absent = true); [h_ical], [h_vcard]: what the iCalendar / vCard
    decoder makes of the body (LGood, LBad, LPanic); [h_reqset]: the HTTPClient filled Response.Request (as http.Client does). *)
Record hresp := mkH {
  h_status : N;
  h_reqset : bool;
  h_mt : string;
  h_ct_err : bool;
  h_ct : string;
  h_dav : list string;
  h_loc : leaf;
  h_etag_ok : bool;
  h_len_ok : bool;
  h_mod_ok : bool;
  h_ical : leaf;
  h_vcard : leaf;
  h_xml : xmlbody }.

(** [Terr]: HTTPClient.Do returned an error. *)
Inductive script := Terr | Resp (r : hresp).

(** Client.Do *)
Definition client_do (s : script) : cres hresp :=
  match s with
  | Terr => CErr EOther
  | Resp r =>
    if success (h_status r) then COk r
    else
      let wrapped :=
        if String.eqb (h_mt r) "application/xml" || String.eqb (h_mt r) "text/xml" then
          match h_xml r with
          | XSyn => None
          | XTree t => dec_dav_error t
          end
        else None (* text/...: at most 1024 bytes of text, not a DAV:error *) in
      CErr (EHttp (h_status r) wrapped)
  end.

(** Client.DoMultiStatus *)
Definition do_multistatus (s : script) : cres (list response) :=
  cdo r <- client_do s;
  if (h_status r =? 207)%N then
    match h_xml r with
    | XSyn => CErr EOther
    | XTree t => match dec_multistatus t with Some ms => COk ms | None => CErr EOther end
    end
  else CErr (EHttp (h_status r) None).

(** Client.PropFindFlat *)
Definition propfind_flat (s : script) : cres response :=
  cdo ms <- do_multistatus s;
  match ms with [r] => COk r | _ => CErr EOther end.

(** parseCommaSeparatedSet on byte strings (ASCII: separators are ',', ' ' and \t..\r). *)
Definition is_sep (c : ascii) : bool :=
  let n := N_of_ascii c in ((n =? 44) || (n =? 32) || ((9 <=? n) && (n <=? 13)))%N.
Definition lower_ascii (c : ascii) : ascii :=
  let n := N_of_ascii c in if ((65 <=? n) && (n <=? 90))%N then ascii_of_N (n + 32) else c.
Fixpoint lower (s : string) : string :=
  match s with EmptyString => EmptyString | String c r => String (lower_ascii c) (lower r) end.
Fixpoint fields (s cur : string) : list string :=
  match s with
  | EmptyString => if str_empty cur then [] else [cur]
  | String c r =>
    if is_sep c then (if str_empty cur then fields r "" else cur :: fields r "")
    else fields r (cur ++ String c "")
  end.
Definition set_has (vals : list string) (tok : string) : bool :=
  existsb (fun v => existsb (fun f => String.eqb (lower f) tok) (fields v "")) vals.

(** Client.Options, reduced to what HasSupport uses: the class set *)
Definition options (s : script) : cres (list string) :=
  cdo r <- client_do s;
  if set_has (h_dav r) "1" then COk (h_dav r) else CErr EOther.

(** * The client methods *)

Inductive meth :=
| MFindCurrentUserPrincipal | MStat | MOpen | MReadDir | MCreate | MRemoveAll | MMkdir | MCopy | MMove
| MFindCalendarHomeSet | MFindCalendars | MQueryCalendar | MMultiGetCalendar
| MGetCalendarObject | MPutCalendarObject
| MHasSupport | MFindAddressBookHomeSet | MFindAddressBooks | MQueryAddressBook
| MMultiGetAddressBook | MGetAddressObject | MPutAddressObject | MSyncCollection.

(** Projection of the returned value on what C14 constrains: which resources are
    handed to the caller as valid data (their paths), for sync-collection split into
    deleted and updated. *)
Inductive value := VUnit | VPaths (l : list string) | VSync (deleted updated : list string).

(** a loop over ms.Responses that returns on the first error; [None] = `continue` *)
Fixpoint collect {A} (f : response -> cres (option A)) (l : list response) : cres (list A) :=
  match l with
  | [] => COk []
  | r :: rest =>
    cdo o <- f r;
    cdo tl <- collect f rest;
    COk (match o with Some a => a :: tl | None => tl end)
  end.

Definition n_resourcetype : qname := (DAV, "resourcetype").
Definition n_displayname : qname := (DAV, "displayname").
Definition n_getcontentlength : qname := (DAV, "getcontentlength").
Definition n_getcontenttype : qname := (DAV, "getcontenttype").
Definition n_getlastmodified : qname := (DAV, "getlastmodified").
Definition n_getetag : qname := (DAV, "getetag").
Definition n_cup : qname := (DAV, "current-user-principal").
Definition n_collection : qname := (DAV, "collection").

Definition has_name (n : qname) (l : list qname) : bool := existsb (qeq n) l.

(** webdav: FindCurrentUserPrincipal *)
Definition find_cup (s : script) : cres value :=
  cdo r <- propfind_flat s;
  cdo p <- decode_prop r n_cup dec_cup;
  if snd p then CErr EOther else COk (VPaths [fst p]).

(** caldav / carddav: Find*HomeSet *)
Definition find_homeset (n : qname) (s : script) : cres value :=
  cdo r <- propfind_flat s;
  cdo p <- decode_prop r n dec_homeset;
  COk (VPaths [p]).

(** webdav: fileInfoFromResponse *)
Definition file_info (r : response) : cres string :=
  match resp_path r with
  | (_, Some e) => CErr e
  | (path, None) =>
    cdo rt <- decode_prop r n_resourcetype dec_restype;
    cdo _ <-
      (if has_name n_collection rt then COk tt
       else
         cdo _ <- decode_prop r n_getcontentlength dec_int;
         cdo _ <- tolerate (decode_prop r n_getcontenttype dec_any) tt;
         cdo _ <- tolerate (decode_prop r n_getetag dec_good) tt;
         COk tt);
    cdo _ <- tolerate (decode_prop r n_getlastmodified dec_good) tt;
    COk path
  end.

Definition stat (s : script) : cres value :=
  cdo r <- propfind_flat s;
  cdo p <- file_info r;
  COk (VPaths [p]).

Definition read_dir (s : script) : cres value :=
  cdo ms <- do_multistatus s;
  cdo l <- collect (fun r => cdo p <- file_info r; COk (Some p)) ms;
  COk (VPaths l).

(** methods that only look at the status: Open, RemoveAll, Mkdir, Copy, Move, Create+Close *)
Definition plain (s : script) : cres value :=
  cdo _ <- client_do s; COk VUnit.

(** caldav FindCalendars / carddav FindAddressBooks: one iteration *)
Definition collection_item (n_type n_desc n_size n_supp : qname) (dec_supp : xtree -> option unit)
           (r : response) : cres (option string) :=
  match resp_path r with
  | (_, Some e) => CErr e
  | (path, None) =>
    cdo rt <- decode_prop r n_resourcetype dec_restype;
    if negb (has_name n_type rt) then COk None
    else
      cdo _ <- tolerate (decode_prop r n_desc dec_any) tt;
      cdo _ <- tolerate (decode_prop r n_displayname dec_any) tt;
      cdo neg <- tolerate (decode_prop r n_size dec_int) false;
      if neg : bool then CErr EOther
      else
        cdo _ <- tolerate (decode_prop r n_supp dec_supp) tt;
        COk (Some path)
  end.

Definition find_collections (n_type n_desc n_size n_supp : qname) (dec_supp : xtree -> option unit)
           (s : script) : cres value :=
  cdo ms <- do_multistatus s;
  cdo l <- collect (collection_item n_type n_desc n_size n_supp dec_supp) ms;
  COk (VPaths l).

Definition n_calendar : qname := (CAL, "calendar").
Definition n_cal_desc : qname := (CAL, "calendar-description").
Definition n_cal_size : qname := (CAL, "max-resource-size").
Definition n_cal_supp : qname := (CAL, "supported-calendar-component-set").
Definition n_cal_data : qname := (CAL, "calendar-data").
Definition n_cal_home : qname := (CAL, "calendar-home-set").
Definition n_addressbook : qname := (CARD, "addressbook").
Definition n_card_desc : qname := (CARD, "addressbook-description").
Definition n_card_size : qname := (CARD, "max-resource-size").
Definition n_card_supp : qname := (CARD, "supported-address-data").
Definition n_card_data : qname := (CARD, "address-data").
Definition n_card_home : qname := (CARD, "addressbook-home-set").

(** decodeCalendarObjectList / decodeAddressList: one iteration.  The data property is a
    []byte (never fails to decode); the iCalendar / vCard decoder runs last, its outcome
    is the annotation of the data element.  [guarded]: the decoder is called through
    decodeCalendar, which recovers from its panic (caldav; carddav calls go-vcard directly). *)
Definition object_item (guarded : bool) (n_data : qname) (r : response) : cres (option string) :=
  match resp_path r with
  | (_, Some e) => CErr e
  | (path, None) =>
    cdo parsed <- decode_prop r n_data (fun t => Some (xann t));
    cdo _ <- tolerate (decode_prop r n_getlastmodified dec_good) tt;
    cdo _ <- tolerate (decode_prop r n_getetag dec_good) tt;
    cdo _ <- tolerate (decode_prop r n_getcontentlength dec_int) false;
    match parsed with
    | LGood => COk (Some path)
    | LPanic => if guarded then CErr EOther else CPanic
    | _ => CErr EOther
    end
  end.

Definition report_objects (guarded : bool) (n_data : qname) (s : script) : cres value :=
  cdo ms <- do_multistatus s;
  cdo l <- collect (object_item guarded n_data) ms;
  COk (VPaths l).

(** populateCalendarObject / populateAddressObject: (ok?, path) *)
Definition populate_ok (r : hresp) : bool :=
  match h_loc r with LBad => false | _ => true end && h_etag_ok r && h_len_ok r && h_mod_ok r.
Definition populate_path (r : hresp) (dflt : string) : string :=
  match h_loc r with LPath p => p | _ => dflt end.

(** GetCalendarObject / GetAddressObject.  [path] is the path of the request URL
    (resp.Request.URL.Path); a nil Response.Request is a nil dereference. *)
Definition get_object (guarded : bool) (mime : string) (parsed : hresp -> leaf) (path : string) (s : script) : cres value :=
  cdo r <- client_do s;
  if h_ct_err r then CErr EOther
  else if negb (String.eqb (lower (h_ct r)) mime) then CErr EOther
  else
    match parsed r with
    | LPanic => if guarded then CErr EOther else CPanic
    | LGood =>
      if negb (h_reqset r) then CPanic
      else if populate_ok r then COk (VPaths [populate_path r path]) else CErr EOther
    | _ => CErr EOther
    end.

(** PutCalendarObject / PutAddressObject *)
Definition put_object (path : string) (s : script) : cres value :=
  cdo r <- client_do s;
  if populate_ok r then COk (VPaths [populate_path r path]) else CErr EOther.

(** carddav HasSupport *)
Definition has_support (s : script) : cres value :=
  cdo classes <- options s;
  if set_has classes "addressbook" then COk VUnit else CErr EOther.

(** carddav SyncCollection: one iteration *)
Inductive sync_item := SDeleted (l : list string) | SUpdated (p : string).

Definition sync_one (path : string) (r : response) : cres (option sync_item) :=
  match resp_path r with
  | (_, Some e) =>
    match e with
    | EHttp c _ =>
      if (c =? 404)%N && negb (match r_hrefs r with [] => true | _ => false end)
      then COk (Some (SDeleted (r_hrefs r))) else CErr e
    | EOther => CErr e
    end
  | (p, None) =>
    if String.eqb p path || String.eqb path (p ++ "/") then COk None
    else
      cdo _ <- tolerate (decode_prop r n_getlastmodified dec_good) tt;
      cdo _ <- tolerate (decode_prop r n_getetag dec_good) tt;
      COk (Some (SUpdated p))
  end.

Definition sync_deleted (l : list sync_item) : list string :=
  flat_map (fun i => match i with SDeleted d => d | SUpdated _ => [] end) l.
Definition sync_updated (l : list sync_item) : list string :=
  flat_map (fun i => match i with SDeleted _ => [] | SUpdated p => [p] end) l.

Definition sync_collection (path : string) (s : script) : cres value :=
  cdo ms <- do_multistatus s;
  cdo l <- collect (sync_one path) ms;
  COk (VSync (sync_deleted l) (sync_updated l)).

(** * Metadata of the objects handed out

    Each loop iteration declares its decode targets afresh (`var getETag internal.GetETag` ...),
    DecodeProp fills them, and a tolerated failure (404) leaves the zero value: [field] is the
    content of such a variable after the call, in the rendering of [LVal] / [LIntV]. *)
Definition val_of (a : leaf) : string :=
  match a with LVal v => v | LIntV _ v => v | _ => "" end.
Definition dec_val (t : xtree) : option string := Some (val_of (xann t)).
Definition field (r : response) (n : qname) (zero : string) : string :=
  match decode_prop r n dec_val with COk v => v | _ => zero end.
(** Go's zero time.Time in Unix seconds *)
Definition zero_time : string := "-62135596800".

(** CalendarObject / AddressObject: ETag, ModTime, ContentLength *)
Definition object_meta (r : response) : list string :=
  [field r n_getetag ""; field r n_getlastmodified zero_time; field r n_getcontentlength "0"].
(** Calendar / AddressBook: Name, Description, MaxResourceSize, SupportedComponentSet / SupportedAddressData *)
Definition collection_meta (n_desc n_size n_supp : qname) (r : response) : list string :=
  [field r n_displayname ""; field r n_desc ""; field r n_size "0"; field r n_supp ""].
(** SyncResponse.Updated: ModTime, ETag *)
Definition sync_meta (r : response) : list string :=
  [field r n_getlastmodified zero_time; field r n_getetag ""].

(** the metadata of the entries for which the loop body appended an object *)
Definition collect_meta {A} (f : response -> cres (option A)) (sel : A -> bool)
           (mf : response -> list string) (l : list response) : list (list string) :=
  flat_map (fun r => match f r with COk (Some a) => if sel a then [mf r] else [] | _ => [] end) l.

Definition is_updated (i : sync_item) : bool := match i with SUpdated _ => true | SDeleted _ => false end.

Definition run_meta (m : meth) (path : string) (s : script) : list (list string) :=
  match do_multistatus s with
  | COk ms =>
    match m with
    | MQueryCalendar | MMultiGetCalendar =>
      collect_meta (object_item true n_cal_data) (fun _ => true) object_meta ms
    | MQueryAddressBook | MMultiGetAddressBook =>
      collect_meta (object_item false n_card_data) (fun _ => true) object_meta ms
    | MFindCalendars =>
      collect_meta (collection_item n_calendar n_cal_desc n_cal_size n_cal_supp dec_compset) (fun _ => true)
                   (collection_meta n_cal_desc n_cal_size n_cal_supp) ms
    | MFindAddressBooks =>
      collect_meta (collection_item n_addressbook n_card_desc n_card_size n_card_supp dec_addrdata) (fun _ => true)
                   (collection_meta n_card_desc n_card_size n_card_supp) ms
    | MSyncCollection => collect_meta (sync_one path) is_updated sync_meta ms
    | _ => []
    end
  | _ => []
  end.

(** Every public client method: [path] is the path argument of the call. *)
Definition run (m : meth) (path : string) (s : script) : cres value :=
  match m with
  | MFindCurrentUserPrincipal => find_cup s
  | MStat => stat s
  | MReadDir => read_dir s
  | MOpen | MCreate | MRemoveAll | MMkdir | MCopy | MMove => plain s
  | MFindCalendarHomeSet => find_homeset n_cal_home s
  | MFindCalendars => find_collections n_calendar n_cal_desc n_cal_size n_cal_supp dec_compset s
  | MQueryCalendar | MMultiGetCalendar => report_objects true n_cal_data s
  | MGetCalendarObject => get_object true "text/calendar" h_ical path s
  | MPutCalendarObject => put_object path s
  | MHasSupport => has_support s
  | MFindAddressBookHomeSet => find_homeset n_card_home s
  | MFindAddressBooks => find_collections n_addressbook n_card_desc n_card_size n_card_supp dec_addrdata s
  | MQueryAddressBook | MMultiGetAddressBook => report_objects false n_card_data s
  | MGetAddressObject => get_object false "text/vcard" h_vcard path s
  | MPutAddressObject => put_object path s
  | MSyncCollection => sync_collection path s
  end.

(** The scripted HTTPClient behaves like http.Client: Response.Request is set. *)
Definition well_formed (s : script) : bool :=
  match s with Terr => true | Resp r => h_reqset r end.

(** The third-party vCard decoder, which the carddav client calls unguarded, returns (a
    value or an error) on the texts this response hands it: on the body, and on every
    address-data value of its multi-status.  (No panic of go-vcard has been observed; the
    iCalendar decoder does panic, and the caldav client recovers from it.) *)
Definition is_lpanic (a : leaf) : bool := match a with LPanic => true | _ => false end.
Definition ms_panic_free (nd : qname) (ms : list response) : bool :=
  forallb (fun r => forallb (fun ps => forallb (fun raw =>
    negb (qeq (xname raw) nd && is_lpanic (xann raw))) (ps_props ps)) (r_pss r)) ms.
Definition vcard_decoder_total (s : script) : bool :=
  match s with
  | Terr => true
  | Resp r =>
    negb (is_lpanic (h_vcard r)) &&
    match h_xml r with
    | XSyn => true
    | XTree t => match dec_multistatus t with Some ms => ms_panic_free n_card_data ms | None => true end
    end
  end.
Definition vcard_decoder_panics (s : script) : bool := negb (vcard_decoder_total s).

(** * Specification (from the property text, not from the code)

    A call fails exactly when the transport failed, the status is not 2xx, a multi-status
    was required and the status is not 207, or the body cannot be interpreted; a non-2xx
    failure carries the status and the DAV:error element of the body; a resource or
    property reported with a non-success status is never handed out as data. *)

Definition needs_207 (m : meth) : bool :=
  match m with
  | MFindCurrentUserPrincipal | MStat | MReadDir
  | MFindCalendarHomeSet | MFindCalendars | MQueryCalendar | MMultiGetCalendar
  | MFindAddressBookHomeSet | MFindAddressBooks | MQueryAddressBook | MMultiGetAddressBook
  | MSyncCollection => true
  | _ => false
  end.

(** the DAV:error condition of a failed response: an XML content type and a body whose
    first element is DAV:error; the conditions are its children *)
Definition spec_dav_error (r : hresp) : option (list qname) :=
  if String.eqb (h_mt r) "application/xml" || String.eqb (h_mt r) "text/xml" then
    match h_xml r with
    | XTree (Elem n _ kids) => if qeq n (DAV, "error") then Some (map xname kids) else None
    | XSyn => None
    end
  else None.

(** What a multi-status says about a resource. *)
Definition resp_success (r : response) : bool :=
  match r_status r with None => true | Some c => success c end.
Definition one_href (r : response) : bool :=
  match r_hrefs r with [_] => true | _ => false end.
Definition first_href (r : response) : string := hd "" (r_hrefs r).

(** the property is reported with a success status and its value can be decoded *)
Definition prop_good {A} (r : response) (n : qname) (dec : xtree -> option A) : bool :=
  match find_prop n (r_pss r) with
  | Some (ps, raw) => success (ps_status ps) && match dec raw with Some _ => true | None => false end
  | None => false
  end.
(** the property is not reported, or reported as 404 Not Found *)
Definition prop_absent (r : response) (n : qname) : bool :=
  match find_prop n (r_pss r) with
  | Some (ps, _) => (ps_status ps =? 404)%N
  | None => true
  end.
Definition prop_opt {A} (r : response) (n : qname) (dec : xtree -> option A) : bool :=
  prop_good r n dec || prop_absent r n.

Definition the_value {A} (r : response) (n : qname) (dec : xtree -> option A) : option A :=
  match find_prop n (r_pss r) with Some (_, raw) => dec raw | None => None end.

Definition is_collection (r : response) : bool :=
  match the_value r n_resourcetype dec_restype with Some l => has_name n_collection l | None => false end.
Definition has_type (n : qname) (r : response) : bool :=
  match the_value r n_resourcetype dec_restype with Some l => has_name n l | None => false end.

(** a resource entry is usable: success status, exactly one href *)
Definition entry_ok (r : response) : bool := resp_success r && one_href r.

Definition spec_file_ok (r : response) : bool :=
  entry_ok r && prop_good r n_resourcetype dec_restype &&
  (is_collection r ||
   (prop_good r n_getcontentlength dec_int && prop_opt r n_getcontenttype dec_any
    && prop_opt r n_getetag dec_good)) &&
  prop_opt r n_getlastmodified dec_good.

Definition size_nonneg (r : response) (n : qname) : bool :=
  if prop_good r n dec_int then
    match the_value r n dec_int with Some true => false | _ => true end
  else true.

Definition spec_collection_ok (n_type n_desc n_size n_supp : qname) (dec_supp : xtree -> option unit)
           (r : response) : bool :=
  entry_ok r && prop_good r n_resourcetype dec_restype &&
  (negb (has_type n_type r) ||
   (prop_opt r n_desc dec_any && prop_opt r n_displayname dec_any &&
    prop_opt r n_size dec_int && size_nonneg r n_size && prop_opt r n_supp dec_supp)).

Definition is_lgood (a : leaf) : bool := match a with LGood => true | _ => false end.
Definition data_parses (r : response) (n : qname) : bool :=
  match the_value r n (fun t => Some (xann t)) with Some LGood => true | _ => false end.

Definition spec_object_ok (n_data : qname) (r : response) : bool :=
  entry_ok r && prop_good r n_data dec_any && data_parses r n_data &&
  prop_opt r n_getlastmodified dec_good && prop_opt r n_getetag dec_good &&
  prop_opt r n_getcontentlength dec_int.

(** sync-collection: a 404 entry (with at least one href) is a deletion *)
Definition is_deletion (r : response) : bool :=
  match r_status r with
  | Some c => (c =? 404)%N && negb (match r_hrefs r with [] => true | _ => false end)
  | None => false
  end.
Definition is_self (path : string) (r : response) : bool :=
  String.eqb (first_href r) path || String.eqb path (first_href r ++ "/").
Definition spec_sync_ok (path : string) (r : response) : bool :=
  is_deletion r ||
  (entry_ok r &&
   (is_self path r || (prop_opt r n_getlastmodified dec_good && prop_opt r n_getetag dec_good))).

(** the decoded multi-status of a 207 response, if the body is one *)
Definition spec_ms (r : hresp) : option (list response) :=
  match h_xml r with XSyn => None | XTree t => dec_multistatus t end.

Definition single (ms : list response) : bool := match ms with [_] => true | _ => false end.

(** "the body can be interpreted" for the method, on a 2xx (207 where required) response *)
Definition interpretable (m : meth) (path : string) (r : hresp) : bool :=
  match m with
  | MOpen | MCreate | MRemoveAll | MMkdir | MCopy | MMove => true
  | MPutCalendarObject | MPutAddressObject => populate_ok r
  | MGetCalendarObject =>
    negb (h_ct_err r) && String.eqb (lower (h_ct r)) "text/calendar" && is_lgood (h_ical r) && populate_ok r
  | MGetAddressObject =>
    negb (h_ct_err r) && String.eqb (lower (h_ct r)) "text/vcard" && is_lgood (h_vcard r) && populate_ok r
  | MHasSupport => set_has (h_dav r) "1" && set_has (h_dav r) "addressbook"
  | _ =>
    match spec_ms r with
    | None => false
    | Some ms =>
      match m with
      | MFindCurrentUserPrincipal =>
        single ms && forallb (fun x => resp_success x && prop_good x n_cup dec_cup &&
          match the_value x n_cup dec_cup with Some (_, true) => false | _ => true end) ms
      | MFindCalendarHomeSet =>
        single ms && forallb (fun x => resp_success x && prop_good x n_cal_home dec_homeset) ms
      | MFindAddressBookHomeSet =>
        single ms && forallb (fun x => resp_success x && prop_good x n_card_home dec_homeset) ms
      | MStat => single ms && forallb spec_file_ok ms
      | MReadDir => forallb spec_file_ok ms
      | MFindCalendars => forallb (spec_collection_ok n_calendar n_cal_desc n_cal_size n_cal_supp dec_compset) ms
      | MFindAddressBooks => forallb (spec_collection_ok n_addressbook n_card_desc n_card_size n_card_supp dec_addrdata) ms
      | MQueryCalendar | MMultiGetCalendar => forallb (spec_object_ok n_cal_data) ms
      | MQueryAddressBook | MMultiGetAddressBook => forallb (spec_object_ok n_card_data) ms
      | MSyncCollection => forallb (spec_sync_ok path) ms
      | _ => true
      end
    end
  end.

(** The call must fail. *)
Definition must_fail (m : meth) (path : string) (s : script) : bool :=
  match s with
  | Terr => true
  | Resp r =>
    negb (success (h_status r))
    || (needs_207 m && negb (h_status r =? 207)%N)
    || negb (interpretable m path r)
  end.

(** What a successful call hands out (paths of the resources reported as data). *)
Definition spec_value (m : meth) (path : string) (r : hresp) : value :=
  match m with
  | MOpen | MCreate | MRemoveAll | MMkdir | MCopy | MMove | MHasSupport => VUnit
  | MPutCalendarObject | MPutAddressObject | MGetCalendarObject | MGetAddressObject =>
    VPaths [populate_path r path]
  | _ =>
    let ms := match spec_ms r with Some l => l | None => [] end in
    match m with
    | MFindCurrentUserPrincipal =>
      VPaths (map (fun x => match the_value x n_cup dec_cup with Some (p, _) => p | None => "" end) ms)
    | MFindCalendarHomeSet =>
      VPaths (map (fun x => match the_value x n_cal_home dec_homeset with Some p => p | None => "" end) ms)
    | MFindAddressBookHomeSet =>
      VPaths (map (fun x => match the_value x n_card_home dec_homeset with Some p => p | None => "" end) ms)
    | MFindCalendars => VPaths (map first_href (filter (has_type n_calendar) ms))
    | MFindAddressBooks => VPaths (map first_href (filter (has_type n_addressbook) ms))
    | MSyncCollection =>
      VSync (flat_map r_hrefs (filter is_deletion ms))
            (map first_href (filter (fun x => negb (is_deletion x) && negb (is_self path x)) ms))
    | _ => VPaths (map first_href ms)
    end
  end.

(** The metadata a successful call hands out with each object: the value the multi-status
    reports for THAT resource with a success status, else the zero value — never another
    resource's. *)
Definition spec_field (r : response) (n : qname) (zero : string) : string :=
  if prop_good r n dec_val then
    match the_value r n dec_val with Some v => v | None => zero end
  else zero.
Definition spec_object_meta (r : response) : list string :=
  [spec_field r n_getetag ""; spec_field r n_getlastmodified zero_time; spec_field r n_getcontentlength "0"].
Definition spec_collection_meta (n_desc n_size n_supp : qname) (r : response) : list string :=
  [spec_field r n_displayname ""; spec_field r n_desc ""; spec_field r n_size "0"; spec_field r n_supp ""].
Definition spec_sync_meta (r : response) : list string :=
  [spec_field r n_getlastmodified zero_time; spec_field r n_getetag ""].

Definition spec_meta (m : meth) (path : string) (r : hresp) : list (list string) :=
  let ms := match spec_ms r with Some l => l | None => [] end in
  match m with
  | MQueryCalendar | MMultiGetCalendar | MQueryAddressBook | MMultiGetAddressBook => map spec_object_meta ms
  | MFindCalendars => map (spec_collection_meta n_cal_desc n_cal_size n_cal_supp) (filter (has_type n_calendar) ms)
  | MFindAddressBooks => map (spec_collection_meta n_card_desc n_card_size n_card_supp) (filter (has_type n_addressbook) ms)
  | MSyncCollection => map spec_sync_meta (filter (fun x => negb (is_deletion x) && negb (is_self path x)) ms)
  | _ => []
  end.

(** The error a failed call must carry when the failure is the HTTP status. *)
Definition spec_status_error (m : meth) (r : hresp) : option cerr :=
  if negb (success (h_status r)) then Some (EHttp (h_status r) (spec_dav_error r))
  else if needs_207 m && negb (h_status r =? 207)%N then Some (EHttp (h_status r) None)
  else None.

(** * Observations and verdicts *)


Inductive outcome := OOk (v : value) | OErr (e : cerr) | OPanic | OHang.
(** [o_reqs]: number of HTTP requests the call made *)
Record obs := mkObs { o_reqs : N; o_out : outcome }.

Definition list_eqb {A} (eqb : A -> A -> bool) : list A -> list A -> bool :=
  fix go (a b : list A) : bool :=
    match a, b with
    | [], [] => true
    | x :: a', y :: b' => eqb x y && go a' b'
    | _, _ => false
    end.

Definition value_eqb (a b : value) : bool :=
  match a, b with
  | VUnit, VUnit => true
  | VPaths x, VPaths y => list_eqb String.eqb x y
  | VSync d u, VSync d' u' => list_eqb String.eqb d d' && list_eqb String.eqb u u'
  | _, _ => false
  end.

Definition cerr_eqb (a b : cerr) : bool :=
  match a, b with
  | EOther, EOther => true
  | EHttp c d, EHttp c' d' =>
    (c =? c')%N &&
    match d, d' with
    | None, None => true
    | Some x, Some y => list_eqb qeq x y
    | _, _ => false
    end
  | _, _ => false
  end.

Definition outcome_eqb (a b : outcome) : bool :=
  match a, b with
  | OOk x, OOk y => value_eqb x y
  | OErr x, OErr y => cerr_eqb x y
  | OPanic, OPanic => true
  | OHang, OHang => true
  | _, _ => false
  end.

Definition model_out (m : meth) (path : string) (s : script) : outcome :=
  match run m path s with COk v => OOk v | CErr e => OErr e | CPanic => OPanic end.

(** the implementation did what the model does (one request, same projected outcome) *)
Definition model_agrees (m : meth) (path : string) (s : script) (o : obs) : bool :=
  (o_reqs o =? 1)%N && outcome_eqb (model_out m path s) (o_out o).

(** the implementation's observation meets the specification *)
Definition spec_ok (m : meth) (path : string) (s : script) (o : obs) : bool :=
  (o_reqs o =? 1)%N &&
  match o_out o with
  | OPanic | OHang => false
  | OErr e =>
    must_fail m path s &&
    match s with
    | Terr => true
    | Resp r => match spec_status_error m r with Some e' => cerr_eqb e' e | None => true end
    end
  | OOk v =>
    negb (must_fail m path s) &&
    match s with Terr => false | Resp r => value_eqb (spec_value m path r) v end
  end.

(** * Response.DecodeProp with several values

    No public client method passes more than one value to DecodeProp; its variadic loop
    (every value is looked up and decoded, the first failure returns) is exercised directly:
    the harness decodes the body as a MultiStatus and calls
    resp.DecodeProp(&getETag, &getLastModified) on every response. *)
Definition decode_pair (r : response) : cres unit :=
  cdo _ <- decode_prop r n_getetag dec_good;
  cdo _ <- decode_prop r n_getlastmodified dec_good;
  COk tt.

Definition decode_pairs (b : xmlbody) : option (list (cres unit)) :=
  match b with
  | XSyn => None
  | XTree t => match dec_multistatus t with Some ms => Some (map decode_pair ms) | None => None end
  end.

(** specification: both properties are reported with a success status and decode *)
Definition spec_pair_ok (r : response) : bool :=
  resp_success r && prop_good r n_getetag dec_good && prop_good r n_getlastmodified dec_good.

Definition pair_eqb (a b : cres unit) : bool :=
  match a, b with
  | COk _, COk _ => true
  | CErr x, CErr y => cerr_eqb x y
  | CPanic, CPanic => true
  | _, _ => false
  end.

Definition list_eqb2 {A B} (eqb : A -> B -> bool) : list A -> list B -> bool :=
  fix go (a : list A) (b : list B) : bool :=
    match a, b with
    | [], [] => true
    | x :: a', y :: b' => eqb x y && go a' b'
    | _, _ => false
    end.

(** observation: None = the body did not decode as a MultiStatus *)
Definition pairs_agree (b : xmlbody) (o : option (list (cres unit))) : bool :=
  match decode_pairs b, o with
  | None, None => true
  | Some x, Some y => list_eqb pair_eqb x y
  | _, _ => false
  end.

Definition pairs_spec_ok (b : xmlbody) (o : option (list (cres unit))) : bool :=
  match b with
  | XSyn => match o with None => true | Some _ => false end
  | XTree t =>
    match dec_multistatus t, o with
    | None, None => true
    | Some ms, Some l =>
      list_eqb2 (fun r x => match x with CPanic => false | _ => Bool.eqb (c_is_ok x) (spec_pair_ok r) end) ms l
    | _, _ => false
    end
  end.

(** metadata verdicts (when the call returned a value): the implementation's per-object
    metadata against the model's and against the specification's *)
Definition meta_eqb (a b : list (list string)) : bool := list_eqb (list_eqb String.eqb) a b.
Definition meta_agrees (m : meth) (path : string) (s : script) (o : list (list string)) : bool :=
  meta_eqb (run_meta m path s) o.
Definition meta_spec_ok (m : meth) (path : string) (s : script) (o : list (list string)) : bool :=
  match s with Terr => false | Resp r => meta_eqb (spec_meta m path r) o end.

(** * Documents the statement gives no meaning to: one property reported twice for one
    resource, once with a success and once with a non-success status

    RFC 4918 does not say which report counts, and the statement ("a property reported with a
    non-success status is surfaced as an error and never as valid data") does not either: a value
    taken from the successful report IS reported with a success status, an error taken from the
    failing report IS a reported failure.  The model keeps what the code does (the first propstat
    that has the property decides; model agreement stays exact), the theorems are about that
    deterministic reading; the specification VERDICT of the oracle accepts either outcome on such
    documents (benign change C15-b7).  A status failure of the HTTP response itself is still
    judged exactly; panics and hangs are never accepted. *)
Definition ambiguous_prop (r : response) (n : qname) : bool :=
  let reports := flat_map (fun ps => if existsb (fun t => qeq (xname t) n) (ps_props ps)
                                     then [success (ps_status ps)] else []) (r_pss r) in
  existsb (fun b => b) reports && existsb negb reports.
Definition ambiguous_response (r : response) : bool :=
  existsb (ambiguous_prop r) (flat_map (fun ps => map xname (ps_props ps)) (r_pss r)).
Definition ambiguous (s : script) : bool :=
  match s with
  | Terr => false
  | Resp r => match spec_ms r with Some ms => existsb ambiguous_response ms | None => false end
  end.

Definition spec_ok_relaxed (m : meth) (path : string) (s : script) (o : obs) : bool :=
  spec_ok m path s o ||
  (ambiguous s && (o_reqs o =? 1)%N &&
   match s, o_out o with
   | Resp r, OErr e => match spec_status_error m r with Some e' => cerr_eqb e' e | None => true end
   | Resp r, OOk _ => match spec_status_error m r with Some _ => false | None => true end
   | _, _ => false
   end).
