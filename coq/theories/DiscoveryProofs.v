(** DiscoveryProofs.v — proofs about Discovery.v (property C12): under every
    mount prefix and for every well-formed layout below it, the client's
    discovery chain returns exactly the backend's paths. *)
From GW Require Import Base Route RouteProofs PropFind PropFindProofs PropFindScope Discovery.

Local Open Scope string_scope.

(** * Generalities *)

(** what NewPropFindResponse answers to a [prop] request *)
Definition resp_of (href : string) (names : list name) (p : props) : response :=
  {| r_href := href;
     r_propstats := encode_all (map (answer_name (with_resourcetype p)) (dedupe [] names)) |}.

Lemma nr_prop path names p : new_propfind_response path (prop_request names) p = Ok (resp_of path names p).
Proof. reflexivity. Qed.

Lemma map_res_all_ok {A B} (f : A -> res B) (g : A -> B) (l : list A) :
  (forall x, f x = Ok (g x)) -> map_res f l = Ok (map g l).
Proof.
  intros H. induction l as [|x r IH]; simpl; [reflexivity|]. rewrite H, IH. reflexivity.
Qed.

Lemma map_opt_all {A B} (f : A -> option B) (g : A -> B) (l : list A) :
  (forall x, In x l -> f x = Some (g x)) -> map_opt f l = Some (map g l).
Proof.
  intros H. induction l as [|x r IH]; simpl; [reflexivity|].
  rewrite H by (left; reflexivity). rewrite IH; [reflexivity|]. intros y Hy. apply H. right. exact Hy.
Qed.

Lemma map_opt_map {A B C} (f : B -> option C) (g : A -> B) (k : A -> C) (l : list A) :
  (forall x, In x l -> f (g x) = Some (k x)) -> map_opt f (map g l) = Some (map k l).
Proof.
  intros H. induction l as [|x r IH]; simpl; [reflexivity|].
  rewrite H by (left; reflexivity). rewrite IH; [reflexivity|]. intros y Hy. apply H. right. exact Hy.
Qed.

Lemma same_path_refl p : same_path p p = true.
Proof. unfold same_path. apply String.eqb_refl. Qed.

Lemma colls_answered_flat (b : backend) : colls_answered b false = map AColl (colls b).
Proof.
  unfold colls_answered. induction (colls b) as [|c r IH]; simpl; [reflexivity|]. rewrite IH. reflexivity.
Qed.

(** a PROPFIND of the client on a path that is not the well-known URI: the
    server's walk, every answered resource reporting on the requested names *)
Lemma client_propfind_plain s hprefix b path d names :
  String.eqb path (well_known s) = false ->
  client_propfind s hprefix b path d names
  = do l <- snd (propfind_walk s b (trim_slash hprefix) path d);
    Ok (map (fun a => resp_of (href_of b a) names (props_of s b a)) l).
Proof.
  intros NW. unfold client_propfind. rewrite NW, NW.
  unfold hier_propfind, handle_propfind, decode_propfind_request. cbn [bind no_form prop_request
    pf_propname pf_allprop pf_prop negb andb].
  replace (parse_depth (depth_header d)) with (Ok d) by (destruct d; reflexivity). cbn [bind].
  unfold hier_backend. destruct (snd (propfind_walk s b (trim_slash hprefix) path d)) as [l|c|]; cbn [bind];
    [|reflexivity|reflexivity].
  apply map_res_all_ok. intros a. apply nr_prop.
Qed.

(** * What the client reads from the answers (by computation over the property tables) *)

Lemma read_cup_root s b path :
  href_in (decode_prop (resp_of path [n_cup] (props_of s b (ARoot path))) n_cup) = Some (principal b).
Proof. reflexivity. Qed.

Lemma read_cup_principal s b :
  href_in (decode_prop (resp_of (principal b) [n_cup] (props_of s b APrincipal)) n_cup) = Some (principal b).
Proof. destruct s; reflexivity. Qed.

Lemma read_home_set s b :
  href_in (decode_prop (resp_of (principal b) [home_set_name s] (props_of s b APrincipal)) (home_set_name s))
  = Some (homeset b).
Proof. destruct s; reflexivity. Qed.

Lemma pick_home s b rest :
  pick_colls s (resp_of (homeset b) (coll_request s) (props_of s b AHome) :: rest) = pick_colls s rest.
Proof. destruct s; reflexivity. Qed.

Lemma pick_coll s b c rest :
  pick_colls s (resp_of (c_path c) (coll_request s) (props_of s b (AColl c)) :: rest)
  = match pick_colls s rest with Some l => Some (c_path c :: l) | None => None end.
Proof. destruct c as [p n d m os]. destruct s, n, d, m; reflexivity. Qed.

Lemma info_coll s b c :
  file_info (resp_of (c_path c) file_request (props_of s b (AColl c))) = Some (c_path c, true).
Proof. destruct c as [p n d m os]. destruct s, n, d, m; reflexivity. Qed.

Lemma info_obj s b o : o_len o = true ->
  file_info (resp_of (o_path o) file_request (props_of s b (AObj o))) = Some (o_path o, false).
Proof. destruct o as [p l m e]. cbn [o_len]. intros ->. destruct s, m, e; reflexivity. Qed.

Lemma clean_well_known s : clean (well_known s) = well_known s.
Proof. destruct s; reflexivity. Qed.

(** * The chain over a layout *)

Section Layout.
  Variable s : server.
  Variable h : hier.
  Variable pt : bool.
  Hypothesis OK : hier_ok h = true.
  Hypothesis LK : lengths_known h = true.
  Hypothesis AW : avoids_well_known s (backend_of h) = true.

  Let ps := h_ps h.
  Let u := h_user h.
  Let hm := h_home h.
  Let b := backend_of h.
  Let hprefix := spell_prefix ps pt.

  Lemma aw_parts :
    String.eqb (principal b) (well_known s) = false /\ String.eqb (homeset b) (well_known s) = false /\
    forall c, In c (colls b) -> String.eqb (c_path c) (well_known s) = false.
  Proof.
    pose proof AW as H. unfold avoids_well_known in H. fold b in H.
    rewrite !andb_true_iff, !negb_true_iff in H. destruct H as [[H1 H2] H3].
    split; [exact H1|]. split; [exact H2|].
    intros c Hc. rewrite forallb_forall in H3. specialize (H3 c Hc). apply negb_true_iff. exact H3.
  Qed.

  Lemma principal_req : principal b = req_path ps [u] (h_uslash h).
  Proof. unfold b, backend_of, principal. fold ps u. rewrite (req_path_cons h). reflexivity. Qed.

  Lemma homeset_req : homeset b = req_path ps [u; hm] (h_hslash h).
  Proof. unfold b, backend_of, homeset. fold ps u hm. rewrite (req_path_cons h). reflexivity. Qed.

  Lemma coll_req c : c_path (coll_of h c) = req_path ps [u; hm; hc_name c] (hc_slash c).
  Proof. unfold coll_of, c_path. fold ps u hm. rewrite (req_path_cons h). reflexivity. Qed.

  Lemma level_of (rs : list string) (rt : bool) : segs_ok rs = true ->
    resource_type_at_path (trim_slash hprefix) (req_path ps rs rt) = List.length rs.
  Proof. intros Hr. unfold hprefix. apply depth_only; [apply (ok_ps h OK)|exact Hr]. Qed.

  Lemma absolute (x : string) (r : list string) (rt : bool) : has_prefix (req_path ps (x :: r) rt) "/" = true.
  Proof. rewrite (req_path_cons h). destruct (h_ps h); reflexivity. Qed.

  Lemma resolve_abs e (x : string) (r : list string) (rt : bool) :
    resolve e (req_path ps (x :: r) rt) = req_path ps (x :: r) rt.
  Proof. unfold resolve. rewrite absolute. reflexivity. Qed.

  (** ** FindCurrentUserPrincipal *)

  (** a Depth 0 PROPFIND for current-user-principal on the root of the prefix or
      on the principal (either spelling) is answered by one response naming the
      principal *)
  Lemma cup_at_root rt : String.eqb (req_path ps [] rt) (well_known s) = false ->
    match flat1 (client_propfind s hprefix b (req_path ps [] rt) D0 [n_cup]) with
    | Some r => href_in (decode_prop r n_cup) = Some (principal b)
    | None => False
    end.
  Proof.
    intros NW. rewrite client_propfind_plain by exact NW.
    unfold propfind_walk. rewrite level_of by reflexivity. cbn [List.length propfind_at snd bind map flat1].
    apply read_cup_root.
  Qed.

  Lemma cup_at_principal rt : String.eqb (req_path ps [u] rt) (well_known s) = false ->
    match flat1 (client_propfind s hprefix b (req_path ps [u] rt) D0 [n_cup]) with
    | Some r => href_in (decode_prop r n_cup) = Some (principal b)
    | None => False
    end.
  Proof.
    intros NW. rewrite client_propfind_plain by exact NW.
    unfold propfind_walk. rewrite level_of by (apply seg1; apply (ok_u h OK)).
    cbn [List.length propfind_at]. unfold b. rewrite (same_principal h OK) by apply (ok_u h OK).
    fold u. rewrite String.eqb_refl. cbn [snd bind map flat1 href_of]. apply read_cup_principal.
  Qed.

  (** the redirect: whatever of these paths happens to be the well-known URI is
      answered 308 to the principal, which is not *)
  Lemma cup_via path :
    (exists rt, path = req_path ps [] rt) \/ (exists rt, path = req_path ps [u] rt) ->
    match flat1 (client_propfind s hprefix b path D0 [n_cup]) with
    | Some r => href_in (decode_prop r n_cup) = Some (principal b)
    | None => False
    end.
  Proof.
    intros Hp. destruct aw_parts as (NP & _ & _).
    destruct (String.eqb path (well_known s)) eqn:E.
    - (* redirected to the principal *)
      assert (R : client_propfind s hprefix b path D0 [n_cup]
                  = client_propfind s hprefix b (principal b) D0 [n_cup]).
      { unfold client_propfind. rewrite E, NP, NP. reflexivity. }
      rewrite R. pose proof (cup_at_principal (h_uslash h)) as H. rewrite <- principal_req in H.
      apply H. exact NP.
    - destruct Hp as [[rt ->]|[rt ->]]; [apply cup_at_root|apply cup_at_principal]; exact E.
  Qed.

  Lemma clean_root_path rt : clean (req_path ps [] rt) = req_path ps [] false.
  Proof.
    rewrite clean_req_path by (try apply (ok_ps h OK); reflexivity).
    unfold req_path. destruct (ps ++ [])%list; [reflexivity|]. rewrite append_nil_r. reflexivity.
  Qed.

  Lemma clean_principal_path : clean (principal b) = req_path ps [u] false.
  Proof.
    rewrite principal_req.
    rewrite clean_req_path by (try apply (ok_ps h OK); apply seg1; apply (ok_u h OK)).
    unfold req_path. destruct (ps ++ [u])%list; [reflexivity|]. rewrite append_nil_r. reflexivity.
  Qed.

  Lemma start_cases endpoint : start_ok s h endpoint = true ->
    (exists rt, resolve endpoint "" = req_path ps [] rt) \/ (exists rt, resolve endpoint "" = req_path ps [u] rt)
    \/ resolve endpoint "" = well_known s.
  Proof.
    unfold start_ok. rewrite !orb_true_iff, !String.eqb_eq. fold ps b.
    unfold resolve, path_join. cbn [has_prefix String.eqb].
    intros [[[->| ->]| ->]| ->].
    - right. right. apply clean_well_known.
    - left. exists false. apply clean_root_path.
    - left. exists false. apply clean_root_path.
    - right. left. exists false. apply clean_principal_path.
  Qed.

  Lemma find_principal_ok endpoint : start_ok s h endpoint = true ->
    find_principal s hprefix b endpoint = Some (principal b).
  Proof.
    intros St. unfold find_principal.
    destruct (start_cases endpoint St) as [C|[C|C]].
    - pose proof (cup_via _ (or_introl C)) as H.
      destruct (flat1 _); [exact H|contradiction].
    - pose proof (cup_via _ (or_intror C)) as H.
      destruct (flat1 _); [exact H|contradiction].
    - (* the well-known URI itself *)
      destruct aw_parts as (NP & _ & _).
      assert (R : client_propfind s hprefix b (resolve endpoint "") D0 [n_cup]
                  = client_propfind s hprefix b (principal b) D0 [n_cup]).
      { rewrite C. unfold client_propfind. rewrite String.eqb_refl, NP, NP. reflexivity. }
      rewrite R. pose proof (cup_at_principal (h_uslash h)) as H. rewrite <- principal_req in H.
      specialize (H NP).
      destruct (flat1 _); [exact H|contradiction].
  Qed.

  (** ** FindCalendarHomeSet / FindAddressBookHomeSet *)
  Lemma find_home_set_ok endpoint : find_home_set s hprefix b endpoint (principal b) = Some (homeset b).
  Proof.
    destruct aw_parts as (NP & _ & _).
    unfold find_home_set. rewrite principal_req, resolve_abs, <- principal_req.
    rewrite client_propfind_plain by exact NP.
    unfold propfind_walk. rewrite principal_req at 1. rewrite level_of by (apply seg1; apply (ok_u h OK)).
    cbn [List.length propfind_at]. rewrite same_path_refl. cbn [snd bind map flat1 href_of].
    apply read_home_set.
  Qed.

  (** ** FindCalendars / FindAddressBooks *)
  Lemma pick_all (l : list coll) :
    pick_colls s (map (fun a => resp_of (href_of b a) (coll_request s) (props_of s b a)) (map AColl l))
    = Some (map c_path l).
  Proof.
    induction l as [|c r IH]; [reflexivity|]. cbn [map href_of]. rewrite pick_coll, IH. reflexivity.
  Qed.

  Lemma find_colls_ok endpoint : find_colls s hprefix b endpoint (homeset b) = Some (map c_path (colls b)).
  Proof.
    destruct aw_parts as (_ & NH & _).
    unfold find_colls. rewrite homeset_req, resolve_abs, <- homeset_req.
    rewrite client_propfind_plain by exact NH.
    unfold propfind_walk. rewrite homeset_req at 1.
    rewrite level_of by (apply seg2; [apply (ok_u h OK)|apply (ok_hm h OK)]).
    cbn [List.length propfind_at]. rewrite same_path_refl. cbn [snd bind is_inf].
    rewrite colls_answered_flat. cbn [map href_of]. rewrite pick_home. apply pick_all.
  Qed.

  (** ** ReadDir of a discovered collection *)
  Lemma read_dir_ok endpoint c : In c (h_colls h) ->
    read_dir_files s hprefix b endpoint (c_path (coll_of h c)) = Some (map o_path (c_objs (coll_of h c))).
  Proof.
    intros Hc. destruct aw_parts as (_ & _ & NC).
    assert (Hin : In (coll_of h c) (colls b)) by (unfold b, backend_of, colls; apply in_map; exact Hc).
    unfold read_dir_files. rewrite coll_req, resolve_abs, <- coll_req.
    rewrite client_propfind_plain by (apply NC; exact Hin).
    unfold propfind_walk. rewrite coll_req at 1.
    rewrite level_of by (apply seg3; [apply (ok_u h OK)|apply (ok_hm h OK)|apply (ok_cname h OK); exact Hc]).
    cbn [List.length propfind_at]. unfold b.
    rewrite (find_coll_own h OK) by exact Hc. cbn [is_d0 snd bind].
    rewrite (list_objs_own h OK) by exact Hc. fold b.
    cbn [map href_of map_opt]. rewrite info_coll.
    rewrite !map_map.
    rewrite (map_opt_map _ _ (fun o => (o_path (obj_of h c o), false))).
    - cbn [filter snd negb].
      assert (F : forall l : list hobj,
                 map fst (filter (fun fi : string * bool => negb (snd fi))
                                 (map (fun o => (o_path (obj_of h c o), false)) l))
                 = map (fun o => o_path (obj_of h c o)) l).
      { induction l as [|o r IH]; [reflexivity|]. cbn [map filter snd negb fst]. rewrite IH. reflexivity. }
      rewrite F. cbn [coll_of c_objs]. rewrite map_map. reflexivity.
    - intros o Ho. cbn [href_of]. apply info_obj. cbn [obj_of o_len].
      pose proof LK as L. unfold lengths_known in L. rewrite forallb_forall in L.
      specialize (L c Hc). rewrite forallb_forall in L. apply L. exact Ho.
  Qed.

  (** ** The chain *)
  Theorem discover_layout endpoint : start_ok s h endpoint = true ->
    discover s hprefix b endpoint = backend_paths b.
  Proof.
    intros St. unfold discover, backend_paths.
    rewrite (find_principal_ok endpoint St), find_home_set_ok, find_colls_ok.
    assert (M : map_opt (read_dir_files s hprefix b endpoint) (map c_path (colls b))
                = Some (map (fun c => map o_path (c_objs c)) (colls b))).
    { assert (E : colls b = map (coll_of h) (h_colls h)) by reflexivity.
      rewrite E, !map_map.
      apply (map_opt_map _ _ (fun c => map o_path (c_objs (coll_of h c)))).
      intros c Hc. apply read_dir_ok. exact Hc. }
    rewrite M. f_equal. unfold all_objs. clear M.
    induction (colls b) as [|c r IH]; [reflexivity|].
    cbn [map List.concat flat_map]. rewrite map_app, IH. reflexivity.
  Qed.
End Layout.

(** * The statement for Properties_C12.v *)

Lemma obj_eqb_eq a b : obj_eqb a b = true <-> a = b.
Proof.
  unfold obj_eqb. rewrite !andb_true_iff, String.eqb_eq, !Bool.eqb_true_iff.
  destruct a, b; cbn. split; [intros [[[-> ->] ->] ->]; reflexivity | intros E; inversion E; tauto].
Qed.

Lemma list_eqb_spec {A} (eqb : A -> A -> bool) (l1 l2 : list A) :
  (forall a b, eqb a b = true <-> a = b) -> (list_eqb eqb l1 l2 = true <-> l1 = l2).
Proof.
  intros E. revert l2. induction l1 as [|x r IH]; intros [|y r2]; simpl.
  - split; reflexivity.
  - split; discriminate.
  - split; discriminate.
  - split.
    + intros H. apply andb_prop in H. destruct H as [H1 H2].
      apply E in H1. apply IH in H2. subst. reflexivity.
    + intros H. inversion H; subst. apply andb_true_intro. split; [apply E; reflexivity|apply IH; reflexivity].
Qed.

Lemma coll_eqb_eq a b : coll_eqb a b = true <-> a = b.
Proof.
  unfold coll_eqb. rewrite !andb_true_iff, String.eqb_eq, !Bool.eqb_true_iff, (list_eqb_spec _ _ _ obj_eqb_eq).
  destruct a, b; cbn. split; [intros [[[[-> ->] ->] ->] ->]; reflexivity | intros E; inversion E; tauto].
Qed.

Lemma backend_eqb_eq a b : backend_eqb a b = true <-> a = b.
Proof.
  unfold backend_eqb. rewrite !andb_true_iff, !String.eqb_eq, (list_eqb_spec _ _ _ coll_eqb_eq).
  destruct a, b; cbn. split; [intros [[-> ->] ->]; reflexivity | intros E; inversion E; tauto].
Qed.

Lemma discovered_eqb_eq a b : discovered_eqb a b = true <-> a = b.
Proof.
  destruct a as [p h cs os|x], b as [p' h' cs' os'|y]; simpl; try (split; congruence).
  - rewrite !andb_true_iff, !String.eqb_eq, !list_eqb_string_spec.
    split; [intros [[[-> ->] ->] ->]; reflexivity | intros E; inversion E; tauto].
  - destruct x, y; simpl; split; congruence.
Qed.

(** For every mount prefix (any number of segments, either spelling), every
    well-formed layout below it and every start point (the well-known URI, the
    root of the prefix, the principal), the chain returns exactly the backend's
    paths: principal, home set, collections and objects, in the backend's order. *)
Theorem discovery : forall s h pt endpoint,
  hier_ok h = true -> lengths_known h = true -> avoids_well_known s (backend_of h) = true ->
  start_ok s h endpoint = true ->
  discover s (spell_prefix (h_ps h) pt) (backend_of h) endpoint = backend_paths (backend_of h).
Proof. intros s h pt endpoint OK LK AW St. apply discover_layout; assumption. Qed.

(** the executable verdicts of the oracle: an implementation that agrees with
    the model on a case of the quantifier meets the specification *)
Theorem disc_agree_implies_spec_ok : forall s hprefix b endpoint h pt o,
  disc_in_quantifier s hprefix b endpoint h pt = true ->
  disc_agrees s hprefix b endpoint o = true -> disc_spec_ok b o = true.
Proof.
  intros s hprefix b endpoint h pt o Q A.
  unfold disc_in_quantifier in Q. rewrite !andb_true_iff in Q.
  destruct Q as [[[[[OK LK] St] EB] EP] AW].
  apply backend_eqb_eq in EB. apply String.eqb_eq in EP. subst b hprefix.
  unfold disc_agrees in A. apply discovered_eqb_eq in A. subst o.
  unfold disc_spec_ok. apply discovered_eqb_eq. symmetry. apply discovery; assumption.
Qed.
