(** Properties_C09.v - C09: CardDAV queries cross the wire without loss, in RFC 6352
    form.  Statements only; each is closed by [exact] of a lemma proved in
    CardWireProofs.v / CardWireProofs2.v.

    Vocabulary (CardWire.v):
    - [Query], [MultiGet]: the public values of carddav/carddav.go; [client_query_doc],
      [client_multiget_doc]: the model of carddav.Client.QueryAddressBook /
      MultiGetAddressBook down to the tree of the body sent (encode*, xml.Marshal of
      the wire structs); [handle_report]: the model of carddav.Handler's REPORT from
      the tree of the body to the backend calls (xml.Unmarshal into the wire structs,
      decode*, handleQuery, handleMultiget), result [CallQuery path q], [CallsGet
      [(path, data request)...]], [EmptyMultiStatus] or an error status.
    - [request]: a request in the sense of RFC 6352 8.7, 10.3-10.7, with [rfc_write] /
      [rfc_read] the reference writer and (strict) reader written from the RFC alone;
      [den_query] / [den_multiget]: what a public value denotes (None: not
      expressible - an unknown enumeration string, a contradictory filter, no href);
      [backend_call_of]: the backend call a request denotes, defaults written out.
    - [var d d']: [d'] is a lexical variant of [d]: attribute order, namespace
      declarations, comments, white space in element content, comments splitting text.
      (Prefixes, character references and CDATA are invisible in a tree.)
    - [canon_outcome]: an empty test / match type written as "anyof" / "contains" (the
      documented meaning of the zero values of FilterTest and MatchType).
    - [us], [up]: net/url's escaping ((&url.URL{Path: p}).String()) and parsing
      (url.Parse(s).Path), inputs of the model.
    - [handle_decoded]: [handle_report] without the attribute filter reportReq.UnmarshalXML
      decodes through (unqualifiedAttrReader: attributes in a namespace, declarations
      xmlns:p included, are left out) - the code before the repair of the defect
      "namespace declaration taken for an attribute". *)
From GW Require Import Base CardXml CardWire CardWireProofs CardWireProofs2 CardWireAgree.

(** The reference is coherent: a written request is read back as itself ... *)
Theorem C09_rfc_codec : forall r, wf_request r = true -> rfc_read (rfc_write r) = Some r.
Proof. exact rfc_codec. Qed.
Print Assumptions C09_rfc_codec.

(** ... exactly the conformant raw documents (arbitrary strings as enumeration values
    and as nresults) are read, as the request they denote ... *)
Theorem C09_rfc_reads_exactly_conformant : forall x,
  x_sel_ok x = true -> rfc_read (rfc_write_raw x) = validate x.
Proof. exact rfc_read_write_raw. Qed.
Print Assumptions C09_rfc_reads_exactly_conformant.

(** ... and the reader does not see lexical variation. *)
Theorem C09_rfc_read_variant : forall d d', var d d' -> rfc_read d' = rfc_read d.
Proof. exact rfc_read_var. Qed.
Print Assumptions C09_rfc_read_variant.

(** Client to wire: an expressible query is sent as a document the RFC reader decodes
    to the request the query denotes; likewise a multiget. *)
Theorem C09_client_conformant_query : forall q r,
  den_query q = Some r ->
  exists d, client_query_doc q = Ok d /\ rfc_read d = Some (RQuery r).
Proof. exact client_query_conformant. Qed.
Print Assumptions C09_client_conformant_query.

Theorem C09_client_conformant_multiget : forall us path mg m,
  den_multiget us mg = Some m -> rfc_read (client_multiget_doc us path mg) = Some (RMultiget m).
Proof. exact client_multiget_conformant. Qed.
Print Assumptions C09_client_conformant_multiget.

(** A multiget without paths is sent as a multiget of the collection path itself. *)
Theorem C09_client_multiget_empty_paths : forall us path mg,
  mg_paths mg = [] ->
  rfc_read (client_multiget_doc us path mg) = Some (RMultiget (mkRM (client_sel (mg_data mg)) [us path])).
Proof. exact client_multiget_empty_paths. Qed.
Print Assumptions C09_client_multiget_empty_paths.

(** Wire to backend: every document the RFC reader accepts - whatever wrote it -
    reaches the backend as the request it denotes. *)
Theorem C09_server_denotes : forall up path d r c,
  rfc_read d = Some r -> limit_fits r = true ->
  backend_call_of up path r = Some c ->
  exists o, handle_report up path d = Ok o /\ canon_outcome o = c.
Proof. exact server_denotes_read. Qed.
Print Assumptions C09_server_denotes.

(** In particular every lexical variant of the document written for a request. *)
Theorem C09_server_denotes_variants : forall up path r d c,
  wf_request r = true -> var (rfc_write r) d -> limit_fits r = true ->
  backend_call_of up path r = Some c ->
  exists o, handle_report up path d = Ok o /\ canon_outcome o = c.
Proof. exact server_denotes_variants. Qed.
Print Assumptions C09_server_denotes_variants.

(** The attribute filter of the decoder is invisible to the reference reader. *)
Theorem C09_rfc_read_filtered : forall d r,
  rfc_read d = Some r -> rfc_read (strip_qualified d) = Some r.
Proof. exact rfc_read_strip. Qed.
Print Assumptions C09_rfc_read_filtered.

(** Client to backend. *)
Theorem C09_end_to_end_query : forall up path q r,
  den_query q = Some r -> (q_limit q <= int_max)%Z ->
  exists d, client_query_doc q = Ok d /\
  exists o, handle_report up path d = Ok o /\
            canon_outcome o = CallQuery path (canon_query (norm_query q)).
Proof. exact end_to_end_query. Qed.
Print Assumptions C09_end_to_end_query.

Theorem C09_end_to_end_multiget : forall us up path0 path mg hs,
  (match mg_paths mg with [] => [path0] | l => l end) = hs ->
  (forall p, In p hs -> up (us p) = Some p) ->
  handle_report up path (client_multiget_doc us path0 mg)
  = Ok (CallsGet (map (fun p => (p, norm_data (mg_data mg))) hs)).
Proof. exact end_to_end_multiget. Qed.
Print Assumptions C09_end_to_end_multiget.

(** Enumerations.  Whatever the document: a string outside the RFC's value list as
    test (filter, prop-filter), match-type or negate-condition (text-match of a
    prop-filter or of a param-filter) is refused with 400 and nothing reaches the
    backend.  [doc_bad_enum] (CardWireProofs2.v) descends the tree as the decoder does
    ([strip_qualified]: attributes in a namespace are not looked at); the invalid side
    is every other string, not a sample of them. *)
Theorem C09_enumerations_refused : forall up path d,
  doc_bad_enum (strip_qualified d) = true -> handle_report up path d = Err 400.
Proof. exact server_refuses_invalid_enum. Qed.
Print Assumptions C09_enumerations_refused.

(** In particular the document the reference writes for a raw request with such a
    value (which the reference reader rejects: C09_rfc_reads_exactly_conformant). *)
Theorem C09_enumerations_written_refused : forall up path x,
  enum_bad x = true -> handle_report up path (rfc_write_raw x) = Err 400.
Proof. exact server_refuses_written_invalid_enum. Qed.
Print Assumptions C09_enumerations_written_refused.

(** The valid side: exactly the RFC's values are accepted by the library's
    UnmarshalText methods, and kept as they are. *)
Theorem C09_enumerations_valid :
  (forall v t, val_test (Some v) = Some t -> unmarshal_filter_test v = Ok v /\ v = test_str t) /\
  (forall v m, val_match (Some v) = Some m -> unmarshal_match_type v = Ok v /\ v = match_str m) /\
  (forall v x, val_negate (Some v) = Some x -> unmarshal_negate v = Ok x) /\
  (forall v, val_test (Some v) = None -> unmarshal_filter_test v = Err 400) /\
  (forall v, val_match (Some v) = None -> unmarshal_match_type v = Err 400) /\
  (forall v, val_negate (Some v) = None -> unmarshal_negate v = Err 400).
Proof. exact enumerations_valid. Qed.
Print Assumptions C09_enumerations_valid.

(** Decoding a request document never panics and fails with 400 only. *)
Theorem C09_decode_400_only : forall n a k,
  match unmarshal_query n a k with Ok _ => True | Err c => c = 400%N | Panic => False end.
Proof. exact o4_unmarshal_query. Qed.
Print Assumptions C09_decode_400_only.

(** Defaults: an absent test means anyof, an absent match type contains, an absent
    negate-condition no - in the reference, in the public API's zero values, and on the
    way to the backend, where both spellings arrive as the same call. *)
Theorem C09_defaults :
  val_test None = Some AnyOf /\ val_match None = Some Contains /\ val_negate None = Some false /\
  den_test "" = Some AnyOf /\ den_match "" = Some Contains /\
  (forall s, val_tm (mkXT s None None) = val_tm (mkXT s (Some "no") (Some "contains"))) /\
  (forall n c, val_pf (mkXF n None c) = val_pf (mkXF n (Some "anyof") c)) /\
  (forall sel fs l, val_query (mkXQ sel None fs l) = val_query (mkXQ sel (Some "anyof") fs l)) /\
  (forall up path x r c,
     validate x = Some r -> limit_fits r = true -> backend_call_of up path r = Some c ->
     exists o, handle_report up path (rfc_write_raw x) = Ok o /\ canon_outcome o = c).
Proof. exact defaults. Qed.
Print Assumptions C09_defaults.

(** Client to backend, the values that denote no request (an unknown test or
    match-type string, is-not-defined next to other conditions): either nothing is sent,
    or the document is one the RFC reader rejects and the server refuses with 400. *)
Theorem C09_client_inexpressible_refused : forall up path q,
  den_query q = None ->
  client_query_doc q = Err 0 \/
  exists d, client_query_doc q = Ok d /\ rfc_read d = None /\ handle_report up path d = Err 400.
Proof. exact client_inexpressible_refused. Qed.
Print Assumptions C09_client_inexpressible_refused.

(** What the RFC reader makes of whatever the client sends for a query. *)
Theorem C09_client_query_reads : forall q d,
  client_query_doc q = Ok d ->
  rfc_read d = match den_query q with Some r => Some (RQuery r) | None => None end.
Proof. exact client_query_reads. Qed.
Print Assumptions C09_client_query_reads.

(** The executable specifications evaluated by the oracle accept the model: an
    implementation that agrees with the model meets them - always on the client side,
    and on the server side for every document the reference reads and for every
    document with an invalid enumeration value. *)
Theorem C09_agree_implies_spec_client : forall us i o,
  client_agrees us i o = true -> client_spec_ok us i o = true.
Proof. exact client_agree_implies_spec. Qed.
Print Assumptions C09_agree_implies_spec_client.

(** The client-side specification compares what a body denotes with what the value
    denotes only up to the DAV: live properties asked for beside address-data
    ([request_essence] keeps the address-data items of DAV:prop and everything else):
    the statement lists the requested vCard properties or all-properties, not those. *)
Theorem C09_client_spec_modulo_live_props : forall us i t t' r r',
  rfc_read t = Some r -> rfc_read t' = Some r' -> request_essence r = request_essence r' ->
  client_spec_ok us i (COBody t) = client_spec_ok us i (COBody t').
Proof. exact client_spec_modulo_live_props. Qed.
Print Assumptions C09_client_spec_modulo_live_props.

Theorem C09_client_spec_accepts_other_live_props : forall us q r t r',
  den_query q = Some r -> rfc_read t = Some r' ->
  request_essence r' = request_essence (RQuery r) ->
  client_spec_ok us (CIQuery q) (COBody t) = true.
Proof. exact client_spec_accepts_other_live_props. Qed.
Print Assumptions C09_client_spec_accepts_other_live_props.

Theorem C09_agree_implies_spec_server : forall up path x d o r,
  validate x = Some r -> rfc_read d = Some r ->
  server_agrees up path d o = true -> server_spec_ok up path x d o = true.
Proof. exact server_agree_implies_spec_conformant. Qed.
Print Assumptions C09_agree_implies_spec_server.

Theorem C09_agree_implies_spec_server_bad_enum : forall up path x d o,
  validate x = None -> doc_bad_enum (strip_qualified d) = true ->
  server_agrees up path d o = true -> server_spec_ok up path x d o = true.
Proof. exact server_agree_implies_spec_bad_enum. Qed.
Print Assumptions C09_agree_implies_spec_server_bad_enum.

(** Recorded witnesses of the repaired defect "namespace declaration taken for an
    attribute": two conformant documents (lexical variants of written requests) which
    the code before the repair ([handle_decoded] on the unfiltered tree) handed to the
    backend with the property name replaced by a namespace URI, resp. refused, and which
    now reach the backend as the requests they denote. *)
Theorem C09_nsdecl_as_attribute_repaired :
  (rfc_read kf_doc_altered = validate kf_x_altered /\
   var (rfc_write_raw kf_x_altered) kf_doc_altered /\
   handle_decoded kf_up kf_path kf_doc_altered
     = Ok (CallQuery kf_path (mkQ dr_zero [mkPF "urn:x" "" false [] []] "" 0%Z)) /\
   handle_report kf_up kf_path kf_doc_altered
     = Ok (CallQuery kf_path (mkQ dr_zero [mkPF "FN" "" false [] []] "" 0%Z))) /\
  (rfc_read kf_doc_refused = validate kf_x_refused /\
   var (rfc_write_raw kf_x_refused) kf_doc_refused /\
   handle_decoded kf_up kf_path kf_doc_refused = Err 400 /\
   handle_report kf_up kf_path kf_doc_refused = Ok (CallQuery kf_path (mkQ dr_zero [] "" 0%Z))).
Proof. exact nsdecl_as_attribute_repaired. Qed.
Print Assumptions C09_nsdecl_as_attribute_repaired.

(** The two Coq models of the CardDAV server's REPORT decoding describe the same function.
    [ST] = ServerTotal.v (C13): request -> status / panic, written independently over
    its own tree type.  [tr] translates C09's trees into C13's (onto: [tr (untr T) = T]);
    [st_decode] is the decoding stage of ServerTotal.card_handle_report (unmarshal through
    the attribute filter, Prop.Decode of address-data, decodePropFilter, the limit test),
    [st_continue] the rest (backend answer, response building), and
    ServerTotal.serve = finish (st_continue (st_decode ...)) for a REPORT
    ([C09_server_total_factored]).  [same_decision r s]: [r = Ok (CallQuery path _)] and
    [s = StQuery _]; or both the empty multistatus; or [Ok (CallsGet l)] and
    [StMultiget _ hrefs] with [up] mapping the href texts ServerTotal keeps to the
    paths of [l] in order; or [Err c] and [StBad] with [c = 400]; no other combination -
    hence each alternative on one side iff the corresponding one on the other, for
    every body tree (whatever its root), addressbook-query and addressbook-multiget. *)
Theorem C09_agrees_with_server_total_model : forall up path t,
  same_decision up path (handle_report up path t) (st_decode (fun s => is_some (up s)) (tr t)).
Proof. exact models_agree. Qed.
Print Assumptions C09_agrees_with_server_total_model.

(** the same, quantified over ServerTotal's trees *)
Theorem C09_agrees_with_server_total_model_st : forall up path T,
  same_decision up path (handle_report up path (untr T)) (st_decode (fun s => is_some (up s)) T).
Proof. exact models_agree_st. Qed.
Print Assumptions C09_agrees_with_server_total_model_st.

Theorem C09_tree_translation_onto : forall T, tr (untr T) = T.
Proof. exact tr_untr. Qed.
Print Assumptions C09_tree_translation_onto.

(** ServerTotal's handler is its decoding stage followed by the rest *)
Theorem C09_server_total_factored : forall env r T,
  ST.ae_has_backend env = true -> String.eqb (ST.r_path r) "/.well-known/carddav" = false ->
  ST.r_method r = "REPORT" -> ST.is_content_xml r = true -> ST.r_xml r = ST.XTree T ->
  ST.serve (ST.CCard env r) = ST.finish (st_continue env (st_decode (ST.r_url_ok r) T)).
Proof. exact st_factor_serve. Qed.
Print Assumptions C09_server_total_factored.

(** ... so the response ServerTotal computes for a REPORT is the continuation of a stage
    that makes the decision of CardWire.handle_report *)
Theorem C09_agrees_with_server_total_response : forall env r up path t,
  ST.ae_has_backend env = true -> String.eqb (ST.r_path r) "/.well-known/carddav" = false ->
  ST.r_method r = "REPORT" -> ST.is_content_xml r = true -> ST.r_xml r = ST.XTree (tr t) ->
  (forall s, ST.r_url_ok r s = is_some (up s)) ->
  exists stage, ST.serve (ST.CCard env r) = ST.finish (st_continue env stage) /\
                same_decision up path (handle_report up path t) stage.
Proof. exact models_agree_serve. Qed.
Print Assumptions C09_agrees_with_server_total_response.

(** the two models of strings.TrimSpace + strconv.ParseUint behind nresults agree *)
Theorem C09_nresults_readers_agree : forall s,
  match unmarshal_uint s, ST.parse_uint s with
  | Ok x, Some y => y = x
  | Err c, None => c = 400%N
  | _, _ => False
  end.
Proof. exact CardWireUint2.uint_agree_all. Qed.
Print Assumptions C09_nresults_readers_agree.
