(** DavClientCodecs.v — C05 on C16's codec models: the record [ext] of DavClient.v
    filled with the Gallina models of the library codecs that property C16 is about
    (Href.v: url.URL.String / url.Parse; Quote.v: strconv.Quote / Unquote; Civil.v:
    time.Format(http.TimeFormat) / http.ParseTime).  What stays a parameter:
    strconv.IsPrint above U+00FF ([is_print_hi], as in C16: every C16 theorem holds
    for every such table), XML character data ([txt]) and MIME-by-extension ([mime]).
    Thin adapters only; no proofs here (extracted). *)
From GW Require Import Base GoPath Fs DavServer DavClient.
From GW Require Civil Quote QuoteStrict Href.
Local Open Scope list_scope.

(** Response.Path of a parsed href: the Path of the URL.  When url.Parse finds an
    authority ("//host/..") its text goes to parseAuthority, which C16 does not
    model: [m_href_known] is false there and the oracle does not compare. *)
Definition m_href_dec (s : string) : option string :=
  match Href.href_unmarshal s with
  | Ok (Href.HUrl u) => Some (Href.u_path u)
  | Ok (Href.HAuth _ u) => Some (Href.u_path u)
  | _ => None
  end.
Definition m_href_known (s : string) : bool :=
  match Href.href_unmarshal s with Ok (Href.HAuth _ _) => false | _ => true end.

Definition m_time_fmt (t : instant) : string := Civil.time_marshal (t_sec t, 0%Z).
Definition m_time_parse (s : string) : option instant :=
  match Civil.time_unmarshal s with
  | Ok (sec, ns) => Some {| t_sec := sec; t_ns := Z.to_N ns |}
  | _ => None
  end.

Definition X_model (is_print_hi : N -> bool) (txt : string -> string) (mime : string -> string) : ext :=
  {| x_href_enc := Href.href_marshal;
     x_href_dec := m_href_dec;
     x_quote := Quote.quote is_print_hi;
     x_unquote := Quote.unquote;
     x_time_fmt := m_time_fmt;
     x_time_parse := m_time_parse;
     x_text := txt;
     x_mime_ext := mime |}.

(** * The tie between the tables computed by the real Go functions and the models
    (evaluated by the oracle on every case) *)
Definition opt_str_eqb (a b : option string) : bool :=
  match a, b with
  | None, None => true
  | Some x, Some y => String.eqb x y
  | _, _ => false
  end.
Definition opt_instant_eqb (a b : option instant) : bool :=
  match a, b with
  | None, None => true
  | Some x, Some y => instant_eqb x y
  | _, _ => false
  end.

(** the part of strconv.IsPrint above U+00FF that the case needs: the printable runes *)
Definition iph_of_list (l : list N) : N -> bool := fun r => existsb (N.eqb r) l.

(** years 0..9999: the domain in which C16 ties time.Format to its model *)
Definition year_in_range (t : instant) : bool :=
  Z.leb 0 (Civil.year_of_unix (t_sec t)) && Z.leb (Civil.year_of_unix (t_sec t)) 9999.

Definition href_enc_agrees (kv : string * string) : bool := String.eqb (Href.href_marshal (fst kv)) (snd kv).
Definition href_dec_agrees (kv : string * option string) : bool :=
  if m_href_known (fst kv) then opt_str_eqb (m_href_dec (fst kv)) (snd kv) else true.
Definition quote_agrees (iph : N -> bool) (kv : string * string) : bool :=
  String.eqb (Quote.quote iph (fst kv)) (snd kv).
Definition unquote_agrees (kv : string * option string) : bool := opt_str_eqb (Quote.unquote (fst kv)) (snd kv).
Definition time_fmt_agrees (kv : instant * string) : bool :=
  if year_in_range (fst kv) then String.eqb (m_time_fmt (fst kv)) (snd kv) else true.
Definition time_parse_agrees (kv : string * option instant) : bool :=
  opt_instant_eqb (m_time_parse (fst kv)) (snd kv).

Definition codec_tables_agree (hi : list N) (T : tables) : bool :=
  forallb href_enc_agrees (tb_href_enc T) && forallb href_dec_agrees (tb_href_dec T) &&
  forallb (quote_agrees (iph_of_list hi)) (tb_quote T) && forallb unquote_agrees (tb_unquote T) &&
  forallb time_fmt_agrees (tb_time_fmt T) && forallb time_parse_agrees (tb_time_parse T).
