(** CivilProofs.v — proofs about the instant codecs of Civil.v: the day count agrees
    with the closed-form specification; both codecs round-trip every instant of the
    years 0..9999 given in any zone, and their output is in the strict grammar; the
    iCalendar decoder accepts exactly its grammar. *)
From GW Require Import Base Wire WireProofs Civil CivilSweep.
Local Open Scope Z_scope.

(** * Model day count = specification day count *)
Lemma month_cases m : 1 <= m <= 12 ->
  m = 1 \/ m = 2 \/ m = 3 \/ m = 4 \/ m = 5 \/ m = 6 \/ m = 7 \/ m = 8 \/ m = 9 \/ m = 10 \/ m = 11 \/ m = 12.
Proof. lia. Qed.

Ltac each_month H :=
  apply month_cases in H;
  repeat (destruct H as [H|H]); subst.

Theorem date_to_days_spec y m d : 1 <= m <= 12 -> date_to_days y m d = spec_days y m d.
Proof.
  intros Hm. unfold date_to_days, spec_days. rewrite days_since_epoch_closed, <- is_leap_spec.
  cbv zeta.
  assert (days_before (m - 1) + (if is_leap y && (3 <=? m) then 1 else 0)
          = fold_right Z.add 0 (firstn (Z.to_nat (m - 1)) (month_lengths (is_leap y)))); [|lia].
  each_month Hm; destruct (is_leap y); reflexivity.
Qed.

Lemma days_in_spec m y : 1 <= m <= 12 -> days_in m y = spec_days_in m y.
Proof.
  intros Hm. unfold days_in, spec_days_in. rewrite <- is_leap_spec.
  each_month Hm; destruct (is_leap y); reflexivity.
Qed.

Lemma days_in_le_31 m y : 1 <= m <= 12 -> 28 <= days_in m y <= 31.
Proof.
  intros Hm. unfold days_in. each_month Hm; destruct (is_leap y); vm_compute; split; intro; discriminate.
Qed.

(** * The clock fields of an instant *)
Record civil_ok (secs : Z) (c : civil) : Prop := {
  ok_month : 1 <= c_month c <= 12;
  ok_day : 1 <= c_day c <= days_in (c_month c) (c_year c);
  ok_hour : 0 <= c_hour c <= 23;
  ok_min : 0 <= c_min c <= 59;
  ok_sec : 0 <= c_sec c <= 59;
  ok_wday : 0 <= c_wday c <= 6;
  ok_unix : (date_to_days (c_year c) (c_month c) (c_day c) - 719162) * 86400
            + c_hour c * 3600 + c_min c * 60 + c_sec c = secs
}.

Lemma civil_of_unix_ok secs : civil_ok secs (civil_of_unix secs).
Proof.
  unfold civil_of_unix. cbv zeta.
  set (a := secs + unix_epoch_days * 86400).
  assert (Hinv := abs_date_inverse (a / 86400)).
  destruct (abs_date (a / 86400)) as [[y m] d]. destruct Hinv as [Hd Hv].
  unfold date_valid in Hv. rewrite !andb_true_iff, !Z.leb_le in Hv.
  constructor; cbn [c_year c_month c_day c_hour c_min c_sec c_wday]; try lia; try divlia.
  - unfold weekday. divlia.
  - rewrite Hd. unfold a, unix_epoch_days. divlia.
Qed.

(** * Digits *)
Lemma digit_chr_digit d : 0 <= d < 10 -> is_digit (digit_chr d) = true.
Proof. intros H. apply (digit_chr_ok d H). Qed.
Lemma digit_chr_value d : 0 <= d < 10 -> digit_val (digit_chr d) = d.
Proof. intros H. apply (digit_chr_ok d H). Qed.

Lemma getnum_fmt2 n r fixed : 0 <= n < 100 -> getnum (fmt2 n ++ r) fixed = Some (n, r).
Proof.
  intros H. unfold fmt2. cbn [append]. unfold getnum.
  rewrite !digit_chr_digit, !digit_chr_value by divlia.
  f_equal. f_equal. divlia.
Qed.

Lemma two_digits_fmt2 n : 0 <= n < 100 ->
  two_digits (digit_chr (n / 10)) (digit_chr (n mod 10)) = Some n.
Proof.
  intros H. unfold two_digits. rewrite !digit_chr_digit, !digit_chr_value by divlia.
  cbn [andb]. f_equal. divlia.
Qed.

Lemma four_digits_fmt4 n : 0 <= n < 10000 ->
  four_digits (digit_chr (n / 1000)) (digit_chr (n / 100 mod 10)) (digit_chr (n / 10 mod 10)) (digit_chr (n mod 10)) = Some n.
Proof.
  intros H. unfold four_digits. rewrite !digit_chr_digit, !digit_chr_value by divlia.
  cbn [andb]. f_equal. divlia.
Qed.

Lemma digit_not_sign c : is_digit c = true -> Ascii.eqb c "+" = false /\ Ascii.eqb c "-" = false.
Proof.
  intros H. apply is_digit_spec in H.
  split; apply Ascii.eqb_neq; intros ->; unfold byte in H; simpl N_of_ascii in H; lia.
Qed.

Lemma atoi_time_digit_first c r : is_digit c = true ->
  atoi_time (String c r) = if all_digits (String c r) then Some (dec_value (String c r)) else None.
Proof.
  intros H. destruct (digit_not_sign c H) as [Hp Hm].
  unfold atoi_time.
  destruct c as [b0 b1 b2 b3 b4 b5 b6 b7].
  destruct b0, b1, b2, b3, b4, b5, b6, b7; try reflexivity; cbn in Hp, Hm; discriminate.
Qed.

Lemma fmt_year_range y : 0 <= y <= 9999 -> fmt_year y = fmt4 y.
Proof.
  intros H. unfold fmt_year, pad4.
  destruct (Z.ltb_spec y 0); [lia|]. destruct (Z.ltb_spec y 10000); [reflexivity|lia].
Qed.

Lemma dec_value_fmt4 n : 0 <= n < 10000 ->
  all_digits (fmt4 n) = true /\ dec_value (fmt4 n) = n.
Proof.
  intros H. unfold fmt4, dec_value. cbn [all_digits dec_value_acc].
  rewrite !digit_chr_digit, !digit_chr_value by divlia. split; [reflexivity|]. divlia.
Qed.

(** * skip *)
Definition head_not_space (s : string) : Prop :=
  match s with String c _ => Ascii.eqb c " " = false | EmptyString => False end.

Lemma skip_empty v : skip v EmptyString = Some v.
Proof. reflexivity. Qed.

Lemma cutspace_head v : head_not_space v -> cutspace v = v.
Proof. destruct v as [|c v]; [intros []|]. cbn. intros ->. reflexivity. Qed.

Lemma skip_space v : head_not_space v -> skip (String " " v) " " = Some v.
Proof.
  intros H. unfold skip. cbn [String.length skip_fuel Ascii.eqb Bool.eqb cutspace].
  rewrite (cutspace_head v H). destruct v; reflexivity.
Qed.

Lemma skip_comma_space v : head_not_space v -> skip (String "," (String " " v)) ", " = Some v.
Proof.
  intros H. unfold skip. cbn [String.length skip_fuel Ascii.eqb Bool.eqb cutspace].
  rewrite (cutspace_head v H). destruct v; reflexivity.
Qed.

Lemma skip_lit1 c v : Ascii.eqb c " " = false -> skip (String c v) (String c EmptyString) = Some v.
Proof.
  intros H. unfold skip. cbn [String.length skip_fuel]. rewrite H, Ascii.eqb_refl. reflexivity.
Qed.

Lemma head_not_space_digit c r : is_digit c = true -> head_not_space (String c r).
Proof. intros H. cbn. apply is_digit_not_space. exact H. Qed.

Lemma head_not_space_fmt2 n r : 0 <= n < 100 -> head_not_space (fmt2 n ++ r).
Proof. intros H. unfold fmt2. cbn [append]. apply head_not_space_digit, digit_chr_digit. divlia. Qed.

Lemma head_not_space_fmt4 n r : 0 <= n < 10000 -> head_not_space (fmt4 n ++ r).
Proof. intros H. unfold fmt4. cbn [append]. apply head_not_space_digit, digit_chr_digit. divlia. Qed.

(** * Names *)
Lemma wday_cases w : 0 <= w <= 6 -> w = 0 \/ w = 1 \/ w = 2 \/ w = 3 \/ w = 4 \/ w = 5 \/ w = 6.
Proof. lia. Qed.

Lemma lookup_short_day w r : 0 <= w <= 6 ->
  lookup short_day_names (nth_name short_day_names w ++ r) 0 = Some (w, r).
Proof. intros H. apply wday_cases in H. repeat (destruct H as [H|H]); subst; reflexivity. Qed.

Lemma exact_short_day w r : 0 <= w <= 6 ->
  exact_name short_day_names (nth_name short_day_names w ++ r) 0 = Some (w, r).
Proof. intros H. apply wday_cases in H. repeat (destruct H as [H|H]); subst; reflexivity. Qed.

Lemma lookup_short_month m r : 1 <= m <= 12 ->
  lookup short_month_names (nth_name short_month_names (m - 1) ++ r) 0 = Some (m - 1, r).
Proof. intros H. each_month H; reflexivity. Qed.

Lemma exact_short_month m r : 1 <= m <= 12 ->
  exact_name short_month_names (nth_name short_month_names (m - 1) ++ r) 0 = Some (m - 1, r).
Proof. intros H. each_month H; reflexivity. Qed.

Lemma head_not_space_month m r : 1 <= m <= 12 ->
  head_not_space (nth_name short_month_names (m - 1) ++ r).
Proof. intros H. each_month H; reflexivity. Qed.

(** * One chunk at a time *)
Lemma parse_std_longyear y r t : 0 <= y <= 9999 ->
  parse_std StdLongYear (fmt_year y ++ r) t
  = Some (r, {| p_year := y; p_month := p_month t; p_day := p_day t; p_hour := p_hour t;
                p_min := p_min t; p_sec := p_sec t; p_nsec := p_nsec t |}).
Proof.
  intros H. rewrite fmt_year_range by exact H.
  assert (H' : 0 <= y < 10000) by lia.
  destruct (dec_value_fmt4 y H') as [Hd Hv].
  unfold parse_std. unfold fmt4 at 1. cbn [append take].
  rewrite digit_chr_digit by divlia.
  rewrite atoi_time_digit_first by (apply digit_chr_digit; divlia).
  change (String (digit_chr (y / 1000)) (String (digit_chr (y / 100 mod 10))
            (String (digit_chr (y / 10 mod 10)) (String (digit_chr (y mod 10)) EmptyString)))) with (fmt4 y).
  rewrite Hd, Hv. reflexivity.
Qed.

Lemma parse_std_zeromonth m r t : 1 <= m <= 12 ->
  parse_std StdZeroMonth (fmt2 m ++ r) t
  = Some (r, {| p_year := p_year t; p_month := m; p_day := p_day t; p_hour := p_hour t;
                p_min := p_min t; p_sec := p_sec t; p_nsec := p_nsec t |}).
Proof.
  intros H. unfold parse_std. rewrite getnum_fmt2 by lia.
  destruct (Z.leb_spec m 0); [lia|]. destruct (Z.ltb_spec 12 m); [lia|]. reflexivity.
Qed.

Lemma parse_std_zeroday d r t : 0 <= d < 100 ->
  parse_std StdZeroDay (fmt2 d ++ r) t
  = Some (r, {| p_year := p_year t; p_month := p_month t; p_day := d; p_hour := p_hour t;
                p_min := p_min t; p_sec := p_sec t; p_nsec := p_nsec t |}).
Proof. intros H. unfold parse_std. rewrite getnum_fmt2 by lia. reflexivity. Qed.

Lemma parse_std_hour h r t : 0 <= h <= 23 ->
  parse_std StdHour (fmt2 h ++ r) t
  = Some (r, {| p_year := p_year t; p_month := p_month t; p_day := p_day t; p_hour := h;
                p_min := p_min t; p_sec := p_sec t; p_nsec := p_nsec t |}).
Proof.
  intros H. unfold parse_std. rewrite getnum_fmt2 by lia.
  destruct (Z.leb_spec 24 h); [lia|]. reflexivity.
Qed.

Lemma parse_std_minute m r t : 0 <= m <= 59 ->
  parse_std StdZeroMinute (fmt2 m ++ r) t
  = Some (r, {| p_year := p_year t; p_month := p_month t; p_day := p_day t; p_hour := p_hour t;
                p_min := m; p_sec := p_sec t; p_nsec := p_nsec t |}).
Proof.
  intros H. unfold parse_std. rewrite getnum_fmt2 by lia.
  destruct (Z.leb_spec 60 m); [lia|]. reflexivity.
Qed.

Lemma parse_std_second s r t : 0 <= s <= 59 -> parse_frac r = (0, r) ->
  parse_std StdZeroSecond (fmt2 s ++ r) t
  = Some (r, {| p_year := p_year t; p_month := p_month t; p_day := p_day t; p_hour := p_hour t;
                p_min := p_min t; p_sec := s; p_nsec := 0 |}).
Proof.
  intros H Hf. unfold parse_std. rewrite getnum_fmt2 by lia.
  destruct (Z.leb_spec 60 s); [lia|]. rewrite Hf. reflexivity.
Qed.

Lemma parse_std_weekday w r t : 0 <= w <= 6 ->
  parse_std StdWeekDay (nth_name short_day_names w ++ r) t = Some (r, t).
Proof. intros H. unfold parse_std. rewrite lookup_short_day by exact H. reflexivity. Qed.

Lemma parse_std_month m r t : 1 <= m <= 12 ->
  parse_std StdMonth (nth_name short_month_names (m - 1) ++ r) t
  = Some (r, {| p_year := p_year t; p_month := m; p_day := p_day t; p_hour := p_hour t;
                p_min := p_min t; p_sec := p_sec t; p_nsec := p_nsec t |}).
Proof.
  intros H. unfold parse_std. rewrite lookup_short_month by exact H.
  replace (m - 1 + 1) with m by lia. reflexivity.
Qed.

(** the end of time.parse on the fields of an instant *)
Lemma finish_civil secs c : civil_ok secs c ->
  finish {| p_year := c_year c; p_month := c_month c; p_day := c_day c; p_hour := c_hour c;
            p_min := c_min c; p_sec := c_sec c; p_nsec := 0 |} = Some (secs, 0).
Proof.
  intros [Hm Hd Hh Hmi Hs Hw Hu]. unfold finish. cbn [p_year p_month p_day p_hour p_min p_sec p_nsec].
  destruct (Z.ltb_spec (c_month c) 0); [lia|]. destruct (Z.ltb_spec (c_day c) 0); [lia|].
  destruct (Z.ltb_spec (c_day c) 1); [lia|].
  destruct (Z.ltb_spec (days_in (c_month c) (c_year c)) (c_day c)); [lia|].
  cbn [orb]. unfold unix_of_fields, unix_epoch_days. rewrite Hu. reflexivity.
Qed.

(** * Round trips *)
Ltac pstep := cbn [parse_chunks p_year p_month p_day p_hour p_min p_sec p_nsec pt0].

Theorem ical_parse_format secs : 0 <= year_of_unix secs <= 9999 ->
  parse_with layout_ical (format_ical secs) = Some (secs, 0).
Proof.
  intros Hy. unfold year_of_unix in Hy.
  assert (Hok := civil_of_unix_ok secs). unfold format_ical. cbv zeta.
  set (c := civil_of_unix secs) in *.
  destruct Hok as [Hm Hd Hh Hmi Hs Hw Hu].
  assert (Hd31 := days_in_le_31 (c_month c) (c_year c) Hm).
  unfold parse_with, time_parse, layout_ical. cbn [fst snd]. pstep.
  rewrite skip_empty, parse_std_longyear by lia. pstep.
  rewrite skip_empty, parse_std_zeromonth by lia. pstep.
  rewrite skip_empty, parse_std_zeroday by lia. pstep.
  cbn [append]. rewrite skip_lit1 by reflexivity.
  rewrite parse_std_hour by lia. pstep.
  rewrite skip_empty, parse_std_minute by lia. pstep.
  rewrite skip_empty, parse_std_second by (try lia; reflexivity). pstep.
  change (skip "Z" "Z") with (Some EmptyString). cbv iota beta.
  apply finish_civil. constructor; assumption.
Qed.

Lemma skip_gmt : skip " GMT" " GMT" = Some EmptyString.
Proof. reflexivity. Qed.

Theorem http_parse_format secs : 0 <= year_of_unix secs <= 9999 ->
  parse_with layout_http (format_http secs) = Some (secs, 0).
Proof.
  intros Hy. unfold year_of_unix in Hy.
  assert (Hok := civil_of_unix_ok secs). unfold format_http. cbv zeta.
  set (c := civil_of_unix secs) in *.
  destruct Hok as [Hm Hd Hh Hmi Hs Hw Hu].
  assert (Hd31 := days_in_le_31 (c_month c) (c_year c) Hm).
  unfold parse_with, time_parse, layout_http. cbn [fst snd]. pstep.
  rewrite skip_empty, parse_std_weekday by lia. pstep.
  cbn [append]. rewrite skip_comma_space by (apply head_not_space_fmt2; lia).
  rewrite parse_std_zeroday by lia. pstep.
  cbn [append]. rewrite skip_space by (apply head_not_space_month; lia).
  rewrite parse_std_month by lia. pstep.
  cbn [append]. rewrite skip_space by (rewrite fmt_year_range by lia; apply head_not_space_fmt4; lia).
  rewrite parse_std_longyear by lia. pstep.
  cbn [append]. rewrite skip_space by (apply head_not_space_fmt2; lia).
  rewrite parse_std_hour by lia. pstep.
  cbn [append]. rewrite skip_lit1 by reflexivity.
  rewrite parse_std_minute by lia. pstep.
  cbn [append]. rewrite skip_lit1 by reflexivity.
  rewrite parse_std_second by (try lia; reflexivity). pstep.
  rewrite skip_gmt. cbv iota beta.
  apply finish_civil. constructor; assumption.
Qed.

(** any instant, to the second, given in any zone: the offset never reaches the text *)
Theorem time_roundtrip : forall secs off, 0 <= year_of_unix secs <= 9999 ->
  time_unmarshal (time_marshal (secs, off)) = Ok (secs, 0).
Proof.
  intros secs off Hy. unfold time_unmarshal, time_marshal, http_parse_time. cbn [fst].
  rewrite http_parse_format by exact Hy. reflexivity.
Qed.

Lemma format_ical_length secs : 0 <= year_of_unix secs <= 9999 -> String.length (format_ical secs) = 16%nat.
Proof.
  intros Hy. unfold year_of_unix in Hy. unfold format_ical. cbv zeta.
  rewrite fmt_year_range by exact Hy. reflexivity.
Qed.

Theorem icaldate_roundtrip : forall secs off, 0 <= year_of_unix secs <= 9999 ->
  icaldate_unmarshal (icaldate_marshal (secs, off)) = Ok (secs, 0).
Proof.
  intros secs off Hy. unfold icaldate_unmarshal, icaldate_marshal. cbn [fst].
  rewrite format_ical_length by exact Hy. cbn [Nat.eqb negb].
  rewrite ical_parse_format by exact Hy. reflexivity.
Qed.

(** * Encoder output is in the strict grammar and denotes the instant *)
Lemma valid_fields_civil secs c : civil_ok secs c ->
  valid_fields (c_year c) (c_month c) (c_day c) (c_hour c) (c_min c) (c_sec c) = true
  /\ spec_unix_of_fields (c_year c) (c_month c) (c_day c) (c_hour c) (c_min c) (c_sec c) = secs.
Proof.
  intros [Hm Hd Hh Hmi Hs Hw Hu]. split.
  - unfold valid_fields. rewrite <- days_in_spec by exact Hm.
    rewrite !andb_true_iff, !Z.leb_le. lia.
  - unfold spec_unix_of_fields, unix_epoch_days.
    rewrite <- (date_to_days_spec _ _ (c_day c) Hm). exact Hu.
Qed.

Theorem ical_marshal_in_grammar : forall secs off, 0 <= year_of_unix secs <= 9999 ->
  ical_den (icaldate_marshal (secs, off)) = Some secs.
Proof.
  intros secs off Hy. unfold icaldate_marshal. cbn [fst]. unfold year_of_unix in Hy.
  assert (Hok := civil_of_unix_ok secs). unfold format_ical. cbv zeta.
  set (c := civil_of_unix secs) in *.
  destruct (valid_fields_civil _ _ Hok) as [Hv Hu].
  destruct Hok as [Hm Hd Hh Hmi Hs Hw _].
  assert (Hd31 := days_in_le_31 (c_month c) (c_year c) Hm).
  rewrite fmt_year_range by exact Hy. unfold fmt4, fmt2. cbn [append].
  cbv beta iota delta [ical_den]. cbn [Ascii.eqb Bool.eqb andb].
  rewrite four_digits_fmt4 by lia. rewrite !two_digits_fmt2 by lia.
  unfold den_fields. rewrite Hv, Hu. reflexivity.
Qed.

Theorem http_marshal_in_grammar : forall secs off, 0 <= year_of_unix secs <= 9999 ->
  den_imf (time_marshal (secs, off)) = Some secs.
Proof.
  intros secs off Hy. unfold time_marshal. cbn [fst]. unfold year_of_unix in Hy.
  assert (Hok := civil_of_unix_ok secs). unfold format_http. cbv zeta.
  set (c := civil_of_unix secs) in *.
  destruct (valid_fields_civil _ _ Hok) as [Hv Hu].
  destruct Hok as [Hm Hd Hh Hmi Hs Hw _].
  assert (Hd31 := days_in_le_31 (c_month c) (c_year c) Hm).
  unfold den_imf. rewrite exact_short_day by exact Hw.
  unfold fmt2 at 1. cbn [append]. cbn [Ascii.eqb Bool.eqb andb].
  rewrite exact_short_month by exact Hm.
  rewrite fmt_year_range by exact Hy. unfold fmt4, fmt2. cbn [append]. cbn [Ascii.eqb Bool.eqb andb].
  cbv beta iota delta [den_time_of_day]. cbn [Ascii.eqb Bool.eqb andb String.eqb].
  rewrite four_digits_fmt4 by lia. rewrite !two_digits_fmt2 by lia.
  replace (c_month c - 1 + 1) with (c_month c) by lia.
  unfold den_fields. rewrite Hv, Hu. reflexivity.
Qed.

(** * The iCalendar decoder accepts exactly the grammar *)
Definition s16 (y1 y2 y3 y4 m1 m2 d1 d2 tt h1 h2 n1 n2 s1 s2 zz : ascii) : string :=
  String y1 (String y2 (String y3 (String y4 (String m1 (String m2 (String d1 (String d2
  (String tt (String h1 (String h2 (String n1 (String n2 (String s1 (String s2 (String zz EmptyString))))))))))))))).

Definition v2 (a b : ascii) : Z := 10 * digit_val a + digit_val b.
Definition v4 (a b c d : ascii) : Z := 1000 * digit_val a + 100 * digit_val b + 10 * digit_val c + digit_val d.

Lemma getnum_2digits a b r fixed : is_digit a = true -> is_digit b = true ->
  getnum (String a (String b r)) fixed = Some (v2 a b, r).
Proof. intros Ha Hb. unfold getnum, v2. rewrite Ha, Hb. f_equal. f_equal. lia. Qed.

Lemma ical_parse_digits y1 y2 y3 y4 m1 m2 d1 d2 h1 h2 n1 n2 s1 s2 :
  is_digit y1 = true -> is_digit y2 = true -> is_digit y3 = true -> is_digit y4 = true ->
  is_digit m1 = true -> is_digit m2 = true -> is_digit d1 = true -> is_digit d2 = true ->
  is_digit h1 = true -> is_digit h2 = true -> is_digit n1 = true -> is_digit n2 = true ->
  is_digit s1 = true -> is_digit s2 = true ->
  parse_with layout_ical (s16 y1 y2 y3 y4 m1 m2 d1 d2 "T" h1 h2 n1 n2 s1 s2 "Z")
  = if (v2 m1 m2 <=? 0) || (12 <? v2 m1 m2) then None
    else if 24 <=? v2 h1 h2 then None
    else if 60 <=? v2 n1 n2 then None
    else if 60 <=? v2 s1 s2 then None
    else finish {| p_year := v4 y1 y2 y3 y4; p_month := v2 m1 m2; p_day := v2 d1 d2;
                   p_hour := v2 h1 h2; p_min := v2 n1 n2; p_sec := v2 s1 s2; p_nsec := 0 |}.
Proof.
  intros Hy1 Hy2 Hy3 Hy4 Hm1 Hm2 Hd1 Hd2 Hh1 Hh2 Hn1 Hn2 Hs1 Hs2.
  unfold parse_with, time_parse, layout_ical, s16. cbn [fst snd]. pstep.
  rewrite skip_empty. cbn [parse_std take]. rewrite Hy1.
  rewrite atoi_time_digit_first by exact Hy1. cbn [all_digits]. rewrite Hy1, Hy2, Hy3, Hy4. cbn [andb].
  unfold dec_value. cbn [dec_value_acc].
  replace ((((0 * 10 + digit_val y1) * 10 + digit_val y2) * 10 + digit_val y3) * 10 + digit_val y4)
    with (v4 y1 y2 y3 y4) by (unfold v4; lia).
  pstep. rewrite skip_empty. cbn [parse_std]. rewrite getnum_2digits by assumption.
  destruct ((v2 m1 m2 <=? 0) || (12 <? v2 m1 m2)); [reflexivity|].
  pstep. rewrite skip_empty. cbn [parse_std]. rewrite getnum_2digits by assumption.
  pstep. rewrite skip_lit1 by reflexivity. cbn [parse_std]. rewrite getnum_2digits by assumption.
  destruct (24 <=? v2 h1 h2); [reflexivity|].
  pstep. rewrite skip_empty. cbn [parse_std]. rewrite getnum_2digits by assumption.
  destruct (60 <=? v2 n1 n2); [reflexivity|].
  pstep. rewrite skip_empty. cbn [parse_std]. rewrite getnum_2digits by assumption.
  destruct (60 <=? v2 s1 s2); [reflexivity|].
  cbn [parse_frac]. pstep.
  change (skip "Z" "Z") with (Some EmptyString). reflexivity.
Qed.

Ltac dig c := destruct (is_digit c) eqn:?; [| try discriminate ].

Lemma ical_parse_inv y1 y2 y3 y4 m1 m2 d1 d2 tt h1 h2 n1 n2 s1 s2 zz r :
  parse_with layout_ical (s16 y1 y2 y3 y4 m1 m2 d1 d2 tt h1 h2 n1 n2 s1 s2 zz) = Some r ->
  (is_digit y1 = true /\ is_digit y2 = true /\ is_digit y3 = true /\ is_digit y4 = true) /\
  (is_digit m1 = true /\ is_digit m2 = true /\ is_digit d1 = true /\ is_digit d2 = true) /\
  (is_digit h1 = true /\ is_digit h2 = true /\ is_digit n1 = true /\ is_digit n2 = true) /\
  (is_digit s1 = true /\ is_digit s2 = true) /\ tt = "T"%char /\ zz = "Z"%char.
Proof.
  unfold parse_with, time_parse, layout_ical, s16. cbn [fst snd]. pstep.
  rewrite skip_empty. cbn [parse_std take].
  dig y1. rewrite atoi_time_digit_first by assumption. cbn [all_digits].
  dig y1. dig y2; cbn [andb]. dig y3; cbn [andb]. dig y4; cbn [andb].
  pstep. rewrite skip_empty. cbn [parse_std]. unfold getnum at 1.
  dig m1. dig m2.
  destruct ((_ <=? 0) || (12 <? _)); [discriminate|].
  pstep. rewrite skip_empty. cbn [parse_std]. unfold getnum at 1.
  dig d1. dig d2.
  pstep. unfold skip at 1. cbn [String.length skip_fuel Ascii.eqb Bool.eqb].
  destruct (Ascii.eqb tt "T") eqn:Ett; [|discriminate].
  cbn [parse_std]. unfold getnum at 1.
  dig h1. dig h2.
  2:{ (* one-digit hour: the minute field then starts with a non-digit *)
      destruct (24 <=? _); [discriminate|].
      pstep. rewrite skip_empty. cbn [parse_std]. unfold getnum at 1.
      match goal with H : is_digit h2 = false |- _ => rewrite H end. discriminate. }
  destruct (24 <=? _); [discriminate|].
  pstep. rewrite skip_empty. cbn [parse_std]. unfold getnum at 1.
  dig n1. dig n2.
  destruct (60 <=? _); [discriminate|].
  pstep. rewrite skip_empty. cbn [parse_std]. unfold getnum at 1.
  dig s1. dig s2.
  destruct (60 <=? _); [discriminate|].
  cbn [parse_frac]. pstep.
  unfold skip at 1. cbn [String.length skip_fuel Ascii.eqb Bool.eqb].
  destruct (Ascii.eqb zz "Z") eqn:Ezz; [|discriminate].
  intros _. apply Ascii.eqb_eq in Ett, Ezz. repeat split; assumption.
Qed.

Lemma string_length16 s : String.length s = 16%nat ->
  exists y1 y2 y3 y4 m1 m2 d1 d2 tt h1 h2 n1 n2 s1 s2 zz,
    s = s16 y1 y2 y3 y4 m1 m2 d1 d2 tt h1 h2 n1 n2 s1 s2 zz.
Proof.
  intros H.
  do 16 (destruct s as [|? s]; [discriminate|]). destruct s; [|discriminate].
  do 16 eexists. reflexivity.
Qed.

Lemma ical_den_length s t : ical_den s = Some t -> String.length s = 16%nat.
Proof.
  intros H. do 16 (destruct s as [|? s]; [discriminate|]). destruct s; [reflexivity|discriminate].
Qed.

Lemma two_digits_some a b v : two_digits a b = Some v -> is_digit a = true /\ is_digit b = true /\ v = v2 a b.
Proof.
  unfold two_digits, v2. destruct (is_digit a); [|discriminate]. destruct (is_digit b); [|discriminate].
  intros [= <-]. auto.
Qed.

Lemma four_digits_some a b c d v : four_digits a b c d = Some v ->
  is_digit a = true /\ is_digit b = true /\ is_digit c = true /\ is_digit d = true /\ v = v4 a b c d.
Proof.
  unfold four_digits, v4. destruct (is_digit a); [|discriminate]. destruct (is_digit b); [|discriminate].
  destruct (is_digit c); [|discriminate]. destruct (is_digit d); [|discriminate].
  intros [= <-]. auto.
Qed.

Lemma two_digits_v2 a b : is_digit a = true -> is_digit b = true -> two_digits a b = Some (v2 a b).
Proof. intros Ha Hb. unfold two_digits. rewrite Ha, Hb. reflexivity. Qed.

Lemma four_digits_v4 a b c d : is_digit a = true -> is_digit b = true -> is_digit c = true -> is_digit d = true ->
  four_digits a b c d = Some (v4 a b c d).
Proof. intros Ha Hb Hc Hd. unfold four_digits. rewrite Ha, Hb, Hc, Hd. reflexivity. Qed.

Lemma v2_range a b : is_digit a = true -> is_digit b = true -> 0 <= v2 a b <= 99.
Proof. intros Ha Hb. apply digit_val_range in Ha, Hb. unfold v2. lia. Qed.

(** the end of time.parse agrees with the specification's validity and instant *)
Lemma finish_valid y m d h mi s : 0 <= d -> 0 <= h -> 0 <= mi -> 0 <= s ->
  negb ((m <=? 0) || (12 <? m)) = true -> (24 <=? h) = false -> (60 <=? mi) = false -> (60 <=? s) = false ->
  finish {| p_year := y; p_month := m; p_day := d; p_hour := h; p_min := mi; p_sec := s; p_nsec := 0 |}
  = if valid_fields y m d h mi s then Some (spec_unix_of_fields y m d h mi s, 0) else None.
Proof.
  intros Hd Hh Hmi Hs Hm Hh' Hmi' Hs'.
  apply negb_true_iff, orb_false_iff in Hm. destruct Hm as [Hm1 Hm2].
  apply Z.leb_gt in Hm1, Hh', Hmi', Hs'. apply Z.ltb_ge in Hm2.
  assert (Hm : 1 <= m <= 12) by lia.
  unfold finish, valid_fields. cbn [p_year p_month p_day p_hour p_min p_sec p_nsec].
  destruct (Z.ltb_spec m 0); [lia|]. destruct (Z.ltb_spec d 0); [lia|].
  rewrite <- days_in_spec by exact Hm.
  unfold spec_unix_of_fields, unix_of_fields. rewrite <- (date_to_days_spec y m d Hm).
  destruct (Z.leb_spec 1 m); [|lia]. destruct (Z.leb_spec m 12); [|lia].
  destruct (Z.leb_spec h 23); [|lia]. destruct (Z.leb_spec mi 59); [|lia]. destruct (Z.leb_spec s 59); [|lia].
  destruct (Z.ltb_spec d 1); destruct (Z.leb_spec 1 d); try lia; cbn [orb andb]; [reflexivity|].
  destruct (Z.ltb_spec (days_in m y) d); destruct (Z.leb_spec d (days_in m y)); try lia; reflexivity.
Qed.

Theorem icaldate_unmarshal_iff : forall s t ns,
  icaldate_unmarshal s = Ok (t, ns) <-> (ical_den s = Some t /\ ns = 0).
Proof.
  intros s t ns. unfold icaldate_unmarshal, plain_err. split.
  - destruct (String.length s =? 16)%nat eqn:El; [|discriminate]. cbn [negb].
    apply Nat.eqb_eq in El.
    destruct (string_length16 s El) as (y1&y2&y3&y4&m1&m2&d1&d2&tt&h1&h2&n1&n2&s1&s2&zz&->).
    destruct (parse_with layout_ical _) as [r|] eqn:Ep; [|discriminate].
    intros [= ->].
    destruct (ical_parse_inv _ _ _ _ _ _ _ _ _ _ _ _ _ _ _ _ _ Ep)
      as ((Hy1&Hy2&Hy3&Hy4)&(Hm1&Hm2&Hd1&Hd2)&(Hh1&Hh2&Hn1&Hn2)&(Hs1&Hs2)&->&->).
    rewrite ical_parse_digits in Ep by assumption.
    destruct ((v2 m1 m2 <=? 0) || (12 <? v2 m1 m2)) eqn:Rm; [discriminate|].
    destruct (24 <=? v2 h1 h2) eqn:Rh; [discriminate|].
    destruct (60 <=? v2 n1 n2) eqn:Rn; [discriminate|].
    destruct (60 <=? v2 s1 s2) eqn:Rs; [discriminate|].
    rewrite finish_valid in Ep; try assumption;
      try (apply v2_range; assumption); [|rewrite Rm; reflexivity].
    unfold ical_den, s16. cbn [Ascii.eqb Bool.eqb andb].
    rewrite four_digits_v4, !two_digits_v2 by assumption. unfold den_fields.
    destruct (valid_fields _ _ _ _ _ _); [|discriminate]. inversion Ep. auto.
  - intros [Hd ->].
    rewrite (ical_den_length _ _ Hd). cbn [Nat.eqb negb].
    destruct (string_length16 s (ical_den_length _ _ Hd)) as (y1&y2&y3&y4&m1&m2&d1&d2&tt&h1&h2&n1&n2&s1&s2&zz&->).
    unfold ical_den, s16 in Hd.
    destruct (Ascii.eqb tt "T") eqn:Ett; [|discriminate]. destruct (Ascii.eqb zz "Z") eqn:Ezz; [|discriminate].
    apply Ascii.eqb_eq in Ett, Ezz. subst tt zz. cbn [andb] in Hd. unfold den_fields in Hd.
    destruct (four_digits y1 y2 y3 y4) as [y|] eqn:Ey; [|discriminate].
    destruct (two_digits m1 m2) as [m|] eqn:Em; [|discriminate].
    destruct (two_digits d1 d2) as [d|] eqn:Ed; [|discriminate].
    destruct (two_digits h1 h2) as [h|] eqn:Eh; [|discriminate].
    destruct (two_digits n1 n2) as [mi|] eqn:En; [|discriminate].
    destruct (two_digits s1 s2) as [sec|] eqn:Es; [|discriminate].
    apply four_digits_some in Ey. destruct Ey as (Hy1&Hy2&Hy3&Hy4&->).
    apply two_digits_some in Em, Ed, Eh, En, Es.
    destruct Em as (Hm1&Hm2&->). destruct Ed as (Hd1&Hd2&->). destruct Eh as (Hh1&Hh2&->).
    destruct En as (Hn1&Hn2&->). destruct Es as (Hs1&Hs2&->).
    destruct (valid_fields _ _ _ _ _ _) eqn:Ev; [|discriminate]. injection Hd as <-.
    rewrite ical_parse_digits by assumption.
    assert (Ev' := Ev). unfold valid_fields in Ev'. rewrite !andb_true_iff, !Z.leb_le in Ev'.
    destruct (Z.leb_spec (v2 m1 m2) 0); [lia|]. destruct (Z.ltb_spec 12 (v2 m1 m2)); [lia|]. cbn [orb].
    destruct (Z.leb_spec 24 (v2 h1 h2)); [lia|]. destruct (Z.leb_spec 60 (v2 n1 n2)); [lia|].
    destruct (Z.leb_spec 60 (v2 s1 s2)); [lia|].
    rewrite finish_valid; try (apply v2_range; assumption).
    + rewrite Ev. reflexivity.
    + apply negb_true_iff, orb_false_iff. split; [apply Z.leb_gt|apply Z.ltb_ge]; lia.
    + apply Z.leb_gt; lia.
    + apply Z.leb_gt; lia.
    + apply Z.leb_gt; lia.
Qed.

Theorem icaldate_unmarshal_never_panics : forall s, icaldate_unmarshal s <> Panic.
Proof.
  intros s. unfold icaldate_unmarshal, plain_err.
  destruct (negb _); [discriminate|]. destruct (parse_with _ _); discriminate.
Qed.

Theorem time_unmarshal_never_panics : forall s, time_unmarshal s <> Panic.
Proof. intros s. unfold time_unmarshal, plain_err. destruct (http_parse_time s); discriminate. Qed.

(** rejection side of the HTTP date with the listed finding as a visible hypothesis ... *)
Theorem time_rejects_except_lenient : forall s t ns,
  kf_httpdate_lenient s (obs_of (time_unmarshal s)) = false ->
  time_unmarshal s = Ok (t, ns) -> exists t', http_den s = Some t'.
Proof.
  intros s t ns Hk H. unfold kf_httpdate_lenient in Hk. rewrite H in Hk. cbn [obs_of] in Hk.
  destruct (http_den s) as [t'|]; [exists t'; reflexivity|discriminate].
Qed.

(** ... which is real: a one-digit hour is read although HTTP-date requires two *)
Theorem time_rejects_refuted : exists s v,
  time_unmarshal s = Ok v /\ http_den s = None
  /\ kf_httpdate_lenient s (obs_of (time_unmarshal s)) = true.
Proof.
  exists "Mon, 02 Jan 2006 5:04:05 GMT"%string, (1136178245, 0). vm_compute. repeat split.
Qed.
