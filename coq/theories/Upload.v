(** Upload.v — the upload protocol of webdav.Client.Create (client.go:179-217) as a
    labelled transition system, and the executable outcome function the oracle
    compares with the real client.  No proofs here (UploadProofs.v); this file is
    extracted.

    Four parties.

    - the CALLER of the io.WriteCloser returned by Create: [Write c1; ...; Write cn]
      followed by [Close] or not ([closes]); any chunking, also zero-length writes;
    - the PIPE (io.Pipe, unbuffered): a Write blocks until every byte of it has been
      read or the read side is closed; once the read side is closed a blocked Write
      and every later Write fail with io.ErrClosedPipe; PipeWriter.Close never
      blocks and returns nil; a Read after PipeWriter.Close returns EOF;
    - the REQUEST GOROUTINE of Create: [Do]; then exactly one send on [done]
      (capacity 1 in client.go:205); then exit;
    - the ENVIRONMENT = http transport + network + server.  Its moves: read bytes
      from the pipe, see EOF, answer with a status at any moment, drop the
      connection, end the context, close the request body, let [Do] return.  To
      stall or to stop reading is to make no move.

    client.go never closes the pipe reader itself: the only party that can is the
    http.RoundTripper, whose documented contract is "RoundTrip must always close the
    body, including on errors".  That contract is [guard] below; it is a visible
    premise ([env_contract]) of every theorem. *)
From GW Require Import Base.
Local Open Scope N_scope.

(** What [Do] / [Close] return: nil, *HTTPError with a status, a transport error
    (connection dropped, body failed), the context's error. *)
Inductive result := RNil | RHttp (st : N) | RTransport | RCtx.

Inductive envst := EActive | EAnswered (st : N) | EFailed | ECancelled.
Inductive gost := GDo | GSend (r : result) | GExit.
(** [CWriting c n]: inside pw.Write of a chunk of [c] bytes, [n] still unread. *)
Inductive callst := CIdle | CWriting (c n : N) | CWaitDone | CDone (r : result).

(** One completed Write: where the chunk starts in the body, its length, and
    whether it returned nil (otherwise io.ErrClosedPipe). *)
Record wentry := { w_off : N; w_len : N; w_ok : bool }.

Record config := { closes : bool; buffered : bool }.

Record state := {
  todo : list N;            (* chunks not yet passed to Write *)
  caller : callst;
  wlog : list wentry;       (* completed writes, newest first *)
  w_pos : N;                (* total length of the chunks of completed writes *)
  rd_closed : bool;         (* request body (pipe reader) closed by the transport *)
  go : gost;
  chan : option result;     (* the [done] channel *)
  env : envst;
  nread : N;                (* bytes the environment has taken from the pipe *)
  saw_eof : bool }.

Definition init (chunks : list N) : state :=
  {| todo := chunks; caller := CIdle; wlog := []; w_pos := 0; rd_closed := false;
     go := GDo; chan := None; env := EActive; nread := 0; saw_eof := false |}.

Inductive label :=
| LCallWrite            (* caller: fw.Write(next chunk) is called *)
| LWriteFail            (* pipe: the pending Write returns io.ErrClosedPipe *)
| LRead (k : N)         (* env: takes k bytes of the pending Write *)
| LEof                  (* env: reads EOF after pw.Close *)
| LAnswer (st : N)      (* env: response headers with status st reach the transport *)
| LDrop                 (* env: connection dropped / body failed *)
| LCancel               (* env: the context ends *)
| LCloseBody            (* env: transport closes the request body (pr.Close) *)
| LDoReturn (r : result)(* goroutine: c.ic.Do returns *)
| LSend                 (* goroutine: done <- err; return *)
| LClosePw              (* caller: fw.Close is called, pw.Close() returns nil *)
| LRecv.                (* caller: <-fw.done, Close returns *)

Definition is_2xx (st : N) : bool := st / 100 =? 2.

(** internal.Client.Do: nil error exactly for a 2xx answer, *HTTPError{Code} for
    every other status, the transport's error otherwise. *)
Definition result_of (e : envst) : result :=
  match e with
  | EAnswered st => if is_2xx st then RNil else RHttp st
  | EFailed => RTransport
  | ECancelled => RCtx
  | EActive => RTransport
  end.

Definition result_eqb (a b : result) : bool :=
  match a, b with
  | RNil, RNil => true
  | RHttp x, RHttp y => x =? y
  | RTransport, RTransport => true
  | RCtx, RCtx => true
  | _, _ => false
  end.

Definition env_active (e : envst) : bool := match e with EActive => true | _ => false end.

Definition wr_closed (s : state) : bool :=
  match caller s with CWaitDone | CDone _ => true | _ => false end.

Definition set_caller (s : state) (c : callst) : state :=
  {| todo := todo s; caller := c; wlog := wlog s; w_pos := w_pos s; rd_closed := rd_closed s;
     go := go s; chan := chan s; env := env s; nread := nread s; saw_eof := saw_eof s |}.
Definition set_env (s : state) (e : envst) : state :=
  {| todo := todo s; caller := caller s; wlog := wlog s; w_pos := w_pos s; rd_closed := rd_closed s;
     go := go s; chan := chan s; env := e; nread := nread s; saw_eof := saw_eof s |}.
Definition set_go (s : state) (g : gost) (ch : option result) : state :=
  {| todo := todo s; caller := caller s; wlog := wlog s; w_pos := w_pos s; rd_closed := rd_closed s;
     go := g; chan := ch; env := env s; nread := nread s; saw_eof := saw_eof s |}.
(** a Write of [c] bytes returns *)
Definition write_returns (s : state) (c : N) (ok : bool) (nr : N) : state :=
  {| todo := todo s; caller := CIdle;
     wlog := {| w_off := w_pos s; w_len := c; w_ok := ok |} :: wlog s; w_pos := w_pos s + c;
     rd_closed := rd_closed s; go := go s; chan := chan s; env := env s; nread := nr;
     saw_eof := saw_eof s |}.

(** The transition function: what each move does when it is possible at all
    (pipe, channel and program-order semantics).  [None] = not enabled. *)
Definition apply (cf : config) (s : state) (l : label) : option state :=
  match l with
  | LCallWrite =>
    match caller s, todo s with
    | CIdle, c :: t =>
      Some {| todo := t; caller := CWriting c c; wlog := wlog s; w_pos := w_pos s;
              rd_closed := rd_closed s; go := go s; chan := chan s; env := env s;
              nread := nread s; saw_eof := saw_eof s |}
    | _, _ => None
    end
  | LWriteFail =>
    match caller s with
    | CWriting c n => if rd_closed s then Some (write_returns s c false (nread s)) else None
    | _ => None
    end
  | LRead k =>
    match caller s with
    | CWriting c n =>
      if negb (rd_closed s) && (k <=? n) then
        if n - k =? 0 then Some (write_returns s c true (nread s + k))
        else Some {| todo := todo s; caller := CWriting c (n - k); wlog := wlog s; w_pos := w_pos s;
                     rd_closed := rd_closed s; go := go s; chan := chan s; env := env s;
                     nread := nread s + k; saw_eof := saw_eof s |}
      else None
    | _ => None
    end
  | LEof =>
    if wr_closed s && negb (rd_closed s) && negb (saw_eof s) then
      Some {| todo := todo s; caller := caller s; wlog := wlog s; w_pos := w_pos s;
              rd_closed := rd_closed s; go := go s; chan := chan s; env := env s;
              nread := nread s; saw_eof := true |}
    else None
  | LAnswer st => if env_active (env s) then Some (set_env s (EAnswered st)) else None
  | LDrop => if env_active (env s) then Some (set_env s EFailed) else None
  | LCancel => if env_active (env s) then Some (set_env s ECancelled) else None
  | LCloseBody =>
    if rd_closed s then None else
      Some {| todo := todo s; caller := caller s; wlog := wlog s; w_pos := w_pos s;
              rd_closed := true; go := go s; chan := chan s; env := env s;
              nread := nread s; saw_eof := saw_eof s |}
  | LDoReturn r =>
    match go s with GDo => Some (set_go s (GSend r) (chan s)) | _ => None end
  | LSend =>
    match go s with
    | GSend r =>
      if buffered cf then
        match chan s with
        | None => Some (set_go s GExit (Some r))
        | Some _ => None                       (* channel full: the send blocks *)
        end
      else
        match caller s with                    (* unbuffered: rendezvous with <-done *)
        | CWaitDone => Some (set_caller (set_go s GExit None) (CDone r))
        | _ => None
        end
    | _ => None
    end
  | LClosePw =>
    match caller s, todo s with
    | CIdle, [] => if closes cf then Some (set_caller s CWaitDone) else None
    | _, _ => None
    end
  | LRecv =>
    match caller s, chan s with
    | CWaitDone, Some r => Some (set_caller (set_go s (go s) None) (CDone r))
    | _, _ => None
    end
  end.

(** The http.RoundTripper contract, as a condition on the environment's moves:
    - [Do] returns only after the server answered, the connection dropped / the body
      failed, or the context ended, and reports exactly that;
    - the request body is closed only once the exchange is decided or the body has
      been read to EOF (and, by [C18_progress], closing it is then always possible:
      "RoundTrip must always close the body, including on errors");
    - a Read from the pipe takes at least one byte of a non-empty pending Write. *)
Definition guard (s : state) (l : label) : bool :=
  match l with
  | LDoReturn r => negb (env_active (env s)) && result_eqb r (result_of (env s))
  | LCloseBody => negb (env_active (env s)) || saw_eof s
  | LRead k =>
    match caller s with
    | CWriting _ n => (1 <=? k) || (n =? 0)
    | _ => true
    end
  | _ => true
  end.

Fixpoint run (cf : config) (s : state) (tr : list label) : option state :=
  match tr with
  | [] => Some s
  | l :: tr' => match apply cf s l with Some s' => run cf s' tr' | None => None end
  end.

(** [env_contract cf s tr]: every move of the trace [tr], run from [s], respects
    the transport contract. *)
Fixpoint env_contract (cf : config) (s : state) (tr : list label) : bool :=
  match tr with
  | [] => true
  | l :: tr' =>
    guard s l && match apply cf s l with Some s' => env_contract cf s' tr' | None => true end
  end.

Definition step (cf : config) (s s' : state) : Prop :=
  exists l, guard s l = true /\ apply cf s l = Some s'.

Definition caller_finished (cf : config) (s : state) : bool :=
  match caller s with
  | CDone _ => true
  | CIdle => match todo s with [] => negb (closes cf) | _ => false end
  | _ => false
  end.

Definition go_exited (s : state) : bool := match go s with GExit => true | _ => false end.

Definition final (cf : config) (s : state) : bool :=
  caller_finished cf s && go_exited s && rd_closed s && negb (env_active (env s)).

Definition close_result (s : state) : option result :=
  match caller s with CDone r => Some r | _ => None end.

Definition answered_2xx (s : state) : bool :=
  match env s with EAnswered st => is_2xx st | _ => false end.

Fixpoint sumw (l : list N) : N := match l with [] => 0 | c :: t => c + 2 + sumw t end.

Definition measure (cf : config) (s : state) : N :=
  (match caller s with
   | CIdle => sumw (todo s) + (if closes cf then 2 else 0)
   | CWriting _ n => n + 1 + sumw (todo s) + (if closes cf then 2 else 0)
   | CWaitDone => 1
   | CDone _ => 0
   end)
  + (match go s with GDo => 2 | GSend _ => 1 | GExit => 0 end)
  + (if env_active (env s) then 1 else 0)
  + (if rd_closed s then 0 else 1)
  + (if saw_eof s then 0 else 1).

(** * The deterministic projection: fault script |-> result classes *)

Inductive decision := DAnswer (st : N) | DDrop | DCancel.

(** What the scripted server does: reads [sc_read] bytes of the body, then (if
    [sc_eof]) goes on reading until EOF, then decides: answers [st] / drops the
    connection / stalls until the caller's context is cancelled.  Whether it drains
    the rest afterwards is left open (it does not influence the classes). *)
Record script := {
  sc_chunks : list N;
  sc_close : bool;
  sc_read : N;
  sc_eof : bool;
  sc_dec : decision }.

Definition sc_cfg (sc : script) : config := {| closes := sc_close sc; buffered := true |}.

Fixpoint total (l : list N) : N := match l with [] => 0 | c :: t => c + total t end.

(** a script that can come to its decision at all *)
Definition script_wf (sc : script) : bool :=
  (sc_read sc <=? total (sc_chunks sc)) && (sc_close sc || negb (sc_eof sc)).

Definition decision_ready (sc : script) (s : state) : bool :=
  (sc_read sc <=? nread s) && (negb (sc_eof sc) || saw_eof s).

Definition decision_eqb (a b : decision) : bool :=
  match a, b with
  | DAnswer x, DAnswer y => x =? y
  | DDrop, DDrop => true
  | DCancel, DCancel => true
  | _, _ => false
  end.

(** the environment's decision move is the scripted one, made when the script says *)
Definition conform (sc : script) (s : state) (l : label) : bool :=
  match l with
  | LAnswer st => decision_ready sc s && decision_eqb (sc_dec sc) (DAnswer st)
  | LDrop => decision_ready sc s && decision_eqb (sc_dec sc) DDrop
  | LCancel => decision_ready sc s && decision_eqb (sc_dec sc) DCancel
  | _ => true
  end.

Fixpoint script_conform (sc : script) (s : state) (tr : list label) : bool :=
  match tr with
  | [] => true
  | l :: tr' =>
    conform sc s l &&
    match apply (sc_cfg sc) s l with Some s' => script_conform sc s' tr' | None => true end
  end.

Definition result_of_dec (d : decision) : result :=
  match d with
  | DAnswer st => if is_2xx st then RNil else RHttp st
  | DDrop => RTransport
  | DCancel => RCtx
  end.

(** Class of one Write: [true] = must return nil; [false] = may return nil or
    io.ErrClosedPipe (it depends on how much the transport and the socket buffer
    before the body is closed).  A write that lies wholly inside the bytes the
    server reads before deciding must succeed; so must every write when the server
    decides only after EOF. *)
Definition must_ok (sc : script) (off len : N) : bool :=
  sc_eof sc || ((off + len <=? sc_read sc) && ((0 <? len) || (off <? sc_read sc))).

Fixpoint classes (sc : script) (off : N) (chunks : list N) : list bool :=
  match chunks with
  | [] => []
  | c :: t => must_ok sc off c :: classes sc (off + c) t
  end.

Record outcome_t := { oc_writes : list bool; oc_close : option result }.

Definition outcome (sc : script) : outcome_t :=
  {| oc_writes := classes sc 0 (sc_chunks sc);
     oc_close := if sc_close sc then Some (result_of_dec (sc_dec sc)) else None |}.

(** * Observations and verdicts *)

(** What the harness saw: per Write its length and whether it returned nil
    (otherwise io.ErrClosedPipe; any other error is reported as [o_other]), the
    class of Close's result, and four flags. *)
Record observation := {
  o_writes : list (N * bool);
  o_close : option result;
  o_other : bool;        (* some Write failed with an error other than ErrClosedPipe, or a short count with nil *)
  o_after_end : bool;    (* Close returned only after the exchange had been decided *)
  o_leak : bool;         (* goroutines did not return to the baseline *)
  o_hang : bool }.       (* watchdog fired *)

(** oldest first: once a Write has failed, every later one fails *)
Fixpoint mono (l : list bool) : bool :=
  match l with
  | [] => true
  | true :: t => mono t
  | false :: t => forallb negb t
  end.

Fixpoint classes_ok (cl : list bool) (obs : list bool) : bool :=
  match cl, obs with
  | [], [] => true
  | c :: cl', o :: obs' => (negb c || o) && classes_ok cl' obs'
  | _, _ => false
  end.

Fixpoint list_N_eqb (a b : list N) : bool :=
  match a, b with
  | [], [] => true
  | x :: a', y :: b' => (x =? y) && list_N_eqb a' b'
  | _, _ => false
  end.

Definition opt_result_eqb (a b : option result) : bool :=
  match a, b with
  | None, None => true
  | Some x, Some y => result_eqb x y
  | _, _ => false
  end.

(** [spec_ok]: the property itself, on an observation — Close's result is nil
    exactly for a 2xx answer and the failure otherwise, Close returned after the
    exchange was decided, nothing hung, no goroutine outlived the exchange. *)
Definition spec_ok (sc : script) (o : observation) : bool :=
  negb (o_hang o) && negb (o_leak o) &&
  opt_result_eqb (o_close o) (if sc_close sc then Some (result_of_dec (sc_dec sc)) else None) &&
  (negb (sc_close sc) || o_after_end o).

(** [model_agrees]: the implementation did what the model's outcome function says. *)
Definition model_agrees (sc : script) (o : observation) : bool :=
  let oc := outcome sc in
  negb (o_hang o) && negb (o_leak o) && negb (o_other o) &&
  list_N_eqb (map fst (o_writes o)) (sc_chunks sc) &&
  classes_ok (oc_writes oc) (map snd (o_writes o)) &&
  mono (map snd (o_writes o)) &&
  opt_result_eqb (o_close o) (oc_close oc) &&
  (negb (sc_close sc) || o_after_end o).

(** The observation a state of the transition system corresponds to. *)
Definition obs_writes (s : state) : list (N * bool) :=
  map (fun e => (w_len e, w_ok e)) (rev (wlog s)).

Definition obs_of (cf : config) (s : state) : observation :=
  {| o_writes := obs_writes s;
     o_close := close_result s;
     o_other := false;
     o_after_end := negb (env_active (env s));
     o_leak := negb (go_exited s);
     o_hang := negb (caller_finished cf s) |}.

(** * The caller's context ends at an arbitrary point (correspondence part "upx")

    When the context is cancelled before Create, between two writes, after the server
    has answered but before Close, or while Close waits, the fault script no longer
    determines what [Do] returns (the transport may report the cancellation or the
    answer).  What the theorems fix regardless (C18_close_after_answer_partial,
    C18_close_outcome_partial, C18_closed_implies_exited_partial): Close returns only
    after [Do] has returned, and returns exactly what [Do] returned.  The harness
    records what the HTTPClient's Do returned (mapped as internal.Client.Do maps it) and
    whether it had returned when Close did. *)
Record xobs := {
  x_close : option result;      (* what Close returned (None: there was no writer to close) *)
  x_do : option result;         (* what Do returned (None: it has not returned within the patience, or was never called) *)
  x_do_first : bool;            (* Do had returned when Close returned *)
  x_leak : bool;
  x_hang : bool;
  x_create : option result;     (* the error of Create itself (None: Create returned a writer) *)
  x_sent : bool }.              (* a request reached the HTTPClient *)

Definition close_is_do (o : xobs) : bool :=
  match x_close o with
  | Some r => x_do_first o && opt_result_eqb (x_do o) (Some r)
  | None => false
  end.

(** [xmodel_agrees]: what the transition system does — Create hands out a writer, and
    Close returns after [Do] and exactly what [Do] returned. *)
Definition xmodel_agrees (o : xobs) : bool :=
  opt_result_eqb (x_create o) None && negb (x_hang o) && negb (x_leak o) && close_is_do o.

(** [xspec_ok dead]: the property.  It speaks of a streamed upload (Create, Write...,
    Close).  When the context is already dead when Create is called ([dead]), Create may
    also refuse outright: then there is no upload whose Close could hang or lie, and what
    must hold is that the error is the context's, no request reached the transport, and
    no goroutine of the library is left. *)
Definition xspec_ok (dead : bool) (o : xobs) : bool :=
  xmodel_agrees o ||
  (dead && opt_result_eqb (x_create o) (Some RCtx) && opt_result_eqb (x_close o) None &&
   negb (x_sent o) && negb (x_leak o) && negb (x_hang o)).

(** the observation a state of the transition system corresponds to *)
Definition xobs_of (cf : config) (s : state) : xobs :=
  {| x_close := close_result s;
     x_do := match go s with GDo => None | _ => Some (result_of (env s)) end;
     x_do_first := match go s with GDo => false | _ => true end;
     x_leak := negb (go_exited s);
     x_hang := negb (caller_finished cf s);
     x_create := None;
     x_sent := true |}.
