(** ServerTotal.v — C13: request -> response of the WebDAV, CalDAV and CardDAV
    handlers and of ServePrincipal as total functions with an explicit [Panicked]
    outcome; the 4xx classification of malformed requests.

    Model after /repo: internal/server.go (ServeError, DecodeXMLRequest,
    DecodePropFindRequest, Handler.ServeHTTP, handlePropfind, handleProppatch,
    handleCopyMove), internal/internal.go (ParseDepth, ParseOverwrite),
    internal/elements.go (Prop.Get/Decode, ResourceType.Is), internal/xml.go
    (RawXMLValue), server.go (webdav backend, ServePrincipal), caldav/server.go,
    caldav/elements.go, carddav/server.go, carddav/elements.go.

    Inputs computed by the harness with the real libraries (not modelled):
    the namespace-expanded token tree of the body (encoding/xml bytes -> tokens),
    mime.ParseMediaType, url.Parse, the iCalendar / vCard decoders and encoders.
    Modelled: what encoding/xml's Unmarshal does with this library's struct tags
    on such a tree, and everything from there to the status and the backend calls.
    No proofs in this file (extracted). *)
From GW Require Import Base GoPath.
Local Open Scope N_scope.

(* ------------------------------------------------------------------ *)
(** * XML trees (the information encoding/xml's Token stream carries)  *)

Record xattr := { a_ns : string; a_local : string; a_val : string }.

Inductive xtree :=
| XElem (ns local : string) (attrs : list xattr) (kids : list xtree)
| XText (s : string)
| XOther.   (* comment, processing instruction, directive *)

Definition NS_DAV : string := "DAV:".
Definition NS_CAL : string := "urn:ietf:params:xml:ns:caldav".
Definition NS_CARD : string := "urn:ietf:params:xml:ns:carddav".

Definition kid_is (k : xtree) (ns local : string) : bool :=
  match k with
  | XElem n l _ _ => String.eqb n ns && String.eqb l local
  | _ => false
  end.

(** A field whose tag names no namespace matches on the local name alone. *)
Definition kid_local (k : xtree) (local : string) : bool :=
  match k with
  | XElem _ l _ _ => String.eqb l local
  | _ => false
  end.

(** Direct character data of an element, concatenated (what Unmarshal stores in a
    [,chardata] field and hands to a TextUnmarshaler). *)
Fixpoint chardata (ks : list xtree) : string :=
  match ks with
  | [] => ""
  | XText s :: r => s ++ chardata r
  | _ :: r => chardata r
  end.

Section Fold.
  Context {A T : Type} (f : T -> A -> option T).
  Fixpoint fold_opt (l : list A) (acc : T) : option T :=
    match l with
    | [] => Some acc
    | a :: r => match f acc a with Some x => fold_opt r x | None => None end
    end.
End Fold.

Definition is_some {A} (o : option A) : bool := match o with Some _ => true | None => false end.

(** encoding/xml refuses to recurse deeper than 10000 (errUnmarshalDepth). *)
Definition MAXD : N := 10000.
Definition chk {A} (d : N) (k : option A) : option A :=
  if MAXD <=? d then None else k.

(** The XMLName check of a struct: local name, and namespace when the tag has one. *)
Definition name_ok (xn : option (string * string)) (ns local : string) : bool :=
  match xn with
  | None => true
  | Some (n, l) => String.eqb l local && (str_empty n || String.eqb n ns)
  end.

(** Unmarshal into a struct value that already exists ([acc]): XMLName check,
    attributes in order, children in order, character data last.  [None] = error. *)
Definition um_struct {T} (xn : option (string * string))
    (fa : T -> xattr -> option T) (fk : T -> xtree -> option T) (ft : T -> string -> T)
    (d : N) (acc : T) (t : xtree) : option T :=
  match t with
  | XElem ns local attrs kids =>
    chk d (if name_ok xn ns local then
             match fold_opt fa attrs acc with
             | Some a1 =>
               match fold_opt fk kids a1 with
               | Some a2 => Some (ft a2 (chardata kids))
               | None => None
               end
             | None => None
             end
           else None)
  | _ => None
  end.

Definition no_attr {T} (acc : T) (_ : xattr) : option T := Some acc.
Definition no_text {T} (acc : T) (_ : string) : T := acc.

(** field kinds, seen from a struct at depth [d] *)
Definition into_ptr {U} (um : N -> U -> xtree -> option U) (zero : U) (d : N) (cur : option U) (k : xtree) : option (option U) :=
  match um (d + 1) (match cur with Some u => u | None => zero end) k with
  | Some u => Some (Some u)
  | None => None
  end.
Definition into_slice {U} (um : N -> U -> xtree -> option U) (zero : U) (d : N) (cur : list U) (k : xtree) : option (list U) :=
  chk (d + 1) (match um (d + 2) zero k with Some u => Some (cur ++ [u])%list | None => None end).
(** [*struct{}]: allocated, content skipped *)
Definition into_flag (d : N) : option bool := chk (d + 1) (Some true).

(* ------------------------------------------------------------------ *)
(** * Text codecs of the wire types                                    *)

Definition parse_yes_no (s : string) : option bool :=
  if String.eqb s "yes" then Some true else if String.eqb s "no" then Some false else None.
Definition filter_test_ok (s : string) : bool := String.eqb s "anyof" || String.eqb s "allof".
Definition match_type_ok (s : string) : bool :=
  String.eqb s "equals" || String.eqb s "contains" || String.eqb s "starts-with" || String.eqb s "ends-with".

Definition digit_val (c : ascii) : option N :=
  let n := N_of_ascii c in if (48 <=? n) && (n <=? 57) then Some (n - 48) else None.

Fixpoint digits_val (s : string) (acc : N) : option N :=
  match s with
  | EmptyString => Some acc
  | String c r => match digit_val c with Some v => digits_val r (acc * 10 + v) | None => None end
  end.

(** n digits exactly, as a number; rest of the string *)
Fixpoint take_digits (n : nat) (s : string) (acc : N) : option (N * string) :=
  match n with
  | O => Some (acc, s)
  | S n' => match s with
            | String c r => match digit_val c with Some v => take_digits n' r (acc * 10 + v) | None => None end
            | EmptyString => None
            end
  end.

Definition leap (y : N) : bool :=
  (y mod 4 =? 0) && (negb (y mod 100 =? 0) || (y mod 400 =? 0)).
Definition days_in (m y : N) : N :=
  if m =? 2 then (if leap y then 29 else 28)
  else if (m =? 4) || (m =? 6) || (m =? 9) || (m =? 11) then 30 else 31.

(** dateWithUTCTime.UnmarshalText: 16 bytes, time.Parse("20060102T150405Z"). *)
Definition parse_utc_ok (s : string) : bool :=
  match take_digits 4 s 0 with
  | Some (y, s1) =>
    match take_digits 2 s1 0 with
    | Some (mo, s2) =>
      match take_digits 2 s2 0 with
      | Some (dd, String t s3) =>
        match take_digits 2 s3 0 with
        | Some (hh, s4) =>
          match take_digits 2 s4 0 with
          | Some (mi, s5) =>
            match take_digits 2 s5 0 with
            | Some (ss, String z EmptyString) =>
              Ascii.eqb t "T" && Ascii.eqb z "Z" &&
              (1 <=? mo) && (mo <=? 12) && (1 <=? dd) && (dd <=? days_in mo y) &&
              (hh <? 24) && (mi <? 60) && (ss <? 60)
            | _ => false
            end
          | None => false
          end
        | None => false
        end
      | _ => false
      end
    | None => false
    end
  | None => false
  end.

(** strings.TrimSpace: Unicode White_Space in UTF-8. *)
Definition by_ (n : N) : ascii := ascii_of_N n.
Definition space_seqs : list string :=
  [ String (by_ 9) ""; String (by_ 10) ""; String (by_ 11) ""; String (by_ 12) ""; String (by_ 13) ""; String (by_ 32) "";
    String (by_ 194) (String (by_ 133) ""); String (by_ 194) (String (by_ 160) "");
    String (by_ 225) (String (by_ 154) (String (by_ 128) ""));
    String (by_ 226) (String (by_ 128) (String (by_ 128) "")); String (by_ 226) (String (by_ 128) (String (by_ 129) ""));
    String (by_ 226) (String (by_ 128) (String (by_ 130) "")); String (by_ 226) (String (by_ 128) (String (by_ 131) ""));
    String (by_ 226) (String (by_ 128) (String (by_ 132) "")); String (by_ 226) (String (by_ 128) (String (by_ 133) ""));
    String (by_ 226) (String (by_ 128) (String (by_ 134) "")); String (by_ 226) (String (by_ 128) (String (by_ 135) ""));
    String (by_ 226) (String (by_ 128) (String (by_ 136) "")); String (by_ 226) (String (by_ 128) (String (by_ 137) ""));
    String (by_ 226) (String (by_ 128) (String (by_ 138) ""));
    String (by_ 226) (String (by_ 128) (String (by_ 168) "")); String (by_ 226) (String (by_ 128) (String (by_ 169) ""));
    String (by_ 226) (String (by_ 128) (String (by_ 175) ""));
    String (by_ 226) (String (by_ 129) (String (by_ 159) ""));
    String (by_ 227) (String (by_ 128) (String (by_ 128) "")) ].

Fixpoint strip_prefix_s (p s : string) : option string :=
  match p with
  | EmptyString => Some s
  | String c p' => match s with
                   | String c' s' => if Ascii.eqb c c' then strip_prefix_s p' s' else None
                   | EmptyString => None
                   end
  end.

Fixpoint strip_one (seqs : list string) (s : string) : option string :=
  match seqs with
  | [] => None
  | p :: r => match strip_prefix_s p s with Some s' => Some s' | None => strip_one r s end
  end.

Fixpoint trim_left (seqs : list string) (fuel : nat) (s : string) : string :=
  match fuel with
  | O => s
  | S f => match strip_one seqs s with Some s' => trim_left seqs f s' | None => s end
  end.

Fixpoint srev (s acc : string) : string :=
  match s with EmptyString => acc | String c r => srev r (String c acc) end.

Definition trim_space (s : string) : string :=
  let l := trim_left space_seqs (String.length s) s in
  let r := trim_left (map (fun p => srev p "") space_seqs) (String.length l) (srev l "") in
  srev r "".

(** copyValue into a uint field: empty -> 0; else ParseUint(TrimSpace(s), 10, 64). *)
Definition parse_uint (s : string) : option N :=
  if str_empty s then Some 0
  else let t := trim_space s in
       if str_empty t then None
       else match digits_val t 0 with
            | Some n => if n <? 18446744073709551616 then Some n else None
            | None => None
            end.

(* ------------------------------------------------------------------ *)
(** * RawXMLValue and the wire structures of package internal          *)

(** A RawXMLValue is either marshal-only ([out] set by EncodeRawXMLElement) or
    holds a token with children; the token is never an EndElement (UnmarshalXML
    and NewRawXMLElement cannot store one), so marshalXML's panic has no
    representation here. *)
Inductive rawval := RawOut | RawTok (t : xtree).

Definition is_ns_decl (a : xattr) : bool :=
  String.eqb (a_ns a) "xmlns" || (str_empty (a_ns a) && String.eqb (a_local a) "xmlns").

(** RawXMLValue.UnmarshalXML drops the namespace declarations at every level. *)
Fixpoint strip_decls (t : xtree) : xtree :=
  match t with
  | XElem ns l attrs kids => XElem ns l (filter (fun a => negb (is_ns_decl a)) attrs) (map strip_decls kids)
  | _ => t
  end.

(** RawXMLValue.XMLName *)
Definition raw_name_is (r : rawval) (ns local : string) : bool :=
  match r with RawTok t => kid_is t ns local | RawOut => false end.

(** RawXMLValue.TokenReader panics on a marshal-only value. *)
Definition raw_token_reader (r : rawval) : res xtree :=
  match r with RawOut => Panic | RawTok t => Ok t end.

(** Prop.Get *)
Fixpoint prop_get (raws : list rawval) (ns local : string) : option rawval :=
  match raws with
  | [] => None
  | r :: rest => if raw_name_is r ns local then Some r else prop_get rest ns local
  end.

(** ResourceType.Is *)
Definition raws_have (raws : list rawval) (ns local : string) : bool :=
  existsb (fun r => raw_name_is r ns local) raws.

(** A struct { XMLName `DAV: <local>`; Raw []RawXMLValue `,any` } : Prop, Include, ResourceType. *)
Definition um_raws (local : string) (d : N) (acc : list rawval) (t : xtree) : option (list rawval) :=
  um_struct (Some (NS_DAV, local)) no_attr
    (fun acc k => match k with
                  | XElem _ _ _ _ => chk (d + 2) (Some (acc ++ [RawTok (strip_decls k)])%list)
                  | _ => Some acc
                  end)
    no_text d acc t.

Record propfindW := { pf_prop : option (list rawval); pf_allprop : bool;
                      pf_include : option (list rawval); pf_propname : bool }.
Definition propfind_zero := {| pf_prop := None; pf_allprop := false; pf_include := None; pf_propname := false |}.

Definition um_propfind (d : N) (acc : propfindW) (t : xtree) : option propfindW :=
  um_struct (Some (NS_DAV, "propfind")) no_attr
    (fun acc k =>
       if kid_local k "prop" then
         match into_ptr (um_raws "prop") [] d (pf_prop acc) k with
         | Some v => Some {| pf_prop := v; pf_allprop := pf_allprop acc; pf_include := pf_include acc; pf_propname := pf_propname acc |}
         | None => None end
       else if kid_local k "allprop" then
         match into_flag d with
         | Some v => Some {| pf_prop := pf_prop acc; pf_allprop := v; pf_include := pf_include acc; pf_propname := pf_propname acc |}
         | None => None end
       else if kid_local k "include" then
         match into_ptr (um_raws "include") [] d (pf_include acc) k with
         | Some v => Some {| pf_prop := pf_prop acc; pf_allprop := pf_allprop acc; pf_include := v; pf_propname := pf_propname acc |}
         | None => None end
       else if kid_local k "propname" then
         match into_flag d with
         | Some v => Some {| pf_prop := pf_prop acc; pf_allprop := pf_allprop acc; pf_include := pf_include acc; pf_propname := v |}
         | None => None end
       else Some acc)
    no_text d acc t.

(** Remove / Set : struct { XMLName `DAV: remove|set`; Prop Prop `prop` } *)
Definition um_remset (local : string) (d : N) (acc : list rawval) (t : xtree) : option (list rawval) :=
  um_struct (Some (NS_DAV, local)) no_attr
    (fun acc k => if kid_local k "prop" then um_raws "prop" (d + 1) acc k else Some acc)
    no_text d acc t.

Record propupdateW := { pu_remove : list (list rawval); pu_set : list (list rawval) }.
Definition propupdate_zero := {| pu_remove := []; pu_set := [] |}.

Definition um_propupdate (d : N) (acc : propupdateW) (t : xtree) : option propupdateW :=
  um_struct (Some (NS_DAV, "propertyupdate")) no_attr
    (fun acc k =>
       if kid_local k "remove" then
         match into_slice (um_remset "remove") [] d (pu_remove acc) k with
         | Some v => Some {| pu_remove := v; pu_set := pu_set acc |} | None => None end
       else if kid_local k "set" then
         match into_slice (um_remset "set") [] d (pu_set acc) k with
         | Some v => Some {| pu_remove := pu_remove acc; pu_set := v |} | None => None end
       else Some acc)
    no_text d acc t.

(** mkcolReq: fields with the paths set>prop>resourcetype, set>prop>displayname
    (and, for CardDAV, set>prop>addressbook-description).  Path elements and
    fields match on local names; the XMLName of the field's struct type is checked
    afterwards; unmarshalPath does not add depth. *)
Record mkcolW := { mk_rtype : list rawval; mk_name : string; mk_desc : string }.
Definition mkcol_zero := {| mk_rtype := []; mk_name := ""; mk_desc := "" |}.

(** a string field: depth check, the element's direct character data *)
Definition um_string (d : N) (t : xtree) : option string :=
  match t with XElem _ _ _ kids => chk d (Some (chardata kids)) | _ => None end.

(** struct { XMLName `<carddav> addressbook-description`; Description string `,chardata` } *)
Definition um_description (d : N) (acc : string) (t : xtree) : option string :=
  um_struct (Some (NS_CARD, "addressbook-description")) no_attr (fun acc _ => Some acc)
    (fun _ s => s) d acc t.

Definition mkcol_leaf (card : bool) (d : N) (acc : mkcolW) (k : xtree) : option mkcolW :=
  if kid_local k "resourcetype" then
    match um_raws "resourcetype" (d + 1) (mk_rtype acc) k with
    | Some v => Some {| mk_rtype := v; mk_name := mk_name acc; mk_desc := mk_desc acc |} | None => None end
  else if kid_local k "displayname" then
    match um_string (d + 1) k with
    | Some v => Some {| mk_rtype := mk_rtype acc; mk_name := v; mk_desc := mk_desc acc |} | None => None end
  else if card && kid_local k "addressbook-description" then
    match um_description (d + 1) (mk_desc acc) k with
    | Some v => Some {| mk_rtype := mk_rtype acc; mk_name := mk_name acc; mk_desc := v |} | None => None end
  else Some acc.

Definition mkcol_in (local : string) (inner : mkcolW -> xtree -> option mkcolW) (acc : mkcolW) (k : xtree) : option mkcolW :=
  match k with
  | XElem _ l _ kids => if String.eqb l local then fold_opt inner kids acc else Some acc
  | _ => Some acc
  end.

Definition um_mkcol (card : bool) (d : N) (acc : mkcolW) (t : xtree) : option mkcolW :=
  um_struct (Some (NS_DAV, "mkcol")) no_attr
    (mkcol_in "set" (mkcol_in "prop" (mkcol_leaf card d)))
    no_text d acc t.

(* ------------------------------------------------------------------ *)
(** * CalDAV wire structures (caldav/elements.go)                      *)

Record timeRangeW := { tr_start : option string; tr_end : option string }.
Definition time_range_zero := {| tr_start := None; tr_end := None |}.

Definition um_time_range (d : N) (acc : timeRangeW) (t : xtree) : option timeRangeW :=
  um_struct (Some (NS_CAL, "time-range"))
    (fun acc a =>
       if String.eqb (a_local a) "start" then
         if parse_utc_ok (a_val a) then Some {| tr_start := Some (a_val a); tr_end := tr_end acc |} else None
       else if String.eqb (a_local a) "end" then
         if parse_utc_ok (a_val a) then Some {| tr_start := tr_start acc; tr_end := Some (a_val a) |} else None
       else Some acc)
    (fun acc _ => Some acc) no_text d acc t.

Record textMatchW := { tm_text : string; tm_collation : string; tm_negate : bool; tm_type : string }.
Definition text_match_zero := {| tm_text := ""; tm_collation := ""; tm_negate := false; tm_type := "" |}.

(** shared by CalDAV and CardDAV ([card] adds the match-type attribute) *)
Definition um_text_match (card : bool) (ns : string) (d : N) (acc : textMatchW) (t : xtree) : option textMatchW :=
  um_struct (Some (ns, "text-match"))
    (fun acc a =>
       if String.eqb (a_local a) "collation" then
         Some {| tm_text := tm_text acc; tm_collation := a_val a; tm_negate := tm_negate acc; tm_type := tm_type acc |}
       else if String.eqb (a_local a) "negate-condition" then
         match parse_yes_no (a_val a) with
         | Some v => Some {| tm_text := tm_text acc; tm_collation := tm_collation acc; tm_negate := v; tm_type := tm_type acc |}
         | None => None end
       else if card && String.eqb (a_local a) "match-type" then
         if match_type_ok (a_val a)
         then Some {| tm_text := tm_text acc; tm_collation := tm_collation acc; tm_negate := tm_negate acc; tm_type := a_val a |}
         else None
       else Some acc)
    (fun acc _ => Some acc)
    (fun acc s => {| tm_text := s; tm_collation := tm_collation acc; tm_negate := tm_negate acc; tm_type := tm_type acc |})
    d acc t.

Record paramFilterW := { paf_name : string; paf_ind : bool; paf_tm : option textMatchW }.
Definition param_filter_zero := {| paf_name := ""; paf_ind := false; paf_tm := None |}.

Definition um_param_filter (card : bool) (ns : string) (d : N) (acc : paramFilterW) (t : xtree) : option paramFilterW :=
  um_struct (Some (ns, "param-filter"))
    (fun acc a => if String.eqb (a_local a) "name"
                  then Some {| paf_name := a_val a; paf_ind := paf_ind acc; paf_tm := paf_tm acc |} else Some acc)
    (fun acc k =>
       if kid_local k "is-not-defined" then
         match into_flag d with
         | Some v => Some {| paf_name := paf_name acc; paf_ind := v; paf_tm := paf_tm acc |} | None => None end
       else if kid_local k "text-match" then
         match into_ptr (um_text_match card ns) text_match_zero d (paf_tm acc) k with
         | Some v => Some {| paf_name := paf_name acc; paf_ind := paf_ind acc; paf_tm := v |} | None => None end
       else Some acc)
    no_text d acc t.

Record cpropFilterW := { cpf_name : string; cpf_ind : bool; cpf_tr : option timeRangeW;
                         cpf_tm : option textMatchW; cpf_params : list paramFilterW }.
Definition cprop_filter_zero := {| cpf_name := ""; cpf_ind := false; cpf_tr := None; cpf_tm := None; cpf_params := [] |}.

Definition um_cprop_filter (d : N) (acc : cpropFilterW) (t : xtree) : option cpropFilterW :=
  um_struct (Some (NS_CAL, "prop-filter"))
    (fun acc a => if String.eqb (a_local a) "name"
                  then Some {| cpf_name := a_val a; cpf_ind := cpf_ind acc; cpf_tr := cpf_tr acc; cpf_tm := cpf_tm acc; cpf_params := cpf_params acc |}
                  else Some acc)
    (fun acc k =>
       if kid_local k "is-not-defined" then
         match into_flag d with
         | Some v => Some {| cpf_name := cpf_name acc; cpf_ind := v; cpf_tr := cpf_tr acc; cpf_tm := cpf_tm acc; cpf_params := cpf_params acc |}
         | None => None end
       else if kid_local k "time-range" then
         match into_ptr um_time_range time_range_zero d (cpf_tr acc) k with
         | Some v => Some {| cpf_name := cpf_name acc; cpf_ind := cpf_ind acc; cpf_tr := v; cpf_tm := cpf_tm acc; cpf_params := cpf_params acc |}
         | None => None end
       else if kid_local k "text-match" then
         match into_ptr (um_text_match false NS_CAL) text_match_zero d (cpf_tm acc) k with
         | Some v => Some {| cpf_name := cpf_name acc; cpf_ind := cpf_ind acc; cpf_tr := cpf_tr acc; cpf_tm := v; cpf_params := cpf_params acc |}
         | None => None end
       else if kid_local k "param-filter" then
         match into_slice (um_param_filter false NS_CAL) param_filter_zero d (cpf_params acc) k with
         | Some v => Some {| cpf_name := cpf_name acc; cpf_ind := cpf_ind acc; cpf_tr := cpf_tr acc; cpf_tm := cpf_tm acc; cpf_params := v |}
         | None => None end
       else Some acc)
    no_text d acc t.

Inductive compFilterW :=
  CompFilterW (name : string) (ind : bool) (tr : option timeRangeW) (pfs : list cpropFilterW) (cfs : list compFilterW).
Definition comp_filter_zero := CompFilterW "" false None [] [].

Fixpoint um_comp_filter (d : N) (acc : compFilterW) (t : xtree) {struct t} : option compFilterW :=
  um_struct (Some (NS_CAL, "comp-filter"))
    (fun acc a => match acc with CompFilterW n i tr pfs cfs =>
                    if String.eqb (a_local a) "name" then Some (CompFilterW (a_val a) i tr pfs cfs) else Some acc end)
    (fun acc k =>
       match acc with CompFilterW n i tr pfs cfs =>
       if kid_local k "is-not-defined" then
         match into_flag d with Some v => Some (CompFilterW n v tr pfs cfs) | None => None end
       else if kid_local k "time-range" then
         match into_ptr um_time_range time_range_zero d tr k with
         | Some v => Some (CompFilterW n i v pfs cfs) | None => None end
       else if kid_local k "prop-filter" then
         match into_slice um_cprop_filter cprop_filter_zero d pfs k with
         | Some v => Some (CompFilterW n i tr v cfs) | None => None end
       else if kid_local k "comp-filter" then
         chk (d + 1) (match um_comp_filter (d + 2) comp_filter_zero k with
                      | Some x => Some (CompFilterW n i tr pfs (cfs ++ [x])%list) | None => None end)
       else Some acc end)
    no_text d acc t.

(** filter: struct { XMLName `caldav filter`; CompFilter compFilter `comp-filter` } *)
Definition um_cal_filter (d : N) (acc : compFilterW) (t : xtree) : option compFilterW :=
  um_struct (Some (NS_CAL, "filter")) no_attr
    (fun acc k => if kid_local k "comp-filter" then um_comp_filter (d + 1) acc k else Some acc)
    no_text d acc t.

(** calendar-data request: comp (recursive), prop, expand *)
Definition um_named (ns local : string) (d : N) (acc : string) (t : xtree) : option string :=
  um_struct (Some (ns, local))
    (fun acc a => if String.eqb (a_local a) "name" then Some (a_val a) else Some acc)
    (fun acc _ => Some acc) no_text d acc t.

Inductive compW := CompW (name : string) (allprop : bool) (props : list string) (allcomp : bool) (comps : list compW).
Definition comp_zero := CompW "" false [] false [].

Fixpoint um_comp (d : N) (acc : compW) (t : xtree) {struct t} : option compW :=
  um_struct (Some (NS_CAL, "comp"))
    (fun acc a => match acc with CompW n ap ps ac cs =>
                    if String.eqb (a_local a) "name" then Some (CompW (a_val a) ap ps ac cs) else Some acc end)
    (fun acc k =>
       match acc with CompW n ap ps ac cs =>
       if kid_local k "allprop" then
         match into_flag d with Some v => Some (CompW n v ps ac cs) | None => None end
       else if kid_local k "prop" then
         match into_slice (um_named NS_CAL "prop") "" d ps k with
         | Some v => Some (CompW n ap v ac cs) | None => None end
       else if kid_local k "allcomp" then
         match into_flag d with Some v => Some (CompW n ap ps v cs) | None => None end
       else if kid_local k "comp" then
         chk (d + 1) (match um_comp (d + 2) comp_zero k with
                      | Some x => Some (CompW n ap ps ac (cs ++ [x])%list) | None => None end)
       else Some acc end)
    no_text d acc t.

(** expand: struct { Start, End dateWithUTCTime `start,attr` / `end,attr` } (values) *)
Definition um_expand (d : N) (acc : timeRangeW) (t : xtree) : option timeRangeW :=
  um_struct (Some (NS_CAL, "expand"))
    (fun acc a =>
       if String.eqb (a_local a) "start" then
         if parse_utc_ok (a_val a) then Some {| tr_start := Some (a_val a); tr_end := tr_end acc |} else None
       else if String.eqb (a_local a) "end" then
         if parse_utc_ok (a_val a) then Some {| tr_start := tr_start acc; tr_end := Some (a_val a) |} else None
       else Some acc)
    (fun acc _ => Some acc) no_text d acc t.

Record calDataW := { cd_comp : option compW; cd_expand : option timeRangeW }.
Definition cal_data_zero := {| cd_comp := None; cd_expand := None |}.

Definition um_cal_data (d : N) (acc : calDataW) (t : xtree) : option calDataW :=
  um_struct (Some (NS_CAL, "calendar-data")) no_attr
    (fun acc k =>
       if kid_local k "comp" then
         match into_ptr um_comp comp_zero d (cd_comp acc) k with
         | Some v => Some {| cd_comp := v; cd_expand := cd_expand acc |} | None => None end
       else if kid_local k "expand" then
         match into_ptr um_expand time_range_zero d (cd_expand acc) k with
         | Some v => Some {| cd_comp := cd_comp acc; cd_expand := v |} | None => None end
       else Some acc)
    no_text d acc t.

(** the three selectors that queries, multigets and PROPFIND share *)
Record selW := { s_prop : option (list rawval); s_allprop : bool; s_propname : bool }.
Definition sel_zero := {| s_prop := None; s_allprop := false; s_propname := false |}.

Definition um_sel (d : N) (acc : selW) (k : xtree) : option (option selW) :=
  if kid_is k NS_DAV "prop" then
    match into_ptr (um_raws "prop") [] d (s_prop acc) k with
    | Some v => Some (Some {| s_prop := v; s_allprop := s_allprop acc; s_propname := s_propname acc |}) | None => None end
  else if kid_is k NS_DAV "allprop" then
    match into_flag d with
    | Some v => Some (Some {| s_prop := s_prop acc; s_allprop := v; s_propname := s_propname acc |}) | None => None end
  else if kid_is k NS_DAV "propname" then
    match into_flag d with
    | Some v => Some (Some {| s_prop := s_prop acc; s_allprop := s_allprop acc; s_propname := v |}) | None => None end
  else Some None.

Record calQueryW := { cq_sel : selW; cq_filter : compFilterW }.
Definition cal_query_zero := {| cq_sel := sel_zero; cq_filter := comp_filter_zero |}.

Definition um_cal_query (d : N) (acc : calQueryW) (t : xtree) : option calQueryW :=
  um_struct (Some (NS_CAL, "calendar-query")) no_attr
    (fun acc k =>
       match um_sel d (cq_sel acc) k with
       | None => None
       | Some (Some s) => Some {| cq_sel := s; cq_filter := cq_filter acc |}
       | Some None =>
         if kid_local k "filter" then
           match um_cal_filter (d + 1) (cq_filter acc) k with
           | Some f => Some {| cq_sel := cq_sel acc; cq_filter := f |} | None => None end
         else Some acc
       end)
    no_text d acc t.

(** Href: a TextUnmarshaler element; url.Parse is an input ([url_ok]). *)
Definition um_href (url_ok : string -> bool) (d : N) (_ : string) (t : xtree) : option string :=
  match t with
  | XElem _ _ _ kids => chk d (if url_ok (chardata kids) then Some (chardata kids) else None)
  | _ => None
  end.

Record multigetW := { mg_sel : selW; mg_hrefs : list string }.
Definition multiget_zero := {| mg_sel := sel_zero; mg_hrefs := [] |}.

Definition um_multiget (ns local : string) (url_ok : string -> bool) (d : N) (acc : multigetW) (t : xtree) : option multigetW :=
  um_struct (Some (ns, local)) no_attr
    (fun acc k =>
       match um_sel d (mg_sel acc) k with
       | None => None
       | Some (Some s) => Some {| mg_sel := s; mg_hrefs := mg_hrefs acc |}
       | Some None =>
         if kid_is k NS_DAV "href" then
           match into_slice (um_href url_ok) "" d (mg_hrefs acc) k with
           | Some v => Some {| mg_sel := mg_sel acc; mg_hrefs := v |} | None => None end
         else Some acc
       end)
    no_text d acc t.

Inductive calReportW := CalQuery (q : calQueryW) | CalMultiget (m : multigetW).

(** unqualifiedAttrReader: the CalDAV report is decoded from a token stream in
    which every attribute that has a namespace (declarations included) is left out *)
Fixpoint drop_qualified (t : xtree) : xtree :=
  match t with
  | XElem ns l attrs kids => XElem ns l (filter (fun a => str_empty (a_ns a)) attrs) (map drop_qualified kids)
  | _ => t
  end.

(** reportReq.UnmarshalXML: dispatch on the root name, then a fresh Decode (depth 0
    again) over the filtered tokens *)
Definition um_cal_report (url_ok : string -> bool) (d : N) (t : xtree) : option calReportW :=
  chk d (if kid_is t NS_CAL "calendar-query" then
           match um_cal_query 0 cal_query_zero (drop_qualified t) with Some q => Some (CalQuery q) | None => None end
         else if kid_is t NS_CAL "calendar-multiget" then
           match um_multiget NS_CAL "calendar-multiget" url_ok 0 multiget_zero (drop_qualified t) with Some m => Some (CalMultiget m) | None => None end
         else None).

(* ------------------------------------------------------------------ *)
(** * CardDAV wire structures (carddav/elements.go)                    *)

Record apropFilterW := { apf_name : string; apf_test : string; apf_ind : bool;
                         apf_tms : list textMatchW; apf_params : list paramFilterW }.
Definition aprop_filter_zero := {| apf_name := ""; apf_test := ""; apf_ind := false; apf_tms := []; apf_params := [] |}.

Definition um_aprop_filter (d : N) (acc : apropFilterW) (t : xtree) : option apropFilterW :=
  um_struct (Some (NS_CARD, "prop-filter"))
    (fun acc a =>
       if String.eqb (a_local a) "name" then
         Some {| apf_name := a_val a; apf_test := apf_test acc; apf_ind := apf_ind acc; apf_tms := apf_tms acc; apf_params := apf_params acc |}
       else if String.eqb (a_local a) "test" then
         if filter_test_ok (a_val a)
         then Some {| apf_name := apf_name acc; apf_test := a_val a; apf_ind := apf_ind acc; apf_tms := apf_tms acc; apf_params := apf_params acc |}
         else None
       else Some acc)
    (fun acc k =>
       if kid_local k "is-not-defined" then
         match into_flag d with
         | Some v => Some {| apf_name := apf_name acc; apf_test := apf_test acc; apf_ind := v; apf_tms := apf_tms acc; apf_params := apf_params acc |}
         | None => None end
       else if kid_local k "text-match" then
         match into_slice (um_text_match true NS_CARD) text_match_zero d (apf_tms acc) k with
         | Some v => Some {| apf_name := apf_name acc; apf_test := apf_test acc; apf_ind := apf_ind acc; apf_tms := v; apf_params := apf_params acc |}
         | None => None end
       else if kid_local k "param-filter" then
         match into_slice (um_param_filter true NS_CARD) param_filter_zero d (apf_params acc) k with
         | Some v => Some {| apf_name := apf_name acc; apf_test := apf_test acc; apf_ind := apf_ind acc; apf_tms := apf_tms acc; apf_params := v |}
         | None => None end
       else Some acc)
    no_text d acc t.

Record cardFilterW := { af_test : string; af_props : list apropFilterW }.
Definition card_filter_zero := {| af_test := ""; af_props := [] |}.

Definition um_card_filter (d : N) (acc : cardFilterW) (t : xtree) : option cardFilterW :=
  um_struct (Some (NS_CARD, "filter"))
    (fun acc a =>
       if String.eqb (a_local a) "test" then
         if filter_test_ok (a_val a) then Some {| af_test := a_val a; af_props := af_props acc |} else None
       else Some acc)
    (fun acc k =>
       if kid_local k "prop-filter" then
         match into_slice um_aprop_filter aprop_filter_zero d (af_props acc) k with
         | Some v => Some {| af_test := af_test acc; af_props := v |} | None => None end
       else Some acc)
    no_text d acc t.

(** a uint element field: the element's direct character data through copyValue *)
Definition um_uint (d : N) (t : xtree) : option N :=
  match t with XElem _ _ _ kids => chk d (parse_uint (chardata kids)) | _ => None end.

(** limit: struct { XMLName `carddav limit`; NResults uint `nresults` } *)
Definition um_limit (d : N) (acc : N) (t : xtree) : option N :=
  um_struct (Some (NS_CARD, "limit")) no_attr
    (fun acc k => if kid_local k "nresults" then um_uint (d + 1) k else Some acc)
    no_text d acc t.

Record cardQueryW := { aq_sel : selW; aq_filter : cardFilterW; aq_limit : option N }.
Definition card_query_zero := {| aq_sel := sel_zero; aq_filter := card_filter_zero; aq_limit := None |}.

Definition um_card_query (d : N) (acc : cardQueryW) (t : xtree) : option cardQueryW :=
  um_struct (Some (NS_CARD, "addressbook-query")) no_attr
    (fun acc k =>
       match um_sel d (aq_sel acc) k with
       | None => None
       | Some (Some s) => Some {| aq_sel := s; aq_filter := aq_filter acc; aq_limit := aq_limit acc |}
       | Some None =>
         if kid_local k "filter" then
           match um_card_filter (d + 1) (aq_filter acc) k with
           | Some f => Some {| aq_sel := aq_sel acc; aq_filter := f; aq_limit := aq_limit acc |} | None => None end
         else if kid_local k "limit" then
           match into_ptr um_limit 0 d (aq_limit acc) k with
           | Some l => Some {| aq_sel := aq_sel acc; aq_filter := aq_filter acc; aq_limit := l |} | None => None end
         else Some acc
       end)
    no_text d acc t.

Record addrDataW := { ad_props : list string; ad_allprop : bool }.
Definition addr_data_zero := {| ad_props := []; ad_allprop := false |}.

Definition um_addr_data (d : N) (acc : addrDataW) (t : xtree) : option addrDataW :=
  um_struct (Some (NS_CARD, "address-data")) no_attr
    (fun acc k =>
       if kid_local k "prop" then
         match into_slice (um_named NS_CARD "prop") "" d (ad_props acc) k with
         | Some v => Some {| ad_props := v; ad_allprop := ad_allprop acc |} | None => None end
       else if kid_local k "allprop" then
         match into_flag d with
         | Some v => Some {| ad_props := ad_props acc; ad_allprop := v |} | None => None end
       else Some acc)
    no_text d acc t.

Inductive cardReportW := CardQuery (q : cardQueryW) | CardMultiget (m : multigetW).

Definition um_card_report (url_ok : string -> bool) (d : N) (t : xtree) : option cardReportW :=
  chk d (if kid_is t NS_CARD "addressbook-query" then
           match um_card_query 0 card_query_zero (drop_qualified t) with Some q => Some (CardQuery q) | None => None end
         else if kid_is t NS_CARD "addressbook-multiget" then
           match um_multiget NS_CARD "addressbook-multiget" url_ok 0 multiget_zero (drop_qualified t) with Some m => Some (CardMultiget m) | None => None end
         else None).

(* ------------------------------------------------------------------ *)
(** * Requests, errors, outcomes                                       *)

Inductive xmlbody := XEmpty | XSyntax | XTree (t : xtree).
Inductive destv := DAbsent | DBad | DPath (p : string).

Record request := {
  r_method : string;
  r_path : string;                 (* r.URL.Path *)
  r_depth : string;                (* Header.Get("Depth") *)
  r_overwrite : string;
  r_dest : destv;                  (* Destination through url.Parse *)
  r_ctype_set : bool;              (* Header.Get("Content-Type") != "" *)
  r_media : string;                (* mime.ParseMediaType(Content-Type): type ... *)
  r_media_err : bool;              (* ... and whether it returned an error *)
  r_body_empty : bool;
  r_xml : xmlbody;                 (* the body through encoding/xml's tokenizer *)
  r_ical_ok : bool;                (* ical.NewDecoder(body).Decode() succeeded *)
  r_vcard_ok : bool;               (* vcard.NewDecoder(body).Decode() succeeded *)
  r_url_ok : string -> bool        (* url.Parse on the href texts of the body *)
}.

(** Go errors as far as the handlers look at them. *)
Inductive gerr :=
| EDirect (c : N)      (* *internal.HTTPError *)
| EWrapped (c : N)     (* an error wrapping one (errors.As finds it, a type assertion does not) *)
| EPlain               (* any other error *)
| EExist.              (* os.ErrExist *)

Definition err_code (e : gerr) : N :=
  match e with EDirect c | EWrapped c => c | _ => 500 end.
(** internal.IsNotFound (errors.As) *)
Definition is_not_found (e : gerr) : bool :=
  match e with EDirect c | EWrapped c => c =? 404 | _ => false end.
(** err.( *internal.HTTPError) with Code == 404 *)
Definition direct_404 (e : gerr) : bool :=
  match e with EDirect c => c =? 404 | _ => false end.
Definition is_exist (e : gerr) : bool := match e with EExist => true | _ => false end.

Inductive call := Call (name arg arg2 : string).

(** what a handler step gives back: a value, an error, or a panic — with the
    mutating backend calls made so far *)
Inductive hres (A : Type) :=
| HOk (a : A) (cs : list call)
| HErr (e : gerr) (cs : list call)
| HPanic.
Arguments HOk {A} a cs.
Arguments HErr {A} e cs.
Arguments HPanic {A}.

Definition hmap {A B} (f : A -> B) (h : hres A) : hres B :=
  match h with HOk a cs => HOk (f a) cs | HErr e cs => HErr e cs | HPanic => HPanic end.

(** results of read-only backend calls *)
Inductive bres (A : Type) := BOk (a : A) | BErr (e : gerr).
Arguments BOk {A} a.
Arguments BErr {A} e.

(** read-only sequences: ok, error, panic *)
Inductive rres := ROk | RErr (e : gerr) | RPanic.
Definition rthen (a b : rres) : rres := match a with ROk => b | _ => a end.
Definition rcheck {A} (r : bres A) : rres := match r with BOk _ => ROk | BErr e => RErr e end.
(** a pointer result that is dereferenced *)
Definition rderef {A} (r : bres (option A)) : rres :=
  match r with BOk (Some _) => ROk | BOk None => RPanic | BErr e => RErr e end.
Definition rres_h (r : rres) : hres unit :=
  match r with ROk => HOk tt [] | RErr e => HErr e [] | RPanic => HPanic end.

Inductive outcome := Resp (status : N) (calls : list call) | Panicked.

(** http.ResponseWriter.WriteHeader panics on a code outside 100..999. *)
Definition write_header (code : N) (cs : list call) : outcome :=
  if (code <? 100) || (999 <? code) then Panicked else Resp code cs.

(** the end of ServeHTTP: a status the handler wrote, or ServeError *)
Definition finish (h : hres N) : outcome :=
  match h with
  | HOk s cs => write_header s cs
  | HErr e cs => write_header (err_code e) cs
  | HPanic => Panicked
  end.

(* ------------------------------------------------------------------ *)
(** * internal/internal.go, internal/server.go                         *)

Inductive depthv := D0 | D1 | DInf.
Definition parse_depth (s : string) : option depthv :=
  if String.eqb s "0" then Some D0 else if String.eqb s "1" then Some D1
  else if String.eqb s "infinity" then Some DInf else None.
Definition parse_overwrite (s : string) : option bool :=
  if String.eqb s "T" then Some true else if String.eqb s "F" then Some false else None.
Definition depth_is0 (d : depthv) : bool := match d with D0 => true | _ => false end.
Definition depth_isinf (d : depthv) : bool := match d with DInf => true | _ => false end.

Definition bad_request {A} : hres A := HErr (EDirect 400) [].

(** isContentXML (the error of ParseMediaType is ignored) *)
Definition is_content_xml (r : request) : bool :=
  String.eqb (r_media r) "application/xml" || String.eqb (r_media r) "text/xml".

(** DecodeXMLRequest; every failure is a 400, [DxEOF] is the one that wraps io.EOF *)
Inductive dx (A : Type) := DxOk (a : A) | DxEOF | DxBad.
Arguments DxOk {A} a.
Arguments DxEOF {A}.
Arguments DxBad {A}.

Definition decode_xml_request {A} (r : request) (um : xtree -> option A) : dx A :=
  if negb (is_content_xml r) then DxBad
  else match r_xml r with
       | XEmpty => DxEOF
       | XSyntax => DxBad
       | XTree t => match um t with Some a => DxOk a | None => DxBad end
       end.

Definition sel_of_propfind (p : propfindW) : selW :=
  {| s_prop := pf_prop p; s_allprop := pf_allprop p; s_propname := pf_propname p |}.
Definition sel_allprop : selW := {| s_prop := None; s_allprop := true; s_propname := false |}.
Definition sel_empty (s : selW) : bool :=
  negb (s_propname s) && negb (s_allprop s) && match s_prop s with None => true | Some _ => false end.

(** DecodePropFindRequest *)
Definition decode_propfind_request (r : request) : option selW :=
  let decoded :=
    if is_content_xml r then
      match decode_xml_request r (um_propfind 0 propfind_zero) with
      | DxEOF => Some sel_allprop
      | DxBad => None
      | DxOk p => Some (sel_of_propfind p)
      end
    else if r_body_empty r then Some sel_allprop else None in
  match decoded with
  | Some s => if sel_empty s then None else Some s
  | None => None
  end.

(** NewPropFindResponse fails only without a selector (the property functions'
    errors become per-property statuses, EncodeProp does not fail). *)
Definition new_propfind_response (s : selW) : option unit :=
  if sel_empty s then None else Some tt.

Record backend := {
  bk_options : request -> hres unit;
  bk_headget : request -> hres N;
  bk_propfind : request -> selW -> depthv -> hres unit;
  bk_proppatch : request -> propupdateW -> hres unit;
  bk_put : request -> hres N;
  bk_delete : request -> hres unit;
  bk_mkcol : request -> hres unit;
  bk_copy : request -> string -> bool -> bool -> hres bool;
  bk_move : request -> string -> bool -> hres bool
}.

Definition handle_propfind (b : backend) (r : request) : hres N :=
  match decode_propfind_request r with
  | None => bad_request
  | Some s =>
    let depth := if str_empty (r_depth r) then Some DInf else parse_depth (r_depth r) in
    match depth with
    | None => bad_request
    | Some d => hmap (fun _ => 207) (bk_propfind b r s d)
    end
  end.

Definition handle_proppatch (b : backend) (r : request) : hres N :=
  match decode_xml_request r (um_propupdate 0 propupdate_zero) with
  | DxOk u => hmap (fun _ => 207) (bk_proppatch b r u)
  | _ => bad_request
  end.

Definition created_status (c : bool) : N := if c then 201 else 204.

Definition handle_copymove (b : backend) (r : request) : hres N :=
  match r_dest r with
  | DAbsent | DBad => bad_request
  | DPath dest =>
    let ow := if str_empty (r_overwrite r) then Some true else parse_overwrite (r_overwrite r) in
    match ow with
    | None => bad_request
    | Some overwrite =>
      let depth := if str_empty (r_depth r) then Some DInf else parse_depth (r_depth r) in
      match depth with
      | None => bad_request
      | Some d =>
        if String.eqb (r_method r) "COPY" then
          match d with
          | D1 => bad_request
          | _ => hmap created_status (bk_copy b r dest (depth_isinf d) overwrite)
          end
        else
          if depth_isinf d then hmap created_status (bk_move b r dest overwrite) else bad_request
      end
    end
  end.

(** internal.Handler.ServeHTTP up to ServeError *)
Definition internal_handle (b : backend) (r : request) : hres N :=
  let m := r_method r in
  if String.eqb m "OPTIONS" then hmap (fun _ => 204) (bk_options b r)
  else if String.eqb m "GET" || String.eqb m "HEAD" then bk_headget b r
  else if String.eqb m "PUT" then bk_put b r
  else if String.eqb m "DELETE" then hmap (fun _ => 204) (bk_delete b r)
  else if String.eqb m "PROPFIND" then handle_propfind b r
  else if String.eqb m "PROPPATCH" then handle_proppatch b r
  else if String.eqb m "MKCOL" then hmap (fun _ => 201) (bk_mkcol b r)
  else if String.eqb m "COPY" || String.eqb m "MOVE" then handle_copymove b r
  else HErr (EDirect 405) [].

(** resourceTypeAtPath (the same function in caldav and carddav) *)
Fixpoint count_slash (s : string) : N :=
  match s with
  | EmptyString => 0
  | String c r => (if Ascii.eqb c slash then 1 else 0) + count_slash r
  end.
Definition trim_prefix (s p : string) : string :=
  match strip_prefix_s p s with Some r => r | None => s end.
Definition trim_suffix_slash (s : string) : string :=
  match srev s "" with
  | String c r => if Ascii.eqb c slash then srev r "" else s
  | EmptyString => s
  end.
Definition resource_type (prefix path : string) : N :=
  let p := trim_prefix (clean path) prefix in
  let p := if is_abs p then p else "/" ++ p in
  if String.eqb p "/" then 0 else count_slash p.
Definition same_path (a c : string) : bool :=
  String.eqb (trim_suffix_slash a) (trim_suffix_slash c).

(* ------------------------------------------------------------------ *)
(** * server.go: the WebDAV handler over a FileSystem, ServePrincipal  *)

Record fileinfo := { fi_isdir : bool }.

(** The FileSystem the handler is given: what each method answers.  A [None]
    inside [BOk] is a nil pointer returned without an error. *)
Record fs_env := {
  fe_has_fs : bool;
  fe_stat : bres (option fileinfo);
  fe_open : option gerr;                       (* a plain io.ReadCloser, or an error *)
  fe_readdir : bres (list fileinfo);
  fe_create : bres (option fileinfo * bool);
  fe_removeall : option gerr;
  fe_mkdir : option gerr;
  fe_copy : bres bool;
  fe_move : bres bool
}.

Definition of_err (e : option gerr) (cs : list call) : hres unit :=
  match e with None => HOk tt cs | Some e => HErr e cs end.

Definition dav_options (env : fs_env) (r : request) : hres unit :=
  match fe_stat env with
  | BErr e => if is_not_found e then HOk tt [] else HErr e []
  | BOk None => HPanic
  | BOk (Some _) => HOk tt []
  end.

Definition dav_headget (env : fs_env) (r : request) : hres N :=
  match fe_stat env with
  | BErr e => HErr e []
  | BOk None => HPanic
  | BOk (Some fi) =>
    if fi_isdir fi then HErr (EDirect 405) []
    else match fe_open env with
         | Some e => HErr e []
         | None => HOk 200 []
         end
  end.

Definition dav_propfind (env : fs_env) (r : request) (s : selW) (d : depthv) : hres unit :=
  match fe_stat env with
  | BErr e => HErr e []
  | BOk None => HPanic
  | BOk (Some fi) =>
    if negb (depth_is0 d) && fi_isdir fi then
      match fe_readdir env with
      | BErr e => HErr e []
      | BOk _ => HOk tt []
      end
    else HOk tt []
  end.

Definition dav_put (env : fs_env) (r : request) : hres N :=
  let cs := [Call "Create" (r_path r) ""] in
  match fe_create env with
  | BErr e => HErr e cs
  | BOk (None, _) => HPanic
  | BOk (Some _, created) => HOk (created_status created) cs
  end.

Definition dav_delete (env : fs_env) (r : request) : hres unit :=
  of_err (fe_removeall env) [Call "RemoveAll" (r_path r) ""].

Definition dav_mkcol (env : fs_env) (r : request) : hres unit :=
  if r_ctype_set r then HErr (EDirect 415) []
  else let cs := [Call "Mkdir" (r_path r) ""] in
       match fe_mkdir env with
       | None => HOk tt cs
       | Some e => if is_not_found e then HErr (EDirect 409) cs else HErr e cs
       end.

Definition dav_copymove (name : string) (res : bres bool) (r : request) (dest : string) : hres bool :=
  let cs := [Call name (r_path r) dest] in
  match res with
  | BOk c => HOk c cs
  | BErr e => if is_exist e then HErr (EDirect 412) cs else HErr e cs
  end.

Definition dav_backend (env : fs_env) : backend := {|
  bk_options := dav_options env;
  bk_headget := dav_headget env;
  bk_propfind := dav_propfind env;
  bk_proppatch := fun _ _ => HErr (EDirect 403) [];
  bk_put := dav_put env;
  bk_delete := dav_delete env;
  bk_mkcol := dav_mkcol env;
  bk_copy := fun r dest _ _ => dav_copymove "Copy" (fe_copy env) r dest;
  bk_move := fun r dest _ => dav_copymove "Move" (fe_move env) r dest
|}.

(** webdav.Handler.ServeHTTP *)
Definition serve_dav (env : fs_env) (r : request) : outcome :=
  if negb (fe_has_fs env) then Resp 500 []
  else finish (internal_handle (dav_backend env) r).

(** ServePrincipal; [true] = the options pointer is nil *)
Definition serve_principal (opts_nil : bool) (r : request) : outcome :=
  let m := r_method r in
  if String.eqb m "OPTIONS" then (if opts_nil then Panicked else Resp 204 [])
  else if String.eqb m "PROPFIND" then
    match decode_propfind_request r with
    | None => finish bad_request
    | Some s => if negb (str_empty (r_depth r)) && negb (is_some (parse_depth (r_depth r))) then finish bad_request
                else if opts_nil then Panicked
                else match new_propfind_response s with
                     | Some _ => Resp 207 []
                     | None => finish bad_request
                     end
    end
  else Resp 405 [].

(* ------------------------------------------------------------------ *)
(** * caldav/server.go                                                 *)

Definition nonempty {A} (l : list A) : bool := match l with [] => false | _ => true end.

(** decodeParamFilter, decodePropFilter, decodeCompFilter: [true] = decoded,
    [false] = the 400 error (the value built is the business of C08) *)
Definition decode_param_filter (el : paramFilterW) : bool :=
  negb (paf_ind el && is_some (paf_tm el)).

Definition decode_cprop_filter (el : cpropFilterW) : bool :=
  if cpf_ind el && (is_some (cpf_tm el) || is_some (cpf_tr el) || nonempty (cpf_params el)) then false
  else forallb decode_param_filter (cpf_params el).

Fixpoint decode_comp_filter (el : compFilterW) : bool :=
  match el with
  | CompFilterW _ ind tr pfs cfs =>
    if ind && (is_some tr || nonempty pfs || nonempty cfs) then false
    else forallb decode_cprop_filter pfs && forallb decode_comp_filter cfs
  end.

(** decodeComp *)
Fixpoint decode_comp (c : compW) : bool :=
  match c with
  | CompW _ allprop props allcomp comps =>
    if allprop && nonempty props then false
    else if allcomp && nonempty comps then false
    else forallb decode_comp comps
  end.

(** decodeCalendarDataReq *)
Definition decode_cal_data_req (cd : calDataW) : bool :=
  match cd_comp cd with Some c => decode_comp c | None => true end.

(** the calendar-data part shared by handleQuery and handleMultiget:
    Prop.Decode(&calendarData) — missing is fine, a decoding error is a 400 —
    then decodeCalendarDataReq.  [Ok true] = go on, [Ok false] = 400. *)
Definition cal_data_of_prop (s : selW) : res bool :=
  match s_prop s with
  | None => Ok true
  | Some raws =>
    match prop_get raws NS_CAL "calendar-data" with
    | None => Ok (decode_cal_data_req cal_data_zero)
    | Some raw =>
      do t <- raw_token_reader raw;
      match um_cal_data 0 cal_data_zero t with
      | None => Ok false
      | Some cd => Ok (decode_cal_data_req cd)
      end
    end
  end.

Inductive encres := EncOk | EncFailEarly | EncFailLate.
Record dav_obj := { o_path : string; o_enc : encres }.

Record cal_env := {
  ce_has_backend : bool;
  ce_prefix : string;
  ce_principal : bres string;
  ce_homeset : bres string;
  ce_list_cals : bres (list string);
  ce_get_cal : bres (option string);
  ce_get_obj : bres (option dav_obj);
  ce_list_objs : bres (list dav_obj);
  ce_query : bres (list dav_obj);
  ce_put : bres (option dav_obj);
  ce_delete : option gerr;
  ce_create : option gerr
}.

Definition cal_prefix (env : cal_env) : string := trim_suffix_slash (ce_prefix env).

(** propFindCalendarObject etc. on a list of values: NewPropFindResponse once per element *)
Definition each_response {A} (s : selW) (l : list A) : hres unit :=
  if nonempty l then match new_propfind_response s with Some _ => HOk tt [] | None => bad_request end
  else HOk tt [].

Definition cal_handle_query (env : cal_env) (r : request) (q : calQueryW) : hres N :=
  match cal_data_of_prop (cq_sel q) with
  | Panic => HPanic
  | Err _ => HPanic
  | Ok false => bad_request
  | Ok true =>
    if negb (decode_comp_filter (cq_filter q)) then bad_request
    else match ce_query env with
         | BErr e => HErr e []
         | BOk objs => hmap (fun _ => 207) (each_response (cq_sel q) objs)
         end
  end.

(** the loop over the hrefs of a multiget: an error of the lookup is a response of
    its own, a nil object is dereferenced, an object needs a selector *)
Definition multiget_loop {A} (get : bres (option A)) (s : selW) (hrefs : list string) : hres N :=
  if nonempty hrefs then
    match get with
    | BErr _ => HOk 207 []
    | BOk None => HPanic
    | BOk (Some _) => match new_propfind_response s with Some _ => HOk 207 [] | None => bad_request end
    end
  else HOk 207 [].

Definition cal_handle_multiget (env : cal_env) (m : multigetW) : hres N :=
  match cal_data_of_prop (mg_sel m) with
  | Panic => HPanic
  | Err _ => HPanic
  | Ok false => bad_request
  | Ok true => multiget_loop (ce_get_obj env) (mg_sel m) (mg_hrefs m)
  end.

Definition cal_handle_report (env : cal_env) (r : request) : hres N :=
  match decode_xml_request r (um_cal_report (r_url_ok r) 0) with
  | DxOk (CalQuery q) => cal_handle_query env r q
  | DxOk (CalMultiget m) => cal_handle_multiget env m
  | _ => bad_request
  end.

Definition cal_options (env : cal_env) (r : request) : hres unit :=
  if negb (resource_type (cal_prefix env) (r_path r) =? 4) then HOk tt []
  else match ce_get_obj env with
       | BErr e => if direct_404 e then HOk tt [] else HErr e []
       | BOk _ => HOk tt []
       end.

(** GET writes the body with the object's encoder: a failure before the first
    byte is a 500, a later one comes after the implicit 200 *)
Definition obj_headget (get : bres (option dav_obj)) (r : request) : hres N :=
  match get with
  | BErr e => HErr e []
  | BOk None => HPanic
  | BOk (Some o) =>
    if String.eqb (r_method r) "HEAD" then HOk 200 []
    else match o_enc o with EncFailEarly => HErr EPlain [] | _ => HOk 200 [] end
  end.

Definition cal_pf_user_principal (env : cal_env) : rres :=
  rthen (rcheck (ce_principal env)) (rcheck (ce_homeset env)).
Definition cal_pf_homeset (env : cal_env) : rres :=
  rthen (rcheck (ce_principal env)) (rcheck (ce_homeset env)).
Definition cal_pf_all_objects (env : cal_env) : rres := rcheck (ce_list_objs env).
Definition cal_pf_all_calendars (env : cal_env) (recurse : bool) : rres :=
  match ce_list_cals env with
  | BErr e => RErr e
  | BOk cals => if nonempty cals && recurse then cal_pf_all_objects env else ROk
  end.

Definition cal_propfind (env : cal_env) (r : request) (s : selW) (d : depthv) : hres unit :=
  let ty := resource_type (cal_prefix env) (r_path r) in
  rres_h (
  if ty =? 0 then rcheck (ce_principal env)
  else if ty =? 1 then
    match ce_principal env with
    | BErr e => RErr e
    | BOk p =>
      if same_path (r_path r) p then
        rthen (cal_pf_user_principal env)
          (if negb (depth_is0 d) then
             rthen (cal_pf_homeset env)
               (if depth_isinf d then cal_pf_all_calendars env true else ROk)
           else ROk)
      else ROk
    end
  else if ty =? 2 then
    match ce_homeset env with
    | BErr e => RErr e
    | BOk hp =>
      if same_path (r_path r) hp then
        rthen (cal_pf_homeset env)
          (if negb (depth_is0 d) then cal_pf_all_calendars env (depth_isinf d) else ROk)
      else ROk
    end
  else if ty =? 3 then
    rthen (rderef (ce_get_cal env)) (if negb (depth_is0 d) then cal_pf_all_objects env else ROk)
  else if ty =? 4 then rderef (ce_get_obj env)
  else ROk).

Definition obj_put (name mime : string) (body_ok : bool) (put : bres (option dav_obj)) (r : request) : hres N :=
  if r_media_err r then bad_request
  else if negb (String.eqb (r_media r) mime) then bad_request
  else if negb body_ok then bad_request
  else let cs := [Call name (r_path r) ""] in
       match put with
       | BErr e => HErr e cs
       | BOk None => HPanic
       | BOk (Some _) => HOk 201 cs
       end.

Definition cal_mkcol (env : cal_env) (r : request) : hres unit :=
  if negb (resource_type (cal_prefix env) (r_path r) =? 3) then HErr (EDirect 403) []
  else
    let create := of_err (ce_create env) [Call "CreateCalendar" (r_path r) ""] in
    if r_body_empty r then create
    else match decode_xml_request r (um_mkcol false 0 mkcol_zero) with
         | DxOk m =>
           if raws_have (mk_rtype m) NS_DAV "collection" && raws_have (mk_rtype m) NS_CAL "calendar"
           then create else bad_request
         | _ => bad_request
         end.

Definition cal_backend (env : cal_env) : backend := {|
  bk_options := cal_options env;
  bk_headget := obj_headget (ce_get_obj env);
  bk_propfind := cal_propfind env;
  bk_proppatch := fun _ _ => HErr (EDirect 501) [];
  bk_put := fun r => obj_put "PutCalendarObject" "text/calendar" (r_ical_ok r) (ce_put env) r;
  bk_delete := fun r => of_err (ce_delete env) [Call "DeleteCalendarObject" (r_path r) ""];
  bk_mkcol := cal_mkcol env;
  bk_copy := fun _ _ _ _ => HErr (EDirect 501) [];
  bk_move := fun _ _ _ => HErr (EDirect 501) []
|}.

(** the /.well-known redirect shared by both handlers *)
Definition well_known (principal : bres string) : outcome :=
  match principal with BErr _ => Resp 500 [] | BOk _ => Resp 308 [] end.

(** caldav.Handler.ServeHTTP *)
Definition serve_caldav (env : cal_env) (r : request) : outcome :=
  if negb (ce_has_backend env) then Resp 500 []
  else if String.eqb (r_path r) "/.well-known/caldav" then well_known (ce_principal env)
  else if String.eqb (r_method r) "REPORT" then finish (cal_handle_report env r)
  else finish (internal_handle (cal_backend env) r).

(* ------------------------------------------------------------------ *)
(** * carddav/server.go                                                *)

Definition decode_aprop_filter (el : apropFilterW) : bool :=
  if apf_ind el && (nonempty (apf_tms el) || nonempty (apf_params el)) then false
  else forallb decode_param_filter (apf_params el).

(** decodeAddressDataReq *)
Definition decode_addr_data_req (ad : addrDataW) : bool :=
  negb (ad_allprop ad && nonempty (ad_props ad)).

Inductive step3 := SGo | SBad | SPanic.   (* go on / 400 / panic *)

(** Prop.Decode(&addressData): missing is fine, a decoding error is a 400 *)
Definition addr_data_of_prop (s : selW) : step3 :=
  match s_prop s with
  | None => SGo
  | Some raws =>
    match prop_get raws NS_CARD "address-data" with
    | None => if decode_addr_data_req addr_data_zero then SGo else SBad
    | Some raw =>
      match raw_token_reader raw with
      | Ok t => match um_addr_data 0 addr_data_zero t with
                | None => SBad
                | Some ad => if decode_addr_data_req ad then SGo else SBad
                end
      | _ => SPanic
      end
    end
  end.

Record card_env := {
  ae_has_backend : bool;
  ae_prefix : string;
  ae_principal : bres string;
  ae_homeset : bres string;
  ae_list_books : bres (list string);
  ae_get_book : bres (option string);
  ae_get_obj : bres (option dav_obj);
  ae_list_objs : bres (list dav_obj);
  ae_query : bres (list dav_obj);
  ae_put : bres (option dav_obj);
  ae_delete_obj : option gerr;
  ae_delete_book : option gerr;
  ae_create : option gerr
}.

Definition card_prefix (env : card_env) : string := trim_suffix_slash (ae_prefix env).

(** int(uint) <= 0 *)
Definition limit_nonpositive (n : N) : bool := (n =? 0) || (9223372036854775808 <=? n).

Definition card_handle_query (env : card_env) (r : request) (q : cardQueryW) : hres N :=
  match addr_data_of_prop (aq_sel q) with
  | SPanic => HPanic
  | SBad => bad_request
  | SGo =>
    if negb (forallb decode_aprop_filter (af_props (aq_filter q))) then bad_request
    else if match aq_limit q with Some n => limit_nonpositive n | None => false end then HOk 207 []
    else match ae_query env with
         | BErr e => HErr e []
         | BOk objs => hmap (fun _ => 207) (each_response (aq_sel q) objs)
         end
  end.

Definition card_handle_multiget (env : card_env) (m : multigetW) : hres N :=
  match addr_data_of_prop (mg_sel m) with
  | SPanic => HPanic
  | SBad => bad_request
  | SGo => multiget_loop (ae_get_obj env) (mg_sel m) (mg_hrefs m)
  end.

Definition card_handle_report (env : card_env) (r : request) : hres N :=
  match decode_xml_request r (um_card_report (r_url_ok r) 0) with
  | DxOk (CardQuery q) => card_handle_query env r q
  | DxOk (CardMultiget m) => card_handle_multiget env m
  | _ => bad_request
  end.

Definition card_options (env : card_env) (r : request) : hres unit :=
  if negb (resource_type (card_prefix env) (r_path r) =? 4) then HOk tt []
  else match ae_get_obj env with
       | BErr e => if direct_404 e then HOk tt [] else HErr e []
       | BOk _ => HOk tt []
       end.

Definition card_pf_all_objects (env : card_env) : rres := rcheck (ae_list_objs env).
Definition card_pf_all_books (env : card_env) (recurse : bool) : rres :=
  match ae_list_books env with
  | BErr e => RErr e
  | BOk books => if nonempty books && recurse then card_pf_all_objects env else ROk
  end.

Definition card_propfind (env : card_env) (r : request) (s : selW) (d : depthv) : hres unit :=
  let ty := resource_type (card_prefix env) (r_path r) in
  rres_h (
  if ty =? 0 then rcheck (ae_principal env)
  else if ty =? 1 then
    match ae_principal env with
    | BErr e => RErr e
    | BOk p =>
      if same_path (r_path r) p then
        rthen (rcheck (ae_principal env))
          (if negb (depth_is0 d) then
             rthen (rcheck (ae_homeset env))
               (if depth_isinf d then card_pf_all_books env true else ROk)
           else ROk)
      else ROk
    end
  else if ty =? 2 then
    match ae_homeset env with
    | BErr e => RErr e
    | BOk hp =>
      if same_path (r_path r) hp then
        rthen (rcheck (ae_homeset env))
          (if negb (depth_is0 d) then card_pf_all_books env (depth_isinf d) else ROk)
      else ROk
    end
  else if ty =? 3 then
    rthen (rderef (ae_get_book env)) (if negb (depth_is0 d) then card_pf_all_objects env else ROk)
  else if ty =? 4 then rderef (ae_get_obj env)
  else ROk).

Definition card_proppatch (env : card_env) (r : request) (u : propupdateW) : hres unit :=
  rres_h (rcheck (ae_homeset env)).

Definition card_delete (env : card_env) (r : request) : hres unit :=
  let ty := resource_type (card_prefix env) (r_path r) in
  if ty =? 3 then of_err (ae_delete_book env) [Call "DeleteAddressBook" (r_path r) ""]
  else if ty =? 4 then of_err (ae_delete_obj env) [Call "DeleteAddressObject" (r_path r) ""]
  else HErr (EDirect 403) [].

Definition card_mkcol (env : card_env) (r : request) : hres unit :=
  if negb (resource_type (card_prefix env) (r_path r) =? 3) then HErr (EDirect 403) []
  else
    let create := of_err (ae_create env) [Call "CreateAddressBook" (r_path r) ""] in
    if r_body_empty r then create
    else match decode_xml_request r (um_mkcol true 0 mkcol_zero) with
         | DxOk m =>
           if raws_have (mk_rtype m) NS_DAV "collection" && raws_have (mk_rtype m) NS_CARD "addressbook"
           then create else bad_request
         | _ => bad_request
         end.

Definition card_backend (env : card_env) : backend := {|
  bk_options := card_options env;
  bk_headget := obj_headget (ae_get_obj env);
  bk_propfind := card_propfind env;
  bk_proppatch := card_proppatch env;
  bk_put := fun r => obj_put "PutAddressObject" "text/vcard" (r_vcard_ok r) (ae_put env) r;
  bk_delete := card_delete env;
  bk_mkcol := card_mkcol env;
  bk_copy := fun _ _ _ _ => HErr (EDirect 501) [];
  bk_move := fun _ _ _ => HErr (EDirect 501) []
|}.

(** carddav.Handler.ServeHTTP *)
Definition serve_carddav (env : card_env) (r : request) : outcome :=
  if negb (ae_has_backend env) then Resp 500 []
  else if String.eqb (r_path r) "/.well-known/carddav" then well_known (ae_principal env)
  else if String.eqb (r_method r) "REPORT" then finish (card_handle_report env r)
  else finish (internal_handle (card_backend env) r).

(* ------------------------------------------------------------------ *)
(** * The four servers as one function; backend sanity                 *)

Inductive case :=
| CDav (env : fs_env) (r : request)
| CCal (env : cal_env) (r : request)
| CCard (env : card_env) (r : request)
| CPrincipal (opts_nil : bool) (r : request).

Definition serve (c : case) : outcome :=
  match c with
  | CDav env r => serve_dav env r
  | CCal env r => serve_caldav env r
  | CCard env r => serve_carddav env r
  | CPrincipal n r => serve_principal n r
  end.

Definition case_req (c : case) : request :=
  match c with CDav _ r | CCal _ r | CCard _ r | CPrincipal _ r => r end.

(** A sane backend: it is there, the errors it returns carry a 4xx or 5xx code,
    and a nil error comes with a non-nil value. *)
Definition code_ok (e : gerr) : bool :=
  match e with EDirect c | EWrapped c => (400 <=? c) && (c <=? 599) | _ => true end.
Definition err_ok (e : option gerr) : bool := match e with Some e => code_ok e | None => true end.
Definition val_ok {A} (r : bres A) : bool := match r with BErr e => code_ok e | BOk _ => true end.
Definition ptr_ok {A} (r : bres (option A)) : bool :=
  match r with BErr e => code_ok e | BOk None => false | BOk (Some _) => true end.

Definition fs_total (env : fs_env) : bool :=
  fe_has_fs env && ptr_ok (fe_stat env) && err_ok (fe_open env) && val_ok (fe_readdir env) &&
  match fe_create env with BErr e => code_ok e | BOk (None, _) => false | BOk (Some _, _) => true end &&
  err_ok (fe_removeall env) && err_ok (fe_mkdir env) && val_ok (fe_copy env) && val_ok (fe_move env).

Definition cal_total (env : cal_env) : bool :=
  ce_has_backend env && val_ok (ce_principal env) && val_ok (ce_homeset env) && val_ok (ce_list_cals env) &&
  ptr_ok (ce_get_cal env) && ptr_ok (ce_get_obj env) && val_ok (ce_list_objs env) && val_ok (ce_query env) &&
  ptr_ok (ce_put env) && err_ok (ce_delete env) && err_ok (ce_create env).

Definition card_total (env : card_env) : bool :=
  ae_has_backend env && val_ok (ae_principal env) && val_ok (ae_homeset env) && val_ok (ae_list_books env) &&
  ptr_ok (ae_get_book env) && ptr_ok (ae_get_obj env) && val_ok (ae_list_objs env) && val_ok (ae_query env) &&
  ptr_ok (ae_put env) && err_ok (ae_delete_obj env) && err_ok (ae_delete_book env) && err_ok (ae_create env).

Definition backend_total (c : case) : bool :=
  match c with
  | CDav env _ => fs_total env
  | CCal env _ => cal_total env
  | CCard env _ => card_total env
  | CPrincipal n _ => negb n
  end.

(* ------------------------------------------------------------------ *)
(** * Specification: which requests are malformed (from the property   *)
(**   text and the RFCs, on the request as the harness presents it)    *)

Definition m_is (r : request) (m : string) : bool := String.eqb (r_method r) m.
Definition is_caldav (c : case) : bool := match c with CCal _ _ => true | _ => false end.
Definition is_carddav (c : case) : bool := match c with CCard _ _ => true | _ => false end.
Definition is_dav (c : case) : bool := match c with CDav _ _ => true | _ => false end.
Definition is_principal (c : case) : bool := match c with CPrincipal _ _ => true | _ => false end.
Definition is_calcard (c : case) : bool := is_caldav c || is_carddav c.

(** requests to the discovery path are redirected whatever they contain *)
Definition well_known_path (c : case) : bool :=
  match c with
  | CCal _ r => String.eqb (r_path r) "/.well-known/caldav"
  | CCard _ r => String.eqb (r_path r) "/.well-known/carddav"
  | _ => false
  end.

(** the methods whose handling reads an XML document from the body *)
Definition xml_required (c : case) : bool :=
  let r := case_req c in
  (m_is r "PROPPATCH" && negb (is_principal c)) || (m_is r "REPORT" && is_calcard c) ||
  (m_is r "MKCOL" && is_calcard c && negb (r_body_empty r)).
Definition xml_read (c : case) : bool :=
  let r := case_req c in xml_required c || (m_is r "PROPFIND" && is_content_xml r).

(** RFC 4918 takes its grammar from RFC 2616, where quoted literals match in any case
    (section 2.1): a Depth or Overwrite value that is an ASCII-case variant of a valid
    literal ("Infinity", "t") is not an invalid value, whether or not the server reads it *)
Definition lower_ascii_char (c : ascii) : ascii :=
  let n := N_of_ascii c in if (65 <=? n) && (n <=? 90) then ascii_of_N (n + 32) else c.
Fixpoint lower_ascii (s : string) : string :=
  match s with EmptyString => EmptyString | String c r => String (lower_ascii_char c) (lower_ascii r) end.
Definition depth_literal_ci (s : string) : bool := is_some (parse_depth (lower_ascii s)).
Definition overwrite_literal_ci (s : string) : bool :=
  String.eqb (lower_ascii s) "t" || String.eqb (lower_ascii s) "f".

Definition bad_depth (r : request) : bool :=
  negb (str_empty (r_depth r)) &&
  (match parse_depth (r_depth r) with None => true | Some _ => false end && negb (depth_literal_ci (r_depth r))).
Definition bad_overwrite (r : request) : bool :=
  negb (str_empty (r_overwrite r)) &&
  (match parse_overwrite (r_overwrite r) with None => true | Some _ => false end && negb (overwrite_literal_ci (r_overwrite r))).
Definition bad_dest (r : request) : bool := match r_dest r with DPath _ => false | _ => true end.
Definition copy_or_move (r : request) : bool := m_is r "COPY" || m_is r "MOVE".

(** invalid Depth / Overwrite / Destination where the header means something *)
Definition m_headers (c : case) : bool :=
  let r := case_req c in
  (bad_depth r && (m_is r "PROPFIND" || (copy_or_move r && negb (is_principal c)))) ||
  (negb (is_principal c) && copy_or_move r && (bad_overwrite r || bad_dest r)).

(** invalid Content-Type *)
Definition m_ctype (c : case) : bool :=
  let r := case_req c in
  (xml_required c && negb (is_content_xml r)) ||
  (m_is r "PROPFIND" && negb (is_content_xml r) && negb (r_body_empty r)) ||
  (m_is r "PUT" && is_caldav c && (r_media_err r || negb (String.eqb (r_media r) "text/calendar"))) ||
  (m_is r "PUT" && is_carddav c && (r_media_err r || negb (String.eqb (r_media r) "text/vcard"))) ||
  (m_is r "MKCOL" && is_dav c && r_ctype_set r).

Definition expected_root (c : case) (ns local : string) : bool :=
  let r := case_req c in
  let is n l := String.eqb ns n && String.eqb local l in
  if m_is r "PROPFIND" then is NS_DAV "propfind"
  else if m_is r "PROPPATCH" then is NS_DAV "propertyupdate"
  else if m_is r "MKCOL" then is NS_DAV "mkcol"
  else if is_caldav c then is NS_CAL "calendar-query" || is NS_CAL "calendar-multiget"
  else is NS_CARD "addressbook-query" || is NS_CARD "addressbook-multiget".

(** unparseable, empty or wrongly rooted XML *)
Definition m_xml (c : case) : bool :=
  let r := case_req c in
  xml_read c &&
  match r_xml r with
  | XSyntax => true
  | XEmpty => xml_required c
  | XTree (XElem ns local _ _) => negb (expected_root c ns local)
  | XTree _ => true
  end.

(** unparseable iCalendar / vCard *)
Definition m_object (c : case) : bool :=
  let r := case_req c in
  m_is r "PUT" && ((is_caldav c && negb (r_ical_ok r)) || (is_carddav c && negb (r_vcard_ok r))).

Definition malformed_basic (c : case) : bool :=
  negb (well_known_path c) && (m_headers c || m_ctype c || m_xml c || m_object c).

(** ** Malformed query documents (RFC 4791 9.5-9.10, RFC 6352 8.7, 10.3-10.6),
    read off the tree without reference to the decoder.  The attributes of the
    vocabulary are unqualified; declarations and foreign attributes are not looked at. *)
Definition kids_of (t : xtree) : list xtree := match t with XElem _ _ _ k => k | _ => [] end.
Definition attrs_of (t : xtree) : list xattr := match t with XElem _ _ a _ => a | _ => [] end.
Definition has_kid (t : xtree) (ns local : string) : bool := existsb (fun k => kid_is k ns local) (kids_of t).
Definition some_kid (t : xtree) (ns local : string) (p : xtree -> bool) : bool :=
  existsb (fun k => kid_is k ns local && p k) (kids_of t).
Definition attr_bad (ok : string -> bool) (name : string) (t : xtree) : bool :=
  existsb (fun a => str_empty (a_ns a) && String.eqb (a_local a) name && negb (ok (a_val a))) (attrs_of t).

Definition yes_no_ok (s : string) : bool := is_some (parse_yes_no s).
Definition rfc_dates_bad (t : xtree) : bool :=
  attr_bad parse_utc_ok "start" t || attr_bad parse_utc_ok "end" t.
Definition rfc_tm_bad (card : bool) (t : xtree) : bool :=
  attr_bad yes_no_ok "negate-condition" t || (card && attr_bad match_type_ok "match-type" t).
Definition rfc_paf_bad (card : bool) (ns : string) (t : xtree) : bool :=
  (has_kid t ns "is-not-defined" && has_kid t ns "text-match") || some_kid t ns "text-match" (rfc_tm_bad card).
Definition rfc_cpf_bad (t : xtree) : bool :=
  (has_kid t NS_CAL "is-not-defined" &&
   (has_kid t NS_CAL "time-range" || has_kid t NS_CAL "text-match" || has_kid t NS_CAL "param-filter")) ||
  some_kid t NS_CAL "time-range" rfc_dates_bad || some_kid t NS_CAL "text-match" (rfc_tm_bad false) ||
  some_kid t NS_CAL "param-filter" (rfc_paf_bad false NS_CAL).
Fixpoint rfc_cf_bad (t : xtree) : bool :=
  match t with
  | XElem _ _ _ ks =>
    (has_kid t NS_CAL "is-not-defined" &&
     (has_kid t NS_CAL "time-range" || has_kid t NS_CAL "prop-filter" || has_kid t NS_CAL "comp-filter")) ||
    some_kid t NS_CAL "time-range" rfc_dates_bad || some_kid t NS_CAL "prop-filter" rfc_cpf_bad ||
    existsb (fun k => kid_is k NS_CAL "comp-filter" && rfc_cf_bad k) ks
  | _ => false
  end.
Fixpoint rfc_comp_bad (t : xtree) : bool :=
  match t with
  | XElem _ _ _ ks =>
    (has_kid t NS_CAL "allprop" && has_kid t NS_CAL "prop") ||
    (has_kid t NS_CAL "allcomp" && has_kid t NS_CAL "comp") ||
    existsb (fun k => kid_is k NS_CAL "comp" && rfc_comp_bad k) ks
  | _ => false
  end.

(** the data element named in the DAV:prop of a report: the first one *)
Definition is_elem (t : xtree) : bool := match t with XElem _ _ _ _ => true | _ => false end.
Definition report_props (root : xtree) : list xtree :=
  flat_map (fun k => if kid_is k NS_DAV "prop" then filter is_elem (kids_of k) else []) (kids_of root).
Definition report_data (root : xtree) (ns local : string) : option xtree :=
  find (fun k => kid_is k ns local) (report_props root).

Definition rfc_cal_data_bad (root : xtree) : bool :=
  match report_data root NS_CAL "calendar-data" with
  | Some cd => some_kid cd NS_CAL "expand" rfc_dates_bad || some_kid cd NS_CAL "comp" rfc_comp_bad
  | None => false
  end.
Definition rfc_cal_report_bad (root : xtree) : bool :=
  if kid_is root NS_CAL "calendar-query" then
    rfc_cal_data_bad root || some_kid root NS_CAL "filter" (fun f => some_kid f NS_CAL "comp-filter" rfc_cf_bad)
  else if kid_is root NS_CAL "calendar-multiget" then rfc_cal_data_bad root
  else false.

Definition rfc_apf_bad (t : xtree) : bool :=
  attr_bad filter_test_ok "test" t ||
  (has_kid t NS_CARD "is-not-defined" && (has_kid t NS_CARD "text-match" || has_kid t NS_CARD "param-filter")) ||
  some_kid t NS_CARD "text-match" (rfc_tm_bad true) || some_kid t NS_CARD "param-filter" (rfc_paf_bad true NS_CARD).
Definition rfc_card_filter_bad (t : xtree) : bool :=
  attr_bad filter_test_ok "test" t || some_kid t NS_CARD "prop-filter" rfc_apf_bad.
Definition rfc_limit_bad (t : xtree) : bool :=
  some_kid t NS_CARD "nresults" (fun n => negb (is_some (parse_uint (chardata (kids_of n))))).
Definition rfc_addr_data_bad (root : xtree) : bool :=
  match report_data root NS_CARD "address-data" with
  | Some ad => has_kid ad NS_CARD "allprop" && has_kid ad NS_CARD "prop"
  | None => false
  end.
Definition rfc_card_report_bad (root : xtree) : bool :=
  if kid_is root NS_CARD "addressbook-query" then
    rfc_addr_data_bad root || some_kid root NS_CARD "filter" rfc_card_filter_bad ||
    some_kid root NS_CARD "limit" rfc_limit_bad
  else if kid_is root NS_CARD "addressbook-multiget" then rfc_addr_data_bad root
  else false.

(** mutually exclusive elements, invalid dates, enumeration values and limits in a REPORT *)
Definition malformed_report (c : case) : bool :=
  let r := case_req c in
  negb (well_known_path c) && m_is r "REPORT" &&
  match r_xml r with
  | XTree root => (is_caldav c && rfc_cal_report_bad root) || (is_carddav c && rfc_card_report_bad root)
  | _ => false
  end.

Definition malformed (c : case) : bool := malformed_basic c || malformed_report c.

(* ------------------------------------------------------------------ *)
(** * Verdicts used by the oracle                                      *)

Definition call_eqb (a c : call) : bool :=
  match a, c with Call n x y, Call n' x' y' => String.eqb n n' && String.eqb x x' && String.eqb y y' end.
Fixpoint calls_eqb (a c : list call) : bool :=
  match a, c with
  | [], [] => true
  | x :: a', y :: c' => call_eqb x y && calls_eqb a' c'
  | _, _ => false
  end.
Definition outcome_eqb (a c : outcome) : bool :=
  match a, c with
  | Panicked, Panicked => true
  | Resp s cs, Resp s' cs' => (s =? s') && calls_eqb cs cs'
  | _, _ => false
  end.

Definition model_agrees (c : case) (o : outcome) : bool := outcome_eqb (serve c) o.

(** the property on one observation: a complete response, no panic; a malformed
    request gets a 4xx and reaches no mutating backend call *)
Definition acceptable (c : case) (o : outcome) : bool :=
  match o with
  | Panicked => false
  | Resp s cs =>
    (100 <=? s) && (s <? 600) &&
    (if malformed c then (400 <=? s) && (s <? 500) && negb (nonempty cs) else true)
  end.

Definition spec_ok (c : case) (o : outcome) : bool :=
  if backend_total c then acceptable c o else true.
