(** Wire.v — C16, part 1: the small wire primitives of internal/internal.go and
    internal/elements.go: Depth, Overwrite and the status line.

    Model (after the Go source, function by function), an independent
    specification (the RFC grammar with its denotation), and the verdict
    functions the oracle extracts.  NO proofs here (see WireProofs.v). *)
From GW Require Import Base.
Local Open Scope Z_scope.

(** * Byte and decimal helpers *)

Definition byte (c : ascii) : N := N_of_ascii c.
Definition chr (n : N) : ascii := ascii_of_N n.

Definition is_digit (c : ascii) : bool := ((48 <=? byte c) && (byte c <=? 57))%N.
Definition digit_val (c : ascii) : Z := Z.of_N (byte c) - 48.
Definition digit_chr (d : Z) : ascii := chr (Z.to_N (48 + d)).

Fixpoint all_digits (s : string) : bool :=
  match s with EmptyString => true | String c r => is_digit c && all_digits r end.

(** value of a digit string, most significant first (no check) *)
Fixpoint dec_value_acc (s : string) (acc : Z) : Z :=
  match s with EmptyString => acc | String c r => dec_value_acc r (acc * 10 + digit_val c) end.
Definition dec_value (s : string) : Z := dec_value_acc s 0.

(** decimal digits of a non-negative number; [fuel] bounds the number of digits *)
Fixpoint fmt_dec_fuel (fuel : nat) (n : Z) : string :=
  match fuel with
  | O => EmptyString
  | S f => if n <? 10 then String (digit_chr n) EmptyString
           else fmt_dec_fuel f (n / 10) ++ String (digit_chr (n mod 10)) EmptyString
  end.
Definition fmt_dec (n : Z) : string := fmt_dec_fuel (S (Z.to_nat (Z.log2 n))) n.

(** strconv.Itoa / fmt's %v of an int *)
Definition itoa (z : Z) : string :=
  if z <? 0 then String "-" (fmt_dec (- z)) else fmt_dec z.

(** strconv.Atoi on a 64-bit platform: optional sign, one or more decimal digits,
    value within int64 (the fast path for short strings and ParseInt compute the
    same function).  [None] is any *NumError. *)
Definition int64_max : Z := 9223372036854775807.
Definition atoi_digits (neg : bool) (s : string) : option Z :=
  match s with
  | EmptyString => None
  | _ => if all_digits s then
           let v := dec_value s in
           if neg then (if v <=? int64_max + 1 then Some (- v) else None)
           else (if v <=? int64_max then Some v else None)
         else None
  end.
Definition atoi (s : string) : option Z :=
  match s with
  | String "+" r => atoi_digits false r
  | String "-" r => atoi_digits true r
  | _ => atoi_digits false s
  end.

Fixpoint strip_prefix (p s : string) : option string :=
  match p with
  | EmptyString => Some s
  | String a p' => match s with
                   | String b s' => if Ascii.eqb a b then strip_prefix p' s' else None
                   | EmptyString => None
                   end
  end.

Fixpoint drop (n : nat) (s : string) : string :=
  match n with O => s | S n' => match s with String _ r => drop n' r | EmptyString => s end end.

(** the first n bytes (all of s if it is shorter) *)
Fixpoint take_n (n : nat) (s : string) : string :=
  match n with O => EmptyString | S n' => match s with String c r => String c (take_n n' r) | EmptyString => EmptyString end end.

(** * Observations: what the harness records of one call of the real code *)
Inductive obs (A : Type) : Type := ObsOk (a : A) | ObsErr | ObsPanic | ObsSkip.
Arguments ObsOk {A} a. Arguments ObsErr {A}. Arguments ObsPanic {A}. Arguments ObsSkip {A}.

Definition obs_of {A} (r : res A) : obs A :=
  match r with Ok a => ObsOk a | Err _ => ObsErr | Panic => ObsPanic end.

Definition obs_eqb {A} (eqb : A -> A -> bool) (x y : obs A) : bool :=
  match x, y with
  | ObsOk a, ObsOk b => eqb a b
  | ObsErr, ObsErr => true
  | ObsPanic, ObsPanic => true
  | ObsSkip, ObsSkip => true
  | _, _ => false
  end.

Definition opt_eqb {A} (eqb : A -> A -> bool) (x y : option A) : bool :=
  match x, y with Some a, Some b => eqb a b | None, None => true | _, _ => false end.

(** a decoder observation [o] on a text whose specification denotation is [den]:
    accepted exactly when the text is in the grammar, with the denoted value,
    and never a panic *)
Definition dec_spec_ok {A} (eqb : A -> A -> bool) (den : option A) (o : obs A) : bool :=
  match o, den with
  | ObsOk a, Some b => eqb a b
  | ObsErr, None => true
  | _, _ => false
  end.

(** weaker form used where the decoder may refuse more than the grammar requires *)
Definition dec_spec_sound {A} (eqb : A -> A -> bool) (den : option A) (o : obs A) : bool :=
  match o, den with
  | ObsOk a, Some b => eqb a b
  | ObsErr, _ => true
  | _, _ => false
  end.

(** a plain Go [error] (not an *HTTPError) is [Err 500], see Base.v *)
Definition plain_err {A} : res A := Err 500%N.

(** * Depth (internal/internal.go ParseDepth:26, Depth.String:39) *)

(** Go's [Depth] is an int: DepthZero = 0, DepthOne = 1, DepthInfinity = -1. *)
Definition parse_depth (s : string) : res Z :=
  if String.eqb s "0" then Ok 0
  else if String.eqb s "1" then Ok 1
  else if String.eqb s "infinity" then Ok (-1)
  else plain_err.

Definition depth_string (d : Z) : res string :=
  if d =? 0 then Ok "0"%string
  else if d =? 1 then Ok "1"%string
  else if d =? -1 then Ok "infinity"%string
  else Panic.

(** Specification, RFC 4918 section 10.2:  Depth = "Depth" ":" ("0" | "1" | "infinity") *)
Definition depth_table : list (string * Z) := [("0"%string, 0); ("1"%string, 1); ("infinity"%string, -1)].
Fixpoint assoc_str {A} (l : list (string * A)) (s : string) : option A :=
  match l with [] => None | (k, v) :: r => if String.eqb k s then Some v else assoc_str r s end.
Definition depth_den (s : string) : option Z := assoc_str depth_table s.
Definition depth_valid (d : Z) : bool := existsb (fun kv => snd kv =? d) depth_table.

(** * Overwrite (internal/internal.go ParseOverwrite:52, FormatOverwrite:63) *)
Definition parse_overwrite (s : string) : res bool :=
  if String.eqb s "T" then Ok true
  else if String.eqb s "F" then Ok false
  else plain_err.

Definition format_overwrite (b : bool) : string := if b then "T" else "F".

(** RFC 4918 section 10.6:  Overwrite = "Overwrite" ":" ("T" | "F") *)
Definition overwrite_table : list (string * bool) := [("T"%string, true); ("F"%string, false)].
Definition overwrite_den (s : string) : option bool := assoc_str overwrite_table s.

(** * Status line (internal/elements.go Status.MarshalText:32, UnmarshalText:40) *)

(** net/http.StatusText (go1.23.5 net/http/status.go), a finite table; the
    harness cross-checks it for every code it generates. *)
Definition status_text_table : list (Z * string) :=
  [(100%Z, "Continue");
   (101%Z, "Switching Protocols");
   (102%Z, "Processing");
   (103%Z, "Early Hints");
   (200%Z, "OK");
   (201%Z, "Created");
   (202%Z, "Accepted");
   (203%Z, "Non-Authoritative Information");
   (204%Z, "No Content");
   (205%Z, "Reset Content");
   (206%Z, "Partial Content");
   (207%Z, "Multi-Status");
   (208%Z, "Already Reported");
   (226%Z, "IM Used");
   (300%Z, "Multiple Choices");
   (301%Z, "Moved Permanently");
   (302%Z, "Found");
   (303%Z, "See Other");
   (304%Z, "Not Modified");
   (305%Z, "Use Proxy");
   (307%Z, "Temporary Redirect");
   (308%Z, "Permanent Redirect");
   (400%Z, "Bad Request");
   (401%Z, "Unauthorized");
   (402%Z, "Payment Required");
   (403%Z, "Forbidden");
   (404%Z, "Not Found");
   (405%Z, "Method Not Allowed");
   (406%Z, "Not Acceptable");
   (407%Z, "Proxy Authentication Required");
   (408%Z, "Request Timeout");
   (409%Z, "Conflict");
   (410%Z, "Gone");
   (411%Z, "Length Required");
   (412%Z, "Precondition Failed");
   (413%Z, "Request Entity Too Large");
   (414%Z, "Request URI Too Long");
   (415%Z, "Unsupported Media Type");
   (416%Z, "Requested Range Not Satisfiable");
   (417%Z, "Expectation Failed");
   (418%Z, "I'm a teapot");
   (421%Z, "Misdirected Request");
   (422%Z, "Unprocessable Entity");
   (423%Z, "Locked");
   (424%Z, "Failed Dependency");
   (425%Z, "Too Early");
   (426%Z, "Upgrade Required");
   (428%Z, "Precondition Required");
   (429%Z, "Too Many Requests");
   (431%Z, "Request Header Fields Too Large");
   (451%Z, "Unavailable For Legal Reasons");
   (500%Z, "Internal Server Error");
   (501%Z, "Not Implemented");
   (502%Z, "Bad Gateway");
   (503%Z, "Service Unavailable");
   (504%Z, "Gateway Timeout");
   (505%Z, "HTTP Version Not Supported");
   (506%Z, "Variant Also Negotiates");
   (507%Z, "Insufficient Storage");
   (508%Z, "Loop Detected");
   (510%Z, "Not Extended");
   (511%Z, "Network Authentication Required")]%string.
Fixpoint assoc_z (l : list (Z * string)) (c : Z) : string :=
  match l with [] => EmptyString | (k, v) :: r => if k =? c then v else assoc_z r c end.
Definition status_text (c : Z) : string := assoc_z status_text_table c.

Definition status : Type := (Z * string)%type.  (* Code, Text *)

(** fmt.Sprintf("HTTP/1.1 %v %v", s.Code, text) *)
Definition status_marshal (s : status) : string :=
  let text := if str_empty (snd s) then status_text (fst s) else snd s in
  ("HTTP/1.1 " ++ itoa (fst s) ++ " " ++ text)%string.

(** strings.Cut(s, " ") *)
Fixpoint cut_space (s : string) : option (string * string) :=
  match s with
  | EmptyString => None
  | String c r => if Ascii.eqb c " " then Some (EmptyString, r)
                  else match cut_space r with
                       | Some (a, b) => Some (String c a, b)
                       | None => None
                       end
  end.

(** strings.SplitN(s, " ", 3) *)
Definition splitn3 (s : string) : list string :=
  match cut_space s with
  | None => [s]
  | Some (a, r) => match cut_space r with
                   | None => [a; r]
                   | Some (b, r2) => [a; b; r2]
                   end
  end.

(** net/http.ParseHTTPVersion, success bit only: "HTTP/" DIGIT "." DIGIT *)
Definition parse_http_version_ok (v : string) : bool :=
  if String.eqb v "HTTP/1.1" then true
  else if String.eqb v "HTTP/1.0" then true
  else match strip_prefix "HTTP/" v with
       | Some (String a (String dot (String b EmptyString))) =>
           Ascii.eqb dot "." && is_digit a && is_digit b
       | _ => false
       end.

(** [prev] is the value the receiver held before the call: an empty text leaves
    it untouched and reports success. *)
Definition status_unmarshal (prev : status) (b : string) : res status :=
  if str_empty b then Ok prev
  else match splitn3 b with
       | [p0; p1; p2] =>
           if negb (parse_http_version_ok p0) then plain_err
           else if negb ((String.length p1 =? 3)%nat && all_digits p1) then plain_err
           else match atoi p1 with
                | Some code => Ok (code, p2)
                | None => plain_err
                end
       | _ => plain_err
       end.

Definition status_zero : status := (0, EmptyString).

(** Specification, RFC 7230 section 3.1.2 (RFC 4918 section 14.28 refers to it):
      status-line = HTTP-version SP status-code SP reason-phrase
      HTTP-version = "HTTP/" DIGIT "." DIGIT      status-code = 3DIGIT
    The reason phrase is any byte string here: the encoder's domain is every
    Go string and the round-trip clause of the property covers all of them. *)
Definition status_den (s : string) : option status :=
  match strip_prefix "HTTP/" s with
  | Some (String a (String dot (String b (String sp1 (String x (String y (String z (String sp2 phrase)))))))) =>
      if is_digit a && Ascii.eqb dot "." && is_digit b && Ascii.eqb sp1 " "
         && is_digit x && is_digit y && is_digit z && Ascii.eqb sp2 " "
      then Some (100 * digit_val x + 10 * digit_val y + digit_val z, phrase)
      else None
  | _ => None
  end.

Definition status_eqb (a b : status) : bool := (fst a =? fst b) && String.eqb (snd a) (snd b).

(** what a decoded status should be for an encoded one: an empty Text stands for
    the default phrase of the code *)
Definition status_norm (s : status) : status :=
  (fst s, if str_empty (snd s) then status_text (fst s) else snd s).

(** known finding C16-status-empty: the empty text is accepted (and leaves the
    receiver as it was) although it is not a status line *)
Definition kf_status_empty (b : string) (o : obs status) : bool :=
  str_empty b && match o with ObsOk _ => true | _ => false end.

(** * Verdicts (extracted; the oracle only parses the case lines) *)

(** (depth-rt d): Depth(d).String(), then ParseDepth of the result *)
Definition depth_rt_agrees (d : Z) (ofmt : obs string) (oparse : obs Z) : bool :=
  obs_eqb String.eqb (obs_of (depth_string d)) ofmt &&
  match ofmt with
  | ObsOk s => obs_eqb Z.eqb (obs_of (parse_depth s)) oparse
  | _ => obs_eqb Z.eqb ObsSkip oparse
  end.
Definition depth_rt_spec_ok (d : Z) (ofmt : obs string) (oparse : obs Z) : bool :=
  if depth_valid d then
    match ofmt with
    | ObsOk s => opt_eqb Z.eqb (depth_den s) (Some d) && obs_eqb Z.eqb oparse (ObsOk d)
    | _ => false
    end
  else true.

(** (depth-dec s): ParseDepth(s) *)
Definition depth_dec_agrees (s : string) (o : obs Z) : bool := obs_eqb Z.eqb (obs_of (parse_depth s)) o.
(** RFC 4918 takes its ABNF from RFC 2616, where a quoted literal matches in any letter
    case (section 2.1): an ASCII-case variant of a valid value ("Infinity", "t") is inside
    the grammar as the RFCs define it, but it is not what any encoder here sends.  A decoder
    may read it as the value its canonical spelling denotes, or refuse it; the canonical
    spellings must be read; everything else must be refused. *)
Definition ascii_lower (c : ascii) : ascii :=
  if ((65 <=? byte c) && (byte c <=? 90))%N then chr (byte c + 32) else c.
Fixpoint lower_ascii (s : string) : string :=
  match s with EmptyString => EmptyString | String c r => String (ascii_lower c) (lower_ascii r) end.
Fixpoint assoc_str_ci {A} (l : list (string * A)) (s : string) : option A :=
  match l with
  | [] => None
  | (k, v) :: r => if String.eqb (lower_ascii k) (lower_ascii s) then Some v else assoc_str_ci r s
  end.
Definition dec_spec_ci {A} (eqb : A -> A -> bool) (den den_ci : option A) (o : obs A) : bool :=
  match den, den_ci with
  | Some v, _ => dec_spec_ok eqb (Some v) o
  | None, Some v => dec_spec_sound eqb (Some v) o
  | None, None => dec_spec_ok eqb None o
  end.
Definition depth_den_ci (s : string) : option Z := assoc_str_ci depth_table s.
Definition depth_dec_spec_ok (s : string) (o : obs Z) : bool :=
  dec_spec_ci Z.eqb (depth_den s) (depth_den_ci s) o.

Definition overwrite_rt_agrees (b : bool) (ofmt : string) (oparse : obs bool) : bool :=
  String.eqb (format_overwrite b) ofmt && obs_eqb Bool.eqb (obs_of (parse_overwrite ofmt)) oparse.
Definition overwrite_rt_spec_ok (b : bool) (ofmt : string) (oparse : obs bool) : bool :=
  opt_eqb Bool.eqb (overwrite_den ofmt) (Some b) && obs_eqb Bool.eqb oparse (ObsOk b).
Definition overwrite_dec_agrees (s : string) (o : obs bool) : bool := obs_eqb Bool.eqb (obs_of (parse_overwrite s)) o.
Definition overwrite_den_ci (s : string) : option bool := assoc_str_ci overwrite_table s.
Definition overwrite_dec_spec_ok (s : string) (o : obs bool) : bool :=
  dec_spec_ci Bool.eqb (overwrite_den s) (overwrite_den_ci s) o.

(** (copy-e2e norec noow): webdav.Client.Copy writes Depth (infinity, or 0 for
    NoRecursive) and Overwrite; handleCopyMove parses them and hands the options on *)
Definition copy_e2e (norec noow : bool) : res (bool * bool) :=
  do ds <- depth_string (if norec then 0 else -1);
  do d <- parse_depth ds;
  do ow <- parse_overwrite (format_overwrite (negb noow));
  if d =? 0 then Ok (true, negb ow)
  else if d =? -1 then Ok (false, negb ow)
  else Err 400%N.
Definition bool2_eqb (a b : bool * bool) : bool := Bool.eqb (fst a) (fst b) && Bool.eqb (snd a) (snd b).
Definition copy_e2e_agrees (norec noow : bool) (o : obs (bool * bool)) : bool :=
  obs_eqb bool2_eqb (obs_of (copy_e2e norec noow)) o.
Definition copy_e2e_spec_ok (norec noow : bool) (o : obs (bool * bool)) : bool :=
  obs_eqb bool2_eqb o (ObsOk (norec, noow)).

(** (status-rt code text): MarshalText, then UnmarshalText into a fresh Status *)
Definition status_rt_agrees (s : status) (omar : string) (oun : obs status) : bool :=
  String.eqb (status_marshal s) omar && obs_eqb status_eqb (obs_of (status_unmarshal status_zero omar)) oun.
Definition status_in_domain (s : status) : bool := (100 <=? fst s) && (fst s <=? 999).
Definition status_rt_spec_ok (s : status) (omar : string) (oun : obs status) : bool :=
  if status_in_domain s then
    opt_eqb status_eqb (status_den omar) (Some (status_norm s)) && obs_eqb status_eqb oun (ObsOk (status_norm s))
  else true.

(** (status-dec text): UnmarshalText into a fresh Status *)
Definition status_dec_agrees (b : string) (o : obs status) : bool :=
  obs_eqb status_eqb (obs_of (status_unmarshal status_zero b)) o.
(** The property obliges a decoder to refuse every text outside the grammar, never to
    panic, never to yield a value other than the one the text denotes, and to read back
    every status line of the round-trip domain (codes 100..999).  A status-line whose code
    is 000..099 is in the grammar of RFC 7230 but outside that domain (there is no class
    0; the encoder cannot write such a code with three digits): the decoder may read it
    (with the value it denotes) or refuse it. *)
Definition status_dec_spec_ok (b : string) (o : obs status) : bool :=
  match status_den b with
  | Some v => if status_in_domain v then dec_spec_ok status_eqb (Some v) o
              else dec_spec_sound status_eqb (Some v) o
  | None => dec_spec_ok status_eqb None o
  end.

(** net/http.StatusText cross-check: (status-text code) text *)
Definition status_text_agrees (c : Z) (t : string) : bool := String.eqb (status_text c) t.
