(** ConcServeProofs.v — requests of clients on pairwise disjoint collections of one
    served directory, in any interleaving (of whole requests, or of the OS calls they
    consist of), get from [DavServer.serve] the answers and leave the subtrees they
    get alone. *)
From Coq Require Import PeanoNat Lia.
From GW Require Import Base GoPath Fs DavServer Rfc4918 FsProofs DavRefine UploadSteps UploadStepsProofs CopySteps CopyStepsProofs
  SortedProofs RelocProofs CopyTempProofs ConcServe.
Local Open Scope list_scope.

(** * 1. The generic theorem *)
Section ThreadsProofs.
  Variables St Act Res Ret V : Type.
  Variable step : St -> Act -> St * Res.
  Variable view : nat -> St -> V.
  Variable acts : nat -> Act -> Prop.
  Variable ok : V -> Prop.

  (** an action of thread i leaves every other thread's view alone, *)
  Hypothesis frame : forall i j a s, acts i a -> j <> i -> view j (fst (step s a)) = view j s.
  (** its result and its effect on its own view are functions of its own view, *)
  Hypothesis local : forall i a s1 s2, acts i a -> ok (view i s1) -> view i s1 = view i s2 ->
    snd (step s1 a) = snd (step s2 a) /\ view i (fst (step s1 a)) = view i (fst (step s2 a)).
  (** and it keeps its own view well-formed. *)
  Hypothesis keep : forall i a s, acts i a -> ok (view i s) -> ok (view i (fst (step s a))).

  Notation prog := (tprog Act Res Ret).

  (** every action thread i will ever issue, whatever results it gets, is its own *)
  Fixpoint owned (i : nat) (p : prog) : Prop :=
    match p with
    | TRet _ => True
    | TCall a k => acts i a /\ forall b, owned i (k b)
    end.

  Definition wf (g : list prog * St) : Prop := forall j p, nth_error (fst g) j = Some p -> owned j p.

  (** thread i cannot tell [g] from [g']: same continuation, same view *)
  Definition sim (i : nat) (g g' : list prog * St) : Prop :=
    nth_error (fst g) i = nth_error (fst g') i /\ view i (snd g) = view i (snd g') /\ ok (view i (snd g)).

  Lemma nth_upd_same {A} (l : list A) : forall n x a, nth_error l n = Some a -> nth_error (upd_nth n x l) n = Some x.
  Proof. induction l as [|b l IH]; intros [|n] x a H; simpl in *; try discriminate; eauto. Qed.

  Lemma nth_upd_other {A} (l : list A) : forall n m x, n <> m -> nth_error (upd_nth n x l) m = nth_error l m.
  Proof. induction l as [|b l IH]; intros [|n] [|m] x H; simpl; auto; congruence. Qed.

  Lemma wf_step g j : wf g -> wf (tstep step g j).
  Proof.
    intros W. unfold tstep. destruct (nth_error (fst g) j) as [[r|a k]|] eqn:N; auto.
    intros m p H. cbn [fst] in H. destruct (Nat.eq_dec j m) as [E|E].
    - subst m. rewrite (nth_upd_same _ _ _ _ N) in H. inversion H; subst p.
      apply (W j _ N).
    - rewrite nth_upd_other in H by exact E. apply (W m p H).
  Qed.

  Lemma wf_run sched : forall g, wf g -> wf (trun step g sched).
  Proof. induction sched; intros g W; simpl; auto. apply IHsched. apply wf_step. exact W. Qed.

  Lemma sim_left i j g g' : j <> i -> wf g -> sim i g g' -> sim i (tstep step g j) g'.
  Proof.
    intros NE W (P & Vw & K). unfold tstep.
    destruct (nth_error (fst g) j) as [[r|a k]|] eqn:N; try (split; [|split]; assumption).
    destruct (W j _ N) as [A _].
    unfold sim. cbn [fst snd]. rewrite nth_upd_other by exact NE.
    assert (F : view i (fst (step (snd g) a)) = view i (snd g)) by (apply (frame j i); auto).
    rewrite F. auto.
  Qed.

  Lemma sim_right i j g g' : j <> i -> wf g' -> sim i g g' -> sim i g (tstep step g' j).
  Proof.
    intros NE W (P & Vw & K). unfold tstep.
    destruct (nth_error (fst g') j) as [[r|a k]|] eqn:N; try (split; [|split]; assumption).
    destruct (W j _ N) as [A _].
    unfold sim. cbn [fst snd]. rewrite nth_upd_other by exact NE.
    assert (F : view i (fst (step (snd g') a)) = view i (snd g')) by (apply (frame j i); auto).
    rewrite F. auto.
  Qed.

  Lemma sim_both i g g' : wf g -> sim i g g' -> sim i (tstep step g i) (tstep step g' i).
  Proof.
    intros W (P & Vw & K). unfold tstep. rewrite <- P.
    destruct (nth_error (fst g) i) as [[r|a k]|] eqn:N; try (split; [congruence|split; assumption]).
    destruct (W i _ N) as [A _].
    destruct (local i a (snd g) (snd g') A K Vw) as [R1 R2].
    unfold sim. cbn [fst snd].
    rewrite (nth_upd_same _ _ _ _ N). symmetry in P. rewrite (nth_upd_same _ _ _ _ P).
    rewrite R1. split; [reflexivity|]. split; [exact R2|]. apply keep; auto.
  Qed.

  (** Two schedules that give thread i equally many steps leave it with the same
      continuation (at the end: the same result) and the same view — whatever the
      other threads did, and wherever they stopped. *)
  Theorem threads_sim i : forall sched sched' g g',
    wf g -> wf g' -> count_occ Nat.eq_dec sched i = count_occ Nat.eq_dec sched' i ->
    sim i g g' -> sim i (trun step g sched) (trun step g' sched').
  Proof.
    induction sched as [|j sched IH].
    - induction sched' as [|j' sched' IH']; intros g g' W W' C S; [exact S|].
      cbn [count_occ] in C. destruct (Nat.eq_dec j' i) as [E|E]; [discriminate|].
      cbn [trun fold_left]. apply IH'; auto. apply wf_step; auto. apply sim_right; auto.
    - intros sched' g g' W W' C S. cbn [trun fold_left]. cbn [count_occ] in C.
      destruct (Nat.eq_dec j i) as [E|E].
      + subst j. revert g' W' C S.
        induction sched' as [|j' sched' IH']; intros g' W' C S; [discriminate|].
        cbn [count_occ] in C. cbn [trun fold_left]. destruct (Nat.eq_dec j' i) as [E'|E'].
        * subst j'. apply IH; auto using wf_step. apply sim_both; auto.
        * apply IH'; auto using wf_step. apply sim_right; auto.
      + apply IH; auto using wf_step. apply sim_left; auto.
  Qed.

  Lemma sim_refl i g : ok (view i (snd g)) -> sim i g g.
  Proof. intro K. split; [|split]; auto. Qed.

  Lemma count_remove_other (l : list nat) i j :
    i <> j -> count_occ Nat.eq_dec (remove Nat.eq_dec j l) i = count_occ Nat.eq_dec l i.
  Proof.
    intro NE. induction l as [|x l IH]; simpl; auto.
    destruct (Nat.eq_dec j x) as [E|E].
    - subst x. destruct (Nat.eq_dec j i); [congruence | exact IH].
    - simpl. destruct (Nat.eq_dec x i); rewrite IH; reflexivity.
  Qed.

  (** ... in particular the ones it has when only its own steps are scheduled, *)
  Corollary threads_alone i sched g :
    wf g -> ok (view i (snd g)) ->
    sim i (trun step g sched) (trun step g (repeat i (count_occ Nat.eq_dec sched i))).
  Proof.
    intros W K. apply threads_sim; auto using sim_refl.
    rewrite count_occ_repeat_eq by reflexivity. reflexivity.
  Qed.

  (** ... and the ones it has when a thread that stalls somewhere is never scheduled. *)
  Corollary stalled_harmless i j sched g :
    wf g -> ok (view i (snd g)) -> i <> j ->
    sim i (trun step g sched) (trun step g (remove Nat.eq_dec j sched)).
  Proof.
    intros W K NE. apply threads_sim; auto using sim_refl.
    symmetry. apply count_remove_other. exact NE.
  Qed.
End ThreadsProofs.

(** * 2. Clients of one served directory *)

(** ** Paths *)
Lemma prefixes_comparable (a : path) : forall b x y,
  a ++ x = b ++ y -> is_prefix a b = true \/ is_prefix b a = true.
Proof.
  induction a as [|s a IH]; intros b x y H; [left; reflexivity|].
  destruct b as [|t b]; [right; reflexivity|].
  cbn [app] in H. inversion H; subst t. cbn [is_prefix]. rewrite String.eqb_refl. cbn [andb].
  eapply IH; eauto.
Qed.

Lemma incomparable_sym a b : incomparable a b = incomparable b a.
Proof. unfold incomparable. apply andb_comm. Qed.

Lemma incomparable_below c c' q y :
  incomparable c c' = true -> incomparable (c ++ q) (c' ++ y) = true.
Proof.
  unfold incomparable. intro H. apply andb_true_iff in H. destruct H as [H1 H2].
  apply negb_true_iff in H1. apply negb_true_iff in H2.
  apply andb_true_iff. split; apply negb_true_iff.
  - destruct (is_prefix (c ++ q) (c' ++ y)) eqn:E; auto. exfalso.
    apply is_prefix_spec in E. destruct E as [suf E]. rewrite <- app_assoc in E.
    symmetry in E. destruct (prefixes_comparable _ _ _ _ E); congruence.
  - destruct (is_prefix (c' ++ y) (c ++ q)) eqn:E; auto. exfalso.
    apply is_prefix_spec in E. destruct E as [suf E]. rewrite <- app_assoc in E.
    destruct (prefixes_comparable _ _ _ _ E); congruence.
Qed.

Lemma incomparable_root root a b : incomparable (root ++ a) (root ++ b) = incomparable a b.
Proof. unfold incomparable. rewrite !is_prefix_app_l. reflexivity. Qed.

Lemma pairwise_nth (l : list path) : forall i j a b,
  pairwise_incomparable l = true -> nth_error l i = Some a -> nth_error l j = Some b -> i <> j ->
  incomparable a b = true.
Proof.
  induction l as [|c l IH]; intros i j a b P A B NE; [destruct i; discriminate|].
  cbn [pairwise_incomparable] in P. apply andb_true_iff in P. destruct P as [F P].
  rewrite forallb_forall in F.
  destruct i as [|i], j as [|j]; cbn [nth_error] in *; try congruence.
  - inversion A; subst a. apply F. eapply nth_error_In; eauto.
  - inversion B; subst b. rewrite incomparable_sym. apply F. eapply nth_error_In; eauto.
  - eapply IH; eauto.
Qed.

Lemma geto_seto_far p on x t y :
  seto on p x = Some t -> incomparable p y = true -> geto (Some t) y = geto on y.
Proof.
  unfold incomparable. intros H I. apply andb_true_iff in I. destruct I as [I1 I2].
  apply negb_true_iff in I1. apply negb_true_iff in I2. eapply geto_seto_other; eauto.
Qed.

Lemma geto_remo_far p on y : incomparable p y = true -> geto (remo on p) y = geto on y.
Proof.
  unfold incomparable. intros I. apply andb_true_iff in I. destruct I as [I1 I2].
  apply negb_true_iff in I1. apply negb_true_iff in I2. apply geto_remo_other; auto.
Qed.

Lemma segs_under_spec c name q : segs_under c name = Some q <-> segs_of name = GOk (c ++ q).
Proof.
  unfold segs_under. destruct (segs_of name) as [s|e].
  - rewrite strip_prefix_spec. split; [intros ->; reflexivity | intro H; inversion H; reflexivity].
  - split; discriminate.
Qed.

Lemma hp_below root c q : hp root (c ++ q) = hp (root ++ c) q.
Proof. unfold hp. apply app_assoc. Qed.

(** ** Frame: a request of the client of [c] leaves everything incomparable with
    [root ++ c] exactly as it was *)
Section Frame.
  Variables (root c y : path).
  Hypothesis Hfar : forall q, incomparable (hp root (c ++ q)) y = true.

  Lemma copy_move_checks_segs sb src dst ow ss n ds cr :
    copy_move_checks root sb src dst ow = GOk (ss, n, ds, cr) ->
    segs_of src = GOk ss /\ segs_of dst = GOk ds.
  Proof.
    unfold copy_move_checks.
    destruct (segs_of src) as [ss0|]; [|discriminate].
    destruct (segs_of dst) as [ds0|]; [|discriminate].
    destruct (is_prefix ss0 ds0 || is_prefix ds0 ss0); [discriminate|].
    destruct (geto sb (hp root ss0)); [|discriminate].
    destruct (negb (is_dir (geto sb (hp root (parent ds0))))); [discriminate|].
    destruct (exists_ (geto sb (hp root ds0))); [destruct ow|]; intro H; inversion H; auto.
  Qed.

  Lemma serve_frame sb r :
    req_of_client c r = true -> geto (fst (serve root sb r)) y = geto sb y.
  Proof.
    unfold req_of_client. destruct (segs_under c (rpath r)) as [q|] eqn:Eq; [|discriminate].
    apply segs_under_spec in Eq. intro H. apply andb_true_iff in H. destruct H as [_ Hd].
    unfold serve. cbv zeta.
    destruct (String.eqb (meth r) "OPTIONS").
    { unfold do_options. destruct (segs_of (rpath r)); reflexivity. }
    destruct (String.eqb (meth r) "GET").
    { unfold do_get. destruct (stat root sb (dir_tag r) (rpath r)) as [[? [? ?|?]]|]; reflexivity. }
    destruct (String.eqb (meth r) "HEAD").
    { unfold do_get. destruct (stat root sb (dir_tag r) (rpath r)) as [[? [? ?|?]]|]; reflexivity. }
    destruct (String.eqb (meth r) "PUT").
    { unfold do_put. rewrite Eq.
      destruct (req_cond r _); [reflexivity|].
      destruct (is_dir _ || _); [reflexivity|].
      destruct (negb _); [reflexivity|].
      destruct (body_fails r); [reflexivity|].
      destruct (seto sb (hp root (c ++ q)) _) eqn:E; [|reflexivity].
      cbn [fst]. eapply geto_seto_far; eauto. }
    destruct (String.eqb (meth r) "DELETE").
    { unfold do_delete, stat. rewrite Eq.
      destruct (geto sb (hp root (c ++ q))); [|reflexivity].
      destruct (req_cond r _); [reflexivity|].
      cbn [fst]. apply geto_remo_far. apply Hfar. }
    destruct (String.eqb (meth r) "PROPFIND").
    { unfold do_propfind.
      destruct (pf r); try reflexivity;
      (destruct (String.eqb (h_depth r) ""); [|destruct (String.eqb (h_depth r) "0"); [|destruct (String.eqb (h_depth r) "1"); [|destruct (String.eqb (h_depth r) "infinity"); [|reflexivity]]]]);
      destruct (stat root sb (dir_tag r) (rpath r)) as [[? ?]|]; reflexivity. }
    destruct (String.eqb (meth r) "MKCOL").
    { unfold do_mkcol. destruct (negb (String.eqb (h_ctype r) "")); [reflexivity|]. rewrite Eq.
      destruct (exists_ _); [reflexivity|].
      destruct (negb _); [reflexivity|].
      destruct (seto sb (hp root (c ++ q)) (Dir [])) eqn:E; [|reflexivity].
      cbn [fst]. eapply geto_seto_far; eauto. }
    destruct (String.eqb (meth r) "COPY" || String.eqb (meth r) "MOVE") eqn:CM.
    2:{ destruct (String.eqb (meth r) "PROPPATCH"); [unfold do_proppatch; destruct (pf r)|]; reflexivity. }
    unfold is_copy_move in Hd. rewrite CM in Hd.
    unfold do_copy_move.
    destruct (h_dest r) as [| |dst]; try reflexivity.
    destruct (segs_under c dst) as [qd|] eqn:Ed; [|discriminate]. apply segs_under_spec in Ed.
    assert (COPY : forall rec ow, geto (fst (do_copy root sb r dst rec ow)) y = geto sb y).
    { intros rec ow. unfold do_copy.
      destruct (copy_move_checks root sb (rpath r) dst ow) as [[[[ss n] ds] cr]|] eqn:Ec; [|reflexivity].
      destruct (copy_move_checks_segs _ _ _ _ _ _ _ _ Ec) as [S1 S2].
      rewrite Ed in S2. inversion S2; subst ds.
      destruct (seto (remo sb (hp root (c ++ qd))) (hp root (c ++ qd)) _) eqn:E; [|reflexivity].
      cbn [fst]. rewrite (geto_seto_far _ _ _ _ _ E (Hfar qd)). apply geto_remo_far. apply Hfar. }
    assert (MOVE : forall ow, geto (fst (do_move root sb r dst ow)) y = geto sb y).
    { intros ow. unfold do_move.
      destruct (copy_move_checks root sb (rpath r) dst ow) as [[[[ss n] ds] cr]|] eqn:Ec; [|reflexivity].
      destruct (copy_move_checks_segs _ _ _ _ _ _ _ _ Ec) as [S1 S2].
      rewrite Ed in S2. inversion S2; subst ds. rewrite Eq in S1. inversion S1; subst ss.
      destruct (seto (remo (remo sb (hp root (c ++ qd))) (hp root (c ++ q))) (hp root (c ++ qd)) n) eqn:E; [|reflexivity].
      cbn [fst]. rewrite (geto_seto_far _ _ _ _ _ E (Hfar qd)).
      rewrite geto_remo_far by apply Hfar. apply geto_remo_far. apply Hfar. }
    destruct (String.eqb (h_overwrite r) ""); [|destruct (String.eqb (h_overwrite r) "T"); [|destruct (String.eqb (h_overwrite r) "F"); [|reflexivity]]];
    (destruct (String.eqb (h_depth r) ""); [|destruct (String.eqb (h_depth r) "0"); [|destruct (String.eqb (h_depth r) "1"); [|destruct (String.eqb (h_depth r) "infinity"); [|reflexivity]]]]);
    destruct (String.eqb (meth r) "COPY"); cbv iota; cbn [N.eqb Pos.eqb negb];
    first [apply COPY | apply MOVE | reflexivity].
  Qed.
End Frame.

(** ** Locality: what a request of the client of [c] answers, and what it makes of
    the subtree at [root ++ c], is a function of that subtree *)

Lemma seto_keeps_dir ch q x t : q <> [] -> seto (Some (Dir ch)) q x = Some t -> is_dir (Some t) = true.
Proof.
  destruct q as [|s r]; [congruence|]. intros _ H. cbn [seto] in H.
  destruct (seto (assoc s ch) r x); inversion H; reflexivity.
Qed.

Lemma remo_keeps_dir ch q : q <> [] -> is_dir (remo (Some (Dir ch)) q) = true.
Proof.
  destruct q as [|s r]; [congruence|]. intros _. cbn [remo].
  destruct (assoc s ch); [|reflexivity]. destruct (remo (Some n) r); reflexivity.
Qed.

Lemma parent_below (c q : path) : q <> [] -> parent (c ++ q) = c ++ parent q.
Proof. intro H. unfold parent. apply removelast_app. exact H. Qed.

Section View.
  Variables (root c : path) (ch : list (string * node)) (s : option node).
  Let P := root ++ c.
  Let n := Dir ch.
  Hypothesis Hv : geto s P = Some n.

  Lemma lk q : geto s (hp root (c ++ q)) = geto (Some n) q.
  Proof. rewrite hp_below. apply (look P s n Hv q). Qed.

  Lemma lk_parent q : q <> [] -> geto s (hp root (parent (c ++ q))) = geto (Some n) (parent q).
  Proof. intro H. rewrite parent_below by exact H. apply lk. Qed.

  Lemma lk_parent2 q : q <> [] -> geto s (parent (hp root (c ++ q))) = geto (Some n) (parent q).
  Proof.
    intro H. rewrite hp_below. unfold hp, parent. rewrite removelast_app by exact H.
    rewrite geto_app. fold P. rewrite Hv. reflexivity.
  Qed.

  Lemma st q x :
    match seto s (hp root (c ++ q)) x, seto (Some n) q x with
    | Some t, Some n' => geto (Some t) P = Some n'
    | None, None => True
    | _, _ => False
    end.
  Proof. rewrite hp_below. apply (set_view P s n Hv q x). Qed.

  Lemma rm q : q <> [] -> geto (remo s (hp root (c ++ q))) P = remo (Some n) q.
  Proof.
    intro H. rewrite hp_below. pose proof (rem_view P s n Hv q) as R.
    unfold hp in *. cbn [app] in R. exact R.
  Qed.
End View.

Section Local.
  Variables (root c : path) (ch : list (string * node)).
  Local Notation P := (root ++ c).
  Local Notation n := (Dir ch).

  (** the outcome of one action as seen by the client: result, new view *)
  Definition seen (a : act) (s : option node) : result * option node :=
    (snd (act_step root s a), geto (fst (act_step root s a)) P).

  Variables s1 s2 : option node.
  Hypothesis Hv1 : geto s1 P = Some n.
  Hypothesis Hv2 : geto s2 P = Some n.

  Ltac reads := rewrite ?(lk root c ch s1 Hv1), ?(lk root c ch s2 Hv2).
  Ltac same := split; [reflexivity | split; [rewrite Hv1, Hv2; reflexivity | rewrite Hv1; reflexivity]].

  (** writing [x] at [c ++ q] in both sandboxes *)
  Lemma set_both q x :
    q <> [] ->
    match seto s1 (hp root (c ++ q)) x, seto s2 (hp root (c ++ q)) x with
    | Some t1, Some t2 => geto (Some t1) P = geto (Some t2) P /\ is_dir (geto (Some t1) P) = true
    | None, None => True
    | _, _ => False
    end.
  Proof.
    intro Hq. pose proof (st root c ch s1 Hv1 q x) as A. pose proof (st root c ch s2 Hv2 q x) as B.
    destruct (seto s1 (hp root (c ++ q)) x) as [t1|]; destruct (seto s2 (hp root (c ++ q)) x) as [t2|];
      destruct (seto (Some n) q x) as [n'|] eqn:E; try contradiction; auto.
    split; [congruence|]. rewrite A. eapply seto_keeps_dir; eauto.
  Qed.

  Definition agree (X1 X2 : option node * response) : Prop :=
    snd X1 = snd X2 /\ geto (fst X1) P = geto (fst X2) P /\ is_dir (geto (fst X1) P) = true.

  Lemma agree_same resp : agree (s1, resp) (s2, resp).
  Proof. unfold agree. cbn [fst snd]. rewrite Hv1, Hv2. auto. Qed.

  Lemma put_local r q : segs_of (rpath r) = GOk (c ++ q) -> agree (do_put root s1 r) (do_put root s2 r).
  Proof.
    intro Eq. unfold do_put. rewrite Eq. reads.
    destruct (req_cond r _); [apply agree_same|].
    destruct q as [|x q'].
    { (* the collection itself: a collection, 405 *)
      cbn [geto is_dir orb]. apply agree_same. }
    destruct (is_dir (geto (Some n) (x :: q')) || match c ++ x :: q' with [] => true | _ => false end); [apply agree_same|].
    rewrite !(lk_parent root c ch s1 Hv1), !(lk_parent root c ch s2 Hv2) by discriminate.
    destruct (negb (is_dir (geto (Some n) (parent (x :: q'))))); [apply agree_same|].
    destruct (body_fails r); [apply agree_same|].
    pose proof (set_both (x :: q') (File (body r) (stamp r))) as S.
    destruct (seto s1 (hp root (c ++ x :: q')) _) as [t1|]; destruct (seto s2 (hp root (c ++ x :: q')) _) as [t2|];
      try (exfalso; apply S; discriminate); try apply agree_same.
    destruct S as [S1 S2]; [discriminate|]. unfold agree. cbn [fst snd]. auto.
  Qed.

  Lemma rm_both q :
    q <> [] ->
    geto (remo s1 (hp root (c ++ q))) P = geto (remo s2 (hp root (c ++ q))) P /\
    exists ch', geto (remo s1 (hp root (c ++ q))) P = Some (Dir ch').
  Proof.
    intro Hq. rewrite (rm root c ch s1 Hv1 q Hq), (rm root c ch s2 Hv2 q Hq). split; [reflexivity|].
    pose proof (remo_keeps_dir ch q Hq) as D.
    destruct (remo (Some n) q) as [[? ?|ch']|]; try discriminate. eauto.
  Qed.

  Lemma delete_local r q :
    segs_of (rpath r) = GOk (c ++ q) -> q <> [] -> agree (do_delete root s1 r) (do_delete root s2 r).
  Proof.
    intros Eq Hq. unfold do_delete, stat. rewrite Eq. reads.
    destruct (geto (Some n) q); [|apply agree_same].
    destruct (req_cond r _); [apply agree_same|].
    destruct (rm_both q Hq) as [A [ch' B]]. unfold agree. cbn [fst snd].
    split; [reflexivity|]. split; [exact A|]. rewrite B. reflexivity.
  Qed.

  Lemma mkcol_local r q : segs_of (rpath r) = GOk (c ++ q) -> agree (do_mkcol root s1 r) (do_mkcol root s2 r).
  Proof.
    intro Eq. unfold do_mkcol. destruct (negb (String.eqb (h_ctype r) "")); [apply agree_same|].
    rewrite Eq. reads.
    destruct (exists_ (geto (Some n) q)) eqn:Ex; [apply agree_same|].
    assert (Hq : q <> []) by (intros ->; cbn in Ex; discriminate).
    rewrite (lk_parent2 root c ch s1 Hv1 q Hq), (lk_parent2 root c ch s2 Hv2 q Hq).
    destruct (negb (is_dir (geto (Some n) (parent q)))); [apply agree_same|].
    pose proof (set_both q (Dir []) Hq) as S.
    destruct (seto s1 (hp root (c ++ q)) _) as [t1|]; destruct (seto s2 (hp root (c ++ q)) _) as [t2|];
      try contradiction; try apply agree_same.
    destruct S as [S1 S2]. unfold agree. cbn [fst snd]. auto.
  Qed.

  Lemma checks_local src dst ow qs qd :
    segs_of src = GOk (c ++ qs) -> segs_of dst = GOk (c ++ qd) ->
    copy_move_checks root s1 src dst ow = copy_move_checks root s2 src dst ow.
  Proof.
    intros E1 E2. unfold copy_move_checks. rewrite E1, E2. rewrite is_prefix_app_l, is_prefix_app_l.
    destruct (is_prefix qs qd || is_prefix qd qs) eqn:Epre; [reflexivity|].
    assert (Hqd : qd <> []).
    { intros ->. apply orb_false_iff in Epre. destruct Epre as [_ E]. discriminate. }
    reads. rewrite (lk_parent root c ch s1 Hv1 qd Hqd), (lk_parent root c ch s2 Hv2 qd Hqd). reflexivity.
  Qed.

  Lemma checks_below sb src dst ow qs qd ss n0 ds cr :
    segs_of src = GOk (c ++ qs) -> segs_of dst = GOk (c ++ qd) ->
    copy_move_checks root sb src dst ow = GOk (ss, n0, ds, cr) ->
    ss = c ++ qs /\ ds = c ++ qd /\ qs <> [] /\ qd <> [].
  Proof.
    intros E1 E2 Hc. destruct (copy_move_checks_segs _ _ _ _ _ _ _ _ _ Hc) as [S1 S2].
    rewrite E1 in S1. rewrite E2 in S2. inversion S1; inversion S2; subst.
    split; [reflexivity|]. split; [reflexivity|].
    unfold copy_move_checks in Hc. rewrite E1, E2, !is_prefix_app_l in Hc.
    destruct (is_prefix qs qd || is_prefix qd qs) eqn:Epre; [discriminate|].
    apply orb_false_iff in Epre. destruct Epre as [A B].
    split; intros ->; discriminate.
  Qed.

  Lemma copy_local r dst rec ow qs qd :
    segs_of (rpath r) = GOk (c ++ qs) -> segs_of dst = GOk (c ++ qd) ->
    agree (do_copy root s1 r dst rec ow) (do_copy root s2 r dst rec ow).
  Proof.
    intros E1 E2. unfold do_copy. rewrite <- (checks_local _ _ ow _ _ E1 E2).
    destruct (copy_move_checks root s1 (rpath r) dst ow) as [[[[ss n0] ds] cr]|] eqn:Ec; [|apply agree_same].
    destruct (checks_below _ _ _ _ _ _ _ _ _ _ E1 E2 Ec) as (-> & -> & Hqs & Hqd).
    destruct (rm_both qd Hqd) as [A [ch' B]].
    set (x := if rec then copy_tree (stamp r) n0 else copy_shallow (stamp r) n0).
    assert (B2 : geto (remo s2 (hp root (c ++ qd))) P = Some (Dir ch')) by (rewrite <- A; exact B).
    pose proof (st root c ch' (remo s1 (hp root (c ++ qd))) B qd x) as S1.
    pose proof (st root c ch' (remo s2 (hp root (c ++ qd))) B2 qd x) as S2.
    destruct (seto (remo s1 (hp root (c ++ qd))) (hp root (c ++ qd)) x) as [t1|];
      destruct (seto (remo s2 (hp root (c ++ qd))) (hp root (c ++ qd)) x) as [t2|];
      destruct (seto (Some (Dir ch')) qd x) as [n'|] eqn:E; try contradiction; try apply agree_same.
    unfold agree. cbn [fst snd]. split; [reflexivity|]. split; [congruence|].
    rewrite S1. eapply seto_keeps_dir; eauto.
  Qed.

  Lemma move_local r dst ow qs qd :
    segs_of (rpath r) = GOk (c ++ qs) -> segs_of dst = GOk (c ++ qd) ->
    agree (do_move root s1 r dst ow) (do_move root s2 r dst ow).
  Proof.
    intros E1 E2. unfold do_move. rewrite <- (checks_local _ _ ow _ _ E1 E2).
    destruct (copy_move_checks root s1 (rpath r) dst ow) as [[[[ss n0] ds] cr]|] eqn:Ec; [|apply agree_same].
    destruct (checks_below _ _ _ _ _ _ _ _ _ _ E1 E2 Ec) as (-> & -> & Hqs & Hqd).
    destruct (rm_both qd Hqd) as [A [ch' B]].
    assert (B2 : geto (remo s2 (hp root (c ++ qd))) P = Some (Dir ch')) by (rewrite <- A; exact B).
    (* second removal: the source *)
    pose proof (rm root c ch' (remo s1 (hp root (c ++ qd))) B qs Hqs) as R1.
    pose proof (rm root c ch' (remo s2 (hp root (c ++ qd))) B2 qs Hqs) as R2.
    pose proof (remo_keeps_dir ch' qs Hqs) as D.
    destruct (remo (Some (Dir ch')) qs) as [[? ?|ch'']|] eqn:Er; try discriminate.
    pose proof (st root c ch'' _ R1 qd n0) as S1. pose proof (st root c ch'' _ R2 qd n0) as S2.
    destruct (seto (remo (remo s1 (hp root (c ++ qd))) (hp root (c ++ qs))) (hp root (c ++ qd)) n0) as [t1|];
      destruct (seto (remo (remo s2 (hp root (c ++ qd))) (hp root (c ++ qs))) (hp root (c ++ qd)) n0) as [t2|];
      destruct (seto (Some (Dir ch'')) qd n0) as [n'|] eqn:E; try contradiction; try apply agree_same.
    unfold agree. cbn [fst snd]. split; [reflexivity|]. split; [congruence|].
    rewrite S1. eapply seto_keeps_dir; eauto.
  Qed.

  (** a request of the client: same answer from both sandboxes, same new subtree, still a collection *)
  Theorem serve_local r :
    req_of_client c r = true -> agree (serve root s1 r) (serve root s2 r).
  Proof.
    unfold req_of_client. destruct (segs_under c (rpath r)) as [q|] eqn:Eq; [|discriminate].
    apply segs_under_spec in Eq. intro H. apply andb_true_iff in H. destruct H as [Hdel Hd].
    unfold serve. cbv zeta.
    destruct (String.eqb (meth r) "OPTIONS").
    { unfold do_options. rewrite Eq. reads. apply agree_same. }
    destruct (String.eqb (meth r) "GET").
    { unfold do_get, stat. rewrite Eq. reads. destruct (geto (Some n) q) as [[? ?|?]|]; apply agree_same. }
    destruct (String.eqb (meth r) "HEAD").
    { unfold do_get, stat. rewrite Eq. reads. destruct (geto (Some n) q) as [[? ?|?]|]; apply agree_same. }
    destruct (String.eqb (meth r) "PUT"); [apply (put_local r q Eq)|].
    destruct (String.eqb (meth r) "DELETE").
    { apply (delete_local r q Eq). destruct q; [discriminate|discriminate]. }
    destruct (String.eqb (meth r) "PROPFIND").
    { unfold do_propfind, stat. rewrite Eq. reads.
      destruct (pf r); try apply agree_same;
      (destruct (String.eqb (h_depth r) ""); [|destruct (String.eqb (h_depth r) "0"); [|destruct (String.eqb (h_depth r) "1"); [|destruct (String.eqb (h_depth r) "infinity"); [|apply agree_same]]]]);
      destruct (geto (Some n) q); apply agree_same. }
    destruct (String.eqb (meth r) "MKCOL"); [apply (mkcol_local r q Eq)|].
    destruct (String.eqb (meth r) "COPY" || String.eqb (meth r) "MOVE") eqn:CM.
    2:{ destruct (String.eqb (meth r) "PROPPATCH"); [unfold do_proppatch; destruct (pf r)|]; apply agree_same. }
    unfold is_copy_move in Hd. rewrite CM in Hd.
    unfold do_copy_move.
    destruct (h_dest r) as [| |dst]; try apply agree_same.
    destruct (segs_under c dst) as [qd|] eqn:Ed; [|discriminate]. apply segs_under_spec in Ed.
    destruct (String.eqb (h_overwrite r) ""); [|destruct (String.eqb (h_overwrite r) "T"); [|destruct (String.eqb (h_overwrite r) "F"); [|apply agree_same]]];
    (destruct (String.eqb (h_depth r) ""); [|destruct (String.eqb (h_depth r) "0"); [|destruct (String.eqb (h_depth r) "1"); [|destruct (String.eqb (h_depth r) "infinity"); [|apply agree_same]]]]);
    destruct (String.eqb (meth r) "COPY"); cbv iota; cbn [N.eqb Pos.eqb negb];
    first [apply (copy_local r dst _ _ q qd Eq Ed) | apply (move_local r dst _ q qd Eq Ed) | apply agree_same].
  Qed.
End Local.

(** ** Every action of a client: frame and locality *)
Lemma nonempty_below_spec c p : nonempty_below c p = true -> exists q, p = c ++ q /\ q <> [].
Proof.
  unfold nonempty_below. destruct (strip_prefix c p) as [[|x q]|] eqn:E; try discriminate.
  intros _. apply strip_prefix_spec in E. exists (x :: q). split; [exact E | discriminate].
Qed.

Lemma act_frame root c y s a :
  (forall q, incomparable (hp root (c ++ q)) y = true) -> owns c a = true ->
  geto (fst (act_step root s a)) y = geto s y.
Proof.
  intros Hfar O. destruct a as [r|p|p x|p|src dst ow]; cbn [act_step fst owns] in *; try reflexivity.
  - apply serve_frame with (c := c); auto.
  - destruct (nonempty_below_spec _ _ O) as (q & -> & _).
    destruct (seto s (root ++ c ++ q) x) eqn:E; [|reflexivity]. cbn [fst].
    eapply geto_seto_far; [exact E | apply (Hfar q)].
  - destruct (nonempty_below_spec _ _ O) as (q & -> & _). apply geto_remo_far. apply (Hfar q).
Qed.

Lemma act_agree root c ch s1 s2 a :
  geto s1 (root ++ c) = Some (Dir ch) -> geto s2 (root ++ c) = Some (Dir ch) -> owns c a = true ->
  snd (act_step root s1 a) = snd (act_step root s2 a) /\
  geto (fst (act_step root s1 a)) (root ++ c) = geto (fst (act_step root s2 a)) (root ++ c) /\
  is_dir (geto (fst (act_step root s1 a)) (root ++ c)) = true.
Proof.
  intros Hv1 Hv2 O.
  assert (SAME : forall (x : result), (x = x) /\ geto s1 (root ++ c) = geto s2 (root ++ c) /\ is_dir (geto s1 (root ++ c)) = true).
  { intro x. rewrite Hv1, Hv2. auto. }
  destruct a as [r|p|p x|p|src dst ow]; cbn [act_step fst snd owns] in *.
  - destruct (serve_local root c ch s1 s2 Hv1 Hv2 r O) as (A & B & C). rewrite A. auto.
  - apply is_prefix_spec in O. destruct O as [q ->].
    pose proof (lk root c ch s1 Hv1 q) as L1. pose proof (lk root c ch s2 Hv2 q) as L2.
    unfold hp in L1, L2. rewrite L1, L2. apply SAME.
  - destruct (nonempty_below_spec _ _ O) as (q & -> & Hq).
    pose proof (set_both root c ch s1 s2 Hv1 Hv2 q x Hq) as S. unfold hp in S.
    destruct (seto s1 (root ++ c ++ q) x) as [t1|]; destruct (seto s2 (root ++ c ++ q) x) as [t2|];
      try contradiction; cbn [fst snd]; [|apply SAME].
    destruct S as [S1 S2]. auto.
  - destruct (nonempty_below_spec _ _ O) as (q & -> & Hq).
    destruct (rm_both root c ch s1 s2 Hv1 Hv2 q Hq) as [A [ch' B]]. unfold hp in A, B.
    split; [reflexivity|]. split; [exact A|]. rewrite B. reflexivity.
  - destruct (segs_under c src) as [qs|] eqn:E1; [|discriminate].
    destruct (segs_under c dst) as [qd|] eqn:E2; [|discriminate].
    apply segs_under_spec in E1. apply segs_under_spec in E2.
    rewrite (checks_local root c ch s1 s2 Hv1 Hv2 src dst ow qs qd E1 E2). apply SAME.
Qed.

(** ** The instance of the generic theorem *)
Section Clients.
  Variables (root : path) (colls : list path) (Ret : Type).
  Hypothesis PI : pairwise_incomparable colls = true.

  Definition cacts (i : nat) (a : act) : Prop := exists c, nth_error colls i = Some c /\ owns c a = true.
  Definition cok (v : option node) : Prop := view_ok v = true.

  Lemma c_frame i j a s : cacts i a -> j <> i -> cview root colls j (fst (act_step root s a)) = cview root colls j s.
  Proof.
    intros (c & N & O) NE. unfold cview. destruct (nth_error colls j) as [c'|] eqn:M; [|reflexivity].
    apply act_frame with (c := c); auto. intro q. unfold hp.
    rewrite incomparable_root. rewrite <- (app_nil_r c'). apply incomparable_below.
    eapply pairwise_nth; eauto.
  Qed.

  Lemma c_local i a s1 s2 : cacts i a -> cok (cview root colls i s1) -> cview root colls i s1 = cview root colls i s2 ->
    snd (act_step root s1 a) = snd (act_step root s2 a) /\
    cview root colls i (fst (act_step root s1 a)) = cview root colls i (fst (act_step root s2 a)).
  Proof.
    intros (c & N & O) K E. unfold cview, cok, view_ok in *. rewrite N in *.
    destruct (geto s1 (root ++ c)) as [[? ?|ch]|] eqn:V1; try discriminate. symmetry in E.
    destruct (act_agree root c ch s1 s2 a V1 E O) as (A & B & _). auto.
  Qed.

  Lemma c_keep i a s : cacts i a -> cok (cview root colls i s) -> cok (cview root colls i (fst (act_step root s a))).
  Proof.
    intros (c & N & O) K. unfold cview, cok, view_ok in *. rewrite N in *.
    destruct (geto s (root ++ c)) as [[? ?|ch]|] eqn:V1; try discriminate.
    destruct (act_agree root c ch s s a V1 V1 O) as (_ & _ & C). exact C.
  Qed.

  Notation prog := (tprog act result Ret).
  Definition cowned := owned act result Ret cacts.
  Definition cwf := wf (option node) act result Ret cacts.
  Definition csim := sim (option node) act result Ret (option node) (cview root colls) cok.

  (** Clients of pairwise disjoint collections of one served directory, each running an
      adaptive program of its own actions (whole requests through [serve], or single
      OS calls below its collection): two schedules that give client i equally many
      steps leave it with the same continuation — at the end the same result — and
      the same subtree at its collection. *)
  Theorem clients_sim i sched sched' (g g' : list prog * option node) :
    cwf g -> cwf g' -> count_occ Nat.eq_dec sched i = count_occ Nat.eq_dec sched' i ->
    csim i g g' -> csim i (trun (act_step root) g sched) (trun (act_step root) g' sched').
  Proof. apply threads_sim; [apply c_frame | apply c_local | apply c_keep]. Qed.

  Theorem clients_alone i sched (g : list prog * option node) :
    cwf g -> cok (cview root colls i (snd g)) ->
    csim i (trun (act_step root) g sched) (trun (act_step root) g (repeat i (count_occ Nat.eq_dec sched i))).
  Proof. apply threads_alone; [apply c_frame | apply c_local | apply c_keep]. Qed.

  Theorem clients_stalled_harmless i j sched (g : list prog * option node) :
    cwf g -> cok (cview root colls i (snd g)) -> i <> j ->
    csim i (trun (act_step root) g sched) (trun (act_step root) g (remove Nat.eq_dec j sched)).
  Proof. apply stalled_harmless; [apply c_frame | apply c_local | apply c_keep]. Qed.
End Clients.

(** * 3. Programs run alone, and what that means in terms of [serve] / [run] *)

Fixpoint exec_prog {Ret} (root : path) (p : tprog act result Ret) (s : option node) : option node * Ret :=
  match p with
  | TRet r => (s, r)
  | TCall a k => let sr := act_step root s a in exec_prog root (k (snd sr)) (fst sr)
  end.

Lemma upd_nth_twice {A} (l : list A) : forall i x y, upd_nth i x (upd_nth i y l) = upd_nth i x l.
Proof. induction l as [|a l IH]; intros [|i] x y; simpl; auto. rewrite IH. reflexivity. Qed.

Lemma upd_nth_same {A} (l : list A) : forall i x, nth_error l i = Some x -> upd_nth i x l = l.
Proof.
  induction l as [|a l IH]; intros [|i] x H; simpl in *; try discriminate; auto.
  - inversion H. reflexivity.
  - rewrite IH; auto.
Qed.

(** scheduled alone and long enough, a thread ends with [exec_prog]'s result and state *)
Lemma alone_exec {Ret} root (p : tprog act result Ret) : forall progs s i,
  nth_error progs i = Some p ->
  exists n, forall m, n <= m ->
    trun (act_step root) (progs, s) (repeat i m) =
    (upd_nth i (TRet (snd (exec_prog root p s))) progs, fst (exec_prog root p s)).
Proof.
  induction p as [r|a k IH]; intros progs s i N.
  - exists 0. intros m _. cbn [exec_prog fst snd]. rewrite (upd_nth_same _ _ _ N).
    induction m as [|m IHm]; [reflexivity|]. cbn [repeat trun fold_left].
    unfold tstep at 2. cbn [fst snd]. rewrite N. exact IHm.
  - set (sr := act_step root s a).
    assert (N' : nth_error (upd_nth i (k (snd sr)) progs) i = Some (k (snd sr))) by (eapply nth_upd_same; eauto).
    destruct (IH (snd sr) (upd_nth i (k (snd sr)) progs) (fst sr) i N') as [n Hn].
    exists (S n). intros m Hm. destruct m as [|m]; [lia|].
    cbn [repeat trun fold_left]. unfold tstep at 2. cbn [fst snd]. rewrite N. fold sr.
    unfold trun in Hn. rewrite (Hn m) by lia. cbn [exec_prog]. fold sr.
    rewrite upd_nth_twice. reflexivity.
Qed.

(** a client's list of requests, as a program, is [DavServer.run] *)
Lemma exec_requests root (rs : list request) : forall acc s,
  exec_prog root (of_list acc (map AReq rs) (fun l => l)) s =
  (fst (run root s rs), rev acc ++ map RResp (snd (run root s rs))).
Proof.
  induction rs as [|r rs IH]; intros acc s.
  - cbn. rewrite app_nil_r. reflexivity.
  - cbn [map of_list exec_prog act_step fst snd run].
    rewrite IH. destruct (serve root s r) as [s1 resp]. cbn [fst snd].
    destruct (run root s1 rs) as [s2 resps]. cbn [fst snd rev map].
    rewrite <- app_assoc. reflexivity.
Qed.

(** a program of [k] requests has finished after [k] steps of its own *)
Lemma requests_finish root i (rs : list request) : forall progs s acc m,
  nth_error progs i = Some (of_list acc (map AReq rs) (fun l => l)) -> List.length rs <= m ->
  trun (act_step root) (progs, s) (repeat i m) =
  (upd_nth i (TRet (snd (exec_prog root (of_list acc (map AReq rs) (fun l => l)) s))) progs,
   fst (exec_prog root (of_list acc (map AReq rs) (fun l => l)) s)).
Proof.
  induction rs as [|r rs IH]; intros progs s acc m NP Hm.
  - cbn [map of_list exec_prog fst snd] in *. rewrite (upd_nth_same _ _ _ NP).
    clear Hm. induction m as [|m IHm]; [reflexivity|]. cbn [repeat trun fold_left].
    unfold tstep at 2. cbn [fst snd]. rewrite NP. apply IHm.
  - destruct m as [|m]; [cbn in Hm; lia|]. cbn [repeat trun fold_left].
    unfold tstep at 2. cbn [fst snd]. rewrite NP. cbn [map of_list].
    set (sr := act_step root s (AReq r)).
    unfold trun in IH.
    rewrite (IH (upd_nth i (of_list (snd sr :: acc) (map AReq rs) (fun l => l)) progs) (fst sr) (snd sr :: acc) m).
    + cbn [exec_prog]. fold sr. rewrite upd_nth_twice. reflexivity.
    + eapply nth_upd_same; eauto.
    + cbn in Hm. lia.
Qed.

Section ServeLevel.
  Variables (root : path) (colls : list path).
  Hypothesis PI : pairwise_incomparable colls = true.

  Notation prog := (tprog act result (list result)).

  Definition requests_prog (rs : list request) : prog := of_list [] (map AReq rs) (fun l => l).

  Lemma of_list_owned i c (rs : list request) : nth_error colls i = Some c ->
    forallb (req_of_client c) rs = true ->
    forall acc, cowned colls (list result) i (of_list acc (map AReq rs) (fun l => l)).
  Proof.
    intros N. induction rs as [|r rs IH]; intros F acc; cbn; [exact I|].
    cbn in F. apply andb_true_iff in F. destruct F as [F1 F2].
    split; [exists c; auto|]. intro b. apply IH. exact F2.
  Qed.

  (** THE statement over [DavServer.serve] / [run]: clients on pairwise disjoint
      collections of one root, each issuing its own requests one after another; under
      ANY schedule that lets client i issue all its requests — whatever the others
      do, however far they get — client i receives the responses, and its
      collection ends as the subtree, that [run root s0 rs_i] gives it alone. *)
  Theorem serve_any_interleaving_alone (progs : list prog) s0 i c rs sched :
    cwf colls (list result) (progs, s0) ->
    nth_error colls i = Some c -> nth_error progs i = Some (requests_prog rs) ->
    view_ok (geto s0 (root ++ c)) = true ->
    List.length rs <= count_occ Nat.eq_dec sched i ->
    let g := trun (act_step root) (progs, s0) sched in
    nth_error (fst g) i = Some (TRet (map RResp (snd (run root s0 rs)))) /\
    geto (snd g) (root ++ c) = geto (fst (run root s0 rs)) (root ++ c).
  Proof.
    intros W NC NP K LE g.
    assert (K' : cok (cview root colls i (snd (progs, s0)))) by (unfold cok, cview; cbn [snd]; rewrite NC; exact K).
    destruct (clients_alone root colls (list result) PI i sched (progs, s0) W K') as (A & B & _).
    fold g in A, B.
    pose proof (requests_finish root i rs progs s0 [] (count_occ Nat.eq_dec sched i) NP LE) as FIN.
    unfold requests_prog in *.
    rewrite FIN in A, B. cbn [fst snd] in A, B.
    unfold requests_prog in A, B. rewrite exec_requests in A, B. cbn [fst snd rev app] in A, B.
    rewrite (nth_upd_same _ _ _ _ NP) in A.
    split; [exact A|]. unfold cview in B. rewrite NC in B. exact B.
  Qed.
End ServeLevel.

(** * 4. A COPY as the sequence of its OS calls (through a temporary name) *)

Lemma nonempty_below_app c ds x : nonempty_below c ds = true -> nonempty_below c (ds ++ x) = true.
Proof.
  intro H. destruct (nonempty_below_spec _ _ H) as (q & -> & Hq).
  unfold nonempty_below. rewrite <- app_assoc. rewrite strip_prefix_app.
  destruct q; [congruence|reflexivity].
Qed.

(** the temporary name lives in the destination's parent: below the client's collection
    because the destination is STRICTLY below it *)
Lemma nonempty_below_tmp c ds tmp : nonempty_below c ds = true -> nonempty_below c (parent ds ++ [tmp]) = true.
Proof.
  intro H. destruct (nonempty_below_spec _ _ H) as (q & -> & Hq).
  rewrite parent_below by exact Hq. unfold nonempty_below. rewrite <- app_assoc. rewrite strip_prefix_app.
  destruct (parent q); reflexivity.
Qed.

Lemma nonempty_below_prefix c p : nonempty_below c p = true -> is_prefix c p = true.
Proof. intro H. destruct (nonempty_below_spec _ _ H) as (q & -> & _). apply is_prefix_app. Qed.

Section CopyOwned.
  Variables (colls : list path) (i : nat) (c : path).
  Hypothesis N : nth_error colls i = Some c.

  Lemma copy_abort_owned tmpp : nonempty_below c tmpp = true -> cowned colls response i (copy_abort tmpp).
  Proof. intro B. cbn. split; [exists c; auto|]. intros _. exact I. Qed.

  Lemma copy_steps_owned tmpp st fin :
    nonempty_below c tmpp = true -> cowned colls response i fin ->
    forall es k, cowned colls response i (copy_steps tmpp st es k fin).
  Proof.
    intros B F. induction es as [|e es IH]; intro k; cbn [copy_steps]; [exact F|].
    assert (STEP : cowned colls response i
              (TCall (ASet (tmpp ++ fst e) (copy_shallow st (snd e)))
                 (fun b => match b with
                           | RDone true => copy_steps tmpp st es (option_map pred k) fin
                           | _ => copy_abort tmpp
                           end))).
    { cbn. split; [exists c; split; [exact N|]; cbn [owns]; apply nonempty_below_app; exact B|].
      intros [| |[|]|]; try apply (copy_abort_owned tmpp B). apply IH. }
    destruct k as [[|k]|]; [apply (copy_abort_owned tmpp B)|exact STEP|exact STEP].
  Qed.

  Lemma copy_finish_owned ds tmpp cr :
    nonempty_below c ds = true -> nonempty_below c tmpp = true ->
    cowned colls response i (copy_finish ds tmpp cr).
  Proof.
    intros D B.
    assert (R : cowned colls response i
              (TCall (AGet tmpp) (fun b =>
                 match b with
                 | RNode (Some t) =>
                   TCall (ARem tmpp) (fun _ => TCall (ASet ds t) (fun b2 =>
                     match b2 with RDone true => TRet (created_resp cr) | _ => TRet fail500 end))
                 | _ => TRet fail500
                 end))).
    { cbn. split; [exists c; split; [exact N|]; cbn [owns]; apply nonempty_below_prefix; exact B|].
      intros [|[t|]| |]; cbn; auto.
      split; [exists c; auto|]. intros _. split; [exists c; auto|]. intros [| |[|]|]; cbn; auto. }
    unfold copy_finish. destruct cr; [exact R|].
    cbn. split; [exists c; auto|]. intros _. exact R.
  Qed.

  (** every OS call of the COPY belongs to the client — whatever the calls return, with or
      without a fault — PROVIDED both paths of the request are at or below its collection:
      the checks then only pass for a destination strictly below it, so that the
      temporary name, a sibling of the destination, is below it too *)
  Lemma copy_prog_owned tmp k r dst rec ow qs qd :
    segs_under c (rpath r) = Some qs -> segs_under c dst = Some qd ->
    cowned colls response i (copy_prog c tmp k r dst rec ow).
  Proof.
    intros E1 E2. cbn. split.
    - exists c. split; [exact N|]. cbn [owns]. rewrite E1, E2. reflexivity.
    - intros [| | |[[[[ss n] ds] cr]|e]]; cbn; auto.
      destruct (nonempty_below c ds) eqn:B; cbn; auto.
      pose proof (nonempty_below_tmp c ds tmp B) as BT.
      split; [exists c; auto|]. intros [| |[|]|]; cbn; auto.
      split; [exists c; auto|]. intros _.
      apply copy_steps_owned; auto. apply copy_finish_owned; auto.
  Qed.
End CopyOwned.

(** ** Run alone *)
Lemma copy_steps_exec_ok root tmpp st fin : forall es s s1,
  copy_entries s (root ++ tmpp) st es = Some s1 ->
  exec_prog root (copy_steps tmpp st es None fin) s = exec_prog root fin (Some s1).
Proof.
  induction es as [|e es IH]; intros s s1 H.
  - cbn in H. subst s. reflexivity.
  - cbn [copy_entries] in H. unfold copy_entry in H.
    destruct (seto s ((root ++ tmpp) ++ fst e) (copy_shallow st (snd e))) as [s'|] eqn:E; [|discriminate].
    cbn [copy_steps exec_prog act_step]. rewrite <- app_assoc in E. rewrite E. cbn [fst snd option_map].
    apply IH. exact H.
Qed.

Lemma copy_steps_exec_fail root tmpp st fin : forall es k s s1,
  k < List.length es -> copy_entries s (root ++ tmpp) st (firstn k es) = Some s1 ->
  exec_prog root (copy_steps tmpp st es (Some k) fin) s = (remo (Some s1) (root ++ tmpp), fail500).
Proof.
  induction es as [|e es IH]; intros k s s1 L H; [cbn in L; lia|].
  destruct k as [|k].
  - cbn in H. subst s. reflexivity.
  - cbn [firstn copy_entries] in H. unfold copy_entry in H.
    destruct (seto s ((root ++ tmpp) ++ fst e) (copy_shallow st (snd e))) as [s'|] eqn:E; [|discriminate].
    cbn [copy_steps exec_prog act_step]. rewrite <- app_assoc in E. rewrite E. cbn [fst snd option_map pred].
    apply IH; [cbn in L; lia | exact H].
Qed.

Lemma checks_created root sb src dst ow ss n ds cr :
  copy_move_checks root sb src dst ow = GOk (ss, n, ds, cr) ->
  cr = negb (exists_ (geto sb (hp root ds))).
Proof.
  unfold copy_move_checks.
  destruct (segs_of src) as [ss0|]; [|discriminate].
  destruct (segs_of dst) as [ds0|]; [|discriminate].
  destruct (is_prefix ss0 ds0 || is_prefix ds0 ss0); [discriminate|].
  destruct (geto sb (hp root ss0)); [|discriminate].
  destruct (negb (is_dir (geto sb (hp root (parent ds0))))); [discriminate|].
  destruct (exists_ (geto sb (hp root ds0))) eqn:Ex; [destruct ow|]; intro H; inversion H; subst;
    rewrite Ex; reflexivity.
Qed.

Section CopyTmp.
  Variables (root : path) (sb : option node) (r : request) (dst : string) (rec ow : bool).
  Variables (ss : path) (n : node) (ds : path) (cr : bool) (tmp : string).
  Hypothesis Hchk : copy_move_checks root sb (rpath r) dst ow = GOk (ss, n, ds, cr).
  Hypothesis Hsorted : sorted_tree n = true.
  Hypothesis Hfresh : geto sb (hp root (parent ds) ++ [tmp]) = None.
  Hypothesis Hneq : tmp <> last ds ""%string.

  Let dsA := hp root ds.
  Let tmpA := hp root (parent ds) ++ [tmp].
  Let T := if rec then copy_tree (stamp r) n else copy_shallow (stamp r) n.

  Lemma tmp_act_path : root ++ parent ds ++ [tmp] = tmpA.
  Proof. unfold tmpA, hp. apply app_assoc. Qed.

  Lemma ct_facts :
    is_dir (geto sb (hp root (parent ds))) = true /\ ds <> [] /\ dsA <> [] /\ tmpA <> [] /\
    removelast tmpA = hp root (parent ds) /\ removelast dsA = hp root (parent ds) /\
    is_prefix tmpA dsA = false /\ is_prefix dsA tmpA = false.
  Proof.
    assert (Hpar : is_dir (geto sb (hp root (parent ds))) = true /\ ds <> []).
    { unfold copy_move_checks in Hchk.
      destruct (segs_of (rpath r)) as [ss0|]; [|discriminate].
      destruct (segs_of dst) as [ds0|]; [|discriminate].
      destruct (is_prefix ss0 ds0 || is_prefix ds0 ss0) eqn:Epre; [discriminate|].
      destruct (geto sb (hp root ss0)); [|discriminate].
      destruct (is_dir (geto sb (hp root (parent ds0)))) eqn:Ed; cbn [negb] in Hchk; [|discriminate].
      assert (ds0 = ds) by (destruct (exists_ (geto sb (hp root ds0))); [destruct ow|]; inversion Hchk; reflexivity).
      subst ds0. split; [exact Ed|].
      intros ->. destruct ss0; cbn in Epre; discriminate. }
    destruct Hpar as [Hpar Hne].
    assert (Hd : dsA = hp root (parent ds) ++ [last ds ""%string]) by (apply hp_parent_last; exact Hne).
    assert (Hdne : dsA <> []) by (rewrite Hd; destruct (hp root (parent ds)); discriminate).
    assert (Htne : tmpA <> []) by (unfold tmpA; destruct (hp root (parent ds)); discriminate).
    assert (R1 : removelast tmpA = hp root (parent ds)) by (unfold tmpA; apply removelast_last).
    assert (R2 : removelast dsA = hp root (parent ds)) by (rewrite Hd; apply removelast_last).
    assert (Hneqp : tmpA <> dsA).
    { unfold tmpA. rewrite Hd. intros E. apply app_inv_head in E. inversion E. congruence. }
    assert (Hlen : List.length tmpA = List.length dsA).
    { unfold tmpA. rewrite Hd, !app_length. reflexivity. }
    assert (Hnp : forall a b : path, List.length a = List.length b -> a <> b -> is_prefix a b = false).
    { intros a b Hl Hab. destruct (is_prefix a b) eqn:E; [|reflexivity]. exfalso.
      apply is_prefix_spec in E. destruct E as [suf E]. subst b. rewrite app_length in Hl.
      destruct suf; [rewrite app_nil_r in Hab; congruence|cbn in Hl; lia]. }
    repeat split; auto.
  Qed.

  (** the walk into the temporary name succeeds and maps the copied tree there *)
  Lemma ct_walk : exists s1,
    copy_entries sb tmpA (stamp r) (walk_entries n rec) = Some s1 /\ seto sb tmpA T = Some s1.
  Proof.
    destruct ct_facts as (Hpar & Hne & Hdne & Htne & R1 & R2 & Htd & Hdt).
    assert (Hwalk : copy_entries sb tmpA (stamp r) (walk_entries n rec) = seto sb tmpA T).
    { unfold T, walk_entries. destruct rec.
      - apply (copy_walk_is_copy_tree sb tmpA (stamp r) n Hsorted Htne Hfresh). rewrite R1. exact Hpar.
      - apply (copy_walk_shallow sb tmpA (stamp r) n). }
    destruct (seto_ok tmpA sb T Htne) as [s1 Hs1]; [rewrite R1; exact Hpar|].
    exists s1. rewrite Hwalk. auto.
  Qed.

  (** reserving the name (createTemp, Remove) changes nothing *)
  Lemma ct_reserve : exists t0,
    seto sb tmpA (File "" (stamp r)) = Some t0 /\ remo (Some t0) tmpA = sb.
  Proof.
    destruct ct_facts as (Hpar & Hne & Hdne & Htne & R1 & R2 & Htd & Hdt).
    destruct (seto_ok tmpA sb (File "" (stamp r)) Htne) as [t0 Ht0]; [rewrite R1; exact Hpar|].
    exists t0. split; [exact Ht0|]. apply (remo_seto_fresh tmpA sb _ t0 Htne Hfresh Ht0).
  Qed.

  Variable c : path.
  Hypothesis Hbelow : nonempty_below c ds = true.

  Lemma copy_prog_unfold k :
    exec_prog root (copy_prog c tmp k r dst rec ow) sb =
    exec_prog root (copy_steps (parent ds ++ [tmp]) (stamp r) (walk_entries n rec) k
                      (copy_finish ds (parent ds ++ [tmp]) cr)) sb.
  Proof.
    unfold copy_prog. cbn [exec_prog act_step fst snd]. rewrite Hchk, Hbelow.
    cbn [exec_prog act_step]. rewrite tmp_act_path.
    destruct ct_reserve as (t0 & Ht0 & Hr). rewrite Ht0. cbn [fst snd exec_prog act_step].
    rewrite tmp_act_path, Hr. reflexivity.
  Qed.

  (** A COPY in which the creation of entry number [k] of the walk fails: 500, and the
      sandbox is the very one it started from (CopyTempProofs.copy_fault_restores). *)
  Theorem copy_fault_alone k :
    k < List.length (walk_entries n rec) ->
    exec_prog root (copy_prog c tmp (Some k) r dst rec ow) sb = (sb, fail500).
  Proof.
    intro L. rewrite copy_prog_unfold.
    destruct ct_facts as (Hpar & Hne & Hdne & Htne & R1 & R2 & Htd & Hdt).
    destruct ct_walk as (s1 & Hw & _).
    (* the prefix of a successful walk succeeds *)
    assert (PRE : exists sk, copy_entries sb tmpA (stamp r) (firstn k (walk_entries n rec)) = Some sk).
    { destruct sb as [t|] eqn:Esb.
      - rewrite <- (firstn_skipn k (walk_entries n rec)) in Hw. rewrite copy_entries_app in Hw.
        destruct (copy_entries (Some t) tmpA (stamp r) (firstn k (walk_entries n rec))) as [sk|]; [eauto|discriminate].
      - rewrite geto_None in Hpar. discriminate. }
    destruct PRE as [sk Hk].
    rewrite <- tmp_act_path in Hk.
    rewrite (copy_steps_exec_fail root _ _ _ _ k sb sk L Hk). rewrite tmp_act_path.
    pose proof (copy_fault_restores sb dsA tmpA (stamp r) n rec k Htne Hfresh) as [F _].
    unfold copy_via_temp in F. apply Nat.ltb_lt in L. rewrite L in F.
    unfold copy_entries_upto in F. rewrite <- tmp_act_path in F. rewrite Hk in F. cbn [fst] in F.
    rewrite tmp_act_path in F. rewrite F. reflexivity.
  Qed.

  (** Without a fault: the response of the one step [do_copy], and at every path the
      names, kinds and bytes of its state (CopyTempProofs.copy_is_copy_via_temp). *)
  Theorem copy_ok_alone :
    snd (exec_prog root (copy_prog c tmp None r dst rec ow) sb) = snd (do_copy root sb r dst rec ow) /\
    forall q, abs (fst (exec_prog root (copy_prog c tmp None r dst rec ow) sb)) q =
              abs (fst (do_copy root sb r dst rec ow)) q.
  Proof.
    rewrite copy_prog_unfold.
    destruct ct_facts as (Hpar & Hne & Hdne & Htne & R1 & R2 & Htd & Hdt).
    destruct (copy_is_copy_via_temp root sb r dst rec ow ss n ds cr tmp Hchk Hsorted Hfresh Hneq) as (s2 & H1 & H3).
    fold tmpA dsA in H1.
    destruct ct_walk as (s1 & Hw & Hs1).
    unfold copy_via_temp in H1. rewrite Hw in H1.
    destruct (geto (Some s1) tmpA) as [t|] eqn:Eg; [|discriminate].
    destruct (seto (remo (remo (Some s1) dsA) tmpA) dsA t) as [s2'|] eqn:Es; [|discriminate].
    inversion H1; subst s2'. clear H1.
    rewrite <- tmp_act_path in Hw.
    rewrite (copy_steps_exec_ok root _ _ _ _ sb s1 Hw).
    (* the response of do_copy *)
    assert (RESP : snd (do_copy root sb r dst rec ow) = created_resp cr).
    { unfold do_copy. rewrite Hchk.
      assert (Hpe : is_dir (geto (remo sb dsA) (removelast dsA)) = true).
      { rewrite is_dir_remo_other by (apply (not_prefix_own_parent dsA Hdne)). rewrite R2. exact Hpar. }
      destruct (seto_ok dsA (remo sb dsA) T Hdne Hpe) as [e He]. fold dsA. fold T. rewrite He. reflexivity. }
    rewrite RESP.
    (* removing an absent destination is a no-op *)
    assert (ABS : cr = true -> remo (Some s1) dsA = Some s1).
    { intro C. apply remo_absent. rewrite (geto_seto_other tmpA sb T s1 dsA Hs1 Htd Hdt).
      pose proof (checks_created _ _ _ _ _ _ _ _ _ Hchk) as CC. rewrite C in CC.
      fold dsA in CC. destruct (geto sb dsA); [discriminate|reflexivity]. }
    assert (FIN : exec_prog root (copy_finish ds (parent ds ++ [tmp]) cr) (Some s1) = (Some s2, created_resp cr)).
    { unfold copy_finish. destruct cr.
      - cbn [exec_prog act_step fst snd]. rewrite tmp_act_path, Eg. cbn [exec_prog act_step fst snd].
        rewrite tmp_act_path. rewrite (ABS eq_refl) in Es. fold (hp root ds). fold dsA. rewrite Es. reflexivity.
      - cbn [exec_prog act_step fst snd]. fold (hp root ds). fold dsA. rewrite tmp_act_path.
        rewrite (geto_remo_other dsA (Some s1) tmpA Hdt Htd), Eg. cbn [exec_prog act_step fst snd].
        rewrite tmp_act_path. fold (hp root ds). fold dsA. rewrite Es. reflexivity. }
    rewrite FIN. cbn [fst snd]. split; [reflexivity|exact H3].
  Qed.
End CopyTmp.

(** ** The statements *)

(** the temporary name is free next to the destination, and is not the destination's name *)
Definition tmp_free (root : path) (sb : option node) (r : request) (dst : string) (ow : bool) (tmp : string) : Prop :=
  forall ss n ds cr, copy_move_checks root sb (rpath r) dst ow = GOk (ss, n, ds, cr) ->
    geto sb (hp root (parent ds) ++ [tmp]) = None /\ tmp <> last ds ""%string.

Lemma checks_nonempty_below root c sb r dst ow qs qd ss n ds cr :
  segs_under c (rpath r) = Some qs -> segs_under c dst = Some qd ->
  copy_move_checks root sb (rpath r) dst ow = GOk (ss, n, ds, cr) -> nonempty_below c ds = true.
Proof.
  intros E1 E2 Ec. apply segs_under_spec in E1. apply segs_under_spec in E2.
  destruct (copy_move_checks_segs _ _ _ _ _ _ _ _ _ Ec) as [S1 S2].
  rewrite E2 in S2. inversion S2; subst ds.
  unfold nonempty_below. rewrite strip_prefix_app. destruct qd as [|x qd']; [|reflexivity]. exfalso.
  unfold copy_move_checks in Ec. rewrite E1, E2, !is_prefix_app_l in Ec.
  destruct (is_prefix qs [] || is_prefix [] qs) eqn:Epre; [discriminate|].
  apply orb_false_iff in Epre. destruct Epre as [_ X]. discriminate.
Qed.

(** Run alone on a sandbox with sorted listings, with a free temporary name, the OS-call
    program of a COPY ends with the response of the one step [do_copy] of
    [DavServer.serve] and in a sandbox that has, at every path, the names, kinds and
    bytes of [do_copy]'s (modification times and the order of insertion may differ:
    the copy was built under another name and renamed). *)
Theorem copy_prog_is_do_copy root c sb r dst rec ow tmp qs qd :
  sorted_otree sb = true ->
  segs_under c (rpath r) = Some qs -> segs_under c dst = Some qd ->
  tmp_free root sb r dst ow tmp ->
  snd (exec_prog root (copy_prog c tmp None r dst rec ow) sb) = snd (do_copy root sb r dst rec ow) /\
  forall q, abs (fst (exec_prog root (copy_prog c tmp None r dst rec ow) sb)) q =
            abs (fst (do_copy root sb r dst rec ow)) q.
Proof.
  intros Hsb E1 E2 TF.
  destruct (copy_move_checks root sb (rpath r) dst ow) as [[[[ss n] ds] cr]|e] eqn:Ec.
  - destruct (TF _ _ _ _ Ec) as [F1 F2].
    apply (copy_ok_alone root sb r dst rec ow ss n ds cr tmp Ec
             (checks_sorted root sb _ _ _ _ _ _ _ Hsb Ec) F1 F2 c
             (checks_nonempty_below root c sb r dst ow qs qd ss n ds cr E1 E2 Ec)).
  - unfold copy_prog, do_copy. cbn [exec_prog act_step fst snd]. rewrite Ec. cbn. auto.
Qed.

(** C02 for the step-by-step COPY: whichever entry of the walk cannot be created, the
    COPY answers 500 and the sandbox is the very one it started from. *)
Theorem copy_fault_harmless_alone root c sb r dst rec ow tmp qs qd k ss n ds cr :
  sorted_otree sb = true ->
  segs_under c (rpath r) = Some qs -> segs_under c dst = Some qd ->
  tmp_free root sb r dst ow tmp ->
  copy_move_checks root sb (rpath r) dst ow = GOk (ss, n, ds, cr) ->
  k < List.length (walk_entries n rec) ->
  exec_prog root (copy_prog c tmp (Some k) r dst rec ow) sb = (sb, fail500).
Proof.
  intros Hsb E1 E2 TF Ec L. destruct (TF _ _ _ _ Ec) as [F1 F2].
  apply (copy_fault_alone root sb r dst rec ow ss n ds cr tmp Ec
           (checks_sorted root sb _ _ _ _ _ _ _ Hsb Ec) F1 F2 c
           (checks_nonempty_below root c sb r dst ow qs qd ss n ds cr E1 E2 Ec) k L).
Qed.

Section CopyConcurrent.
  Variables (root : path) (colls : list path).
  Hypothesis PI : pairwise_incomparable colls = true.
  Variables (progs : list (tprog act result response)) (s0 : option node) (i : nat) (c : path).
  Variables (r : request) (dst : string) (rec ow : bool) (tmp : string) (qs qd : path).
  Hypothesis W : cwf colls response (progs, s0).
  Hypothesis Hs : sorted_otree s0 = true.
  Hypothesis NC : nth_error colls i = Some c.
  Hypothesis E1 : segs_under c (rpath r) = Some qs.
  Hypothesis E2 : segs_under c dst = Some qd.
  Hypothesis K : view_ok (geto s0 (root ++ c)) = true.
  Hypothesis TF : tmp_free root s0 r dst ow tmp.

  Lemma ran_alone k :
    nth_error progs i = Some (copy_prog c tmp k r dst rec ow) ->
    exists n, forall sched, n <= count_occ Nat.eq_dec sched i ->
      let g := trun (act_step root) (progs, s0) sched in
      nth_error (fst g) i = Some (TRet (snd (exec_prog root (copy_prog c tmp k r dst rec ow) s0))) /\
      geto (snd g) (root ++ c) = geto (fst (exec_prog root (copy_prog c tmp k r dst rec ow) s0)) (root ++ c).
  Proof.
    intros NP. destruct (alone_exec root (copy_prog c tmp k r dst rec ow) progs s0 i NP) as [n Hn].
    exists n. intros sched LE g.
    assert (K' : cok (cview root colls i (snd (progs, s0)))) by (unfold cok, cview; cbn [snd]; rewrite NC; exact K).
    destruct (clients_alone root colls response PI i sched (progs, s0) W K') as (A & B & _).
    fold g in A, B. rewrite (Hn _ LE) in A, B. cbn [fst snd] in A, B.
    rewrite (nth_upd_same _ _ _ _ NP) in A. split; [exact A|].
    unfold cview in B. rewrite NC in B. exact B.
  Qed.

  (** A COPY that runs OS call by OS call among the steps of clients on disjoint
      collections — interrupted between any two entries of its walk, before or after
      the removal of the old destination, between the removal and the rename, for as
      long as the scheduler likes — ends, once it has had enough steps, with the
      response of the one-step [do_copy] on the sandbox it started from, and its
      collection has at every path what [do_copy] makes of it. *)
  Theorem copy_interrupted :
    nth_error progs i = Some (copy_prog c tmp None r dst rec ow) ->
    exists n, forall sched, n <= count_occ Nat.eq_dec sched i ->
      let g := trun (act_step root) (progs, s0) sched in
      nth_error (fst g) i = Some (TRet (snd (do_copy root s0 r dst rec ow))) /\
      forall q, abs (snd g) (root ++ c ++ q) = abs (fst (do_copy root s0 r dst rec ow)) (root ++ c ++ q).
  Proof.
    intros NP. destruct (ran_alone None NP) as [n Hn]. exists n. intros sched LE g.
    destruct (Hn sched LE) as [A B]. fold g in A, B.
    destruct (copy_prog_is_do_copy root c s0 r dst rec ow tmp qs qd Hs E1 E2 TF) as [R1 R2].
    rewrite R1 in A. split; [exact A|]. intro q.
    rewrite <- R2. unfold abs. rewrite (app_assoc root c q). rewrite (geto_app (snd g)), B, <- geto_app. reflexivity.
  Qed.

  (** A COPY that fails at any entry of its walk — also when other clients ran between
      its steps — answers 500 and leaves its own collection exactly as it was; the
      other clients never see it at all ([clients_stalled_harmless]). *)
  Theorem copy_fault_harmless k ss n ds cr :
    nth_error progs i = Some (copy_prog c tmp (Some k) r dst rec ow) ->
    copy_move_checks root s0 (rpath r) dst ow = GOk (ss, n, ds, cr) ->
    k < List.length (walk_entries n rec) ->
    exists m, forall sched, m <= count_occ Nat.eq_dec sched i ->
      let g := trun (act_step root) (progs, s0) sched in
      nth_error (fst g) i = Some (TRet fail500) /\
      geto (snd g) (root ++ c) = geto s0 (root ++ c).
  Proof.
    intros NP Ec L. destruct (ran_alone (Some k) NP) as [m Hm]. exists m. intros sched LE g.
    destruct (Hm sched LE) as [A B]. fold g in A, B.
    rewrite (copy_fault_harmless_alone root c s0 r dst rec ow tmp qs qd k ss n ds cr Hs E1 E2 TF Ec L) in A, B.
    auto.
  Qed.
End CopyConcurrent.

(** * 5. The upload section of a PUT as the sequence of its OS calls *)
Section UploadProg.
  Variables (root : path) (sb : option node) (dir : path) (tmp name : string) (st : N).
  Hypothesis Hdir : is_dir (geto sb (root ++ dir)) = true.
  Hypothesis Hfresh : geto sb ((root ++ dir) ++ [tmp]) = None.

  Let adir := root ++ dir.
  Let tmpA := u_tmp adir tmp.

  Lemma tmp_path : root ++ dir ++ [tmp] = tmpA.
  Proof. unfold tmpA, u_tmp, adir. apply app_assoc. Qed.

  Lemma write_steps_exec (k : tprog act result bool) : forall chunks acc s,
    with_tmp sb adir tmp st acc s ->
    exists e, with_tmp sb adir tmp st (acc ++ concat_str chunks)%string e /\
              exec_prog root (write_steps (dir ++ [tmp]) st acc chunks k) s = exec_prog root k e.
  Proof.
    induction chunks as [|c r IH]; intros acc s Hs.
    - exists s. cbn. rewrite str_app_empty_r. auto.
    - cbn [write_steps exec_prog act_step concat_str]. rewrite tmp_path.
      pose proof (write_with_tmp sb adir tmp name st Hdir Hfresh acc (acc ++ c)%string s Hs) as Hw.
      unfold u_write in Hw. destruct Hs as (t & -> & Ht). fold tmpA in Hw.
      destruct Hw as (t' & E' & Ht'). rewrite E'. cbn [fst snd].
      destruct (IH (acc ++ c)%string (Some t')) as (e & He & Hx).
      { exists t'. auto. }
      exists e. rewrite <- str_app_assoc. auto.
  Qed.

  (** Run alone, with a temporary name that is free in the target's directory, the
      OS-call program of the upload ends in the sandbox in which the whole body is
      mapped at the target — the step [do_put] takes (UploadStepsProofs.put_is_upload). *)
  Theorem upload_prog_exec chunks :
    exists t, seto sb (u_tgt adir name) (File (concat_str chunks) st) = Some t /\
              exec_prog root (upload_prog dir tmp name st chunks) sb = (Some t, true).
  Proof.
    unfold upload_prog. cbn [exec_prog act_step]. rewrite tmp_path.
    pose proof (create_with_tmp sb adir tmp name st Hdir Hfresh) as Hc. unfold u_create in Hc. fold tmpA in Hc.
    destruct Hc as (t0 & E0 & H0). rewrite E0. cbn [fst snd].
    destruct (write_steps_exec
                (TCall (AGet (dir ++ [tmp])) (fun b =>
                   match b with
                   | RNode (Some f) =>
                     TCall (ARem (dir ++ [tmp])) (fun _ => TCall (ASet (dir ++ [name]) f) (fun b2 =>
                       match b2 with RDone ok => TRet ok | _ => TRet false end))
                   | _ => TRet false
                   end))
                chunks ""%string (Some t0)) as (e & He & Hx).
    { exists t0. auto. }
    rewrite Hx. cbn [exec_prog act_step fst snd]. rewrite tmp_path.
    pose proof (with_tmp_without sb adir tmp name st Hdir Hfresh _ _ He) as Hr. fold tmpA in Hr.
    destruct He as (t1 & -> & Ht1). pose proof (geto_seto_self _ _ _ _ Ht1) as G. fold tmpA in G. rewrite G.
    cbn [exec_prog act_step fst snd]. rewrite tmp_path, Hr.
    assert (TG : root ++ dir ++ [name] = u_tgt adir name) by (unfold u_tgt, adir; apply app_assoc).
    rewrite TG.
    destruct (seto_ok (u_tgt adir name) sb (File (concat_str chunks) st)) as [t Ht].
    { unfold u_tgt. destruct adir; discriminate. }
    { unfold u_tgt. rewrite removelast_last. exact Hdir. }
    cbn [append]. rewrite Ht. exists t. auto.
  Qed.
End UploadProg.

Lemma write_steps_owned colls i c p st (k : tprog act result bool) :
  nth_error colls i = Some c -> nonempty_below c p = true -> cowned colls bool i k ->
  forall chunks acc, cowned colls bool i (write_steps p st acc chunks k).
Proof.
  intros N B K. induction chunks as [|x r IH]; intro acc; cbn; [exact K|].
  split; [exists c; auto|]. intros _. apply IH.
Qed.

(** every OS call of the upload belongs to the client whose collection contains the target *)
Lemma upload_prog_owned colls i c d tmp name st chunks :
  nth_error colls i = Some c ->
  cowned colls bool i (upload_prog (c ++ d) tmp name st chunks).
Proof.
  intros N.
  assert (B : forall x, nonempty_below c ((c ++ d) ++ [x]) = true).
  { intro x. unfold nonempty_below. rewrite <- app_assoc. rewrite strip_prefix_app. destruct d; reflexivity. }
  assert (P : forall x, is_prefix c ((c ++ d) ++ [x]) = true).
  { intro x. rewrite <- app_assoc. apply is_prefix_app. }
  unfold upload_prog. cbn. split; [exists c; split; [exact N|apply B]|]. intros _.
  apply (write_steps_owned colls i c); auto. cbn.
  split; [exists c; split; [exact N|apply P]|].
  intros [| [f|] | |]; cbn; auto.
  split; [exists c; split; [exact N|apply B]|]. intros _.
  split; [exists c; split; [exact N|apply B]|]. intros [| | |]; cbn; auto.
Qed.

(** ... and run alone it takes the sandbox to where the one step [do_put] takes it *)
Theorem upload_prog_is_put root sb r segs tmp chunks :
  segs_of (rpath r) = GOk segs ->
  req_cond r (match geto sb (hp root segs) with Some n => fi_etag (fi_of (dir_tag r) n) | None => ""%string end) = None ->
  is_dir (geto sb (hp root segs)) = false -> segs <> [] ->
  is_dir (geto sb (hp root (parent segs))) = true ->
  geto sb (hp root (parent segs) ++ [tmp]) = None ->
  body_fails r = false -> concat_str chunks = body r ->
  fst (exec_prog root (upload_prog (parent segs) tmp (last segs ""%string) (stamp r) chunks) sb) = fst (do_put root sb r).
Proof.
  intros Hsegs Hcond Hnd Hne Hpar Hfresh Hnf Hbody.
  destruct (upload_prog_exec root sb (parent segs) tmp (last segs ""%string) (stamp r) Hpar Hfresh chunks) as (t & Ht & Hx).
  rewrite Hx. cbn [fst].
  rewrite <- (put_is_upload root sb r segs tmp chunks Hsegs Hcond Hnd Hne Hpar Hfresh (fun _ => Hbody)).
  rewrite Hnf. rewrite (upload_commit_is_put sb (hp root (parent segs)) tmp (last segs ""%string) (stamp r) Hpar Hfresh chunks).
  symmetry. exact Ht.
Qed.

(** * 6. The workload of the correspondence check *)

Definition answers_of (ops : list cop) (resps : list response) : list answer :=
  map (fun or => answer_of (fst or) (snd or)) (combine ops resps).

Lemma run_ops_run root c : forall ops s,
  run_ops root c s ops =
  (fst (run root s (map (req_of c) ops)), answers_of ops (snd (run root s (map (req_of c) ops)))).
Proof.
  induction ops as [|o ops IH]; intro s; [reflexivity|].
  cbn [run_ops map run]. destruct (serve root s (req_of c o)) as [s1 resp] eqn:E. cbn [fst snd].
  rewrite IH. destruct (run root s1 (map (req_of c) ops)) as [s2 resps]. reflexivity.
Qed.

Definition workload_progs (cs : list sclient) : list (tprog act result (list result)) :=
  map (fun c => requests_prog (map (req_of (sc_coll c)) (sc_ops c))) cs.

Lemma workload_wf root s0 cs :
  workload_ok root s0 cs = true -> cwf (map sc_coll cs) (list result) (workload_progs cs, s0).
Proof.
  unfold workload_ok. intro H. apply andb_true_iff in H. destruct H as [H _].
  apply andb_true_iff in H. destruct H as [_ H]. rewrite forallb_forall in H.
  intros j p N. cbn [fst] in N. unfold workload_progs in N.
  rewrite nth_error_map in N. destruct (nth_error cs j) as [c|] eqn:NC; [|discriminate].
  inversion N; subst p. unfold requests_prog.
  specialize (H c (nth_error_In _ _ NC)). apply andb_true_iff in H. destruct H as [_ H].
  apply of_list_owned with (c := sc_coll c).
  - rewrite nth_error_map, NC. reflexivity.
  - rewrite forallb_forall in *. intros r IN. apply in_map_iff in IN. destruct IN as (o & <- & IN). auto.
Qed.

(** What the oracle assumes when it compares the CONCURRENT observation of a client
    with [run_ops] of that client ALONE: whatever interleaving of the clients' requests
    the scheduler produced (any schedule in which client i got to issue all its
    requests; the others may be anywhere, finished or stalled), client i received the
    responses whose projections are [snd (run_ops ...)], and its collection ended as
    the subtree [run_ops] leaves there. *)
Theorem workload_any_interleaving root s0 cs i c sched :
  workload_ok root s0 cs = true -> nth_error cs i = Some c ->
  List.length (sc_ops c) <= count_occ Nat.eq_dec sched i ->
  let g := trun (act_step root) (workload_progs cs, s0) sched in
  exists resps,
    nth_error (fst g) i = Some (TRet (map RResp resps)) /\
    answers_of (sc_ops c) resps = snd (run_ops root (sc_coll c) s0 (sc_ops c)) /\
    geto (snd g) (root ++ sc_coll c) = geto (fst (run_ops root (sc_coll c) s0 (sc_ops c))) (root ++ sc_coll c).
Proof.
  intros W NC LE g. pose proof (workload_wf root s0 cs W) as WF.
  unfold workload_ok in W. apply andb_true_iff in W. destruct W as [W _].
  apply andb_true_iff in W. destruct W as [PI F]. rewrite forallb_forall in F.
  specialize (F c (nth_error_In _ _ NC)). apply andb_true_iff in F. destruct F as [K _].
  assert (N1 : nth_error (map sc_coll cs) i = Some (sc_coll c)) by (rewrite nth_error_map, NC; reflexivity).
  assert (N2 : nth_error (workload_progs cs) i = Some (requests_prog (map (req_of (sc_coll c)) (sc_ops c))))
    by (unfold workload_progs; rewrite nth_error_map, NC; reflexivity).
  assert (LE' : List.length (map (req_of (sc_coll c)) (sc_ops c)) <= count_occ Nat.eq_dec sched i)
    by (rewrite map_length; exact LE).
  destruct (serve_any_interleaving_alone root (map sc_coll cs) PI (workload_progs cs) s0 i (sc_coll c) _ sched
              WF N1 N2 K LE') as [A B].
  exists (snd (run root s0 (map (req_of (sc_coll c)) (sc_ops c)))).
  rewrite run_ops_run. cbn [fst snd]. auto.
Qed.
