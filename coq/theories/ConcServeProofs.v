(** ConcServeProofs.v — requests of clients on pairwise disjoint collections of one
    served directory, in any interleaving (of whole requests, or of the OS calls they
    consist of), get from [DavServer.serve] the answers and leave the subtrees they
    get alone. *)
From Coq Require Import PeanoNat Lia.
From GW Require Import Base GoPath Fs DavServer FsProofs UploadSteps UploadStepsProofs CopySteps CopyStepsProofs
  SortedProofs RelocProofs ConcServe.
Local Open Scope list_scope.

(** * 1. The generic theorem *)
Section ThreadsProofs.
  Variables St Act Res Ret V : Type.
  Variable step : St -> Act -> St * Res.
  Variable view : nat -> St -> V.
  Variable acts : nat -> Act -> Prop.
  Variable ok : V -> Prop.

  (** an action of thread i leaves every other thread's view alone, *)
  Hypothesis frame : forall i j a s, acts i a -> j <> i -> view j (fst (step s a)) = view j s.
  (** its result and its effect on its own view are functions of its own view, *)
  Hypothesis local : forall i a s1 s2, acts i a -> ok (view i s1) -> view i s1 = view i s2 ->
    snd (step s1 a) = snd (step s2 a) /\ view i (fst (step s1 a)) = view i (fst (step s2 a)).
  (** and it keeps its own view well-formed. *)
  Hypothesis keep : forall i a s, acts i a -> ok (view i s) -> ok (view i (fst (step s a))).

  Notation prog := (tprog Act Res Ret).

  (** every action thread i will ever issue, whatever results it gets, is its own *)
  Fixpoint owned (i : nat) (p : prog) : Prop :=
    match p with
    | TRet _ => True
    | TCall a k => acts i a /\ forall b, owned i (k b)
    end.

  Definition wf (g : list prog * St) : Prop := forall j p, nth_error (fst g) j = Some p -> owned j p.

  (** thread i cannot tell [g] from [g']: same continuation, same view *)
  Definition sim (i : nat) (g g' : list prog * St) : Prop :=
    nth_error (fst g) i = nth_error (fst g') i /\ view i (snd g) = view i (snd g') /\ ok (view i (snd g)).

  Lemma nth_upd_same {A} (l : list A) : forall n x a, nth_error l n = Some a -> nth_error (upd_nth n x l) n = Some x.
  Proof. induction l as [|b l IH]; intros [|n] x a H; simpl in *; try discriminate; eauto. Qed.

  Lemma nth_upd_other {A} (l : list A) : forall n m x, n <> m -> nth_error (upd_nth n x l) m = nth_error l m.
  Proof. induction l as [|b l IH]; intros [|n] [|m] x H; simpl; auto; congruence. Qed.

  Lemma wf_step g j : wf g -> wf (tstep step g j).
  Proof.
    intros W. unfold tstep. destruct (nth_error (fst g) j) as [[r|a k]|] eqn:N; auto.
    intros m p H. cbn [fst] in H. destruct (Nat.eq_dec j m) as [E|E].
    - subst m. rewrite (nth_upd_same _ _ _ _ N) in H. inversion H; subst p.
      apply (W j _ N).
    - rewrite nth_upd_other in H by exact E. apply (W m p H).
  Qed.

  Lemma wf_run sched : forall g, wf g -> wf (trun step g sched).
  Proof. induction sched; intros g W; simpl; auto. apply IHsched. apply wf_step. exact W. Qed.

  Lemma sim_left i j g g' : j <> i -> wf g -> sim i g g' -> sim i (tstep step g j) g'.
  Proof.
    intros NE W (P & Vw & K). unfold tstep.
    destruct (nth_error (fst g) j) as [[r|a k]|] eqn:N; try (split; [|split]; assumption).
    destruct (W j _ N) as [A _].
    unfold sim. cbn [fst snd]. rewrite nth_upd_other by exact NE.
    assert (F : view i (fst (step (snd g) a)) = view i (snd g)) by (apply (frame j i); auto).
    rewrite F. auto.
  Qed.

  Lemma sim_right i j g g' : j <> i -> wf g' -> sim i g g' -> sim i g (tstep step g' j).
  Proof.
    intros NE W (P & Vw & K). unfold tstep.
    destruct (nth_error (fst g') j) as [[r|a k]|] eqn:N; try (split; [|split]; assumption).
    destruct (W j _ N) as [A _].
    unfold sim. cbn [fst snd]. rewrite nth_upd_other by exact NE.
    assert (F : view i (fst (step (snd g') a)) = view i (snd g')) by (apply (frame j i); auto).
    rewrite F. auto.
  Qed.

  Lemma sim_both i g g' : wf g -> sim i g g' -> sim i (tstep step g i) (tstep step g' i).
  Proof.
    intros W (P & Vw & K). unfold tstep. rewrite <- P.
    destruct (nth_error (fst g) i) as [[r|a k]|] eqn:N; try (split; [congruence|split; assumption]).
    destruct (W i _ N) as [A _].
    destruct (local i a (snd g) (snd g') A K Vw) as [R1 R2].
    unfold sim. cbn [fst snd].
    rewrite (nth_upd_same _ _ _ _ N). symmetry in P. rewrite (nth_upd_same _ _ _ _ P).
    rewrite R1. split; [reflexivity|]. split; [exact R2|]. apply keep; auto.
  Qed.

  (** Two schedules that give thread i equally many steps leave it with the same
      continuation (at the end: the same result) and the same view — whatever the
      other threads did, and wherever they stopped. *)
  Theorem threads_sim i : forall sched sched' g g',
    wf g -> wf g' -> count_occ Nat.eq_dec sched i = count_occ Nat.eq_dec sched' i ->
    sim i g g' -> sim i (trun step g sched) (trun step g' sched').
  Proof.
    induction sched as [|j sched IH].
    - induction sched' as [|j' sched' IH']; intros g g' W W' C S; [exact S|].
      cbn [count_occ] in C. destruct (Nat.eq_dec j' i) as [E|E]; [discriminate|].
      cbn [trun fold_left]. apply IH'; auto. apply wf_step; auto. apply sim_right; auto.
    - intros sched' g g' W W' C S. cbn [trun fold_left]. cbn [count_occ] in C.
      destruct (Nat.eq_dec j i) as [E|E].
      + subst j. revert g' W' C S.
        induction sched' as [|j' sched' IH']; intros g' W' C S; [discriminate|].
        cbn [count_occ] in C. cbn [trun fold_left]. destruct (Nat.eq_dec j' i) as [E'|E'].
        * subst j'. apply IH; auto using wf_step. apply sim_both; auto.
        * apply IH'; auto using wf_step. apply sim_right; auto.
      + apply IH; auto using wf_step. apply sim_left; auto.
  Qed.

  Lemma sim_refl i g : ok (view i (snd g)) -> sim i g g.
  Proof. intro K. split; [|split]; auto. Qed.

  Lemma count_remove_other (l : list nat) i j :
    i <> j -> count_occ Nat.eq_dec (remove Nat.eq_dec j l) i = count_occ Nat.eq_dec l i.
  Proof.
    intro NE. induction l as [|x l IH]; simpl; auto.
    destruct (Nat.eq_dec j x) as [E|E].
    - subst x. destruct (Nat.eq_dec j i); [congruence | exact IH].
    - simpl. destruct (Nat.eq_dec x i); rewrite IH; reflexivity.
  Qed.

  (** ... in particular the ones it has when only its own steps are scheduled, *)
  Corollary threads_alone i sched g :
    wf g -> ok (view i (snd g)) ->
    sim i (trun step g sched) (trun step g (repeat i (count_occ Nat.eq_dec sched i))).
  Proof.
    intros W K. apply threads_sim; auto using sim_refl.
    rewrite count_occ_repeat_eq by reflexivity. reflexivity.
  Qed.

  (** ... and the ones it has when a thread that stalls somewhere is never scheduled. *)
  Corollary stalled_harmless i j sched g :
    wf g -> ok (view i (snd g)) -> i <> j ->
    sim i (trun step g sched) (trun step g (remove Nat.eq_dec j sched)).
  Proof.
    intros W K NE. apply threads_sim; auto using sim_refl.
    symmetry. apply count_remove_other. exact NE.
  Qed.
End ThreadsProofs.
