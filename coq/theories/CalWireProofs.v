(** CalWireProofs.v — C08 proofs, part 3: the client side (what [caldav.Client]
    writes is the RFC form of the request, and crosses to the backend
    unchanged), the RFC reader on lexical variants, and the main theorems. *)
From Coq Require Import Permutation.
From GW Require Import Base CalTime CalTimeProofs CalXml CalWire CalWireLex CalWireServer CalWireReader CalWireVariant.

Local Opaque fmt_utc parse_utc u_instant.

(** * Written trees are variants of themselves *)
Lemma nodup1 (x : xname) : NoDup [x].
Proof. repeat constructor. intros []. Qed.

Lemma nodup_se : NoDup (map fst [cattr "start" "x"; cattr "end" "y"]).
Proof. cbn. constructor; [intros [E|[]]; discriminate | apply nodup1]. Qed.

Lemma F1 {A} (P : A -> Prop) x : P x -> Forall P [x].
Proof. intros. constructor; [assumption | constructor]. Qed.
Lemma F0 {A} (P : A -> Prop) : Forall P [].
Proof. constructor. Qed.

Lemma lv_flag n : lexvar (Elem n [] []) (Elem n [] []).
Proof. apply lexvar_refl_elem; constructor. Qed.

Lemma lv_tm tm : lexvar (w_tm tm) (w_tm tm).
Proof.
  constructor; [|apply lexvar_refl_text_kids]. apply attrs_var_refl.
  destruct (tm_negate tm); [apply nodup1 | constructor].
Qed.

Lemma lv_tr s e : lexvar (w_tr s e) (w_tr s e).
Proof.
  apply lexvar_refl_elem; [|constructor].
  destruct (i_zero s), (i_zero e); cbn; try apply nodup1; try constructor.
  - intros [E|[]]; discriminate.
  - apply nodup1.
Qed.

Lemma lv_paf p : lexvar (w_paf p) (w_paf p).
Proof.
  apply lexvar_refl_elem; [apply nodup1 |].
  destruct (paf_ind p); [apply F1, lv_flag |].
  destruct (paf_tm p); [apply F1, lv_tm | apply F0].
Qed.

Lemma Forall_map_lv {A} (f : A -> xtree) l : (forall x, lexvar (f x) (f x)) -> Forall (fun t => lexvar t t) (map f l).
Proof. intros H. apply Forall_forall. intros t Hin. apply in_map_iff in Hin. destruct Hin as (x & <- & _). apply H. Qed.

Lemma lv_pf p : lexvar (w_pf p) (w_pf p).
Proof.
  apply lexvar_refl_elem; [apply nodup1 |].
  destruct (pf_ind p); [apply F1, lv_flag |].
  apply Forall_app. split; [|apply Forall_map_lv, lv_paf].
  destruct (has_tr _ _); [apply F1, lv_tr |].
  destruct (pf_tm p); [apply F1, lv_tm | apply F0].
Qed.

Lemma lv_cf f : lexvar (w_cf f) (w_cf f).
Proof.
  induction f as [nm ind s e props comps IH] using comp_filter_ind2. cbn [w_cf].
  apply lexvar_refl_elem; [apply nodup1 |].
  destruct ind; [apply F1, lv_flag |].
  apply Forall_app. split; [destruct (has_tr s e); [apply F1, lv_tr | apply F0] |].
  apply Forall_app. split; [apply Forall_map_lv, lv_pf |].
  apply Forall_forall. intros t Hin. apply in_map_iff in Hin. destruct Hin as (x & <- & Hx).
  rewrite Forall_forall in IH. now apply IH.
Qed.

Lemma lv_cprop nm : lexvar (w_cprop nm) (w_cprop nm).
Proof. apply lexvar_refl_elem; [apply nodup1 | constructor]. Qed.

Lemma lv_comp c : lexvar (w_comp_sel c) (w_comp_sel c).
Proof.
  induction c as [nm ap ps ac comps ex IH] using comp_request_ind2. cbn [w_comp_sel].
  apply lexvar_refl_elem; [apply nodup1 |].
  apply Forall_app. split.
  - destruct ap; [apply F1, lv_flag | apply Forall_map_lv, lv_cprop].
  - destruct ac; [apply F1, lv_flag |].
    apply Forall_forall. intros t Hin. apply in_map_iff in Hin. destruct Hin as (x & <- & Hx).
    rewrite Forall_forall in IH. now apply IH.
Qed.

Lemma lv_expand se : lexvar (w_expand_el se) (w_expand_el se).
Proof. apply lexvar_refl_elem; [apply nodup_se | constructor]. Qed.

Lemma lv_caldata c : lexvar (w_caldata c) (w_caldata c).
Proof.
  apply lexvar_refl_elem; [constructor |]. constructor; [apply lv_comp |].
  destruct (cr_expand c); [apply F1, lv_expand | apply F0].
Qed.

Lemma lv_dprop c : lexvar (w_dprop c) (w_dprop c).
Proof. apply lexvar_refl_elem; [constructor |]. constructor; [apply lv_flag | apply F1, lv_caldata]. Qed.

Lemma lv_filter f : lexvar (Elem (cn "filter") [] [w_cf f]) (Elem (cn "filter") [] [w_cf f]).
Proof. apply lexvar_refl_elem; [constructor |]. apply F1, lv_cf. Qed.

Lemma lv_href hf p : lexvar (w_href hf p) (w_href hf p).
Proof. constructor; [apply attrs_var_refl; constructor | apply lexvar_refl_text_kids]. Qed.

Lemma lv_rfc_write hf r : lexvar (rfc_write hf r) (rfc_write hf r).
Proof.
  destruct r as [q|m]; cbn [rfc_write]; unfold rfc_write_query, rfc_write_multiget;
    (apply lexvar_refl_elem; [constructor |]).
  - constructor; [apply lv_dprop | apply F1, lv_filter].
  - constructor; [apply lv_dprop | apply Forall_map_lv, lv_href].
Qed.

(** * What the client marshals is what the RFC writer writes *)
Lemma i_zero_norm i : i_zero (norm_i i) = i_zero i.
Proof. reflexivity. Qed.

Lemma marshal_tm o : opt_list marshal_text_match (encode_text_match o) = opt_list w_tm o.
Proof. destruct o as [tm|]; [|reflexivity]. cbn. unfold marshal_text_match, w_tm. reflexivity. Qed.

Lemma marshal_tr s e :
  opt_list marshal_time_range (new_time_range s e) =
  if has_tr s e then [w_tr (norm_i s) (norm_i e)] else [].
Proof.
  unfold new_time_range, has_tr. destruct (i_zero s && i_zero e) eqn:E; cbn [negb opt_list]; [reflexivity |].
  unfold marshal_time_range, w_tr, marshal_instant. cbn [wtr_start wtr_end].
  rewrite !i_zero_norm. destruct (i_zero s), (i_zero e); reflexivity.
Qed.

Lemma marshal_paf p : valid_paf p = true -> marshal_param_filter (encode_param_filter p) = w_paf p.
Proof.
  destruct p as [nm ind tm]. unfold valid_paf, marshal_param_filter, encode_param_filter, w_paf.
  cbn [paf_name paf_ind paf_tm wpaf_name wpaf_ind wpaf_tm]. intros Hv. rewrite marshal_tm.
  destruct ind; [|reflexivity]. destruct tm; [discriminate | reflexivity].
Qed.

Lemma map_ext_valid {A B} (f g : A -> B) (v : A -> bool) l :
  (forall x, v x = true -> f x = g x) -> forallb v l = true -> map f l = map g l.
Proof.
  intros H. induction l as [|x r IH]; cbn; [reflexivity |]. intros Hv. apply andb_true_iff in Hv.
  destruct Hv as [Hx Hr]. now rewrite (H _ Hx), IH.
Qed.

Lemma has_tr_norm s e : has_tr (norm_i s) (norm_i e) = has_tr s e.
Proof. reflexivity. Qed.

Lemma marshal_pf p :
  valid_pf (norm_pf p) = true -> marshal_prop_filter (encode_prop_filter p) = w_pf (norm_pf p).
Proof.
  destruct p as [nm ind s e tm ps]. unfold valid_pf, marshal_prop_filter, encode_prop_filter, w_pf, norm_pf.
  cbn [pf_name pf_ind pf_start pf_end pf_tm pf_params wpf_name wpf_ind wpf_tr wpf_tm wpf_params].
  intros Hv. apply andb_true_iff in Hv. destruct Hv as [Hv Hps]. apply andb_true_iff in Hv. destruct Hv as [_ Hc].
  rewrite marshal_tr, marshal_tm, has_tr_norm in *. rewrite map_map.
  rewrite (map_ext_valid (fun x => marshal_param_filter (encode_param_filter x)) w_paf valid_paf ps marshal_paf Hps).
  destruct ind.
  - apply andb_true_iff in Hc. destruct Hc as [Hc Hn]. apply andb_true_iff in Hc. destruct Hc as [Htr Htm].
    apply negb_true_iff in Htr. rewrite Htr. destruct tm; [discriminate |]. destruct ps; [|discriminate]. reflexivity.
  - destruct (has_tr s e); cbn [flag_elem app].
    + destruct tm; [discriminate | reflexivity].
    + reflexivity.
Qed.

Lemma marshal_cf f :
  valid_cf (norm_cf f) = true -> marshal_comp_filter (encode_comp_filter f) = w_cf (norm_cf f).
Proof.
  induction f as [nm ind s e props comps IH] using comp_filter_ind2. intros Hv.
  cbn [norm_cf valid_cf encode_comp_filter marshal_comp_filter w_cf] in *.
  apply andb_true_iff in Hv. destruct Hv as [Hv Hcs].
  apply andb_true_iff in Hv. destruct Hv as [Hv Hps].
  apply andb_true_iff in Hv. destruct Hv as [_ Hc].
  rewrite marshal_tr, has_tr_norm in *. rewrite !map_map.
  assert (E1 : map (fun x => marshal_prop_filter (encode_prop_filter x)) props = map (fun x => w_pf (norm_pf x)) props).
  { rewrite forallb_forall in Hps. apply map_ext_in. intros x Hx. apply marshal_pf. apply Hps. now apply in_map. }
  assert (E2 : map (fun x => marshal_comp_filter (encode_comp_filter x)) comps = map (fun x => w_cf (norm_cf x)) comps).
  { rewrite forallb_forall in Hcs. rewrite Forall_forall in IH. apply map_ext_in. intros x Hx. apply IH; [assumption |].
    apply Hcs. now apply in_map. }
  rewrite E1, E2. destruct ind.
  - apply andb_true_iff in Hc. destruct Hc as [Hc Hn]. apply andb_true_iff in Hc. destruct Hc as [Htr Hn1].
    apply negb_true_iff in Htr. rewrite Htr. destruct props; [|discriminate]. destruct comps; [|discriminate]. reflexivity.
  - reflexivity.
Qed.

Lemma marshal_comp_sel c :
  valid_comp_sel (set_expand c None) = true -> marshal_comp (encode_calendar_comp_req c) = w_comp_sel c.
Proof.
  induction c as [nm ap ps ac comps ex IH] using comp_request_ind2. intros Hv.
  cbn [set_expand valid_comp_sel encode_calendar_comp_req marshal_comp w_comp_sel] in *.
  apply andb_true_iff in Hv. destruct Hv as [Hv Hcs].
  apply andb_true_iff in Hv. destruct Hv as [Hv _].
  apply andb_true_iff in Hv. destruct Hv as [Hap Hac].
  rewrite map_map.
  assert (E : map (fun x => marshal_comp (encode_calendar_comp_req x)) comps = map w_comp_sel comps).
  { rewrite forallb_forall in Hcs. rewrite Forall_forall in IH. apply map_ext_in. intros x Hx. apply IH; [assumption |].
    specialize (Hcs _ Hx). destruct x. cbn [set_expand valid_comp_sel] in *.
    apply andb_true_iff in Hcs. destruct Hcs as [Hcs H4]. apply andb_true_iff in Hcs. destruct Hcs as [Hcs H3].
    rewrite Hcs, H4. reflexivity. }
  rewrite E. unfold marshal_cprop, w_cprop.
  destruct ap; [destruct ps; [|discriminate] |]; (destruct ac; [destruct comps; [|discriminate] |]); reflexivity.
Qed.

Lemma marshal_caldata c :
  valid_cr (norm_cr c) = true ->
  marshal_cal_data_req {| wcd_comp := Some (encode_calendar_comp_req c);
                          wcd_expand := encode_expand_request (cr_expand c) |} = w_caldata (norm_cr c).
Proof.
  intros Hv. unfold valid_cr in Hv. apply andb_true_iff in Hv. destruct Hv as [Hc _].
  unfold marshal_cal_data_req, w_caldata. cbn [wcd_comp wcd_expand opt_list app].
  destruct c as [nm ap ps ac cs ex]. cbn [norm_cr set_expand cr_expand] in *.
  rewrite (marshal_comp_sel (CompReq nm ap ps ac cs ex)) by exact Hc.
  destruct ex as [[s e]|]; reflexivity.
Qed.

Lemma need_comp_norm c : need_comp (norm_cr c) = need_comp c.
Proof. now destruct c. Qed.

Lemma client_prop d c :
  (d + 2 < MAXD)%N -> (1 + need_comp c < MAXD)%N ->
  valid_cr (norm_cr c) = true ->
  exists raws, u_dprop d [] (marshal_prop (encode_calendar_req c)) = Ok raws
               /\ decode_prop_caldata (Some raws) = Ok (norm_cr c).
Proof.
  intros Hdl Hnc Hv. unfold encode_calendar_req. rewrite (marshal_caldata _ Hv).
  pose proof (lexvar_strip _ _ (lv_caldata (norm_cr c)) (plain_caldata _)) as Hl.
  apply (u_caldata_lex 0 (norm_cr c) _ ltac:(rewrite need_comp_norm; lia) Hv) in Hl. destruct Hl as (cd & Hu & Hd).
  unfold marshal_prop, u_dprop. rewrite chk_lt by lia. rewrite name_eqb_refl.
  cbn [negb]. unfold w_caldata at 1. cbn [fold_res dprop_kid]. rewrite !chk_lt by lia. cbv beta iota.
  eexists. split; [reflexivity |].
  unfold decode_prop_caldata. cbn [app find].
  change (Elem (cn "calendar-data") [] (w_comp_sel (norm_cr c) :: opt_list w_expand_el (cr_expand (norm_cr c))))
    with (w_caldata (norm_cr c)).
  change (strip_decls (strip_foreign (w_caldata (norm_cr c)))) with (strip (w_caldata (norm_cr c))).
  assert (Hi : is_caldata (strip (w_caldata (norm_cr c))) = true) by reflexivity.
  rewrite Hi. rewrite Hu. exact Hd.
Qed.

Lemma client_prop_read c :
  valid_cr (norm_cr c) = true -> r_dprop (marshal_prop (encode_calendar_req c)) = Some (norm_cr c).
Proof.
  intros Hv. unfold encode_calendar_req. rewrite (marshal_caldata _ Hv).
  pose proof (r_caldata_lex _ _ Hv (lv_caldata _)) as Hr.
  unfold marshal_prop, r_dprop. rewrite name_eqb_refl.
  unfold w_caldata in *. cbn [content_ok forallb andb elems filter is_elem is_caldata].
  rewrite name_eqb_refl.
  change (name_eqb (dn "getlastmodified") (cn "calendar-data")) with false.
  change (name_eqb (dn "getetag") (cn "calendar-data")) with false. exact Hr.
Qed.

Lemma Forall2_refl_map {A} (f : A -> xtree) l : (forall x, lexvar (f x) (f x)) -> Forall2 lexvar (map f l) (map f l).
Proof. intros H. induction l; cbn; constructor; auto. Qed.

(** * Normalisation only touches zone offsets *)
Definition utc_i (i : instant) : bool := Z.eqb (snd i) 0.
Definition utc_pf (p : prop_filter) : bool := utc_i (pf_start p) && utc_i (pf_end p).
Fixpoint utc_cf (f : comp_filter) : bool :=
  match f with
  | CompFilter _ _ s e props comps => utc_i s && utc_i e && forallb utc_pf props && forallb utc_cf comps
  end.
Definition utc_cr (c : comp_request) : bool :=
  match cr_expand c with Some (s, e) => utc_i s && utc_i e | None => true end.
Definition utc_request (r : request) : bool :=
  match r with
  | RQuery q => utc_cr (q_cr q) && utc_cf (q_cf q)
  | RMultiget m => utc_cr (mg_cr m)
  end.

Lemma norm_i_utc i : utc_i i = true -> norm_i i = i.
Proof. unfold utc_i, norm_i. intros H. apply Z.eqb_eq in H. destruct i. cbn in *. now subst. Qed.

Lemma norm_i_second i : fst (norm_i i) = fst i /\ snd (norm_i i) = 0%Z.
Proof. split; reflexivity. Qed.

Lemma norm_pf_utc p : utc_pf p = true -> norm_pf p = p.
Proof.
  unfold utc_pf, norm_pf. intros H. apply andb_true_iff in H. destruct H as [Hs He].
  rewrite (norm_i_utc _ Hs), (norm_i_utc _ He). now destruct p.
Qed.

Lemma map_id_on {A} (f : A -> A) (v : A -> bool) l :
  (forall x, In x l -> v x = true -> f x = x) -> forallb v l = true -> map f l = l.
Proof.
  induction l as [|x r IH]; cbn; [reflexivity |]. intros H Hv. apply andb_true_iff in Hv. destruct Hv as [Hx Hr].
  rewrite (H x (or_introl eq_refl) Hx). f_equal. apply IH; [|assumption]. intros y Hy. apply H. now right.
Qed.

Lemma norm_cf_utc f : utc_cf f = true -> norm_cf f = f.
Proof.
  induction f as [nm ind s e props comps IH] using comp_filter_ind2. cbn [utc_cf norm_cf]. intros H.
  apply andb_true_iff in H. destruct H as [H Hcs]. apply andb_true_iff in H. destruct H as [H Hps].
  apply andb_true_iff in H. destruct H as [Hs He].
  rewrite (norm_i_utc _ Hs), (norm_i_utc _ He).
  rewrite (map_id_on norm_pf utc_pf props) by (auto using norm_pf_utc).
  rewrite (map_id_on norm_cf utc_cf comps); [reflexivity | | assumption].
  rewrite Forall_forall in IH. auto.
Qed.

Lemma norm_cr_utc c : utc_cr c = true -> norm_cr c = c.
Proof.
  destruct c as [nm ap ps ac cs [[s e]|]]; cbn; [|reflexivity]. intros H.
  apply andb_true_iff in H. destruct H as [Hs He]. now rewrite (norm_i_utc _ Hs), (norm_i_utc _ He).
Qed.

Theorem normalise_utc_id r : utc_request r = true -> normalise r = r.
Proof.
  destruct r as [q|m]; cbn [utc_request normalise]; intros H.
  - apply andb_true_iff in H. destruct H as [Hc Hf]. rewrite (norm_cr_utc _ Hc), (norm_cf_utc _ Hf). now destruct q.
  - rewrite (norm_cr_utc _ H). now destruct m.
Qed.

(** normalisation does not change the nesting *)
Lemma need_pf_norm p : need_pf (norm_pf p) = need_pf p.
Proof. now destruct p. Qed.

Lemma maxl_map {A} (f : A -> N) (g : A -> A) l : (forall x, In x l -> f (g x) = f x) -> maxl f (map g l) = maxl f l.
Proof.
  unfold maxl. induction l as [|x r IH]; intros H; cbn [map fold_right]; [reflexivity |].
  rewrite (H x (or_introl eq_refl)), IH; [reflexivity |]. intros y Hy. apply H. now right.
Qed.

Lemma need_cf_norm f : need_cf (norm_cf f) = need_cf f.
Proof.
  induction f as [nm ind s e props comps IH] using comp_filter_ind2. cbn [norm_cf need_cf].
  rewrite has_tr_norm.
  rewrite (maxl_map (fun p => 2 + need_pf p)%N norm_pf props) by (intros; now rewrite need_pf_norm).
  rewrite (maxl_map (fun c => 2 + need_cf c)%N norm_cf comps); [reflexivity |].
  intros x Hx. rewrite Forall_forall in IH. now rewrite (IH x Hx).
Qed.

Lemma fits_request_norm r : fits_request (normalise r) = fits_request r.
Proof. destruct r as [q|m]; cbn; now rewrite ?need_comp_norm, ?need_cf_norm. Qed.

(** a simple sufficient condition: how deep comp-filters / comps are nested *)
Fixpoint cf_depth (f : comp_filter) : N :=
  match f with CompFilter _ _ _ _ _ comps => 1 + maxl cf_depth comps end.
Fixpoint cr_depth (c : comp_request) : N :=
  match c with CompReq _ _ _ _ comps _ => 1 + maxl cr_depth comps end.

Lemma maxl_le {A} (f : A -> N) l b : (forall x, In x l -> (f x <= b)%N) -> (maxl f l <= b)%N.
Proof.
  unfold maxl. induction l as [|x r IH]; intros H; cbn [fold_right]; [lia |].
  pose proof (H x (or_introl eq_refl)). specialize (IH (fun y Hy => H y (or_intror Hy))). lia.
Qed.

Lemma need_paf_le p : (need_paf p <= 1)%N.
Proof. unfold need_paf. destruct (_ || _); lia. Qed.
Lemma need_pf_le p : (need_pf p <= 3)%N.
Proof.
  unfold need_pf. assert (maxl (fun q => 2 + need_paf q)%N (pf_params p) <= 3)%N.
  { apply maxl_le. intros x _. pose proof (need_paf_le x). lia. }
  destruct (_ || _); lia.
Qed.

Lemma need_cf_le f : (need_cf f <= 2 * cf_depth f + 3)%N.
Proof.
  induction f as [nm ind s e props comps IH] using comp_filter_ind2. cbn [need_cf cf_depth].
  assert (H1 : (maxl (fun p => 2 + need_pf p) props <= 5)%N).
  { apply maxl_le. intros x _. pose proof (need_pf_le x). lia. }
  assert (H2 : (maxl (fun c => 2 + need_cf c) comps <= 2 * maxl cf_depth comps + 5)%N).
  { apply maxl_le. intros x Hx. rewrite Forall_forall in IH. specialize (IH x Hx).
    pose proof (maxl_in cf_depth comps x Hx). lia. }
  destruct (_ || _); lia.
Qed.

Lemma need_comp_le c : (need_comp c <= 2 * cr_depth c)%N.
Proof.
  induction c as [nm ap ps ac comps ex IH] using comp_request_ind2. cbn [need_comp cr_depth].
  assert (H2 : (maxl (fun k => 2 + need_comp k) comps <= 2 * maxl cr_depth comps + 2)%N).
  { apply maxl_le. intros x Hx. rewrite Forall_forall in IH. specialize (IH x Hx).
    pose proof (maxl_in cr_depth comps x Hx). lia. }
  destruct (_ || _), ps; lia.
Qed.

Definition req_cf_depth (r : request) : N := match r with RQuery q => cf_depth (q_cf q) | RMultiget _ => 0 end.
Definition req_cr_depth (r : request) : N := match r with RQuery q => cr_depth (q_cr q) | RMultiget m => cr_depth (mg_cr m) end.

(** comp-filters nested at most 4997 deep and component requests at most 4999
    deep stay below encoding/xml's limit, whatever else the request contains *)
Theorem fits_by_depth r : (req_cf_depth r <= 4997)%N -> (req_cr_depth r <= 4999)%N -> fits_request r = true.
Proof.
  destruct r as [q|m]; cbn [req_cf_depth req_cr_depth fits_request]; intros H1 H2.
  - pose proof (need_cf_le (q_cf q)). pose proof (need_comp_le (q_cr q)).
    apply andb_true_iff. split; apply N.ltb_lt; unfold MAXD; lia.
  - pose proof (need_comp_le (mg_cr m)). apply N.ltb_lt. unfold MAXD. lia.
Qed.

Section Main.
Variable href_fmt : string -> string.
Variable href_parse : string -> option string.

(** The request [caldav.Client] writes reaches the backend of [caldav.Handler]
    as the caller's request (instants in UTC). *)
Theorem end_to_end path r :
  expressible href_fmt href_parse r = true -> fits_request r = true ->
  handle_report href_parse path (client_body href_fmt path r) = Ok (backend_call_of path (normalise r)).
Proof.
  pose proof MAXD_big as HM.
  unfold expressible. intros Hv Hfit. destruct r as [q|m]; cbn [normalise valid client_body backend_call_of fits_request] in *.
  - apply andb_true_iff in Hv. destruct Hv as [Hcr Hcf]. cbn [q_cr q_cf] in *.
    apply andb_true_iff in Hfit. destruct Hfit as [Hf1 Hf2]. apply N.ltb_lt in Hf1, Hf2.
    destruct (client_prop (0 + 1) _ ltac:(lia) Hf1 Hcr) as (raws & Hu & Hd).
    pose proof (u_filter_lex (0 + 1) (norm_cf (q_cf q)) _ ltac:(rewrite need_cf_norm; lia) Hcf (lv_filter _)) as (wf & Huf & Hdf).
    unfold marshal_calendar_query, query_calendar. cbn [wq_prop wq_allprop wq_propname wq_filter opt_list flag_elem app].
    rewrite (marshal_cf _ Hcf).
    unfold handle_report. rewrite name_eqb_refl. unfold u_calendar_query. rewrite chk_lt by lia.
    rewrite name_eqb_refl. cbn [negb].
    unfold marshal_prop in Hu |- *. cbn [fold_res wq_kid]. rewrite name_eqb_refl.
    cbn [wq_prop zero_wq opt_default]. rewrite Hu.
    change (name_eqb (cn "filter") (dn "prop")) with false.
    change (name_eqb (cn "filter") (dn "allprop")) with false.
    change (name_eqb (cn "filter") (dn "propname")) with false.
    change (local_is (cn "filter") "filter") with true. cbv iota.
    cbn [wq_filter zero_wq]. rewrite Huf.
    unfold handle_query. cbn [wq_prop wq_filter]. rewrite Hd, Hdf. reflexivity.
  - apply andb_true_iff in Hv. destruct Hv as [Hv Hps]. apply andb_true_iff in Hv. destruct Hv as [Hcr Hne].
    cbn [mg_cr mg_paths] in *. apply N.ltb_lt in Hfit.
    destruct (client_prop (0 + 1) _ ltac:(lia) Hfit Hcr) as (raws & Hu & Hd).
    unfold marshal_multiget, multiget_calendar. cbn [wm_prop wm_allprop wm_propname wm_hrefs opt_list flag_elem app].
    destruct (mg_paths m) as [|p0 ps0] eqn:Em; [discriminate |].
    unfold handle_report.
    change (name_eqb (cn "calendar-multiget") (cn "calendar-query")) with false.
    rewrite name_eqb_refl. unfold u_multiget. rewrite chk_lt by lia. rewrite name_eqb_refl. cbn [negb].
    unfold marshal_prop in Hu |- *. cbn [fold_res wm_kid]. rewrite name_eqb_refl.
    cbn [wm_prop zero_wm opt_default]. rewrite Hu.
    change (marshal_href href_fmt) with (w_href href_fmt).
    rewrite (fold_hrefs href_fmt href_parse 0 _ ltac:(lia) Hps _ _ (Forall2_refl_map _ _ (lv_href href_fmt))).
    cbn [wm_prop wm_hrefs zero_wm app].
    unfold handle_multiget. cbn [wm_prop wm_hrefs]. rewrite Hd. reflexivity.
Qed.

(** The reference is coherent: the RFC reader inverts the RFC writer. *)
Theorem rfc_codec r :
  valid href_fmt href_parse r = true -> rfc_read href_parse (rfc_write href_fmt r) = Some r.
Proof. intros Hv. apply (rfc_read_lex href_fmt href_parse _ _ Hv). apply lv_rfc_write. Qed.

(** What [caldav.Client] writes is an RFC 4791 document which the independent
    reader decodes to the caller's request (instants in UTC). *)
Theorem client_conformant path r :
  expressible href_fmt href_parse r = true ->
  rfc_read href_parse (client_body href_fmt path r) = Some (normalise r).
Proof.
  unfold expressible. intros Hv. destruct r as [q|m]; cbn [normalise valid client_body] in *.
  - apply andb_true_iff in Hv. destruct Hv as [Hcr Hcf]. cbn [q_cr q_cf] in *.
    unfold marshal_calendar_query, query_calendar. cbn [wq_prop wq_allprop wq_propname wq_filter opt_list flag_elem app].
    rewrite (marshal_cf _ Hcf).
    unfold rfc_read. cbn [content_ok forallb negb elems filter is_elem marshal_prop].
    rewrite name_eqb_refl.
    change (Elem (dn "prop") [] (encode_calendar_req (q_cr q))) with (marshal_prop (encode_calendar_req (q_cr q))).
    rewrite (client_prop_read _ Hcr). rewrite (r_filter_lex _ _ Hcf (lv_filter _)). reflexivity.
  - apply andb_true_iff in Hv. destruct Hv as [Hv Hps]. apply andb_true_iff in Hv. destruct Hv as [Hcr Hne].
    cbn [mg_cr mg_paths] in *.
    unfold marshal_multiget, multiget_calendar. cbn [wm_prop wm_allprop wm_propname wm_hrefs opt_list flag_elem app].
    destruct (mg_paths m) as [|p0 ps0] eqn:Em; [discriminate |].
    change (marshal_href href_fmt) with (w_href href_fmt).
    assert (Hk0 : forallb is_elem (marshal_prop (encode_calendar_req (mg_cr m)) :: map (w_href href_fmt) (p0 :: ps0)) = true).
    { cbn [forallb marshal_prop is_elem andb]. now apply forallb_map_elem. }
    destruct (all_elems_content _ Hk0) as [Hc He].
    unfold rfc_read. rewrite Hc, He. cbn [negb].
    change (name_eqb (cn "calendar-multiget") (cn "calendar-query")) with false.
    rewrite name_eqb_refl. cbv iota. cbn [map].
    rewrite (client_prop_read _ Hcr).
    pose proof (map_opt_hrefs href_fmt href_parse _ Hps _ (Forall2_refl_map _ _ (lv_href href_fmt))) as Hm.
    cbn [map] in Hm. rewrite Hm. reflexivity.
Qed.

(** * Calls that rely on the default href *)
Lemma client_body_denote path r : client_body href_fmt path r = client_body href_fmt path (denote path r).
Proof.
  destruct r as [q|m]; [reflexivity |]. unfold denote. destruct m as [ps cr]. cbn [mg_paths mg_cr].
  destruct ps; reflexivity.
Qed.

Lemma denote_expressible path r : expressible href_fmt href_parse r = true -> denote path r = r.
Proof.
  unfold expressible. destruct r as [q|m]; [reflexivity |]. cbn [normalise valid denote mg_paths].
  intros H. apply andb_true_iff in H. destruct H as [H _]. apply andb_true_iff in H. destruct H as [_ H].
  destruct (mg_paths m); [discriminate | reflexivity].
Qed.

Theorem client_conformant_call path r :
  expressible href_fmt href_parse (denote path r) = true ->
  rfc_read href_parse (client_body href_fmt path r) = Some (normalise (denote path r)).
Proof. intros H. rewrite client_body_denote. now apply client_conformant. Qed.

Theorem end_to_end_call path r :
  expressible href_fmt href_parse (denote path r) = true -> fits_request (denote path r) = true ->
  handle_report href_parse path (client_body href_fmt path r) = Ok (backend_call_of path (normalise (denote path r))).
Proof. intros H Hf. rewrite client_body_denote. now apply end_to_end. Qed.

(** * The oracle's verdict functions *)
Lemma sb_refl {A} (dec : forall a b : A, {a = b} + {a <> b}) a : sb (dec a a) = true.
Proof. destruct (dec a a); [reflexivity | contradiction]. Qed.

(** every document the oracle accepts as "a variant of the RFC document of the
    valid request r" is delivered as r, and read as r by the RFC reader *)
Theorem server_in_domain_ok path r doc :
  server_in_domain href_fmt href_parse r doc = true ->
  handle_report href_parse path doc = Ok (backend_call_of path r) /\ rfc_read href_parse doc = Some r.
Proof.
  unfold server_in_domain. intros H. apply andb_true_iff in H. destruct H as [Hv Hb].
  apply andb_true_iff in Hv. destruct Hv as [Hv Hfit].
  apply orb_true_iff in Hb. destruct Hb as [Hb|Hb].
  - apply variant_b_lexvar in Hb. split.
    + now apply (server_denotes href_fmt).
    + now apply (rfc_read_lex href_fmt).
  - apply andb_true_iff in Hb. destruct Hb as [Hw Hb]. apply variant_b_lexvar_nc in Hb. split.
    + now apply (server_denotes_nc href_fmt).
    + now apply (rfc_read_lex_nc href_fmt).
Qed.

(** model ⊑ specification, in the form of DESIGN.md section 5 *)
Theorem server_model_meets_spec path r doc :
  server_spec_ok href_fmt href_parse path r doc (handle_report href_parse path doc) = true.
Proof.
  unfold server_spec_ok. destruct (server_in_domain href_fmt href_parse r doc) eqn:E; [|reflexivity].
  destruct (server_in_domain_ok path _ _ E) as [-> ->]. now rewrite !sb_refl.
Qed.

Theorem client_model_meets_spec path r :
  client_spec_ok href_fmt href_parse path r (client_body href_fmt path r)
                 (handle_report href_parse path (client_body href_fmt path r)) = true.
Proof.
  unfold client_spec_ok. cbv zeta. destruct (expressible href_fmt href_parse (denote path r)) eqn:E; [|reflexivity].
  destruct (fits_request (denote path r)) eqn:Ef; [|reflexivity]. cbn [andb].
  rewrite (client_conformant_call path _ E), (end_to_end_call path _ E Ef). now rewrite !sb_refl.
Qed.

End Main.
