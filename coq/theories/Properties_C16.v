(** Properties_C16.v — C16: wire primitives round-trip exactly and reject what they
    cannot represent.  Statements only; each is closed by [exact] of a lemma proved in
    the *Proofs.v files. *)
From GW Require Import Base Wire WireProofs.
Local Open Scope Z_scope.

(** ** Depth (0, 1, infinity) *)

(** every Depth value is written and read back unchanged *)
Theorem C16_depth_roundtrip : forall d, depth_valid d = true ->
  exists s, depth_string d = Ok s /\ parse_depth s = Ok d.
Proof. exact depth_roundtrip. Qed.
Print Assumptions C16_depth_roundtrip.

(** ParseDepth accepts exactly "0" | "1" | "infinity" (RFC 4918 10.2) with the value denoted *)
Theorem C16_depth_accepts_iff_grammar : forall s d, parse_depth s = Ok d <-> depth_den s = Some d.
Proof. exact parse_depth_ok_iff. Qed.
Print Assumptions C16_depth_accepts_iff_grammar.

(** an accepted text is the canonical text of its value *)
Theorem C16_depth_canonical : forall s d, parse_depth s = Ok d -> depth_string d = Ok s.
Proof. exact parse_depth_canonical. Qed.
Print Assumptions C16_depth_canonical.

(** everything else is refused with an error, never a panic *)
Theorem C16_depth_rejects : forall s,
  parse_depth s <> Panic /\ (depth_den s = None -> parse_depth s = Err 500%N).
Proof. exact parse_depth_total. Qed.
Print Assumptions C16_depth_rejects.

(** Depth.String panics exactly outside the three values *)
Theorem C16_depth_string_panics_iff : forall d, depth_string d = Panic <-> depth_valid d = false.
Proof. exact depth_string_panic_iff. Qed.
Print Assumptions C16_depth_string_panics_iff.

(** ** Overwrite (T, F) *)
Theorem C16_overwrite_roundtrip : forall b, parse_overwrite (format_overwrite b) = Ok b.
Proof. exact overwrite_roundtrip. Qed.
Print Assumptions C16_overwrite_roundtrip.

Theorem C16_overwrite_accepts_iff_grammar : forall s b, parse_overwrite s = Ok b <-> overwrite_den s = Some b.
Proof. exact parse_overwrite_ok_iff. Qed.
Print Assumptions C16_overwrite_accepts_iff_grammar.

Theorem C16_overwrite_canonical : forall s b, parse_overwrite s = Ok b -> s = format_overwrite b.
Proof. exact parse_overwrite_canonical. Qed.
Print Assumptions C16_overwrite_canonical.

Theorem C16_overwrite_rejects : forall s,
  parse_overwrite s <> Panic /\ (overwrite_den s = None -> parse_overwrite s = Err 500%N).
Proof. exact parse_overwrite_total. Qed.
Print Assumptions C16_overwrite_rejects.

(** ** Status line *)

(** any three-digit code with any reason phrase (any byte string) is read back
    unchanged; an empty phrase stands for the default phrase of the code *)
Theorem C16_status_roundtrip : forall prev c text, 100 <= c <= 999 ->
  status_unmarshal prev (status_marshal (c, text)) = Ok (status_norm (c, text)).
Proof. exact status_roundtrip. Qed.
Print Assumptions C16_status_roundtrip.

(** the encoder's output is a status-line of RFC 7230 3.1.2 denoting the value *)
Theorem C16_status_marshal_in_grammar : forall c text, 100 <= c <= 999 ->
  status_den (status_marshal (c, text)) = Some (status_norm (c, text)).
Proof. exact status_marshal_in_grammar. Qed.
Print Assumptions C16_status_marshal_in_grammar.

(** a non-empty text is accepted iff it is a status-line, with the value it denotes *)
Theorem C16_status_accepts_iff_grammar : forall prev b v, b <> EmptyString ->
  (status_unmarshal prev b = Ok v <-> status_den b = Some v).
Proof. exact status_unmarshal_iff. Qed.
Print Assumptions C16_status_accepts_iff_grammar.

Theorem C16_status_never_panics : forall prev b, status_unmarshal prev b <> Panic.
Proof. exact status_unmarshal_never_panics. Qed.
Print Assumptions C16_status_never_panics.

(** rejection side, except the listed finding C16-status-empty ... *)
Theorem C16_status_rejects_except_empty : forall prev b v,
  kf_status_empty b (obs_of (status_unmarshal prev b)) = false ->
  status_unmarshal prev b = Ok v -> status_den b = Some v.
Proof. exact status_rejects_except_empty. Qed.
Print Assumptions C16_status_rejects_except_empty.

(** ... which is real: the empty text is accepted and is not a status line *)
Theorem C16_status_rejects_refuted : exists b,
  kf_status_empty b (obs_of (status_unmarshal status_zero b)) = true
  /\ status_unmarshal status_zero b = Ok status_zero /\ status_den b = None.
Proof. exact status_rejects_refuted. Qed.
Print Assumptions C16_status_rejects_refuted.
