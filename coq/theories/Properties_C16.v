(** Properties_C16.v — C16: wire primitives round-trip exactly and reject what they
    cannot represent.  Statements only; each is closed by [exact] of a lemma proved in
    the *Proofs.v files. *)
From GW Require Import Base Wire WireProofs Civil CivilSweep CivilProofs CivilProofs2 CivilProofs3 Quote Utf8Proofs QuoteProofs QuoteStrict Href HrefProofs.
Local Open Scope Z_scope.

(** ** Depth (0, 1, infinity) *)

(** every Depth value is written and read back unchanged *)
Theorem C16_depth_roundtrip : forall d, depth_valid d = true ->
  exists s, depth_string d = Ok s /\ parse_depth s = Ok d.
Proof. exact depth_roundtrip. Qed.
Print Assumptions C16_depth_roundtrip.

(** ParseDepth accepts exactly "0" | "1" | "infinity" (RFC 4918 10.2) with the value denoted *)
Theorem C16_depth_accepts_iff_grammar : forall s d, parse_depth s = Ok d <-> depth_den s = Some d.
Proof. exact parse_depth_ok_iff. Qed.
Print Assumptions C16_depth_accepts_iff_grammar.

(** an accepted text is the canonical text of its value *)
Theorem C16_depth_canonical : forall s d, parse_depth s = Ok d -> depth_string d = Ok s.
Proof. exact parse_depth_canonical. Qed.
Print Assumptions C16_depth_canonical.

(** everything else is refused with an error, never a panic *)
Theorem C16_depth_rejects : forall s,
  parse_depth s <> Panic /\ (depth_den s = None -> parse_depth s = Err 500%N).
Proof. exact parse_depth_total. Qed.
Print Assumptions C16_depth_rejects.

(** Depth.String panics exactly outside the three values *)
Theorem C16_depth_string_panics_iff : forall d, depth_string d = Panic <-> depth_valid d = false.
Proof. exact depth_string_panic_iff. Qed.
Print Assumptions C16_depth_string_panics_iff.

(** ** Overwrite (T, F) *)
Theorem C16_overwrite_roundtrip : forall b, parse_overwrite (format_overwrite b) = Ok b.
Proof. exact overwrite_roundtrip. Qed.
Print Assumptions C16_overwrite_roundtrip.

Theorem C16_overwrite_accepts_iff_grammar : forall s b, parse_overwrite s = Ok b <-> overwrite_den s = Some b.
Proof. exact parse_overwrite_ok_iff. Qed.
Print Assumptions C16_overwrite_accepts_iff_grammar.

Theorem C16_overwrite_canonical : forall s b, parse_overwrite s = Ok b -> s = format_overwrite b.
Proof. exact parse_overwrite_canonical. Qed.
Print Assumptions C16_overwrite_canonical.

Theorem C16_overwrite_rejects : forall s,
  parse_overwrite s <> Panic /\ (overwrite_den s = None -> parse_overwrite s = Err 500%N).
Proof. exact parse_overwrite_total. Qed.
Print Assumptions C16_overwrite_rejects.

(** what the specification asks of a decoded Depth / Overwrite text (the verdicts the oracle
    applies to the implementation's observation): a canonical spelling is read with its value;
    an ASCII-case variant of one (inside the grammar as RFC 2616 2.1 reads quoted literals,
    but sent by no encoder here) is read with that value or refused; every other text is
    refused; never a panic, never another value *)
Theorem C16_depth_spec_meaning : forall s o,
  depth_dec_spec_ok s o = true <->
  match depth_den s, depth_den_ci s with
  | Some v, _ => o = ObsOk v
  | None, Some v => o = ObsOk v \/ o = ObsErr
  | None, None => o = ObsErr
  end.
Proof. exact depth_dec_spec_ok_meaning. Qed.
Print Assumptions C16_depth_spec_meaning.

Theorem C16_overwrite_spec_meaning : forall s o,
  overwrite_dec_spec_ok s o = true <->
  match overwrite_den s, overwrite_den_ci s with
  | Some v, _ => o = ObsOk v
  | None, Some v => o = ObsOk v \/ o = ObsErr
  | None, None => o = ObsErr
  end.
Proof. exact overwrite_dec_spec_ok_meaning. Qed.
Print Assumptions C16_overwrite_spec_meaning.

(** the case-insensitive readings: the exact reading of the lower-cased text (Depth); the one
    letter in either case (Overwrite) *)
Theorem C16_depth_case_insensitive_reading : forall s, depth_den_ci s = depth_den (lower_ascii s).
Proof. exact depth_den_ci_spec. Qed.
Print Assumptions C16_depth_case_insensitive_reading.

Theorem C16_overwrite_case_insensitive_reading : forall s b, overwrite_den_ci s = Some b <->
  (s = format_overwrite b \/ s = lower_ascii (format_overwrite b)).
Proof. exact overwrite_den_ci_spec. Qed.
Print Assumptions C16_overwrite_case_insensitive_reading.

(** the models of the present (case-sensitive) decoders meet the verdicts on every text *)
Theorem C16_depth_model_meets_spec : forall s, depth_dec_spec_ok s (obs_of (parse_depth s)) = true.
Proof. exact depth_dec_model_meets_spec. Qed.
Print Assumptions C16_depth_model_meets_spec.

Theorem C16_overwrite_model_meets_spec : forall s, overwrite_dec_spec_ok s (obs_of (parse_overwrite s)) = true.
Proof. exact overwrite_dec_model_meets_spec. Qed.
Print Assumptions C16_overwrite_model_meets_spec.

(** ** Status line *)

(** any three-digit code with any reason phrase (any byte string) is read back
    unchanged; an empty phrase stands for the default phrase of the code *)
Theorem C16_status_roundtrip : forall prev c text, 100 <= c <= 999 ->
  status_unmarshal prev (status_marshal (c, text)) = Ok (status_norm (c, text)).
Proof. exact status_roundtrip. Qed.
Print Assumptions C16_status_roundtrip.

(** the encoder's output is a status-line of RFC 7230 3.1.2 denoting the value *)
Theorem C16_status_marshal_in_grammar : forall c text, 100 <= c <= 999 ->
  status_den (status_marshal (c, text)) = Some (status_norm (c, text)).
Proof. exact status_marshal_in_grammar. Qed.
Print Assumptions C16_status_marshal_in_grammar.

(** a non-empty text is accepted iff it is a status-line, with the value it denotes *)
Theorem C16_status_accepts_iff_grammar : forall prev b v, b <> EmptyString ->
  (status_unmarshal prev b = Ok v <-> status_den b = Some v).
Proof. exact status_unmarshal_iff. Qed.
Print Assumptions C16_status_accepts_iff_grammar.

Theorem C16_status_never_panics : forall prev b, status_unmarshal prev b <> Panic.
Proof. exact status_unmarshal_never_panics. Qed.
Print Assumptions C16_status_never_panics.

(** rejection side, except the listed finding C16-status-empty ... *)
Theorem C16_status_rejects_except_empty : forall prev b v,
  kf_status_empty b (obs_of (status_unmarshal prev b)) = false ->
  status_unmarshal prev b = Ok v -> status_den b = Some v.
Proof. exact status_rejects_except_empty. Qed.
Print Assumptions C16_status_rejects_except_empty.

(** ... which is real: the empty text is accepted and is not a status line *)
Theorem C16_status_rejects_refuted : exists b,
  kf_status_empty b (obs_of (status_unmarshal status_zero b)) = true
  /\ status_unmarshal status_zero b = Ok status_zero /\ status_den b = None.
Proof. exact status_rejects_refuted. Qed.
Print Assumptions C16_status_rejects_refuted.

(** what the specification asks of a decoded status text (the verdict the oracle applies to
    the implementation's observation): a text outside the grammar is refused; a status-line
    with a code 100..999 is read with the value it denotes; one with a code 000..099 (in the
    grammar, outside the round-trip domain) is read with that value or refused; never a panic,
    never another value *)
Theorem C16_status_spec_meaning : forall b o,
  status_dec_spec_ok b o = true <->
  match status_den b with
  | None => o = ObsErr
  | Some v => o = ObsOk v \/ (o = ObsErr /\ fst v < 100)
  end.
Proof. exact status_dec_spec_ok_meaning. Qed.
Print Assumptions C16_status_spec_meaning.

(** the model of the present decoder meets it on every non-empty text *)
Theorem C16_status_model_meets_spec : forall b, b <> EmptyString ->
  status_dec_spec_ok b (obs_of (status_unmarshal status_zero b)) = true.
Proof. exact status_dec_spec_ok_of_model. Qed.
Print Assumptions C16_status_model_meets_spec.

(** ** Instants: the calendar arithmetic *)

(** day number -> (year, month, day) -> day number is the identity on ALL days, and
    the date produced is a valid one *)
Theorem C16_civil_days_date_days : forall d0,
  let '(y, m, d) := abs_date d0 in date_to_days y m d = d0 /\ date_valid y m d = true.
Proof. exact abs_date_inverse. Qed.
Print Assumptions C16_civil_days_date_days.

(** (year, month, day) -> day number -> (year, month, day) is the identity on ALL valid dates *)
Theorem C16_civil_date_days_date : forall y m d, date_valid y m d = true ->
  abs_date (date_to_days y m d) = (y, m, d).
Proof. exact date_to_days_inverse. Qed.
Print Assumptions C16_civil_date_days_date.

(** the model's day count is the closed-form count of the Gregorian rules *)
Theorem C16_civil_days_spec : forall y m d, 1 <= m <= 12 -> date_to_days y m d = spec_days y m d.
Proof. exact date_to_days_spec. Qed.
Print Assumptions C16_civil_days_spec.

(** ** HTTP date (internal.Time) *)

(** any instant of the years 0..9999, to the second, given in any zone *)
Theorem C16_httpdate_roundtrip : forall secs off, 0 <= year_of_unix secs <= 9999 ->
  time_unmarshal (time_marshal (secs, off)) = Ok (secs, 0).
Proof. exact time_roundtrip. Qed.
Print Assumptions C16_httpdate_roundtrip.

(** the text sent is an IMF-fixdate of RFC 7231 7.1.1.1 denoting the instant *)
Theorem C16_httpdate_marshal_in_grammar : forall secs off, 0 <= year_of_unix secs <= 9999 ->
  den_imf (time_marshal (secs, off)) = Some secs.
Proof. exact http_marshal_in_grammar. Qed.
Print Assumptions C16_httpdate_marshal_in_grammar.

Theorem C16_httpdate_never_panics : forall s, time_unmarshal s <> Panic.
Proof. exact time_unmarshal_never_panics. Qed.
Print Assumptions C16_httpdate_never_panics.

(** every IMF-fixdate of RFC 7231 7.1.1.1 (the form a sender must generate) is accepted
    with the instant it denotes and no sub-second part *)
Theorem C16_httpdate_accepts_imf : forall s t, den_imf s = Some t -> time_unmarshal s = Ok (t, 0).
Proof. exact time_accepts_imf. Qed.
Print Assumptions C16_httpdate_accepts_imf.

(** every HTTP-date of RFC 7231 7.1.1.1, in any of its three forms (IMF-fixdate,
    rfc850-date, asctime-date), is accepted with the instant it denotes *)
Theorem C16_httpdate_accepts_grammar : forall s t, http_den s = Some t -> time_unmarshal s = Ok (t, 0).
Proof. exact time_accepts_grammar. Qed.
Print Assumptions C16_httpdate_accepts_grammar.

(** rejection side, except the listed finding C16-httpdate-lenient: an accepted text is an
    HTTP-date and the value decoded is the instant it denotes ... *)
Theorem C16_httpdate_rejects_except_lenient : forall s t ns,
  kf_httpdate_lenient s (obs_of (time_unmarshal s)) = false ->
  time_unmarshal s = Ok (t, ns) -> http_den s = Some t /\ ns = 0.
Proof. exact time_rejects_except_lenient_full. Qed.
Print Assumptions C16_httpdate_rejects_except_lenient.

(** ... which is real *)
Theorem C16_httpdate_rejects_refuted : exists s v,
  time_unmarshal s = Ok v /\ http_den s = None
  /\ kf_httpdate_lenient s (obs_of (time_unmarshal s)) = true.
Proof. exact time_rejects_refuted. Qed.
Print Assumptions C16_httpdate_rejects_refuted.

(** ** iCalendar UTC date-time (caldav.dateWithUTCTime) *)

Theorem C16_icaldate_roundtrip : forall secs off, 0 <= year_of_unix secs <= 9999 ->
  icaldate_unmarshal (icaldate_marshal (secs, off)) = Ok (secs, 0).
Proof. exact icaldate_roundtrip. Qed.
Print Assumptions C16_icaldate_roundtrip.

Theorem C16_icaldate_marshal_in_grammar : forall secs off, 0 <= year_of_unix secs <= 9999 ->
  ical_den (icaldate_marshal (secs, off)) = Some secs.
Proof. exact ical_marshal_in_grammar. Qed.
Print Assumptions C16_icaldate_marshal_in_grammar.

(** the decoder accepts exactly RFC 5545 form 2 (valid calendar date, 00-23, 00-59,
    00-59), with the instant it denotes and no sub-second part *)
Theorem C16_icaldate_accepts_iff_grammar : forall s t ns,
  icaldate_unmarshal s = Ok (t, ns) <-> (ical_den s = Some t /\ ns = 0).
Proof. exact icaldate_unmarshal_iff. Qed.
Print Assumptions C16_icaldate_accepts_iff_grammar.

Theorem C16_icaldate_never_panics : forall s, icaldate_unmarshal s <> Panic.
Proof. exact icaldate_unmarshal_never_panics. Qed.
Print Assumptions C16_icaldate_never_panics.

(** ** Entity tags (internal.ETag, webdav.ConditionalMatch.ETag) *)

(** any byte string, whatever strconv.IsPrint says about the runes above U+00FF *)
Theorem C16_etag_roundtrip : forall (is_print_hi : N -> bool) b,
  etag_unmarshal (etag_marshal is_print_hi b) = Ok b.
Proof. exact etag_roundtrip. Qed.
Print Assumptions C16_etag_roundtrip.

(** the text sent is a double-quoted interpreted string literal of the Go specification, in
    the strict sense (it never contains a byte that is not valid UTF-8), denoting the tag *)
Theorem C16_etag_marshal_in_grammar : forall (is_print_hi : N -> bool) b,
  dq_den false (etag_marshal is_print_hi b) = Some b.
Proof. exact etag_marshal_in_grammar. Qed.
Print Assumptions C16_etag_marshal_in_grammar.

(** strconv.Unquote (strconv.Quote b) = b *)
Theorem C16_etag_unquote_quote : forall (is_print_hi : N -> bool) b, unquote (quote is_print_hi b) = Some b.
Proof. exact unquote_quote. Qed.
Print Assumptions C16_etag_unquote_quote.

(** the decoder accepts exactly the double-quoted interpreted string literals of the Go
    specification, read leniently (a byte that is not valid UTF-8 stands for U+FFFD),
    with the bytes they denote *)
Theorem C16_etag_accepts_iff_lenient_grammar : forall s t, etag_unmarshal s = Ok t <-> dq_den true s = Some t.
Proof. exact etag_unmarshal_iff. Qed.
Print Assumptions C16_etag_accepts_iff_lenient_grammar.

(** every strict literal is accepted with the bytes it denotes *)
Theorem C16_etag_accepts_grammar : forall s t, dq_den false s = Some t -> etag_unmarshal s = Ok t.
Proof. exact etag_accepts_grammar. Qed.
Print Assumptions C16_etag_accepts_grammar.

Theorem C16_etag_never_panics : forall s, etag_unmarshal s <> Panic.
Proof. exact etag_unmarshal_never_panics. Qed.
Print Assumptions C16_etag_never_panics.

(** rejection side, except the listed finding C16-etag-invalid-utf8 ... *)
Theorem C16_etag_rejects_except_invalid_utf8 : forall s t,
  kf_etag_invalid_utf8 s (obs_of (etag_unmarshal s)) = false ->
  etag_unmarshal s = Ok t -> dq_den false s = Some t.
Proof. exact etag_rejects_except_invalid_utf8. Qed.
Print Assumptions C16_etag_rejects_except_invalid_utf8.

(** ... which is real: "\xff" (a raw byte FF between quotes) is accepted as U+FFFD *)
Theorem C16_etag_rejects_refuted : exists s t,
  etag_unmarshal s = Ok t /\ dq_den false s = None
  /\ kf_etag_invalid_utf8 s (obs_of (etag_unmarshal s)) = true.
Proof. exact etag_rejects_refuted. Qed.
Print Assumptions C16_etag_rejects_refuted.

(** ** Hrefs (internal.Href) *)

(** any absolute path whose first segment is not empty, byte for byte; nothing else of
    the URL is set by the decoder *)
Theorem C16_href_roundtrip : forall p, href_in_domain p = true ->
  href_unmarshal (href_marshal p) = Ok (HUrl (url_of_path p)).
Proof. exact href_roundtrip. Qed.
Print Assumptions C16_href_roundtrip.

(** the text sent is a path-absolute of RFC 3986 (a Simple-ref of RFC 4918 8.3) denoting p *)
Theorem C16_href_marshal_in_grammar : forall p, href_in_domain p = true ->
  href_den (href_marshal p) = Some p /\ href_scope (href_marshal p) = true.
Proof. exact href_marshal_in_grammar. Qed.
Print Assumptions C16_href_marshal_in_grammar.

(** percent-unescaping inverts percent-escaping, for paths and fragments, on every byte string *)
Theorem C16_href_unescape_escape : forall m p, unescape (escape m p) = Some p.
Proof. exact unescape_escape. Qed.
Print Assumptions C16_href_unescape_escape.

(** every path-absolute [ "?" query ] is accepted with the path it denotes *)
Theorem C16_href_accepts_grammar : forall s p, href_den s = Some p ->
  exists x, href_unmarshal s = Ok (HUrl x) /\ u_path x = p /\ u_fragment x = EmptyString
            /\ u_scheme x = EmptyString /\ u_opaque x = EmptyString.
Proof. exact href_accepts_grammar. Qed.
Print Assumptions C16_href_accepts_grammar.

(** in the scope of the specification (no scheme, no authority) the decoder accepts
    exactly the lenient reading of a reference, with its path and fragment *)
Theorem C16_href_accepts_iff_lenient_reading : forall s, href_scope s = true ->
  match href_unmarshal s with
  | Ok (HUrl x) => lax_den s = Some (u_path x, u_fragment x) /\ u_scheme x = EmptyString /\ u_opaque x = EmptyString
  | Ok (HAuth _ _) => False
  | Err _ => lax_den s = None
  | Panic => False
  end.
Proof. exact href_unmarshal_scope. Qed.
Print Assumptions C16_href_accepts_iff_lenient_reading.

Theorem C16_href_never_panics : forall s, href_unmarshal s <> Panic.
Proof. exact href_unmarshal_never_panics. Qed.
Print Assumptions C16_href_never_panics.

(** rejection side, in scope, except the listed finding C16-href-lenient ... *)
Theorem C16_href_rejects_except_lenient : forall s v, href_scope s = true ->
  kf_href_lenient s (hobs_of (href_unmarshal s)) = false ->
  href_unmarshal s = Ok v -> exists x, v = HUrl x /\ href_den s = Some (u_path x).
Proof. exact href_rejects_except_lenient. Qed.
Print Assumptions C16_href_rejects_except_lenient.

(** ... which is real: "/a b" (a raw space) is accepted *)
Theorem C16_href_rejects_refuted : exists s x,
  href_scope s = true /\ href_unmarshal s = Ok (HUrl x) /\ href_den s = None
  /\ kf_href_lenient s (ObsOk (false, EmptyString, x)) = true.
Proof. exact href_rejects_refuted. Qed.
Print Assumptions C16_href_rejects_refuted.
