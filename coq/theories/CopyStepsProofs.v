(** CopyStepsProofs.v — the entry-by-entry copy of CopySteps.v computes, with
    Leibniz equality of the whole sandbox, the single step of [DavServer.do_copy]:
    mapping the copied tree at the destination. *)
From GW Require Import Base GoPath Fs DavServer FsProofs UploadSteps UploadStepsProofs CopySteps.
Local Open Scope list_scope.

(** * Induction over trees *)
Fixpoint node_ind' (P : node -> Prop)
    (Hf : forall c m, P (File c m))
    (Hd : forall ch, Forall (fun kc => P (snd kc)) ch -> P (Dir ch)) (n : node) : P n :=
  match n with
  | File c m => Hf c m
  | Dir ch =>
    Hd ch ((fix go (l : list (string * node)) : Forall (fun kc => P (snd kc)) l :=
              match l with
              | [] => Forall_nil _
              | kc :: r => Forall_cons kc (node_ind' P Hf Hd (snd kc)) (go r)
              end) ch)
  end.

(** the local fixpoints of [copy_tree], [walk] and [sorted_tree], named *)
Definition copy_kids (st : N) : list (string * node) -> list (string * node) :=
  fix go l := match l with [] => [] | (k, c) :: r => (k, copy_tree st c) :: go r end.
Definition walk_kids (rel : path) : list (string * node) -> list (path * node) :=
  fix go l := match l with [] => [] | (k, c) :: r => walk c (rel ++ [k]) ++ go r end.
Definition sorted_kids : list (string * node) -> bool :=
  fix go l := match l with [] => true | (_, c) :: r => sorted_tree c && go r end.

Lemma copy_tree_dir st ch : copy_tree st (Dir ch) = Dir (copy_kids st ch).
Proof. reflexivity. Qed.
Lemma walk_dir ch rel : walk (Dir ch) rel = (rel, Dir ch) :: walk_kids rel ch.
Proof. reflexivity. Qed.
Lemma sorted_dir ch : sorted_tree (Dir ch) = keys_sorted ch && sorted_kids ch.
Proof. reflexivity. Qed.

(** * Names *)
Lemma str_ltb_neq a b : str_ltb a b = true -> String.eqb a b = false.
Proof.
  unfold str_ltb. intros H. destruct (String.eqb a b) eqn:E; [|reflexivity].
  apply String.eqb_eq in E. subst b.
  pose proof (String.compare_antisym a a) as Hc.
  destruct (String.compare a a); cbn in Hc; discriminate.
Qed.

Lemma str_ltb_asym a b : str_ltb a b = true -> str_ltb b a = false.
Proof.
  unfold str_ltb. intros H. rewrite String.compare_antisym.
  destruct (String.compare a b); try discriminate. reflexivity.
Qed.

Definition all_below (k : string) (l : list (string * node)) : Prop :=
  forall kc, In kc l -> str_ltb (fst kc) k = true.

Lemma assoc_all_below k l : all_below k l -> assoc k l = None.
Proof.
  induction l as [|[k' v] r IH]; intros H; [reflexivity|]. cbn.
  rewrite (str_ltb_neq k' k) by (apply (H (k', v)); left; reflexivity).
  apply IH. intros kc Hin. apply H. right. exact Hin.
Qed.

Lemma ins_all_below k v l : all_below k l -> ins_assoc k v l = l ++ [(k, v)].
Proof.
  induction l as [|[k' w] r IH]; intros H; [reflexivity|]. cbn.
  rewrite (str_ltb_asym k' k) by (apply (H (k', w)); left; reflexivity).
  f_equal. apply IH. intros kc Hin. apply H. right. exact Hin.
Qed.

Lemma set_all_below k v l : all_below k l -> set_assoc k v l = l ++ [(k, v)].
Proof. intros H. unfold set_assoc. rewrite assoc_all_below by exact H. apply ins_all_below. exact H. Qed.

(** * Trees *)

(** Mapping a member below a directory that was just mapped is mapping the directory
    with that member. *)
Lemma seto_child p : forall on l t k x,
  seto on p (Dir l) = Some t -> seto (Some t) (p ++ [k]) x = seto on p (Dir (set_assoc k x l)).
Proof.
  induction p as [|s r IH]; intros on l t k x H.
  - cbn in H. inversion H; subst t. reflexivity.
  - rewrite seto_cons in H. destruct on as [[c m|ch]|]; try discriminate.
    destruct (seto (assoc s ch) r (Dir l)) as [c'|] eqn:E; [|discriminate].
    inversion H; subst t; clear H.
    cbn [app]. rewrite !seto_cons. rewrite assoc_set_same.
    rewrite (IH _ _ _ k x E).
    destruct (seto (assoc s ch) r (Dir (set_assoc k x l))); [|reflexivity].
    rewrite set_set. reflexivity.
Qed.

Lemma geto_remo_self p : forall on, p <> [] -> geto (remo on p) p = None.
Proof.
  intros on Hne. pose proof (abs_remo p on p) as H. rewrite is_prefix_refl in H.
  destruct (geto (remo on p) p) as [[c m|ch]|]; cbn in H; try discriminate. reflexivity.
Qed.

Lemma copy_entries_app t dst st a b :
  copy_entries (Some t) dst st (a ++ b) =
  match copy_entries (Some t) dst st a with
  | Some s' => copy_entries (Some s') dst st b
  | None => None
  end.
Proof.
  revert t. induction a as [|e r IH]; intros t; cbn [app copy_entries]; [reflexivity|].
  destruct (copy_entry (Some t) dst st e); [apply IH|reflexivity].
Qed.

(** * The walk computes the copied tree *)

Definition subtree_copied (n : node) : Prop :=
  sorted_tree n = true ->
  forall dst rel t st,
    dst ++ rel <> [] ->
    geto (Some t) (dst ++ rel) = None ->
    is_dir (geto (Some t) (removelast (dst ++ rel))) = true ->
    copy_entries (Some t) dst st (walk n rel) = seto (Some t) (dst ++ rel) (copy_tree st n).

Lemma kids_copied dst rel t st :
  dst ++ rel <> [] ->
  is_dir (geto (Some t) (removelast (dst ++ rel))) = true ->
  forall ch,
    Forall (fun kc => subtree_copied (snd kc)) ch ->
    keys_sorted ch = true -> sorted_kids ch = true ->
    forall done sk,
      seto (Some t) (dst ++ rel) (Dir done) = Some sk ->
      (forall kc, In kc ch -> all_below (fst kc) done) ->
      copy_entries (Some sk) dst st (walk_kids rel ch)
      = seto (Some t) (dst ++ rel) (Dir (done ++ copy_kids st ch)).
Proof.
  intros Hne Hpar. set (p := dst ++ rel) in *.
  induction ch as [|[k c] r IH]; intros HF Hks Hsk done sk Hsk_eq Hbelow.
  - cbn. rewrite app_nil_r. symmetry. exact Hsk_eq.
  - cbn [walk_kids copy_kids]. fold (walk_kids rel) (copy_kids st).
    rewrite copy_entries_app.
    inversion HF as [|? ? Hc HFr]; subst. cbn [snd] in Hc.
    cbn [keys_sorted] in Hks. apply andb_prop in Hks. destruct Hks as [Hk_lt Hks].
    cbn [sorted_kids] in Hsk. fold sorted_kids in Hsk. apply andb_prop in Hsk. destruct Hsk as [Hc_sorted Hsk].
    assert (Hk_below : all_below k done) by (apply (Hbelow (k, c)); left; reflexivity).
    assert (Hpk : dst ++ (rel ++ [k]) = p ++ [k]) by (unfold p; rewrite app_assoc; reflexivity).
    rewrite (Hc Hc_sorted dst (rel ++ [k]) sk st).
    + rewrite Hpk. rewrite (seto_child p (Some t) done sk k (copy_tree st c) Hsk_eq).
      rewrite set_all_below by exact Hk_below.
      destruct (seto_ok p (Some t) (Dir (done ++ [(k, copy_tree st c)])) Hne Hpar) as [sk' Hsk'].
      rewrite Hsk'.
      rewrite (IH HFr Hks Hsk (done ++ [(k, copy_tree st c)]) sk' Hsk').
      * rewrite <- app_assoc. reflexivity.
      * intros kc Hin kd Hd. apply in_app_or in Hd. destruct Hd as [Hd|[<-|[]]].
        -- apply (Hbelow kc); [right; exact Hin|exact Hd].
        -- cbn [fst]. rewrite forallb_forall in Hk_lt. apply Hk_lt. exact Hin.
    + rewrite Hpk. destruct p; discriminate.
    + rewrite Hpk. rewrite (geto_seto_at p _ _ _ [k] Hsk_eq). cbn. apply assoc_all_below. exact Hk_below.
    + rewrite Hpk, removelast_last. rewrite (geto_seto_self _ _ _ _ Hsk_eq). reflexivity.
Qed.

Lemma walk_copies n : subtree_copied n.
Proof.
  induction n as [c m|ch IH] using node_ind'; intros Hs dst rel t st Hne Hg Hpar.
  - cbn [walk copy_entries copy_tree]. unfold copy_entry. cbn [fst snd copy_shallow].
    destruct (seto (Some t) (dst ++ rel) (File c st)); reflexivity.
  - rewrite walk_dir, copy_tree_dir. cbn [copy_entries]. unfold copy_entry. cbn [fst snd copy_shallow].
    destruct (seto_ok (dst ++ rel) (Some t) (Dir []) Hne Hpar) as [s1 Hs1]. rewrite Hs1.
    rewrite sorted_dir in Hs. apply andb_prop in Hs. destruct Hs as [Hks Hsk].
    rewrite (kids_copied dst rel t st Hne Hpar ch IH Hks Hsk [] s1 Hs1).
    + reflexivity.
    + intros kc _ kd [].
Qed.

(** Depth infinity: visiting every entry of the source in Walk order and creating it
    at the corresponding place below the destination yields exactly the tree in
    which the copied source is mapped at the destination. *)
Theorem copy_walk_is_copy_tree s dst st n :
  sorted_tree n = true -> dst <> [] ->
  geto s dst = None -> is_dir (geto s (removelast dst)) = true ->
  copy_walk s dst st n true = seto s dst (copy_tree st n).
Proof.
  intros Hs Hne Hg Hpar. unfold copy_walk.
  destruct s as [t|].
  2:{ destruct dst as [|d0 dr]; [congruence|]. rewrite geto_None in Hpar. discriminate. }
  pose proof (walk_copies n Hs dst [] t st) as H. rewrite app_nil_r in H. apply H; assumption.
Qed.

(** Depth 0: only the source itself is visited. *)
Theorem copy_walk_shallow s dst st n :
  copy_walk s dst st n false = seto s dst (copy_shallow st n).
Proof.
  unfold copy_walk. cbn [copy_entries]. unfold copy_entry. cbn [fst snd]. rewrite app_nil_r.
  destruct (seto s dst (copy_shallow st n)); reflexivity.
Qed.

(** * The single step of [do_copy] is this walk *)
Theorem copy_is_walk root sb r dst recursive overwrite ss n ds created :
  copy_move_checks root sb (rpath r) dst overwrite = GOk (ss, n, ds, created) ->
  sorted_tree n = true ->
  fst (do_copy root sb r dst recursive overwrite)
  = match copy_walk (remo sb (hp root ds)) (hp root ds) (stamp r) n recursive with
    | Some sb' => Some sb'
    | None => sb
    end.
Proof.
  intros Hchk Hs. unfold do_copy. rewrite Hchk.
  assert (Hpar : is_dir (geto sb (hp root (parent ds))) = true /\ ds <> []).
  { unfold copy_move_checks in Hchk.
    destruct (segs_of (rpath r)) as [ss0|]; [|discriminate].
    destruct (segs_of dst) as [ds0|]; [|discriminate].
    destruct (is_prefix ss0 ds0 || is_prefix ds0 ss0) eqn:Epre; [discriminate|].
    destruct (geto sb (hp root ss0)); [|discriminate].
    destruct (is_dir (geto sb (hp root (parent ds0)))) eqn:Ed; cbn [negb] in Hchk; [|discriminate].
    assert (ds0 = ds) by (destruct (exists_ (geto sb (hp root ds0))); [destruct overwrite|]; inversion Hchk; reflexivity).
    subst ds0. split; [exact Ed|].
    intros ->. destruct ss0; cbn in Epre; discriminate. }
  destruct Hpar as [Hpar Hne].
  assert (Hne' : hp root ds <> []) by (unfold hp; destruct ds; [congruence|]; destruct root; discriminate).
  destruct recursive.
  - rewrite copy_walk_is_copy_tree; [destruct (seto _ _ _); reflexivity|exact Hs|exact Hne'|apply geto_remo_self; exact Hne'|].
    rewrite !is_dir_kind, abs_remo.
    assert (Hrl : removelast (hp root ds) = hp root (parent ds)).
    { unfold hp, parent. apply removelast_app. exact Hne. }
    rewrite Hrl.
    assert (Hnp : is_prefix (hp root ds) (hp root (parent ds)) = false).
    { unfold hp. rewrite is_prefix_app_l.
      destruct (is_prefix ds (parent ds)) eqn:E; [|reflexivity]. exfalso.
      apply is_prefix_spec in E. destruct E as [suf E].
      assert (Hl : List.length (parent ds) = List.length (ds ++ suf)) by (rewrite <- E; reflexivity).
      unfold parent in Hl. rewrite app_length in Hl.
      rewrite (app_removelast_last ""%string Hne) in Hl at 2. rewrite app_length in Hl. cbn in Hl. lia. }
    rewrite Hnp. rewrite <- is_dir_kind. exact Hpar.
  - rewrite copy_walk_shallow. destruct (seto _ _ _); reflexivity.
Qed.

(** the hypotheses are satisfiable and the statement says something *)
Example copy_walk_example :
  let src := Dir [("a", File "x" 1); ("d", Dir [("e", File "y" 2)])]%string in
  let sb := Some (Dir [("r", Dir [("s", src)])])%string in
  sorted_tree src = true /\
  copy_walk sb ["r"; "t"]%string 9 src true =
  Some (Dir [("r", Dir [("s", src); ("t", Dir [("a", File "x" 9); ("d", Dir [("e", File "y" 9)])])])])%string.
Proof. vm_compute. split; reflexivity. Qed.

(** Why the target of each entry must be [dst ++ rel]: creating every entry at the
    destination itself (what the Walk callback did before commit daf1ef4) fails on
    the first member. *)
Example copy_flat_target_fails :
  let src := Dir [("a", File "x" 1)]%string in
  let sb := Some (Dir [("r", Dir [("s", src)])])%string in
  fold_left (fun s e => match s with Some _ => seto s ["r"; "t"]%string (copy_shallow 9 (snd e)) | None => None end)
            (walk src []) sb
  <> seto sb ["r"; "t"]%string (copy_tree 9 src).
Proof. vm_compute. discriminate. Qed.
