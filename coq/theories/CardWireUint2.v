(** CardWireUint2.v — the remaining single-step lemma of CardWireUint.v: one white-space
    code point at the END of a string (both models read the reversed string). *)
From Coq Require Import Lia.
From GW Require Import Base CardXml CardWire CardWireUint.
Module ST := ServerTotal.

Definition isn (o : option (list ascii)) : bool := match o with Some [] => true | _ => false end.
Lemma match_isn {X} (o : option (list ascii)) (A B : X) :
  match o with Some [] => A | _ => B end = if isn o then A else B.
Proof. destruct o as [[|? ?]|]; reflexivity. Qed.

Definition T2 (d c : ascii) : bool :=
  Ascii.eqb (b 194) d && (Ascii.eqb c (b 133) || Ascii.eqb c (b 160)).

Lemma L2 d c : isn (strip_one [d; c]) = T2 d c.
Proof.
  unfold T2. bytes d; cbn; try reflexivity.
  destruct (_ || _); reflexivity.
Qed.

Definition rng (c : ascii) : bool :=
  (Nat.leb 128 (nat_of_ascii c) && Nat.leb (nat_of_ascii c) 138)
  || Ascii.eqb c (b 168) || Ascii.eqb c (b 169) || Ascii.eqb c (b 175).

Definition T3 (e d c : ascii) : bool :=
  (Ascii.eqb (b 225) e && (Ascii.eqb d (b 154) && Ascii.eqb c (b 128)))
  || (Ascii.eqb (b 226) e && ((Ascii.eqb d (b 128) && rng c) || (Ascii.eqb d (b 129) && Ascii.eqb c (b 159))))
  || (Ascii.eqb (b 227) e && (Ascii.eqb d (b 128) && Ascii.eqb c (b 128))).

Lemma L3 e d c : isn (strip_one [e; d; c]) = T3 e d c.
Proof.
  unfold T3, rng. bytes e; cbn -[Nat.leb nat_of_ascii]; try reflexivity.
  - match goal with |- isn (if ?A then _ else _) = _ => destruct A; reflexivity end.
  - match goal with |- isn (if ?A then _ else _) = _ => destruct A; reflexivity end.
  - match goal with |- isn (if ?A then _ else if ?B then _ else _) = _ => destruct A, B; reflexivity end.
  - match goal with |- isn (if ?A then _ else _) = _ => destruct A; reflexivity end.
Qed.

(** ServerTotal's prefix search with the comparison written variable-first (so that
    evaluation keeps the tests on unknown bytes folded) *)
Fixpoint sp' (p s : string) : option string :=
  match p with
  | EmptyString => Some s
  | String c p' => match s with
                   | String c' s' => if Ascii.eqb c' c then sp' p' s' else None
                   | EmptyString => None
                   end
  end.
Fixpoint so' (seqs : list string) (s : string) : option string :=
  match seqs with
  | [] => None
  | p :: r => match sp' p s with Some s' => Some s' | None => so' r s end
  end.
Lemma sp'_eq p : forall s, ST.strip_prefix_s p s = sp' p s.
Proof. induction p as [|c p IH]; intros s; simpl; auto. destruct s; auto. rewrite Ascii.eqb_sym, IH. reflexivity. Qed.
Lemma so'_eq seqs s : ST.strip_one seqs s = so' seqs s.
Proof. induction seqs as [|p r IH]; simpl; auto. rewrite sp'_eq, IH. reflexivity. Qed.

Definition rseqs_v : list string := Eval vm_compute in rseqs.
Lemma rseqs_v_eq : rseqs = rseqs_v. Proof. vm_compute. reflexivity. Qed.

Ltac split_eqb :=
  repeat match goal with
         | |- context [Ascii.eqb ?x ?y] =>
           is_var x; destruct (Ascii.eqb_spec x y); [subst; cbn|]
         end.

Ltac prep :=
  rewrite so'_eq, rseqs_v_eq; cbn [LA]; unfold strip_one_rev; rewrite ?match_isn, ?L2, ?L3; unfold T2, T3, rng;
  rewrite ?(Ascii.eqb_sym (b 194)), ?(Ascii.eqb_sym (b 225)), ?(Ascii.eqb_sym (b 226)), ?(Ascii.eqb_sym (b 227)).

(** one white-space code point at the end (both sides read the reversed string) *)
Lemma strip_one_rev_agree s : option_map LA (ST.strip_one rseqs s) = strip_one_rev (LA s).
Proof.
  destruct s as [|c [|d [|e r]]].
  - reflexivity.
  - prep. bytes c; reflexivity.
  - prep. bytes c; cbn; try reflexivity; split_eqb; try reflexivity; try congruence.
  - prep. bytes c; cbn; try reflexivity; split_eqb; try reflexivity; try congruence.
Qed.

(** the two readings of the character data of <nresults> agree, unconditionally *)
Theorem uint_agree_all s :
  match unmarshal_uint s, ST.parse_uint s with
  | Ok x, Some y => y = x
  | Err c, None => c = 400%N
  | _, _ => False
  end.
Proof. exact (uint_agree strip_one_rev_agree s). Qed.
