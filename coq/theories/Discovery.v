(** Discovery.v — C12: the client's discovery chain against the CalDAV / CardDAV
    server, composed from the server model of Route.v (classification, scope
    walk) and PropFind.v (what every answered resource reports).

    Model, function by function, of
      internal/client.go   ResolveHref, PropFind, PropFindFlat (with net/http following the
                           308 of /.well-known)
      internal/elements.go Response.DecodeProp (first propstat holding the name decides)
      client.go            FindCurrentUserPrincipal, ReadDir / fileInfoFromResponse
      caldav/client.go     FindCalendarHomeSet, FindCalendars
      carddav/client.go    FindAddressBookHomeSet, FindAddressBooks
    No proofs here: this file is extracted. *)
From GW Require Import Base Route PropFind.

Local Open Scope string_scope.

(** * internal/client.go *)

(** path.Join(endpoint.Path, p) for a non-empty endpoint path *)
Definition path_join (a b : string) : string :=
  if String.eqb b "" then clean a else clean (a ++ "/" ++ b).

(** Client.ResolveHref: an absolute path is taken as it is, anything else is
    joined to the endpoint's path (and thereby cleaned) *)
Definition resolve (endpoint p : string) : string :=
  if has_prefix p "/" then p else path_join endpoint p.

Definition prop_request (names : list name) : propfind :=
  {| pf_propname := false; pf_allprop := false; pf_prop := Some names |}.

Definition depth_header (d : depth) : depth_hdr :=
  match d with D0 => DH0 | D1 => DH1 | DInf => DHInf end.

(** Client.PropFind against Handler.ServeHTTP: a text/xml body naming [names],
    a Depth header; the 308 answered for /.well-known/caldav|carddav is followed
    by net/http (method and body are kept) to the principal's path; a second
    redirect would loop until net/http gives up.  Only an absolute principal
    path is modelled as redirect target.  Anything but 207 is an error. *)
Definition client_propfind (s : server) (hprefix : string) (b : backend)
           (path : string) (d : depth) (names : list name) : res (list response) :=
  let path := if String.eqb path (well_known s) then principal b else path in
  if String.eqb path (well_known s) then Err 0
  else hier_propfind s hprefix b path CTXml (BPropfind (prop_request names)) (depth_header d).

(** * internal/elements.go: Response.DecodeProp for one name *)

Fixpoint find_entry (n : name) (ps : list propstat) : option (N * option pval) :=
  match ps with
  | [] => None
  | (c, es) :: rest =>
    match find (fun e => name_eqb n (fst e)) es with
    | Some e => Some (c, snd e)
    | None => find_entry n rest
    end
  end.

(** the value; "not found" (absent, or under 404: internal.IsNotFound); another error *)
Inductive got := GVal (v : option pval) | GMissing | GError.

Definition decode_prop (r : response) (n : name) : got :=
  match find_entry n (r_propstats r) with
  | None => GMissing
  | Some (c, v) =>
    if N.eqb (c / 100) 2 then GVal v else if N.eqb c 404 then GMissing else GError
  end.

Definition is_error (g : got) : bool := match g with GError => true | _ => false end.

(** a decoded ResourceType *)
Definition types_of (g : got) : option (list name) :=
  match g with
  | GVal (Some (VRes ts)) => Some ts
  | GVal _ => Some []
  | _ => None
  end.

(** a decoded property holding an href *)
Definition href_in (g : got) : option string :=
  match g with
  | GVal (Some (VHref p)) => Some p
  | GVal _ => Some ""
  | _ => None
  end.

(** * The chain *)

Definition home_set_name (s : server) : name :=
  match s with CalDAV => (NS_CAL, "calendar-home-set") | CardDAV => (NS_CARD, "addressbook-home-set") end.

Definition coll_type_name (s : server) : name :=
  match s with CalDAV => (NS_CAL, "calendar") | CardDAV => (NS_CARD, "addressbook") end.

(** the properties FindCalendars / FindAddressBooks ask for *)
Definition coll_request (s : server) : list name :=
  match s with
  | CalDAV => [n_resourcetype; n_displayname; (NS_CAL, "calendar-description");
               (NS_CAL, "max-resource-size"); (NS_CAL, "supported-calendar-component-set")]
  | CardDAV => [n_resourcetype; n_displayname; (NS_CARD, "addressbook-description");
                (NS_CARD, "max-resource-size"); (NS_CARD, "supported-address-data")]
  end.

(** fileInfoPropFind *)
Definition file_request : list name :=
  [n_resourcetype; n_getcontentlength; n_getlastmodified; n_getcontenttype; n_getetag].

(** PropFindFlat: exactly one response *)
Definition flat1 (r : res (list response)) : option response :=
  match r with Ok [x] => Some x | _ => None end.

(** FindCurrentUserPrincipal: PROPFIND Depth 0 on the endpoint itself *)
Definition find_principal (s : server) (hprefix : string) (b : backend) (endpoint : string) : option string :=
  match flat1 (client_propfind s hprefix b (resolve endpoint "") D0 [n_cup]) with
  | Some r => href_in (decode_prop r n_cup)
  | None => None
  end.

(** FindCalendarHomeSet / FindAddressBookHomeSet *)
Definition find_home_set (s : server) (hprefix : string) (b : backend) (endpoint principal_path : string)
  : option string :=
  match flat1 (client_propfind s hprefix b (resolve endpoint principal_path) D0 [home_set_name s]) with
  | Some r => href_in (decode_prop r (home_set_name s))
  | None => None
  end.

(** the loop of FindCalendars / FindAddressBooks: the responses whose resource
    type has the calendar / addressbook element; any undecodable property fails *)
Fixpoint pick_colls (s : server) (rs : list response) : option (list string) :=
  match rs with
  | [] => Some []
  | r :: rest =>
    match types_of (decode_prop r n_resourcetype) with
    | None => None
    | Some ts =>
      if negb (mem_name (coll_type_name s) ts) then pick_colls s rest
      else if existsb (fun n => is_error (decode_prop r n)) (coll_request s) then None
      else match pick_colls s rest with Some l => Some (r_href r :: l) | None => None end
    end
  end.

Definition find_colls (s : server) (hprefix : string) (b : backend) (endpoint home : string)
  : option (list string) :=
  match client_propfind s hprefix b (resolve endpoint home) D1 (coll_request s) with
  | Ok rs => pick_colls s rs
  | _ => None
  end.

(** fileInfoFromResponse, reduced to (path, IsDir) *)
Definition file_info (r : response) : option (string * bool) :=
  match types_of (decode_prop r n_resourcetype) with
  | None => None
  | Some ts =>
    if mem_name n_collection ts then
      if is_error (decode_prop r n_getlastmodified) then None else Some (r_href r, true)
    else
      match decode_prop r n_getcontentlength with
      | GVal _ =>
        if is_error (decode_prop r n_getcontenttype) || is_error (decode_prop r n_getetag)
           || is_error (decode_prop r n_getlastmodified)
        then None else Some (r_href r, false)
      | _ => None                         (* a file must report its length *)
      end
  end.

Fixpoint map_opt {A B} (f : A -> option B) (l : list A) : option (list B) :=
  match l with
  | [] => Some []
  | x :: r => match f x, map_opt f r with Some y, Some ys => Some (y :: ys) | _, _ => None end
  end.

(** ReadDir(name, false), keeping the paths of the entries that are not collections *)
Definition read_dir_files (s : server) (hprefix : string) (b : backend) (endpoint dir : string)
  : option (list string) :=
  match client_propfind s hprefix b (resolve endpoint dir) D1 file_request with
  | Ok rs =>
    match map_opt file_info rs with
    | Some fis => Some (map fst (filter (fun fi => negb (snd fi)) fis))
    | None => None
    end
  | _ => None
  end.

Inductive step := SPrincipal | SHome | SColls | SObjs.

Inductive discovered :=
| Found (principal_path home : string) (collections objects : list string)
| Failed (at_step : step).

(** The chain the harness runs: principal, home set, collections, and the
    objects listed in every discovered collection, in order. *)
Definition discover (s : server) (hprefix : string) (b : backend) (endpoint : string) : discovered :=
  match find_principal s hprefix b endpoint with
  | None => Failed SPrincipal
  | Some p =>
    match find_home_set s hprefix b endpoint p with
    | None => Failed SHome
    | Some h =>
      match find_colls s hprefix b endpoint h with
      | None => Failed SColls
      | Some cs =>
        match map_opt (read_dir_files s hprefix b endpoint) cs with
        | None => Failed SObjs
        | Some os => Found p h cs (List.concat os)
        end
      end
    end
  end.

(** * Specification: exactly the backend's paths *)

Definition backend_paths (b : backend) : discovered :=
  Found (principal b) (homeset b) (map c_path (colls b)) (map o_path (all_objs b)).

Definition step_eqb (a b : step) : bool :=
  match a, b with
  | SPrincipal, SPrincipal | SHome, SHome | SColls, SColls | SObjs, SObjs => true
  | _, _ => false
  end.

Definition discovered_eqb (a b : discovered) : bool :=
  match a, b with
  | Found p h cs os, Found p' h' cs' os' =>
    String.eqb p p' && String.eqb h h' && list_eqb String.eqb cs cs' && list_eqb String.eqb os os'
  | Failed x, Failed y => step_eqb x y
  | _, _ => false
  end.

Definition obj_eqb (a b : obj) : bool :=
  String.eqb (o_path a) (o_path b) && Bool.eqb (o_len a) (o_len b) && Bool.eqb (o_mod a) (o_mod b)
  && Bool.eqb (o_etag a) (o_etag b).
Definition coll_eqb (a b : coll) : bool :=
  String.eqb (c_path a) (c_path b) && Bool.eqb (c_name a) (c_name b) && Bool.eqb (c_desc a) (c_desc b)
  && Bool.eqb (c_max a) (c_max b) && list_eqb obj_eqb (c_objs a) (c_objs b).
Definition backend_eqb (a b : backend) : bool :=
  String.eqb (principal a) (principal b) && String.eqb (homeset a) (homeset b)
  && list_eqb coll_eqb (colls a) (colls b).

(** the discovery starts at the well-known URI, at the root of the mount
    prefix (either spelling) or at the principal itself *)
Definition start_ok (s : server) (h : hier) (endpoint : string) : bool :=
  String.eqb endpoint (well_known s)
  || String.eqb endpoint (req_path (h_ps h) [] false) || String.eqb endpoint (req_path (h_ps h) [] true)
  || String.eqb endpoint (principal (backend_of h)).

(** every object reports its length (webdav.Client cannot list it otherwise) *)
Definition lengths_known (h : hier) : bool :=
  forallb (fun c => forallb ho_len (hc_objs c)) (h_colls h).

(** no resource of the layout sits on the reserved well-known URI (whose
    requests the handler redirects instead of serving) *)
Definition avoids_well_known (s : server) (b : backend) : bool :=
  negb (String.eqb (principal b) (well_known s)) && negb (String.eqb (homeset b) (well_known s))
  && forallb (fun c => negb (String.eqb (c_path c) (well_known s))) (colls b).

(** the case is one the property speaks about: the backend holds a well-formed
    layout [h] under the prefix, the chain starts at one of its start points *)
Definition disc_in_quantifier (s : server) (hprefix : string) (b : backend) (endpoint : string)
           (h : hier) (ptrail : bool) : bool :=
  hier_ok h && lengths_known h && start_ok s h endpoint
  && backend_eqb (backend_of h) b && String.eqb hprefix (spell_prefix (h_ps h) ptrail)
  && avoids_well_known s b.

(** Correspondence verdicts (extracted) *)
Definition disc_agrees (s : server) (hprefix : string) (b : backend) (endpoint : string) (o : discovered) : bool :=
  discovered_eqb (discover s hprefix b endpoint) o.

Definition disc_spec_ok (b : backend) (o : discovered) : bool := discovered_eqb (backend_paths b) o.
