(** ServerTotalAgree.v — the two models of webdav.Handler agree.

    [ServerTotal.serve (CDav env r)] is internal/server.go + server.go over a FileSystem
    whose answers are arbitrary ([fs_env]); [DavServer.serve root sb r] is the same
    handler code composed with the model of LocalFileSystem on the sandbox tree.
    [local_env root sb r] is the FileSystem double that answers as LocalFileSystem does on
    [sb] for the calls the handler makes for [r], each answer taken from DavServer's own
    [stat] / [do_put] / [do_delete] / [do_mkcol] / [do_copy] / [do_move]. *)
From GW Require Import Base GoPath Fs DavServer ServerTotal ServerTotalProofs.
Local Open Scope N_scope.

Module D := DavServer.

Definition st (x : option node * D.response) : N := D.status (snd x).

(** ** the answers of LocalFileSystem *)
Section Local.
  Variable root : path.
  Variable sb : option node.
  Variable r : D.request.

  Definition fi_of_node (n : node) : fileinfo := {| fi_isdir := is_dir (Some n) |}.

  Definition local_stat : bres (option fileinfo) :=
    match D.stat root sb (D.dir_tag r) (D.rpath r) with
    | D.GErr e => BErr (EDirect (D.ecode e))
    | D.GOk (_, n) => BOk (Some (fi_of_node n))
    end.

  (** Open succeeds on what Stat found *)
  Definition local_open : option ServerTotal.gerr :=
    match D.stat root sb (D.dir_tag r) (D.rpath r) with
    | D.GErr e => Some (EDirect (D.ecode e))
    | D.GOk _ => None
    end.

  Definition local_readdir : bres (list fileinfo) :=
    match D.stat root sb (D.dir_tag r) (D.rpath r) with
    | D.GErr e => BErr (EDirect (D.ecode e))
    | D.GOk (_, n) => BOk (map (fun pn => fi_of_node (snd pn)) (walk n []))
    end.

  Definition file_info : fileinfo := {| fi_isdir := false |}.

  (** Create: the outcome DavServer.do_put computes *)
  Definition local_create : bres (option fileinfo * bool) :=
    let c := st (D.do_put root sb r) in
    if c =? 201 then BOk (Some file_info, true)
    else if c =? 204 then BOk (Some file_info, false)
    else BErr (EDirect c).

  Definition local_removeall : option ServerTotal.gerr :=
    let c := st (D.do_delete root sb r) in
    if c =? 204 then None else Some (EDirect c).

  Definition no_ctype (q : D.request) : D.request :=
    {| D.meth := D.meth q; D.rpath := D.rpath q; D.h_depth := D.h_depth q; D.h_overwrite := D.h_overwrite q;
       D.h_dest := D.h_dest q; D.h_ctype := ""; D.h_if_match := D.h_if_match q;
       D.h_if_none_match := D.h_if_none_match q; D.d_if_match := D.d_if_match q;
       D.d_if_none_match := D.d_if_none_match q; D.body := D.body q; D.body_fails := D.body_fails q;
       D.pf := D.pf q; D.stamp := D.stamp q; D.dir_tag := D.dir_tag q; D.mime_tab := D.mime_tab q;
       D.sniffed := D.sniffed q |}.

  (** Mkdir: DavServer.do_mkcol is backend.Mkcol + Mkdir; the 409 it gives for a missing
      parent is the backend's translation of Mkdir's 404 (IsNotFound), undone here *)
  Definition local_mkdir : option ServerTotal.gerr :=
    let c := st (D.do_mkcol root sb (no_ctype r)) in
    if c =? 201 then None else if c =? 409 then Some (EDirect 404) else Some (EDirect c).

  (** the arguments internal/server.go hands to Copy / Move for valid headers *)
  Definition arg_overwrite : bool := negb (String.eqb (D.h_overwrite r) "F").
  Definition arg_recursive : bool := negb (String.eqb (D.h_depth r) "0").

  Definition created_answer (c : N) : bres bool :=
    if c =? 201 then BOk true else if c =? 204 then BOk false else BErr (EDirect c).

  Definition local_copy : bres bool :=
    match D.h_dest r with
    | D.DestPath dst => created_answer (st (D.do_copy root sb r dst arg_recursive arg_overwrite))
    | _ => BOk false
    end.

  Definition local_move : bres bool :=
    match D.h_dest r with
    | D.DestPath dst => created_answer (st (D.do_move root sb r dst arg_overwrite))
    | _ => BOk false
    end.

  Definition local_env : fs_env := {|
    fe_has_fs := true;
    fe_stat := local_stat; fe_open := local_open; fe_readdir := local_readdir;
    fe_create := local_create; fe_removeall := local_removeall; fe_mkdir := local_mkdir;
    fe_copy := local_copy; fe_move := local_move |}.
End Local.

(** ** translating requests *)

Definition dest_of (d : D.dest_hdr) : destv :=
  match d with D.DestAbsent => DAbsent | D.DestBad => DBad | D.DestPath p => DPath p end.

Definition pf_ok (f : D.pf_form) : bool :=
  match f with D.PfAllProp | D.PfPropName => true | _ => false end.
Definition pf_bad (f : D.pf_form) : bool := match f with D.PfBad => true | _ => false end.
Definition dx_ok {A} (d : dx A) : bool := match d with DxOk _ => true | _ => false end.

(** what DavServer's [pf] stands for: on PROPPATCH, whether DecodeXMLRequest of the
    propertyupdate body fails ([PfBad]); otherwise the outcome of DecodePropFindRequest *)
Definition pf_reads (r : D.request) (r' : ServerTotal.request) : Prop :=
  if String.eqb (D.meth r) "PROPPATCH"
  then dx_ok (decode_xml_request r' (um_propupdate 0 propupdate_zero)) = negb (pf_bad (D.pf r))
  else is_some (decode_propfind_request r') = pf_ok (D.pf r).

(** [r'] is a request of ServerTotal's model that the handler reads as DavServer's [r]:
    same method, path and header texts; DavServer's [pf] is what the handler reads from
    the body ([pf_reads]) *)
Record req_match (r : D.request) (r' : ServerTotal.request) : Prop := {
  rm_method : r_method r' = D.meth r;
  rm_path : r_path r' = D.rpath r;
  rm_depth : r_depth r' = D.h_depth r;
  rm_overwrite : r_overwrite r' = D.h_overwrite r;
  rm_dest : r_dest r' = dest_of (D.h_dest r);
  rm_ctype : r_ctype_set r' = negb (String.eqb (D.h_ctype r) "");
  rm_pf : pf_reads r r'
}.

(** a canonical translation: the PROPFIND body that DecodePropFindRequest reads as [pf] *)
Definition propfind_doc (kids : list xtree) : xmlbody := XTree (XElem NS_DAV "propfind" [] kids).

Definition req_of (r : D.request) : ServerTotal.request :=
  let pp := String.eqb (D.meth r) "PROPPATCH" in {|
  r_method := D.meth r; r_path := D.rpath r; r_depth := D.h_depth r; r_overwrite := D.h_overwrite r;
  r_dest := dest_of (D.h_dest r); r_ctype_set := negb (String.eqb (D.h_ctype r) "");
  r_media := if pp then (if pf_bad (D.pf r) then "" else "application/xml")
             else match D.pf r with D.PfPropName | D.PfNone => "application/xml" | _ => "" end;
  r_media_err := false;
  r_body_empty := if pp then false else match D.pf r with D.PfAllProp => true | _ => false end;
  r_xml := if pp then XTree (XElem NS_DAV "propertyupdate" [] [])
           else match D.pf r with
                | D.PfPropName => propfind_doc [XElem NS_DAV "propname" [] []]
                | D.PfNone => propfind_doc []
                | _ => XEmpty
                end;
  r_ical_ok := false; r_vcard_ok := false; r_url_ok := fun _ => true |}.

Lemma req_of_match r : req_match r (req_of r).
Proof.
  split; try reflexivity. unfold pf_reads, req_of.
  destruct (String.eqb (D.meth r) "PROPPATCH"); destruct (D.pf r); vm_compute; reflexivity.
Qed.

(** ** the status codes of the file-server model are codes WriteHeader accepts *)

Definition okc (c : N) : Prop := 100 <= c /\ c <= 999.

Ltac crunch :=
  repeat (cbn [st snd fst D.status D.err_resp D.resp0 D.created_resp D.ecode D.herr D.wrap_http D.strip_path
               D.raw_os_error D.err_from_os D.eleak];
          match goal with
          | |- context [match ?x with _ => _ end] => destruct x eqn:?
          end);
  cbn [st snd fst D.status D.err_resp D.resp0 D.created_resp D.ecode D.herr D.wrap_http D.strip_path
       D.raw_os_error D.err_from_os D.eleak].

Lemma okc_lits : okc 200 /\ okc 201 /\ okc 204 /\ okc 207 /\ okc 400 /\ okc 403 /\ okc 404 /\ okc 405 /\
                 okc 409 /\ okc 412 /\ okc 415 /\ okc 500.
Proof. unfold okc. repeat split; lia. Qed.

Ltac okc_done := unfold okc; split; lia.

Lemma segs_code name e : D.segs_of name = D.GErr e -> D.ecode e = 400.
Proof.
  unfold D.segs_of, local_segs. destruct (has_char nul name); [intros H; inversion H; reflexivity|].
  destruct (is_abs (clean name)); intros H; inversion H; reflexivity.
Qed.

Lemma match_etag_code v d etag e : D.match_etag v d etag = D.GErr e -> D.ecode e = 400.
Proof.
  unfold D.match_etag. destruct (String.eqb etag ""); [discriminate|].
  destruct (String.eqb v "*"); [discriminate|]. destruct d; [discriminate|].
  intros H; inversion H; reflexivity.
Qed.

Lemma cond_code r etag e : D.req_cond r etag = Some e -> D.ecode e = 400 \/ D.ecode e = 412.
Proof.
  unfold D.req_cond, D.check_cond.
  destruct (String.eqb (D.h_if_match r) "").
  - destruct (String.eqb (D.h_if_none_match r) ""); [discriminate|].
    destruct (D.match_etag (D.h_if_none_match r) _ etag) as [[|]|e0] eqn:M; intros H; inversion H; subst; auto.
    left. eapply match_etag_code; eauto.
  - destruct (D.match_etag (D.h_if_match r) _ etag) as [[|]|e0] eqn:M.
    + destruct (String.eqb (D.h_if_none_match r) ""); [discriminate|].
      destruct (D.match_etag (D.h_if_none_match r) _ etag) as [[|]|e1] eqn:M2; intros H; inversion H; subst; auto.
      left. eapply match_etag_code; eauto.
    + intros H; inversion H; subst; auto.
    + intros H; inversion H; subst. left. eapply match_etag_code; eauto.
Qed.

Lemma stat_code root sb tag name e : D.stat root sb tag name = D.GErr e -> D.ecode e = 400 \/ D.ecode e = 404.
Proof.
  unfold D.stat. destruct (D.segs_of name) eqn:S; [|intros H; inversion H; subst; left; eapply segs_code; eauto].
  destruct (geto sb (D.hp root a)); [discriminate|]. intros H; inversion H; auto.
Qed.

Definition put_codes (c : N) : Prop := c = 201 \/ c = 204 \/ c = 400 \/ c = 405 \/ c = 409 \/ c = 412 \/ c = 500.

Lemma put_code root sb r : put_codes (st (D.do_put root sb r)).
Proof.
  unfold D.do_put, put_codes, st.
  destruct (D.segs_of (D.rpath r)) as [segs|e] eqn:S; [|simpl; rewrite (segs_code _ _ S); tauto].
  destruct (D.req_cond r _) as [e|] eqn:C; [simpl; destruct (cond_code _ _ _ C) as [-> | ->]; tauto|].
  destruct (is_dir _ || _); [simpl; tauto|].
  destruct (negb _); [simpl; tauto|].
  destruct (D.body_fails r); [simpl; tauto|].
  destruct (seto _ _ _); simpl; [|tauto]. destruct (exists_ _); tauto.
Qed.

Lemma delete_code root sb r :
  let c := st (D.do_delete root sb r) in c = 204 \/ c = 400 \/ c = 404 \/ c = 412.
Proof.
  unfold D.do_delete, st. destruct (D.stat root sb _ _) as [[segs n]|e] eqn:S.
  - destruct (D.req_cond r _) as [e|] eqn:C; simpl; [destruct (cond_code _ _ _ C) as [-> | ->]; tauto|tauto].
  - simpl. destruct (stat_code _ _ _ _ _ S) as [-> | ->]; tauto.
Qed.

Lemma mkcol_code root sb r :
  let c := st (D.do_mkcol root sb r) in c = 201 \/ c = 400 \/ c = 405 \/ c = 409 \/ c = 415 \/ c = 500.
Proof.
  unfold D.do_mkcol, st. destruct (negb _); [simpl; tauto|].
  destruct (D.segs_of (D.rpath r)) as [segs|e] eqn:S; [|simpl; rewrite (segs_code _ _ S); tauto].
  destruct (exists_ _); [simpl; tauto|]. destruct (negb _); [simpl; tauto|].
  destruct (seto _ _ _); simpl; tauto.
Qed.

Definition cm_codes (c : N) : Prop :=
  c = 201 \/ c = 204 \/ c = 400 \/ c = 403 \/ c = 404 \/ c = 409 \/ c = 412 \/ c = 500.

Lemma checks_code root sb src dst ow e :
  D.copy_move_checks root sb src dst ow = D.GErr e ->
  D.ecode e = 400 \/ D.ecode e = 403 \/ D.ecode e = 404 \/ D.ecode e = 409 \/ D.ecode e = 412.
Proof.
  unfold D.copy_move_checks.
  destruct (D.segs_of src) as [ss|e0] eqn:S1; [|intros H; inversion H; subst; left; eapply segs_code; eauto].
  destruct (D.segs_of dst) as [ds|e0] eqn:S2; [|intros H; inversion H; subst; left; eapply segs_code; eauto].
  destruct (is_prefix ss ds || is_prefix ds ss); [intros H; inversion H; simpl; tauto|].
  destruct (geto sb (D.hp root ss)); [|intros H; inversion H; simpl; tauto].
  destruct (negb _); [intros H; inversion H; simpl; tauto|].
  destruct (exists_ _); [destruct ow|]; try discriminate. intros H; inversion H; simpl; tauto.
Qed.

Lemma copy_code root sb r dst rc ow : cm_codes (st (D.do_copy root sb r dst rc ow)).
Proof.
  unfold D.do_copy, cm_codes, st. destruct (D.copy_move_checks _ _ _ _ _) as [[[[ss n] ds] created]|e] eqn:C.
  - destruct (seto _ _ _); simpl; [destruct created; tauto|tauto].
  - simpl. destruct (checks_code _ _ _ _ _ _ C) as [->|[->|[->|[->| ->]]]]; tauto.
Qed.

Lemma move_code root sb r dst ow : cm_codes (st (D.do_move root sb r dst ow)).
Proof.
  unfold D.do_move, cm_codes, st. destruct (D.copy_move_checks _ _ _ _ _) as [[[[ss n] ds] created]|e] eqn:C.
  - destruct (seto _ _ _); simpl; [destruct created; tauto|tauto].
  - simpl. destruct (checks_code _ _ _ _ _ _ C) as [->|[->|[->|[->| ->]]]]; tauto.
Qed.

(** ** agreement, method by method *)

Lemma wh c cs : 100 <= c -> c <= 999 -> write_header c cs = Resp c cs.
Proof. apply write_header_in_range. Qed.

(** the kind of mutation each method asks the FileSystem for *)
Definition unchanged (root : path) (sb : option node) (r : D.request) : Prop :=
  fst (D.serve root sb r) = sb.

Section Agree.
  Variable root : path.
  Variable sb : option node.
  Variable r : D.request.
  Variable r' : ServerTotal.request.
  Hypothesis M : req_match r r'.
  Let env := local_env root sb r.

  Lemma created_answer_finish name c dst :
    cm_codes c ->
    finish (hmap created_status (dav_copymove name (created_answer c) r' dst)) = Resp c [Call name (r_path r') dst].
  Proof.
    unfold cm_codes, created_answer, dav_copymove.
    intros [->|[->|[->|[->|[->|[->|[->| ->]]]]]]]; reflexivity.
  Qed.

  Lemma agree_put : D.meth r = "PUT" ->
    serve_dav env r' = Resp (st (D.do_put root sb r)) [Call "Create" (r_path r') ""].
  Proof.
    intros E. unfold serve_dav, env. simpl. rewrite internal_put by (rewrite (rm_method _ _ M); exact E).
    simpl. unfold dav_put, local_env. cbn [fe_create]. unfold local_create.
    destruct (put_code root sb r) as [->|[->|[->|[->|[->|[->| ->]]]]]]; reflexivity.
  Qed.

  Lemma agree_delete : D.meth r = "DELETE" ->
    serve_dav env r' = Resp (st (D.do_delete root sb r)) [Call "RemoveAll" (r_path r') ""].
  Proof.
    intros E. unfold serve_dav, env. simpl. unfold internal_handle. rewrite (rm_method _ _ M), E.
    replace (String.eqb "DELETE" "OPTIONS") with false by reflexivity.
    cbn -[st D.do_delete]. unfold dav_delete, local_env. cbn [fe_removeall]. unfold local_removeall.
    destruct (delete_code root sb r) as [->|[->|[->| ->]]]; reflexivity.
  Qed.

  Lemma no_ctype_id : D.h_ctype r = "" -> no_ctype r = r.
  Proof. destruct r; simpl; intros ->; reflexivity. Qed.

  Lemma agree_mkcol : D.meth r = "MKCOL" ->
    exists cs, serve_dav env r' = Resp (st (D.do_mkcol root sb r)) cs /\
               (cs = [] \/ cs = [Call "Mkdir" (r_path r') ""]) /\
               (cs = [] -> fst (D.do_mkcol root sb r) = sb).
  Proof.
    intros E. unfold serve_dav, env. simpl. rewrite internal_mkcol by (rewrite (rm_method _ _ M); exact E).
    simpl. unfold dav_mkcol. rewrite (rm_ctype _ _ M).
    destruct (String.eqb (D.h_ctype r) "") eqn:C; simpl.
    - apply String.eqb_eq in C. unfold local_env. cbn [fe_mkdir]. unfold local_mkdir. rewrite (no_ctype_id C).
      exists [Call "Mkdir" (r_path r') ""]. split; [|split; [auto|discriminate]].
      destruct (mkcol_code root sb r) as [->|[->|[->|[->|[H| ->]]]]]; try reflexivity.
      exfalso. unfold D.do_mkcol, st in H. rewrite C in H. simpl in H.
      destruct (D.segs_of (D.rpath r)) as [segs|e] eqn:S; [|simpl in H; rewrite (segs_code _ _ S) in H; discriminate].
      destruct (exists_ _); [discriminate|]. destruct (negb _); [discriminate|].
      destruct (seto _ _ _); discriminate.
    - exists []. unfold D.do_mkcol. rewrite C. simpl. auto.
  Qed.
End Agree.

Section Agree2.
  Variable root : path.
  Variable sb : option node.
  Variable r : D.request.
  Variable r' : ServerTotal.request.
  Hypothesis M : req_match r r'.
  Let env := local_env root sb r.

  Lemma finish_err_400_404 e cs : D.ecode e = 400 \/ D.ecode e = 404 ->
    finish (@HErr N (EDirect (D.ecode e)) cs) = Resp (D.ecode e) cs.
  Proof. intros [-> | ->]; reflexivity. Qed.

  Lemma agree_get (head : bool) :
    finish (dav_headget env r') = Resp (st (D.do_get root sb r head)) [] /\ fst (D.do_get root sb r head) = sb.
  Proof.
    unfold dav_headget, env, local_env. cbn [fe_stat fe_open]. unfold local_stat, local_open, D.do_get, st.
    destruct (D.stat root sb (D.dir_tag r) (D.rpath r)) as [[segs n]|e] eqn:S.
    - destruct n as [c m|ch]; simpl; auto.
    - simpl. split; auto. apply finish_err_400_404. eapply stat_code; eauto.
  Qed.

  Lemma agree_options :
    finish (hmap (fun _ => 204) (dav_options env r')) = Resp (st (D.do_options root sb r)) [] /\
    fst (D.do_options root sb r) = sb.
  Proof.
    unfold dav_options, env, local_env. cbn [fe_stat]. unfold local_stat, D.stat, D.do_options, st.
    destruct (D.segs_of (D.rpath r)) as [segs|e] eqn:S.
    - destruct (geto sb (D.hp root segs)) as [[c m|ch]|]; simpl; auto.
    - simpl. rewrite (segs_code _ _ S). auto.
  Qed.

  Lemma depth_agree :
    (if str_empty (D.h_depth r) then Some DInf else parse_depth (D.h_depth r)) =
    match (if String.eqb (D.h_depth r) "" then Some 2
           else if String.eqb (D.h_depth r) "0" then Some 0
           else if String.eqb (D.h_depth r) "1" then Some 1
           else if String.eqb (D.h_depth r) "infinity" then Some 2 else None) with
    | Some 0 => Some D0 | Some 1 => Some D1 | Some _ => Some DInf | None => None
    end.
  Proof.
    rewrite eqb_empty_r. unfold parse_depth. destruct (str_empty (D.h_depth r)); [reflexivity|].
    destruct (String.eqb (D.h_depth r) "0"); [reflexivity|].
    destruct (String.eqb (D.h_depth r) "1"); [reflexivity|].
    destruct (String.eqb (D.h_depth r) "infinity"); reflexivity.
  Qed.

  Lemma agree_propfind : String.eqb (D.meth r) "PROPPATCH" = false ->
    finish (handle_propfind (dav_backend env) r') = Resp (st (D.do_propfind root sb r)) [] /\
    fst (D.do_propfind root sb r) = sb.
  Proof.
    intros NPP. unfold handle_propfind, D.do_propfind. pose proof (rm_pf _ _ M) as P.
    unfold pf_reads in P. rewrite NPP in P.
    rewrite (rm_depth _ _ M), depth_agree.
    destruct (decode_propfind_request r') as [s|]; simpl in P.
    - destruct (D.pf r); try discriminate P.
      all: destruct (if String.eqb (D.h_depth r) "" then Some 2 else _) as [d|]; [|simpl; auto].
      all: assert (DV : exists dv, match d with 0 => Some D0 | 1 => Some D1 | _ => Some DInf end = Some dv
                              /\ depth_is0 dv = (d =? 0))
             by (destruct d as [|[p|p|]]; simpl; eauto; destruct p; eauto).
      all: destruct DV as (dv & -> & DZ).
      all: cbn [bk_propfind dav_backend]; unfold dav_propfind, env, local_env; cbn [fe_stat fe_readdir];
        unfold local_stat, local_readdir, st.
      all: destruct (D.stat root sb (D.dir_tag r) (D.rpath r)) as [[segs n]|e] eqn:S;
        [rewrite DZ; destruct (negb (d =? 0) && fi_isdir (fi_of_node n)); simpl; auto
        |simpl; split; auto; apply finish_err_400_404; eapply stat_code; eauto].
    - destruct (D.pf r); try discriminate; simpl; auto.
  Qed.

  Lemma agree_proppatch : D.meth r = "PROPPATCH" ->
    finish (handle_proppatch (dav_backend env) r') = Resp (st (D.do_proppatch sb r)) [] /\
    fst (D.do_proppatch sb r) = sb.
  Proof.
    intros E. unfold handle_proppatch, D.do_proppatch. pose proof (rm_pf _ _ M) as P.
    unfold pf_reads in P. rewrite E in P. change (String.eqb "PROPPATCH" "PROPPATCH") with true in P. cbv iota in P.
    destruct (decode_xml_request r' (um_propupdate 0 propupdate_zero)); simpl in P;
      destruct (D.pf r); try discriminate P; simpl; auto.
  Qed.

  Lemma overwrite_agree :
    (if str_empty (D.h_overwrite r) then Some true else parse_overwrite (D.h_overwrite r)) =
    (if String.eqb (D.h_overwrite r) "" then Some true
     else if String.eqb (D.h_overwrite r) "T" then Some true
     else if String.eqb (D.h_overwrite r) "F" then Some false else None).
  Proof. rewrite eqb_empty_r. reflexivity. Qed.

  Ltac triv := exists []; simpl; auto.

  Ltac cm_call E HD :=
    destruct E as [E|E]; rewrite E;
    replace (String.eqb "COPY" "COPY") with true by reflexivity;
    replace (String.eqb "MOVE" "COPY") with false by reflexivity; cbv iota; simpl;
    try (triv; fail);
    cbn [bk_copy bk_move dav_backend]; unfold local_env; cbn [fe_copy fe_move];
    unfold local_copy, local_move, arg_overwrite, arg_recursive; rewrite HD;
    repeat match goal with H : String.eqb _ _ = true |- _ => apply String.eqb_eq in H; rewrite H end;
    cbn [String.eqb Ascii.eqb Bool.eqb negb andb];
    eexists; (split; [apply created_answer_finish; (apply copy_code || apply move_code)|]);
    (split; [right; eauto|discriminate]).

  Ltac cm_depth E HD :=
    destruct (String.eqb (D.h_depth r) "") eqn:D1;
    [cm_call E HD
    |destruct (String.eqb (D.h_depth r) "0") eqn:D2;
     [cm_call E HD
     |destruct (String.eqb (D.h_depth r) "1") eqn:D3;
      [cm_call E HD
      |destruct (String.eqb (D.h_depth r) "infinity") eqn:D4; [cm_call E HD|triv]]]].

  Lemma agree_copymove : D.meth r = "COPY" \/ D.meth r = "MOVE" ->
    exists cs, finish (handle_copymove (dav_backend env) r') = Resp (st (D.do_copy_move root sb r)) cs /\
               (cs = [] \/ exists k dst, cs = [Call k (r_path r') dst]) /\
               (cs = [] -> fst (D.do_copy_move root sb r) = sb).
  Proof.
    intros E. unfold handle_copymove, D.do_copy_move, env.
    rewrite (rm_dest _ _ M), (rm_overwrite _ _ M), (rm_depth _ _ M), (rm_method _ _ M), overwrite_agree, depth_agree.
    destruct (D.h_dest r) as [| |dst] eqn:HD; cbn [dest_of]; [triv|triv|].
    destruct (String.eqb (D.h_overwrite r) "") eqn:O1; [cm_depth E HD|].
    destruct (String.eqb (D.h_overwrite r) "T") eqn:O2; [cm_depth E HD|].
    destruct (String.eqb (D.h_overwrite r) "F") eqn:O3; [cm_depth E HD|triv].
  Qed.
End Agree2.

(** ** the theorem *)

Theorem agrees_with_file_server_model root sb r r' :
  req_match r r' ->
  exists cs,
    ServerTotal.serve (CDav (local_env root sb r) r') = Resp (st (D.serve root sb r)) cs /\
    (cs = [] \/ exists k dst, cs = [Call k (D.rpath r) dst]) /\
    (cs = [] -> fst (D.serve root sb r) = sb).
Proof.
  intros M. cbn [ServerTotal.serve]. unfold serve_dav. cbn [fe_has_fs local_env negb].
  rewrite <- (rm_path _ _ M).
  unfold D.serve, internal_handle. rewrite (rm_method _ _ M).
  destruct (String.eqb (D.meth r) "OPTIONS") eqn:E1.
  { destruct (agree_options root sb r r') as [A B]. exists []. cbn [bk_options dav_backend]. rewrite A. auto. }
  destruct (String.eqb (D.meth r) "GET") eqn:E2.
  { cbn [orb]. destruct (agree_get root sb r r' false) as [A B]. exists []. cbn [bk_headget dav_backend]. rewrite A. auto. }
  destruct (String.eqb (D.meth r) "HEAD") eqn:E3.
  { cbn [orb]. destruct (agree_get root sb r r' true) as [A B]. exists []. cbn [bk_headget dav_backend]. rewrite A. auto. }
  cbn [orb].
  destruct (String.eqb (D.meth r) "PUT") eqn:E4.
  { apply String.eqb_eq in E4. pose proof (agree_put root sb r r' M E4) as A.
    unfold serve_dav in A. cbn [fe_has_fs local_env negb] in A. rewrite internal_put in A by (rewrite (rm_method _ _ M); exact E4).
    eexists. split; [exact A|]. split; [right; eauto|discriminate]. }
  destruct (String.eqb (D.meth r) "DELETE") eqn:E5.
  { apply String.eqb_eq in E5. pose proof (agree_delete root sb r r' M E5) as A.
    unfold serve_dav, internal_handle in A. cbn [fe_has_fs local_env negb] in A.
    rewrite (rm_method _ _ M), E5 in A.
    eexists. split; [exact A|]. split; [right; eauto|discriminate]. }
  destruct (String.eqb (D.meth r) "PROPFIND") eqn:E6.
  { assert (NPP : String.eqb (D.meth r) "PROPPATCH" = false)
      by (apply String.eqb_eq in E6; rewrite E6; reflexivity).
    destruct (agree_propfind root sb r r' M NPP) as [A B]. exists []. rewrite A. auto. }
  destruct (String.eqb (D.meth r) "PROPPATCH") eqn:E7.
  { apply String.eqb_eq in E7. destruct (agree_proppatch root sb r r' M E7) as [A B].
    rewrite E7. replace (String.eqb "PROPPATCH" "MKCOL") with false by reflexivity.
    replace (String.eqb "PROPPATCH" "COPY" || String.eqb "PROPPATCH" "MOVE") with false by reflexivity.
    exists []. rewrite A. auto. }
  destruct (String.eqb (D.meth r) "MKCOL") eqn:E8.
  { apply String.eqb_eq in E8. destruct (agree_mkcol root sb r r' M E8) as (cs & A & B & C).
    unfold serve_dav in A. cbn [fe_has_fs local_env negb] in A. rewrite internal_mkcol in A by (rewrite (rm_method _ _ M); exact E8).
    exists cs. split; [exact A|]. split; [|exact C]. destruct B as [B|B]; [left|right]; eauto. }
  destruct (String.eqb (D.meth r) "COPY" || String.eqb (D.meth r) "MOVE") eqn:E9.
  { apply orb_true_iff in E9.
    assert (E : D.meth r = "COPY" \/ D.meth r = "MOVE") by (destruct E9 as [E|E]; apply String.eqb_eq in E; auto).
    destruct (agree_copymove root sb r r' M E) as (cs & A & B & C). exists cs. auto. }
  exists []. simpl. auto.
Qed.

(** the canonical translation, and the consequences asked for *)
Corollary agrees_canonical root sb r :
  exists cs,
    ServerTotal.serve (CDav (local_env root sb r) (req_of r)) = Resp (st (D.serve root sb r)) cs /\
    (cs = [] -> fst (D.serve root sb r) = sb).
Proof.
  destruct (agrees_with_file_server_model root sb r (req_of r) (req_of_match r)) as (cs & A & _ & C).
  exists cs. auto.
Qed.

Corollary local_env_never_panics root sb r r' :
  req_match r r' -> ServerTotal.serve (CDav (local_env root sb r) r') <> Panicked.
Proof.
  intros M. destruct (agrees_with_file_server_model root sb r r' M) as (cs & A & _). rewrite A. discriminate.
Qed.

(** PROPPATCH: this proof found that DavServer.serve had no case for it and answered 405, where
    internal/server.go decodes the body and asks the backend, which refuses with 403 (or the
    decoding fails: 400) - and so does the real handler over a LocalFileSystem.  DavServer.v has
    since been given that case ([D.do_proppatch]; [D.pf r = PfBad] stands for "the
    propertyupdate body is not decodable", which [pf_reads] ties to [decode_xml_request]); the
    theorem above covers PROPPATCH like every other method, the former witness is kept as an
    example. *)
Definition proppatch_req : D.request :=
  {| D.meth := "PROPPATCH"; D.rpath := "/a"; D.h_depth := ""; D.h_overwrite := ""; D.h_dest := D.DestAbsent;
     D.h_ctype := "application/xml"; D.h_if_match := ""; D.h_if_none_match := ""; D.d_if_match := None;
     D.d_if_none_match := None; D.body := ""; D.body_fails := false; D.pf := D.PfAllProp; D.stamp := 0;
     D.dir_tag := ""; D.mime_tab := []; D.sniffed := "" |}.

Definition proppatch_req' : ServerTotal.request :=
  {| r_method := "PROPPATCH"; r_path := "/a"; r_depth := ""; r_overwrite := ""; r_dest := DAbsent; r_ctype_set := true;
     r_media := "application/xml"; r_media_err := false; r_body_empty := false;
     r_xml := XTree (XElem NS_DAV "propertyupdate" [] []);
     r_ical_ok := false; r_vcard_ok := false; r_url_ok := fun _ => true |}.

Lemma proppatch_example_agrees :
  st (D.serve [] None proppatch_req) = 403 /\
  ServerTotal.serve (CDav (local_env [] None proppatch_req) proppatch_req') = Resp 403 [].
Proof. split; vm_compute; reflexivity. Qed.

(** ** a Destination that parses but has no path (http://host, //host, ?q, #f, mailto:a@b)

    internal/server.go hands [dest.Path = ""] to the backend without looking at it; the
    handler model does the same ([r_dest = DPath ""], the call is recorded with an empty
    destination), so what happens is the FileSystem's answer.  LocalFileSystem refuses it
    (localPath: the cleaned name is not absolute): 400, nothing changes. *)
Lemma segs_of_empty : exists e, D.segs_of "" = D.GErr e /\ D.ecode e = 400.
Proof. eexists. split; reflexivity. Qed.

Lemma checks_empty_dest root sb src ow e :
  D.copy_move_checks root sb src "" ow = D.GErr e -> D.ecode e = 400.
Proof.
  unfold D.copy_move_checks. destruct (D.segs_of src) as [ss|e0] eqn:S.
  - simpl. intros H; inversion H; reflexivity.
  - intros H; inversion H; subst. eapply segs_code; eauto.
Qed.

Lemma checks_empty_dest_err root sb src ow : exists e, D.copy_move_checks root sb src "" ow = D.GErr e.
Proof. unfold D.copy_move_checks. destruct (D.segs_of src); simpl; eauto. Qed.

Lemma empty_dest_400 root sb r :
  D.h_dest r = D.DestPath "" -> st (D.do_copy_move root sb r) = 400 /\ fst (D.do_copy_move root sb r) = sb.
Proof.
  intros HD. unfold D.do_copy_move. rewrite HD.
  destruct (if String.eqb (D.h_overwrite r) "" then _ else _) as [ow|]; [|simpl; auto].
  destruct (if String.eqb (D.h_depth r) "" then _ else _) as [d|]; [|simpl; auto].
  destruct (String.eqb (D.meth r) "COPY").
  - destruct (d =? 1); [simpl; auto|]. unfold D.do_copy.
    destruct (checks_empty_dest_err root sb (D.rpath r) ow) as (e & E). rewrite E. unfold st, D.err_resp. simpl.
    rewrite (checks_empty_dest _ _ _ _ _ E). auto.
  - destruct (negb (d =? 2)); [simpl; auto|]. unfold D.do_move.
    destruct (checks_empty_dest_err root sb (D.rpath r) ow) as (e & E). rewrite E. unfold st, D.err_resp. simpl.
    rewrite (checks_empty_dest _ _ _ _ _ E). auto.
Qed.

Theorem empty_destination_path_file_server root sb r r' :
  req_match r r' -> D.meth r = "COPY" \/ D.meth r = "MOVE" -> D.h_dest r = D.DestPath "" ->
  exists cs, ServerTotal.serve (CDav (local_env root sb r) r') = Resp 400 cs /\ fst (D.serve root sb r) = sb.
Proof.
  intros M E HD. destruct (agrees_with_file_server_model root sb r r' M) as (cs & A & _ & _).
  assert (S : D.serve root sb r = D.do_copy_move root sb r).
  { unfold D.serve. destruct E as [E|E]; rewrite E; reflexivity. }
  rewrite S in A. destruct (empty_dest_400 root sb r HD) as [C U]. rewrite C in A.
  exists cs. rewrite S. auto.
Qed.
